/-
  Helper lemmas for `Scico.Model.LinOps`, part 2: circular / linear convolution, index maps, X-ray mass.
-/
import Scico.Proofs.LinOps
import Scico.Proofs.Shape

namespace Scico.LinOps
open Finset

section Circ
variable {K : Type} [CommRing K]

/-- `j ↦ (s − j) mod n` is an involution on `[0, n)` when `s ≥ n` -/
theorem refl_mod_invol (s n j : Nat) (hs : n ≤ s) (hj : j < n) : (s - (s - j) % n) % n = j := by
  have hn : 0 < n := by omega
  have h1 := Nat.div_add_mod (s - j) n
  have h2 : (s - j) % n < n := Nat.mod_lt _ hn
  obtain ⟨q, hq⟩ : ∃ q, s - (s - j) % n = j + n * q := by
    refine ⟨(s - j) / n, ?_⟩
    generalize (s - j) % n = m at h1 h2
    generalize n * ((s - j) / n) = t at h1 ⊢
    omega
  rw [hq, Nat.add_mul_mod_self_left, Nat.mod_eq_of_lt hj]

theorem sumTo_padTo (h : V K) (k n : Nat) (hk : k ≤ n) (g : Nat → K) :
    sumTo k (fun m => h m * g m) = sumTo n (fun m => padTo h k m * g m) := by
  obtain ⟨d, rfl⟩ := Nat.exists_eq_add_of_le hk
  rw [sumTo_add]
  have e2 : sumTo d (fun j => padTo h k (k + j) * g (k + j)) = 0 := by
    rw [sumTo_congr (g := fun _ => (0 : K)) (fun j _ => by simp [padTo]), sumTo_zero]
  rw [e2, add_zero]
  exact sumTo_congr (fun j hj => by simp [padTo, hj])

/-- the tap-sum form of the circular convolution is multiplication by the documented circulant -/
theorem circEval_eq_mulVec (h : V K) (k n c : Nat) (hk : k ≤ n) (hn : 0 < n) (x : V K) (i : Nat) :
    circEval h k n c x i = mulVec (circMatrix h k n c) n x i := by
  unfold circEval mulVec circMatrix
  rw [sumTo_padTo h k n hk (fun m => x ((i + c + n - m) % n)), sumTo_eq_sum, sumTo_eq_sum]
  refine sum_nbij' (fun m => (i + c + n - m) % n) (fun j => (i + c + n - j) % n) ?_ ?_ ?_ ?_ ?_
  · intro m _; exact mem_range.mpr (Nat.mod_lt _ hn)
  · intro j _; exact mem_range.mpr (Nat.mod_lt _ hn)
  · intro m hm; exact refl_mod_invol _ _ _ (by omega) (mem_range.mp hm)
  · intro j hj; exact refl_mod_invol _ _ _ (by omega) (mem_range.mp hj)
  · intro m hm
    rw [refl_mod_invol _ _ _ (by omega) (mem_range.mp hm)]

omit [CommRing K] in
theorem shiftInvariant_iter (A : M K) (n : Nat) (hA : ShiftInvariant A n) (hn : 0 < n) :
    ∀ (t i j : Nat), i < n → j < n → A ((i + t) % n) ((j + t) % n) = A i j := by
  intro t
  induction t with
  | zero => intro i j hi hj; simp [Nat.mod_eq_of_lt hi, Nat.mod_eq_of_lt hj]
  | succ t ih =>
    intro i j hi hj
    have e1 : (i + (t + 1)) % n = ((i + t) % n + 1) % n := by
      rw [← Nat.add_assoc, Nat.add_mod (i + t) 1 n, Nat.add_mod ((i + t) % n) 1 n, Nat.mod_mod]
    have e2 : (j + (t + 1)) % n = ((j + t) % n + 1) % n := by
      rw [← Nat.add_assoc, Nat.add_mod (j + t) 1 n, Nat.add_mod ((j + t) % n) 1 n, Nat.mod_mod]
    rw [e1, e2, hA _ _ (Nat.mod_lt _ hn) (Nat.mod_lt _ hn), ih i j hi hj]

/-- `from_operator` of a shift-invariant operator reproduces its matrix -/
theorem fromOperator_eq (A : M K) (n d : Nat) (hA : ShiftInvariant A n) (hd : d < n) (i j : Nat)
    (hi : i < n) (hj : j < n) : fromOperatorMatrix A n d i j = A i j := by
  have hn : 0 < n := by omega
  unfold fromOperatorMatrix circMatrix padTo
  simp only [Nat.mod_lt _ hn, if_true]
  have h := shiftInvariant_iter A n hA hn (d + n - j) i j hi hj
  have e1 : i + (d + n - j) = i + d + n - j := by omega
  have e2 : (j + (d + n - j)) % n = d := by
    have : j + (d + n - j) = d + n := by omega
    rw [this, Nat.add_mod_right, Nat.mod_eq_of_lt hd]
  rw [e1, e2] at h
  exact h

/-- the documented matrix is circulant: it commutes with the cyclic shift -/
theorem circMatrix_shiftInvariant (h : V K) (k n c : Nat) : ShiftInvariant (circMatrix h k n c) n := by
  intro i j hi hj
  unfold circMatrix
  congr 1
  by_cases h1 : i + 1 < n <;> by_cases h2 : j + 1 < n
  · rw [Nat.mod_eq_of_lt h1, Nat.mod_eq_of_lt h2]; congr 1; omega
  · have : j + 1 = n := by omega
    rw [Nat.mod_eq_of_lt h1, this, Nat.mod_self]
    have e : i + 1 + c + n - 0 = (i + c + n - j) + n := by omega
    rw [e, Nat.add_mod_right]
  · have : i + 1 = n := by omega
    rw [Nat.mod_eq_of_lt h2, this, Nat.mod_self]
    have e : i + c + n - j = (0 + c + n - (j + 1)) + n := by omega
    rw [e, Nat.add_mod_right]
  · have e1 : i + 1 = n := by omega
    have e2 : j + 1 = n := by omega
    rw [e1, e2, Nat.mod_self]
    congr 1; omega

end Circ

section Conv
variable {K : Type} [CommRing K]

/-- tap-sum form of the full convolution = multiplication by the documented Toeplitz matrix -/
theorem convFull_eq_mulVec (h : V K) (k : Nat) (x : V K) (n : Nat) (i : Nat) :
    convFullEval h k x n i = mulVec (convFullMatrix h k) n x i := by
  unfold convFullEval mulVec convFullMatrix
  rw [sumTo_eq_sum, sumTo_eq_sum]
  have e1 : ∑ m ∈ range k, (if m ≤ i ∧ i - m < n then h m * x (i - m) else 0)
      = ∑ m ∈ (range k).filter (fun m => m ≤ i ∧ i - m < n), h m * x (i - m) := by
    rw [sum_filter]
  have e2 : ∑ j ∈ range n, (if j ≤ i ∧ i - j < k then h (i - j) else 0) * x j
      = ∑ j ∈ (range n).filter (fun j => j ≤ i ∧ i - j < k), h (i - j) * x j := by
    rw [sum_filter]
    exact sum_congr rfl (fun j _ => by split <;> simp)
  rw [e1, e2]
  refine sum_nbij' (fun m => i - m) (fun j => i - j) ?_ ?_ ?_ ?_ ?_
  · intro m hm
    simp only [mem_filter, mem_range] at hm ⊢
    omega
  · intro j hj
    simp only [mem_filter, mem_range] at hj ⊢
    omega
  · intro m hm
    simp only [mem_filter, mem_range] at hm
    omega
  · intro j hj
    simp only [mem_filter, mem_range] at hj
    omega
  · intro m hm
    simp only [mem_filter, mem_range] at hm
    have : i - (i - m) = m := by omega
    rw [this]

theorem convEval_eq_mulVec (mode : ConvMode) (h : V K) (k : Nat) (x : V K) (n : Nat) (i : Nat) :
    convEval mode h k x n i = mulVec (convMatrix mode h k n) n x i := by
  unfold convEval convMatrix
  exact convFull_eq_mulVec h k x n _

/-- every kept output index is an index of the full convolution -/
theorem conv_range (mode : ConvMode) (n1 n2 : Nat) (h1 : 0 < n1) (h2 : 0 < n2)
    (hv : mode = .valid → (n2 ≤ n1 ∨ n1 ≤ n2)) :
    convStart mode n1 n2 + convLen mode n1 n2 ≤ n1 + n2 - 1 := by
  cases mode <;> simp only [convStart, convLen]
  · omega
  · omega
  · have := Nat.div_le_self (n2 - 1) 2
    have := Nat.div_mul_le_self (n2 - 1) 2
    omega

/-- `valid` keeps exactly the outputs whose `min(n,k)` products all lie inside both arrays -/
theorem conv_valid_complete (n k : Nat) (hk : 0 < k) (hkn : k ≤ n) (i : Nat) (hi : i < convLen .valid n k) :
    ∀ m, m < k → m ≤ i + convStart .valid n k ∧ i + convStart .valid n k - m < n := by
  intro m hm
  simp only [convStart, convLen] at *
  omega

end Conv

section Index
variable {K : Type} [CommRing K]

/-- position `t` of a slice lies inside the axis (bounds as established for `slice.indices`) -/
theorem slice_pos_in_range {n : Nat} {a b s : Int} (hs : s ≠ 0)
    (hpos : 0 < s → 0 ≤ a ∧ a ≤ n ∧ 0 ≤ b ∧ b ≤ n)
    (hneg : s < 0 → -1 ≤ a ∧ a ≤ (n : Int) - 1 ∧ -1 ≤ b ∧ b ≤ (n : Int) - 1)
    (t : Nat) (ht : (t : Int) < Shape.rangeLen a b s) : 0 ≤ a + t * s ∧ a + t * s < n := by
  unfold Shape.rangeLen at ht
  by_cases hp : 0 < s
  · obtain ⟨h1, h2, h3, h4⟩ := hpos hp
    simp only [hp, if_true] at ht
    by_cases hab : a < b
    · simp only [hab, if_true] at ht
      have hq : (t : Int) ≤ (b - a - 1) / s := by omega
      have h5 : (t : Int) * s ≤ (b - a - 1) / s * s := Int.mul_le_mul_of_nonneg_right hq (by omega)
      have h6 : (b - a - 1) / s * s ≤ b - a - 1 := Int.ediv_mul_le _ (by omega)
      have h7 : 0 ≤ (t : Int) * s := Int.mul_nonneg (by omega) (by omega)
      omega
    · simp only [hab, if_false] at ht; omega
  · have hn : s < 0 := by omega
    obtain ⟨h1, h2, h3, h4⟩ := hneg hn
    simp only [hp, if_false] at ht
    by_cases hab : b < a
    · simp only [hab, if_true] at ht
      have hq : (t : Int) ≤ (a - b - 1) / (-s) := by omega
      have h5 : (t : Int) * (-s) ≤ (a - b - 1) / (-s) * (-s) := Int.mul_le_mul_of_nonneg_right hq (by omega)
      have h6 : (a - b - 1) / (-s) * (-s) ≤ a - b - 1 := Int.ediv_mul_le _ (by omega)
      have h7 : 0 ≤ (t : Int) * (-s) := Int.mul_nonneg (by omega) (by omega)
      have h8 : (t : Int) * (-s) = -((t : Int) * s) := by ring
      omega
    · simp only [hab, if_false] at ht; omega

/-- element `t` of the enumeration used by C12 is `start + t·step` -/
theorem rangeList_getElem (fuel : Nat) (a b s : Int) (t : Nat) (ht : t < (Shape.rangeList fuel a b s).length) :
    (Shape.rangeList fuel a b s)[t] = a + t * s := by
  induction fuel generalizing a t with
  | zero => simp [Shape.rangeList] at ht
  | succ f ih =>
    unfold Shape.rangeList at ht ⊢
    split at ht
    · rename_i hc
      simp only [hc, if_true]
      cases t with
      | zero => simp
      | succ t =>
        simp only [List.length_cons, Nat.add_lt_add_iff_right] at ht
        simp only [List.getElem_cons_succ]
        rw [ih (a + s) t ht]
        push_cast; ring
    · simp at ht

theorem sliceEval_eq_mulVec (n : Nat) (a s : Int) (x : V K) (t : Nat)
    (h0 : 0 ≤ a + t * s) (h1 : a + t * s < n) :
    sliceEval a s x t = mulVec (sliceMatrix a s) n x t := by
  unfold sliceEval mulVec sliceMatrix
  rw [sumTo_single n (a + t * s).toNat]
  · have : (a + ↑t * s).toNat < n := by omega
    simp [this, Int.toNat_of_nonneg h0]
  · intro j _ hne
    have : ¬ ((j : Int) = a + t * s) := by
      intro hj; apply hne; omega
    simp [this]

theorem padEval_eq_mulVec (lo n : Nat) (x : V K) (i : Nat) :
    padEval lo n x i = mulVec (padMatrix lo) n x i := by
  unfold padEval mulVec padMatrix
  rw [sumTo_single n (i - lo)]
  · by_cases h : lo ≤ i ∧ i < lo + n
    · have h1 : i - lo < n := by omega
      have h2 : i = i - lo + lo := by omega
      simp [h, h1, ← h2]
    · simp only [h, if_false]
      split
      · rename_i h1
        have : ¬ (i = i - lo + lo) := by omega
        simp [this]
      · rfl
  · intro j _ hne
    have : ¬ (i = j + lo) := by omega
    simp [this]

theorem cropEval_eq_mulVec (lo p : Nat) (y : V K) (i : Nat) (hi : i + lo < p) :
    cropEval lo y i = mulVec (cropMatrix lo) p y i := by
  unfold cropEval mulVec cropMatrix
  rw [sumTo_single p (i + lo)]
  · simp [hi]
  · intro j _ hne
    simp [hne]

/-- `Crop` undoes the zero `Pad` -/
theorem crop_pad (lo n : Nat) (x : V K) (i : Nat) (hi : i < n) : cropEval lo (padEval lo n x) i = x i := by
  unfold cropEval padEval
  have : lo ≤ i + lo ∧ i + lo < lo + n := by omega
  simp [this]

/-- `Crop` is the adjoint of the zero `Pad`: `⟨pad x, y⟩ = ⟨x, crop y⟩` -/
theorem pad_crop_adjoint (lo n hi : Nat) (x y : V K) :
    dotTo (lo + n + hi) (padEval lo n x) y = dotTo n x (cropEval lo y) := by
  unfold dotTo
  rw [sumTo_add, sumTo_add]
  have e1 : sumTo lo (fun i => padEval lo n x i * y i) = 0 := by
    rw [sumTo_congr (g := fun _ => (0 : K)) (fun j hj => by
      have : ¬ (lo ≤ j ∧ j < lo + n) := by omega
      simp [padEval, this]), sumTo_zero]
  have e3 : sumTo hi (fun j => padEval lo n x (lo + n + j) * y (lo + n + j)) = 0 := by
    rw [sumTo_congr (g := fun _ => (0 : K)) (fun j _ => by
      have : ¬ (lo ≤ lo + n + j ∧ lo + n + j < lo + n) := by omega
      simp [padEval]), sumTo_zero]
  rw [e1, e3, zero_add, add_zero]
  refine sumTo_congr (fun j hj => ?_)
  have : lo ≤ lo + j ∧ lo + j < lo + n := by omega
  simp [padEval, cropEval, this, Nat.add_comm]

theorem cropOutLen_eq (p lo hi : Nat) : cropOutLen p lo hi = (p : Int) - lo - hi := by
  unfold cropOutLen; push_cast; ring

/-- summing over an axis is `I ⊗ 1ᵀ ⊗ I` -/
theorem sumAxis_eq_mulVec (outer n inner : Nat) (x : V K) (p : Nat) (hp : p < outer * inner) :
    sumAxisEval n inner x p = mulVec (sumAxisMatrix n inner) (outer * n * inner) x p := by
  have h := alongAxis_mulVec outer n 1 inner (fun _ _ => (1 : K)) x p (by simpa using hp)
  unfold alongAxis mulVec kronAxis at h
  unfold sumAxisEval mulVec sumAxisMatrix
  simp only [one_mul] at h
  rw [h]

omit [CommRing K] in
/-- flat positions around two adjacent axes -/
theorem swapAxes_spec (a b inner : Nat) (x : V K) (o i j r : Nat) (hi : i < a) (hj : j < b) (hr : r < inner) :
    swapAxesEval a b inner x (((o * b + j) * a + i) * inner + r) = x (((o * a + i) * b + j) * inner + r) := by
  have hin : 0 < inner := by omega
  have ha : 0 < a := by omega
  have hb : 0 < b := by omega
  unfold swapAxesEval
  obtain ⟨_, e2, e3⟩ := decomp_idx (o * b + j) i r a inner hi hr
  have e4 : (((o * b + j) * a + i) * inner + r) / inner = (o * b + j) * a + i := by
    rw [Nat.add_comm, Nat.add_mul_div_right _ _ hin, Nat.div_eq_of_lt hr, Nat.zero_add]
  have e5 : (((o * b + j) * a + i) * inner + r) / (inner * a) = o * b + j := by
    rw [← Nat.div_div_eq_div_mul, e4, Nat.add_comm, Nat.add_mul_div_right _ _ ha, Nat.div_eq_of_lt hi, Nat.zero_add]
  have e6 : (((o * b + j) * a + i) * inner + r) / (inner * a * b) = o := by
    rw [← Nat.div_div_eq_div_mul, e5, Nat.add_comm, Nat.add_mul_div_right _ _ hb, Nat.div_eq_of_lt hj, Nat.zero_add]
  simp only [e2, e3, e5, e6]
  rw [Nat.add_comm (o * b) j, Nat.add_mul_mod_self_right, Nat.mod_eq_of_lt hj]

end Index

section XRay
variable {K : Type} [CommRing K]

theorem fixNeg_eq_iff (ny : Nat) (i : Int) (b : Nat) (hb : b < ny) : fixNeg ny i = (b : Int) ↔ i = (b : Int) := by
  unfold fixNeg
  split <;> constructor <;> intro h <;> omega

/-- the scatter-add realises the documented two-bin matrix, for every bin index (negative and too large ones
    included: each of the two bins is dropped on its own when it is off the detector) -/
theorem xray_eq_mulVec (np : Nat) (I : Nat → Int) (w x : V K) (ny : Nat)
    (b : Nat) (hb : b < ny) : xrayProject np I w x ny b = mulVec (xrayMatrix I w) np x b := by
  unfold xrayProject mulVec xrayMatrix
  simp only [hb, if_true]
  refine sumTo_congr (fun p _ => ?_)
  simp only [fixNeg_eq_iff ny _ b hb]
  split <;> split <;> ring

theorem sum_ite_int_eq (ny : Nat) (i : Int) (v : K) (h0 : 0 ≤ i) (h1 : i < ny) :
    ∑ b ∈ range ny, (if i = (b : Int) then v else 0) = v := by
  rw [sum_eq_single_of_mem i.toNat (mem_range.mpr (by omega))]
  · simp [Int.toNat_of_nonneg h0]
  · intro b _ hne
    have : ¬ (i = (b : Int)) := by intro h; apply hne; omega
    simp [this]

/-- mass conservation of one view: `Σ_bins y = Σ_pixels x` when every `I` and `I+1` is on the detector -/
theorem xray_mass (np : Nat) (I : Nat → Int) (w x : V K) (ny : Nat)
    (hI : ∀ p, p < np → 0 ≤ I p ∧ I p + 1 < ny) :
    sumTo ny (xrayProject np I w x ny) = sumTo np x := by
  rw [sumTo_eq_sum, sumTo_eq_sum]
  have e : ∀ b ∈ range ny, xrayProject np I w x ny b
      = ∑ p ∈ range np, ((if I p = (b : Int) then w p * x p else 0) + (if I p + 1 = (b : Int) then (1 - w p) * x p else 0)) := by
    intro b hb
    unfold xrayProject
    simp only [mem_range.mp hb, if_true, sumTo_eq_sum]
    refine sum_congr rfl (fun p _ => ?_)
    simp only [fixNeg_eq_iff ny _ b (mem_range.mp hb)]
  rw [sum_congr rfl e, sum_comm]
  refine sum_congr rfl (fun p hp => ?_)
  obtain ⟨h0, h1⟩ := hI p (mem_range.mp hp)
  rw [sum_add_distrib, sum_ite_int_eq ny (I p) _ h0 (by omega), sum_ite_int_eq ny (I p + 1) _ (by omega) h1]
  ring

end XRay

/-! ### general transposition -/
section Transpose

theorem getD_eq_getElem' (l : List Nat) (i d : Nat) (h : i < l.length) : l.getD i d = l[i] := by
  simp [List.getD, h]

theorem inBounds_length : ∀ (dims idx : List Nat), InBounds dims idx → idx.length = dims.length
  | [], [], _ => rfl
  | [], _ :: _, h => by simp [InBounds] at h
  | _ :: _, [], h => by simp [InBounds] at h
  | _ :: ds, _ :: is, h => by simp [inBounds_length ds is h.2]

theorem inBounds_getD : ∀ (dims idx : List Nat), InBounds dims idx → ∀ a, a < dims.length → idx.getD a 0 < dims.getD a 1
  | [], [], _, a, h => by simp at h
  | [], _ :: _, h, _, _ => by simp [InBounds] at h
  | _ :: _, [], h, _, _ => by simp [InBounds] at h
  | d :: ds, i :: is, h, a, ha => by
    cases a with
    | zero => simpa using h.1
    | succ a =>
      have := inBounds_getD ds is h.2 a (by simpa using ha)
      simpa using this

theorem inBounds_map (dims idx : List Nat) (h : InBounds dims idx) :
    ∀ (perm : List Nat), (∀ a ∈ perm, a < dims.length) →
      InBounds (perm.map (fun a => dims.getD a 1)) (perm.map (fun a => idx.getD a 0))
  | [], _ => by simp [InBounds]
  | a :: perm, hp => by
    simp only [List.map_cons, InBounds]
    exact ⟨inBounds_getD dims idx h a (hp a (by simp)), inBounds_map dims idx h perm (fun b hb => hp b (by simp [hb]))⟩

theorem transposeEval_spec {α : Type} (dims perm idx : List Nat) (x : V α)
    (hperm : perm.Perm (List.range dims.length)) (hidx : InBounds dims idx) :
    transposeEval dims perm x
        (ravel (perm.map (fun a => dims.getD a 1)) (perm.map (fun a => idx.getD a 0)))
      = x (ravel dims idx) := by
  have hmem : ∀ a, a ∈ perm ↔ a < dims.length := by
    intro a; rw [hperm.mem_iff]; simp
  have hb := inBounds_map dims idx hidx perm (fun a ha => (hmem a).mp ha)
  unfold transposeEval
  simp only
  rw [unravel_ravel _ _ hb]
  congr 2
  have hlen := inBounds_length dims idx hidx
  apply List.ext_getElem
  · simp [hlen]
  · intro b h1 h2
    simp only [List.getElem_map, List.getElem_range]
    have hbm : b ∈ perm := (hmem b).mpr (by simpa using h1)
    have hlt : perm.idxOf b < perm.length := List.idxOf_lt_length_iff.mpr hbm
    rw [getD_eq_getElem' _ _ _ (by simpa using hlt)]
    simp only [List.getElem_map, List.getElem_idxOf hlt]
    rw [getD_eq_getElem' _ _ _ h2]
end Transpose

/-! ### multi-axis finite differences -/
section FDNd
variable {K : Type} [CommRing K]

theorem fd_axis (c : FDCfg) (outer n inner : Nat) (hn : 0 < n) (x : V K) (p : Nat)
    (hp : p < outer * fdOutLen c n * inner) :
    alongAxis n (fdOutLen c n) inner (fdEval c n) x p
      = mulVec (kronAxis n (fdOutLen c n) inner (fdMatrix c n)) (outer * n * inner) x p := by
  rw [← alongAxis_mulVec outer n (fdOutLen c n) inner (fdMatrix c n) x p hp]
  unfold alongAxis
  have hmi : 0 < fdOutLen c n * inner := by
    rcases Nat.eq_zero_or_pos (fdOutLen c n * inner) with h | h
    · rw [Nat.mul_assoc, h] at hp; simp at hp
    · exact h
  have hm : 0 < fdOutLen c n := Nat.pos_of_mul_pos_right hmi
  exact fdEval_eq_mulVec c n hn _ _ (Nat.mod_lt _ hm)

theorem fdNd_eq_mulVec (c : FDCfg) (N : Nat) (specs : List (Nat × Nat × Nat))
    (hs : ∀ s ∈ specs, s.1 * s.2.1 * s.2.2 = N ∧ 0 < s.2.1) (x : V K) (i : Nat) (hi : i < fdNdRows c specs) :
    fdNdEval c specs x i = mulVec (fdNdMatrix c specs) N x i := by
  induction specs generalizing i with
  | nil => simp [fdNdRows] at hi
  | cons s rest ih =>
    obtain ⟨outer, n, inner⟩ := s
    obtain ⟨hN, hn⟩ := hs (outer, n, inner) (by simp)
    simp only at hN hn
    simp only [fdNdEval, fdNdMatrix, List.map_cons, vstackMatrix, cat, mulVec]
    by_cases h : i < outer * fdOutLen c n * inner
    · simp only [h, if_true]
      rw [fd_axis c outer n inner hn x i h, hN]; rfl
    · simp only [h, if_false]
      have hi' : i - outer * fdOutLen c n * inner < fdNdRows c rest := by
        simp [fdNdRows] at hi ⊢; omega
      rw [ih (fun s hs' => hs s (by simp [hs'])) _ hi']; rfl

end FDNd

/-! ### two-point circular sum -/
section FSum
variable {K : Type} [CommRing K]

theorem fsumEval_eq_mulVec (n : Nat) (hn : 0 < n) (x : V K) (i : Nat) (hi : i < n) :
    fsumEval n x i = mulVec (fsumMatrix n) n x i := by
  unfold fsumEval mulVec fsumMatrix
  have e : ∀ j, ((if j = i then (1 : K) else 0) + (if j = (i + 1) % n then (1 : K) else 0)) * x j
      = (if j = i then (1 : K) else 0) * x j + (if j = (i + 1) % n then (1 : K) else 0) * x j := fun j => by ring
  simp only [e, sumTo_eq_sum, Finset.sum_add_distrib]
  rw [Finset.sum_eq_single_of_mem i (Finset.mem_range.mpr hi) (fun j _ h => by simp [h]),
    Finset.sum_eq_single_of_mem ((i + 1) % n) (Finset.mem_range.mpr (Nat.mod_lt _ hn)) (fun j _ h => by simp [h])]
  simp

end FSum

end Scico.LinOps
