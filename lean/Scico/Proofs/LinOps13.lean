/-
  Helper lemmas for `Scico.Model.LinOps`, part 13 (round 3): the four-pixel scatter of the 3-D X-ray projector,
  mass conservation under the true covering hypothesis (2-D and 3-D).
-/
import Scico.Proofs.LinOps12

namespace Scico.LinOps
open Finset
set_option linter.unusedSectionVars false

section Scatter3
variable {K : Type} [Field K]

theorem onDet_iff (d0 d1 : Nat) (hd1 : 0 < d1) (a b : Int) (q : Nat) (hq : q < d0 * d1) :
    onDet d0 d1 a b q ↔ a = ((q / d1 : Nat) : Int) ∧ b = ((q % d1 : Nat) : Int) := by
  unfold onDet
  have hdiv : q / d1 < d0 := by rw [Nat.div_lt_iff_lt_mul hd1]; exact hq
  have hmod : q % d1 < d1 := Nat.mod_lt _ hd1
  have hq' := Nat.div_add_mod' q d1
  constructor
  · rintro ⟨h0, h1, h2, h3, h4⟩
    obtain ⟨a', rfl⟩ := Int.eq_ofNat_of_zero_le h0
    obtain ⟨b', rfl⟩ := Int.eq_ofNat_of_zero_le h2
    have h4' : a' * d1 + b' = q := by exact_mod_cast h4
    have hb' : b' < d1 := by exact_mod_cast h3
    have e1 : q / d1 = a' := by
      rw [← h4', Nat.add_comm, Nat.add_mul_div_right _ _ hd1, Nat.div_eq_of_lt hb', Nat.zero_add]
    have e2 : q % d1 = b' := by
      rw [← h4', Nat.add_comm, Nat.add_mul_mod_self_right, Nat.mod_eq_of_lt hb']
    rw [e1, e2]; exact ⟨rfl, rfl⟩
  · rintro ⟨rfl, rfl⟩
    refine ⟨by positivity, by exact_mod_cast hdiv, by positivity, by exact_mod_cast hmod, ?_⟩
    exact_mod_cast hq'

theorem ite_and_ind {p q : Prop} [Decidable p] [Decidable q] (v : K) :
    (if p ∧ q then v else 0) = (if p then (1 : K) else 0) * ((if q then (1 : K) else 0) * v) := by
  by_cases hp : p <;> by_cases hq : q <;> simp [hp, hq]

theorem ite_ind {p : Prop} [Decidable p] (v : K) : (if p then v else 0) = (if p then (1 : K) else 0) * v := by
  by_cases hp : p <;> simp [hp]

/-- the four scatter-adds realise the documented product (area-fraction) matrix -/
theorem xray3_eq_mulVec (nv : Nat) (I0 I1 : Nat → Int) (t0 t1 : V K) (w : K) (x : V K) (d0 d1 : Nat)
    (q : Nat) (hq : q < d0 * d1) :
    xray3Project nv I0 I1 t0 t1 w x d0 d1 q = mulVec (xray3Matrix I0 I1 t0 t1 w d1) nv x q := by
  have hd1 : 0 < d1 := by
    rcases Nat.eq_zero_or_pos d1 with h | h
    · subst h; simp at hq
    · exact h
  unfold xray3Project mulVec xray3Matrix binShare
  rw [if_pos hq]
  refine sumTo_congr (fun p _ => ?_)
  simp only [onDet_iff d0 d1 hd1 _ _ q hq, ite_and_ind]
  rw [ite_ind (t0 p / w), ite_ind ((w - t0 p) / w), ite_ind (t1 p / w), ite_ind ((w - t1 p) / w)]
  ring

/-- a footprint with shares `a` (bin `I`) and `b` (bin `I + 1`) deposits `a + b` on a detector of `d` bins when its first
    bin is on the detector and the second one is too, or carries nothing -/
theorem binShare_sum (d : Nat) (I : Int) (a b : K) (h0 : 0 ≤ I) (h1 : I < d) (h2 : I + 1 < d ∨ b = 0) :
    ∑ r ∈ range d, binShare I a b r = a + b := by
  unfold binShare
  rw [sum_add_distrib, sum_ite_int_eq d I a h0 h1]
  rcases h2 with h2 | h2
  · rw [sum_ite_int_eq d (I + 1) b (by omega) h2]
  · subst h2; simp

/-- mass conservation of a 3-D view under the TRUE covering hypothesis: every voxel has its first pixel on the detector
    and, on each axis, the next pixel is on the detector or receives nothing (`t = w`) -/
theorem xray3_mass (nv : Nat) (I0 I1 : Nat → Int) (t0 t1 : V K) (w : K) (hw : w ≠ 0) (x : V K) (d0 d1 : Nat)
    (h0 : ∀ p, p < nv → 0 ≤ I0 p ∧ I0 p < d0 ∧ (I0 p + 1 < d0 ∨ t0 p = w))
    (h1 : ∀ p, p < nv → 0 ≤ I1 p ∧ I1 p < d1 ∧ (I1 p + 1 < d1 ∨ t1 p = w)) :
    sumTo (d0 * d1) (xray3Project nv I0 I1 t0 t1 w x d0 d1) = sumTo nv x := by
  rw [sumTo_eq_sum, sumTo_eq_sum]
  rw [sum_congr rfl (fun q hq => xray3_eq_mulVec nv I0 I1 t0 t1 w x d0 d1 q (mem_range.mp hq))]
  unfold mulVec xray3Matrix
  simp only [sumTo_eq_sum]
  rw [sum_comm]
  refine sum_congr rfl (fun p hp => ?_)
  rcases Nat.eq_zero_or_pos d1 with hd | hd
  · obtain ⟨_, h, _⟩ := h1 p (mem_range.mp hp); subst hd; simp at h; omega
  rw [← sum_mul, sum_range_mul2]
  have e : ∀ r ∈ range d0, ∑ c ∈ range d1,
        binShare (I0 p) (t0 p / w) ((w - t0 p) / w) ((r * d1 + c) / d1)
          * binShare (I1 p) (t1 p / w) ((w - t1 p) / w) ((r * d1 + c) % d1)
      = binShare (I0 p) (t0 p / w) ((w - t0 p) / w) r * ∑ c ∈ range d1, binShare (I1 p) (t1 p / w) ((w - t1 p) / w) c := by
    intro r _
    rw [mul_sum]
    refine sum_congr rfl (fun c hc => ?_)
    have hc' := mem_range.mp hc
    rw [Nat.add_comm, Nat.add_mul_div_right _ _ hd, Nat.div_eq_of_lt hc', Nat.zero_add, Nat.add_mul_mod_self_right,
      Nat.mod_eq_of_lt hc']
  rw [sum_congr rfl e, ← sum_mul]
  obtain ⟨a0, a1, a2⟩ := h0 p (mem_range.mp hp)
  obtain ⟨b0, b1, b2⟩ := h1 p (mem_range.mp hp)
  rw [binShare_sum d0 (I0 p) _ _ a0 a1 (a2.imp id (fun h => by rw [h, sub_self, zero_div])),
    binShare_sum d1 (I1 p) _ _ b0 b1 (b2.imp id (fun h => by rw [h, sub_self, zero_div]))]
  have : t0 p / w + (w - t0 p) / w = 1 := by field_simp; ring
  have : t1 p / w + (w - t1 p) / w = 1 := by field_simp; ring
  simp [*]

end Scatter3

section Mass2
variable {K : Type} [CommRing K]

/-- 2-D: mass conservation of a view under the TRUE covering hypothesis: the first bin of every pixel is on the detector
    and the second one is too or receives nothing (`w = 1`) -/
theorem xray_mass_covered (np : Nat) (I : Nat → Int) (w x : V K) (ny : Nat)
    (hI : ∀ p, p < np → 0 ≤ I p ∧ I p < ny ∧ (I p + 1 < ny ∨ w p = 1)) :
    sumTo ny (xrayProject np I w x ny) = sumTo np x := by
  rw [sumTo_eq_sum, sumTo_eq_sum]
  rw [sum_congr rfl (fun b hb => xray_eq_mulVec np I w x ny b (mem_range.mp hb))]
  unfold mulVec xrayMatrix
  simp only [sumTo_eq_sum]
  rw [sum_comm]
  refine sum_congr rfl (fun p hp => ?_)
  obtain ⟨h0, h1, h2⟩ := hI p (mem_range.mp hp)
  rw [← sum_mul, sum_add_distrib, sum_ite_int_eq ny (I p) _ h0 h1]
  rcases h2 with h2 | h2
  · rw [sum_ite_int_eq ny (I p + 1) _ (by omega) h2]; ring
  · rw [h2]; simp

end Mass2


section Cover
variable {K : Type} [Field K] [LinearOrder K] [IsStrictOrderedRing K]

local instance : HasNat K := ⟨Nat.cast⟩
local instance : HasAbs K := ⟨abs⟩

/-- a footprint `[le, le + w]` (`0 < w`) inside the detector `[0, d]`: its first bin is on the detector, and the next
    one is too or receives nothing -/
theorem x3_cover (fl : K → Int) (hfl : FloorContract fl) (w le : K) (hw : 0 < w) (d : Nat)
    (h0 : 0 ≤ le) (h1 : le + w ≤ (d : K)) :
    0 ≤ fl le ∧ fl le < d ∧ (fl le + 1 < d ∨ x3ToNext fl (fun z => (z : K)) 1 w le = w) := by
  obtain ⟨ha, hb⟩ := hfl le
  have e0 : 0 ≤ fl le := by
    have : ((-1 : Int) : K) < ((fl le : Int) : K) := by push_cast; linarith
    have := Int.cast_lt.mp this
    omega
  have e1 : fl le < d := by
    have : ((fl le : Int) : K) < ((d : Int) : K) := by push_cast; linarith
    exact Int.cast_lt.mp this
  refine ⟨e0, e1, ?_⟩
  by_cases h : fl le + 1 < d
  · exact Or.inl h
  · right
    have h' : (d : Int) ≤ fl le + 1 := by omega
    have : ((d : Int) : K) ≤ ((fl le + 1 : Int) : K) := Int.cast_le.mpr h'
    push_cast at this
    unfold x3ToNext
    exact min_eq_right (by linarith)

/-- 3-D mass conservation from the GEOMETRY: every voxel footprint (square of side `w`, left edges `le0 p`, `le1 p`) lies
    on the detector `[0, d0] × [0, d1]` ⇒ the view conserves the total mass -/
theorem xray3_mass_geometry (fl : K → Int) (hfl : FloorContract fl) (w : K) (hw : 0 < w) (nv : Nat) (le0 le1 : V K)
    (x : V K) (d0 d1 : Nat)
    (hc0 : ∀ p, p < nv → 0 ≤ le0 p ∧ le0 p + w ≤ (d0 : K)) (hc1 : ∀ p, p < nv → 0 ≤ le1 p ∧ le1 p + w ≤ (d1 : K)) :
    sumTo (d0 * d1) (xray3Project nv (fun p => fl (le0 p)) (fun p => fl (le1 p))
        (fun p => x3ToNext fl (fun z => (z : K)) 1 w (le0 p)) (fun p => x3ToNext fl (fun z => (z : K)) 1 w (le1 p)) w x d0 d1)
      = sumTo nv x :=
  xray3_mass nv _ _ _ _ w hw.ne' x d0 d1
    (fun p hp => x3_cover fl hfl w (le0 p) hw d0 (hc0 p hp).1 (hc0 p hp).2)
    (fun p hp => x3_cover fl hfl w (le1 p) hw d1 (hc1 p hp).1 (hc1 p hp).2)

/-- 2-D: a pixel whose boxcar `[Px, Px + width]` lies on the detector `[0, ny]` -/
theorem xray2_cover (g : XGeom K) (fl : K → Int) (hfl : FloorContract fl) (hw : 0 < g.width) (ny : Nat) (i j : Nat)
    (h0 : 0 ≤ g.px i j) (h1 : g.px i j + g.width ≤ (ny : K)) :
    0 ≤ g.ind fl i j ∧ g.ind fl i j < ny ∧ (g.ind fl i j + 1 < ny ∨ g.wt fl (fun z => (z : K)) i j = 1) := by
  obtain ⟨ha, hb⟩ := hfl (g.px i j)
  unfold XGeom.ind
  have e0 : 0 ≤ fl (g.px i j) := by
    have : ((-1 : Int) : K) < ((fl (g.px i j) : Int) : K) := by push_cast; linarith
    have := Int.cast_lt.mp this
    omega
  have e1 : fl (g.px i j) < ny := by
    have : ((fl (g.px i j) : Int) : K) < ((ny : Int) : K) := by push_cast; linarith
    exact Int.cast_lt.mp this
  refine ⟨e0, e1, ?_⟩
  by_cases h : fl (g.px i j) + 1 < ny
  · exact Or.inl h
  · right
    have h' : (ny : Int) ≤ fl (g.px i j) + 1 := by omega
    have : ((ny : Int) : K) ≤ ((fl (g.px i j) + 1 : Int) : K) := Int.cast_le.mpr h'
    push_cast at this
    unfold XGeom.wt
    simp only [HasNat.nat, Nat.cast_one]
    rw [min_eq_right (by linarith), div_self hw.ne']

/-- 2-D mass conservation from the geometry under the TRUE covering hypothesis `0 ≤ Px`, `Px + width ≤ ny` -/
theorem xray_mass_covered_geometry (g : XGeom K) (fl : K → Int) (hfl : FloorContract fl) (hw : 0 < g.width)
    (n0 n1 ny : Nat) (x : V K)
    (hcov : ∀ i j, i < n0 → j < n1 → 0 ≤ g.px i j ∧ g.px i j + g.width ≤ (ny : K)) :
    sumTo ny (xrayProject (n0 * n1) (fun p => g.ind fl (p / n1) (p % n1))
        (fun p => g.wt fl (fun z => (z : K)) (p / n1) (p % n1)) x ny) = sumTo (n0 * n1) x := by
  apply xray_mass_covered
  intro p hp
  have hn1 : 0 < n1 := by
    rcases Nat.eq_zero_or_pos n1 with h | h
    · subst h; simp at hp
    · exact h
  have hi : p / n1 < n0 := by rw [Nat.div_lt_iff_lt_mul hn1]; exact hp
  have hj : p % n1 < n1 := Nat.mod_lt _ hn1
  obtain ⟨a, b⟩ := hcov _ _ hi hj
  exact xray2_cover g fl hfl hw ny _ _ a b

end Cover

end Scico.LinOps
