/-
  The parameter estimators for a norm estimate that is exactly `0` (zero operator, `C17_zero_exact`), over the
  IEEE-extended reals `XR ℝ` of `Model/StepSize.lean` (division by an exact zero is `±inf`, `inf·0 = NaN`):
  `PDHG.estimate_parameters` returns `τ = σ = +inf` and `ProximalADMM/NonLinearPADMM.estimate_parameters` return
  `μ = ν = 0` — the documented strict inequalities `τσ‖C‖² < 1`, `μ > ‖A‖²`, `ν > ‖B‖²` do *not* hold there.
-/
import Scico.Proofs.EstimNorms
import Scico.Proofs.StepSize
import Mathlib.Analysis.SpecialFunctions.Sqrt

set_option linter.unusedSectionVars false

namespace Scico.Estim

open Scico.StepSize Scico.StepSize.XR

theorem pdhgEst_zero (ratio fac : ℝ) (hr : 0 < ratio) (hf : 0 < fac) :
    pdhgEst (fin 0 : XR ℝ) (fin ratio) (some (fin fac)) = (pinf, pinf) := by
  have hs : ¬ (fac * ratio < 0) := not_lt.2 (le_of_lt (mul_pos hf hr))
  have h1 : (HasSqrt.sqrt (fin fac * fin ratio : XR ℝ)) = fin (Real.sqrt (fac * ratio)) := by
    show XR.sqrt (XR.mul (fin fac) (fin ratio)) = _
    simp only [XR.mul, XR.sqrt, if_neg hs]
    rfl
  have h2 : (fin (Real.sqrt (fac * ratio)) * fin 0 : XR ℝ) = fin 0 := by
    show XR.mul _ _ = _
    simp only [XR.mul, mul_zero]
  have h3 : ((1 : XR ℝ) / fin 0) = pinf := by
    show XR.div (fin 1) (fin 0) = _
    simp [XR.div]
  have h4 : (fin ratio * pinf : XR ℝ) = pinf := by
    show XR.mul _ _ = _
    simp [XR.mul, XR.infMul, hr]
  simp only [pdhgEst, h1, h2, h3, h4]

theorem pdhgEst_zero_none (ratio : ℝ) (hr : 0 < ratio) :
    pdhgEst (fin 0 : XR ℝ) (fin ratio) none = (pinf, pinf) := by
  have := pdhgEst_zero ratio 1 hr one_pos
  simpa [pdhgEst] using this

/-- `τ·σ·c²` is NaN for `c = 0` — in particular not `< 1` -/
theorem pdhg_product_zero : ¬ ((pinf : XR ℝ) * pinf * (fin 0 * fin 0) < 1) := by
  show ¬ (XR.lt (XR.mul (XR.mul pinf pinf) (XR.mul (fin 0) (fin 0))) (fin 1) = true)
  simp [XR.mul, XR.infMul, XR.lt]

theorem padmmEst_zero (fac : Option ℝ) :
    padmmEst (fin 0 : XR ℝ) (fin 0) (fac.map fin) = (fin 0, fin 0) := by
  cases fac with
  | none => simp only [padmmEst, Option.map_none]; show (XR.mul _ _, XR.mul _ _) = _; simp [XR.mul]
  | some f =>
    simp only [padmmEst, Option.map_some]
    show (XR.mul (fin f) (XR.mul _ _), XR.mul (fin f) (XR.mul _ _)) = _
    simp [XR.mul]

/-- `μ > ‖A‖²` fails for `‖A‖ = 0` -/
theorem padmm_not_gt_zero : ¬ ((fin 0 * fin 0 : XR ℝ) < fin 0) := by
  show ¬ (XR.lt (XR.mul (fin 0) (fin 0)) (fin 0) = true)
  simp [XR.mul, XR.lt]

end Scico.Estim
