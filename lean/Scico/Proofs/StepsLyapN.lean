/-
  Proofs/StepsLyapN — ADMM Lyapunov descent for `N` constraints (`alpha = 1`).

  The constraints and the per-constraint parts of the state are bundled in rows
  `(c, z, u, us)` so that every sum runs over one list; the ADMM parameters / state of the model are
  recovered with `List.map`.  Same monotone-operator argument as `admm_lyapunov_single`, summed over rows.
-/
import Scico.Model.Steps
import Scico.Proofs.StepsConvex
import Scico.Proofs.StepsFixed
import Scico.Proofs.StepsLyap
import Mathlib.Tactic.Abel

set_option linter.unusedSectionVars false

namespace Scico.Steps

variable {X Z : Type} [NormedAddCommGroup X] [InnerProductSpace ℝ X]
  [NormedAddCommGroup Z] [InnerProductSpace ℝ Z]

local notation "⟪" x ", " y "⟫" => inner ℝ x y

/-- one constraint with its part of the current state (`z`, `u`) and of the KKT point (`us`; `zs = C xs`) -/
structure Row (X Z : Type) where
  c : Con X Z
  z : Z
  u : Z
  us : Z

/-- new `z_i`, `u_i` of a row given the new `x` (documented update, `alpha = 1`) -/
noncomputable def Row.zn (r : Row X Z) (xn : X) : Z := r.c.prox (1 / r.c.rho) (r.c.C xn + r.u)
noncomputable def Row.un (r : Row X Z) (xn : X) : Z := r.u + r.c.C xn - r.zn xn

theorem admmSpecZU_rows (xn : X) (rows : List (Row X Z)) :
    admmSpecZU (1 : ℝ) xn (rows.map (·.c.rho)) (rows.map (·.c.prox)) (rows.map (·.c.C)) (rows.map (·.z))
        (rows.map (·.u))
      = rows.map (fun r => (r.zn xn, r.un xn)) := by
  induction rows with
  | nil => simp [admmSpecZU]
  | cons r rs ih =>
    simp only [List.map_cons, admmSpecZU, ih]
    simp only [one_smul, sub_self, zero_smul, add_zero, Row.zn, Row.un]

theorem xGrad_rows (rows : List (Row X Z)) (zf uf : Row X Z → Z) (x : X) :
    xGrad (rows.map (·.c)) (rows.map zf) (rows.map uf) x
      = (rows.map (fun r => r.c.rho • r.c.Cadj (zf r - uf r - r.c.C x))).sum := by
  unfold xGrad
  congr 1
  induction rows with
  | nil => simp
  | cons r rs ih => simpa using ih

theorem inner_list_sum {ι : Type} (l : List ι) (f : ι → X) (v : X) :
    ⟪(l.map f).sum, v⟫ = (l.map (fun i => ⟪f i, v⟫)).sum := by
  induction l with
  | nil => simp
  | cons a l ih => simp [inner_add_left, ih]

theorem list_sum_map_sub {ι M : Type} [AddCommGroup M] (l : List ι) (f g : ι → M) :
    (l.map f).sum - (l.map g).sum = (l.map (fun i => f i - g i)).sum := by
  induction l with
  | nil => simp
  | cons a l ih =>
    simp only [List.map_cons, List.sum_cons]
    rw [← ih]
    abel

theorem list_sum_map_add' {ι : Type} (l : List ι) (f g : ι → ℝ) :
    (l.map (fun i => f i + g i)).sum = (l.map f).sum + (l.map g).sum := by
  induction l with
  | nil => simp
  | cons a l ih =>
    simp only [List.map_cons, List.sum_cons]
    rw [ih]
    ring

theorem list_sum_le_of_forall {ι : Type} (l : List ι) (f g h : ι → ℝ)
    (H : ∀ i ∈ l, f i + 2 * h i ≤ g i) :
    (l.map f).sum + 2 * (l.map h).sum ≤ (l.map g).sum := by
  induction l with
  | nil => simp
  | cons a l ih =>
    have h1 := H a (by simp)
    have h2 := ih (fun i hi => H i (by simp [hi]))
    simp only [List.map_cons, List.sum_cons]
    linarith

/-- per-row hypotheses -/
structure RowOK (xs : X) (r : Row X Z) : Prop where
  add : ∀ x y, r.c.C (x - y) = r.c.C x - r.c.C y
  adj : ∀ w x, ⟪r.c.Cadj w, x⟫ = ⟪w, r.c.C x⟫
  rho : 0 < r.c.rho
  prox : IsProx r.c.G r.c.prox
  kkt : r.c.G.Subgrad (r.c.C xs) (r.c.rho • r.us)
  pre : r.c.G.Subgrad r.z (r.c.rho • r.u)

/-- `V = Σ ρ_i (‖u_i − u_i*‖² + ‖z_i − C_i x*‖²)` -/
noncomputable def rowsV (xs : X) (rows : List (Row X Z)) (zf uf : Row X Z → Z) : ℝ :=
  (rows.map (fun r => r.c.rho * (‖uf r - r.us‖ ^ 2 + ‖zf r - r.c.C xs‖ ^ 2))).sum

theorem row_ineq (xs xn : X) (r : Row X Z) (h : RowOK xs r) :
    r.c.rho * (‖r.un xn - r.us‖ ^ 2 + ‖r.zn xn - r.c.C xs‖ ^ 2)
        + r.c.rho * (‖r.c.C xn - r.zn xn‖ ^ 2 + ‖r.zn xn - r.z‖ ^ 2)
        + 2 * ⟪r.c.rho • r.c.Cadj (r.z - r.u - r.c.C xn) - r.c.rho • r.c.Cadj (r.c.C xs - r.us - r.c.C xs), xn - xs⟫
      ≤ r.c.rho * (‖r.u - r.us‖ ^ 2 + ‖r.z - r.c.C xs‖ ^ 2) ∧
    r.c.G.Subgrad (r.zn xn) (r.c.rho • r.un xn) := by
  have hb : r.c.G.Subgrad (r.zn xn) (r.c.rho • r.un xn) := by
    have := h.prox (1 / r.c.rho) (by have := h.rho; positivity) (r.c.C xn + r.u)
    rw [one_div_one_div] at this
    have e : r.c.C xn + r.u - r.c.prox (1 / r.c.rho) (r.c.C xn + r.u) = r.un xn := by
      simp only [Row.un, Row.zn]; abel
    rw [e] at this
    exact this
  refine ⟨?_, hb⟩
  have m2 := Fn.subgrad_monotone hb h.kkt
  have m3 := Fn.subgrad_monotone hb h.pre
  set a := r.un xn - r.us
  set d := r.zn xn - r.z
  set rr := r.un xn - r.u
  set e := r.zn xn - r.c.C xs
  have hCx : r.c.C xn = rr + r.zn xn := by simp only [rr, Row.un]; abel
  have hrho := h.rho
  have q2 : 0 ≤ ⟪a, e⟫ := by
    rw [← smul_sub, inner_smul_left] at m2
    simp only [RCLike.conj_to_real] at m2
    by_contra hcon
    push Not at hcon
    have := mul_neg_of_pos_of_neg hrho hcon
    linarith
  have q3 : 0 ≤ ⟪rr, d⟫ := by
    rw [← smul_sub, inner_smul_left] at m3
    simp only [RCLike.conj_to_real] at m3
    by_contra hcon
    push Not at hcon
    have := mul_neg_of_pos_of_neg hrho hcon
    linarith
  -- the x-monotonicity term of this row equals −ρ⟪a+d, rr+e⟫
  have hterm : ⟪r.c.rho • r.c.Cadj (r.z - r.u - r.c.C xn) - r.c.rho • r.c.Cadj (r.c.C xs - r.us - r.c.C xs), xn - xs⟫
      = -(r.c.rho * ⟪a + d, rr + e⟫) := by
    rw [← smul_sub, inner_smul_left]
    simp only [RCLike.conj_to_real]
    rw [inner_sub_left, h.adj, h.adj, ← inner_sub_left, h.add]
    have e1 : r.z - r.u - r.c.C xn - (r.c.C xs - r.us - r.c.C xs) = -(a + d) := by
      rw [hCx]; simp only [a, d, rr]; abel
    have e2 : r.c.C xn - r.c.C xs = rr + e := by rw [hCx]; simp only [e]; abel
    rw [e1, e2, inner_neg_left]
    ring
  rw [hterm]
  have e3 : r.u - r.us = a - rr := by simp only [a, rr]; abel
  have e4 : r.z - r.c.C xs = e - d := by simp only [e, d]; abel
  have e5 : r.c.C xn - r.zn xn = rr := by rw [hCx]; abel
  rw [e3, e4, e5, norm_sub_sq_real a rr, norm_sub_sq_real e d]
  have x1 : ⟪a + d, rr + e⟫ = ⟪a, rr⟫ + ⟪a, e⟫ + ⟪rr, d⟫ + ⟪e, d⟫ := by
    rw [inner_add_left, inner_add_right, inner_add_right, real_inner_comm d rr, real_inner_comm d e]
    ring
  rw [x1]
  nlinarith [mul_nonneg hrho.le q2, mul_nonneg hrho.le q3]

/-- ADMM Lyapunov descent, `N` constraints, `alpha = 1`: from a dual-feasible state one documented
    iteration gives `V⁺ + Σρ_i(‖C_i x⁺ − z_i⁺‖² + ‖z_i⁺ − z_i‖²) ≤ V`, and the new state is dual feasible. -/
theorem admm_lyapunov_rows (rows : List (Row X Z)) (f : Option (X → ℝ)) (solveX : List Z → List Z → X → X)
    (F : Fn X)
    (hsolve : ∀ z u x0, F.Subgrad (solveX z u x0) (xGrad (rows.map (·.c)) z u (solveX z u x0)))
    (xs : X) (hok : ∀ r ∈ rows, RowOK xs r)
    (hkx : F.Subgrad xs (xGrad (rows.map (·.c)) (rows.map (fun r => r.c.C xs)) (rows.map (·.us)) xs))
    (x : X) (zOld : List Z) :
    let xn := solveX (rows.map (·.z)) (rows.map (·.u)) x
    admmSpecStep (admmOfCons f 1 solveX (rows.map (·.c)))
        { x := x, z := rows.map (·.z), zOld := zOld, u := rows.map (·.u) }
      = { x := xn, z := rows.map (fun r => r.zn xn), zOld := rows.map (·.z), u := rows.map (fun r => r.un xn) } ∧
    (∀ r ∈ rows, r.c.G.Subgrad (r.zn xn) (r.c.rho • r.un xn)) ∧
    rowsV xs rows (fun r => r.zn xn) (fun r => r.un xn)
        + (rows.map (fun r => r.c.rho * (‖r.c.C xn - r.zn xn‖ ^ 2 + ‖r.zn xn - r.z‖ ^ 2))).sum
      ≤ rowsV xs rows (·.z) (·.u) := by
  intro xn
  refine ⟨?_, fun r hr => (row_ineq xs xn r (hok r hr)).2, ?_⟩
  · unfold admmSpecStep admmOfCons
    simp only [List.map_map]
    have := admmSpecZU_rows xn rows
    simp only [Function.comp_def] at this ⊢
    rw [this]
    simp [List.map_map, Function.comp_def]
    rfl
  · -- x-update monotonicity, as a sum over rows
    have ha := hsolve (rows.map (·.z)) (rows.map (·.u)) x
    have m1 := Fn.subgrad_monotone ha hkx
    rw [xGrad_rows rows (·.z) (·.u), xGrad_rows rows (fun r => r.c.C xs) (·.us)] at m1
    have hsum := list_sum_map_sub rows (fun r => r.c.rho • r.c.Cadj (r.z - r.u - r.c.C xn))
      (fun r => r.c.rho • r.c.Cadj (r.c.C xs - r.us - r.c.C xs))
    rw [hsum, inner_list_sum] at m1
    have key := list_sum_le_of_forall rows
      (fun r => r.c.rho * (‖r.un xn - r.us‖ ^ 2 + ‖r.zn xn - r.c.C xs‖ ^ 2)
        + r.c.rho * (‖r.c.C xn - r.zn xn‖ ^ 2 + ‖r.zn xn - r.z‖ ^ 2))
      (fun r => r.c.rho * (‖r.u - r.us‖ ^ 2 + ‖r.z - r.c.C xs‖ ^ 2))
      (fun r => ⟪r.c.rho • r.c.Cadj (r.z - r.u - r.c.C xn) - r.c.rho • r.c.Cadj (r.c.C xs - r.us - r.c.C xs), xn - xs⟫)
      (fun r hr => (row_ineq xs xn r (hok r hr)).1)
    have hsplit := list_sum_map_add' rows
      (fun r => r.c.rho * (‖r.un xn - r.us‖ ^ 2 + ‖r.zn xn - r.c.C xs‖ ^ 2))
      (fun r => r.c.rho * (‖r.c.C xn - r.zn xn‖ ^ 2 + ‖r.zn xn - r.z‖ ^ 2))
    rw [hsplit] at key
    unfold rowsV
    linarith

/-- the rows after one iteration -/
noncomputable def rowsNext (rows : List (Row X Z)) (xn : X) : List (Row X Z) :=
  rows.map (fun r => { r with z := r.zn xn, u := r.un xn })

/-- along whole trajectories: `V_k ≤ V_0` for every `k`, from every dual-feasible state -/
theorem admm_lyapunov_rows_traj (cons : List (Con X Z)) (uss : List Z) (f : Option (X → ℝ))
    (solveX : List Z → List Z → X → X) (F : Fn X)
    (hsolve : ∀ z u x0, F.Subgrad (solveX z u x0) (xGrad cons z u (solveX z u x0)))
    (xs : X) (hkx : F.Subgrad xs (xGrad cons (cons.map (fun c => c.C xs)) uss xs)) (k : Nat) :
    ∀ (rows : List (Row X Z)) (x : X) (zOld : List Z),
      rows.map (·.c) = cons → rows.map (·.us) = uss → (∀ r ∈ rows, RowOK xs r) →
      ∃ (rows' : List (Row X Z)) (x' : X) (zOld' : List Z),
        iter (admmSpecStep (admmOfCons f 1 solveX cons)) k
            { x := x, z := rows.map (·.z), zOld := zOld, u := rows.map (·.u) }
          = { x := x', z := rows'.map (·.z), zOld := zOld', u := rows'.map (·.u) } ∧
        rows'.map (·.c) = cons ∧ rows'.map (·.us) = uss ∧ (∀ r ∈ rows', RowOK xs r) ∧
        rowsV xs rows' (·.z) (·.u) ≤ rowsV xs rows (·.z) (·.u) := by
  induction k with
  | zero =>
    intro rows x zOld hc hu hok
    exact ⟨rows, x, zOld, rfl, hc, hu, hok, le_refl _⟩
  | succ k ih =>
    intro rows x zOld hc hu hok
    have hkx' : F.Subgrad xs (xGrad (rows.map (·.c)) (rows.map (fun r => r.c.C xs)) (rows.map (·.us)) xs) := by
      rw [hu, hc]
      have : rows.map (fun r => r.c.C xs) = cons.map (fun c => c.C xs) := by
        rw [← hc, List.map_map]; rfl
      rw [this]; exact hkx
    have hs' : ∀ z u x0, F.Subgrad (solveX z u x0) (xGrad (rows.map (·.c)) z u (solveX z u x0)) := by
      rw [hc]; exact hsolve
    obtain ⟨hstep, hfeas, hdec⟩ := admm_lyapunov_rows rows f solveX F hs' xs hok hkx' x zOld
    set xn := solveX (rows.map (·.z)) (rows.map (·.u)) x with hxn
    have hc' : (rowsNext rows xn).map (·.c) = cons := by
      rw [← hc]; simp [rowsNext, List.map_map, Function.comp_def]
    have hu' : (rowsNext rows xn).map (·.us) = uss := by
      rw [← hu]; simp [rowsNext, List.map_map, Function.comp_def]
    have hok' : ∀ r ∈ rowsNext rows xn, RowOK xs r := by
      intro r hr
      simp only [rowsNext, List.mem_map] at hr
      obtain ⟨r0, hr0, rfl⟩ := hr
      have h0 := hok r0 hr0
      exact ⟨h0.add, h0.adj, h0.rho, h0.prox, h0.kkt, hfeas r0 hr0⟩
    have hz : (rowsNext rows xn).map (·.z) = rows.map (fun r => r.zn xn) := by
      simp [rowsNext, List.map_map, Function.comp_def]
    have hu2 : (rowsNext rows xn).map (·.u) = rows.map (fun r => r.un xn) := by
      simp [rowsNext, List.map_map, Function.comp_def]
    obtain ⟨rows', x', zOld', h1, h2, h3, h4, h5⟩ := ih (rowsNext rows xn) xn (rows.map (·.z)) hc' hu' hok'
    refine ⟨rows', x', zOld', ?_, h2, h3, h4, ?_⟩
    · simp only [iter]
      rw [hc] at hstep
      rw [hstep, ← hz, ← hu2]
      exact h1
    · have hV : rowsV xs (rowsNext rows xn) (·.z) (·.u) = rowsV xs rows (fun r => r.zn xn) (fun r => r.un xn) := by
        simp [rowsV, rowsNext, List.map_map, Function.comp_def]
      have hnn : 0 ≤ (rows.map (fun r => r.c.rho * (‖r.c.C xn - r.zn xn‖ ^ 2 + ‖r.zn xn - r.z‖ ^ 2))).sum := by
        apply List.sum_nonneg
        intro v hv
        simp only [List.mem_map] at hv
        obtain ⟨r, hr, rfl⟩ := hv
        have := (hok r hr).rho
        positivity
      rw [hV] at h5
      linarith

end Scico.Steps
