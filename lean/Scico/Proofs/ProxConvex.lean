/-
  Certificates of the modelled prox maps of the CONVEX functionals (C02): norm-like ("radial")
  functionals through `cert_radial` + a one-dimensional inequality, coordinate-wise ones through the
  product-space lemma, for real vectors, complex vectors and groups.
-/
import Scico.Proofs.ProxBridge
import Mathlib.Tactic.Linarith
import Mathlib.Tactic.Positivity

set_option linter.unusedSectionVars false

namespace Scico.ProxConvex

open Scico Scico.Prox Scico.ProxSpec Scico.ProxBridge WithLp

variable {E : Type*} [NormedAddCommGroup E] [InnerProductSpace ℝ E]

/-- `cert_radial` for a point of the form `c • v`, `0 ≤ c ≤ 1` -/
theorem cert_radial_smul {R : Set ℝ} {φ : ℝ → ℝ} {lam : ℝ} {v : E} {c s : ℝ} (hlam : 0 < lam)
    (hc0 : 0 ≤ c) (hc1 : c ≤ 1) (hs : s = c * ‖v‖) (hsR : s ∈ R)
    (h1 : ∀ r ∈ R, 0 ≤ r → φ s + (‖v‖ - s) / lam * (r - s) ≤ φ r) :
    Cert {x : E | ‖x‖ ∈ R} (fun x => φ ‖x‖) lam v (c • v) := by
  have hn := norm_nonneg v
  refine cert_radial hlam (by rw [hs]; positivity) (by rw [hs]; nlinarith) hsR ?_ ?_ h1
  · rw [norm_smul, Real.norm_eq_abs, abs_of_nonneg hc0, hs]
  · rw [smul_smul, hs, mul_comm]

/-! ### one-dimensional certificates (`t = ‖v‖ ≥ 0`, `s` = norm of the prox point) -/

/-- `φ r = r` (L2 norm, L1 per entry, L2,1 per group): `s = max (t - lam) 0` -/
theorem one_d_norm {t lam : ℝ} (ht : 0 ≤ t) (hlam : 0 < lam) :
    ∀ r, 0 ≤ r → max (t - lam) 0 + (t - max (t - lam) 0) / lam * (r - max (t - lam) 0) ≤ r := by
  intro r hr
  rcases le_total (t - lam) 0 with h | h
  · rw [max_eq_right h]
    have : t / lam ≤ 1 := (div_le_one hlam).mpr (by linarith)
    have h0 : 0 ≤ t / lam := div_nonneg ht hlam.le
    simp only [sub_zero, zero_add]
    nlinarith
  · rw [max_eq_left h]
    have : (t - (t - lam)) / lam = 1 := by field_simp; ring
    rw [this]; linarith

/-- the Huber function of the radius -/
noncomputable def huberFn (delta r : ℝ) : ℝ := if r ≤ delta then r ^ 2 / 2 else delta * (r - delta / 2)

/-- Huber: `s = (1 - delta lam / max t (delta (1+lam))) t` -/
theorem one_d_huber {t lam delta : ℝ} (ht : 0 ≤ t) (hlam : 0 < lam) (hd : 0 < delta) :
    let c := 1 - delta * lam / max t (delta * (1 + lam))
    0 ≤ c ∧ c ≤ 1 ∧ ∀ r, 0 ≤ r →
      huberFn delta (c * t) + (t - c * t) / lam * (r - c * t) ≤ huberFn delta r := by
  intro c
  have hM : 0 < delta * (1 + lam) := by positivity
  have hmax : 0 < max t (delta * (1 + lam)) := lt_of_lt_of_le hM (le_max_right _ _)
  have hq : delta * lam / max t (delta * (1 + lam)) ≤ delta * lam / (delta * (1 + lam)) :=
    div_le_div_of_nonneg_left (by positivity) hM (le_max_right _ _)
  have hq1 : delta * lam / (delta * (1 + lam)) < 1 := by
    rw [div_lt_one hM]; nlinarith
  have hq0 : 0 ≤ delta * lam / max t (delta * (1 + lam)) := by positivity
  refine ⟨by simp only [c]; linarith, by simp only [c]; linarith, fun r hr => ?_⟩
  rcases le_total (delta * (1 + lam)) t with h | h
  · -- far regime : c t = t - delta lam ≥ delta, slope delta
    have hc : c * t = t - delta * lam := by
      simp only [c]; rw [max_eq_left h]
      have : t ≠ 0 := by nlinarith
      field_simp
    have hsl : (t - c * t) / lam = delta := by rw [hc]; field_simp; ring
    rw [hsl, hc]
    have hge : delta ≤ t - delta * lam := by nlinarith
    unfold huberFn
    by_cases hr' : r ≤ delta
    · rw [if_pos hr']
      by_cases hs' : t - delta * lam ≤ delta
      · have : t - delta * lam = delta := le_antisymm hs' hge
        rw [if_pos hs', this]; nlinarith [sq_nonneg (r - delta)]
      · rw [if_neg hs']; nlinarith [sq_nonneg (r - delta)]
    · rw [if_neg hr']
      by_cases hs' : t - delta * lam ≤ delta
      · have : t - delta * lam = delta := le_antisymm hs' hge
        rw [if_pos hs', this]; nlinarith
      · rw [if_neg hs']; nlinarith
  · -- near regime : c t = t/(1+lam) ≤ delta, slope = c t
    have h1l : (0 : ℝ) < 1 + lam := by linarith
    have hc : c * t = t / (1 + lam) := by
      simp only [c]; rw [max_eq_right h]; field_simp; ring
    have hsl : (t - c * t) / lam = t / (1 + lam) := by rw [hc]; field_simp; ring
    rw [hsl, hc]
    set s := t / (1 + lam) with hs
    have hsd : s ≤ delta := by rw [hs, div_le_iff₀ h1l]; linarith
    have hs0 : 0 ≤ s := by positivity
    unfold huberFn
    rw [if_pos hsd]
    by_cases hr' : r ≤ delta
    · rw [if_pos hr']; nlinarith [sq_nonneg (r - s)]
    · rw [if_neg hr']
      push Not at hr'
      nlinarith [mul_nonneg (sub_nonneg.mpr hsd) (by linarith : (0 : ℝ) ≤ r - (delta + s) / 2 + (delta - s) / 2),
        sq_nonneg (delta - s), mul_nonneg (sub_nonneg.mpr hsd) (sub_nonneg.mpr hr'.le)]

/-- ball of radius `rad`: `s = (rad / max t rad) t = min t rad`, `φ = 0` on `[0, rad]` -/
theorem one_d_ball {t lam rad : ℝ} (_ht : 0 ≤ t) (hlam : 0 < lam) (hr : 0 < rad) :
    let c := rad / max t rad
    0 ≤ c ∧ c ≤ 1 ∧ c * t ≤ rad ∧ ∀ r, r ≤ rad → 0 ≤ r → (0 : ℝ) + (t - c * t) / lam * (r - c * t) ≤ 0 := by
  intro c
  have hmax : 0 < max t rad := lt_of_lt_of_le hr (le_max_right _ _)
  have hc0 : 0 ≤ c := by positivity
  have hc1 : c ≤ 1 := (div_le_one hmax).mpr (le_max_right _ _)
  rcases le_total t rad with h | h
  · have hc : c = 1 := by simp only [c]; rw [max_eq_right h]; exact div_self hr.ne'
    refine ⟨hc0, hc1, by rw [hc]; linarith, fun r _ _ => ?_⟩
    rw [hc]; simp
  · have htpos : 0 < t := lt_of_lt_of_le hr h
    have hc : c * t = rad := by simp only [c]; rw [max_eq_left h]; field_simp
    refine ⟨hc0, hc1, by rw [hc], fun r hrr _ => ?_⟩
    rw [hc, zero_add]
    exact mul_nonpos_of_nonneg_of_nonpos (div_nonneg (by linarith) hlam.le) (by linarith)

/-! ### whole-vector functionals on `ℝⁿ` -/

section Vectors
variable {n : Nat}

theorem l2Prox_eq (v : Fin n → ℝ) (lam : ℝ) :
    toE (l2Prox v lam) = (if ‖toE v‖ = 0 then 0 else max (1 - lam / ‖toE v‖) 0) • toE v := by
  unfold l2Prox
  simp only [norm2_eq]
  by_cases h : ‖toE v‖ = 0
  · rw [if_pos ((isZero_iff _).mpr h), if_pos h, toE_smul]
  · have : ¬ isZero ‖toE v‖ = true := fun hh => h ((isZero_iff _).mp hh)
    rw [if_neg this, if_neg h]
    simp only [maxP_eq]
    rw [toE_smul]

/-- the coefficient of `L2Norm.prox` times `‖v‖` is the soft-thresholded norm -/
theorem l2_coeff {t lam : ℝ} (ht : 0 ≤ t) (hlam : 0 < lam) :
    let c := if t = 0 then 0 else max (1 - lam / t) 0
    0 ≤ c ∧ c ≤ 1 ∧ max (t - lam) 0 = c * t := by
  intro c
  by_cases h : t = 0
  · simp only [c, if_pos h, h]
    refine ⟨le_refl _, zero_le_one, ?_⟩
    rw [max_eq_right (by linarith)]; ring
  · have htpos : 0 < t := lt_of_le_of_ne ht (Ne.symm h)
    simp only [c, if_neg h]
    refine ⟨le_max_right _ _, max_le (by have := div_pos hlam htpos; linarith) zero_le_one, ?_⟩
    rcases le_total (t - lam) 0 with h' | h'
    · have : 1 - lam / t ≤ 0 := by
        rw [sub_nonpos, le_div_iff₀ htpos]; linarith
      rw [max_eq_right h', max_eq_right this]; ring
    · have : 0 ≤ 1 - lam / t := by
        rw [sub_nonneg, div_le_one htpos]; linarith
      rw [max_eq_left h', max_eq_left this]; field_simp

/-- L2 norm in any real inner-product space: `p = c • v`, `c = max (1 - lam/‖v‖) 0` (`0` at `v = 0`) -/
theorem cert_norm {lam : ℝ} (hlam : 0 < lam) (v : E) :
    Cert Set.univ (fun x : E => ‖x‖) lam v ((if ‖v‖ = 0 then 0 else max (1 - lam / ‖v‖) 0) • v) := by
  obtain ⟨h0, h1, hs⟩ := l2_coeff (norm_nonneg v) hlam
  have := cert_radial_smul (R := Set.univ) (φ := fun r => r) (v := v) hlam h0 h1 hs (Set.mem_univ _)
    (fun r _ hr => one_d_norm (norm_nonneg v) hlam r hr)
  exact this.congr_dom (by ext; simp)

/-- Huber function of the norm in any real inner-product space -/
theorem cert_huber {lam delta : ℝ} (hlam : 0 < lam) (hd : 0 < delta) (v : E) :
    Cert Set.univ (fun x : E => huberFn delta ‖x‖) lam v
      ((1 - delta * lam / max ‖v‖ (delta * (1 + lam))) • v) := by
  obtain ⟨h0, h1, hc⟩ := one_d_huber (norm_nonneg v) hlam hd
  have := cert_radial_smul (R := Set.univ) (φ := huberFn delta) (v := v) hlam h0 h1 rfl (Set.mem_univ _)
    (fun r _ hr => hc r hr)
  exact this.congr_dom (by ext; simp)

/-- indicator of the closed ball of radius `rad` in any real inner-product space -/
theorem cert_ball {lam rad : ℝ} (hlam : 0 < lam) (hr : 0 < rad) (v : E) :
    Cert {x : E | ‖x‖ ≤ rad} (fun _ => 0) lam v ((rad / max ‖v‖ rad) • v) := by
  obtain ⟨h0, h1, hle, hc⟩ := one_d_ball (norm_nonneg v) hlam hr
  have := cert_radial_smul (R := Set.Iic rad) (φ := fun _ => 0) (v := v) hlam h0 h1 rfl hle
    (fun r hrr hr0 => hc r hrr hr0)
  exact this.congr_dom (by ext; simp)

theorem huberNonsepProx_eq (delta : ℝ) (v : Fin n → ℝ) (lam : ℝ) :
    toE (huberNonsepProx delta v lam) = (1 - delta * lam / max ‖toE v‖ (delta * (1 + lam))) • toE v := by
  unfold huberNonsepProx
  simp only [norm2_eq, maxP_eq]
  rw [toE_smul]

theorem l2ballProx_eq (rad : ℝ) (v : Fin n → ℝ) :
    toE (l2ballProx rad v) = (rad / max ‖toE v‖ rad) • toE v := by
  unfold l2ballProx
  simp only [norm2_eq, maxP_eq]
  rw [← toE_smul]; congr 1; funext i; ring

theorem sqL2Prox_eq (v : Fin n → ℝ) (lam : ℝ) :
    toE (sqL2Prox v lam) = (1 / (1 + 2 * lam)) • toE v := by
  rw [← toE_smul]; congr 1; funext i; unfold sqL2Prox sqL2Prox1; ring

theorem setDistProx_eq (v y : Fin n → ℝ) (lam : ℝ) :
    toE (setDistProx v y lam) =
      (if ‖toE v - toE y‖ < lam then 1 else lam / ‖toE v - toE y‖) • toE y +
      (1 - (if ‖toE v - toE y‖ < lam then 1 else lam / ‖toE v - toE y‖)) • toE v := by
  unfold setDistProx
  have : norm2 (fun i => v i - y i) = ‖toE v - toE y‖ := by
    rw [norm2_eq]; rfl
  simp only [this]
  ext i; simp [toE]

theorem sqSetDistProx_eq (v y : Fin n → ℝ) (lam : ℝ) :
    toE (sqSetDistProx v y lam) = (1 / (1 + lam)) • toE v + (lam * (1 / (1 + lam))) • toE y := by
  unfold sqSetDistProx
  ext i; simp [toE]

end Vectors

/-! ### coordinate-wise functionals: real entries (`E = ℝ`) and complex entries (`E = ℂ`) -/

/-- soft threshold of one real entry carries the certificate of `|·|` -/
theorem cert_abs_real {lam : ℝ} (hlam : 0 < lam) (v : ℝ) :
    Cert Set.univ (fun x : ℝ => ‖x‖) lam v (l1Prox1 v lam) := by
  have hp : l1Prox1 v lam = sign v * max (|v| - lam) 0 := by
    unfold l1Prox1; rw [posPart_eq]; rfl
  rw [hp]
  set s := max (|v| - lam) 0 with hs
  have hs0 : 0 ≤ s := le_max_right _ _
  have hst : s ≤ ‖v‖ := by
    rw [Real.norm_eq_abs, hs]; exact max_le (by linarith) (abs_nonneg v)
  have hnp : ‖sign v * s‖ = s := by
    rw [Real.norm_eq_abs, abs_mul, abs_of_nonneg hs0]
    by_cases hv : v = 0
    · have : s = 0 := by rw [hs, hv, abs_zero, max_eq_right (by linarith)]
      rw [this]; ring
    · rw [abs_sign v hv, one_mul]
  have hal : ‖v‖ • (sign v * s) = s • v := by
    simp only [smul_eq_mul, Real.norm_eq_abs]
    rw [← mul_assoc, sign_mul_abs]; ring
  have := cert_radial (R := Set.univ) (φ := fun r => r) hlam hs0 hst (Set.mem_univ _) hnp hal
    (fun r _ hr => by
      have := one_d_norm (norm_nonneg v) hlam r hr
      rwa [Real.norm_eq_abs] at this ⊢)
  exact this.congr_dom (by ext; simp)

/-- `L1Norm.prox` on one complex entry, as a complex number -/
theorem l1ProxC1_eq (z : ℝ × ℝ) {lam : ℝ} (hlam : 0 < lam) :
    toC (l1ProxC1 z lam) =
      (if ‖toC z‖ = 0 then 0 else max (1 - lam / ‖toC z‖) 0) • toC z := by
  unfold l1ProxC1
  rw [toC_cscale, posPart_eq, cabs_eq]
  unfold cphase
  simp only [cabs_eq]
  by_cases h : ‖toC z‖ = 0
  · have hz : toC z = 0 := norm_eq_zero.mp h
    rw [if_pos h, hz, norm_zero, zero_sub, max_eq_right (by linarith)]; simp
  · have hpos : 0 < ‖toC z‖ := lt_of_le_of_ne (norm_nonneg _) (Ne.symm h)
    rw [if_pos hpos, if_neg h]
    have e : toC (z.1 / ‖toC z‖, z.2 / ‖toC z‖) = (1 / ‖toC z‖) • toC z := by
      apply Complex.ext <;> simp only [toC_re, toC_im, Complex.smul_re, Complex.smul_im, smul_eq_mul] <;> ring
    rw [e, smul_smul]
    congr 1
    rcases le_total (‖toC z‖ - lam) 0 with h' | h'
    · have : 1 - lam / ‖toC z‖ ≤ 0 := by rw [sub_nonpos, le_div_iff₀ hpos]; linarith
      rw [max_eq_right h', max_eq_right this]; ring
    · have : 0 ≤ 1 - lam / ‖toC z‖ := by rw [sub_nonneg, div_le_one hpos]; linarith
      rw [max_eq_left h', max_eq_left this]; field_simp

theorem huberSepProxC1_eq (delta : ℝ) (z : ℝ × ℝ) (lam : ℝ) :
    toC (huberSepProxC1 delta z lam) = (1 - delta * lam / max ‖toC z‖ (delta * (1 + lam))) • toC z := by
  unfold huberSepProxC1
  rw [toC_cscale, maxP_eq, cabs_eq]

theorem huberSepProx1_eq (delta v lam : ℝ) :
    huberSepProx1 delta v lam = (1 - delta * lam / max ‖v‖ (delta * (1 + lam))) • v := by
  unfold huberSepProx1
  rw [maxP_eq, smul_eq_mul, Real.norm_eq_abs]; rfl

end Scico.ProxConvex
