/-
  Helper lemmas for `Scico.Model.LinOps`, part 15 (round 3): the quadrant assembly of the Abel transform is a
  row-wise map with a mirror-symmetric matrix.
-/
import Scico.Proofs.LinOps2

namespace Scico.LinOps
open Finset

section Abel
variable {K : Type} [CommRing K]

/-- left half, mirrored: `Σ_{i<mc} X(mc−1−i)·Q i = Σ_{c<d+mc} [c<mc] X c · Q(mc−1−c)` -/
theorem sum_left_half (d mc : Nat) (X Q : Nat → K) :
    ∑ i ∈ range mc, X (mc - 1 - i) * Q i = ∑ c ∈ range (mc + d), (if c < mc then Q (mc - 1 - c) else 0) * X c := by
  rw [sum_range_add]
  have e1 : ∑ c ∈ range d, (if mc + c < mc then Q (mc - 1 - (mc + c)) else 0) * X (mc + c) = 0 :=
    sum_eq_zero (fun c _ => by rw [if_neg (by omega), zero_mul])
  rw [e1, add_zero, ← Finset.sum_range_reflect (fun c => (if c < mc then Q (mc - 1 - c) else 0) * X c) mc]
  refine sum_congr rfl (fun i hi => ?_)
  have hi' := mem_range.mp hi
  have e : mc - 1 - (mc - 1 - i) = i := by omega
  rw [if_pos (by omega), e]; ring

/-- right half: `Σ_{i<mc} X(d+i)·Q i = Σ_{c<d+mc} [d ≤ c] X c · Q(c−d)` -/
theorem sum_right_half (d mc : Nat) (X Q : Nat → K) :
    ∑ i ∈ range mc, X (d + i) * Q i = ∑ c ∈ range (d + mc), (if d ≤ c then Q (c - d) else 0) * X c := by
  rw [sum_range_add]
  have e1 : ∑ c ∈ range d, (if d ≤ c then Q (c - d) else 0) * X c = 0 :=
    sum_eq_zero (fun c hc => by rw [if_neg (by have := mem_range.mp hc; omega), zero_mul])
  rw [e1, zero_add]
  refine sum_congr rfl (fun i _ => ?_)
  have e : d + i - d = i := by omega
  rw [if_pos (by omega), e]; ring

/-- the quadrant pipeline (extract, flip, `Q·P`, trim, reassemble) acts on every image row by `abelRowMatrix`;
    of `mc = ⌈m/2⌉` only `mc ≤ m` is used, `nc` only decides which (identical) copy of the middle row is kept -/
theorem abelEval_row (P : M K) (n m nc mc : Nat) (hm0 : 0 < m) (hmc : mc ≤ m) (x : V K) (p : Nat)
    (hp : p < n * m) :
    abelEval P n m nc mc x p = ∑ c' ∈ range m, abelRowMatrix P m mc (p % m) c' * x (p / m * m + c') := by
  have hr : p / m < n := by rw [Nat.div_lt_iff_lt_mul hm0]; exact hp
  unfold abelEval abelRowMatrix abelQuad
  simp only [sumTo_eq_sum]
  generalize p / m = r at hr ⊢
  generalize p % m = c
  have hflip : n - 1 - (n - 1 - r) = r := by omega
  obtain ⟨d, rfl⟩ : ∃ d, m = d + mc := ⟨m - mc, by omega⟩
  have hd : d + mc - mc = d := by omega
  simp only [hd, hflip]
  by_cases h1 : r < n - nc <;> by_cases h2 : c < d <;> simp only [h1, h2, if_true, if_false]
  · rw [sum_left_half d mc (fun c' => x (r * (d + mc) + c')) (fun i => P i (mc - 1 - c)), Nat.add_comm mc d]
  · rw [sum_right_half d mc (fun c' => x (r * (d + mc) + c')) (fun i => P i (c - d))]
  · rw [sum_left_half d mc (fun c' => x (r * (d + mc) + c')) (fun i => P i (mc - 1 - c)), Nat.add_comm mc d]
  · rw [sum_right_half d mc (fun c' => x (r * (d + mc) + c')) (fun i => P i (c - d))]

/-- … i.e. the operator is `I_n ⊗ T` with `T = abelRowMatrix P m mc` -/
theorem abelEval_kron (P : M K) (n m nc mc : Nat) (hm0 : 0 < m) (hmc : mc ≤ m) (x : V K) (p : Nat) (hp : p < n * m) :
    abelEval P n m nc mc x p = mulVec (kronAxis m m 1 (abelRowMatrix P m mc)) (n * m * 1) x p := by
  rw [abelEval_row P n m nc mc hm0 hmc x p hp, ← alongAxis_mulVec n m m 1 _ x p (by simpa using hp)]
  unfold alongAxis mulVec
  simp only [sumTo_eq_sum, Nat.mul_one, Nat.div_one, Nat.mod_one, Nat.add_zero]

/-- mirror symmetry of the row matrix for an even number of columns (`m = 2·mc`): flipping the row flips the result -/
theorem abelRowMatrix_mirror (P : M K) (mc c c' : Nat) (hc : c < 2 * mc) (hc' : c' < 2 * mc) :
    abelRowMatrix P (2 * mc) mc (2 * mc - 1 - c) (2 * mc - 1 - c') = abelRowMatrix P (2 * mc) mc c c' := by
  unfold abelRowMatrix
  have e : 2 * mc - mc = mc := by omega
  simp only [e]
  by_cases h1 : c < mc <;> by_cases h2 : c' < mc
  · rw [if_neg (by omega), if_pos (by omega), if_pos h1, if_pos h2]; congr 1 <;> omega
  · rw [if_neg (by omega), if_neg (by omega), if_pos h1, if_neg h2]
  · rw [if_pos (by omega), if_neg (by omega), if_neg h1, if_neg (by omega)]
  · rw [if_pos (by omega), if_pos (by omega), if_neg h1, if_pos (by omega)]; congr 1 <;> omega

end Abel
end Scico.LinOps
