/-
  Closed-form arithmetic of `Convolve` and `CircularConvolve` with operands of the same class: the
  operator built from the combined filter / spectrum is the pointwise combination of the operators
  (bilinearity of the convolution models of engine LinOps, imported read-only).
-/
import Scico.Proofs.LinOps6
import Scico.Proofs.OpAlgSound

namespace Scico.OpAlg
open Scico.DType Scico.LinOps Finset

section
variable {K : Type} [Field K]

/-- the full convolution is linear in the filter -/
theorem convFull_lin (c1 c2 : K) (h1 h2 : LinOps.V K) (k : Nat) (x : LinOps.V K) (n i : Nat) :
    convFullEval (fun m => c1 * h1 m + c2 * h2 m) k x n i
      = c1 * convFullEval h1 k x n i + c2 * convFullEval h2 k x n i := by
  unfold convFullEval
  rw [LinOps.sumTo_eq_sum, LinOps.sumTo_eq_sum, LinOps.sumTo_eq_sum, mul_sum, mul_sum, ← sum_add_distrib]
  refine sum_congr rfl (fun m _ => ?_)
  by_cases hc : m ≤ i ∧ i - m < n
  · simp only [hc, and_self, if_true]; ring
  · simp only [hc, if_false]; ring

theorem convEval_lin (mode : ConvMode) (c1 c2 : K) (h1 h2 : LinOps.V K) (k : Nat) (x : LinOps.V K) (n i : Nat) :
    convEval mode (fun m => c1 * h1 m + c2 * h2 m) k x n i
      = c1 * convEval mode h1 k x n i + c2 * convEval mode h2 k x n i := by
  unfold convEval
  exact convFull_lin c1 c2 h1 h2 k x n _

section
variable [Star K] [HasRe K]
attribute [local instance] starConj

/-- **`Convolve ± Convolve`**: accepted iff same input length, output length, mode and filter length;
    the result convolves with `h_a ± h_b`, which is the pointwise sum / difference of the operators -/
theorem ConvOp.addSub_spec (sub : Bool) (a b : ConvOp K) :
    ((∃ r, ConvOp.addSub sub a b = .ok r) ↔ (a.n = b.n ∧ a.outLen = b.outLen ∧ a.mode = b.mode ∧ a.k = b.k))
    ∧ ∀ r, ConvOp.addSub sub a b = .ok r →
        r.n = a.n ∧ r.k = a.k ∧ r.mode = a.mode ∧ r.outLen = a.outLen
        ∧ r.inDt = resultType a.inDt b.inDt ∧ r.hDt = resultType a.hDt b.hDt
        ∧ ∀ x i, r.eval x i = pm sub (a.eval x i) (b.eval x i) := by
  unfold ConvOp.addSub
  by_cases h1 : a.n ≠ b.n ∨ a.outLen ≠ b.outLen
  · rw [if_pos h1]
    refine ⟨⟨fun ⟨_, h⟩ => (by cases h), fun ⟨q1, q2, _, _⟩ => ?_⟩, fun r h => (by cases h)⟩
    rcases h1 with h1 | h1
    · exact absurd q1 h1
    · exact absurd q2 h1
  · rw [if_neg h1]
    have hn : a.n = b.n := by
      by_contra hc; exact h1 (Or.inl hc)
    have ho : a.outLen = b.outLen := by
      by_contra hc; exact h1 (Or.inr hc)
    by_cases h2 : a.mode ≠ b.mode
    · rw [if_pos h2]
      exact ⟨⟨fun ⟨_, h⟩ => (by cases h), fun ⟨_, _, q, _⟩ => absurd q h2⟩, fun r h => (by cases h)⟩
    · rw [if_neg h2]
      have hm : a.mode = b.mode := by
        by_contra hc; exact h2 hc
      by_cases h3 : a.k ≠ b.k
      · rw [if_pos h3]
        exact ⟨⟨fun ⟨_, h⟩ => (by cases h), fun ⟨_, _, _, q⟩ => absurd q h3⟩, fun r h => (by cases h)⟩
      · rw [if_neg h3]
        have hk : a.k = b.k := by
          by_contra hc; exact h3 hc
        refine ⟨⟨fun _ => ⟨hn, ho, hm, hk⟩, fun _ => ⟨_, rfl⟩⟩, ?_⟩
        intro r h
        injection h with h; subst h
        refine ⟨rfl, rfl, rfl, rfl, rfl, rfl, fun x i => ?_⟩
        show convEval a.mode (fun m => pm sub (a.h m) (b.h m)) a.k x a.n i
          = pm sub (convEval a.mode a.h a.k x a.n i) (convEval b.mode b.h b.k x b.n i)
        rw [← hm, ← hk, ← hn]
        cases sub
        · have := convEval_lin a.mode 1 1 a.h b.h a.k x a.n i
          simp only [one_mul] at this
          simpa [pm] using this
        · have := convEval_lin a.mode 1 (-1) a.h b.h a.k x a.n i
          simp only [one_mul, neg_one_mul, ← sub_eq_add_neg] at this
          simpa [pm] using this

/-- **`c · Convolve`, `Convolve / c`**: accepted iff `c` is scalar-equivalent; the result convolves with
    `h · c` / `h / c`, the scalar multiple / quotient of the operator; dtypes by `result_type` -/
theorem ConvOp.scal_spec (a : ConvOp K) (c : Scal K) :
    ((∃ r, a.smul c = .ok r) ↔ c.kind.isScalarEquiv = true)
    ∧ ((∃ r, a.sdiv c = .ok r) ↔ c.kind.isScalarEquiv = true)
    ∧ (∀ r, a.smul c = .ok r → r.n = a.n ∧ r.k = a.k ∧ r.mode = a.mode
        ∧ r.inDt = resultTypeS a.inDt c.kind.sk ∧ r.hDt = resultTypeS a.hDt c.kind.sk
        ∧ ∀ x i, r.eval x i = c.val * a.eval x i)
    ∧ (∀ r, a.sdiv c = .ok r → r.n = a.n ∧ r.k = a.k ∧ r.mode = a.mode
        ∧ r.inDt = resultTypeS a.inDt c.kind.sk ∧ r.hDt = resultTypeS a.hDt c.kind.sk
        ∧ ∀ x i, r.eval x i = a.eval x i / c.val) := by
  unfold ConvOp.smul ConvOp.sdiv
  by_cases hc : c.kind.isScalarEquiv = true
  · simp only [hc, if_true]
    refine ⟨⟨fun _ => trivial, fun _ => ⟨_, rfl⟩⟩, ⟨fun _ => trivial, fun _ => ⟨_, rfl⟩⟩, ?_, ?_⟩
    · intro r h; injection h with h; subst h
      refine ⟨rfl, rfl, rfl, rfl, rfl, fun x i => ?_⟩
      show convEval a.mode (fun m => a.h m * c.val) a.k x a.n i = c.val * convEval a.mode a.h a.k x a.n i
      have := convEval_lin a.mode c.val 0 a.h a.h a.k x a.n i
      simp only [zero_mul, add_zero] at this
      rw [← this]; congr 1; funext m; ring
    · intro r h; injection h with h; subst h
      refine ⟨rfl, rfl, rfl, rfl, rfl, fun x i => ?_⟩
      show convEval a.mode (fun m => a.h m / c.val) a.k x a.n i = convEval a.mode a.h a.k x a.n i / c.val
      have := convEval_lin a.mode (c.val)⁻¹ 0 a.h a.h a.k x a.n i
      simp only [zero_mul, add_zero] at this
      rw [div_eq_mul_inv, mul_comm, ← this]; congr 1; funext m; rw [div_eq_mul_inv, mul_comm]
  · have hc' : c.kind.isScalarEquiv = false := by simpa using hc
    simp only [hc', Bool.false_eq_true, if_false]
    exact ⟨⟨fun ⟨_, h⟩ => (by cases h), fun h => (by cases h)⟩, ⟨fun ⟨_, h⟩ => (by cases h), fun h => (by cases h)⟩,
      fun r h => (by cases h), fun r h => (by cases h)⟩

end

/-- **`CircularConvolve` closed forms** (`h_dft` combined in the DFT domain, any number of axes): the
    operator with spectrum `c₁·H₁ + c₂·H₂` is `c₁·A₁ + c₂·A₂` — covers `A ± B` (`c = 1, ±1`), `c·A`
    (`c₂ = 0`) and `A/c` (`c₁ = 1/c`) -/
theorem circNdSpec_lin (dims : List Nat) (ws wis : List K) (s c1 c2 : K) (H1 H2 x : LinOps.V K) (p : Nat) :
    circNdSpecEval dims ws wis s (fun f => c1 * H1 f + c2 * H2 f) x p
      = c1 * circNdSpecEval dims ws wis s H1 x p + c2 * circNdSpecEval dims ws wis s H2 x p := by
  unfold circNdSpecEval
  have e : (fun f => (c1 * H1 f + c2 * H2 f) * dftNd dims ws x f)
      = fun q => ∑ a ∈ (Finset.univ : Finset (Fin 2)),
          (if a = 0 then c1 else c2) * (if a = 0 then (fun f => H1 f * dftNd dims ws x f) else (fun f => H2 f * dftNd dims ws x f)) q := by
    funext f
    simp [Fin.sum_univ_two]
    ring
  rw [e, dftNd_lin]
  simp [Fin.sum_univ_two]
  ring

end
end Scico.OpAlg
