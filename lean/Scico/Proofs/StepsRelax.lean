/-
  Proofs/StepsRelax — ADMM with over/under-relaxation `alpha` (Eckstein–Bertsekas; Boyd et al. §3.4.3),
  `N` constraints: the Douglas–Rachford quantity

      W = Σ_i ρ_i ‖(z_i + u_i) − (C_i x* + u_i*)‖²

  satisfies, along the documented iteration from a dual-feasible state,

      W⁺ + α(2−α) Σ_i ρ_i ‖C_i x⁺ − z_i‖² + 2 α m ‖x⁺ − x*‖²  ≤  W

  (`m ≥ 0` the strong-monotonicity modulus of `∂f`; `m = 0` is plain convexity).  Consequences, for
  `0 < α < 2`: `W_k` non-increasing, the terms are summable along every trajectory, hence
  `C_i x_{k+1} − z_i^k → 0`, `z^{k+1} − z^k → 0`, the primal residual `→ 0`, and for strongly convex `f`
  the iterates `x_k` converge to the minimiser — from every start (after the first step every state is
  dual feasible).

  Derivation (per row, `e_z = z − Cx*`, `e_u = u − u*`, `p = Cx⁺ − Cx*`, `q = Cx⁺ − z = p − e_z`):
  `z⁺ + u⁺ = ĉ + u = (z + u) + α q`, so `‖e_s⁺‖² = ‖e_s‖² + 2α⟪e_s,q⟫ + α²‖q‖²` and
  `⟪e_s,q⟫ + ‖q‖² + ⟪e_z − e_u − p, p⟫ = −⟪e_u,e_z⟫`; the third term is the row's share of the
  monotonicity inequality of `∂f` between `x⁺` and `x*`, the right-hand side is `≤ 0` by monotonicity of
  `∂g_i` between the (dual-feasible) current state and the KKT point.
-/
import Scico.Model.Steps
import Scico.Proofs.StepsConvex
import Scico.Proofs.StepsFixed
import Scico.Proofs.StepsLyap
import Scico.Proofs.StepsLyapN
import Mathlib.Analysis.SpecificLimits.Basic
import Mathlib.Topology.Algebra.InfiniteSum.Real
import Mathlib.Tactic.Abel

set_option linter.unusedSectionVars false

namespace Scico.Steps

variable {X Z : Type} [NormedAddCommGroup X] [InnerProductSpace ℝ X]
  [NormedAddCommGroup Z] [InnerProductSpace ℝ Z]

local notation "⟪" x ", " y "⟫" => inner ℝ x y

/-- relaxed point `ĉ_i = α C_i x⁺ + (1−α) z_i` and the documented `z`/`u` update of a row -/
noncomputable def Row.chat (r : Row X Z) (alpha : ℝ) (xn : X) : Z := alpha • r.c.C xn + (1 - alpha) • r.z
noncomputable def Row.znA (r : Row X Z) (alpha : ℝ) (xn : X) : Z := r.c.prox (1 / r.c.rho) (r.chat alpha xn + r.u)
noncomputable def Row.unA (r : Row X Z) (alpha : ℝ) (xn : X) : Z := r.u + r.chat alpha xn - r.znA alpha xn

theorem admmSpecZU_rowsA (alpha : ℝ) (xn : X) (rows : List (Row X Z)) :
    admmSpecZU alpha xn (rows.map (·.c.rho)) (rows.map (·.c.prox)) (rows.map (·.c.C)) (rows.map (·.z))
        (rows.map (·.u))
      = rows.map (fun r => (r.znA alpha xn, r.unA alpha xn)) := by
  induction rows with
  | nil => simp [admmSpecZU]
  | cons r rs ih =>
    simp only [List.map_cons, admmSpecZU, ih]
    rfl

/-- the hypotheses on a row that do not involve the current state -/
structure RowBase (xs : X) (r : Row X Z) : Prop where
  add : ∀ x y, r.c.C (x - y) = r.c.C x - r.c.C y
  adj : ∀ w x, ⟪r.c.Cadj w, x⟫ = ⟪w, r.c.C x⟫
  rho : 0 < r.c.rho
  prox : IsProx r.c.G r.c.prox
  kkt : r.c.G.Subgrad (r.c.C xs) (r.c.rho • r.us)

theorem RowOK.base {xs : X} {r : Row X Z} (h : RowOK xs r) : RowBase xs r :=
  ⟨h.add, h.adj, h.rho, h.prox, h.kkt⟩

theorem RowBase.ok {xs : X} {r : Row X Z} (h : RowBase xs r) (hp : r.c.G.Subgrad r.z (r.c.rho • r.u)) :
    RowOK xs r := ⟨h.add, h.adj, h.rho, h.prox, h.kkt, hp⟩

/-- the new `(z_i, u_i)` of every row is dual feasible, whatever the previous state was -/
theorem row_feasibleA (alpha : ℝ) (xn : X) (r : Row X Z) (hrho : 0 < r.c.rho) (hprox : IsProx r.c.G r.c.prox) :
    r.c.G.Subgrad (r.znA alpha xn) (r.c.rho • r.unA alpha xn) := by
  have := hprox (1 / r.c.rho) (by positivity) (r.chat alpha xn + r.u)
  rw [one_div_one_div] at this
  have e : r.chat alpha xn + r.u - r.c.prox (1 / r.c.rho) (r.chat alpha xn + r.u) = r.unA alpha xn := by
    simp only [Row.unA, Row.znA]; abel
  rw [e] at this
  exact this

/-- `W = Σ ρ_i ‖(z_i + u_i) − (C_i x* + u_i*)‖²` -/
noncomputable def rowsW (xs : X) (rows : List (Row X Z)) (zf uf : Row X Z → Z) : ℝ :=
  (rows.map (fun r => r.c.rho * ‖(zf r + uf r) - (r.c.C xs + r.us)‖ ^ 2)).sum

/-- `Σ ρ_i ‖C_i x⁺ − z_i‖²` -/
noncomputable def rowsQ (rows : List (Row X Z)) (xn : X) : ℝ :=
  (rows.map (fun r => r.c.rho * ‖r.c.C xn - r.z‖ ^ 2)).sum

theorem rowsQ_nonneg (rows : List (Row X Z)) (xn : X) (h : ∀ r ∈ rows, 0 < r.c.rho) : 0 ≤ rowsQ rows xn := by
  apply List.sum_nonneg
  intro v hv
  simp only [List.mem_map] at hv
  obtain ⟨r, hr, rfl⟩ := hv
  have := h r hr
  positivity

theorem rowsW_nonneg (xs : X) (rows : List (Row X Z)) (zf uf : Row X Z → Z) (h : ∀ r ∈ rows, 0 < r.c.rho) :
    0 ≤ rowsW xs rows zf uf := by
  apply List.sum_nonneg
  intro v hv
  simp only [List.mem_map] at hv
  obtain ⟨r, hr, rfl⟩ := hv
  have := h r hr
  positivity

/-- the per-row inequality -/
theorem row_relax (alpha : ℝ) (ha : 0 ≤ alpha) (xs xn : X) (r : Row X Z) (h : RowOK xs r) :
    r.c.rho * ‖(r.znA alpha xn + r.unA alpha xn) - (r.c.C xs + r.us)‖ ^ 2
        + alpha * (2 - alpha) * (r.c.rho * ‖r.c.C xn - r.z‖ ^ 2)
        + 2 * alpha *
          ⟪r.c.rho • r.c.Cadj (r.z - r.u - r.c.C xn) - r.c.rho • r.c.Cadj (r.c.C xs - r.us - r.c.C xs), xn - xs⟫
      ≤ r.c.rho * ‖(r.z + r.u) - (r.c.C xs + r.us)‖ ^ 2 := by
  have hrho := h.rho
  set ez := r.z - r.c.C xs with hez
  set eu := r.u - r.us with heu
  set p := r.c.C xn - r.c.C xs with hp
  have hs : (r.znA alpha xn + r.unA alpha xn) - (r.c.C xs + r.us) = (ez + eu) + alpha • (p - ez) := by
    simp only [Row.unA, Row.chat, hez, heu, hp, sub_smul, one_smul, smul_sub]
    abel
  have hs0 : (r.z + r.u) - (r.c.C xs + r.us) = ez + eu := by simp only [hez, heu]; abel
  have hq : r.c.C xn - r.z = p - ez := by simp only [hez, hp]; abel
  have hterm : ⟪r.c.rho • r.c.Cadj (r.z - r.u - r.c.C xn) - r.c.rho • r.c.Cadj (r.c.C xs - r.us - r.c.C xs), xn - xs⟫
      = r.c.rho * ⟪ez - eu - p, p⟫ := by
    rw [← smul_sub, inner_smul_left]
    simp only [RCLike.conj_to_real]
    rw [inner_sub_left, h.adj, h.adj, ← inner_sub_left, h.add]
    have e1 : r.z - r.u - r.c.C xn - (r.c.C xs - r.us - r.c.C xs) = ez - eu - p := by
      simp only [hez, heu, hp]; abel
    rw [e1]
  have q0 : 0 ≤ ⟪eu, ez⟫ := by
    have m0 := Fn.subgrad_monotone h.pre h.kkt
    rw [← smul_sub, inner_smul_left] at m0
    simp only [RCLike.conj_to_real] at m0
    by_contra hcon
    push Not at hcon
    have := mul_neg_of_pos_of_neg hrho hcon
    linarith
  have hid : ⟪ez + eu, p - ez⟫ + ‖p - ez‖ ^ 2 + ⟪ez - eu - p, p⟫ = -⟪eu, ez⟫ := by
    rw [← real_inner_self_eq_norm_sq]
    simp only [inner_add_left, inner_sub_left, inner_sub_right]
    linarith [real_inner_comm p ez, real_inner_comm eu ez, real_inner_comm eu p]
  rw [hs, hs0, hq, hterm, norm_add_sq_real, inner_smul_right, norm_smul, mul_pow, Real.norm_eq_abs, sq_abs]
  have hn : 0 ≤ ‖p - ez‖ ^ 2 := by positivity
  have key : 2 * alpha * (r.c.rho * (⟪ez + eu, p - ez⟫ + ‖p - ez‖ ^ 2 + ⟪ez - eu - p, p⟫)) ≤ 0 := by
    rw [hid]
    have : 0 ≤ 2 * alpha * (r.c.rho * ⟪eu, ez⟫) := by positivity
    linarith
  nlinarith [key]

theorem list_sum_le_of_forall_c {ι : Type} (l : List ι) (c : ℝ) (f g h : ι → ℝ)
    (H : ∀ i ∈ l, f i + c * h i ≤ g i) :
    (l.map f).sum + c * (l.map h).sum ≤ (l.map g).sum := by
  induction l with
  | nil => simp
  | cons a l ih =>
    have h1 := H a (by simp)
    have h2 := ih (fun i hi => H i (by simp [hi]))
    simp only [List.map_cons, List.sum_cons]
    linarith

theorem list_sum_map_mul_left {ι : Type} (l : List ι) (c : ℝ) (f : ι → ℝ) :
    (l.map (fun i => c * f i)).sum = c * (l.map f).sum := by
  induction l with
  | nil => simp
  | cons a l ih =>
    simp only [List.map_cons, List.sum_cons, ih]
    ring

/-- strong monotonicity of `∂F` with modulus `m` (`m = 0`: monotone, true for every `F`) -/
def StrongSub (F : Fn X) (m : ℝ) : Prop :=
  ∀ x g y h, F.Subgrad x g → F.Subgrad y h → m * ‖x - y‖ ^ 2 ≤ ⟪g - h, x - y⟫

theorem strongSub_zero (F : Fn X) : StrongSub F 0 := by
  intro x g y h hx hy
  have := Fn.subgrad_monotone hx hy
  linarith

/-- the documented step in terms of rows, any `alpha` (no hypotheses) -/
theorem admm_relax_step_eq (alpha : ℝ) (rows : List (Row X Z)) (f : Option (X → ℝ))
    (solveX : List Z → List Z → X → X) (x : X) (zOld : List Z) :
    admmSpecStep (admmOfCons f alpha solveX (rows.map (·.c)))
        { x := x, z := rows.map (·.z), zOld := zOld, u := rows.map (·.u) }
      = { x := solveX (rows.map (·.z)) (rows.map (·.u)) x,
          z := rows.map (fun r => r.znA alpha (solveX (rows.map (·.z)) (rows.map (·.u)) x)),
          zOld := rows.map (·.z),
          u := rows.map (fun r => r.unA alpha (solveX (rows.map (·.z)) (rows.map (·.u)) x)) } := by
  unfold admmSpecStep admmOfCons
  simp only [List.map_map]
  have := admmSpecZU_rowsA alpha (solveX (rows.map (·.z)) (rows.map (·.u)) x) rows
  simp only [Function.comp_def] at this ⊢
  rw [this]
  simp [List.map_map, Function.comp_def]

/-- relaxed ADMM, `N` constraints: one documented iteration from a dual-feasible state -/
theorem admm_relax_descent (alpha : ℝ) (ha : 0 ≤ alpha) (rows : List (Row X Z))
    (solveX : List Z → List Z → X → X) (F : Fn X) (m : ℝ) (hsm : StrongSub F m)
    (hsolve : ∀ z u x0, F.Subgrad (solveX z u x0) (xGrad (rows.map (·.c)) z u (solveX z u x0)))
    (xs : X) (hok : ∀ r ∈ rows, RowOK xs r)
    (hkx : F.Subgrad xs (xGrad (rows.map (·.c)) (rows.map (fun r => r.c.C xs)) (rows.map (·.us)) xs))
    (x : X) :
    let xn := solveX (rows.map (·.z)) (rows.map (·.u)) x
    rowsW xs rows (fun r => r.znA alpha xn) (fun r => r.unA alpha xn)
        + alpha * (2 - alpha) * rowsQ rows xn + 2 * alpha * (m * ‖xn - xs‖ ^ 2)
      ≤ rowsW xs rows (·.z) (·.u) := by
  intro xn
  have hsx := hsolve (rows.map (·.z)) (rows.map (·.u)) x
  have m1 := hsm _ _ _ _ hsx hkx
  rw [xGrad_rows rows (·.z) (·.u), xGrad_rows rows (fun r => r.c.C xs) (·.us)] at m1
  have hsum := list_sum_map_sub rows (fun r => r.c.rho • r.c.Cadj (r.z - r.u - r.c.C xn))
    (fun r => r.c.rho • r.c.Cadj (r.c.C xs - r.us - r.c.C xs))
  rw [hsum, inner_list_sum] at m1
  have key := list_sum_le_of_forall_c rows (2 * alpha)
    (fun r => r.c.rho * ‖(r.znA alpha xn + r.unA alpha xn) - (r.c.C xs + r.us)‖ ^ 2
      + alpha * (2 - alpha) * (r.c.rho * ‖r.c.C xn - r.z‖ ^ 2))
    (fun r => r.c.rho * ‖(r.z + r.u) - (r.c.C xs + r.us)‖ ^ 2)
    (fun r => ⟪r.c.rho • r.c.Cadj (r.z - r.u - r.c.C xn) - r.c.rho • r.c.Cadj (r.c.C xs - r.us - r.c.C xs), xn - xs⟫)
    (fun r hr => row_relax alpha ha xs xn r (hok r hr))
  have hsplit := list_sum_map_add' rows
    (fun r => r.c.rho * ‖(r.znA alpha xn + r.unA alpha xn) - (r.c.C xs + r.us)‖ ^ 2)
    (fun r => alpha * (2 - alpha) * (r.c.rho * ‖r.c.C xn - r.z‖ ^ 2))
  rw [hsplit, list_sum_map_mul_left] at key
  unfold rowsW rowsQ
  have h2a : 0 ≤ 2 * alpha := by linarith
  have := mul_le_mul_of_nonneg_left m1 h2a
  linarith

theorem foldl_zip_eq' {A B : Type} (f : A → B → ℝ) :
    ∀ (l1 : List A) (l2 : List B) (a : ℝ),
      (List.zip l1 l2).foldl (fun acc t => acc + f t.1 t.2) a = a + (List.zipWith f l1 l2).sum := by
  intro l1
  induction l1 with
  | nil => intro l2 a; simp
  | cons x l1 ih =>
    intro l2 a
    cases l2 with
    | nil => simp
    | cons y l2 => simp [ih, add_assoc]

/-! ### whole trajectories -/

theorem iter_succ' {σ : Type} (f : σ → σ) (k : Nat) (s : σ) : iter f (k + 1) s = f (iter f k s) := by
  induction k generalizing s with
  | zero => rfl
  | succ k ih =>
    show iter f (k + 1) (f s) = f (iter f (k + 1) s)
    rw [ih (f s)]
    rfl

theorem tendsto_zero_of_sq_le {a b : ℕ → ℝ} (ha : ∀ k, 0 ≤ a k) (hab : ∀ k, a k ^ 2 ≤ b k)
    (hb : Filter.Tendsto b Filter.atTop (nhds 0)) : Filter.Tendsto a Filter.atTop (nhds 0) := by
  have hs := (Real.continuous_sqrt.tendsto 0).comp hb
  rw [Real.sqrt_zero] at hs
  refine squeeze_zero ha (fun k => ?_) hs
  simp only [Function.comp]
  exact Real.le_sqrt_of_sq_le (hab k)

theorem tendsto_zero_of_partial_sums_le {a : ℕ → ℝ} {c : ℝ} (h0 : ∀ n, 0 ≤ a n)
    (h : ∀ n, ∑ i ∈ Finset.range n, a i ≤ c) : Filter.Tendsto a Filter.atTop (nhds 0) :=
  (summable_of_sum_range_le h0 h).tendsto_atTop_zero

/-- an ADMM state viewed through its rows -/
structure RS (X Z : Type) where
  rows : List (Row X Z)
  x : X
  zOld : List Z

def RS.state (s : RS X Z) : ADMMState X Z :=
  { x := s.x, z := s.rows.map (·.z), zOld := s.zOld, u := s.rows.map (·.u) }

/-- the next `x` -/
def RS.xn (solveX : List Z → List Z → X → X) (s : RS X Z) : X := solveX (s.rows.map (·.z)) (s.rows.map (·.u)) s.x

/-- one documented iteration on rows -/
noncomputable def RS.next (alpha : ℝ) (solveX : List Z → List Z → X → X) (s : RS X Z) : RS X Z :=
  { rows := s.rows.map (fun r => { r with z := r.znA alpha (s.xn solveX), u := r.unA alpha (s.xn solveX) }),
    x := s.xn solveX, zOld := s.rows.map (·.z) }

theorem RS.next_c (alpha : ℝ) (solveX : List Z → List Z → X → X) (s : RS X Z) :
    (s.next alpha solveX).rows.map (·.c) = s.rows.map (·.c) := by
  simp [RS.next, List.map_map, Function.comp_def]

theorem RS.next_us (alpha : ℝ) (solveX : List Z → List Z → X → X) (s : RS X Z) :
    (s.next alpha solveX).rows.map (·.us) = s.rows.map (·.us) := by
  simp [RS.next, List.map_map, Function.comp_def]

theorem RS.step_eq (alpha : ℝ) (f : Option (X → ℝ)) (solveX : List Z → List Z → X → X) (s : RS X Z) :
    admmSpecStep (admmOfCons f alpha solveX (s.rows.map (·.c))) s.state = (s.next alpha solveX).state := by
  unfold RS.state
  rw [admm_relax_step_eq]
  simp [RS.next, RS.xn, List.map_map, Function.comp_def]

theorem RS.iter_eq (alpha : ℝ) (f : Option (X → ℝ)) (solveX : List Z → List Z → X → X) (cons : List (Con X Z)) :
    ∀ (k : Nat) (s : RS X Z), s.rows.map (·.c) = cons →
      iter (admmSpecStep (admmOfCons f alpha solveX cons)) k s.state = (iter (RS.next alpha solveX) k s).state ∧
      (iter (RS.next alpha solveX) k s).rows.map (·.c) = cons := by
  intro k
  induction k with
  | zero => intro s hs; exact ⟨rfl, hs⟩
  | succ k ih =>
    intro s hs
    have h1 := RS.step_eq alpha f solveX s
    rw [hs] at h1
    have h2 := ih (s.next alpha solveX) (by rw [RS.next_c, hs])
    simp only [iter]
    rw [h1]
    exact h2

/-- per-state hypotheses: the constraint part / the KKT multipliers are those of the problem, rows satisfy `RowBase` -/
structure RS.Base (xs : X) (cons : List (Con X Z)) (uss : List Z) (s : RS X Z) : Prop where
  hc : s.rows.map (·.c) = cons
  hu : s.rows.map (·.us) = uss
  hb : ∀ r ∈ s.rows, RowBase xs r

/-- additionally dual feasible -/
structure RS.OK (xs : X) (cons : List (Con X Z)) (uss : List Z) (s : RS X Z) : Prop extends RS.Base xs cons uss s where
  hpre : ∀ r ∈ s.rows, r.c.G.Subgrad r.z (r.c.rho • r.u)

/-- after one documented iteration from ANY state the state is dual feasible -/
theorem RS.next_ok (alpha : ℝ) (solveX : List Z → List Z → X → X) {xs : X} {cons : List (Con X Z)} {uss : List Z}
    {s : RS X Z} (h : RS.Base xs cons uss s) : RS.OK xs cons uss (s.next alpha solveX) := by
  refine ⟨⟨by rw [RS.next_c]; exact h.hc, by rw [RS.next_us]; exact h.hu, ?_⟩, ?_⟩
  · intro r hr
    simp only [RS.next, List.mem_map] at hr
    obtain ⟨r0, hr0, rfl⟩ := hr
    have h0 := h.hb r0 hr0
    exact ⟨h0.add, h0.adj, h0.rho, h0.prox, h0.kkt⟩
  · intro r hr
    simp only [RS.next, List.mem_map] at hr
    obtain ⟨r0, hr0, rfl⟩ := hr
    have h0 := h.hb r0 hr0
    exact row_feasibleA alpha _ r0 h0.rho h0.prox

theorem RS.iter_ok (alpha : ℝ) (solveX : List Z → List Z → X → X) {xs : X} {cons : List (Con X Z)} {uss : List Z} :
    ∀ (k : Nat) {s : RS X Z}, RS.OK xs cons uss s → RS.OK xs cons uss (iter (RS.next alpha solveX) k s) := by
  intro k
  induction k with
  | zero => intro s h; exact h
  | succ k ih => intro s h; exact ih (RS.next_ok alpha solveX h.toBase)

noncomputable def RS.W (xs : X) (s : RS X Z) : ℝ := rowsW xs s.rows (·.z) (·.u)

/-- the decrease of `W` in the step that leaves `s` -/
noncomputable def RS.D (alpha m : ℝ) (xs : X) (solveX : List Z → List Z → X → X) (s : RS X Z) : ℝ :=
  alpha * (2 - alpha) * rowsQ s.rows (s.xn solveX) + 2 * alpha * (m * ‖s.xn solveX - xs‖ ^ 2)

/-- the problem-level hypotheses of the relaxed-ADMM theorems -/
structure RelaxHyp (alpha m : ℝ) (cons : List (Con X Z)) (uss : List Z) (solveX : List Z → List Z → X → X)
    (F : Fn X) (xs : X) : Prop where
  a0 : 0 ≤ alpha
  a2 : alpha ≤ 2
  m0 : 0 ≤ m
  strong : StrongSub F m
  solve : ∀ z u x0, F.Subgrad (solveX z u x0) (xGrad cons z u (solveX z u x0))
  kktx : F.Subgrad xs (xGrad cons (cons.map (fun c => c.C xs)) uss xs)

theorem RS.W_next (alpha : ℝ) (solveX : List Z → List Z → X → X) (xs : X) (s : RS X Z) :
    (s.next alpha solveX).W xs
      = rowsW xs s.rows (fun r => r.znA alpha (s.xn solveX)) (fun r => r.unA alpha (s.xn solveX)) := by
  simp [RS.W, RS.next, rowsW, List.map_map, Function.comp_def]

theorem RS.descent {alpha m : ℝ} {cons : List (Con X Z)} {uss : List Z} {solveX : List Z → List Z → X → X}
    {F : Fn X} {xs : X} (H : RelaxHyp alpha m cons uss solveX F xs) {s : RS X Z} (h : RS.OK xs cons uss s) :
    (s.next alpha solveX).W xs + s.D alpha m xs solveX ≤ s.W xs := by
  rw [RS.W_next]
  have hs' : ∀ z u x0, F.Subgrad (solveX z u x0) (xGrad (s.rows.map (·.c)) z u (solveX z u x0)) := by
    rw [h.hc]; exact H.solve
  have hkx' : F.Subgrad xs (xGrad (s.rows.map (·.c)) (s.rows.map (fun r => r.c.C xs)) (s.rows.map (·.us)) xs) := by
    rw [h.hu, h.hc]
    have : s.rows.map (fun r => r.c.C xs) = cons.map (fun c => c.C xs) := by
      rw [← h.hc, List.map_map]; rfl
    rw [this]; exact H.kktx
  have := admm_relax_descent alpha H.a0 s.rows solveX F m H.strong hs' xs
    (fun r hr => (h.hb r hr).ok (h.hpre r hr)) hkx' s.x
  simp only [RS.D, RS.xn, RS.W] at this ⊢
  linarith

theorem RS.D_nonneg {alpha m : ℝ} {cons : List (Con X Z)} {uss : List Z} {solveX : List Z → List Z → X → X}
    {F : Fn X} {xs : X} (H : RelaxHyp alpha m cons uss solveX F xs) {s : RS X Z} (h : RS.Base xs cons uss s) :
    0 ≤ s.D alpha m xs solveX := by
  have hq := rowsQ_nonneg s.rows (s.xn solveX) (fun r hr => (h.hb r hr).rho)
  have h1 : 0 ≤ alpha * (2 - alpha) := mul_nonneg H.a0 (by linarith [H.a2])
  have h2 : 0 ≤ m * ‖s.xn solveX - xs‖ ^ 2 := mul_nonneg H.m0 (by positivity)
  unfold RS.D
  have := mul_nonneg h1 hq
  have := mul_nonneg (by linarith [H.a0] : (0 : ℝ) ≤ 2 * alpha) h2
  linarith

theorem RS.W_nonneg {xs : X} {cons : List (Con X Z)} {uss : List Z} {s : RS X Z} (h : RS.Base xs cons uss s) :
    0 ≤ s.W xs := rowsW_nonneg xs s.rows _ _ (fun r hr => (h.hb r hr).rho)

/-- telescoped: `Σ_{j<k} D_j + W_k ≤ W_0` -/
theorem RS.sum_descent {alpha m : ℝ} {cons : List (Con X Z)} {uss : List Z} {solveX : List Z → List Z → X → X}
    {F : Fn X} {xs : X} (H : RelaxHyp alpha m cons uss solveX F xs) {s : RS X Z} (h : RS.OK xs cons uss s) (k : Nat) :
    (∑ j ∈ Finset.range k, (iter (RS.next alpha solveX) j s).D alpha m xs solveX)
        + (iter (RS.next alpha solveX) k s).W xs ≤ s.W xs := by
  induction k with
  | zero => simp [iter]
  | succ k ih =>
    rw [Finset.sum_range_succ, iter_succ']
    have := RS.descent H (RS.iter_ok alpha solveX k h)
    linarith

/-- `W_k` is non-increasing and the decreases are summable, so they tend to `0` -/
theorem RS.W_mono {alpha m : ℝ} {cons : List (Con X Z)} {uss : List Z} {solveX : List Z → List Z → X → X}
    {F : Fn X} {xs : X} (H : RelaxHyp alpha m cons uss solveX F xs) {s : RS X Z} (h : RS.OK xs cons uss s) (k : Nat) :
    (iter (RS.next alpha solveX) (k + 1) s).W xs ≤ (iter (RS.next alpha solveX) k s).W xs := by
  rw [iter_succ']
  have hk := RS.iter_ok alpha solveX k h
  have := RS.descent H hk
  have := RS.D_nonneg H hk.toBase
  linarith

theorem RS.D_tendsto {alpha m : ℝ} {cons : List (Con X Z)} {uss : List Z} {solveX : List Z → List Z → X → X}
    {F : Fn X} {xs : X} (H : RelaxHyp alpha m cons uss solveX F xs) {s : RS X Z} (h : RS.OK xs cons uss s) :
    Filter.Tendsto (fun k => (iter (RS.next alpha solveX) k s).D alpha m xs solveX) Filter.atTop (nhds 0) := by
  apply tendsto_zero_of_partial_sums_le (c := s.W xs)
  · intro n; exact RS.D_nonneg H (RS.iter_ok alpha solveX n h).toBase
  · intro n
    have := RS.sum_descent H h n
    have := RS.W_nonneg (RS.iter_ok alpha solveX n h).toBase
    linarith

/-! ### consequences: residuals and iterates -/

/-- `‖z_i⁺ − z_i‖ ≤ α ‖C_i x⁺ − z_i‖` from a dual-feasible state (monotonicity of `∂g_i` between consecutive iterates) -/
theorem row_dz_le (alpha : ℝ) (ha : 0 ≤ alpha) (xn : X) (r : Row X Z) (hrho : 0 < r.c.rho)
    (hprox : IsProx r.c.G r.c.prox) (hpre : r.c.G.Subgrad r.z (r.c.rho • r.u)) :
    ‖r.znA alpha xn - r.z‖ ≤ alpha * ‖r.c.C xn - r.z‖ := by
  have hb := row_feasibleA alpha xn r hrho hprox
  have m3 := Fn.subgrad_monotone hb hpre
  rw [← smul_sub, inner_smul_left] at m3
  simp only [RCLike.conj_to_real] at m3
  set d := r.znA alpha xn - r.z with hd
  set q := r.c.C xn - r.z with hq
  have e : r.unA alpha xn - r.u = alpha • q - d := by
    simp only [Row.unA, Row.chat, hd, hq, sub_smul, one_smul, smul_sub]
    abel
  rw [e] at m3
  have h3 : 0 ≤ ⟪alpha • q - d, d⟫ := by
    by_contra hcon
    push Not at hcon
    have := mul_neg_of_pos_of_neg hrho hcon
    linarith
  rw [inner_sub_left, inner_smul_left, real_inner_self_eq_norm_sq] at h3
  simp only [RCLike.conj_to_real] at h3
  have hcs := real_inner_le_norm q d
  have h0 : 0 ≤ ‖d‖ := norm_nonneg _
  have hq0 : 0 ≤ ‖q‖ := norm_nonneg _
  by_cases hz : ‖d‖ = 0
  · rw [hz]; positivity
  · have hpos : 0 < ‖d‖ := lt_of_le_of_ne h0 (Ne.symm hz)
    have : ‖d‖ * ‖d‖ ≤ (alpha * ‖q‖) * ‖d‖ := by
      have := mul_le_mul_of_nonneg_left hcs ha
      nlinarith
    exact le_of_mul_le_mul_right this hpos

/-- `‖C_i x⁺ − z_i⁺‖ ≤ (1+α) ‖C_i x⁺ − z_i‖` -/
theorem row_primal_le (alpha : ℝ) (ha : 0 ≤ alpha) (xn : X) (r : Row X Z) (hrho : 0 < r.c.rho)
    (hprox : IsProx r.c.G r.c.prox) (hpre : r.c.G.Subgrad r.z (r.c.rho • r.u)) :
    ‖r.c.C xn - r.znA alpha xn‖ ≤ (1 + alpha) * ‖r.c.C xn - r.z‖ := by
  have h1 := row_dz_le alpha ha xn r hrho hprox hpre
  have e : r.c.C xn - r.znA alpha xn = (r.c.C xn - r.z) - (r.znA alpha xn - r.z) := by abel
  rw [e]
  have := norm_sub_le (r.c.C xn - r.z) (r.znA alpha xn - r.z)
  linarith

/-- `Σ ρ_i ‖C_i x − z_i‖²` at the current `x` : the square of `norm_primal_residual()` -/
noncomputable def RS.primalSq (s : RS X Z) : ℝ := (s.rows.map (fun r => r.c.rho * ‖r.c.C s.x - r.z‖ ^ 2)).sum

/-- `Σ ρ_i ‖z_i − z_i^old‖²` in the step that leaves `s` -/
noncomputable def RS.dzSq (alpha : ℝ) (solveX : List Z → List Z → X → X) (s : RS X Z) : ℝ :=
  (s.rows.map (fun r => r.c.rho * ‖r.znA alpha (s.xn solveX) - r.z‖ ^ 2)).sum

theorem list_sum_le_sum {ι : Type} (l : List ι) (f g : ι → ℝ) (H : ∀ i ∈ l, f i ≤ g i) :
    (l.map f).sum ≤ (l.map g).sum := by
  induction l with
  | nil => simp
  | cons a l ih =>
    have h1 := H a (by simp)
    have h2 := ih (fun i hi => H i (by simp [hi]))
    simp only [List.map_cons, List.sum_cons]
    linarith

theorem RS.primalSq_next_le (alpha : ℝ) (ha : 0 ≤ alpha) (solveX : List Z → List Z → X → X) {xs : X}
    {cons : List (Con X Z)} {uss : List Z} {s : RS X Z} (h : RS.OK xs cons uss s) :
    (s.next alpha solveX).primalSq ≤ (1 + alpha) ^ 2 * rowsQ s.rows (s.xn solveX) := by
  unfold RS.primalSq rowsQ
  rw [← list_sum_map_mul_left]
  simp only [RS.next, List.map_map, Function.comp_def]
  apply list_sum_le_sum
  intro r hr
  have hb := h.hb r hr
  have h1 := row_primal_le alpha ha (s.xn solveX) r hb.rho hb.prox (h.hpre r hr)
  have h0 : 0 ≤ ‖r.c.C (s.xn solveX) - r.znA alpha (s.xn solveX)‖ := norm_nonneg _
  have h2 : ‖r.c.C (s.xn solveX) - r.znA alpha (s.xn solveX)‖ ^ 2 ≤ ((1 + alpha) * ‖r.c.C (s.xn solveX) - r.z‖) ^ 2 :=
    pow_le_pow_left₀ h0 h1 2
  have := mul_le_mul_of_nonneg_left h2 hb.rho.le
  calc r.c.rho * ‖r.c.C (s.xn solveX) - r.znA alpha (s.xn solveX)‖ ^ 2
      ≤ r.c.rho * ((1 + alpha) * ‖r.c.C (s.xn solveX) - r.z‖) ^ 2 := this
    _ = (1 + alpha) ^ 2 * (r.c.rho * ‖r.c.C (s.xn solveX) - r.z‖ ^ 2) := by ring

theorem RS.dzSq_le (alpha : ℝ) (ha : 0 ≤ alpha) (solveX : List Z → List Z → X → X) {xs : X}
    {cons : List (Con X Z)} {uss : List Z} {s : RS X Z} (h : RS.OK xs cons uss s) :
    s.dzSq alpha solveX ≤ alpha ^ 2 * rowsQ s.rows (s.xn solveX) := by
  unfold RS.dzSq rowsQ
  rw [← list_sum_map_mul_left]
  apply list_sum_le_sum
  intro r hr
  have hb := h.hb r hr
  have h1 := row_dz_le alpha ha (s.xn solveX) r hb.rho hb.prox (h.hpre r hr)
  have h0 : 0 ≤ ‖r.znA alpha (s.xn solveX) - r.z‖ := norm_nonneg _
  have h2 : ‖r.znA alpha (s.xn solveX) - r.z‖ ^ 2 ≤ (alpha * ‖r.c.C (s.xn solveX) - r.z‖) ^ 2 :=
    pow_le_pow_left₀ h0 h1 2
  have := mul_le_mul_of_nonneg_left h2 hb.rho.le
  calc r.c.rho * ‖r.znA alpha (s.xn solveX) - r.z‖ ^ 2
      ≤ r.c.rho * (alpha * ‖r.c.C (s.xn solveX) - r.z‖) ^ 2 := this
    _ = alpha ^ 2 * (r.c.rho * ‖r.c.C (s.xn solveX) - r.z‖ ^ 2) := by ring

/-- `0 < α < 2`: `Σ ρ_i ‖C_i x_{k+1} − z_i^k‖² → 0` -/
theorem RS.Q_tendsto {alpha m : ℝ} {cons : List (Con X Z)} {uss : List Z} {solveX : List Z → List Z → X → X}
    {F : Fn X} {xs : X} (H : RelaxHyp alpha m cons uss solveX F xs) (ha : 0 < alpha) (ha2 : alpha < 2)
    {s : RS X Z} (h : RS.OK xs cons uss s) :
    Filter.Tendsto (fun k => rowsQ (iter (RS.next alpha solveX) k s).rows ((iter (RS.next alpha solveX) k s).xn solveX))
      Filter.atTop (nhds 0) := by
  have hc : 0 < alpha * (2 - alpha) := mul_pos ha (by linarith)
  have hD := (RS.D_tendsto H h).const_mul (alpha * (2 - alpha))⁻¹
  rw [mul_zero] at hD
  refine squeeze_zero (fun k => ?_) (fun k => ?_) hD
  · exact rowsQ_nonneg _ _ (fun r hr => ((RS.iter_ok alpha solveX k h).hb r hr).rho)
  · have hk := (RS.iter_ok alpha solveX k h).toBase
    have h2 : 0 ≤ m * ‖(iter (RS.next alpha solveX) k s).xn solveX - xs‖ ^ 2 := mul_nonneg H.m0 (by positivity)
    have h3 : 0 ≤ 2 * alpha * (m * ‖(iter (RS.next alpha solveX) k s).xn solveX - xs‖ ^ 2) :=
      mul_nonneg (by linarith) h2
    rw [inv_mul_eq_div, le_div_iff₀ hc]
    unfold RS.D
    linarith

/-- hence the primal residual (squared) of the iterates tends to `0` … -/
theorem RS.primalSq_tendsto {alpha m : ℝ} {cons : List (Con X Z)} {uss : List Z} {solveX : List Z → List Z → X → X}
    {F : Fn X} {xs : X} (H : RelaxHyp alpha m cons uss solveX F xs) (ha : 0 < alpha) (ha2 : alpha < 2)
    {s : RS X Z} (h : RS.OK xs cons uss s) :
    Filter.Tendsto (fun k => (iter (RS.next alpha solveX) (k + 1) s).primalSq) Filter.atTop (nhds 0) := by
  have hQ := (RS.Q_tendsto H ha ha2 h).const_mul ((1 + alpha) ^ 2)
  rw [mul_zero] at hQ
  refine squeeze_zero (fun k => ?_) (fun k => ?_) hQ
  · apply List.sum_nonneg
    intro v hv
    simp only [List.mem_map] at hv
    obtain ⟨r, hr, rfl⟩ := hv
    have := ((RS.iter_ok alpha solveX (k + 1) h).hb r hr).rho
    positivity
  · rw [iter_succ']
    exact RS.primalSq_next_le alpha ha.le solveX (RS.iter_ok alpha solveX k h)

/-- … and so does `Σ ρ_i ‖z_i^{k+1} − z_i^k‖²` -/
theorem RS.dzSq_tendsto {alpha m : ℝ} {cons : List (Con X Z)} {uss : List Z} {solveX : List Z → List Z → X → X}
    {F : Fn X} {xs : X} (H : RelaxHyp alpha m cons uss solveX F xs) (ha : 0 < alpha) (ha2 : alpha < 2)
    {s : RS X Z} (h : RS.OK xs cons uss s) :
    Filter.Tendsto (fun k => (iter (RS.next alpha solveX) k s).dzSq alpha solveX) Filter.atTop (nhds 0) := by
  have hQ := (RS.Q_tendsto H ha ha2 h).const_mul (alpha ^ 2)
  rw [mul_zero] at hQ
  refine squeeze_zero (fun k => ?_) (fun k => ?_) hQ
  · apply List.sum_nonneg
    intro v hv
    simp only [List.mem_map] at hv
    obtain ⟨r, hr, rfl⟩ := hv
    have := ((RS.iter_ok alpha solveX k h).hb r hr).rho
    positivity
  · exact RS.dzSq_le alpha ha.le solveX (RS.iter_ok alpha solveX k h)

/-- strongly convex `f` (`m > 0`), `0 < α ≤ 2`: the iterates `x_k` converge to the minimiser -/
theorem RS.x_tendsto {alpha m : ℝ} {cons : List (Con X Z)} {uss : List Z} {solveX : List Z → List Z → X → X}
    {F : Fn X} {xs : X} (H : RelaxHyp alpha m cons uss solveX F xs) (ha : 0 < alpha) (hm : 0 < m)
    {s : RS X Z} (h : RS.OK xs cons uss s) :
    Filter.Tendsto (fun k => (iter (RS.next alpha solveX) k s).x) Filter.atTop (nhds xs) := by
  have hc : 0 < 2 * alpha * m := by positivity
  have hD := (RS.D_tendsto H h).const_mul (2 * alpha * m)⁻¹
  rw [mul_zero] at hD
  have hsq : Filter.Tendsto (fun k => ‖(iter (RS.next alpha solveX) (k + 1) s).x - xs‖ ^ 2) Filter.atTop (nhds 0) := by
    refine squeeze_zero (fun k => by positivity) (fun k => ?_) hD
    have hk := (RS.iter_ok alpha solveX k h).toBase
    have hq := rowsQ_nonneg (iter (RS.next alpha solveX) k s).rows ((iter (RS.next alpha solveX) k s).xn solveX)
      (fun r hr => (hk.hb r hr).rho)
    have h1 : 0 ≤ alpha * (2 - alpha) := mul_nonneg H.a0 (by linarith [H.a2])
    have := mul_nonneg h1 hq
    rw [iter_succ', inv_mul_eq_div, le_div_iff₀ hc]
    show ‖(iter (RS.next alpha solveX) k s).xn solveX - xs‖ ^ 2 * (2 * alpha * m) ≤ _
    unfold RS.D
    nlinarith
  rw [← Filter.tendsto_add_atTop_iff_nat 1, tendsto_iff_norm_sub_tendsto_zero]
  have hs := (Real.continuous_sqrt.tendsto 0).comp hsq
  rw [Real.sqrt_zero] at hs
  refine hs.congr (fun k => ?_)
  simp only [Function.comp]
  exact Real.sqrt_sq (norm_nonneg _)

/-! ### the accessors of the model along the trajectory; every state is a list of rows -/

attribute [local instance] realHasSqrt

/-- `norm_primal_residual()` of the model at a state given by rows -/
theorem RS.normPrimal_eq (f : Option (X → ℝ)) (alpha : ℝ) (solveX : List Z → List Z → X → X) (s : RS X Z) :
    admmNormPrimalImpl (admmOfCons f alpha solveX (s.rows.map (·.c))) s.state none = Real.sqrt s.primalSq := by
  unfold admmNormPrimalImpl RS.primalSq RS.state admmOfCons
  simp only [List.map_map]
  show Real.sqrt _ = Real.sqrt _
  congr 1
  rw [foldl_zip_eq' (fun (rho : ℝ) (t : (X → Z) × Z) => rho * (‖t.1 s.x - t.2‖ * ‖t.1 s.x - t.2‖)), zero_add]
  generalize s.rows = rows
  induction rows with
  | nil => simp
  | cons r rs ih =>
    simp only [List.map_cons, List.zip_cons_cons, List.zipWith_cons_cons, List.sum_cons, Function.comp]
    rw [ih]
    ring

/-- any state whose lists have the length of the constraint list is given by rows -/
theorem exists_rows (cons : List (Con X Z)) :
    ∀ (uss z u : List Z), uss.length = cons.length → z.length = cons.length → u.length = cons.length →
      ∃ rows : List (Row X Z), rows.map (·.c) = cons ∧ rows.map (·.us) = uss ∧ rows.map (·.z) = z ∧ rows.map (·.u) = u := by
  induction cons with
  | nil =>
    intro uss z u h1 h2 h3
    exact ⟨[], rfl, (List.length_eq_zero_iff.1 h1).symm, (List.length_eq_zero_iff.1 h2).symm,
      (List.length_eq_zero_iff.1 h3).symm⟩
  | cons c cs ih =>
    intro uss z u h1 h2 h3
    match uss, z, u, h1, h2, h3 with
    | us :: uss, z0 :: z, u0 :: u, h1, h2, h3 =>
      simp only [List.length_cons, Nat.add_right_cancel_iff] at h1 h2 h3
      obtain ⟨rows, r1, r2, r3, r4⟩ := ih uss z u h1 h2 h3
      exact ⟨{ c := c, z := z0, u := u0, us := us } :: rows, by simp [r1], by simp [r2], by simp [r3], by simp [r4]⟩

end Scico.Steps
