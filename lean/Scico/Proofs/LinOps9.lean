/-
  Helper lemmas for `Scico.Model.LinOps`, part 9 (round 2): N-d linear convolution and its output modes.
-/
import Scico.Proofs.LinOps6

namespace Scico.LinOps
open Finset


section ConvNd
variable {K : Type} [CommRing K]

/-- the four shape lists have the same length and every signal axis is non-empty -/
def ConvShapes : List Nat → List Nat → List Nat → List Nat → Prop
  | [], [], [], [] => True
  | _ :: ss, _ :: os, _ :: ks, n :: ds => 0 < n ∧ ConvShapes ss os ks ds
  | _, _, _, _ => False

theorem convShapes_pos : ∀ (ss os ks ds : List Nat), ConvShapes ss os ks ds → 0 < prodL ds
  | [], [], [], [], _ => by simp [prodL]
  | _ :: ss, _ :: os, _ :: ks, n :: ds, h => Nat.mul_pos h.1 (convShapes_pos ss os ks ds h.2)
  | [], [], [], _ :: _, h => by simp [ConvShapes] at h
  | [], [], _ :: _, _, h => by simp [ConvShapes] at h
  | [], _ :: _, _, _, h => by simp [ConvShapes] at h
  | _ :: _, [], _, _, h => by simp [ConvShapes] at h
  | _ :: _, _ :: _, [], _, h => by simp [ConvShapes] at h
  | _ :: _, _ :: _, _ :: _, [], h => by simp [ConvShapes] at h

/-- N-d tap-sum convolution on a window = multiplication by the documented N-d Toeplitz matrix -/
theorem convNdW_eq_mulVec : ∀ (ss os ks ds : List Nat) (h x : V K) (p : Nat), ConvShapes ss os ks ds →
    convNdW ss os ks ds h x p = mulVec (convMatrixNdW ss os ks ds h) (prodL ds) x p
  | [], [], [], [], h, x, p, _ => by simp [convNdW, convMatrixNdW, mulVec, prodL, sumTo]
  | [], [], [], _ :: _, _, _, _, hs => by simp [ConvShapes] at hs
  | [], [], _ :: _, _, _, _, _, hs => by simp [ConvShapes] at hs
  | [], _ :: _, _, _, _, _, _, hs => by simp [ConvShapes] at hs
  | _ :: _, [], _, _, _, _, _, hs => by simp [ConvShapes] at hs
  | _ :: _, _ :: _, [], _, _, _, _, hs => by simp [ConvShapes] at hs
  | _ :: _, _ :: _, _ :: _, [], _, _, _, hs => by simp [ConvShapes] at hs
  | s :: ss, o :: os, k :: ks, n :: ds, h, x, p, hs => by
      obtain ⟨hn, hs'⟩ := hs
      have hR : 0 < prodL ds := convShapes_pos ss os ks ds hs'
      have IH := fun (h' x' : V K) => convNdW_eq_mulVec ss os ks ds h' x' (p % prodL os) hs'
      simp only [convNdW, convMatrixNdW, IH, mulVec, sumTo_eq_sum, prodL]
      rw [sum_range_mul2]
      set i := p / prodL os + s with hi
      have erhs : ∀ j ∈ range n, ∑ q' ∈ range (prodL ds),
            (if (j * prodL ds + q') / prodL ds ≤ i ∧ i - (j * prodL ds + q') / prodL ds < k then
              convMatrixNdW ss os ks ds (slab (prodL ks) (i - (j * prodL ds + q') / prodL ds) h) (p % prodL os)
                ((j * prodL ds + q') % prodL ds) else 0) * x (j * prodL ds + q')
          = if j ≤ i ∧ i - j < k then ∑ q' ∈ range (prodL ds),
              convMatrixNdW ss os ks ds (slab (prodL ks) (i - j) h) (p % prodL os) q' * slab (prodL ds) j x q' else 0 := by
        intro j _
        split
        · rename_i hc
          refine sum_congr rfl (fun q' hq' => ?_)
          have hq := mem_range.mp hq'
          simp only [idx_div hR j q' hq, idx_mod j q' hq, if_pos hc, slab]
        · rename_i hc
          refine sum_eq_zero (fun q' hq' => ?_)
          have hq := mem_range.mp hq'
          simp only [idx_div hR j q' hq, if_neg hc, zero_mul]
      rw [sum_congr rfl erhs, ← sum_filter, ← sum_filter]
      refine sum_nbij' (fun m => i - m) (fun j => i - j) ?_ ?_ ?_ ?_ ?_
      · intro m hm
        simp only [mem_filter, mem_range] at hm ⊢
        omega
      · intro j hj
        simp only [mem_filter, mem_range] at hj ⊢
        omega
      · intro m hm
        simp only [mem_filter, mem_range] at hm
        omega
      · intro j hj
        simp only [mem_filter, mem_range] at hj
        omega
      · intro m hm
        simp only [mem_filter, mem_range] at hm
        have : i - (i - m) = m := by omega
        rw [this]

end ConvNd

section ShapeAxes
variable {K : Type} [CommRing K]

theorem axisSpec_prod (shape : List Nat) (a : Nat) (ha : a < shape.length) :
    (axisSpec shape a).1 * (axisSpec shape a).2.1 * (axisSpec shape a).2.2 = prodL shape := by
  unfold axisSpec
  simp only
  have h1 : shape = shape.take a ++ shape.drop a := (List.take_append_drop a shape).symm
  have h2 : shape.drop a = shape[a] :: shape.drop (a + 1) := List.drop_eq_getElem_cons ha
  conv_rhs => rw [h1, prodL_append, h2]
  rw [getD_eq_getElem' shape a 1 ha]
  simp only [prodL]; ring

theorem fdNd_shape_axes (c : FDCfg) (shape : List Nat) (axes : List Nat) (hpos : ∀ n ∈ shape, 0 < n)
    (hax : ∀ a ∈ axes, a < shape.length) (x : V K) (i : Nat)
    (hi : i < fdNdRows c (axes.map (axisSpec shape))) :
    fdNdEval c (axes.map (axisSpec shape)) x i
      = mulVec (fdNdMatrix c (axes.map (axisSpec shape))) (prodL shape) x i := by
  apply fdNd_eq_mulVec c (prodL shape) _ _ x i hi
  intro s hs
  obtain ⟨a, ha, rfl⟩ := List.mem_map.mp hs
  refine ⟨axisSpec_prod shape a (hax a ha), ?_⟩
  simp only [axisSpec]
  rw [getD_eq_getElem' shape a 1 (hax a ha)]
  exact hpos _ (List.getElem_mem _)

end ShapeAxes

end Scico.LinOps
