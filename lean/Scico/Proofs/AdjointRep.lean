/-
  Adjoint engine: `DiagonalReplicated` with arbitrary replication axes.
  Index arithmetic of inserting an axis of length `k` in front of the last `Q` entries, the resulting
  re-indexing of sums, and the adjoint identity of `Op.drep`.
-/
import Scico.Proofs.Adjoint

namespace Scico.Adjoint
open Finset Op

section index

theorem repR_repIx {k Q r j : Nat} (hQ : 0 < Q) (hr : r < k) : repR k Q (repIx k Q r j) = r := by
  unfold repR repIx
  have h1 : ((j / Q * k + r) * Q + j % Q) / Q = j / Q * k + r := by
    rw [Nat.add_comm, Nat.add_mul_div_right _ _ hQ, Nat.div_eq_of_lt (Nat.mod_lt _ hQ), Nat.zero_add]
  rw [h1, Nat.add_comm, Nat.add_mul_mod_self_right, Nat.mod_eq_of_lt hr]

theorem repJ_repIx {k Q r j : Nat} (hQ : 0 < Q) (hr : r < k) : repJ k Q (repIx k Q r j) = j := by
  unfold repJ repIx
  have hk : 0 < k := Nat.lt_of_le_of_lt (Nat.zero_le _) hr
  have h1 : ((j / Q * k + r) * Q + j % Q) / Q = j / Q * k + r := by
    rw [Nat.add_comm, Nat.add_mul_div_right _ _ hQ, Nat.div_eq_of_lt (Nat.mod_lt _ hQ), Nat.zero_add]
  have h2 : ((j / Q * k + r) * Q + j % Q) / (Q * k) = j / Q := by
    rw [← Nat.div_div_eq_div_mul, h1, Nat.add_comm, Nat.add_mul_div_right _ _ hk, Nat.div_eq_of_lt hr, Nat.zero_add]
  have h3 : ((j / Q * k + r) * Q + j % Q) % Q = j % Q := by
    rw [Nat.add_comm, Nat.add_mul_mod_self_right, Nat.mod_mod]
  rw [h2, h3, Nat.div_add_mod']

theorem repIx_inv {k Q o : Nat} (hQ : 0 < Q) : repIx k Q (repR k Q o) (repJ k Q o) = o := by
  unfold repIx repR repJ
  have hb : o % Q < Q := Nat.mod_lt _ hQ
  have h1 : (o / (Q * k) * Q + o % Q) / Q = o / (Q * k) := by
    rw [Nat.add_comm, Nat.add_mul_div_right _ _ hQ, Nat.div_eq_of_lt hb, Nat.zero_add]
  have h2 : (o / (Q * k) * Q + o % Q) % Q = o % Q := by
    rw [Nat.add_comm, Nat.add_mul_mod_self_right, Nat.mod_mod]
  rw [h1, h2, ← Nat.div_div_eq_div_mul, Nat.div_add_mod', Nat.div_add_mod']

theorem repJ_lt {k P Q o : Nat} (hQ : 0 < Q) (ho : o < k * (P * Q)) : repJ k Q o < P * Q := by
  unfold repJ
  have hb : o % Q < Q := Nat.mod_lt _ hQ
  have ha : o / (Q * k) < P := by
    have hk : 0 < k := by
      rcases Nat.eq_zero_or_pos k with h | h
      · subst h; simp at ho
      · exact h
    rw [Nat.div_lt_iff_lt_mul (Nat.mul_pos hQ hk)]
    calc o < k * (P * Q) := ho
      _ = P * (Q * k) := by ring
  have h3 : (o / (Q * k) + 1) * Q ≤ P * Q := Nat.mul_le_mul_right Q ha
  rw [Nat.add_mul, Nat.one_mul] at h3
  omega

theorem repIx_lt {k P Q r j : Nat} (hQ : 0 < Q) (hr : r < k) (hj : j < P * Q) : repIx k Q r j < k * (P * Q) := by
  unfold repIx
  have hb : j % Q < Q := Nat.mod_lt _ hQ
  have ha : j / Q < P := (Nat.div_lt_iff_lt_mul hQ).mpr hj
  have h1 : (j / Q + 1) * k ≤ P * k := Nat.mul_le_mul_right k ha
  rw [Nat.add_mul, Nat.one_mul] at h1
  have h2 : (j / Q * k + r + 1) * Q ≤ (P * k) * Q := Nat.mul_le_mul_right Q (by omega)
  rw [Nat.add_mul, Nat.one_mul] at h2
  have h3 : P * k * Q = k * (P * Q) := by ring
  omega

/-- re-indexing of a sum over a replicated array: (replicate, inner index) ↦ flat index is a bijection -/
theorem sum_range_rep {M : Type} [AddCommMonoid M] (k P Q : Nat) (hQ : 0 < Q) (hk : 0 < k) (f : Nat → M) :
    ∑ o ∈ range (k * (P * Q)), f o = ∑ r ∈ range k, ∑ j ∈ range (P * Q), f (repIx k Q r j) := by
  rw [← Finset.sum_product' (range k) (range (P * Q)) (fun r j => f (repIx k Q r j))]
  apply Finset.sum_nbij' (fun o => (repR k Q o, repJ k Q o)) (fun p => repIx k Q p.1 p.2)
  · intro o ho
    simp only [Finset.mem_product, Finset.mem_range] at ho ⊢
    exact ⟨Nat.mod_lt _ hk, repJ_lt hQ ho⟩
  · intro p hp
    simp only [Finset.mem_product, Finset.mem_range] at hp ⊢
    exact repIx_lt hQ hp.1 hp.2
  · intro o _
    exact repIx_inv hQ
  · intro p hp
    simp only [Finset.mem_product, Finset.mem_range] at hp
    simp only [repR_repIx hQ hp.1, repJ_repIx hQ hp.1]
  · intro o _
    simp only [repIx_inv hQ]

end index

section drep
variable {K : Type} [Field K] [StarRing K] {ρ : K → K}

/-- pairing over a replicated array = sum over the replicates of the pairings of the slabs -/
theorem ip_rep (k P Q : Nat) (hQ : 0 < Q) (hk : 0 < k) (u w : V K) :
    ip (k * (P * Q)) u w = ∑ r ∈ range k, ip (P * Q) (slab k Q r u) (slab k Q r w) := by
  simp only [ip_eq, slab]
  exact sum_range_rep k P Q hQ hk (fun o => u o * star (w o))

theorem drep_isAdjW (hρ : Test ρ) {A : Op K} (hA : IsAdjW ρ A) {k Qi Qo Pi Po : Nat}
    (hk : 0 < k) (hQi : 0 < Qi) (hQo : 0 < Qo) (hin : A.nin = Pi * Qi) (hout : A.nout = Po * Qo) :
    IsAdjW ρ (Op.drep k Qi Qo A) := by
  intro x y
  simp only [Op.drep]
  rw [hout, hin, ip_rep k Po Qo hQo hk, ip_rep k Pi Qi hQi hk, hρ.sum, hρ.sum]
  apply Finset.sum_congr rfl
  intro r hr
  have hr' : r < k := Finset.mem_range.mp hr
  have e1 : ip (Po * Qo) (slab k Qo r fun o => A.eval (slab k Qi (repR k Qo o) x) (repJ k Qo o)) (slab k Qo r y)
      = ip A.nout (A.eval (slab k Qi r x)) (slab k Qo r y) := by
    rw [hout]
    apply ip_congr
    · intro j _
      simp only [slab, repR_repIx hQo hr', repJ_repIx hQo hr']
    · intro j _; rfl
  have e2 : ip (Pi * Qi) (slab k Qi r x) (slab k Qi r fun i => A.adj (slab k Qo (repR k Qi i) y) (repJ k Qi i))
      = ip A.nin (slab k Qi r x) (A.adj (slab k Qo r y)) := by
    rw [hin]
    apply ip_congr
    · intro j _; rfl
    · intro j _
      simp only [slab, repR_repIx hQi hr', repJ_repIx hQi hr']
  rw [e1, e2, hA]

end drep

end Scico.Adjoint
