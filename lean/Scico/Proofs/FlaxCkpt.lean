/-
  Helper lemmas for the checkpoint-manager state machine and the trainer loop (`Scico.Model.Flax` §4–5).
-/
import Scico.Model.Flax
import Mathlib.Data.List.Basic
import Mathlib.Data.List.Range
import Mathlib.Order.Basic

namespace Scico.Flax

variable {σ : Type}

/-- keep the last `k` entries (what the manager's pruning leaves) -/
def lastK (k : Nat) (l : List (Nat × σ)) : List (Nat × σ) := l.drop (l.length - k)

theorem lastK_of_le (k : Nat) (l : List (Nat × σ)) (h : l.length ≤ k) : lastK k l = l := by
  simp [lastK, Nat.sub_eq_zero_of_le h]

theorem lastK_length (k : Nat) (l : List (Nat × σ)) : (lastK k l).length = min k l.length := by
  simp [lastK]; omega

theorem lastK_append_of_le (k : Nat) (a x : List (Nat × σ)) (h : k ≤ x.length) :
    lastK k (a ++ x) = lastK k x := by
  unfold lastK
  rw [List.length_append, List.drop_append]
  have : List.drop (a.length + x.length - k) a = [] := by
    apply List.drop_eq_nil_of_le; omega
  rw [this]
  simp
  omega

/-- pruning early and pruning late give the same directory -/
theorem lastK_lastK_append (k : Nat) (l m : List (Nat × σ)) :
    lastK k (lastK k l ++ m) = lastK k (l ++ m) := by
  by_cases h : l.length ≤ k
  · rw [lastK_of_le k l h]
  · have hsplit : l = l.take (l.length - k) ++ lastK k l := by
      unfold lastK; exact (List.take_append_drop _ _).symm
    have hlen : (lastK k l).length = k := by rw [lastK_length]; omega
    conv_rhs => rw [hsplit, List.append_assoc]
    rw [lastK_append_of_le k _ (lastK k l ++ m) (by rw [List.length_append]; omega)]

theorem lastK_sublist (k : Nat) (l : List (Nat × σ)) : (lastK k l).Sublist l := List.drop_sublist _ _

theorem mem_lastK_last (k : Nat) (hk : 1 ≤ k) (l : List (Nat × σ)) (p : Nat × σ) : p ∈ lastK k (l ++ [p]) := by
  unfold lastK
  rw [List.length_append, List.drop_append]
  apply List.mem_append_right
  simp only [List.length_cons, List.length_nil]
  have : l.length + (0 + 1) - k - l.length = 0 := by omega
  rw [this]; simp

/-! ### `latest` is the maximum step present -/

theorem foldl_max_ge (l : List (Nat × σ)) (m : Nat) : m ≤ l.foldl (fun k p => max k p.1) m := by
  induction l generalizing m with
  | nil => exact Nat.le_refl _
  | cons p ps ih => simp only [List.foldl_cons]; exact Nat.le_trans (Nat.le_max_left _ _) (ih _)

theorem foldl_max_mem_ge (l : List (Nat × σ)) (m : Nat) : ∀ p ∈ l, p.1 ≤ l.foldl (fun k p => max k p.1) m := by
  induction l generalizing m with
  | nil => intro p hp; cases hp
  | cons q qs ih =>
    intro p hp
    simp only [List.foldl_cons]
    rcases List.mem_cons.mp hp with rfl | h
    · exact Nat.le_trans (Nat.le_max_right _ _) (foldl_max_ge qs _)
    · exact ih _ p h

theorem foldl_max_attained (l : List (Nat × σ)) (m : Nat) :
    l.foldl (fun k p => max k p.1) m = m ∨ ∃ p ∈ l, p.1 = l.foldl (fun k p => max k p.1) m := by
  induction l generalizing m with
  | nil => left; rfl
  | cons q qs ih =>
    simp only [List.foldl_cons]
    rcases ih (max m q.1) with h | ⟨p, hp, hpe⟩
    · rw [h]
      rcases Nat.le_total m q.1 with hle | hle
      · right; exact ⟨q, List.mem_cons_self, by rw [Nat.max_eq_right hle]⟩
      · left; exact Nat.max_eq_left hle
    · right; exact ⟨p, List.mem_cons_of_mem _ hp, hpe⟩

theorem latest_nil : latest ([] : List (Nat × σ)) = none := rfl

theorem latest_eq_none (l : List (Nat × σ)) : latest l = none ↔ l = [] := by
  cases l with
  | nil => simp [latest]
  | cons p ps => simp [latest]

/-- characterisation: `latest l = some m` iff `m` is a step present and no present step is larger -/
theorem latest_eq_some (l : List (Nat × σ)) (m : Nat) :
    latest l = some m ↔ (∃ p ∈ l, p.1 = m) ∧ ∀ p ∈ l, p.1 ≤ m := by
  cases l with
  | nil => simp [latest]
  | cons q qs =>
    simp only [latest, Option.some.injEq]
    constructor
    · intro h
      subst h
      refine ⟨?_, ?_⟩
      · rcases foldl_max_attained qs q.1 with h | ⟨p, hp, hpe⟩
        · exact ⟨q, List.mem_cons_self, h.symm⟩
        · exact ⟨p, List.mem_cons_of_mem _ hp, hpe⟩
      · intro p hp
        rcases List.mem_cons.mp hp with rfl | h
        · exact foldl_max_ge qs _
        · exact foldl_max_mem_ge qs _ p h
    · rintro ⟨⟨p, hp, rfl⟩, hall⟩
      apply Nat.le_antisymm
      · rcases foldl_max_attained qs q.1 with h | ⟨r, hr, hre⟩
        · rw [h]; exact hall q List.mem_cons_self
        · rw [← hre]; exact hall r (List.mem_cons_of_mem _ hr)
      · rcases List.mem_cons.mp hp with rfl | h
        · exact foldl_max_ge qs _
        · exact foldl_max_mem_ge qs _ p h

/-- after an accepted save the latest step is the one just written (also after pruning, `k ≥ 1`) -/
theorem latest_after_save (k : Nat) (hk : 1 ≤ k) (l : List (Nat × σ)) (p : Nat × σ)
    (hacc : ∀ q ∈ l, q.1 < p.1) : latest (lastK k (l ++ [p])) = some p.1 := by
  rw [latest_eq_some]
  refine ⟨⟨p, mem_lastK_last k hk l p, rfl⟩, ?_⟩
  intro q hq
  have : q ∈ l ++ [p] := (lastK_sublist k _).subset hq
  rcases List.mem_append.mp this with h | h
  · exact Nat.le_of_lt (hacc q h)
  · simp only [List.mem_singleton] at h; rw [h]

/-! ### save sequences -/

theorem save_some (k : Nat) (l : List (Nat × σ)) (step : Nat) (s : σ) :
    save k (some l) step s =
      if (match latest l with | none => true | some m => decide (m < step)) then some (lastK k (l ++ [(step, s)]))
      else some l := by
  unfold save lastK
  rfl

theorem save_none (k : Nat) (step : Nat) (s : σ) : save k (none : Dir σ) step s = save k (some []) step s := by
  unfold save; rfl

theorem saveAll_none (k : Nat) (ps : List (Nat × σ)) (h : ps ≠ []) :
    saveAll k (none : Dir σ) ps = saveAll k (some []) ps := by
  cases ps with
  | nil => exact absurd rfl h
  | cons p ps => simp only [saveAll, save_none]

/-- the directory after any sequence of saves: the accepted saves are the strict running maxima
    (`records`), the last `k` of everything ever accepted are present -/
theorem saveAll_eq (k : Nat) (hk : 1 ≤ k) (ps : List (Nat × σ)) :
    ∀ l : List (Nat × σ), saveAll k (some l) ps = some (lastK k (l ++ records (latest l) ps)) ∨
      (saveAll k (some l) ps = some l ∧ records (latest l) ps = []) := by
  induction ps with
  | nil => intro l; right; cases h : latest l <;> simp [saveAll, records]
  | cons p ps ih =>
    intro l
    simp only [saveAll, save_some]
    cases hl : latest l with
    | none =>
      have hnil : l = [] := (latest_eq_none l).mp hl
      subst hnil
      simp only [if_true, records, List.nil_append]
      have hlat : latest (lastK k ([] ++ [p])) = some p.1 := latest_after_save k hk [] p (by simp)
      simp only [List.nil_append] at hlat
      left
      rcases ih (lastK k [p]) with h | ⟨h1, h2⟩
      · rw [h, hlat, lastK_lastK_append]; rfl
      · rw [hlat] at h2; rw [h1, h2]
    | some m =>
      by_cases hlt : m < p.1
      · have hacc : ∀ q ∈ l, q.1 < p.1 := fun q hq =>
          Nat.lt_of_le_of_lt (((latest_eq_some l m).mp hl).2 q hq) hlt
        have hlat := latest_after_save k hk l p hacc
        simp only [hlt, decide_true, if_true, records]
        left
        rcases ih (lastK k (l ++ [p])) with h | ⟨h1, h2⟩
        · rw [h, hlat, lastK_lastK_append, List.append_assoc]; rfl
        · rw [hlat] at h2; rw [h1, h2]
      · simp only [hlt, decide_false, Bool.false_eq_true, if_false, records]
        rw [← hl]
        exact ih l

/-- for strictly increasing steps every save is accepted -/
theorem records_increasing (ps : List (Nat × σ)) (h : ps.Pairwise (fun a b => a.1 < b.1)) :
    ∀ m : Option Nat, (∀ k, m = some k → ∀ p ∈ ps, k < p.1) → records m ps = ps := by
  induction ps with
  | nil => intro m _; cases m <;> rfl
  | cons p ps ih =>
    intro m hm
    have hp := List.pairwise_cons.mp h
    have hrec : records (some p.1) ps = ps := ih hp.2 (some p.1) (by
      intro k hk q hq; cases hk; exact hp.1 q hq)
    cases m with
    | none => simp [records, hrec]
    | some k =>
      have : k < p.1 := hm k rfl p List.mem_cons_self
      simp [records, this, hrec]

/-- in a directory whose steps are strictly increasing the entry found for the latest step is the last one -/
theorem find_latest_sorted (l : List (Nat × σ)) (hs : l.Pairwise (fun a b => a.1 < b.1)) (hne : l ≠ []) :
    latest l = some (l.getLast hne).1 ∧ l.find? (·.1 == (l.getLast hne).1) = some (l.getLast hne) := by
  have hmemlast := List.getLast_mem hne
  have hle : ∀ q ∈ l, q.1 ≤ (l.getLast hne).1 ∧ (q.1 = (l.getLast hne).1 → q = l.getLast hne) := by
    intro q hq
    obtain ⟨pre, hpre⟩ : ∃ pre, l = pre ++ [l.getLast hne] := ⟨l.dropLast, (List.dropLast_append_getLast hne).symm⟩
    rw [hpre] at hq hs
    rcases List.mem_append.mp hq with h | h
    · have := (List.pairwise_append.mp hs).2.2 q h (l.getLast hne) (by simp)
      exact ⟨Nat.le_of_lt this, fun e => absurd e (Nat.ne_of_lt this)⟩
    · simp only [List.mem_singleton] at h; subst h; exact ⟨Nat.le_refl _, fun _ => rfl⟩
  refine ⟨(latest_eq_some l _).mpr ⟨⟨_, hmemlast, rfl⟩, fun q hq => (hle q hq).1⟩, ?_⟩
  rw [List.find?_eq_some_iff_append]
  refine ⟨by simp, l.dropLast, [], (List.dropLast_append_getLast hne).symm, ?_⟩
  intro q hq
  have hq' : q ∈ l := List.dropLast_subset l hq
  simp only [Bool.not_eq_true', beq_eq_false_iff_ne, ne_eq]
  intro he
  have heq := (hle q hq').2 he
  -- q is the last element but also lies in dropLast: contradicts strict increase
  have hsplit := (List.dropLast_append_getLast hne).symm
  rw [hsplit] at hs
  have := (List.pairwise_append.mp hs).2.2 q hq (l.getLast hne) (by simp)
  rw [heq] at this
  exact Nat.lt_irrefl _ this

theorem lastK_pairwise (k : Nat) (l : List (Nat × σ)) (hs : l.Pairwise (fun a b => a.1 < b.1)) :
    (lastK k l).Pairwise (fun a b => a.1 < b.1) := hs.sublist (lastK_sublist k l)

theorem lastK_ne_nil (k : Nat) (hk : 1 ≤ k) (l : List (Nat × σ)) (hne : l ≠ []) : lastK k l ≠ [] := by
  intro h
  have := lastK_length k l
  rw [h] at this
  have hl : 0 < l.length := List.length_pos_iff.mpr hne
  simp only [List.length_nil] at this
  omega

theorem lastK_getLast (k : Nat) (hk : 1 ≤ k) (l : List (Nat × σ)) (hne : l ≠ []) :
    (lastK k l).getLast (lastK_ne_nil k hk l hne) = l.getLast hne :=
  List.getLast_drop (i := l.length - k) (lastK_ne_nil k hk l hne)

/-! ### trainer loop -/

theorem trainLoop_steps (offset numSteps spc : Nat) :
    (trainLoop offset numSteps spc).map (·.1) = List.range' offset (numSteps - offset) := by
  simp [trainLoop, Function.comp_def]

/-- the checkpoint decision is a function of the step number only: a resumed run's loop is the tail
    of the uninterrupted run's loop -/
theorem trainLoop_split (s numSteps spc : Nat) (hs : s ≤ numSteps) :
    trainLoop 0 numSteps spc = (trainLoop 0 numSteps spc).take s ++ trainLoop s numSteps spc := by
  unfold trainLoop
  rw [← List.map_take, ← List.map_append]
  congr 1
  rw [List.take_range'_of_length_ge (by omega)]
  have : numSteps - 0 = s + (numSteps - s) := by omega
  rw [this, ← List.range'_append_1]
  simp

/-! ### latest step of a directory after saves; coherent directories (state = its own step counter) -/

def latestD (d : Dir σ) : Option Nat := match d with | none => none | some l => latest l

def omax : Option Nat → Nat → Option Nat
  | none, x => some x
  | some m, x => some (max m x)

def stepOf : Option Nat → Nat
  | none => 0
  | some m => m

theorem latestD_save (k : Nat) (hk : 1 ≤ k) (d : Dir σ) (step : Nat) (s : σ) :
    latestD (save k d step s) = omax (latestD d) step := by
  cases d with
  | none =>
    rw [save_none, save_some]
    simp only [latest_nil, if_true, latestD, omax]
    exact latest_after_save k hk [] (step, s) (by simp)
  | some l =>
    rw [save_some]
    cases hl : latest l with
    | none =>
      have hnil : l = [] := (latest_eq_none l).mp hl
      subst hnil
      simp only [if_true, latestD, hl, omax]
      exact latest_after_save k hk [] (step, s) (by simp)
    | some m =>
      by_cases hlt : m < step
      · have hacc : ∀ q ∈ l, q.1 < (step, s).1 := fun q hq =>
          Nat.lt_of_le_of_lt (((latest_eq_some l m).mp hl).2 q hq) hlt
        simp only [hlt, decide_true, if_true, latestD, hl, omax]
        rw [latest_after_save k hk l (step, s) hacc, Nat.max_eq_right (Nat.le_of_lt hlt)]
      · simp only [hlt, decide_false, Bool.false_eq_true, if_false, latestD, hl, omax]
        rw [Nat.max_eq_left (by omega)]

theorem latestD_saveAll (k : Nat) (hk : 1 ≤ k) (ps : List (Nat × σ)) :
    ∀ d : Dir σ, latestD (saveAll k d ps) = ps.foldl (fun m p => omax m p.1) (latestD d) := by
  induction ps with
  | nil => intro d; rfl
  | cons p ps ih => intro d; simp only [saveAll, List.foldl_cons]; rw [ih, latestD_save k hk]

theorem foldl_omax_some (xs : List Nat) (m : Nat) :
    xs.foldl omax (some m) = some (xs.foldl max m) := by
  induction xs generalizing m with
  | nil => rfl
  | cons x xs ih => simp only [List.foldl_cons, omax]; exact ih _

theorem foldl_max_le (xs : List Nat) (m N : Nat) (hm : m ≤ N) (hx : ∀ x ∈ xs, x ≤ N) : xs.foldl max m ≤ N := by
  induction xs generalizing m with
  | nil => exact hm
  | cons x xs ih =>
    simp only [List.foldl_cons]
    exact ih _ (Nat.max_le.mpr ⟨hm, hx x List.mem_cons_self⟩) (fun y hy => hx y (List.mem_cons_of_mem _ hy))

theorem foldl_max_ge' (xs : List Nat) (m : Nat) : m ≤ xs.foldl max m := by
  induction xs generalizing m with
  | nil => exact Nat.le_refl _
  | cons x xs ih => simp only [List.foldl_cons]; exact Nat.le_trans (Nat.le_max_left _ _) (ih _)

/-- folding `omax` over steps that are all `≤ N` and end with `N` gives `N` -/
theorem foldl_omax_last (xs : List Nat) (m0 : Option Nat) (N : Nat) (hm : stepOf m0 ≤ N) (hx : ∀ x ∈ xs, x ≤ N) :
    (xs ++ [N]).foldl omax m0 = some N := by
  rw [List.foldl_append]
  simp only [List.foldl_cons, List.foldl_nil]
  cases m0 with
  | none =>
    cases xs with
    | nil => rfl
    | cons x xs =>
      simp only [List.foldl_cons, omax]
      rw [foldl_omax_some]
      simp only
      have := foldl_max_le xs x N (hx x List.mem_cons_self) (fun y hy => hx y (List.mem_cons_of_mem _ hy))
      rw [Nat.max_eq_right this]
  | some m =>
    rw [foldl_omax_some]
    simp only [omax]
    have := foldl_max_le xs m N hm hx
    rw [Nat.max_eq_right this]

/-- every stored state is its own step counter (the abstraction used by `trainRun`) -/
def Coh (d : Dir Nat) : Prop := ∀ l, d = some l → ∀ p ∈ l, p.2 = p.1

theorem coh_save (k : Nat) (d : Dir Nat) (hc : Coh d) (s : Nat) : Coh (save k d s s) := by
  intro l' hl' p hp
  have key : ∀ l : List (Nat × Nat), (∀ q ∈ l, q.2 = q.1) → save k (some l) s s = some l' → p.2 = p.1 := by
    intro l hl hsave
    rw [save_some] at hsave
    by_cases hcond : (match latest l with | none => true | some m => decide (m < s)) = true
    · rw [if_pos hcond] at hsave
      have hl'' : l' = lastK k (l ++ [(s, s)]) := (Option.some.inj hsave).symm
      subst hl''
      have : p ∈ l ++ [(s, s)] := (lastK_sublist k _).subset hp
      rcases List.mem_append.mp this with h | h
      · exact hl p h
      · simp only [List.mem_singleton] at h; rw [h]
    · rw [if_neg hcond] at hsave
      have hl'' : l' = l := (Option.some.inj hsave).symm
      subst hl''
      exact hl p hp
  cases d with
  | none => rw [save_none] at hl'; exact key [] (by simp) hl'
  | some l => exact key l (hc l rfl) hl'

theorem coh_saveAll (k : Nat) (xs : List Nat) : ∀ d : Dir Nat, Coh d → Coh (saveAll k d (xs.map (fun s => (s, s)))) := by
  induction xs with
  | nil => intro d hd; exact hd
  | cons x xs ih => intro d hd; simp only [List.map_cons, saveAll]; exact ih _ (coh_save k d hd x)

/-- restoring from a coherent directory (with `ok_no_ckpt=True`) yields the latest step, 0 if none -/
theorem restore_coh (d : Dir Nat) (hc : Coh d) : restore d 0 true = .ok (stepOf (latestD d)) := by
  cases d with
  | none => rfl
  | some l =>
    simp only [restore, latestD]
    cases hl : latest l with
    | none => rfl
    | some m =>
      simp only [stepOf]
      obtain ⟨⟨p, hp, hpm⟩, _⟩ := (latest_eq_some l m).mp hl
      cases hf : l.find? (·.1 == m) with
      | none =>
        have := List.find?_eq_none.mp hf p hp
        simp [hpm] at this
      | some q =>
        have hq := List.find?_some hf
        have hqm := List.mem_of_find?_eq_some hf
        simp only [beq_iff_eq] at hq
        simp only
        rw [hc l rfl q hqm, hq]

theorem trainSaves_le (offset numSteps spc : Nat) :
    ∀ x ∈ ((trainLoop offset numSteps spc).filter (·.2)).map (·.1 + 1), x ≤ max offset numSteps := by
  intro x hx
  simp only [trainLoop, List.mem_map, List.mem_filter, List.mem_range'_1] at hx
  obtain ⟨⟨a, fl⟩, ⟨⟨y, hy, hye⟩, _⟩, rfl⟩ := hx
  cases hye
  simp only
  omega

end Scico.Flax
