/-
  Proximal calculus in an arbitrary real inner-product space (property C08, abstract layer).

  A functional with values in `ℝ ∪ {+∞}` is a pair (domain, finite values on the domain).
  `IsProx f lam v p` is the *definition* of `p = prox_{lam f}(v)` by the minimisation property
  (no convexity assumed, minimisers need not be unique); `Cert` is the sub-gradient
  certificate.  Everything is stated for any real inner-product space `E`, so `ℝⁿ`, `ℂⁿ`
  under `Re⟨·,·⟩`, N-d arrays and block arrays (`PiLp 2`) are all instances.
-/
import Mathlib.Analysis.InnerProductSpace.Basic
import Mathlib.Analysis.InnerProductSpace.PiL2
import Mathlib.Analysis.InnerProductSpace.Adjoint
import Mathlib.Analysis.Convex.Function
import Mathlib.Tactic.Linarith
import Mathlib.Tactic.Ring
import Mathlib.Tactic.FieldSimp

namespace Scico.ProxCalcAbs

/-- extended-real-valued functional: domain + finite value on the domain -/
structure ExtFn (E : Type*) where
  dom : Set E
  val : E → ℝ

section
variable {E : Type*} [NormedAddCommGroup E] [InnerProductSpace ℝ E]

/-- the objective `lam f(x) + ½‖x − v‖²` of the proximal problem -/
noncomputable def proxObj (f : ExtFn E) (lam : ℝ) (v x : E) : ℝ := lam * f.val x + (1 / 2) * ‖x - v‖ ^ 2

/-- `p` is a proximal point of `lam·f` at `v`: it lies in the domain and minimises the objective -/
def IsProx (f : ExtFn E) (lam : ℝ) (v p : E) : Prop :=
  p ∈ f.dom ∧ ∀ x ∈ f.dom, proxObj f lam v p ≤ proxObj f lam v x

/-- sub-gradient certificate `(v − p)/lam ∈ ∂f(p)` -/
def Cert (f : ExtFn E) (lam : ℝ) (v p : E) : Prop :=
  p ∈ f.dom ∧ ∀ z ∈ f.dom, f.val p + inner ℝ ((1 / lam) • (v - p)) (z - p) ≤ f.val z

/-- certificate ⇒ minimiser, with the quadratic growth that also gives uniqueness -/
theorem isProx_of_cert_strong {f : ExtFn E} {lam : ℝ} (hl : 0 < lam) {v p : E} (h : Cert f lam v p) :
    p ∈ f.dom ∧ ∀ x ∈ f.dom, proxObj f lam v p + (1 / 2) * ‖x - p‖ ^ 2 ≤ proxObj f lam v x := by
  refine ⟨h.1, fun x hx => ?_⟩
  have hc := h.2 x hx
  rw [inner_smul_left] at hc
  simp only [RCLike.conj_to_real] at hc
  have hexp : ‖x - v‖ ^ 2 = ‖x - p‖ ^ 2 + 2 * inner ℝ (x - p) (p - v) + ‖p - v‖ ^ 2 := by
    have : x - v = (x - p) + (p - v) := by abel
    rw [this, norm_add_sq_real]
  have hneg : inner ℝ (x - p) (p - v) = - inner ℝ (v - p) (x - p) := by
    rw [real_inner_comm, ← inner_neg_left]; congr 1; abel
  have hm : lam * (1 / lam * inner ℝ (v - p) (x - p)) = inner ℝ (v - p) (x - p) := by
    field_simp
  have := mul_le_mul_of_nonneg_left hc hl.le
  unfold proxObj
  nlinarith

theorem isProx_of_cert {f : ExtFn E} {lam : ℝ} (hl : 0 < lam) {v p : E} (h : Cert f lam v p) :
    IsProx f lam v p := by
  obtain ⟨h1, h2⟩ := isProx_of_cert_strong hl h
  refine ⟨h1, fun x hx => ?_⟩
  have := h2 x hx
  have : 0 ≤ ‖x - p‖ ^ 2 := by positivity
  linarith

/-- a real number bounded below along `t ↓ 0` -/
theorem nonneg_of_forall_small {a b : ℝ} (h : ∀ t : ℝ, 0 < t → t ≤ 1 → 0 ≤ a + t * b) : 0 ≤ a := by
  by_contra hneg
  push Not at hneg
  by_cases hb : b ≤ 0
  · have := h 1 one_pos le_rfl
    nlinarith
  · push Not at hb
    -- t = min 1 (-a / (2b))
    by_cases h1 : -a / (2 * b) ≤ 1
    · have ht : 0 < -a / (2 * b) := div_pos (by linarith) (by positivity)
      have := h _ ht h1
      have e : -a / (2 * b) * b = -a / 2 := by field_simp
      rw [e] at this
      linarith
    · push Not at h1
      have := h 1 one_pos le_rfl
      have : 2 * b < -a := by
        have h2b : 0 < 2 * b := by positivity
        rw [lt_div_iff₀ h2b] at h1
        linarith
      nlinarith

/-- for a convex functional the minimiser satisfies the certificate -/
theorem cert_of_isProx_convex {f : ExtFn E} (hconv : ConvexOn ℝ f.dom f.val) {lam : ℝ} (hl : 0 < lam)
    {v p : E} (h : IsProx f lam v p) : Cert f lam v p := by
  refine ⟨h.1, fun z hz => ?_⟩
  rw [inner_smul_left]
  simp only [RCLike.conj_to_real]
  -- along the segment p + t (z - p)
  have key : ∀ t : ℝ, 0 < t → t ≤ 1 →
      0 ≤ (lam * (f.val z - f.val p) - inner ℝ (v - p) (z - p)) + t * ((1 / 2) * ‖z - p‖ ^ 2) := by
    intro t ht ht1
    have hx : (1 - t) • p + t • z ∈ f.dom :=
      hconv.1 h.1 hz (by linarith) ht.le (by ring)
    have hfx : f.val ((1 - t) • p + t • z) ≤ (1 - t) * f.val p + t * f.val z := by
      have := hconv.2 h.1 hz (show (0 : ℝ) ≤ 1 - t by linarith) ht.le (by ring)
      simpa [smul_eq_mul] using this
    have hmin := h.2 _ hx
    unfold proxObj at hmin
    have hxv : (1 - t) • p + t • z - v = (p - v) + t • (z - p) := by
      simp only [sub_smul, one_smul, smul_sub]; abel
    rw [hxv, norm_add_sq_real, inner_smul_right, norm_smul, mul_pow, Real.norm_eq_abs, sq_abs] at hmin
    have hneg : inner ℝ (p - v) (z - p) = - inner ℝ (v - p) (z - p) := by
      rw [← inner_neg_left]; congr 1; abel
    rw [hneg] at hmin
    have h3 := mul_le_mul_of_nonneg_left hfx hl.le
    -- divide by t
    have : 0 ≤ t * ((lam * (f.val z - f.val p) - inner ℝ (v - p) (z - p)) + t * ((1 / 2) * ‖z - p‖ ^ 2)) := by
      nlinarith
    exact le_of_mul_le_mul_left (by rw [mul_zero]; exact this) ht
  have := nonneg_of_forall_small key
  have hm : lam * (1 / lam * inner ℝ (v - p) (z - p)) = inner ℝ (v - p) (z - p) := by field_simp
  by_contra hcon
  push Not at hcon
  have := mul_lt_mul_of_pos_left hcon hl
  nlinarith

/-! ### scaling: `ScaledFunctional.prox` -/

/-- `c • f` (same domain; this is the extended functional `c·f` for `c > 0`) -/
def ExtFn.smul (c : ℝ) (f : ExtFn E) : ExtFn E := ⟨f.dom, fun x => c * f.val x⟩

theorem isProx_smul_iff (f : ExtFn E) (c lam : ℝ) (v p : E) :
    IsProx (f.smul c) lam v p ↔ IsProx f (lam * c) v p := by
  unfold IsProx proxObj ExtFn.smul
  simp only [mul_assoc]

/-! ### translation: `Loss.prox` -/

/-- `x ↦ α · f(x − y)` -/
def ExtFn.lossOf (y : E) (α : ℝ) (f : ExtFn E) : ExtFn E :=
  ⟨{x | x - y ∈ f.dom}, fun x => α * f.val (x - y)⟩

theorem isProx_lossOf_iff (f : ExtFn E) (y : E) (α lam : ℝ) (v p : E) :
    IsProx (f.lossOf y α) lam v p ↔ IsProx f (α * lam) (v - y) (p - y) := by
  unfold IsProx proxObj ExtFn.lossOf
  simp only [Set.mem_ofPred_eq]
  have e : ∀ x : E, x - y - (v - y) = x - v := fun x => by abel
  constructor
  · rintro ⟨h1, h2⟩
    refine ⟨h1, fun x hx => ?_⟩
    have := h2 (x + y) (by simpa using hx)
    simp only [add_sub_cancel_right] at this
    rw [e p]
    have e2 : x - (v - y) = x + y - v := by abel
    rw [e2]
    nlinarith [this]
  · rintro ⟨h1, h2⟩
    refine ⟨h1, fun x hx => ?_⟩
    have := h2 (x - y) hx
    rw [e p, e x] at this
    nlinarith [this]

/-- what `Loss.prox` returns: `f.prox(v − y, scale·lam) + y` -/
theorem isProx_lossOf_of (f : ExtFn E) (y : E) (α lam : ℝ) (v q : E)
    (h : IsProx f (α * lam) (v - y) q) : IsProx (f.lossOf y α) lam v (q + y) := by
  rw [isProx_lossOf_iff]; simpa using h

end

/-! ### separable sums on a product space: `SeparableFunctional.prox` -/
section sep
variable {ι : Type*} [Fintype ι] [DecidableEq ι] {E : ι → Type*} [∀ i, NormedAddCommGroup (E i)]
  [∀ i, InnerProductSpace ℝ (E i)]

/-- `f(x) = Σ_i f_i(x_i)` on the `ℓ²` product (block arrays) -/
def ExtFn.sep (f : ∀ i, ExtFn (E i)) : ExtFn (PiLp 2 E) :=
  ⟨{x | ∀ i, x i ∈ (f i).dom}, fun x => ∑ i, (f i).val (x i)⟩

theorem proxObj_sep (f : ∀ i, ExtFn (E i)) (lam : ℝ) (v x : PiLp 2 E) :
    proxObj (ExtFn.sep f) lam v x = ∑ i, proxObj (f i) lam (v i) (x i) := by
  unfold proxObj ExtFn.sep
  simp only [PiLp.norm_sq_eq_of_L2, PiLp.sub_apply, Finset.mul_sum, ← Finset.sum_add_distrib]

/-- block-wise proximal points form a proximal point of the separable sum … -/
theorem isProx_sep_of (f : ∀ i, ExtFn (E i)) (lam : ℝ) (v p : PiLp 2 E)
    (h : ∀ i, IsProx (f i) lam (v i) (p i)) : IsProx (ExtFn.sep f) lam v p := by
  refine ⟨fun i => (h i).1, fun x hx => ?_⟩
  rw [proxObj_sep, proxObj_sep]
  exact Finset.sum_le_sum fun i _ => (h i).2 (x i) (hx i)

/-- … and every proximal point of the separable sum is block-wise proximal -/
theorem isProx_sep_blocks (f : ∀ i, ExtFn (E i)) (lam : ℝ) (v p : PiLp 2 E)
    (h : IsProx (ExtFn.sep f) lam v p) (i : ι) : IsProx (f i) lam (v i) (p i) := by
  refine ⟨h.1 i, fun xi hxi => ?_⟩
  let x : PiLp 2 E := WithLp.toLp 2 (Function.update (WithLp.ofLp p) i xi)
  have hxi' : x i = xi := by simp [x]
  have hxj : ∀ j, j ≠ i → x j = p j := fun j hj => by simp [x, Function.update_of_ne hj]
  have hx : x ∈ (ExtFn.sep f).dom := by
    intro j
    by_cases hj : j = i
    · subst hj; rw [hxi']; exact hxi
    · rw [hxj j hj]; exact h.1 j
  have := h.2 x hx
  rw [proxObj_sep, proxObj_sep] at this
  rw [← Finset.add_sum_erase _ _ (Finset.mem_univ i), ← Finset.add_sum_erase _ _ (Finset.mem_univ i)] at this
  have hrest : ∑ j ∈ Finset.univ.erase i, proxObj (f j) lam (v j) (x j)
      = ∑ j ∈ Finset.univ.erase i, proxObj (f j) lam (v j) (p j) :=
    Finset.sum_congr rfl fun j hj => by rw [hxj j (Finset.ne_of_mem_erase hj)]
  rw [hrest, hxi'] at this
  linarith

theorem isProx_sep_iff (f : ∀ i, ExtFn (E i)) (lam : ℝ) (v p : PiLp 2 E) :
    IsProx (ExtFn.sep f) lam v p ↔ ∀ i, IsProx (f i) lam (v i) (p i) :=
  ⟨isProx_sep_blocks f lam v p, isProx_sep_of f lam v p⟩

end sep

/-! ### Moreau decomposition: `Functional.conj_prox` -/
section moreau
variable {E : Type*} [NormedAddCommGroup E] [InnerProductSpace ℝ E]

/-- values `⟪x, z⟫ − f(x)`, `x ∈ dom f`, whose supremum is `f*(z)` -/
def conjSet (f : ExtFn E) (z : E) : Set ℝ := {r | ∃ x ∈ f.dom, r = inner ℝ x z - f.val x}

/-- Fenchel conjugate `f*(z) = sup_x ⟪x,z⟫ − f(x)`; its domain is where the supremum is finite -/
noncomputable def ExtFn.conj (f : ExtFn E) : ExtFn E :=
  ⟨{z | BddAbove (conjSet f z)}, fun z => sSup (conjSet f z)⟩

/-- Fenchel–Young equality at a sub-gradient -/
theorem conj_eq_of_subgrad (f : ExtFn E) {q u : E} (hq : q ∈ f.dom)
    (hsub : ∀ z ∈ f.dom, f.val q + inner ℝ u (z - q) ≤ f.val z) :
    u ∈ f.conj.dom ∧ f.conj.val u = inner ℝ q u - f.val q := by
  have hub : ∀ r ∈ conjSet f u, r ≤ inner ℝ q u - f.val q := by
    rintro r ⟨x, hx, rfl⟩
    have := hsub x hx
    rw [inner_sub_right, real_inner_comm x u, real_inner_comm q u] at this
    linarith
  have hmem : inner ℝ q u - f.val q ∈ conjSet f u := ⟨q, hq, rfl⟩
  refine ⟨⟨_, hub⟩, le_antisymm (csSup_le ⟨_, hmem⟩ hub) (le_csSup ⟨_, hub⟩ hmem)⟩

/-- **extended Moreau decomposition** — what `conj_prox` computes.  If `q` is certified as
    `prox_{f/lam}(v/lam)` then `v − lam·q` is certified as `prox_{lam f*}(v)`. -/
theorem cert_conj_of_cert (f : ExtFn E) {lam : ℝ} (hl : 0 < lam) {v q : E}
    (h : Cert f (1 / lam) ((1 / lam) • v) q) : Cert f.conj lam v (v - lam • q) := by
  obtain ⟨hq, hsub⟩ := h
  have hu : ∀ z ∈ f.dom, f.val q + inner ℝ (v - lam • q) (z - q) ≤ f.val z := by
    intro z hz
    have := hsub z hz
    have e : (1 / (1 / lam)) • ((1 / lam) • v - q) = v - lam • q := by
      rw [one_div_one_div, smul_sub, smul_smul, mul_one_div_cancel hl.ne', one_smul]
    rwa [e] at this
  obtain ⟨hdom, hval⟩ := conj_eq_of_subgrad f hq hu
  refine ⟨hdom, fun z hz => ?_⟩
  have e : (1 / lam) • (v - (v - lam • q)) = q := by
    rw [sub_sub_cancel, smul_smul, one_div_mul_cancel hl.ne', one_smul]
  rw [e, hval]
  have : inner ℝ q z - f.val q ≤ f.conj.val z := le_csSup hz ⟨q, hq, rfl⟩
  simp only [inner_sub_right]
  linarith

end moreau

/-! ### weighted squared-ℓ² loss with a linear forward operator: `SquaredL2Loss.prox` -/
section sql2
variable {E F : Type*} [NormedAddCommGroup E] [InnerProductSpace ℝ E] [NormedAddCommGroup F]
  [InnerProductSpace ℝ F]

/-- `x ↦ α ⟪W(Ax − y), Ax − y⟫` (finite everywhere) -/
def sqL2Fn (A : E →ₗ[ℝ] F) (W : F →ₗ[ℝ] F) (y : F) (α : ℝ) : ExtFn E :=
  ⟨Set.univ, fun x => α * inner ℝ (W (A x - y)) (A x - y)⟩

/-- weak form of `(I + 2αλ AᴴWA) x = v + 2αλ AᴴW y`: tested against every direction `d` -/
def NormalEq (A : E →ₗ[ℝ] F) (W : F →ₗ[ℝ] F) (y : F) (α lam : ℝ) (v x : E) : Prop :=
  ∀ d : E, inner ℝ (x - v) d + 2 * α * lam * inner ℝ (W (A x - y)) (A d) = 0

theorem proxObj_sqL2_expand (A : E →ₗ[ℝ] F) (W : F →ₗ[ℝ] F) (hsym : ∀ a b, inner ℝ (W a) b = inner ℝ a (W b))
    (y : F) (α lam : ℝ) (v x d : E) :
    proxObj (sqL2Fn A W y α) lam v (x + d) = proxObj (sqL2Fn A W y α) lam v x
      + (inner ℝ (x - v) d + 2 * α * lam * inner ℝ (W (A x - y)) (A d))
      + (lam * α * inner ℝ (W (A d)) (A d) + (1 / 2) * ‖d‖ ^ 2) := by
  unfold proxObj sqL2Fn
  simp only
  have e1 : A (x + d) - y = (A x - y) + A d := by rw [map_add]; abel
  have e2 : x + d - v = (x - v) + d := by abel
  rw [e1, e2, norm_add_sq_real, map_add, inner_add_left, inner_add_right, inner_add_right,
    hsym (A d) (A x - y), real_inner_comm (W (A x - y)) (A d)]
  ring

theorem lin_zero_of_quadratic_nonneg {s q : ℝ} (h : ∀ t : ℝ, 0 ≤ t * s + t ^ 2 * q) : s = 0 := by
  by_contra hs
  by_cases hq : q ≤ 0
  · have := h (-s)
    have : 0 < s ^ 2 := by positivity
    nlinarith
  · push Not at hq
    have := h (-s / (2 * q))
    have e : -s / (2 * q) * s + (-s / (2 * q)) ^ 2 * q = -(s ^ 2) / (4 * q) := by
      field_simp; ring
    rw [e] at this
    have : 0 < s ^ 2 / (4 * q) := by positivity
    have e2 : -(s ^ 2) / (4 * q) = -(s ^ 2 / (4 * q)) := by ring
    linarith

/-- every solution of the normal equations is the prox (for `αλ ≥ 0`, `W` symmetric positive
    semi-definite), and the prox solves the normal equations -/
theorem isProx_sqL2_iff (A : E →ₗ[ℝ] F) (W : F →ₗ[ℝ] F) (hsym : ∀ a b, inner ℝ (W a) b = inner ℝ a (W b))
    (hpos : ∀ a, 0 ≤ inner ℝ (W a) a) (y : F) {α lam : ℝ} (hal : 0 ≤ lam * α) (v x : E) :
    IsProx (sqL2Fn A W y α) lam v x ↔ NormalEq A W y α lam v x := by
  constructor
  · intro h d
    apply lin_zero_of_quadratic_nonneg (q := lam * α * inner ℝ (W (A d)) (A d) + (1 / 2) * ‖d‖ ^ 2)
    intro t
    have := h.2 (x + t • d) (Set.mem_univ _)
    rw [proxObj_sqL2_expand A W hsym, map_smul, map_smul, inner_smul_right, inner_smul_right,
      inner_smul_left, inner_smul_right, norm_smul, mul_pow, Real.norm_eq_abs, sq_abs] at this
    simp only [RCLike.conj_to_real] at this
    nlinarith
  · intro h
    refine ⟨Set.mem_univ _, fun z _ => ?_⟩
    have e : z = x + (z - x) := by abel
    rw [e, proxObj_sqL2_expand A W hsym, h (z - x)]
    have h1 := mul_nonneg hal (hpos (A (z - x)))
    have h2 : 0 ≤ ‖z - x‖ ^ 2 := by positivity
    linarith

end sql2

/-! strong form with the adjoint (complete spaces, continuous operators) -/
section adjoint
variable {E F : Type*} [NormedAddCommGroup E] [InnerProductSpace ℝ E] [CompleteSpace E]
  [NormedAddCommGroup F] [InnerProductSpace ℝ F] [CompleteSpace F]

theorem normalEq_iff_adjoint (A : E →L[ℝ] F) (W : F →L[ℝ] F) (y : F) (α lam : ℝ) (v x : E) :
    NormalEq (A : E →ₗ[ℝ] F) (W : F →ₗ[ℝ] F) y α lam v x ↔
      x + (2 * α * lam) • (ContinuousLinearMap.adjoint A) (W (A x)) =
        v + (2 * α * lam) • (ContinuousLinearMap.adjoint A) (W y) := by
  unfold NormalEq
  constructor
  · intro h
    rw [← sub_eq_zero, ← inner_self_eq_zero (𝕜 := ℝ)]
    have := h (x + (2 * α * lam) • (ContinuousLinearMap.adjoint A) (W (A x)) -
      (v + (2 * α * lam) • (ContinuousLinearMap.adjoint A) (W y)))
    set d := x + (2 * α * lam) • (ContinuousLinearMap.adjoint A) (W (A x)) -
      (v + (2 * α * lam) • (ContinuousLinearMap.adjoint A) (W y)) with hd
    have e : d = (x - v) + (2 * α * lam) • (ContinuousLinearMap.adjoint A) (W (A x - y)) := by
      rw [hd, map_sub, map_sub, smul_sub]; abel
    rw [e, inner_add_left, inner_smul_left, ContinuousLinearMap.adjoint_inner_left, ← e]
    simpa using this
  · intro h d
    have e : x - v = - ((2 * α * lam) • (ContinuousLinearMap.adjoint A) (W (A x - y))) := by
      rw [map_sub, map_sub, smul_sub]
      have := sub_eq_zero.mpr h
      rw [← sub_eq_zero]
      rw [← this]; abel
    rw [e, inner_neg_left, inner_smul_left, ContinuousLinearMap.adjoint_inner_left]
    simp

end adjoint

end Scico.ProxCalcAbs
