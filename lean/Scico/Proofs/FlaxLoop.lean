/-
  The training loop as a state machine (`Scico.Model.Flax` §6: `loopStep`, `loopRunN`) against the closed form.
-/
import Scico.Proofs.FlaxTrain

namespace Scico.Flax

theorem succ_mod_cases (a L : Nat) (hL : 0 < L) :
    ((a + 1) % L = 0 ∧ a % L = L - 1) ∨ ((a + 1) % L ≠ 0 ∧ (a + 1) % L = a % L + 1) := by
  have hd := Nat.div_add_mod a L
  have hr := Nat.mod_lt a hL
  by_cases h : a % L + 1 = L
  · left
    have : a + 1 = L * (a / L + 1) := by rw [Nat.mul_add]; omega
    exact ⟨by rw [this]; exact Nat.mul_mod_right _ _, by omega⟩
  · right
    have hlt : a % L + 1 < L := by omega
    have : a + 1 = L * (a / L) + (a % L + 1) := by omega
    have hm : (a + 1) % L = a % L + 1 := by rw [this, Nat.mul_add_mod, Nat.mod_eq_of_lt hlt]
    exact ⟨by omega, hm⟩

/-- the event the loop records for `step` -/
def evOf (c : TrainCfg) (offset step : Nat) : StepEv :=
  { step := step, batch := step - offset, logged := (step + 1) % c.logEvery == 0, epoch := step / c.spe,
    ckpt := (step + 1) % c.spc == 0 || step + 1 == c.numSteps }

/-- invariant of the loop after `n` iterations -/
theorem loopRunN_spec (c : TrainCfg) (hL : 1 ≤ c.logEvery) (offset : Nat) : ∀ n,
    loopRunN c offset n =
      ⟨min n ((offset + n) % c.logEvery), (List.range' offset n).map (evOf c offset),
       ((List.range' offset n).filter (fun s => (s + 1) % c.logEvery == 0)).map
         (fun s => (s, min c.logEvery (s + 1 - offset)))⟩ := by
  intro n
  induction n with
  | zero => simp [loopRunN]
  | succ n ih =>
    have hrun : loopRunN c offset (n + 1) = loopStep c offset (loopRunN c offset n) (offset + n) := by
      simp only [loopRunN, List.range'_1_concat, List.foldl_append, List.foldl_cons, List.foldl_nil]
    rw [hrun, ih]
    simp only [List.range'_1_concat, List.map_append, List.filter_append, List.map_cons, List.map_nil, List.filter_cons,
      List.filter_nil]
    rcases succ_mod_cases (offset + n) c.logEvery (by omega) with ⟨h0, hm⟩ | ⟨hne, hm⟩
    · have hb : ((offset + n + 1) % c.logEvery == 0) = true := by simpa using h0
      have h1 : offset + (n + 1) = offset + n + 1 := rfl
      simp only [loopStep, evOf, h1, h0, hm]
      simp
      omega
    · have hb : ((offset + n + 1) % c.logEvery == 0) = false := by simpa using hne
      have h1 : offset + (n + 1) = offset + n + 1 := rfl
      simp only [loopStep, evOf, h1, hb]
      simp [hb, hm]

end Scico.Flax
