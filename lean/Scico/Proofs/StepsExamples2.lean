/-
  Proofs/StepsExamples2 — the PDHG instance of `StepsExamples` (`f = ½‖· − y0‖²`, `g = 0`, `C = I`, `τ = σ = ½`) meets the
  hypotheses of the finite-dimensional convergence theorem `pdhg_converges_findim`: `g* =` indicator of `{0}`,
  `prox_{σg*} = 0`, saddle point `(y0, 0)`.
-/
import Scico.Proofs.StepsOpial
import Scico.Proofs.StepsOpial2
import Scico.Proofs.StepsOpial3
import Scico.Proofs.StepsOpial4
import Scico.Proofs.StepsExamples

set_option linter.unusedSectionVars false

namespace Scico.Steps

variable {X : Type} [NormedAddCommGroup X] [InnerProductSpace ℝ X]

theorem isProx_indicator_zero : IsProx (Fn.indicator ({0} : Set X)) (fun _ _ => (0 : X)) := by
  intro lam _ v
  refine ⟨rfl, fun y hy => ?_⟩
  have : y = 0 := hy
  subst this
  simp [Fn.indicator]

theorem exPDHG_conv [FiniteDimensional ℝ X] (y0 : X) :
    PDHGConvHyp (exPDHG y0) (halfSq y0) (Fn.indicator ({0} : Set X)) 1 (1 / 2) :=
  ⟨rfl, rfl, by norm_num [exPDHG], by norm_num [exPDHG], fun _ _ => rfl, fun _ _ => rfl, isProx_halfsq y0,
   isProx_indicator_zero, exPDHG_range y0⟩

theorem exPDHG_saddle [FiniteDimensional ℝ X] (y0 : X) :
    IsSaddle (exPDHG y0) (halfSq y0) (Fn.indicator ({0} : Set X)) (y0, 0) := by
  constructor
  · have := halfSq_subgrad y0 y0
    simpa [exPDHG] using this
  · refine ⟨rfl, fun y hy => ?_⟩
    have : y = 0 := hy
    subst this
    simp [Fn.indicator]

/-- the LinearizedADMM instance (`C = I`, `μ = ½`, `ν = 1`, so `μ‖C‖² = ½ < ν`) meets the hypotheses of
    `ladmm_converges_findim`; KKT point `(y0, y0, 0)` -/
theorem exLADMM_conv [FiniteDimensional ℝ X] (y0 : X) : LADMMConvHyp (exLADMM y0) (halfSq y0) zeroFn 1 :=
  ⟨by norm_num [exLADMM], by norm_num [exLADMM], fun _ _ => rfl, fun _ _ => rfl, isProx_halfsq y0, isProx_zero,
   by norm_num, fun a => by simp [exLADMM], by norm_num [exLADMM]⟩

theorem exLADMM_kkt [FiniteDimensional ℝ X] (y0 : X) : IsLKKT (exLADMM y0) (halfSq y0) zeroFn (y0, y0, 0) := by
  refine ⟨rfl, ?_, ?_⟩
  · have := halfSq_subgrad y0 y0
    simpa [exLADMM] using this
  · have := zeroFn_subgrad (E := X) y0
    simpa [exLADMM] using this

/-- ProximalADMM instance with STRICT constraints (`A = I`, `B = −I`, `c = 0`, `ρ = 1`, `μ = ν = 2 > 1 = ‖A‖² = ‖B‖²`) for
    `padmm_converges_findim`; KKT point `(y0, y0, y0, 0)` -/
noncomputable def exPADMM2 (y0 : X) : PADMMParams ℝ X X X :=
  { exPADMM y0 with mu := 2, nu := 2 }

theorem exPADMM2_conv [FiniteDimensional ℝ X] (y0 : X) : PADMMConvHyp (exPADMM2 y0) (halfSq y0) zeroFn 1 1 := by
  refine ⟨by norm_num [exPADMM2, exPADMM], by norm_num [exPADMM2], by norm_num [exPADMM2], fun _ _ => rfl,
    fun x y => by simp [exPADMM2, exPADMM, add_comm], fun _ _ => rfl,
    fun w z => by simp [exPADMM2, exPADMM, inner_neg_left, inner_neg_right], isProx_halfsq y0, isProx_zero,
    by norm_num, by norm_num, fun a => by simp [exPADMM2, exPADMM], fun b => by simp [exPADMM2, exPADMM],
    by norm_num [exPADMM2], by norm_num [exPADMM2]⟩

theorem exPADMM2_kkt [FiniteDimensional ℝ X] (y0 : X) : IsPKKT (exPADMM2 y0) (halfSq y0) zeroFn (y0, y0, y0, 0) := by
  refine ⟨rfl, by simp [exPADMM2, exPADMM], ?_, ?_⟩
  · have := halfSq_subgrad y0 y0
    simpa [exPADMM2, exPADMM] using this
  · have := zeroFn_subgrad (E := X) y0
    simpa [exPADMM2, exPADMM] using this

/-! ### ADMM, two identity constraints `ρ = (1, 2)`, relaxation `α = 3/2`, exact x-update: hypotheses of `admm_converges_findim` -/

theorem exADMM_xplus (y0 x0 : X) (σ : Fin ([idCon 1, idCon 2] : List (Con X X)).length → X) :
    xplus [idCon 1, idCon 2] (exSolveX y0 [idCon 1, idCon 2]) x0 σ = (1 / 4 : ℝ) • (y0 + σ 0 + (2 : ℝ) • σ 1) := by
  unfold xplus exSolveX sumRho sumRhoZU Pz
  simp [idCon, List.ofFn_succ]
  norm_num
  module

theorem exADMM_conv [FiniteDimensional ℝ X] (y0 x0 : X) :
    ADMMConvHyp [idCon 1, idCon 2] (3 / 2) (exSolveX y0 [idCon 1, idCon 2]) (halfSq y0) x0 1 2 := by
  have hid : ∀ c ∈ ([idCon 1, idCon 2] : List (Con X X)), c.C = id ∧ c.Cadj = id := by
    intro c hc; simp at hc; rcases hc with rfl | rfl <;> exact ⟨rfl, rfl⟩
  have hpos : ∀ c ∈ ([idCon 1, idCon 2] : List (Con X X)), 0 < c.rho := by
    intro c hc; simp at hc; rcases hc with rfl | rfl <;> norm_num [idCon]
  refine ⟨by norm_num, by norm_num, ?_, ?_, ?_, by norm_num, ?_, ?_, ?_, exSolveX_stationary y0 _ hid hpos,
    exSolveX_unique y0 _ hid hpos, ?_⟩
  · intro c hc x y; rw [(hid c hc).1]; rfl
  · intro c hc w x; rw [(hid c hc).1, (hid c hc).2]; rfl
  · intro c hc; simp at hc; rcases hc with rfl | rfl <;> exact isProx_zero
  · intro c hc; simp at hc; rcases hc with rfl | rfl <;> norm_num [idCon]
  · intro c hc; simp at hc; rcases hc with rfl | rfl <;> norm_num [idCon]
  · intro c hc; rw [(hid c hc).1]; exact continuous_id
  · have : xplus [idCon 1, idCon 2] (exSolveX y0 [idCon 1, idCon 2]) x0
        = fun σ => (1 / 4 : ℝ) • (y0 + σ 0 + (2 : ℝ) • σ 1) := funext (exADMM_xplus y0 x0)
    rw [this]
    fun_prop

theorem exADMM_kkt [FiniteDimensional ℝ X] (y0 : X) :
    IsAKKT ([idCon 1, idCon 2] : List (Con X X)) (halfSq y0) y0 (fun _ => 0) := by
  have hid : ∀ c ∈ ([idCon 1, idCon 2] : List (Con X X)), c.C = id ∧ c.Cadj = id := by
    intro c hc; simp at hc; rcases hc with rfl | rfl <;> exact ⟨rfl, rfl⟩
  constructor
  · intro i
    have hm : ([idCon 1, idCon 2] : List (Con X X)).get i ∈ ([idCon 1, idCon 2] : List (Con X X)) := List.get_mem _ i
    simp only [List.mem_cons, List.not_mem_nil, or_false] at hm
    rcases hm with h | h
    · rw [h]; simpa [idCon] using zeroFn_subgrad (E := X) y0
    · rw [h]; simpa [idCon] using zeroFn_subgrad (E := X) y0
  · have := ex_kktx y0 ([idCon 1, idCon 2] : List (Con X X)) hid
    simpa [List.ofFn_succ] using this

end Scico.Steps
