/-
  Proofs/StepsExamples2 — the PDHG instance of `StepsExamples` (`f = ½‖· − y0‖²`, `g = 0`, `C = I`, `τ = σ = ½`) meets the
  hypotheses of the finite-dimensional convergence theorem `pdhg_converges_findim`: `g* =` indicator of `{0}`,
  `prox_{σg*} = 0`, saddle point `(y0, 0)`.
-/
import Scico.Proofs.StepsOpial
import Scico.Proofs.StepsOpial2
import Scico.Proofs.StepsOpial3
import Scico.Proofs.StepsExamples

set_option linter.unusedSectionVars false

namespace Scico.Steps

variable {X : Type} [NormedAddCommGroup X] [InnerProductSpace ℝ X]

theorem isProx_indicator_zero : IsProx (Fn.indicator ({0} : Set X)) (fun _ _ => (0 : X)) := by
  intro lam _ v
  refine ⟨rfl, fun y hy => ?_⟩
  have : y = 0 := hy
  subst this
  simp [Fn.indicator]

theorem exPDHG_conv [FiniteDimensional ℝ X] (y0 : X) :
    PDHGConvHyp (exPDHG y0) (halfSq y0) (Fn.indicator ({0} : Set X)) 1 (1 / 2) :=
  ⟨rfl, rfl, by norm_num [exPDHG], by norm_num [exPDHG], fun _ _ => rfl, fun _ _ => rfl, isProx_halfsq y0,
   isProx_indicator_zero, exPDHG_range y0⟩

theorem exPDHG_saddle [FiniteDimensional ℝ X] (y0 : X) :
    IsSaddle (exPDHG y0) (halfSq y0) (Fn.indicator ({0} : Set X)) (y0, 0) := by
  constructor
  · have := halfSq_subgrad y0 y0
    simpa [exPDHG] using this
  · refine ⟨rfl, fun y hy => ?_⟩
    have : y = 0 := hy
    subst this
    simp [Fn.indicator]

/-- the LinearizedADMM instance (`C = I`, `μ = ½`, `ν = 1`, so `μ‖C‖² = ½ < ν`) meets the hypotheses of
    `ladmm_converges_findim`; KKT point `(y0, y0, 0)` -/
theorem exLADMM_conv [FiniteDimensional ℝ X] (y0 : X) : LADMMConvHyp (exLADMM y0) (halfSq y0) zeroFn 1 :=
  ⟨by norm_num [exLADMM], by norm_num [exLADMM], fun _ _ => rfl, fun _ _ => rfl, isProx_halfsq y0, isProx_zero,
   by norm_num, fun a => by simp [exLADMM], by norm_num [exLADMM]⟩

theorem exLADMM_kkt [FiniteDimensional ℝ X] (y0 : X) : IsLKKT (exLADMM y0) (halfSq y0) zeroFn (y0, y0, 0) := by
  refine ⟨rfl, ?_, ?_⟩
  · have := halfSq_subgrad y0 y0
    simpa [exLADMM] using this
  · have := zeroFn_subgrad (E := X) y0
    simpa [exLADMM] using this

/-- ProximalADMM instance with STRICT constraints (`A = I`, `B = −I`, `c = 0`, `ρ = 1`, `μ = ν = 2 > 1 = ‖A‖² = ‖B‖²`) for
    `padmm_converges_findim`; KKT point `(y0, y0, y0, 0)` -/
noncomputable def exPADMM2 (y0 : X) : PADMMParams ℝ X X X :=
  { exPADMM y0 with mu := 2, nu := 2 }

theorem exPADMM2_conv [FiniteDimensional ℝ X] (y0 : X) : PADMMConvHyp (exPADMM2 y0) (halfSq y0) zeroFn 1 1 := by
  refine ⟨by norm_num [exPADMM2, exPADMM], by norm_num [exPADMM2], by norm_num [exPADMM2], fun _ _ => rfl,
    fun x y => by simp [exPADMM2, exPADMM, add_comm], fun _ _ => rfl,
    fun w z => by simp [exPADMM2, exPADMM, inner_neg_left, inner_neg_right], isProx_halfsq y0, isProx_zero,
    by norm_num, by norm_num, fun a => by simp [exPADMM2, exPADMM], fun b => by simp [exPADMM2, exPADMM],
    by norm_num [exPADMM2], by norm_num [exPADMM2]⟩

theorem exPADMM2_kkt [FiniteDimensional ℝ X] (y0 : X) : IsPKKT (exPADMM2 y0) (halfSq y0) zeroFn (y0, y0, y0, 0) := by
  refine ⟨rfl, by simp [exPADMM2, exPADMM], ?_, ?_⟩
  · have := halfSq_subgrad y0 y0
    simpa [exPADMM2, exPADMM] using this
  · have := zeroFn_subgrad (E := X) y0
    simpa [exPADMM2, exPADMM] using this

end Scico.Steps
