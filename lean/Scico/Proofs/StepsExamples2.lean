/-
  Proofs/StepsExamples2 — the PDHG instance of `StepsExamples` (`f = ½‖· − y0‖²`, `g = 0`, `C = I`, `τ = σ = ½`) meets the
  hypotheses of the finite-dimensional convergence theorem `pdhg_converges_findim`: `g* =` indicator of `{0}`,
  `prox_{σg*} = 0`, saddle point `(y0, 0)`.
-/
import Scico.Proofs.StepsOpial
import Scico.Proofs.StepsExamples

set_option linter.unusedSectionVars false

namespace Scico.Steps

variable {X : Type} [NormedAddCommGroup X] [InnerProductSpace ℝ X]

theorem isProx_indicator_zero : IsProx (Fn.indicator ({0} : Set X)) (fun _ _ => (0 : X)) := by
  intro lam _ v
  refine ⟨rfl, fun y hy => ?_⟩
  have : y = 0 := hy
  subst this
  simp [Fn.indicator]

theorem exPDHG_conv [FiniteDimensional ℝ X] (y0 : X) :
    PDHGConvHyp (exPDHG y0) (halfSq y0) (Fn.indicator ({0} : Set X)) 1 (1 / 2) :=
  ⟨rfl, rfl, by norm_num [exPDHG], by norm_num [exPDHG], fun _ _ => rfl, fun _ _ => rfl, isProx_halfsq y0,
   isProx_indicator_zero, exPDHG_range y0⟩

theorem exPDHG_saddle [FiniteDimensional ℝ X] (y0 : X) :
    IsSaddle (exPDHG y0) (halfSq y0) (Fn.indicator ({0} : Set X)) (y0, 0) := by
  constructor
  · have := halfSq_subgrad y0 y0
    simpa [exPDHG] using this
  · refine ⟨rfl, fun y hy => ?_⟩
    have : y = 0 := hy
    subst this
    simp [Fn.indicator]

end Scico.Steps
