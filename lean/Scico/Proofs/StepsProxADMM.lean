/-
  Proofs/StepsProxADMM — Lyapunov functions of proximal ADMM (`ProximalADMM`, general `B`, `c`) and of
  linearized ADMM (`LinearizedADMM`) under the documented parameter constraints
  `μ ≥ ‖A‖²`, `ν ≥ ‖B‖²` (resp. `μ ‖C‖² ≤ ν`).

  `ProximalADMM.step` is ADMM with the proximal terms `P = ρ(μ I − AᵀA)`, `Q = ρ(ν I − BᵀB)` added to the
  x- and z-sub-problems (on states with `u − u_old = A x + B z − c`, which holds after every step).  With
  `‖a‖²_P = ρ(μ‖a‖² − ‖A a‖²)`, `‖b‖²_Q = ρ(ν‖b‖² − ‖B b‖²)` the function

      Ψ = ρ‖u − u*‖² + ‖x − x*‖²_P + ρν‖z − z*‖² + ‖z − z_old‖²_Q

  satisfies  `Ψ⁺ + ‖x⁺ − x‖²_P + ρν‖z⁺ − z‖² + ρ‖u⁺ − u‖² ≤ Ψ`  along the documented iteration.
  The inner-product algebra is `padmm_core`; `LinearizedADMM` is the instance `A = C`, `B = −I`, `c = 0`,
  `ρ = 1/ν`, `μ ↦ ν/μ`, `ν ↦ 1` (`Q = 0`).
-/
import Scico.Model.Steps
import Scico.Proofs.StepsConvex
import Scico.Proofs.StepsFixed
import Scico.Proofs.StepsRelax
import Mathlib.Tactic.Abel

set_option linter.unusedSectionVars false
set_option linter.unusedSimpArgs false

namespace Scico.Steps

variable {X Z U : Type} [NormedAddCommGroup X] [InnerProductSpace ℝ X]
  [NormedAddCommGroup Z] [InnerProductSpace ℝ Z] [NormedAddCommGroup U] [InnerProductSpace ℝ U]

local notation "⟪" x ", " y "⟫" => inner ℝ x y

/-- the inner-product algebra of the proximal-ADMM Lyapunov argument.
    `ex = x − x*`, `dx = x⁺ − x`, `ez = z − z*`, `dz = z⁺ − z`, `dzo = z − z_old`, `eu = u − u*`,
    `a1 = A ex`, `a2 = A dx`, `b1 = B ez`, `b2 = B dz`, `b3 = B dzo`; `u⁺ − u = a1 + a2 + b1 + b2`. -/
theorem padmm_core {rho mu nu m : ℝ} (hrho : 0 < rho) (ex dx : X) (ez dz dzo : Z) (eu a1 a2 b1 b2 b3 : U)
    (hMx : m * ‖ex + dx‖ ^ 2 ≤ -(rho * mu * ⟪dx, ex + dx⟫) - rho * ⟪eu + (a1 + a2 + b1 + b2) - a2 - b2, a1 + a2⟫)
    (hMz : 0 ≤ -(rho * nu * ⟪dz, ez + dz⟫) - rho * ⟪eu + (a1 + a2 + b1 + b2) - b2, b1 + b2⟫)
    (hMc : rho * ⟪a1 + a2 + b1 + b2, b2⟫ ≤ -(rho * (nu * ‖dz‖ ^ 2 - ‖b2‖ ^ 2)) + rho * (nu * ⟪dzo, dz⟫ - ⟪b3, b2⟫))
    (hQ : ‖b3 - b2‖ ^ 2 ≤ nu * ‖dzo - dz‖ ^ 2) :
    (rho * ‖eu + (a1 + a2 + b1 + b2)‖ ^ 2 + rho * ‖b1 + b2‖ ^ 2 + rho * (mu * ‖ex + dx‖ ^ 2 - ‖a1 + a2‖ ^ 2)
        + rho * (nu * ‖ez + dz‖ ^ 2 - ‖b1 + b2‖ ^ 2) + rho * (nu * ‖dz‖ ^ 2 - ‖b2‖ ^ 2))
      + (rho * (mu * ‖dx‖ ^ 2 - ‖a2‖ ^ 2) + rho * (nu * ‖dz‖ ^ 2 - ‖b2‖ ^ 2) + rho * ‖b2‖ ^ 2
          + rho * ‖a1 + a2 + b1 + b2‖ ^ 2) + 2 * (m * ‖ex + dx‖ ^ 2)
      ≤ rho * ‖eu‖ ^ 2 + rho * ‖b1‖ ^ 2 + rho * (mu * ‖ex‖ ^ 2 - ‖a1‖ ^ 2) + rho * (nu * ‖ez‖ ^ 2 - ‖b1‖ ^ 2)
        + rho * (nu * ‖dzo‖ ^ 2 - ‖b3‖ ^ 2) := by
  have hQ' := mul_le_mul_of_nonneg_left hQ hrho.le
  simp only [← real_inner_self_eq_norm_sq] at hMx hMc hQ' ⊢
  simp only [inner_add_left, inner_add_right, inner_sub_left, inner_sub_right] at hMx hMz hMc hQ' ⊢
  simp only [mul_add, mul_sub] at hMx hMz hMc hQ' ⊢
  simp only [real_inner_comm eu a1, real_inner_comm eu a2, real_inner_comm eu b1, real_inner_comm eu b2, real_inner_comm eu b3, real_inner_comm a1 a2, real_inner_comm a1 b1, real_inner_comm a1 b2, real_inner_comm a1 b3, real_inner_comm a2 b1, real_inner_comm a2 b2, real_inner_comm a2 b3, real_inner_comm b1 b2, real_inner_comm b1 b3, real_inner_comm b2 b3, real_inner_comm ez dz, real_inner_comm ez dzo, real_inner_comm dz dzo, real_inner_comm ex dx] at hMx hMz hMc hQ' ⊢
  linarith

theorem sub_of_add {V W : Type} [AddCommGroup V] [AddCommGroup W] (f : V → W) (h : ∀ x y, f (x + y) = f x + f y)
    (x y : V) : f (x - y) = f x - f y := by
  have := h (x - y) y
  rw [sub_add_cancel] at this
  rw [this]; abel

/-! ### ProximalADMM -/

/-- problem-level hypotheses: documented problem class, KKT point, documented parameter constraints -/
structure PADMMHyp (p : PADMMParams ℝ X Z U) (F : Fn X) (G : Fn Z) (xs : X) (zs : Z) (us : U) : Prop where
  rho : 0 < p.rho
  mu : 0 < p.mu
  nu : 0 < p.nu
  addA : ∀ x y, p.A (x + y) = p.A x + p.A y
  addB : ∀ x y, p.B (x + y) = p.B x + p.B y
  adjA : ∀ w x, ⟪p.AH w, x⟫ = ⟪w, p.A x⟫
  adjB : ∀ w z, ⟪p.BH w, z⟫ = ⟪w, p.B z⟫
  proxf : IsProx F p.proxf
  proxg : IsProx G p.proxg
  feas : p.A xs + p.B zs = p.c
  kktx : F.Subgrad xs (-(p.rho • p.AH us))
  kktz : G.Subgrad zs (-(p.rho • p.BH us))
  /-- `ν ≥ ‖B‖²` -/
  bdB : ∀ w, ‖p.B w‖ ^ 2 ≤ p.nu * ‖w‖ ^ 2
  /-- `μ ≥ ‖A‖²` -/
  bdA : ∀ w, ‖p.A w‖ ^ 2 ≤ p.mu * ‖w‖ ^ 2

/-- what every state produced by `step()` satisfies -/
structure PADMMInv (p : PADMMParams ℝ X Z U) (G : Fn Z) (s : PADMMState X Z U) : Prop where
  i1 : s.u = s.uOld + p.A s.x + p.B s.z - p.c
  i2 : G.Subgrad s.z ((p.rho * p.nu) • (s.zOld - s.z) - p.rho • p.BH (p.A s.x + p.B s.zOld - p.c + s.uOld))

noncomputable def padmmPsi (p : PADMMParams ℝ X Z U) (xs : X) (zs : Z) (us : U) (s : PADMMState X Z U) : ℝ :=
  p.rho * ‖s.u - us‖ ^ 2 + p.rho * (p.mu * ‖s.x - xs‖ ^ 2 - ‖p.A (s.x - xs)‖ ^ 2) + p.rho * p.nu * ‖s.z - zs‖ ^ 2
    + p.rho * (p.nu * ‖s.z - s.zOld‖ ^ 2 - ‖p.B (s.z - s.zOld)‖ ^ 2)

noncomputable def padmmDiss (p : PADMMParams ℝ X Z U) (s s' : PADMMState X Z U) : ℝ :=
  p.rho * (p.mu * ‖s'.x - s.x‖ ^ 2 - ‖p.A (s'.x - s.x)‖ ^ 2) + p.rho * p.nu * ‖s'.z - s.z‖ ^ 2
    + p.rho * ‖s'.u - s.u‖ ^ 2

theorem smul_inv_mul_sub (a b : ℝ) (ha : 0 < a) (hb : 0 < b) {E : Type} [NormedAddCommGroup E] [InnerProductSpace ℝ E]
    (x xn w : E) :
    (1 / (a⁻¹ * b⁻¹)) • (x - b⁻¹ • w - xn) = (a * b) • (x - xn) - a • w := by
  have h1 : 1 / (a⁻¹ * b⁻¹) = a * b := by field_simp
  rw [h1]
  have : x - b⁻¹ • w - xn = (x - xn) - b⁻¹ • w := by abel
  rw [this, smul_sub, smul_smul]
  have : a * b * b⁻¹ = a := by field_simp
  rw [this]

/-- the state after ANY step satisfies the invariant -/
theorem padmm_inv_step (p : PADMMParams ℝ X Z U) (G : Fn Z) (hrho : 0 < p.rho) (hnu : 0 < p.nu)
    (hg : IsProx G p.proxg) (s : PADMMState X Z U) : PADMMInv p G (padmmSpecStep p s) := by
  refine ⟨rfl, ?_⟩
  have := hg (p.rho⁻¹ * p.nu⁻¹) (by positivity)
    (s.z - p.nu⁻¹ • p.BH (p.A (padmmSpecStep p s).x + p.B s.z - p.c + s.u))
  rw [smul_inv_mul_sub p.rho p.nu hrho hnu] at this
  exact this

theorem padmm_lyapunov_step_strong (p : PADMMParams ℝ X Z U) (F : Fn X) (G : Fn Z) (xs : X) (zs : Z) (us : U)
    (H : PADMMHyp p F G xs zs us) {m : ℝ} (hsm : StrongSub F m) (s : PADMMState X Z U) (hI : PADMMInv p G s) :
    padmmPsi p xs zs us (padmmSpecStep p s) + padmmDiss p s (padmmSpecStep p s)
        + 2 * (m * ‖(padmmSpecStep p s).x - xs‖ ^ 2) ≤ padmmPsi p xs zs us s := by
  have hrho := H.rho
  have hmu := H.mu
  have hnu := H.nu
  have subA := sub_of_add p.A H.addA
  have subB := sub_of_add p.B H.addB
  set xn := (padmmSpecStep p s).x with hxn
  set zn := (padmmSpecStep p s).z with hzn
  have hxn' : xn = p.proxf (p.rho⁻¹ * p.mu⁻¹) (s.x - p.mu⁻¹ • p.AH ((2 : ℝ) • s.u - s.uOld)) := rfl
  have hzn' : zn = p.proxg (p.rho⁻¹ * p.nu⁻¹) (s.z - p.nu⁻¹ • p.BH (p.A xn + p.B s.z - p.c + s.u)) := rfl
  have hun : (padmmSpecStep p s).u = s.u + p.A xn + p.B zn - p.c := rfl
  have hzo : (padmmSpecStep p s).zOld = s.z := rfl
  -- the three sub-gradient certificates
  have cx := H.proxf (p.rho⁻¹ * p.mu⁻¹) (by positivity) (s.x - p.mu⁻¹ • p.AH ((2 : ℝ) • s.u - s.uOld))
  rw [← hxn', smul_inv_mul_sub p.rho p.mu hrho hmu] at cx
  have cz := H.proxg (p.rho⁻¹ * p.nu⁻¹) (by positivity) (s.z - p.nu⁻¹ • p.BH (p.A xn + p.B s.z - p.c + s.u))
  rw [← hzn', smul_inv_mul_sub p.rho p.nu hrho hnu] at cz
  have mx := hsm _ _ _ _ cx H.kktx
  have mz := Fn.subgrad_monotone cz H.kktz
  have mc := Fn.subgrad_monotone cz hI.i2
  -- the vectors of the core lemma
  set ex := s.x - xs with hex
  set dx := xn - s.x with hdx
  set ez := s.z - zs with hez
  set dz := zn - s.z with hdz
  set dzo := s.z - s.zOld with hdzo
  set eu := s.u - us with heu
  clear_value ex dx ez dz dzo eu xn zn
  have ea1 : p.A ex = p.A s.x - p.A xs := by rw [hex]; exact subA _ _
  have ea2 : p.A dx = p.A xn - p.A s.x := by rw [hdx]; exact subA _ _
  have eb1 : p.B ez = p.B s.z - p.B zs := by rw [hez]; exact subB _ _
  have eb2 : p.B dz = p.B zn - p.B s.z := by rw [hdz]; exact subB _ _
  have eb3 : p.B dzo = p.B s.z - p.B s.zOld := by rw [hdzo]; exact subB _ _
  have hc : p.c = p.A xs + p.B zs := H.feas.symm
  have huo : s.uOld = s.u - p.A s.x - p.B s.z + p.c := by
    have := hI.i1
    rw [this]; abel
  have exn : xn - xs = ex + dx := by simp only [hex, hdx]; abel
  have ezn : zn - zs = ez + dz := by simp only [hez, hdz]; abel
  have eAxn : p.A (xn - xs) = p.A ex + p.A dx := by rw [exn, H.addA]
  have eBzn : p.B (zn - zs) = p.B ez + p.B dz := by rw [ezn, H.addB]
  have hMx : m * ‖ex + dx‖ ^ 2 ≤ -(p.rho * p.mu * ⟪dx, ex + dx⟫)
      - p.rho * ⟪eu + (p.A ex + p.A dx + p.B ez + p.B dz) - p.A dx - p.B dz, p.A ex + p.A dx⟫ := by
    have e1 : (p.rho * p.mu) • (s.x - xn) - p.rho • p.AH ((2 : ℝ) • s.u - s.uOld) - -(p.rho • p.AH us)
        = -((p.rho * p.mu) • dx) - p.rho • p.AH ((2 : ℝ) • s.u - s.uOld) + p.rho • p.AH us := by
      simp only [hdx, smul_sub]; abel
    rw [e1, inner_add_left, inner_sub_left, inner_neg_left, inner_smul_left, inner_smul_left, inner_smul_left,
      H.adjA, H.adjA, eAxn, exn] at mx
    simp only [RCLike.conj_to_real] at mx
    have e2 : eu + (p.A ex + p.A dx + p.B ez + p.B dz) - p.A dx - p.B dz = ((2 : ℝ) • s.u - s.uOld) - us := by
      rw [huo, two_smul, ea1, eb1, hc]
      simp only [heu]; abel
    have e4 : ⟪((2 : ℝ) • s.u - s.uOld) - us, p.A ex + p.A dx⟫
        = ⟪(2 : ℝ) • s.u - s.uOld, p.A ex + p.A dx⟫ - ⟪us, p.A ex + p.A dx⟫ := inner_sub_left _ _ _
    rw [e2, e4]
    linarith
  have hMz : 0 ≤ -(p.rho * p.nu * ⟪dz, ez + dz⟫)
      - p.rho * ⟪eu + (p.A ex + p.A dx + p.B ez + p.B dz) - p.B dz, p.B ez + p.B dz⟫ := by
    have e1 : (p.rho * p.nu) • (s.z - zn) - p.rho • p.BH (p.A xn + p.B s.z - p.c + s.u) - -(p.rho • p.BH us)
        = -((p.rho * p.nu) • dz) - p.rho • p.BH (p.A xn + p.B s.z - p.c + s.u) + p.rho • p.BH us := by
      simp only [hdz, smul_sub]; abel
    rw [e1, inner_add_left, inner_sub_left, inner_neg_left, inner_smul_left, inner_smul_left, inner_smul_left,
      H.adjB, H.adjB, eBzn, ezn] at mz
    simp only [RCLike.conj_to_real] at mz
    have e2 : eu + (p.A ex + p.A dx + p.B ez + p.B dz) - p.B dz = (p.A xn + p.B s.z - p.c + s.u) - us := by
      rw [ea1, ea2, eb1, hc]
      simp only [heu]; abel
    have e4 : ⟪(p.A xn + p.B s.z - p.c + s.u) - us, p.B ez + p.B dz⟫
        = ⟪p.A xn + p.B s.z - p.c + s.u, p.B ez + p.B dz⟫ - ⟪us, p.B ez + p.B dz⟫ := inner_sub_left _ _ _
    rw [e2, e4]
    linarith
  have hMc : p.rho * ⟪p.A ex + p.A dx + p.B ez + p.B dz, p.B dz⟫
      ≤ -(p.rho * (p.nu * ‖dz‖ ^ 2 - ‖p.B dz‖ ^ 2)) + p.rho * (p.nu * ⟪dzo, dz⟫ - ⟪p.B dzo, p.B dz⟫) := by
    have e1 : (p.rho * p.nu) • (s.z - zn) - p.rho • p.BH (p.A xn + p.B s.z - p.c + s.u)
          - ((p.rho * p.nu) • (s.zOld - s.z) - p.rho • p.BH (p.A s.x + p.B s.zOld - p.c + s.uOld))
        = -((p.rho * p.nu) • dz) + (p.rho * p.nu) • dzo - p.rho • p.BH (p.A xn + p.B s.z - p.c + s.u)
          + p.rho • p.BH (p.A s.x + p.B s.zOld - p.c + s.uOld) := by
      simp only [hdz, hdzo, smul_sub]; abel
    rw [e1, inner_add_left, inner_sub_left, inner_add_left, inner_neg_left, inner_smul_left, inner_smul_left,
      inner_smul_left, inner_smul_left, H.adjB, H.adjB] at mc
    simp only [RCLike.conj_to_real] at mc
    have e2 : p.A ex + p.A dx + p.B ez + p.B dz + p.B dzo - p.B dz
        = (p.A xn + p.B s.z - p.c + s.u) - (p.A s.x + p.B s.zOld - p.c + s.uOld) := by
      rw [huo, ea1, ea2, eb1, eb3, hc]; abel
    have e3 : ⟪p.A ex + p.A dx + p.B ez + p.B dz, p.B dz⟫ + ⟪p.B dzo, p.B dz⟫ - ‖p.B dz‖ ^ 2
        = ⟪p.A xn + p.B s.z - p.c + s.u, p.B dz⟫ - ⟪p.A s.x + p.B s.zOld - p.c + s.uOld, p.B dz⟫ := by
      rw [← inner_sub_left, ← e2, ← real_inner_self_eq_norm_sq]
      simp only [inner_add_left, inner_sub_left]
    rw [real_inner_self_eq_norm_sq] at mc
    nlinarith [mc, e3]
  have hQ : ‖p.B dzo - p.B dz‖ ^ 2 ≤ p.nu * ‖dzo - dz‖ ^ 2 := by
    rw [← subB]; exact H.bdB _
  have core := padmm_core hrho ex dx ez dz dzo eu (p.A ex) (p.A dx) (p.B ez) (p.B dz) (p.B dzo) hMx hMz hMc hQ
  -- translate back
  have hdu : (padmmSpecStep p s).u - s.u = p.A ex + p.A dx + p.B ez + p.B dz := by
    rw [hun, ea1, ea2, eb1, eb2, hc]; abel
  have heu' : (padmmSpecStep p s).u - us = eu + (p.A ex + p.A dx + p.B ez + p.B dz) := by
    rw [← hdu]; simp only [heu]; abel
  unfold padmmPsi padmmDiss
  rw [heu', hdu, hzo, ← hxn, ← hzn, exn, ezn, H.addA, ← hdx, ← hdz, ← hdzo, ← hex, ← hez, ← heu]
  nlinarith [core]

theorem padmm_lyapunov_step (p : PADMMParams ℝ X Z U) (F : Fn X) (G : Fn Z) (xs : X) (zs : Z) (us : U)
    (H : PADMMHyp p F G xs zs us) (s : PADMMState X Z U) (hI : PADMMInv p G s) :
    padmmPsi p xs zs us (padmmSpecStep p s) + padmmDiss p s (padmmSpecStep p s) ≤ padmmPsi p xs zs us s := by
  have := padmm_lyapunov_step_strong p F G xs zs us H (strongSub_zero F) s hI
  simpa using this

theorem padmmPsi_nonneg (p : PADMMParams ℝ X Z U) (F : Fn X) (G : Fn Z) (xs : X) (zs : Z) (us : U)
    (H : PADMMHyp p F G xs zs us) (s : PADMMState X Z U) : 0 ≤ padmmPsi p xs zs us s := by
  unfold padmmPsi
  have h1 := H.bdA (s.x - xs)
  have h2 := H.bdB (s.z - s.zOld)
  have hr := H.rho
  have hn := H.nu
  have t1 : 0 ≤ p.rho * ‖s.u - us‖ ^ 2 := by positivity
  have t2 : 0 ≤ p.rho * (p.mu * ‖s.x - xs‖ ^ 2 - ‖p.A (s.x - xs)‖ ^ 2) := mul_nonneg hr.le (by linarith)
  have t3 : 0 ≤ p.rho * p.nu * ‖s.z - zs‖ ^ 2 := by positivity
  have t4 : 0 ≤ p.rho * (p.nu * ‖s.z - s.zOld‖ ^ 2 - ‖p.B (s.z - s.zOld)‖ ^ 2) := mul_nonneg hr.le (by linarith)
  linarith

theorem padmmDiss_lower (p : PADMMParams ℝ X Z U) (F : Fn X) (G : Fn Z) (xs : X) (zs : Z) (us : U)
    (H : PADMMHyp p F G xs zs us) (s s' : PADMMState X Z U) :
    p.rho * p.nu * ‖s'.z - s.z‖ ^ 2 + p.rho * ‖s'.u - s.u‖ ^ 2 ≤ padmmDiss p s s' := by
  unfold padmmDiss
  have h1 := H.bdA (s'.x - s.x)
  have hr := H.rho
  have t2 : 0 ≤ p.rho * (p.mu * ‖s'.x - s.x‖ ^ 2 - ‖p.A (s'.x - s.x)‖ ^ 2) := mul_nonneg hr.le (by linarith)
  linarith

theorem padmmDiss_nonneg (p : PADMMParams ℝ X Z U) (F : Fn X) (G : Fn Z) (xs : X) (zs : Z) (us : U)
    (H : PADMMHyp p F G xs zs us) (s s' : PADMMState X Z U) : 0 ≤ padmmDiss p s s' := by
  have := padmmDiss_lower p F G xs zs us H s s'
  have hr := H.rho
  have hn := H.nu
  have t3 : 0 ≤ p.rho * p.nu * ‖s'.z - s.z‖ ^ 2 := by positivity
  have t4 : 0 ≤ p.rho * ‖s'.u - s.u‖ ^ 2 := by positivity
  linarith

theorem padmm_inv_iter (p : PADMMParams ℝ X Z U) (F : Fn X) (G : Fn Z) (xs : X) (zs : Z) (us : U)
    (H : PADMMHyp p F G xs zs us) (s : PADMMState X Z U) (hI : PADMMInv p G s) (k : Nat) :
    PADMMInv p G (iter (padmmSpecStep p) k s) := by
  induction k with
  | zero => exact hI
  | succ k _ => rw [iter_succ']; exact padmm_inv_step p G H.rho H.nu H.proxg _

/-- telescoped along the trajectory -/
theorem padmm_lyapunov_sum (p : PADMMParams ℝ X Z U) (F : Fn X) (G : Fn Z) (xs : X) (zs : Z) (us : U)
    (H : PADMMHyp p F G xs zs us) (s : PADMMState X Z U) (hI : PADMMInv p G s) (k : Nat) :
    (∑ j ∈ Finset.range k, padmmDiss p (iter (padmmSpecStep p) j s) (iter (padmmSpecStep p) (j + 1) s))
      + padmmPsi p xs zs us (iter (padmmSpecStep p) k s) ≤ padmmPsi p xs zs us s := by
  induction k with
  | zero => simp [iter]
  | succ k ih =>
    rw [Finset.sum_range_succ]
    have h := padmm_lyapunov_step p F G xs zs us H _ (padmm_inv_iter p F G xs zs us H s hI k)
    rw [← iter_succ' (padmmSpecStep p) k s] at h
    linarith

/-- `Ψ_k` is non-increasing -/
theorem padmm_lyapunov_mono (p : PADMMParams ℝ X Z U) (F : Fn X) (G : Fn Z) (xs : X) (zs : Z) (us : U)
    (H : PADMMHyp p F G xs zs us) (s : PADMMState X Z U) (hI : PADMMInv p G s) (k : Nat) :
    padmmPsi p xs zs us (iter (padmmSpecStep p) (k + 1) s) ≤ padmmPsi p xs zs us (iter (padmmSpecStep p) k s) := by
  have h := padmm_lyapunov_step p F G xs zs us H _ (padmm_inv_iter p F G xs zs us H s hI k)
  rw [← iter_succ' (padmmSpecStep p) k s] at h
  have := padmmDiss_nonneg p F G xs zs us H (iter (padmmSpecStep p) k s) (iter (padmmSpecStep p) (k + 1) s)
  linarith

/-- from a state satisfying the invariant: `‖u_{k+1} − u_k‖ → 0` and `‖z_{k+1} − z_k‖ → 0` -/
theorem padmm_increments_tendsto (p : PADMMParams ℝ X Z U) (F : Fn X) (G : Fn Z) (xs : X) (zs : Z) (us : U)
    (H : PADMMHyp p F G xs zs us) (s : PADMMState X Z U) (hI : PADMMInv p G s) :
    Filter.Tendsto (fun k => ‖(iter (padmmSpecStep p) (k + 1) s).u - (iter (padmmSpecStep p) k s).u‖)
      Filter.atTop (nhds 0) ∧
    Filter.Tendsto (fun k => ‖(iter (padmmSpecStep p) (k + 1) s).z - (iter (padmmSpecStep p) k s).z‖)
      Filter.atTop (nhds 0) := by
  have hr := H.rho
  have hn := H.nu
  have hD : Filter.Tendsto (fun k => padmmDiss p (iter (padmmSpecStep p) k s) (iter (padmmSpecStep p) (k + 1) s))
      Filter.atTop (nhds 0) := by
    apply tendsto_zero_of_partial_sums_le (c := padmmPsi p xs zs us s)
    · intro n; exact padmmDiss_nonneg p F G xs zs us H _ _
    · intro n
      have := padmm_lyapunov_sum p F G xs zs us H s hI n
      have := padmmPsi_nonneg p F G xs zs us H (iter (padmmSpecStep p) n s)
      linarith
  constructor
  · have hb := hD.const_mul (1 / p.rho)
    rw [mul_zero] at hb
    refine tendsto_zero_of_sq_le (fun k => norm_nonneg _) (fun k => ?_) hb
    have := padmmDiss_lower p F G xs zs us H (iter (padmmSpecStep p) k s) (iter (padmmSpecStep p) (k + 1) s)
    have t3 : 0 ≤ p.rho * p.nu * ‖(iter (padmmSpecStep p) (k + 1) s).z - (iter (padmmSpecStep p) k s).z‖ ^ 2 := by positivity
    rw [one_div, inv_mul_eq_div, le_div_iff₀ hr]
    linarith
  · have hb := hD.const_mul (1 / (p.rho * p.nu))
    rw [mul_zero] at hb
    refine tendsto_zero_of_sq_le (fun k => norm_nonneg _) (fun k => ?_) hb
    have := padmmDiss_lower p F G xs zs us H (iter (padmmSpecStep p) k s) (iter (padmmSpecStep p) (k + 1) s)
    have t4 : 0 ≤ p.rho * ‖(iter (padmmSpecStep p) (k + 1) s).u - (iter (padmmSpecStep p) k s).u‖ ^ 2 := by positivity
    have hrn : 0 < p.rho * p.nu := by positivity
    rw [one_div, inv_mul_eq_div, le_div_iff₀ hrn]
    linarith

/-- from EVERY start: the residuals reported by `norm_primal_residual()` and (fast form) `norm_dual_residual()`
    tend to `0` -/
theorem padmm_residuals_tendsto (p : PADMMParams ℝ X Z U) (F : Fn X) (G : Fn Z) (xs : X) (zs : Z) (us : U)
    (H : PADMMHyp p F G xs zs us) (hnu : p.normU = fun v => ‖v‖) (hnz : p.normZ = fun v => ‖v‖)
    (hfast : p.fastDual = true) (s : PADMMState X Z U) :
    (∃ r : ℕ → ℝ, (∀ k, padmmNormPrimalImpl p (iter (padmmSpecStep p) (k + 2) s) none none = .ok (r k)) ∧
      Filter.Tendsto r Filter.atTop (nhds 0)) ∧
    Filter.Tendsto (fun k => padmmNormDualImpl p (iter (padmmSpecStep p) (k + 2) s)) Filter.atTop (nhds 0) := by
  have hI1 := padmm_inv_step p G H.rho H.nu H.proxg s
  obtain ⟨hu, hz⟩ := padmm_increments_tendsto p F G xs zs us H (padmmSpecStep p s) hI1
  have hshift : ∀ k, iter (padmmSpecStep p) (k + 2) s = iter (padmmSpecStep p) (k + 1) (padmmSpecStep p s) := fun k => rfl
  constructor
  · refine ⟨fun k => ‖(iter (padmmSpecStep p) (k + 1) (padmmSpecStep p s)).u - (iter (padmmSpecStep p) k (padmmSpecStep p s)).u‖,
      fun k => ?_, hu⟩
    rw [hshift]
    have hinv := padmm_inv_iter p F G xs zs us H (padmmSpecStep p s) hI1 (k + 1)
    have huo : (iter (padmmSpecStep p) (k + 1) (padmmSpecStep p s)).uOld = (iter (padmmSpecStep p) k (padmmSpecStep p s)).u := by
      rw [iter_succ']; rfl
    unfold padmmNormPrimalImpl
    simp only [hnu]
    congr 2
    have := hinv.i1
    rw [huo] at this
    rw [this]; abel
  · refine hz.congr (fun k => ?_)
    rw [hshift]
    unfold padmmNormDualImpl
    simp only [hfast, hnz, if_true]
    congr 2
    rw [iter_succ']; rfl

/-! ### LinearizedADMM  (`A = C`, `B = −I`, `c = 0`, `ρ = 1/ν`, `μ ↦ ν/μ`, `ν ↦ 1`) -/

structure LADMMHyp (p : LADMMParams ℝ X Z) (F : Fn X) (G : Fn Z) (xs : X) (us : Z) : Prop where
  mu : 0 < p.mu
  nu : 0 < p.nu
  add : ∀ x y, p.C (x + y) = p.C x + p.C y
  adj : ∀ w x, ⟪p.Cadj w, x⟫ = ⟪w, p.C x⟫
  proxf : IsProx F p.proxf
  proxg : IsProx G p.proxg
  kktx : F.Subgrad xs (-((1 / p.nu) • p.Cadj us))
  kktz : G.Subgrad (p.C xs) ((1 / p.nu) • us)
  /-- documented constraint `μ ‖C‖² ≤ ν` -/
  bd : ∀ w, ‖p.C w‖ ^ 2 ≤ p.nu / p.mu * ‖w‖ ^ 2

/-- `V = (1/ν)(‖u − u*‖² + ‖z − Cx*‖²) + (1/μ)‖x − x*‖² − (1/ν)‖C(x − x*)‖²` -/
noncomputable def ladmmV (p : LADMMParams ℝ X Z) (xs : X) (us : Z) (s : LADMMState X Z) : ℝ :=
  1 / p.nu * ‖s.u - us‖ ^ 2 + 1 / p.nu * ‖s.z - p.C xs‖ ^ 2
    + 1 / p.nu * (p.nu / p.mu * ‖s.x - xs‖ ^ 2 - ‖p.C (s.x - xs)‖ ^ 2)

noncomputable def ladmmDiss (p : LADMMParams ℝ X Z) (s s' : LADMMState X Z) : ℝ :=
  1 / p.nu * (p.nu / p.mu * ‖s'.x - s.x‖ ^ 2 - ‖p.C (s'.x - s.x)‖ ^ 2) + 1 / p.nu * ‖s'.z - s.z‖ ^ 2
    + 1 / p.nu * ‖s'.u - s.u‖ ^ 2

/-- the new state is dual feasible: `u⁺/ν ∈ ∂g(z⁺)` (from any state) -/
theorem ladmm_feasible_step (p : LADMMParams ℝ X Z) (G : Fn Z) (hnu : 0 < p.nu) (hg : IsProx G p.proxg)
    (s : LADMMState X Z) : G.Subgrad (ladmmSpecStep p s).z ((1 / p.nu) • (ladmmSpecStep p s).u) := by
  have := hg p.nu hnu (p.C (ladmmSpecStep p s).x + s.u)
  have e : p.C (ladmmSpecStep p s).x + s.u - p.proxg p.nu (p.C (ladmmSpecStep p s).x + s.u) = (ladmmSpecStep p s).u := by
    show _ = s.u + p.C (ladmmSpecStep p s).x - p.proxg p.nu (p.C (ladmmSpecStep p s).x + s.u)
    abel
  rw [e] at this
  exact this

theorem ladmm_lyapunov_step_strong (p : LADMMParams ℝ X Z) (F : Fn X) (G : Fn Z) (xs : X) (us : Z)
    (H : LADMMHyp p F G xs us) {m : ℝ} (hsm : StrongSub F m) (s : LADMMState X Z)
    (hpre : G.Subgrad s.z ((1 / p.nu) • s.u)) :
    ladmmV p xs us (ladmmSpecStep p s) + ladmmDiss p s (ladmmSpecStep p s)
        + 2 * (m * ‖(ladmmSpecStep p s).x - xs‖ ^ 2) ≤ ladmmV p xs us s := by
  have hmu := H.mu
  have hnu := H.nu
  have subC := sub_of_add p.C H.add
  have hrho : (0 : ℝ) < 1 / p.nu := by positivity
  set xn := (ladmmSpecStep p s).x with hxn
  set zn := (ladmmSpecStep p s).z with hzn
  have hxn' : xn = p.proxf p.mu (s.x - (p.mu / p.nu) • p.Cadj (p.C s.x - s.z + s.u)) := rfl
  have hun : (ladmmSpecStep p s).u = s.u + p.C xn - zn := rfl
  have cx := H.proxf p.mu hmu (s.x - (p.mu / p.nu) • p.Cadj (p.C s.x - s.z + s.u))
  rw [← hxn'] at cx
  have cz := ladmm_feasible_step p G hnu H.proxg s
  rw [← hzn, hun] at cz
  have mx := hsm _ _ _ _ cx H.kktx
  have mz := Fn.subgrad_monotone cz H.kktz
  have mc := Fn.subgrad_monotone cz hpre
  set ex := s.x - xs with hex
  set dx := xn - s.x with hdx
  set ez := s.z - p.C xs with hez
  set dz := zn - s.z with hdz
  set eu := s.u - us with heu
  clear_value ex dx ez dz eu xn zn
  have ea1 : p.C ex = p.C s.x - p.C xs := by rw [hex]; exact subC _ _
  have ea2 : p.C dx = p.C xn - p.C s.x := by rw [hdx]; exact subC _ _
  have exn : xn - xs = ex + dx := by rw [hex, hdx]; abel
  have ezn : zn - p.C xs = ez + dz := by rw [hez, hdz]; abel
  have eCxn : p.C (xn - xs) = p.C ex + p.C dx := by rw [exn, H.add]
  have hdu : s.u + p.C xn - zn - s.u = p.C ex + p.C dx + -ez + -dz := by
    rw [ea1, ea2, hez, hdz]; abel
  have hMx : m * ‖ex + dx‖ ^ 2 ≤ -(1 / p.nu * (p.nu / p.mu) * ⟪dx, ex + dx⟫)
      - 1 / p.nu * ⟪eu + (p.C ex + p.C dx + -ez + -dz) - p.C dx - -dz, p.C ex + p.C dx⟫ := by
    have e1 : (1 / p.mu) • (s.x - (p.mu / p.nu) • p.Cadj (p.C s.x - s.z + s.u) - xn) - -((1 / p.nu) • p.Cadj us)
        = -((1 / p.mu) • dx) - (1 / p.nu) • p.Cadj (p.C s.x - s.z + s.u) + (1 / p.nu) • p.Cadj us := by
      have : s.x - (p.mu / p.nu) • p.Cadj (p.C s.x - s.z + s.u) - xn = -dx - (p.mu / p.nu) • p.Cadj (p.C s.x - s.z + s.u) := by
        rw [hdx]; abel
      rw [this, smul_sub, smul_smul, smul_neg]
      have : 1 / p.mu * (p.mu / p.nu) = 1 / p.nu := by field_simp
      rw [this]; abel
    rw [e1, inner_add_left, inner_sub_left, inner_neg_left, inner_smul_left, inner_smul_left, inner_smul_left,
      H.adj, H.adj, eCxn, exn] at mx
    simp only [RCLike.conj_to_real] at mx
    have e2 : eu + (p.C ex + p.C dx + -ez + -dz) - p.C dx - -dz = (p.C s.x - s.z + s.u) - us := by
      rw [ea1, hez, heu]; abel
    have e4 : ⟪(p.C s.x - s.z + s.u) - us, p.C ex + p.C dx⟫
        = ⟪p.C s.x - s.z + s.u, p.C ex + p.C dx⟫ - ⟪us, p.C ex + p.C dx⟫ := inner_sub_left _ _ _
    have e5 : 1 / p.nu * (p.nu / p.mu) = 1 / p.mu := by field_simp
    rw [e2, e4, e5]
    linarith
  have hMz : 0 ≤ -(1 / p.nu * 1 * ⟪dz, ez + dz⟫)
      - 1 / p.nu * ⟪eu + (p.C ex + p.C dx + -ez + -dz) - -dz, -ez + -dz⟫ := by
    rw [← smul_sub, inner_smul_left, ezn] at mz
    simp only [RCLike.conj_to_real] at mz
    have e2 : eu + (p.C ex + p.C dx + -ez + -dz) - -dz = (s.u + p.C xn - zn - us) + dz := by
      rw [ea1, ea2, hez, hdz, heu]; abel
    have e3 : -ez + -dz = -(ez + dz) := by abel
    rw [e2, e3, inner_neg_right, inner_add_left]
    rw [mul_one]
    linarith
  have hMc : 1 / p.nu * ⟪p.C ex + p.C dx + -ez + -dz, -dz⟫
      ≤ -(1 / p.nu * (1 * ‖dz‖ ^ 2 - ‖-dz‖ ^ 2)) + 1 / p.nu * (1 * ⟪(0 : Z), dz⟫ - ⟪(0 : Z), -dz⟫) := by
    rw [← smul_sub, inner_smul_left, hdu] at mc
    simp only [RCLike.conj_to_real] at mc
    rw [inner_neg_right, norm_neg, inner_zero_left, inner_zero_left]
    linarith
  have hQ : ‖(0 : Z) - -dz‖ ^ 2 ≤ 1 * ‖(0 : Z) - dz‖ ^ 2 := by
    rw [zero_sub, zero_sub, neg_neg, norm_neg, one_mul]
  have core := padmm_core hrho ex dx ez dz (0 : Z) eu (p.C ex) (p.C dx) (-ez) (-dz) (0 : Z) hMx hMz hMc hQ
  have heu' : (ladmmSpecStep p s).u - us = eu + (p.C ex + p.C dx + -ez + -dz) := by
    rw [hun, ← hdu, heu]; abel
  have hdu' : (ladmmSpecStep p s).u - s.u = p.C ex + p.C dx + -ez + -dz := by rw [hun]; exact hdu
  unfold ladmmV ladmmDiss
  rw [heu', hdu', ← hxn, ← hzn, exn, ezn, H.add, ← hdx, ← hdz, ← hex, ← hez, ← heu]
  simp only [norm_neg, norm_zero] at core
  have e3 : -ez + -dz = -(ez + dz) := by abel
  rw [e3, norm_neg] at core
  nlinarith [core]

theorem ladmm_lyapunov_step (p : LADMMParams ℝ X Z) (F : Fn X) (G : Fn Z) (xs : X) (us : Z)
    (H : LADMMHyp p F G xs us) (s : LADMMState X Z) (hpre : G.Subgrad s.z ((1 / p.nu) • s.u)) :
    ladmmV p xs us (ladmmSpecStep p s) + ladmmDiss p s (ladmmSpecStep p s) ≤ ladmmV p xs us s := by
  have := ladmm_lyapunov_step_strong p F G xs us H (strongSub_zero F) s hpre
  simpa using this

theorem ladmmV_nonneg (p : LADMMParams ℝ X Z) (F : Fn X) (G : Fn Z) (xs : X) (us : Z) (H : LADMMHyp p F G xs us)
    (s : LADMMState X Z) : 0 ≤ ladmmV p xs us s := by
  unfold ladmmV
  have h1 := H.bd (s.x - xs)
  have hn := H.nu
  have t1 : 0 ≤ 1 / p.nu * ‖s.u - us‖ ^ 2 := by positivity
  have t2 : 0 ≤ 1 / p.nu * ‖s.z - p.C xs‖ ^ 2 := by positivity
  have t3 : 0 ≤ 1 / p.nu * (p.nu / p.mu * ‖s.x - xs‖ ^ 2 - ‖p.C (s.x - xs)‖ ^ 2) :=
    mul_nonneg (by positivity) (by linarith)
  linarith

theorem ladmmDiss_lower (p : LADMMParams ℝ X Z) (F : Fn X) (G : Fn Z) (xs : X) (us : Z) (H : LADMMHyp p F G xs us)
    (s s' : LADMMState X Z) : 1 / p.nu * ‖s'.z - s.z‖ ^ 2 + 1 / p.nu * ‖s'.u - s.u‖ ^ 2 ≤ ladmmDiss p s s' := by
  unfold ladmmDiss
  have h1 := H.bd (s'.x - s.x)
  have hn := H.nu
  have t3 : 0 ≤ 1 / p.nu * (p.nu / p.mu * ‖s'.x - s.x‖ ^ 2 - ‖p.C (s'.x - s.x)‖ ^ 2) :=
    mul_nonneg (by positivity) (by linarith)
  linarith

theorem ladmmDiss_nonneg (p : LADMMParams ℝ X Z) (F : Fn X) (G : Fn Z) (xs : X) (us : Z) (H : LADMMHyp p F G xs us)
    (s s' : LADMMState X Z) : 0 ≤ ladmmDiss p s s' := by
  have := ladmmDiss_lower p F G xs us H s s'
  have hn := H.nu
  have t1 : 0 ≤ 1 / p.nu * ‖s'.z - s.z‖ ^ 2 := by positivity
  have t2 : 0 ≤ 1 / p.nu * ‖s'.u - s.u‖ ^ 2 := by positivity
  linarith

theorem ladmm_feasible_iter (p : LADMMParams ℝ X Z) (F : Fn X) (G : Fn Z) (xs : X) (us : Z) (H : LADMMHyp p F G xs us)
    (s : LADMMState X Z) (hpre : G.Subgrad s.z ((1 / p.nu) • s.u)) (k : Nat) :
    G.Subgrad (iter (ladmmSpecStep p) k s).z ((1 / p.nu) • (iter (ladmmSpecStep p) k s).u) := by
  induction k with
  | zero => exact hpre
  | succ k _ => rw [iter_succ']; exact ladmm_feasible_step p G H.nu H.proxg _

theorem ladmm_lyapunov_sum (p : LADMMParams ℝ X Z) (F : Fn X) (G : Fn Z) (xs : X) (us : Z) (H : LADMMHyp p F G xs us)
    (s : LADMMState X Z) (hpre : G.Subgrad s.z ((1 / p.nu) • s.u)) (k : Nat) :
    (∑ j ∈ Finset.range k, ladmmDiss p (iter (ladmmSpecStep p) j s) (iter (ladmmSpecStep p) (j + 1) s))
      + ladmmV p xs us (iter (ladmmSpecStep p) k s) ≤ ladmmV p xs us s := by
  induction k with
  | zero => simp [iter]
  | succ k ih =>
    rw [Finset.sum_range_succ]
    have h := ladmm_lyapunov_step p F G xs us H _ (ladmm_feasible_iter p F G xs us H s hpre k)
    rw [← iter_succ' (ladmmSpecStep p) k s] at h
    linarith

theorem ladmm_lyapunov_mono (p : LADMMParams ℝ X Z) (F : Fn X) (G : Fn Z) (xs : X) (us : Z) (H : LADMMHyp p F G xs us)
    (s : LADMMState X Z) (hpre : G.Subgrad s.z ((1 / p.nu) • s.u)) (k : Nat) :
    ladmmV p xs us (iter (ladmmSpecStep p) (k + 1) s) ≤ ladmmV p xs us (iter (ladmmSpecStep p) k s) := by
  have h := ladmm_lyapunov_step p F G xs us H _ (ladmm_feasible_iter p F G xs us H s hpre k)
  rw [← iter_succ' (ladmmSpecStep p) k s] at h
  have := ladmmDiss_nonneg p F G xs us H (iter (ladmmSpecStep p) k s) (iter (ladmmSpecStep p) (k + 1) s)
  linarith

/-- from EVERY start: `norm_primal_residual()` = `‖C x − z‖` and `‖z − z_old‖` tend to `0` -/
theorem ladmm_residuals_tendsto (p : LADMMParams ℝ X Z) (F : Fn X) (G : Fn Z) (xs : X) (us : Z)
    (H : LADMMHyp p F G xs us) (hnz : p.normZ = fun v => ‖v‖) (s : LADMMState X Z) :
    Filter.Tendsto (fun k => ladmmNormPrimalImpl p (iter (ladmmSpecStep p) (k + 2) s) none) Filter.atTop (nhds 0) ∧
    Filter.Tendsto (fun k => ‖(iter (ladmmSpecStep p) (k + 2) s).z - (iter (ladmmSpecStep p) (k + 2) s).zOld‖)
      Filter.atTop (nhds 0) := by
  have hn := H.nu
  have hpre := ladmm_feasible_step p G H.nu H.proxg s
  set s1 := ladmmSpecStep p s with hs1
  have hshift : ∀ k, iter (ladmmSpecStep p) (k + 2) s = iter (ladmmSpecStep p) (k + 1) s1 := fun k => rfl
  have hD : Filter.Tendsto (fun k => ladmmDiss p (iter (ladmmSpecStep p) k s1) (iter (ladmmSpecStep p) (k + 1) s1))
      Filter.atTop (nhds 0) := by
    apply tendsto_zero_of_partial_sums_le (c := ladmmV p xs us s1)
    · intro n; exact ladmmDiss_nonneg p F G xs us H _ _
    · intro n
      have := ladmm_lyapunov_sum p F G xs us H s1 hpre n
      have := ladmmV_nonneg p F G xs us H (iter (ladmmSpecStep p) n s1)
      linarith
  have hb := hD.const_mul p.nu
  rw [mul_zero] at hb
  constructor
  · refine tendsto_zero_of_sq_le (fun k => ?_) (fun k => ?_) hb
    · unfold ladmmNormPrimalImpl; rw [hnz]; positivity
    · rw [hshift]
      have hl := ladmmDiss_lower p F G xs us H (iter (ladmmSpecStep p) k s1) (iter (ladmmSpecStep p) (k + 1) s1)
      have t1 : 0 ≤ 1 / p.nu * ‖(iter (ladmmSpecStep p) (k + 1) s1).z - (iter (ladmmSpecStep p) k s1).z‖ ^ 2 := by positivity
      -- u_{k+1} − u_k = C x_{k+1} − z_{k+1}
      have e : ladmmNormPrimalImpl p (iter (ladmmSpecStep p) (k + 1) s1) none
          = ‖(iter (ladmmSpecStep p) (k + 1) s1).u - (iter (ladmmSpecStep p) k s1).u‖ := by
        unfold ladmmNormPrimalImpl
        rw [hnz, iter_succ']
        show ‖p.C (ladmmSpecStep p _).x - (ladmmSpecStep p _).z‖ = ‖(ladmmSpecStep p _).u - _‖
        congr 1
        show _ = (iter (ladmmSpecStep p) k s1).u + p.C (ladmmSpecStep p _).x - (ladmmSpecStep p _).z - _
        abel
      rw [e]
      have : p.nu * (1 / p.nu * ‖(iter (ladmmSpecStep p) (k + 1) s1).u - (iter (ladmmSpecStep p) k s1).u‖ ^ 2)
          = ‖(iter (ladmmSpecStep p) (k + 1) s1).u - (iter (ladmmSpecStep p) k s1).u‖ ^ 2 := by field_simp
      nlinarith
  · refine tendsto_zero_of_sq_le (fun k => norm_nonneg _) (fun k => ?_) hb
    rw [hshift]
    have hl := ladmmDiss_lower p F G xs us H (iter (ladmmSpecStep p) k s1) (iter (ladmmSpecStep p) (k + 1) s1)
    have t1 : 0 ≤ 1 / p.nu * ‖(iter (ladmmSpecStep p) (k + 1) s1).u - (iter (ladmmSpecStep p) k s1).u‖ ^ 2 := by positivity
    have e : (iter (ladmmSpecStep p) (k + 1) s1).zOld = (iter (ladmmSpecStep p) k s1).z := by rw [iter_succ']; rfl
    rw [e]
    have : p.nu * (1 / p.nu * ‖(iter (ladmmSpecStep p) (k + 1) s1).z - (iter (ladmmSpecStep p) k s1).z‖ ^ 2)
        = ‖(iter (ladmmSpecStep p) (k + 1) s1).z - (iter (ladmmSpecStep p) k s1).z‖ ^ 2 := by field_simp
    nlinarith

/-! ### strongly convex `f`: the iterates converge to the minimiser from every start -/

theorem padmm_x_tendsto (p : PADMMParams ℝ X Z U) (F : Fn X) (G : Fn Z) (xs : X) (zs : Z) (us : U)
    (H : PADMMHyp p F G xs zs us) {m : ℝ} (hm : 0 < m) (hsm : StrongSub F m) (s : PADMMState X Z U) :
    Filter.Tendsto (fun k => (iter (padmmSpecStep p) k s).x) Filter.atTop (nhds xs) := by
  have hI1 := padmm_inv_step p G H.rho H.nu H.proxg s
  set s1 := padmmSpecStep p s with hs1
  have hsum : ∀ k, (∑ j ∈ Finset.range k, 2 * (m * ‖(iter (padmmSpecStep p) (j + 1) s1).x - xs‖ ^ 2))
      + padmmPsi p xs zs us (iter (padmmSpecStep p) k s1) ≤ padmmPsi p xs zs us s1 := by
    intro k
    induction k with
    | zero => simp [iter]
    | succ k ih =>
      rw [Finset.sum_range_succ]
      have h := padmm_lyapunov_step_strong p F G xs zs us H hsm _ (padmm_inv_iter p F G xs zs us H s1 hI1 k)
      rw [← iter_succ' (padmmSpecStep p) k s1] at h
      have := padmmDiss_nonneg p F G xs zs us H (iter (padmmSpecStep p) k s1) (iter (padmmSpecStep p) (k + 1) s1)
      linarith
  have hT : Filter.Tendsto (fun k => 2 * (m * ‖(iter (padmmSpecStep p) (k + 1) s1).x - xs‖ ^ 2)) Filter.atTop (nhds 0) := by
    apply tendsto_zero_of_partial_sums_le (c := padmmPsi p xs zs us s1)
    · intro n; positivity
    · intro n
      have := hsum n
      have := padmmPsi_nonneg p F G xs zs us H (iter (padmmSpecStep p) n s1)
      linarith
  have hb := hT.const_mul (1 / (2 * m))
  rw [mul_zero] at hb
  rw [← Filter.tendsto_add_atTop_iff_nat 2, tendsto_iff_norm_sub_tendsto_zero]
  refine tendsto_zero_of_sq_le (fun k => norm_nonneg _) (fun k => ?_) hb
  have e : iter (padmmSpecStep p) (k + 2) s = iter (padmmSpecStep p) (k + 1) s1 := rfl
  rw [e]
  have : 1 / (2 * m) * (2 * (m * ‖(iter (padmmSpecStep p) (k + 1) s1).x - xs‖ ^ 2))
      = ‖(iter (padmmSpecStep p) (k + 1) s1).x - xs‖ ^ 2 := by field_simp
  rw [this]

theorem ladmm_x_tendsto (p : LADMMParams ℝ X Z) (F : Fn X) (G : Fn Z) (xs : X) (us : Z)
    (H : LADMMHyp p F G xs us) {m : ℝ} (hm : 0 < m) (hsm : StrongSub F m) (s : LADMMState X Z) :
    Filter.Tendsto (fun k => (iter (ladmmSpecStep p) k s).x) Filter.atTop (nhds xs) := by
  have hpre := ladmm_feasible_step p G H.nu H.proxg s
  set s1 := ladmmSpecStep p s with hs1
  have hsum : ∀ k, (∑ j ∈ Finset.range k, 2 * (m * ‖(iter (ladmmSpecStep p) (j + 1) s1).x - xs‖ ^ 2))
      + ladmmV p xs us (iter (ladmmSpecStep p) k s1) ≤ ladmmV p xs us s1 := by
    intro k
    induction k with
    | zero => simp [iter]
    | succ k ih =>
      rw [Finset.sum_range_succ]
      have h := ladmm_lyapunov_step_strong p F G xs us H hsm _ (ladmm_feasible_iter p F G xs us H s1 hpre k)
      rw [← iter_succ' (ladmmSpecStep p) k s1] at h
      have := ladmmDiss_nonneg p F G xs us H (iter (ladmmSpecStep p) k s1) (iter (ladmmSpecStep p) (k + 1) s1)
      linarith
  have hT : Filter.Tendsto (fun k => 2 * (m * ‖(iter (ladmmSpecStep p) (k + 1) s1).x - xs‖ ^ 2)) Filter.atTop (nhds 0) := by
    apply tendsto_zero_of_partial_sums_le (c := ladmmV p xs us s1)
    · intro n; positivity
    · intro n
      have := hsum n
      have := ladmmV_nonneg p F G xs us H (iter (ladmmSpecStep p) n s1)
      linarith
  have hb := hT.const_mul (1 / (2 * m))
  rw [mul_zero] at hb
  rw [← Filter.tendsto_add_atTop_iff_nat 2, tendsto_iff_norm_sub_tendsto_zero]
  refine tendsto_zero_of_sq_le (fun k => norm_nonneg _) (fun k => ?_) hb
  have e : iter (ladmmSpecStep p) (k + 2) s = iter (ladmmSpecStep p) (k + 1) s1 := rfl
  rw [e]
  have : 1 / (2 * m) * (2 * (m * ‖(iter (ladmmSpecStep p) (k + 1) s1).x - xs‖ ^ 2))
      = ‖(iter (ladmmSpecStep p) (k + 1) s1).x - xs‖ ^ 2 := by field_simp
  rw [this]

end Scico.Steps
