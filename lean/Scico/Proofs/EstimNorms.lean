/-
  Closed-form norms of `Diagonal` / `ScaledIdentity` (`Scico.Model.Estim.diagNorm`, `scaledIdNorm`)
  versus the matrix norms of `diag d`, and the algebra of the parameter estimators.
-/
import Scico.Model.Estim
import Mathlib.Analysis.Real.Sqrt
import Mathlib.Analysis.Complex.Norm
import Mathlib.Algebra.BigOperators.Fin
import Mathlib.LinearAlgebra.Matrix.Charpoly.Basic
import Mathlib.Algebra.Polynomial.Roots
import Mathlib.Tactic.Ring
import Mathlib.Tactic.Linarith
import Mathlib.Tactic.Positivity
import Mathlib.Tactic.FieldSimp

set_option linter.unusedSectionVars false

namespace Scico.Estim

noncomputable instance instHasSqrtReal : HasSqrt ℝ := ⟨Real.sqrt⟩
noncomputable instance instHasAbsReal : HasAbs ℝ := ⟨fun x => |x|⟩

@[simp] theorem hasSqrt_real (x : ℝ) : HasSqrt.sqrt x = Real.sqrt x := rfl
@[simp] theorem hasAbs_real (x : ℝ) : HasAbs.abs x = |x| := rfl

/-! ### list reductions -/

theorem lsum_eq_sum (l : List ℝ) : lsum l = l.sum := by
  unfold lsum
  rw [List.sum_eq_foldl]

theorem lsum_ofFn {n : Nat} (f : Fin n → ℝ) : lsum (List.ofFn f) = ∑ i, f i := by
  rw [lsum_eq_sum, List.sum_ofFn]

/-- `m` is the maximum of the list -/
def IsMaxOf (m : ℝ) (l : List ℝ) : Prop := m ∈ l ∧ ∀ x ∈ l, x ≤ m
/-- `m` is the minimum of the list -/
def IsMinOf (m : ℝ) (l : List ℝ) : Prop := m ∈ l ∧ ∀ x ∈ l, m ≤ x

theorem foldl_max_spec (t : List ℝ) (a : ℝ) :
    IsMaxOf (t.foldl (fun m b => if m < b then b else m) a) (a :: t) := by
  induction t generalizing a with
  | nil => exact ⟨by simp, by intro x hx; simp at hx; simp [hx]⟩
  | cons b t ih =>
    simp only [List.foldl_cons]
    by_cases hab : a < b
    · simp only [hab, if_true]
      obtain ⟨hmem, hle⟩ := ih b
      refine ⟨List.mem_cons_of_mem _ hmem, ?_⟩
      intro x hx
      simp only [List.mem_cons] at hx
      rcases hx with rfl | hx
      · exact le_trans (le_of_lt hab) (hle b (by simp))
      · exact hle x (by simpa using hx)
    · simp only [hab, if_false]
      obtain ⟨hmem, hle⟩ := ih a
      refine ⟨?_, ?_⟩
      · simp only [List.mem_cons] at hmem ⊢
        rcases hmem with h | h
        · exact Or.inl h
        · exact Or.inr (Or.inr h)
      · intro x hx
        simp only [List.mem_cons] at hx
        rcases hx with rfl | rfl | hx
        · exact hle x (by simp)
        · exact le_trans (not_lt.1 hab) (hle a (by simp))
        · exact hle x (by simp [hx])

theorem foldl_min_spec (t : List ℝ) (a : ℝ) :
    IsMinOf (t.foldl (fun m b => if b < m then b else m) a) (a :: t) := by
  induction t generalizing a with
  | nil => exact ⟨by simp, by intro x hx; simp at hx; simp [hx]⟩
  | cons b t ih =>
    simp only [List.foldl_cons]
    by_cases hab : b < a
    · simp only [hab, if_true]
      obtain ⟨hmem, hle⟩ := ih b
      refine ⟨List.mem_cons_of_mem _ hmem, ?_⟩
      intro x hx
      simp only [List.mem_cons] at hx
      rcases hx with rfl | hx
      · exact le_trans (hle b (by simp)) (le_of_lt hab)
      · exact hle x (by simpa using hx)
    · simp only [hab, if_false]
      obtain ⟨hmem, hle⟩ := ih a
      refine ⟨?_, ?_⟩
      · simp only [List.mem_cons] at hmem ⊢
        rcases hmem with h | h
        · exact Or.inl h
        · exact Or.inr (Or.inr h)
      · intro x hx
        simp only [List.mem_cons] at hx
        rcases hx with rfl | rfl | hx
        · exact hle x (by simp)
        · exact le_trans (hle a (by simp)) (not_lt.1 hab)
        · exact hle x (by simp [hx])

theorem lmax_spec {l : List ℝ} {m : ℝ} (h : lmax l = some m) : IsMaxOf m l := by
  cases l with
  | nil => simp [lmax] at h
  | cons a t =>
    simp only [lmax, Option.some.injEq] at h
    rw [← h]; exact foldl_max_spec t a

theorem lmin_spec {l : List ℝ} {m : ℝ} (h : lmin l = some m) : IsMinOf m l := by
  cases l with
  | nil => simp [lmin] at h
  | cons a t =>
    simp only [lmin, Option.some.injEq] at h
    rw [← h]; exact foldl_min_spec t a

theorem lmax_isSome {l : List ℝ} (h : l ≠ []) : ∃ m, lmax l = some m := by
  cases l with
  | nil => exact absurd rfl h
  | cons a t => exact ⟨_, rfl⟩

theorem lmin_isSome {l : List ℝ} (h : l ≠ []) : ∃ m, lmin l = some m := by
  cases l with
  | nil => exact absurd rfl h
  | cons a t => exact ⟨_, rfl⟩

/-! ### `Diagonal.norm` -/

variable {n : Nat}

theorem diagNorm_fro (d : Fin n → ℝ) :
    diagNorm .fro (List.ofFn d) = .ok (Real.sqrt (∑ i, d i ^ 2)) := by
  simp only [diagNorm, diagKey, absNorm, List.map_ofFn, hasSqrt_real]
  rw [lsum_ofFn]
  congr 2
  apply Finset.sum_congr rfl
  intro i _
  simp only [Function.comp, hasAbs_real]
  rw [abs_mul_abs_self]; ring

theorem diagNorm_none (d : Fin n → ℝ) : diagNorm .none (List.ofFn d) = diagNorm .fro (List.ofFn d) := rfl

theorem diagNorm_nuc (d : Fin n → ℝ) : diagNorm .nuc (List.ofFn d) = .ok (∑ i, |d i|) := by
  simp only [diagNorm, diagKey, absNorm, List.map_ofFn]
  rw [lsum_ofFn]
  rfl

theorem diagNorm_pinf_ok (d : Fin n → ℝ) (m : ℝ) (h : lmax (List.ofFn fun i => |d i|) = some m) :
    diagNorm .pinf (List.ofFn d) = .ok m := by
  simp only [diagNorm, diagKey, absNorm, List.map_ofFn]
  have : (HasAbs.abs ∘ d) = fun i => |d i| := by funext i; rfl
  rw [this, h]

theorem diagNorm_ninf_ok (d : Fin n → ℝ) (m : ℝ) (h : lmin (List.ofFn fun i => |d i|) = some m) :
    diagNorm .ninf (List.ofFn d) = .ok m := by
  simp only [diagNorm, diagKey, absNorm, List.map_ofFn]
  have : (HasAbs.abs ∘ d) = fun i => |d i| := by funext i; rfl
  rw [this, h]

theorem diagNorm_one (d : List ℝ) : diagNorm (.int 1) d = diagNorm .pinf d := rfl
theorem diagNorm_two (d : List ℝ) : diagNorm (.int 2) d = diagNorm .pinf d := rfl
theorem diagNorm_neg_one (d : List ℝ) : diagNorm (.int (-1)) d = diagNorm .ninf d := rfl
theorem diagNorm_neg_two (d : List ℝ) : diagNorm (.int (-2)) d = diagNorm .ninf d := rfl

/-! ### the matrix `diag d` -/

open Matrix

theorem diagonal_row_abs_sum (d : Fin n → ℝ) (i : Fin n) : ∑ j, |Matrix.diagonal d i j| = |d i| := by
  rw [Finset.sum_eq_single i]
  · simp
  · intro j _ hj; simp [Matrix.diagonal_apply_ne _ (Ne.symm hj)]
  · intro h; exact absurd (Finset.mem_univ i) h

theorem diagonal_col_abs_sum (d : Fin n → ℝ) (j : Fin n) : ∑ i, |Matrix.diagonal d i j| = |d j| := by
  rw [Finset.sum_eq_single j]
  · simp
  · intro i _ hi; simp [Matrix.diagonal_apply_ne _ hi]
  · intro h; exact absurd (Finset.mem_univ j) h

theorem diagonal_sq_sum (d : Fin n → ℝ) : ∑ i, ∑ j, (Matrix.diagonal d i j) ^ 2 = ∑ i, d i ^ 2 := by
  apply Finset.sum_congr rfl
  intro i _
  rw [Finset.sum_eq_single i]
  · simp
  · intro j _ hj; simp [Matrix.diagonal_apply_ne _ (Ne.symm hj)]
  · intro h; exact absurd (Finset.mem_univ i) h

/-- absolute values of the entries by rows / by columns, as the driver feeds `matNorm` -/
def absRows (M : Matrix (Fin n) (Fin n) ℝ) : List (List ℝ) := List.ofFn fun i => List.ofFn fun j => |M i j|
def absCols (M : Matrix (Fin n) (Fin n) ℝ) : List (List ℝ) := List.ofFn fun j => List.ofFn fun i => |M i j|

theorem absRows_diagonal_sums (d : Fin n → ℝ) :
    (absRows (Matrix.diagonal d)).map lsum = List.ofFn fun i => |d i| := by
  simp only [absRows, List.map_ofFn]
  congr 1
  funext i
  simp only [Function.comp, lsum_ofFn, diagonal_row_abs_sum]

theorem absCols_diagonal_sums (d : Fin n → ℝ) :
    (absCols (Matrix.diagonal d)).map lsum = List.ofFn fun i => |d i| := by
  simp only [absCols, List.map_ofFn]
  congr 1
  funext j
  simp only [Function.comp, lsum_ofFn, diagonal_col_abs_sum]

/-! ### spectral norms of `diag d` (variational form) -/

theorem diag_apply_sq_le (d x : Fin n → ℝ) (m : ℝ) (hm : ∀ i, |d i| ≤ m) :
    ∑ i, (d i * x i) ^ 2 ≤ m ^ 2 * ∑ i, x i ^ 2 := by
  rw [Finset.mul_sum]
  apply Finset.sum_le_sum
  intro i _
  have h0 : 0 ≤ |d i| := abs_nonneg _
  have : d i ^ 2 ≤ m ^ 2 := by
    rw [← sq_abs (d i)]
    exact pow_le_pow_left₀ h0 (hm i) 2
  calc (d i * x i) ^ 2 = d i ^ 2 * x i ^ 2 := by ring
    _ ≤ m ^ 2 * x i ^ 2 := by gcongr

theorem diag_apply_sq_ge (d x : Fin n → ℝ) (m : ℝ) (hm0 : 0 ≤ m) (hm : ∀ i, m ≤ |d i|) :
    m ^ 2 * ∑ i, x i ^ 2 ≤ ∑ i, (d i * x i) ^ 2 := by
  rw [Finset.mul_sum]
  apply Finset.sum_le_sum
  intro i _
  have : m ^ 2 ≤ d i ^ 2 := by
    rw [← sq_abs (d i)]
    exact pow_le_pow_left₀ hm0 (hm i) 2
  calc m ^ 2 * x i ^ 2 ≤ d i ^ 2 * x i ^ 2 := by gcongr
    _ = (d i * x i) ^ 2 := by ring

theorem diag_apply_basis (d : Fin n → ℝ) (k : Fin n) :
    ∑ i, (d i * (if i = k then (1 : ℝ) else 0)) ^ 2 = |d k| ^ 2 ∧ ∑ i, (if i = k then (1 : ℝ) else 0) ^ 2 = 1 := by
  constructor
  · rw [Finset.sum_eq_single k]
    · simp
    · intro i _ hi; simp [hi]
    · intro h; exact absurd (Finset.mem_univ k) h
  · rw [Finset.sum_eq_single k]
    · simp
    · intro i _ hi; simp [hi]
    · intro h; exact absurd (Finset.mem_univ k) h

/-! ### nuclear norm: singular values of `diag d` are the roots of the characteristic polynomial of `(diag d)ᵀ diag d` -/

theorem diagonal_gram (d : Fin n → ℝ) :
    (Matrix.diagonal d)ᵀ * Matrix.diagonal d = Matrix.diagonal fun i => d i ^ 2 := by
  rw [Matrix.diagonal_transpose, Matrix.diagonal_mul_diagonal]
  congr 1; funext i; ring

theorem singular_values_diagonal_sum (d : Fin n → ℝ) :
    (((Matrix.diagonal d)ᵀ * Matrix.diagonal d).charpoly.roots.map Real.sqrt).sum = ∑ i, |d i| := by
  rw [diagonal_gram, Matrix.charpoly_diagonal]
  have : (∏ i : Fin n, (Polynomial.X - Polynomial.C (d i ^ 2))) =
      ((Finset.univ.val.map fun i => d i ^ 2).map fun a => Polynomial.X - Polynomial.C a).prod := by
    rw [Multiset.map_map]; rfl
  rw [this, Polynomial.roots_multiset_prod_X_sub_C, Multiset.map_map]
  show (Finset.univ.val.map fun i => Real.sqrt (d i ^ 2)).sum = _
  simp only [Real.sqrt_sq_eq_abs]
  rfl

/-! ### complex diagonals -/

theorem cabs_eq_norm (z : ℂ) : cabs (z.re, z.im) = ‖z‖ := by
  simp [cabs, Complex.norm_eq_sqrt_sq_add_sq, sq]

theorem diagNormC_eq (z : Fin n → ℂ) (o : Ord) :
    diagNormC o (List.ofFn fun i => ((z i).re, (z i).im)) = diagNorm o (List.ofFn fun i => ‖z i‖) := by
  have h1 : (cabs ∘ fun i => ((z i).re, (z i).im)) = fun i => ‖z i‖ := by
    funext i; exact cabs_eq_norm (z i)
  have h2 : (HasAbs.abs ∘ fun i => ‖z i‖) = fun i => ‖z i‖ := by
    funext i; simp
  unfold diagNormC diagNorm
  simp only [List.map_ofFn, h1, h2]

/-! ### estimators -/

theorem pdhgEst_prod (c ratio fac : ℝ) (hc : 0 < c) (hr : 0 < ratio) (hf : 0 < fac) :
    (pdhgEst c ratio (some fac)).1 * (pdhgEst c ratio (some fac)).2 * c ^ 2 = 1 / fac := by
  simp only [pdhgEst, hasSqrt_real]
  have hs : 0 < Real.sqrt (fac * ratio) := Real.sqrt_pos.2 (mul_pos hf hr)
  have hsq : Real.sqrt (fac * ratio) * Real.sqrt (fac * ratio) = fac * ratio :=
    Real.mul_self_sqrt (le_of_lt (mul_pos hf hr))
  have hne : Real.sqrt (fac * ratio) * c ≠ 0 := ne_of_gt (mul_pos hs hc)
  field_simp
  rw [show Real.sqrt (fac * ratio) ^ 2 = fac * ratio by rw [sq]; exact hsq]

theorem pdhgEst_pos (c ratio fac : ℝ) (hc : 0 < c) (hr : 0 < ratio) (hf : 0 < fac) :
    0 < (pdhgEst c ratio (some fac)).1 ∧ 0 < (pdhgEst c ratio (some fac)).2 := by
  simp only [pdhgEst, hasSqrt_real]
  have hs : 0 < Real.sqrt (fac * ratio) := Real.sqrt_pos.2 (mul_pos hf hr)
  constructor
  · positivity
  · positivity

end Scico.Estim
