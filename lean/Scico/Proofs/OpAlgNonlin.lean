/-
  Trees with non-linear leaves: what scico builds for ANY accepted expression evaluates the pointwise
  denotation `denF` (`(A ± B)(x) = A(x) ± B(x)`, `(cA)(x) = c·A(x)`, `(A/c)(x) = A(x)/c`,
  `(A∘B)(x) = A(B(x))`, linear sub-expressions act through their dense matrix).
-/
import Scico.Proofs.OpAlgReject

namespace Scico.OpAlg
open Scico.DType
attribute [local instance] starConj
set_option linter.unusedSectionVars false

section
variable {K : Type} [Field K] [StarRing K] [HasRe K]

/-- `a @ b` succeeds only when the shapes conform -/
theorem matmul_ok_conform {a b o : Obj K} {Da Db : Mx K} (ha : Sound a Da) (hb : Sound b Db)
    (h : matmul Cfg.fixed a b = .ok o) : a.md.inShape = b.md.outShape := by
  have hlc : ∀ o, linCall Cfg.fixed a b = .ok o → a.md.inShape = b.md.outShape := by
    intro o h
    unfold linCall at h
    rw [if_pos hb.isLinop] at h
    unfold linComp at h
    split at h
    · cases h
    · rename_i hsh; simpa using hsh
  unfold matmul at h
  split at h
  · rename_i hop; exact absurd (by simpa [Obj.cls] using hop) ha.lin
  · split at h
    · simp only [show Cfg.fixed.identChk = true from rfl, Bool.true_and] at h
      split at h
      · cases h
      · rename_i hsh; simpa using hsh
    · split at h
      · simp only [show Cfg.fixed.identChk = true from rfl, Bool.true_and] at h
        split at h
        · cases h
        · rename_i hsh; simpa using hsh
      · unfold sidMatmul at h
        simp only [show Cfg.fixed.diagKeep = true from rfl, if_true] at h
        split at h
        · split at h
          · cases h
          · rename_i hsh; simpa using hsh
        · exact hlc o h
      · unfold diagMatmul at h
        simp only [show Cfg.fixed.diagKeep = true from rfl, if_true] at h
        split at h
        · split at h
          · rename_i hsh; exact hsh
          · cases h
        · exact hlc o h
      · exact call_ok_conform ha hb h

theorem mulVec_congr_x {n : Nat} {D : Mx K} {x x' : V K} (h : ∀ j, j < n → x j = x' j) (i : Nat) :
    mulVec n D x i = mulVec n D x' i := mulVec_congr_right h

/-- on an accepted LINEAR expression the pointwise denotation is the action of the dense matrix -/
theorem denF_lin : ∀ (e : LExpr K) (o : Obj K), Lin e → PlainDiagProducts e → (RealK K ∨ AllC e) →
    build e = .ok o → ∀ (x : V K) (i : Nat), i < (dims e).1 →
      denF e x i = mulVec (dims e).2 (den e) x i := by
  intro e
  induction e with
  | mat m n dt A => intro o _ _ _ _ x i _; rfl
  | diag dsh ddt inSh? inDt? d => intro o _ _ _ _ x i _; rfl
  | scaledId c ck sh dt => intro o _ _ _ _ x i _; rfl
  | ident sh dt => intro o _ _ _ _ x i _; rfl
  | lin inSh outSh inDt gDt hasAdj G => intro o _ _ _ _ x i _; rfl
  | nonlin inSh outSh inDt gDt G => intro o hl; exact absurd hl (by simp [Lin])
  | rdiv c a _ => intro o _ _ _ _ x i _; rfl
  | addS sub rev a c _ => intro o _ _ _ _ x i _; rfl
  | had div a b _ _ => intro o _ _ _ _ x i _; rfl
  | T a _ => intro o _ _ _ _ x i _; rfl
  | H a _ => intro o _ _ _ _ x i _; rfl
  | conj a _ => intro o _ _ _ _ x i _; rfl
  | gram a _ => intro o _ _ _ _ x i _; rfl
  | add a b iha ihb =>
    intro o hl hp hM h x i hi
    simp only [build, buildC] at h
    obtain ⟨oa, ha, h⟩ := bind_ok h
    obtain ⟨ob, hb, h⟩ := bind_ok h
    obtain ⟨hSa, hma, hna⟩ := build_sound a oa hl.1 hp.1 (hM.imp id (·.1)) ha
    obtain ⟨hSb, hmb, hnb⟩ := build_sound b ob hl.2 hp.2 (hM.imp id (·.2)) hb
    obtain ⟨h1, h2⟩ := addSub_ok_sameShape false hSa hSb h
    have hnn : (dims b).2 = (dims a).2 := by rw [← hnb, ← hna]; simp only [Obj.n, h1]
    have hmm : (dims b).1 = (dims a).1 := by rw [← hmb, ← hma]; simp only [Obj.m, h2]
    have hi' : i < (dims a).1 := hi
    simp only [denF, den, dims]
    rw [iha oa hl.1 hp.1 (hM.imp id (·.1)) ha x i hi', ihb ob hl.2 hp.2 (hM.imp id (·.2)) hb x i (hmm ▸ hi'), hnn]
    exact (mulVec_pm false _ _ _ x i).symm
  | sub a b iha ihb =>
    intro o hl hp hM h x i hi
    simp only [build, buildC] at h
    obtain ⟨oa, ha, h⟩ := bind_ok h
    obtain ⟨ob, hb, h⟩ := bind_ok h
    obtain ⟨hSa, hma, hna⟩ := build_sound a oa hl.1 hp.1 (hM.imp id (·.1)) ha
    obtain ⟨hSb, hmb, hnb⟩ := build_sound b ob hl.2 hp.2 (hM.imp id (·.2)) hb
    obtain ⟨h1, h2⟩ := addSub_ok_sameShape true hSa hSb h
    have hnn : (dims b).2 = (dims a).2 := by rw [← hnb, ← hna]; simp only [Obj.n, h1]
    have hmm : (dims b).1 = (dims a).1 := by rw [← hmb, ← hma]; simp only [Obj.m, h2]
    have hi' : i < (dims a).1 := hi
    simp only [denF, den, dims]
    rw [iha oa hl.1 hp.1 (hM.imp id (·.1)) ha x i hi', ihb ob hl.2 hp.2 (hM.imp id (·.2)) hb x i (hmm ▸ hi'), hnn]
    exact (mulVec_pm true _ _ _ x i).symm
  | neg a iha =>
    intro o hl hp hM h x i hi
    simp only [build, buildC] at h
    obtain ⟨oa, ha, h⟩ := bind_ok h
    simp only [denF, den, dims]
    rw [iha oa hl hp hM ha x i hi]
    unfold mulVec
    rw [← sumTo_neg]; apply sumTo_congr; intro j _; ring
  | smulL c a iha =>
    intro o hl hp hM h x i hi
    simp only [build, buildC] at h
    obtain ⟨oa, ha, h⟩ := bind_ok h
    simp only [denF, den, dims]
    rw [iha oa hl hp hM ha x i hi]
    exact (mulVec_smul c.val _ _ x i).symm
  | smulR a c iha =>
    intro o hl hp hM h x i hi
    simp only [build, buildC] at h
    obtain ⟨oa, ha, h⟩ := bind_ok h
    simp only [denF, den, dims]
    rw [iha oa hl hp hM ha x i hi]
    exact (mulVec_smul c.val _ _ x i).symm
  | sdiv a c iha =>
    intro o hl hp hM h x i hi
    simp only [build, buildC] at h
    obtain ⟨oa, ha, h⟩ := bind_ok h
    simp only [denF, den, dims]
    rw [iha oa hl hp hM ha x i hi]
    unfold mulVec
    rw [← sumTo_div]; apply sumTo_congr; intro j _; ring
  | comp a b iha ihb =>
    intro o hl hp hM h x i hi
    simp only [build, buildC] at h
    obtain ⟨oa, ha, h⟩ := bind_ok h
    obtain ⟨ob, hb, h⟩ := bind_ok h
    obtain ⟨hSa, hma, hna⟩ := build_sound a oa hl.1 hp.1 (hM.imp id (·.1)) ha
    obtain ⟨hSb, hmb, hnb⟩ := build_sound b ob hl.2 hp.2 (hM.imp id (·.2)) hb
    have hc := call_ok_conform hSa hSb h
    have hk : (dims a).2 = (dims b).1 := by rw [← hna, ← hmb]; simp only [Obj.n, Obj.m, hc]
    have hi' : i < (dims a).1 := hi
    simp only [denF, den, dims]
    rw [iha oa hl.1 hp.1 (hM.imp id (·.1)) ha _ i hi']
    rw [mulVec_congr_x (x' := mulVec (dims b).2 (den b) x)
      (fun j hj => ihb ob hl.2 hp.2 (hM.imp id (·.2)) hb x j (hk ▸ hj)) i]
    exact mulVec_mulVec _ _ _ _ x i
  | matmul a b iha ihb =>
    intro o hl hp hM h x i hi
    simp only [build, buildC] at h
    obtain ⟨oa, ha, h⟩ := bind_ok h
    obtain ⟨ob, hb, h⟩ := bind_ok h
    obtain ⟨hSa, hma, hna⟩ := build_sound a oa hl.1 hp.1 (hM.imp id (·.1)) ha
    obtain ⟨hSb, hmb, hnb⟩ := build_sound b ob hl.2 hp.2.1 (hM.imp id (·.2)) hb
    have hc := matmul_ok_conform hSa hSb h
    have hk : (dims a).2 = (dims b).1 := by rw [← hna, ← hmb]; simp only [Obj.n, Obj.m, hc]
    have hi' : i < (dims a).1 := hi
    simp only [denF, den, dims]
    rw [iha oa hl.1 hp.1 (hM.imp id (·.1)) ha _ i hi']
    rw [mulVec_congr_x (x' := mulVec (dims b).2 (den b) x)
      (fun j hj => ihb ob hl.2 hp.2.1 (hM.imp id (·.2)) hb x j (hk ▸ hj)) i]
    exact mulVec_mulVec _ _ _ _ x i

/-! ### evaluation invariant for arbitrary (possibly non-linear) objects -/

/-- `o` evaluates the truncation of `f`, and `f` reads only the first `o.n` entries of its argument -/
structure EvF (o : Obj K) (f : V K → V K) : Prop where
  ev : ∀ (x : Vc K) (i : Nat), (o.eval x).get i = if i < o.m then f x.get i else 0
  cg : ∀ x x' : V K, (∀ j, j < o.n → x j = x' j) → ∀ i, i < o.m → f x i = f x' i

theorem EvF.congr {o : Obj K} {f g : V K → V K} (h : EvF o f)
    (hfg : ∀ x i, i < o.m → f x i = g x i) : EvF o g :=
  ⟨fun x i => by
      rw [h.ev x i]
      by_cases hi : i < o.m
      · simp only [hi, if_true]; exact hfg _ i hi
      · simp [hi],
   fun x x' hx i hi => by rw [← hfg x i hi, ← hfg x' i hi]; exact h.cg x x' hx i hi⟩

/-- a sound linear object evaluates `x ↦ D x` -/
theorem Sound.evF {o : Obj K} {D : Mx K} (h : Sound o D) : EvF o (fun x => mulVec o.n D x) :=
  ⟨h.ev, fun _ _ hx i _ => mulVec_congr_right hx⟩

/-- `Operator.__add__/__sub__` -/
theorem opAddSub_evF (sub : Bool) {a b o : Obj K} {fa fb : V K → V K} (ha : EvF a fa) (hb : EvF b fb)
    (h : opAddSub sub a b = .ok o) :
    EvF o (fun x i => pm sub (fa x i) (fb x i)) ∧ o.m = a.m ∧ o.n = a.n ∧ b.m = a.m ∧ b.n = a.n
    ∧ o.md.cls = .op := by
  unfold opAddSub at h
  split at h
  · rename_i hs
    have hbm : b.m = a.m := (sameShape_m hs).symm
    have hbn : b.n = a.n := (sameShape_n hs).symm
    injection h with h; subst h
    refine ⟨⟨?_, ?_⟩, rfl, rfl, hbm, hbn, rfl⟩
    · intro x i
      simp only [mkOp_eval, mkOp_m, vzip_get]
      by_cases hi : i < a.m
      · have hi' : i < b.m := hbm ▸ hi
        simp only [show i < a.md.outShape.size from hi, if_true]
        rw [ha.ev x i, hb.ev x i]
        simp [hi, hi']
      · simp [show ¬ i < a.md.outShape.size from hi]
    · intro x x' hx i hi
      have hi' : i < a.m := hi
      show pm sub (fa x i) (fb x i) = pm sub (fa x' i) (fb x' i)
      rw [ha.cg x x' hx i hi', hb.cg x x' (fun j hj => hx j (hbn ▸ hj)) i (hbm ▸ hi')]
  · cases h

/-- `a ± b` with at least one plain `Operator` operand: the pointwise sum / difference -/
theorem addSub_evF (sub : Bool) {a b o : Obj K} {fa fb : V K → V K} (ha : EvF a fa) (hb : EvF b fb)
    (hop : a.md.cls = .op ∨ b.md.cls = .op)
    (hSb : b.md.cls ≠ .op → ∃ D, Sound b D)
    (h : addSub Cfg.fixed sub a b = .ok o) :
    EvF o (fun x i => pm sub (fa x i) (fb x i)) ∧ o.m = a.m ∧ o.n = a.n ∧ b.m = a.m ∧ b.n = a.n
    ∧ o.md.cls = .op := by
  by_cases hbop : b.md.cls = .op
  · rw [addSub_with_operator sub a b hbop] at h
    split at h
    · exact opAddSub_evF sub ha hb h
    · cases h
  · have haop : a.md.cls = .op := by rcases hop with h' | h' <;> [exact h'; exact absurd h' hbop]
    obtain ⟨Db, hS⟩ := hSb hbop
    unfold addSub at h
    split at h
    · rename_i hpri
      simp only [Bool.and_eq_true, Bool.or_eq_true, decide_eq_true_eq] at hpri
      have hbm : b.md.cls = .matrix := hpri.1
      have hnotm : ¬ a.md.cls = .matrix := by rw [haop]; decide
      have hnl : a.md.cls.isLinop = false := by rw [haop]; rfl
      split at h
      · -- `a - M` = `(-M) + a`
        rename_i hsub
        unfold matAddSub at h
        simp only [hnotm, if_false, hnl, Bool.false_eq_true] at h
        split at h
        · cases h
        · have hneg : EvF (matNeg b) (fun x i => - fb x i) := by
            have hN := (matNeg_sound hS hbm).evF
            have hnm : (matNeg b).m = b.m := by simp [matNeg, rematrix]
            have hnn : (matNeg b).n = b.n := by simp [matNeg, rematrix]
            refine hN.congr (fun x i hi => ?_)
            have hi' : i < b.m := hnm ▸ hi
            have e1 := hS.ev ⟨0, x⟩ i
            have e2 := hb.ev ⟨0, x⟩ i
            simp only [hi', if_true] at e1 e2
            rw [hnn]
            have : mulVec b.n (fun i j => - Db i j) x i = - mulVec b.n Db x i := by
              unfold mulVec; rw [← sumTo_neg]; apply sumTo_congr; intro j _; ring
            rw [this, ← e1, e2]
          obtain ⟨hE, h1, h2, h3, h4, h5⟩ := opAddSub_evF false hneg ha h
          have hnm : (matNeg b).m = b.m := by simp [matNeg, rematrix]
          have hnn : (matNeg b).n = b.n := by simp [matNeg, rematrix]
          refine ⟨hE.congr (fun x i _ => ?_), h1.trans h3.symm, h2.trans h4.symm,
            hnm.symm.trans h3.symm, hnn.symm.trans h4.symm, h5⟩
          simp only [pm, hsub, if_true, Bool.false_eq_true, if_false]; ring
      · -- `a + M` = `M + a`
        rename_i hsub
        have hsub' : sub = false := by simpa using hsub
        unfold matAddSub at h
        simp only [hnotm, if_false, hnl, Bool.false_eq_true] at h
        split at h
        · cases h
        · obtain ⟨hE, h1, h2, h3, h4, h5⟩ := opAddSub_evF false hb ha h
          subst hsub'
          refine ⟨hE.congr (fun x i _ => ?_), h1.trans h3.symm, h2.trans h4.symm, h3.symm, h4.symm, h5⟩
          simp only [pm, Bool.false_eq_true, if_false]; ring
    · split at h
      · exact opAddSub_evF sub ha hb h
      · rename_i hm; rw [show a.md.cls = Cls.matrix from hm] at haop; cases haop
      · rename_i hnop _; exact absurd haop (by simpa [Obj.cls] using hnop)

/-- `c * a`, `a * c` for a plain `Operator` -/
theorem smul_evF {a o : Obj K} {fa : V K → V K} (c : Scal K) (ha : EvF a fa) (hop : a.md.cls = .op)
    (h : smul Cfg.fixed a c = .ok o) :
    EvF o (fun x i => c.val * fa x i) ∧ o.m = a.m ∧ o.n = a.n ∧ o.md.cls = .op := by
  unfold smul at h
  simp only [Obj.cls, hop, Cls.arith] at h
  unfold opMul at h
  split at h
  · injection h with h; subst h
    refine ⟨⟨fun x i => ?_, fun x x' hx i hi => ?_⟩, rfl, rfl, rfl⟩
    · simp only [mkOp_eval, mkOp_m, vmap_get]
      by_cases hi : i < a.m
      · simp only [show i < a.md.outShape.size from hi, if_true]
        rw [ha.ev x i]; simp [hi]
      · simp [show ¬ i < a.md.outShape.size from hi]
    · show c.val * fa x i = c.val * fa x' i
      rw [ha.cg x x' hx i hi]
  · cases h

theorem sdiv_evF {a o : Obj K} {fa : V K → V K} (c : Scal K) (ha : EvF a fa) (hop : a.md.cls = .op)
    (h : sdiv Cfg.fixed a c = .ok o) :
    EvF o (fun x i => fa x i / c.val) ∧ o.m = a.m ∧ o.n = a.n ∧ o.md.cls = .op := by
  unfold sdiv at h
  simp only [Obj.cls, hop, Cls.arith] at h
  unfold opDiv at h
  split at h
  · injection h with h; subst h
    refine ⟨⟨fun x i => ?_, fun x x' hx i hi => ?_⟩, rfl, rfl, rfl⟩
    · simp only [mkOp_eval, mkOp_m, vmap_get]
      by_cases hi : i < a.m
      · simp only [show i < a.md.outShape.size from hi, if_true]
        rw [ha.ev x i]; simp [hi]
      · simp [show ¬ i < a.md.outShape.size from hi]
    · show fa x i / c.val = fa x' i / c.val
      rw [ha.cg x x' hx i hi]
  · cases h

/-- `Operator.__call__(Operator)` -/
theorem opComp_evF {a b o : Obj K} {fa fb : V K → V K} (ha : EvF a fa) (hb : EvF b fb)
    (h : opComp Cfg.fixed a b = .ok o) :
    EvF o (fun x => fa (fb x)) ∧ o.m = a.m ∧ o.n = b.n ∧ a.n = b.m ∧ o.md.cls = .op := by
  unfold opComp at h
  split at h
  · rename_i hs
    have hk : a.n = b.m := by simp only [Obj.n, Obj.m, hs]
    injection h with h; subst h
    refine ⟨⟨fun x i => ?_, fun x x' hx i hi => ?_⟩, rfl, rfl, hk, rfl⟩
    · simp only [mkOp_eval, mkOp_m]
      rw [ha.ev (b.eval x) i]
      by_cases hi : i < a.m
      · simp only [hi, show i < a.md.outShape.size from hi, if_true]
        apply ha.cg _ _ _ i hi
        intro j hj
        rw [hb.ev x j]; simp [hk ▸ hj]
      · simp [hi, show ¬ i < a.md.outShape.size from hi]
    · apply ha.cg _ _ _ i hi
      intro j hj
      exact hb.cg x x' hx j (hk ▸ hj)
  · cases h

/-- `a(b)` with at least one plain `Operator` operand -/
theorem call_evF {a b o : Obj K} {fa fb : V K → V K} (ha : EvF a fa) (hb : EvF b fb)
    (hop : a.md.cls = .op ∨ b.md.cls = .op) (h : call Cfg.fixed a b = .ok o) :
    EvF o (fun x => fa (fb x)) ∧ o.m = a.m ∧ o.n = b.n ∧ a.n = b.m ∧ o.md.cls = .op := by
  unfold call at h
  split at h
  · exact opComp_evF ha hb h
  · rename_i hm
    have hbop : b.md.cls = .op := by
      rcases hop with h' | h'
      · rw [show a.md.cls = Cls.matrix from hm] at h'; cases h'
      · exact h'
    unfold matCall at h
    simp only [hbop, Cls.isLinop, show Cfg.fixed.matCall = true from rfl, if_true] at h
    exact opComp_evF ha hb (by simpa using h)
  · rename_i hnop _
    have hbop : b.md.cls = .op := by
      rcases hop with h' | h'
      · exact absurd h' (by simpa [Obj.cls] using hnop)
      · exact h'
    unfold linCall at h
    simp only [Obj.cls, hbop, Cls.isLinop] at h
    exact opComp_evF ha hb (by simpa using h)

/-- an identity object acts as the identity below its size -/
theorem ident_acts {a : Obj K} {D : Mx K} {fa : V K → V K} (hS : Sound a D) (ha : EvF a fa)
    (hc : a.md.cls = .ident) : a.n = a.m ∧ ∀ (y : V K) (i : Nat), i < a.m → fa y i = y i := by
  obtain ⟨hio, hD⟩ := sid_payload hS (Or.inr hc)
  have h1 : a.dat.get 0 = 1 := by
    have := hS.pl; simp only [PayloadIs, hc] at this; exact this.2.1
  have hnm : a.n = a.m := by simp only [Obj.n, Obj.m, hio]
  refine ⟨hnm, fun y i hi => ?_⟩
  have e1 := hS.ev ⟨0, y⟩ i
  have e2 := ha.ev ⟨0, y⟩ i
  simp only [hi, if_true] at e1 e2
  rw [← e2, e1]
  unfold mulVec
  have hin : i < a.n := hnm ▸ hi
  have : ∀ j, j < a.n → D i j * y j = if i = j then y j else 0 := by
    intro j hj
    rw [hD i j hin hj, h1]
    by_cases h : i = j <;> simp [h]
  rw [sumTo_congr this, sumTo_ite_eq']
  simp [hin]

/-- `a @ b` with at least one plain `Operator` operand -/
theorem matmul_evF {a b o : Obj K} {fa fb : V K → V K} (ha : EvF a fa) (hb : EvF b fb)
    (hop : a.md.cls = .op ∨ b.md.cls = .op)
    (hSa : a.md.cls ≠ .op → ∃ D, Sound a D) (hSb : b.md.cls ≠ .op → ∃ D, Sound b D)
    (h : matmul Cfg.fixed a b = .ok o) :
    EvF o (fun x => fa (fb x)) ∧ o.m = a.m ∧ o.n = b.n ∧ o.md.cls = .op := by
  unfold matmul at h
  split at h
  · -- `Operator @ Identity`
    rename_i haop
    have haop' : a.md.cls = .op := by simpa [Obj.cls] using haop
    split at h
    · rename_i hid
      have hid' : b.md.cls = .ident := by simpa [Obj.cls] using hid
      simp only [show Cfg.fixed.identChk = true from rfl, Bool.true_and] at h
      split at h
      · cases h
      · rename_i hsh
        have hsh' : a.md.inShape = b.md.outShape := by simpa using hsh
        injection h with h; subst h
        obtain ⟨Db, hS⟩ := hSb (by rw [hid']; decide)
        obtain ⟨hnm, hact⟩ := ident_acts hS hb hid'
        have hk : a.n = b.m := by simp only [Obj.n, Obj.m, hsh']
        refine ⟨⟨fun x i => ?_, fun x x' hx i hi => ?_⟩, rfl, by rw [hk, hnm], haop'⟩
        · rw [ha.ev x i]
          by_cases hi : i < a.m
          · simp only [hi, if_true]
            exact ha.cg _ _ (fun j hj => (hact x.get j (Nat.lt_of_lt_of_eq hj hk)).symm) i hi
          · simp [hi]
        · have e1 : fa (fb x) i = fa x i := ha.cg _ _ (fun j hj => hact x j (Nat.lt_of_lt_of_eq hj hk)) i hi
          have e2 : fa (fb x') i = fa x' i := ha.cg _ _ (fun j hj => hact x' j (Nat.lt_of_lt_of_eq hj hk)) i hi
          rw [e1, e2]
          exact ha.cg x x' (fun j hj => hx j hj) i hi
    · split at h <;> cases h
  · rename_i hnaop
    have hna : a.md.cls ≠ .op := by simpa [Obj.cls] using hnaop
    have hbop : b.md.cls = .op := by rcases hop with h' | h' <;> [exact absurd h' hna; exact h']
    obtain ⟨Da, hS⟩ := hSa hna
    have hbni : ¬ (b.cls = .ident) := by simp [Obj.cls, hbop]
    have hlc : ∀ o, linCall Cfg.fixed a b = .ok o →
        EvF o (fun x => fa (fb x)) ∧ o.m = a.m ∧ o.n = b.n ∧ o.md.cls = .op := by
      intro o h
      unfold linCall at h
      simp only [Obj.cls, hbop, Cls.isLinop] at h
      obtain ⟨h1, h2, h3, _, h5⟩ := opComp_evF ha hb (by simpa using h)
      exact ⟨h1, h2, h3, h5⟩
    split at h
    · rename_i hpri
      simp only [Bool.and_eq_true, decide_eq_true_eq] at hpri
      exact absurd hpri.1 hbni
    · split at h
      · -- `Identity @ Operator`
        rename_i hid
        have hid' : a.md.cls = .ident := by simpa [Obj.cls] using hid
        simp only [show Cfg.fixed.identChk = true from rfl, Bool.true_and] at h
        split at h
        · cases h
        · rename_i hsh
          have hsh' : a.md.inShape = b.md.outShape := by simpa using hsh
          injection h with h; subst h
          obtain ⟨hnm, hact⟩ := ident_acts hS ha hid'
          have hk : a.n = b.m := by simp only [Obj.n, Obj.m, hsh']
          have hmm : b.m = a.m := by rw [← hk, hnm]
          refine ⟨hb.congr (fun x i hi => (hact (fb x) i (hmm ▸ hi)).symm), hmm, rfl, hbop⟩
      · unfold sidMatmul at h
        simp only [Obj.cls, hbop, Cls.isSub] at h
        exact hlc o (by simpa using h)
      · unfold diagMatmul at h
        simp only [Obj.cls, hbop, Cls.isSub] at h
        exact hlc o (by simpa using h)
      · obtain ⟨h1, h2, h3, _, h5⟩ := call_evF ha hb hop h
        exact ⟨h1, h2, h3, h5⟩

/-- mode hypothesis of the operands of a binary node -/
theorem allC_left {a b : LExpr K} (h : RealK K ∨ (AllC a ∧ AllC b)) : RealK K ∨ AllC a := h.imp id (·.1)
theorem allC_right {a b : LExpr K} (h : RealK K ∨ (AllC a ∧ AllC b)) : RealK K ∨ AllC b := h.imp id (·.2)

/-- the invariant of the main induction -/
structure InvF (e : LExpr K) (o : Obj K) : Prop where
  ef : EvF o (denF e)
  hm : o.m = (dims e).1
  hn : o.n = (dims e).2
  nl : ¬ Lin e → o.md.cls = .op

/-- linear expressions: from the matrix theorem -/
theorem invF_of_lin (e : LExpr K) (o : Obj K) (hl : Lin e) (hp : PlainDiagProducts e)
    (hK : RealK K ∨ AllC e) (h : build e = .ok o) : InvF e o ∧ Sound o (den e) := by
  obtain ⟨hS, hm, hn⟩ := build_sound e o hl hp hK h
  refine ⟨⟨?_, hm, hn, fun hnl => absurd hl hnl⟩, hS⟩
  refine hS.evF.congr (fun x i hi => ?_)
  rw [hn]
  exact (denF_lin e o hl hp hK h x i (hm ▸ hi)).symm

/-- **Main theorem for arbitrary trees**: what scico builds evaluates the pointwise denotation -/
theorem build_denF : ∀ (e : LExpr K) (o : Obj K), PlainDiagProducts e → (RealK K ∨ AllC e) →
    build e = .ok o → InvF e o := by
  intro e
  induction e with
  | mat m n dt A => intro o hp hK h; exact (invF_of_lin _ o (by simp [Lin]) hp hK h).1
  | diag dsh ddt inSh? inDt? d => intro o hp hK h; exact (invF_of_lin _ o (by simp [Lin]) hp hK h).1
  | scaledId c ck sh dt => intro o hp hK h; exact (invF_of_lin _ o (by simp [Lin]) hp hK h).1
  | ident sh dt => intro o hp hK h; exact (invF_of_lin _ o (by simp [Lin]) hp hK h).1
  | lin inSh outSh inDt gDt hasAdj G => intro o hp hK h; exact (invF_of_lin _ o (by simp [Lin]) hp hK h).1
  | nonlin inSh outSh inDt gDt G =>
    intro o _ _ h
    simp only [build, buildC] at h
    injection h with h; subst h
    refine ⟨⟨fun x i => ?_, fun x x' hx i _ => ?_⟩, rfl, rfl, fun _ => rfl⟩
    · simp only [mkNonlinLeaf, mkOp_eval, mkOp_m, vmap_get, vmulVec_get, denF, trunc_get]
      by_cases hi : i < outSh.size
      · simp only [hi, if_true]
        have : mulVec inSh.size (truncM outSh.size inSh.size G).get (vtrunc inSh.size x).get i
            = mulVec inSh.size (truncM outSh.size inSh.size G).get x.get i :=
          mulVec_congr_right (fun j hj => by simp [hj])
        rw [this]
      · simp [hi]
    · simp only [denF, trunc_get]
      have : mulVec inSh.size (truncM outSh.size inSh.size G).get x i
          = mulVec inSh.size (truncM outSh.size inSh.size G).get x' i := mulVec_congr_right hx
      rw [this]
  | add a b iha ihb =>
    intro o hp hK h
    by_cases hl : Lin a ∧ Lin b
    · exact (invF_of_lin (LExpr.add a b) o hl hp hK h).1
    · simp only [build, buildC] at h
      obtain ⟨oa, ha, h⟩ := bind_ok h
      obtain ⟨ob, hb, h⟩ := bind_ok h
      have Ia := iha oa hp.1 (allC_left hK) ha
      have Ib := ihb ob hp.2 (allC_right hK) hb
      have hop : oa.md.cls = .op ∨ ob.md.cls = .op := by
        by_cases h1 : Lin a
        · exact Or.inr (Ib.nl (fun h2 => hl ⟨h1, h2⟩))
        · exact Or.inl (Ia.nl h1)
      have hSb : ob.md.cls ≠ .op → ∃ D, Sound ob D := fun hc =>
        ⟨_, (invF_of_lin b ob (Classical.byContradiction (fun hn => hc (Ib.nl hn))) hp.2 (allC_right hK) hb).2⟩
      obtain ⟨hE, h1, h2, _, _, h5⟩ := addSub_evF false Ia.ef Ib.ef hop hSb h
      exact ⟨hE.congr (fun x i _ => by simp [denF, pm]), by rw [h1, Ia.hm]; rfl, by rw [h2, Ia.hn]; rfl,
        fun _ => h5⟩
  | sub a b iha ihb =>
    intro o hp hK h
    by_cases hl : Lin a ∧ Lin b
    · exact (invF_of_lin (LExpr.sub a b) o hl hp hK h).1
    · simp only [build, buildC] at h
      obtain ⟨oa, ha, h⟩ := bind_ok h
      obtain ⟨ob, hb, h⟩ := bind_ok h
      have Ia := iha oa hp.1 (allC_left hK) ha
      have Ib := ihb ob hp.2 (allC_right hK) hb
      have hop : oa.md.cls = .op ∨ ob.md.cls = .op := by
        by_cases h1 : Lin a
        · exact Or.inr (Ib.nl (fun h2 => hl ⟨h1, h2⟩))
        · exact Or.inl (Ia.nl h1)
      have hSb : ob.md.cls ≠ .op → ∃ D, Sound ob D := fun hc =>
        ⟨_, (invF_of_lin b ob (Classical.byContradiction (fun hn => hc (Ib.nl hn))) hp.2 (allC_right hK) hb).2⟩
      obtain ⟨hE, h1, h2, _, _, h5⟩ := addSub_evF true Ia.ef Ib.ef hop hSb h
      exact ⟨hE.congr (fun x i _ => by simp [denF, pm]), by rw [h1, Ia.hm]; rfl, by rw [h2, Ia.hn]; rfl,
        fun _ => h5⟩
  | neg a iha =>
    intro o hp hK h
    by_cases hl : Lin a
    · exact (invF_of_lin (LExpr.neg a) o hl hp hK h).1
    · simp only [build, buildC] at h
      obtain ⟨oa, ha, h⟩ := bind_ok h
      have Ia := iha oa hp hK ha
      have hop := Ia.nl hl
      unfold neg at h
      simp only [Obj.cls, hop] at h
      obtain ⟨hE, h1, h2, h5⟩ := smul_evF _ Ia.ef hop (by simpa using h)
      exact ⟨hE.congr (fun x i _ => by simp [denF]), by rw [h1, Ia.hm]; rfl, by rw [h2, Ia.hn]; rfl, fun _ => h5⟩
  | smulL c a iha =>
    intro o hp hK h
    by_cases hl : Lin a
    · exact (invF_of_lin (LExpr.smulL c a) o hl hp hK h).1
    · simp only [build, buildC] at h
      obtain ⟨oa, ha, h⟩ := bind_ok h
      have Ia := iha oa hp hK ha
      obtain ⟨hE, h1, h2, h5⟩ := smul_evF c Ia.ef (Ia.nl hl) h
      exact ⟨hE.congr (fun x i _ => by simp [denF]), by rw [h1, Ia.hm]; rfl, by rw [h2, Ia.hn]; rfl, fun _ => h5⟩
  | smulR a c iha =>
    intro o hp hK h
    by_cases hl : Lin a
    · exact (invF_of_lin (LExpr.smulR a c) o hl hp hK h).1
    · simp only [build, buildC] at h
      obtain ⟨oa, ha, h⟩ := bind_ok h
      have Ia := iha oa hp hK ha
      obtain ⟨hE, h1, h2, h5⟩ := smul_evF c Ia.ef (Ia.nl hl) h
      exact ⟨hE.congr (fun x i _ => by simp [denF]), by rw [h1, Ia.hm]; rfl, by rw [h2, Ia.hn]; rfl, fun _ => h5⟩
  | sdiv a c iha =>
    intro o hp hK h
    by_cases hl : Lin a
    · exact (invF_of_lin (LExpr.sdiv a c) o hl hp hK h).1
    · simp only [build, buildC] at h
      obtain ⟨oa, ha, h⟩ := bind_ok h
      have Ia := iha oa hp hK ha
      obtain ⟨hE, h1, h2, h5⟩ := sdiv_evF c Ia.ef (Ia.nl hl) h
      exact ⟨hE.congr (fun x i _ => by simp [denF]), by rw [h1, Ia.hm]; rfl, by rw [h2, Ia.hn]; rfl, fun _ => h5⟩
  | rdiv c a iha =>
    intro o hp hK h
    by_cases hl : Lin a
    · exact (invF_of_lin (LExpr.rdiv c a) o hl hp hK h).1
    · exfalso
      simp only [build, buildC] at h
      obtain ⟨oa, ha, h⟩ := bind_ok h
      have hop := (iha oa hp hK ha).nl hl
      simp [Obj.cls, hop] at h
  | addS sub rev a c iha =>
    intro o hp hK h
    by_cases hl : Lin a
    · exact (invF_of_lin (LExpr.addS sub rev a c) o hl hp hK h).1
    · exfalso
      simp only [build, buildC] at h
      obtain ⟨oa, ha, h⟩ := bind_ok h
      have hop := (iha oa hp hK ha).nl hl
      simp [Obj.cls, hop] at h
  | had div a b iha ihb =>
    intro o hp hK h
    by_cases hl : Lin a ∧ Lin b
    · exact (invF_of_lin (LExpr.had div a b) o hl hp hK h).1
    · exfalso
      simp only [build, buildC] at h
      obtain ⟨oa, ha, h⟩ := bind_ok h
      obtain ⟨ob, hb, h⟩ := bind_ok h
      split at h
      · rename_i hm
        have hma : oa.md.cls = .matrix := by simpa [Obj.cls] using hm
        have hla : Lin a := Classical.byContradiction (fun hn => by
          have := (iha oa hp.1 (allC_left hK) ha).nl hn
          rw [hma] at this; cases this)
        have hlb : ¬ Lin b := fun h2 => hl ⟨hla, h2⟩
        have hop := (ihb ob hp.2 (allC_right hK) hb).nl hlb
        unfold matHadamard at h
        simp [hop] at h
      · cases h
  | comp a b iha ihb =>
    intro o hp hK h
    by_cases hl : Lin a ∧ Lin b
    · exact (invF_of_lin (LExpr.comp a b) o hl hp hK h).1
    · simp only [build, buildC] at h
      obtain ⟨oa, ha, h⟩ := bind_ok h
      obtain ⟨ob, hb, h⟩ := bind_ok h
      have Ia := iha oa hp.1 (allC_left hK) ha
      have Ib := ihb ob hp.2 (allC_right hK) hb
      have hop : oa.md.cls = .op ∨ ob.md.cls = .op := by
        by_cases h1 : Lin a
        · exact Or.inr (Ib.nl (fun h2 => hl ⟨h1, h2⟩))
        · exact Or.inl (Ia.nl h1)
      obtain ⟨hE, h1, h2, _, h5⟩ := call_evF Ia.ef Ib.ef hop h
      exact ⟨hE.congr (fun x i _ => by simp [denF]), by rw [h1, Ia.hm]; rfl, by rw [h2, Ib.hn]; rfl,
        fun _ => h5⟩
  | matmul a b iha ihb =>
    intro o hp hK h
    by_cases hl : Lin a ∧ Lin b
    · exact (invF_of_lin (LExpr.matmul a b) o hl hp hK h).1
    · simp only [build, buildC] at h
      obtain ⟨oa, ha, h⟩ := bind_ok h
      obtain ⟨ob, hb, h⟩ := bind_ok h
      have Ia := iha oa hp.1 (allC_left hK) ha
      have Ib := ihb ob hp.2.1 (allC_right hK) hb
      have hop : oa.md.cls = .op ∨ ob.md.cls = .op := by
        by_cases h1 : Lin a
        · exact Or.inr (Ib.nl (fun h2 => hl ⟨h1, h2⟩))
        · exact Or.inl (Ia.nl h1)
      have hSa : oa.md.cls ≠ .op → ∃ D, Sound oa D := fun hc =>
        ⟨_, (invF_of_lin a oa (Classical.byContradiction (fun hn => hc (Ia.nl hn))) hp.1 (allC_left hK) ha).2⟩
      have hSb : ob.md.cls ≠ .op → ∃ D, Sound ob D := fun hc =>
        ⟨_, (invF_of_lin b ob (Classical.byContradiction (fun hn => hc (Ib.nl hn))) hp.2.1 (allC_right hK) hb).2⟩
      obtain ⟨hE, h1, h2, h5⟩ := matmul_evF Ia.ef Ib.ef hop hSa hSb h
      exact ⟨hE.congr (fun x i _ => by simp [denF]), by rw [h1, Ia.hm]; rfl, by rw [h2, Ib.hn]; rfl,
        fun _ => h5⟩
  | T a iha =>
    intro o hp hK h
    by_cases hl : Lin a
    · exact (invF_of_lin (LExpr.T a) o hl hp hK h).1
    · exfalso
      simp only [build, buildC] at h
      obtain ⟨oa, ha, h⟩ := bind_ok h
      have hop := (iha oa hp hK ha).nl hl
      simp [opT, Obj.cls, hop] at h
  | H a iha =>
    intro o hp hK h
    by_cases hl : Lin a
    · exact (invF_of_lin (LExpr.H a) o hl hp hK h).1
    · exfalso
      simp only [build, buildC] at h
      obtain ⟨oa, ha, h⟩ := bind_ok h
      have hop := (iha oa hp hK ha).nl hl
      simp [opH, Obj.cls, hop] at h
  | conj a iha =>
    intro o hp hK h
    by_cases hl : Lin a
    · exact (invF_of_lin (LExpr.conj a) o hl hp hK h).1
    · exfalso
      simp only [build, buildC] at h
      obtain ⟨oa, ha, h⟩ := bind_ok h
      have hop := (iha oa hp hK ha).nl hl
      simp [opConj, Obj.cls, hop] at h
  | gram a iha =>
    intro o hp hK h
    by_cases hl : Lin a
    · exact (invF_of_lin (LExpr.gram a) o hl hp hK h).1
    · exfalso
      simp only [build, buildC] at h
      obtain ⟨oa, ha, h⟩ := bind_ok h
      have hop := (iha oa hp hK ha).nl hl
      simp [opGram, Obj.cls, hop] at h

end
end Scico.OpAlg
