/-
  A concrete family of ARRAY primitives for which the per-class facts are PROVED (C06, round 2, task D).

  Values are flattened arrays `ℕ → ℂ` (entry `i` of the row-major buffer; entries beyond the size are 0), scalars
  `ℝ → ℂ`.  Every jointly linear primitive of the family is given by a *row-finite sparse matrix over its operands*

      (out) i  =  Σ_{(k, j, c) ∈ T i}  c · (operand k) j                         (`applyDesc`)

  where the descriptor `T` may depend on the values of the parameter operands (predicate of `select_n`, index array of
  `gather`).  Linearity is proved once for every descriptor (`applyDesc_add`, `applyDesc_smul`); the descriptors of

      add, sub, neg, scale by a constant, slice (start, stride), pad with zeros, concatenate, reduce_sum, cumsum,
      reverse, broadcast, transpose, gather with a constant index list, select_n with a constant predicate,
      any constant matrix (dot_general with a constant operand, fft = the DFT matrix)

  are defined below with lemmas saying what each computes.  Together with pointwise product / full convolution
  (bilinear), pointwise quotient, real / imaginary part and conjugate this gives an interpretation `arrInterp T C`
  that is sound for EVERY descriptor table `T` and constant table `C` (`arrInterp_sound`): for programs over this
  family the checker's verdict gives linearity outright, with no hypothesis about the primitives.
-/
import Scico.Proofs.Jaxpr
import Mathlib.LinearAlgebra.Complex.Module
import Mathlib.Algebra.BigOperators.Group.List.Basic
import Mathlib.Tactic.Ring
import Mathlib.Tactic.Abel
import Mathlib.Tactic.NormNum

namespace Scico.Jaxpr.Arr

open Scico.Jaxpr

abbrev Vc := ℕ → ℂ

/-- one term of a sparse row: (operand number, entry of that operand, coefficient) -/
abbrev Term := Scico.Jaxpr.Term ℂ

/-- a row-finite sparse matrix over the operand list -/
abbrev LinDesc := ℕ → List Term

/-- operand `k` of the list (absent operands read as the zero array) -/
def opnd (xs : List Vc) (k : ℕ) : Vc := xs.getD k 0

/-- the model's `applyDescG` (Mathlib-free, run at `Float` by the driver against the JAX primitives) at `ℂ` -/
def applyDesc (T : LinDesc) (xs : List Vc) : Vc := applyDescG T xs

theorem applyDesc_apply (T : LinDesc) (xs : List Vc) (i : ℕ) :
    applyDesc T xs i = ((T i).map fun t => t.2.2 * opnd xs t.1 t.2.1).sum := rfl

theorem opnd_ladd (xs ys : List Vc) (h : xs.length = ys.length) (k : ℕ) :
    opnd (ladd xs ys) k = opnd xs k + opnd ys k := by
  induction xs generalizing ys k with
  | nil => cases ys <;> simp_all [ladd, opnd]
  | cons x xs ih =>
    cases ys with
    | nil => simp at h
    | cons y ys =>
      cases k with
      | zero => simp [ladd, opnd]
      | succ k =>
        have := ih ys (by simpa using h) k
        simpa [ladd, opnd] using this

theorem opnd_lsmul (c : ℂ) (xs : List Vc) (k : ℕ) : opnd (lsmul c xs) k = c • opnd xs k := by
  induction xs generalizing k with
  | nil => simp [lsmul, opnd]
  | cons x xs ih =>
    cases k with
    | zero => simp [lsmul, opnd]
    | succ k => simpa [lsmul, opnd] using ih k

theorem sum_map_add' {α : Type} (l : List α) (f g : α → ℂ) :
    (l.map fun t => f t + g t).sum = (l.map f).sum + (l.map g).sum := by
  induction l with
  | nil => simp
  | cons a l ih => simp only [List.map_cons, List.sum_cons, ih]; ring

theorem sum_map_mul' {α : Type} (l : List α) (c : ℂ) (f : α → ℂ) :
    (l.map fun t => c * f t).sum = c * (l.map f).sum := by
  induction l with
  | nil => simp
  | cons a l ih => simp only [List.map_cons, List.sum_cons, ih]; ring

/-- every sparse descriptor is jointly additive … -/
theorem applyDesc_add (T : LinDesc) (xs ys : List Vc) (h : xs.length = ys.length) :
    applyDesc T (ladd xs ys) = applyDesc T xs + applyDesc T ys := by
  funext i
  simp only [applyDesc_apply, Pi.add_apply, opnd_ladd xs ys h, mul_add]
  exact sum_map_add' _ _ _

/-- … and homogeneous over ℂ -/
theorem applyDesc_smul (T : LinDesc) (c : ℂ) (xs : List Vc) :
    applyDesc T (lsmul c xs) = c • applyDesc T xs := by
  funext i
  simp only [applyDesc_apply, Pi.smul_apply, opnd_lsmul, smul_eq_mul]
  rw [← sum_map_mul']
  congr 1
  apply List.map_congr_left
  intro t _
  ring

/-! ### the descriptors of the family and what they compute -/

def addD : LinDesc := fun i => [(0, i, 1), (1, i, 1)]
def subD : LinDesc := fun i => [(0, i, 1), (1, i, -1)]
def negD : LinDesc := fun i => [(0, i, -1)]
/-- multiplication by the constant scalar `c` -/
def scaleD (c : ℂ) : LinDesc := fun i => [(0, i, c)]
/-- `x[start : start + stride*len : stride]` -/
def sliceD (start stride len : ℕ) : LinDesc := fun i => if i < len then [(0, start + stride * i, 1)] else []
/-- `lo` zeros, then the `len` entries of the operand, then zeros -/
def padD (lo len : ℕ) : LinDesc := fun i => if lo ≤ i ∧ i < lo + len then [(0, i - lo, 1)] else []
/-- operands of sizes `n₁`, `n₂` one after the other -/
def concatD (n₁ n₂ : ℕ) : LinDesc :=
  fun i => if i < n₁ then [(0, i, 1)] else if i < n₁ + n₂ then [(1, i - n₁, 1)] else []
/-- sum of the first `n` entries (a 0-d result) -/
def sumD (n : ℕ) : LinDesc := fun i => if i = 0 then (List.range n).map fun j => (0, j, 1) else []
/-- running sum of the first `n` entries -/
def cumsumD (n : ℕ) : LinDesc := fun i => if i < n then (List.range (i + 1)).map fun j => (0, j, 1) else []
def revD (n : ℕ) : LinDesc := fun i => if i < n then [(0, n - 1 - i, 1)] else []
/-- a 0-d operand broadcast to `n` entries -/
def bcastD (n : ℕ) : LinDesc := fun i => if i < n then [(0, 0, 1)] else []
/-- an `r × c` row-major operand transposed (result `c × r` row-major) -/
def transposeD (r c : ℕ) : LinDesc := fun i => if i < r * c then [(0, (i % r) * c + i / r, 1)] else []
/-- `x[idx]` for a constant index list -/
def gatherD (idx : List ℕ) : LinDesc := fun i => match idx[i]? with | some j => [(0, j, 1)] | none => []
/-- `where(pred, a, b)` for a constant predicate (operand 0 where it holds, operand 1 elsewhere) -/
def selectD (pred : ℕ → Bool) : LinDesc := fun i => if pred i then [(0, i, 1)] else [(1, i, 1)]
/-- multiplication by a constant `m × n` matrix (dot_general with a constant operand; fft = the DFT matrix) -/
def matD (m n : ℕ) (M : ℕ → ℕ → ℂ) : LinDesc :=
  fun i => if i < m then (List.range n).map fun j => (0, j, M i j) else []

section computes
variable (x y : Vc) (i : ℕ)

theorem addD_apply : applyDesc addD [x, y] i = x i + y i := by simp [applyDesc_apply, addD, opnd]
theorem subD_apply : applyDesc subD [x, y] i = x i - y i := by simp [applyDesc_apply, subD, opnd]; ring
theorem negD_apply : applyDesc negD [x] i = - x i := by simp [applyDesc_apply, negD, opnd]
theorem scaleD_apply (c : ℂ) : applyDesc (scaleD c) [x] i = c * x i := by simp [applyDesc_apply, scaleD, opnd]
theorem sliceD_apply (s t n : ℕ) : applyDesc (sliceD s t n) [x] i = if i < n then x (s + t * i) else 0 := by
  by_cases h : i < n <;> simp [applyDesc_apply, sliceD, opnd, h]
theorem padD_apply (lo n : ℕ) : applyDesc (padD lo n) [x] i = if lo ≤ i ∧ i < lo + n then x (i - lo) else 0 := by
  by_cases h : lo ≤ i ∧ i < lo + n <;> simp [applyDesc_apply, padD, opnd, h]
theorem concatD_apply (n₁ n₂ : ℕ) :
    applyDesc (concatD n₁ n₂) [x, y] i = if i < n₁ then x i else if i < n₁ + n₂ then y (i - n₁) else 0 := by
  by_cases h : i < n₁
  · simp [applyDesc_apply, concatD, opnd, h]
  · by_cases h2 : i < n₁ + n₂ <;> simp [applyDesc_apply, concatD, opnd, h, h2]
theorem revD_apply (n : ℕ) : applyDesc (revD n) [x] i = if i < n then x (n - 1 - i) else 0 := by
  by_cases h : i < n <;> simp [applyDesc_apply, revD, opnd, h]
theorem bcastD_apply (n : ℕ) : applyDesc (bcastD n) [x] i = if i < n then x 0 else 0 := by
  by_cases h : i < n <;> simp [applyDesc_apply, bcastD, opnd, h]
theorem transposeD_apply (r c : ℕ) :
    applyDesc (transposeD r c) [x] i = if i < r * c then x ((i % r) * c + i / r) else 0 := by
  by_cases h : i < r * c <;> simp [applyDesc_apply, transposeD, opnd, h]
theorem selectD_apply (pred : ℕ → Bool) : applyDesc (selectD pred) [x, y] i = if pred i then x i else y i := by
  by_cases h : pred i <;> simp [applyDesc_apply, selectD, opnd, h]
theorem gatherD_apply (idx : List ℕ) :
    applyDesc (gatherD idx) [x] i = match idx[i]? with | some j => x j | none => 0 := by
  cases h : idx[i]? <;> simp [applyDesc_apply, gatherD, opnd, h]
theorem sumD_apply (n : ℕ) : applyDesc (sumD n) [x] 0 = ((List.range n).map x).sum := by
  simp [applyDesc_apply, sumD, opnd, List.map_map, Function.comp_def]
theorem cumsumD_apply (n : ℕ) (h : i < n) : applyDesc (cumsumD n) [x] i = ((List.range (i + 1)).map x).sum := by
  simp [applyDesc_apply, cumsumD, opnd, h, List.map_map, Function.comp_def]
theorem matD_apply (m n : ℕ) (M : ℕ → ℕ → ℂ) (h : i < m) :
    applyDesc (matD m n M) [x] i = ((List.range n).map fun j => M i j * x j).sum := by
  simp [applyDesc_apply, matD, opnd, h, List.map_map, Function.comp_def]

end computes

/-! ### the interpretation -/

/-- full (linear) convolution of two arrays -/
def convFull (u v : Vc) : Vc := fun i => ((List.range (i + 1)).map fun j => u j * v (i - j)).sum

/-- `T p ps` : descriptor of the jointly linear primitive `p` for parameter-operand values `ps`;
    `C n` : value of the non-zero literal `n`.
    bilinear 0 = pointwise product, bilinear (p+1) = full convolution; realPart 0 = real part, realPart (p+1) =
    imaginary part; nonlin = pointwise square (any function would do: nothing is assumed of `nonlin`). -/
noncomputable def arrDen (T : ℕ → List Vc → LinDesc) (C : ℕ → Vc) : PClass → Nat → List Vc → List Vc → Vc
  | .lit true, _, _, _ => 0
  | .lit false, n, _, _ => C n
  | .linAll, p, ps, xs => applyDesc (T p ps) xs
  | .bilinear, 0, _, [u, v] => u * v
  | .bilinear, _ + 1, _, [u, v] => convFull u v
  | .bilinear, _, _, _ => 0
  | .divLike, _, _, [u, v] => u / v
  | .divLike, _, _, _ => 0
  | .realPart, 0, _, [u] => fun i => ((u i).re : ℂ)
  | .realPart, _ + 1, _, [u] => fun i => ((u i).im : ℂ)
  | .realPart, _, _, _ => 0
  | .conj, _, _, [u] => fun i => (starRingEnd ℂ) (u i)
  | .conj, _, _, _ => 0
  | .nonlin, _, _, xs => (xs.headD 0) * (xs.headD 0)

noncomputable def arrInterp (T : ℕ → List Vc → LinDesc) (C : ℕ → Vc) : Interp Vc := ⟨arrDen T C⟩

theorem convFull_add_left (u u' v : Vc) : convFull (u + u') v = convFull u v + convFull u' v := by
  funext i
  simp only [convFull, Pi.add_apply, add_mul]
  exact sum_map_add' _ _ _

theorem convFull_add_right (u v v' : Vc) : convFull u (v + v') = convFull u v + convFull u v' := by
  funext i
  simp only [convFull, Pi.add_apply, mul_add]
  exact sum_map_add' _ _ _

theorem convFull_smul_left (c : ℂ) (u v : Vc) : convFull (c • u) v = c • convFull u v := by
  funext i
  simp only [convFull, Pi.smul_apply, smul_eq_mul, mul_assoc]
  exact sum_map_mul' _ _ _

theorem convFull_smul_right (c : ℂ) (u v : Vc) : convFull u (c • v) = c • convFull u v := by
  funext i
  simp only [convFull, Pi.smul_apply, smul_eq_mul]
  rw [← sum_map_mul']
  congr 1
  apply List.map_congr_left
  intro t _
  ring

/-- **the whole family satisfies the per-class facts**, for every descriptor table and every constant table -/
theorem arrInterp_sound (T : ℕ → List Vc → LinDesc) (C : ℕ → Vc) : (arrInterp T C).Sound ℝ ℂ where
  star_real := fun r => by simp
  lit_zero := fun _ _ => rfl
  lin_add := fun p ps xs ys h => applyDesc_add (T p ps) xs ys h
  lin_smul := fun p ps c xs => applyDesc_smul (T p ps) c xs
  bil_add_left := fun p ps u u' v => by
    cases p with
    | zero => simp only [arrInterp, arrDen]; ring
    | succ p => exact convFull_add_left u u' v
  bil_smul_left := fun p ps c u v => by
    cases p with
    | zero => simp only [arrInterp, arrDen]; funext i; simp [mul_assoc]
    | succ p => exact convFull_smul_left c u v
  bil_add_right := fun p ps u v v' => by
    cases p with
    | zero => simp only [arrInterp, arrDen]; ring
    | succ p => exact convFull_add_right u v v'
  bil_smul_right := fun p ps c u v => by
    cases p with
    | zero => simp only [arrInterp, arrDen]; funext i; simp; ring
    | succ p => exact convFull_smul_right c u v
  div_add := fun p ps u u' d => by
    simp only [arrInterp, arrDen]; funext i; simp [add_div]
  div_smul := fun p ps c u d => by
    simp only [arrInterp, arrDen]; funext i; simp [mul_div_assoc]
  re_add := fun p ps u u' => by
    cases p <;> (simp only [arrInterp, arrDen]; funext i; simp)
  re_smul := fun p ps r u => by
    cases p <;> (simp only [arrInterp, arrDen]; funext i; simp)
  conj_add := fun p ps u u' => by
    simp only [arrInterp, arrDen]; funext i; simp
  conj_smul := fun p ps c u => by
    simp only [arrInterp, arrDen]; funext i; simp

/-! ### a worked table: ids of the family, and programs over it -/

/-- descriptor table used by the examples (sizes are parameters of the table): -/
noncomputable def demoTable (n : ℕ) (h : ℕ → ℕ → ℂ) : ℕ → List Vc → LinDesc
  | 0, _ => addD
  | 1, _ => subD
  | 2, _ => negD
  | 3, _ => sliceD 1 1 (n - 1)      -- x[1:]
  | 4, _ => sliceD 0 1 (n - 1)      -- x[:-1]
  | 5, _ => padD 0 (n - 1)          -- append zeros (a no-op on zero-extended buffers: pad (0, 1))
  | 6, _ => concatD 1 (n - 1)
  | 7, _ => sumD n
  | 8, _ => revD n
  | 9, _ => bcastD n
  | 10, _ => matD n n h             -- a constant n × n matrix
  | 11, ps => selectD fun i => decide (opnd ps 0 i ≠ 0)   -- where(mask ≠ 0, a, b), mask = parameter operand
  | 12, _ => cumsumD n
  | _, _ => fun _ => []

/-- forward difference `y[i] = x[i+1] - x[i]`, `i < n-1`: slice, slice, sub (the traced shape of `snp.diff`) -/
abbrev diffProg : Prog :=
  { nin := 1, eqns := [⟨.linAll, 3, [], [0]⟩, ⟨.linAll, 4, [], [0]⟩, ⟨.linAll, 1, [], [1, 2]⟩], outs := [3] }

/-- `y = Re (M x)` masked by a constant pattern: matrix, real part, select against a zero literal -/
abbrev reMatProg : Prog :=
  { nin := 1
    eqns := [⟨.linAll, 10, [], [0]⟩, ⟨.realPart, 0, [], [1]⟩, ⟨.lit false, 7, [], []⟩, ⟨.lit true, 0, [], []⟩,
             ⟨.linAll, 11, [3], [2, 4]⟩]
    outs := [5] }

/-- `y = x - mean-like broadcast of the sum`: reduce_sum, broadcast, sub -/
abbrev centreProg : Prog :=
  { nin := 1, eqns := [⟨.linAll, 7, [], [0]⟩, ⟨.linAll, 9, [], [1]⟩, ⟨.linAll, 1, [], [0, 2]⟩], outs := [3] }

/-- `y = x + 1` over the same family: an affine map -/
abbrev affArrProg : Prog :=
  { nin := 1, eqns := [⟨.lit false, 0, [], []⟩, ⟨.linAll, 0, [], [0, 1]⟩], outs := [2] }

theorem fin1 {n : Nat} (h : n = 1) (j : Fin n) : j = ⟨0, by omega⟩ := by
  subst h; exact Fin.ext (by omega)

theorem diffProg_run (n : ℕ) (h : ℕ → ℕ → ℂ) (C : ℕ → Vc) (x : Fin diffProg.nin → Vc) (j) (i : ℕ) :
    run (arrInterp (demoTable n h) C) diffProg x j i =
      if i < n - 1 then x ⟨0, by decide⟩ (i + 1) - x ⟨0, by decide⟩ i else 0 := by
  rw [fin1 (by decide) j]
  by_cases hi : i < n - 1
  · simp [run, finalEnv, evalEqns, stepVal, valOf, arrInterp, arrDen, demoTable, applyDesc_apply, subD, sliceD, opnd, hi,
      add_comm]
    ring
  · simp [run, finalEnv, evalEqns, stepVal, valOf, arrInterp, arrDen, demoTable, applyDesc_apply, subD, sliceD, opnd, hi]

theorem centreProg_run (n : ℕ) (h : ℕ → ℕ → ℂ) (C : ℕ → Vc) (x : Fin centreProg.nin → Vc) (j) (i : ℕ) (hi : i < n) :
    run (arrInterp (demoTable n h) C) centreProg x j i =
      x ⟨0, by decide⟩ i - ((List.range n).map (x ⟨0, by decide⟩)).sum := by
  rw [fin1 (by decide) j]
  simp [run, finalEnv, evalEqns, stepVal, valOf, arrInterp, arrDen, demoTable, applyDesc_apply, subD, sumD, bcastD, opnd, hi,
    List.map_map, Function.comp_def]
  ring

theorem affArrProg_zero (n : ℕ) (h : ℕ → ℕ → ℂ) :
    run (arrInterp (demoTable n h) (fun _ _ => 1)) affArrProg 0 ≠ 0 := by
  intro hz
  have := congrFun (congrFun hz ⟨0, by decide⟩) 0
  simp [run, finalEnv, evalEqns, stepVal, valOf, arrInterp, arrDen, demoTable, applyDesc_apply, addD, opnd] at this

end Scico.Jaxpr.Arr
