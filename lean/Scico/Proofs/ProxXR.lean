/-
  Non-finite entries (`±inf`, `NaN`) through the ENTRY-WISE proxes: the same model definitions (`l1Prox1`, `nonnegProx1`, `huberSepProx1`,
  `sqL2Prox1`, and the NaN-faithful `l0Prox1X`) instantiated at the IEEE-extended scalar `XR ℚ` of `Scico/Model/StepSize.lean`
  (branch logic only: comparisons with NaN are false, `inf - lam = inf`, `x/inf = 0`, …).  What the code returns on such an entry,
  for every finite `lam` (and `delta`).  The norm-based maps (`L2Norm`, ball, non-separable Huber, L2,1, L1−L2) turn one non-finite entry
  into NaN everywhere; they are not modelled at `XR` (the `norm_v == 0` test of the model is written with `<`).
-/
import Scico.Model.Prox
import Scico.Model.StepSize
import Mathlib.Tactic.Linarith
import Mathlib.Algebra.Order.Ring.Rat

namespace Scico.ProxXR
open Scico Scico.Prox Scico.StepSize

/-- absolute value on rationals as an operation -/
instance : HasAbs Rat := ⟨fun x => if x < 0 then -x else x⟩

/-- IEEE `abs`: `|±inf| = +inf`, `|NaN| = NaN` -/
instance {K : Type} [HasAbs K] : HasAbs (XR K) :=
  ⟨fun x => match x with | .fin a => .fin (HasAbs.abs a) | .pinf => .pinf | .ninf => .pinf | .nan => .nan⟩

instance {K : Type} [OfNat K 2] : OfNat (XR K) 2 := ⟨.fin 2⟩
instance {K : Type} [OfNat K 4] : OfNat (XR K) 4 := ⟨.fin 4⟩

/-- IEEE-extended rationals: the scalar at which the branch logic of the entry-wise proxes is evaluated on non-finite entries -/
abbrev X := XR Rat

/-! ### `L1Norm.prox` : `sign(v) * 0.5*(t + |t|)`, `t = |v| - lam` -/
theorem l1_pinf (lam : Rat) : l1Prox1 (XR.pinf : X) (XR.fin lam) = XR.pinf := by rfl
theorem l1_ninf (lam : Rat) : l1Prox1 (XR.ninf : X) (XR.fin lam) = XR.ninf := by rfl
theorem l1_nan (lam : Rat) : l1Prox1 (XR.nan : X) (XR.fin lam) = XR.nan := by rfl

/-! ### `NonNegativeIndicator.prox` : `maximum(v, 0)` -/
theorem nonneg_pinf : nonnegProx1 (XR.pinf : X) = XR.pinf := by rfl
theorem nonneg_ninf : nonnegProx1 (XR.ninf : X) = (0 : X) := by rfl
theorem nonneg_nan : nonnegProx1 (XR.nan : X) = XR.nan := by rfl

/-! ### `HuberNorm._prox_sep` : `(1 - delta*lam / maximum(|v|, delta*(1+lam))) * v` -/
theorem huber_pinf (delta lam : Rat) : huberSepProx1 (XR.fin delta) (XR.pinf : X) (XR.fin lam) = XR.pinf := by
  have h : huberSepProx1 (XR.fin delta) (XR.pinf : X) (XR.fin lam) = XR.infMul true ((1 : Rat) + -0) := by rfl
  rw [h]; simp [XR.infMul]
theorem huber_ninf (delta lam : Rat) : huberSepProx1 (XR.fin delta) (XR.ninf : X) (XR.fin lam) = XR.ninf := by
  have h : huberSepProx1 (XR.fin delta) (XR.ninf : X) (XR.fin lam) = XR.infMul false ((1 : Rat) + -0) := by rfl
  rw [h]; simp [XR.infMul]
theorem huber_nan (delta lam : Rat) : huberSepProx1 (XR.fin delta) (XR.nan : X) (XR.fin lam) = XR.nan := by rfl

/-! ### `SquaredL2Norm.prox` : `v / (1 + 2 lam)` -/
theorem sqL2_inf {lam : Rat} (hlam : 0 < lam) :
    sqL2Prox1 (XR.pinf : X) (XR.fin lam) = XR.pinf ∧ sqL2Prox1 (XR.ninf : X) (XR.fin lam) = XR.ninf := by
  have h : ¬ (1 + 2 * lam < 0) := by linarith
  constructor
  · show XR.div XR.pinf (XR.fin (1 + 2 * lam)) = XR.pinf
    simp [XR.div, h]
  · show XR.div XR.ninf (XR.fin (1 + 2 * lam)) = XR.ninf
    simp [XR.div, h]
theorem sqL2_nan (lam : Rat) : sqL2Prox1 (XR.nan : X) (XR.fin lam) = XR.nan := by rfl

/-! ### `L0Norm.prox` : `where(|v| >= lam, v, 0)` — NaN-faithful transcription (`l0Prox1X`) -/
theorem l0_nan (lam : Rat) : l0Prox1X (XR.nan : X) (XR.fin lam) = (0 : X) := by rfl
theorem l0_pinf (lam : Rat) : l0Prox1X (XR.pinf : X) (XR.fin lam) = XR.pinf := by rfl
theorem l0_ninf (lam : Rat) : l0Prox1X (XR.ninf : X) (XR.fin lam) = XR.ninf := by rfl
/-- on finite entries it is the map of the main model (`l0Prox1`, written with `<`) -/
theorem l0_fin (a lam : Rat) : l0Prox1X (XR.fin a : X) (XR.fin lam) = l0Prox1 (XR.fin a : X) (XR.fin lam) := by
  unfold l0Prox1X l0Prox1
  show (if XR.le (XR.fin lam) (XR.fin (HasAbs.abs a)) = true then _ else _) = (if XR.lt (XR.fin (HasAbs.abs a)) (XR.fin lam) = true then _ else _)
  simp only [XR.le, XR.lt]
  by_cases h : HasAbs.abs a < lam <;> simp [h]

/-- the XR instantiation extends the ordinary one: finite entries are mapped as over `ℚ` -/
theorem nonneg_fin (a : Rat) : nonnegProx1 (XR.fin a : X) = XR.fin (nonnegProx1 a) := by
  unfold nonnegProx1 maxP
  show (if XR.lt (XR.fin a) (XR.fin 0) = true then _ else _) = _
  simp only [XR.lt]
  by_cases h : a < 0
  · simp [h]; rfl
  · simp [h]

end Scico.ProxXR
