/-
  Proofs/StepsOpial3 — ProximalADMM (general `B`, `c`) in finite dimension, merely convex problem, strict documented
  constraints `μ > ‖A‖²`, `ν > ‖B‖²`: if a KKT point exists, the iterates `(x_k, z_k, u_k)` converge from EVERY start to a
  KKT point.  Opial's argument (`fejer_converges`) on the quadruple `(x, z, z_old, u)` of states produced by `step()`
  (where `u_old = u − (Ax + Bz − c)`), with the Lyapunov function `Ψ` of `StepsProxADMM` as the Fejér metric.
-/
import Scico.Model.Steps
import Scico.Proofs.StepsConvex
import Scico.Proofs.StepsFixed
import Scico.Proofs.StepsRelax
import Scico.Proofs.StepsProxADMM
import Scico.Proofs.StepsOpial
import Scico.Proofs.StepsOpial2
import Mathlib.Tactic.Abel

set_option linter.unusedSectionVars false

namespace Scico.Steps

variable {X Z U : Type} [NormedAddCommGroup X] [InnerProductSpace ℝ X] [FiniteDimensional ℝ X]
  [NormedAddCommGroup Z] [InnerProductSpace ℝ Z] [FiniteDimensional ℝ Z]
  [NormedAddCommGroup U] [InnerProductSpace ℝ U] [FiniteDimensional ℝ U]

local notation "⟪" x ", " y "⟫" => inner ℝ x y

/-- the state with `u_old` reconstructed from the invariant `u − u_old = Ax + Bz − c` -/
def padmmOfQuad (p : PADMMParams ℝ X Z U) (w : X × Z × Z × U) : PADMMState X Z U :=
  { x := w.1, z := w.2.1, zOld := w.2.2.1, u := w.2.2.2, uOld := w.2.2.2 - (p.A w.1 + p.B w.2.1 - p.c) }

def PADMMState.quad (s : PADMMState X Z U) : X × Z × Z × U := (s.x, s.z, s.zOld, s.u)

noncomputable def padmmXn (p : PADMMParams ℝ X Z U) (w : X × Z × Z × U) : X :=
  p.proxf (p.rho⁻¹ * p.mu⁻¹) (w.1 - p.mu⁻¹ • p.AH ((2 : ℝ) • w.2.2.2 - (w.2.2.2 - (p.A w.1 + p.B w.2.1 - p.c))))

noncomputable def padmmZn (p : PADMMParams ℝ X Z U) (w : X × Z × Z × U) : Z :=
  p.proxg (p.rho⁻¹ * p.nu⁻¹) (w.2.1 - p.nu⁻¹ • p.BH (p.A (padmmXn p w) + p.B w.2.1 - p.c + w.2.2.2))

/-- the ProximalADMM iteration on `(x, z, z_old, u)` -/
noncomputable def padmmT (p : PADMMParams ℝ X Z U) (w : X × Z × Z × U) : X × Z × Z × U :=
  (padmmXn p w, padmmZn p w, w.2.1, w.2.2.2 + p.A (padmmXn p w) + p.B (padmmZn p w) - p.c)

theorem padmmT_eq (p : PADMMParams ℝ X Z U) (w : X × Z × Z × U) :
    padmmT p w = (padmmSpecStep p (padmmOfQuad p w)).quad := rfl

theorem padmmOfQuad_quad (p : PADMMParams ℝ X Z U) (s : PADMMState X Z U)
    (hi : s.u = s.uOld + p.A s.x + p.B s.z - p.c) : padmmOfQuad p s.quad = s := by
  unfold padmmOfQuad PADMMState.quad
  have : s.u - (p.A s.x + p.B s.z - p.c) = s.uOld := by rw [hi]; abel
  simp only [this]

theorem padmmT_iter (p : PADMMParams ℝ X Z U) (k : Nat) :
    ∀ s : PADMMState X Z U, s.u = s.uOld + p.A s.x + p.B s.z - p.c →
      (iter (padmmSpecStep p) k s).quad = iter (padmmT p) k s.quad := by
  induction k with
  | zero => intro s _; rfl
  | succ k ih =>
    intro s hi
    show (iter (padmmSpecStep p) k (padmmSpecStep p s)).quad = iter (padmmT p) k (padmmT p s.quad)
    have h1 : padmmT p s.quad = (padmmSpecStep p s).quad := by
      rw [padmmT_eq, padmmOfQuad_quad p s hi]
    rw [h1]
    exact ih (padmmSpecStep p s) rfl

structure PADMMConvHyp (p : PADMMParams ℝ X Z U) (F : Fn X) (G : Fn Z) (La Lb : ℝ) : Prop where
  rho : 0 < p.rho
  mu : 0 < p.mu
  nu : 0 < p.nu
  addA : ∀ x y, p.A (x + y) = p.A x + p.A y
  addB : ∀ x y, p.B (x + y) = p.B x + p.B y
  adjA : ∀ w x, ⟪p.AH w, x⟫ = ⟪w, p.A x⟫
  adjB : ∀ w z, ⟪p.BH w, z⟫ = ⟪w, p.B z⟫
  proxf : IsProx F p.proxf
  proxg : IsProx G p.proxg
  La0 : 0 ≤ La
  Lb0 : 0 ≤ Lb
  bdA : ∀ a, ‖p.A a‖ ≤ La * ‖a‖
  bdB : ∀ b, ‖p.B b‖ ≤ Lb * ‖b‖
  /-- documented constraints, strict: `μ > ‖A‖²`, `ν > ‖B‖²` -/
  strictA : La ^ 2 < p.mu
  strictB : Lb ^ 2 < p.nu

/-- KKT point with scaled multiplier -/
def IsPKKT (p : PADMMParams ℝ X Z U) (F : Fn X) (G : Fn Z) (w : X × Z × Z × U) : Prop :=
  w.2.2.1 = w.2.1 ∧ p.A w.1 + p.B w.2.1 = p.c ∧ F.Subgrad w.1 (-(p.rho • p.AH w.2.2.2)) ∧
    G.Subgrad w.2.1 (-(p.rho • p.BH w.2.2.2))

theorem PADMMConvHyp.sqA {p : PADMMParams ℝ X Z U} {F : Fn X} {G : Fn Z} {La Lb : ℝ} (H : PADMMConvHyp p F G La Lb)
    (a : X) : ‖p.A a‖ ^ 2 ≤ La ^ 2 * ‖a‖ ^ 2 := by
  have := pow_le_pow_left₀ (norm_nonneg _) (H.bdA a) 2
  rwa [mul_pow] at this

theorem PADMMConvHyp.sqB {p : PADMMParams ℝ X Z U} {F : Fn X} {G : Fn Z} {La Lb : ℝ} (H : PADMMConvHyp p F G La Lb)
    (b : Z) : ‖p.B b‖ ^ 2 ≤ Lb ^ 2 * ‖b‖ ^ 2 := by
  have := pow_le_pow_left₀ (norm_nonneg _) (H.bdB b) 2
  rwa [mul_pow] at this

theorem PADMMConvHyp.hyp {p : PADMMParams ℝ X Z U} {F : Fn X} {G : Fn Z} {La Lb : ℝ} (H : PADMMConvHyp p F G La Lb)
    {w : X × Z × Z × U} (hw : IsPKKT p F G w) : PADMMHyp p F G w.1 w.2.1 w.2.2.2 := by
  refine ⟨H.rho, H.mu, H.nu, H.addA, H.addB, H.adjA, H.adjB, H.proxf, H.proxg, hw.2.1, hw.2.2.1, hw.2.2.2,
    fun b => ?_, fun a => ?_⟩
  · have h1 := H.sqB b
    have : Lb ^ 2 * ‖b‖ ^ 2 ≤ p.nu * ‖b‖ ^ 2 := mul_le_mul_of_nonneg_right H.strictB.le (by positivity)
    linarith
  · have h1 := H.sqA a
    have : La ^ 2 * ‖a‖ ^ 2 ≤ p.mu * ‖a‖ ^ 2 := mul_le_mul_of_nonneg_right H.strictA.le (by positivity)
    linarith

/-- bounded additive maps with an adjoint are Lipschitz; so are their adjoints -/
theorem lin_continuous {V W : Type} [NormedAddCommGroup V] [InnerProductSpace ℝ V] [NormedAddCommGroup W]
    [InnerProductSpace ℝ W] (T : V → W) (Tadj : W → V) (hadd : ∀ x y, T (x + y) = T x + T y)
    (hadj : ∀ w x, inner ℝ (Tadj w) x = inner ℝ w (T x)) (L : ℝ) (hL : 0 ≤ L) (hbd : ∀ a, ‖T a‖ ≤ L * ‖a‖) :
    Continuous T ∧ Continuous Tadj := by
  have hsub := sub_of_add T hadd
  have hadjsub : ∀ w w', Tadj (w - w') = Tadj w - Tadj w' := by
    intro w w'
    have : Tadj (w - w') - (Tadj w - Tadj w') = 0 := by
      rw [← inner_self_eq_zero (𝕜 := ℝ)]
      rw [inner_sub_left, inner_sub_left, hadj, hadj, hadj, inner_sub_left]
      ring
    exact sub_eq_zero.1 this
  have hadjbd : ∀ w, ‖Tadj w‖ ≤ L * ‖w‖ := by
    intro w
    have h1 : ‖Tadj w‖ ^ 2 = inner ℝ w (T (Tadj w)) := by rw [← real_inner_self_eq_norm_sq, hadj]
    have h2 := real_inner_le_norm w (T (Tadj w))
    have h3 := hbd (Tadj w)
    have h0 : 0 ≤ ‖Tadj w‖ := norm_nonneg _
    have hw0 : 0 ≤ ‖w‖ := norm_nonneg _
    by_cases hz : ‖Tadj w‖ = 0
    · rw [hz]; positivity
    · have hpos : 0 < ‖Tadj w‖ := lt_of_le_of_ne h0 (Ne.symm hz)
      have : ‖Tadj w‖ * ‖Tadj w‖ ≤ (L * ‖w‖) * ‖Tadj w‖ := by
        have := mul_le_mul_of_nonneg_left h3 hw0
        nlinarith
      exact le_of_mul_le_mul_right this hpos
  constructor
  · apply LipschitzWith.continuous (K := ⟨L, hL⟩)
    apply LipschitzWith.of_dist_le_mul
    intro u v
    rw [dist_eq_norm, dist_eq_norm, ← hsub]
    exact hbd _
  · apply LipschitzWith.continuous (K := ⟨L, hL⟩)
    apply LipschitzWith.of_dist_le_mul
    intro u v
    rw [dist_eq_norm, dist_eq_norm, ← hadjsub]
    exact hadjbd _

theorem prox_continuous {V : Type} [NormedAddCommGroup V] [InnerProductSpace ℝ V] {F : Fn V} {prox : ℝ → V → V}
    (hp : IsProx F prox) {lam : ℝ} (hl : 0 < lam) : Continuous (prox lam) := by
  apply LipschitzWith.continuous (K := 1)
  apply LipschitzWith.of_dist_le_mul
  intro u v
  rw [dist_eq_norm, dist_eq_norm, NNReal.coe_one, one_mul]
  exact hp.nonexpansive hl u v

theorem padmmT_continuous {p : PADMMParams ℝ X Z U} {F : Fn X} {G : Fn Z} {La Lb : ℝ} (H : PADMMConvHyp p F G La Lb) :
    Continuous (padmmT p) := by
  obtain ⟨hA, hAH⟩ := lin_continuous p.A p.AH H.addA H.adjA La H.La0 H.bdA
  obtain ⟨hB, hBH⟩ := lin_continuous p.B p.BH H.addB H.adjB Lb H.Lb0 H.bdB
  have hpf : Continuous (p.proxf (p.rho⁻¹ * p.mu⁻¹)) :=
    prox_continuous H.proxf (by have := H.rho; have := H.mu; positivity)
  have hpg : Continuous (p.proxg (p.rho⁻¹ * p.nu⁻¹)) :=
    prox_continuous H.proxg (by have := H.rho; have := H.nu; positivity)
  have hxn : Continuous (padmmXn p) := by unfold padmmXn; fun_prop
  have hzn : Continuous (padmmZn p) := by unfold padmmZn; fun_prop
  unfold padmmT
  fun_prop

/-- fixed points of the iteration are exactly the KKT points -/
theorem padmmT_fixed_iff {p : PADMMParams ℝ X Z U} {F : Fn X} {G : Fn Z} {La Lb : ℝ} (H : PADMMConvHyp p F G La Lb)
    (w : X × Z × Z × U) : padmmT p w = w ↔ IsPKKT p F G w := by
  have hrho := H.rho
  have hmu := H.mu
  have hnu := H.nu
  constructor
  · intro h
    have h1 : padmmXn p w = w.1 := congrArg Prod.fst h
    have h2 : padmmZn p w = w.2.1 := congrArg (fun t => t.2.1) h
    have h3 : w.2.1 = w.2.2.1 := congrArg (fun t => t.2.2.1) h
    have h4 : w.2.2.2 + p.A (padmmXn p w) + p.B (padmmZn p w) - p.c = w.2.2.2 := congrArg (fun t => t.2.2.2) h
    rw [h1, h2] at h4
    have hfeas : p.A w.1 + p.B w.2.1 - p.c = 0 := by
      have e : w.2.2.2 + p.A w.1 + p.B w.2.1 - p.c = w.2.2.2 + (p.A w.1 + p.B w.2.1 - p.c) := by abel
      rw [e] at h4
      exact add_eq_left.1 h4
    refine ⟨h3.symm, sub_eq_zero.1 hfeas, ?_, ?_⟩
    · apply H.proxf.subgrad_of_fixed (by positivity : 0 < p.rho⁻¹ * p.mu⁻¹)
      unfold padmmXn at h1
      rw [hfeas, sub_zero] at h1
      have e2 : (2 : ℝ) • w.2.2.2 - w.2.2.2 = w.2.2.2 := by rw [two_smul]; abel
      rw [e2] at h1
      have e : w.1 + (p.rho⁻¹ * p.mu⁻¹) • -(p.rho • p.AH w.2.2.2) = w.1 - p.mu⁻¹ • p.AH w.2.2.2 := by
        rw [smul_neg, smul_smul, ← sub_eq_add_neg]
        congr 2
        field_simp
      rw [e]; exact h1
    · apply H.proxg.subgrad_of_fixed (by positivity : 0 < p.rho⁻¹ * p.nu⁻¹)
      unfold padmmZn at h2
      rw [h1] at h2
      have e0 : p.A w.1 + p.B w.2.1 - p.c + w.2.2.2 = w.2.2.2 := by rw [hfeas, zero_add]
      rw [e0] at h2
      have e : w.2.1 + (p.rho⁻¹ * p.nu⁻¹) • -(p.rho • p.BH w.2.2.2) = w.2.1 - p.nu⁻¹ • p.BH w.2.2.2 := by
        rw [smul_neg, smul_smul, ← sub_eq_add_neg]
        congr 2
        field_simp
      rw [e]; exact h2
  · intro hw
    obtain ⟨hzo, hfeas, hx, hz⟩ := hw
    have hf := padmm_fixed p F G H.proxf H.proxg hrho hmu hnu w.1 w.2.1 w.2.2.2 hfeas hx hz
    have hq : padmmOfQuad p w = { x := w.1, z := w.2.1, zOld := w.2.1, u := w.2.2.2, uOld := w.2.2.2 } := by
      unfold padmmOfQuad
      rw [hfeas, sub_self, sub_zero, hzo]
    rw [padmmT_eq, hq, hf]
    simp only [PADMMState.quad]
    obtain ⟨a, b, d, e⟩ := w
    simp only at hzo ⊢
    rw [hzo]

/-- the Fejér metric: `Ψ` of `StepsProxADMM` between two quadruples -/
noncomputable def padmmD (p : PADMMParams ℝ X Z U) (w w' : X × Z × Z × U) : ℝ :=
  p.rho * ‖w.2.2.2 - w'.2.2.2‖ ^ 2 + p.rho * (p.mu * ‖w.1 - w'.1‖ ^ 2 - ‖p.A (w.1 - w'.1)‖ ^ 2)
    + p.rho * p.nu * ‖w.2.1 - w'.2.1‖ ^ 2
    + p.rho * (p.nu * ‖(w.2.1 - w.2.2.1) - (w'.2.1 - w'.2.2.1)‖ ^ 2 - ‖p.B ((w.2.1 - w.2.2.1) - (w'.2.1 - w'.2.2.1))‖ ^ 2)

theorem quad_norm_sq_le (a : X) (b d : Z) (e : U) :
    ‖((a, b, d, e) : X × Z × Z × U)‖ ^ 2 ≤ ‖a‖ ^ 2 + ‖b‖ ^ 2 + ‖d‖ ^ 2 + ‖e‖ ^ 2 := by
  have h1 := prod_norm_sq_le' a ((b, d, e) : Z × Z × U)
  have h2 := prod_norm_sq_le' b ((d, e) : Z × U)
  have h3 := prod_norm_sq_le' d e
  linarith

theorem norm_sq_sub_le (a b : Z) : ‖a - b‖ ^ 2 ≤ 2 * ‖a‖ ^ 2 + 2 * ‖b‖ ^ 2 := by
  have h := norm_sub_le a b
  have h0 : 0 ≤ ‖a - b‖ := norm_nonneg _
  have := pow_le_pow_left₀ h0 h 2
  nlinarith [sq_nonneg (‖a‖ - ‖b‖)]

/-- ProximalADMM, merely convex problem, finite-dimensional variables, `μ > ‖A‖²`, `ν > ‖B‖²`: if a KKT point exists, the
    iterates converge from EVERY start to a KKT point -/
theorem padmm_converges_findim {p : PADMMParams ℝ X Z U} {F : Fn X} {G : Fn Z} {La Lb : ℝ}
    (H : PADMMConvHyp p F G La Lb) (hk : ∃ w, IsPKKT p F G w) (s : PADMMState X Z U) :
    ∃ wb : X × Z × Z × U, IsPKKT p F G wb ∧
      Filter.Tendsto (fun k => (iter (padmmSpecStep p) k s).quad) Filter.atTop (nhds wb) := by
  have hrho := H.rho
  have hmu := H.mu
  have hnu := H.nu
  set gapA := p.mu - La ^ 2 with hgA
  set gapB := p.nu - Lb ^ 2 with hgB
  have hgAp : 0 < gapA := by rw [hgA]; linarith [H.strictA]
  have hgBp : 0 < gapB := by rw [hgB]; linarith [H.strictB]
  set m0 := min (min 1 gapA) (min (p.nu / 3) (gapB / 2)) with hm0
  have hm0p : 0 < m0 := lt_min (lt_min one_pos hgAp) (lt_min (by positivity) (by positivity))
  have hm1 : m0 ≤ 1 := le_trans (min_le_left _ _) (min_le_left _ _)
  have hm2 : m0 ≤ gapA := le_trans (min_le_left _ _) (min_le_right _ _)
  have hm3 : m0 ≤ p.nu / 3 := le_trans (min_le_right _ _) (min_le_left _ _)
  have hm4 : m0 ≤ gapB / 2 := le_trans (min_le_right _ _) (min_le_right _ _)
  set c := p.rho * m0 with hcdef
  set Cc := p.rho * (1 + p.mu + 5 * p.nu) with hCc
  have hc : 0 < c := by positivity
  -- vector-level bounds
  have hlowV : ∀ (dx : X) (dz dzo : Z) (du : U), c * (‖dx‖ ^ 2 + ‖dz‖ ^ 2 + ‖dzo‖ ^ 2 + ‖du‖ ^ 2)
      ≤ p.rho * ‖du‖ ^ 2 + p.rho * (p.mu * ‖dx‖ ^ 2 - ‖p.A dx‖ ^ 2) + p.rho * p.nu * ‖dz‖ ^ 2
        + p.rho * (p.nu * ‖dz - dzo‖ ^ 2 - ‖p.B (dz - dzo)‖ ^ 2) := by
    intro dx dz dzo du
    have hA := H.sqA dx
    have hB := H.sqB (dz - dzo)
    have e : dzo = dz - (dz - dzo) := by abel
    have hzo : ‖dzo‖ ^ 2 ≤ 2 * ‖dz‖ ^ 2 + 2 * ‖dz - dzo‖ ^ 2 := by
      conv_lhs => rw [e]
      exact norm_sq_sub_le dz (dz - dzo)
    have n1 : 0 ≤ ‖dx‖ ^ 2 := by positivity
    have n2 : 0 ≤ ‖dz‖ ^ 2 := by positivity
    have n3 : 0 ≤ ‖dz - dzo‖ ^ 2 := by positivity
    have n4 : 0 ≤ ‖du‖ ^ 2 := by positivity
    -- m0 (dx² + 3 dz² + 2 d² + du²) ≤ du² + gapA dx² + ν dz² + gapB d²
    have k1 : m0 * ‖dx‖ ^ 2 ≤ gapA * ‖dx‖ ^ 2 := mul_le_mul_of_nonneg_right hm2 n1
    have k2 : m0 * ‖du‖ ^ 2 ≤ 1 * ‖du‖ ^ 2 := mul_le_mul_of_nonneg_right hm1 n4
    have k3 : m0 * ‖dz‖ ^ 2 ≤ p.nu / 3 * ‖dz‖ ^ 2 := mul_le_mul_of_nonneg_right hm3 n2
    have k4 : m0 * ‖dz - dzo‖ ^ 2 ≤ gapB / 2 * ‖dz - dzo‖ ^ 2 := mul_le_mul_of_nonneg_right hm4 n3
    have k5 : m0 * ‖dzo‖ ^ 2 ≤ m0 * (2 * ‖dz‖ ^ 2 + 2 * ‖dz - dzo‖ ^ 2) := mul_le_mul_of_nonneg_left hzo hm0p.le
    have inner : m0 * (‖dx‖ ^ 2 + ‖dz‖ ^ 2 + ‖dzo‖ ^ 2 + ‖du‖ ^ 2)
        ≤ ‖du‖ ^ 2 + (p.mu * ‖dx‖ ^ 2 - ‖p.A dx‖ ^ 2) + p.nu * ‖dz‖ ^ 2
          + (p.nu * ‖dz - dzo‖ ^ 2 - ‖p.B (dz - dzo)‖ ^ 2) := by
      rw [hgA] at k1
      rw [hgB] at k4
      nlinarith
    have := mul_le_mul_of_nonneg_left inner hrho.le
    rw [hcdef]
    nlinarith
  have hupV : ∀ (dx : X) (dz dzo : Z) (du : U) (n : ℝ), ‖dx‖ ≤ n → ‖dz‖ ≤ n → ‖dzo‖ ≤ n → ‖du‖ ≤ n →
      p.rho * ‖du‖ ^ 2 + p.rho * (p.mu * ‖dx‖ ^ 2 - ‖p.A dx‖ ^ 2) + p.rho * p.nu * ‖dz‖ ^ 2
        + p.rho * (p.nu * ‖dz - dzo‖ ^ 2 - ‖p.B (dz - dzo)‖ ^ 2) ≤ Cc * n ^ 2 := by
    intro dx dz dzo du n h1 h2 h3 h4
    have s1 : ‖dx‖ ^ 2 ≤ n ^ 2 := pow_le_pow_left₀ (norm_nonneg _) h1 2
    have s2 : ‖dz‖ ^ 2 ≤ n ^ 2 := pow_le_pow_left₀ (norm_nonneg _) h2 2
    have s3 : ‖dzo‖ ^ 2 ≤ n ^ 2 := pow_le_pow_left₀ (norm_nonneg _) h3 2
    have s4 : ‖du‖ ^ 2 ≤ n ^ 2 := pow_le_pow_left₀ (norm_nonneg _) h4 2
    have hd := norm_sq_sub_le dz dzo
    have nA : 0 ≤ ‖p.A dx‖ ^ 2 := by positivity
    have nB : 0 ≤ ‖p.B (dz - dzo)‖ ^ 2 := by positivity
    have inner : ‖du‖ ^ 2 + (p.mu * ‖dx‖ ^ 2 - ‖p.A dx‖ ^ 2) + p.nu * ‖dz‖ ^ 2
        + (p.nu * ‖dz - dzo‖ ^ 2 - ‖p.B (dz - dzo)‖ ^ 2) ≤ (1 + p.mu + 5 * p.nu) * n ^ 2 := by
      have a1 := mul_le_mul_of_nonneg_left s1 hmu.le
      have a2 := mul_le_mul_of_nonneg_left s2 hnu.le
      have a3 := mul_le_mul_of_nonneg_left hd hnu.le
      have a4 := mul_le_mul_of_nonneg_left s3 hnu.le
      nlinarith
    have := mul_le_mul_of_nonneg_left inner hrho.le
    rw [hCc]
    nlinarith
  have hlow : ∀ a b : X × Z × Z × U, c * ‖a - b‖ ^ 2 ≤ padmmD p a b := by
    intro a b
    have h2 := quad_norm_sq_le (a.1 - b.1) (a.2.1 - b.2.1) (a.2.2.1 - b.2.2.1) (a.2.2.2 - b.2.2.2)
    have e : ‖a - b‖ = ‖((a.1 - b.1, a.2.1 - b.2.1, a.2.2.1 - b.2.2.1, a.2.2.2 - b.2.2.2) : X × Z × Z × U)‖ := rfl
    rw [e]
    have h3 := hlowV (a.1 - b.1) (a.2.1 - b.2.1) (a.2.2.1 - b.2.2.1) (a.2.2.2 - b.2.2.2)
    have ed : a.2.1 - b.2.1 - (a.2.2.1 - b.2.2.1) = (a.2.1 - a.2.2.1) - (b.2.1 - b.2.2.1) := by abel
    rw [ed] at h3
    have := mul_le_mul_of_nonneg_left h2 hc.le
    unfold padmmD
    linarith
  have hup : ∀ a b : X × Z × Z × U, padmmD p a b ≤ Cc * ‖a - b‖ ^ 2 := by
    intro a b
    have hn1 : ‖a.1 - b.1‖ ≤ ‖a - b‖ := norm_fst_le (a - b)
    have hn2 : ‖a.2.1 - b.2.1‖ ≤ ‖a - b‖ := le_trans (norm_fst_le (a - b).2) (norm_snd_le (a - b))
    have hn3 : ‖a.2.2.1 - b.2.2.1‖ ≤ ‖a - b‖ :=
      le_trans (norm_fst_le (a - b).2.2) (le_trans (norm_snd_le (a - b).2) (norm_snd_le (a - b)))
    have hn4 : ‖a.2.2.2 - b.2.2.2‖ ≤ ‖a - b‖ :=
      le_trans (norm_snd_le (a - b).2.2) (le_trans (norm_snd_le (a - b).2) (norm_snd_le (a - b)))
    have h3 := hupV (a.1 - b.1) (a.2.1 - b.2.1) (a.2.2.1 - b.2.2.1) (a.2.2.2 - b.2.2.2) ‖a - b‖ hn1 hn2 hn3 hn4
    have ed : a.2.1 - b.2.1 - (a.2.2.1 - b.2.2.1) = (a.2.1 - a.2.2.1) - (b.2.1 - b.2.2.1) := by abel
    rw [ed] at h3
    unfold padmmD
    linarith
  -- the orbit from the first iterate satisfies the invariant
  set s1 := padmmSpecStep p s with hs1
  have hI1 := padmm_inv_step p G hrho hnu H.proxg s
  have hfix : ∃ ws, padmmT p ws = ws := by
    obtain ⟨w, hw⟩ := hk; exact ⟨w, (padmmT_fixed_iff H w).2 hw⟩
  have hPD : ∀ (ws : X × Z × Z × U), IsPKKT p F G ws → ∀ st : PADMMState X Z U,
      padmmPsi p ws.1 ws.2.1 ws.2.2.2 st = padmmD p st.quad ws := by
    intro ws hws st
    unfold padmmPsi padmmD PADMMState.quad
    simp only
    rw [hws.1, sub_self, sub_zero]
  have hit := fun k => padmmT_iter p k s1 hI1.i1
  have hfejer : ∀ ws, padmmT p ws = ws → ∀ k,
      padmmD p (iter (padmmT p) (k + 1) s1.quad) ws ≤ padmmD p (iter (padmmT p) k s1.quad) ws := by
    intro ws hws k
    have hw := (padmmT_fixed_iff H ws).1 hws
    have := padmm_lyapunov_mono p F G ws.1 ws.2.1 ws.2.2.2 (H.hyp hw) s1 hI1 k
    rw [hPD ws hw, hPD ws hw, hit, hit] at this
    exact this
  have hreg : Filter.Tendsto (fun k => ‖iter (padmmT p) k s1.quad - padmmT p (iter (padmmT p) k s1.quad)‖)
      Filter.atTop (nhds 0) := by
    obtain ⟨ws, hws⟩ := hk
    have Hh := H.hyp hws
    have hD : Filter.Tendsto (fun k => padmmDiss p (iter (padmmSpecStep p) k s1) (iter (padmmSpecStep p) (k + 1) s1))
        Filter.atTop (nhds 0) := by
      apply tendsto_zero_of_partial_sums_le (c := padmmPsi p ws.1 ws.2.1 ws.2.2.2 s1)
      · intro n; exact padmmDiss_nonneg p F G _ _ _ Hh _ _
      · intro n
        have := padmm_lyapunov_sum p F G _ _ _ Hh s1 hI1 n
        have := padmmPsi_nonneg p F G _ _ _ Hh (iter (padmmSpecStep p) n s1)
        linarith
    -- ‖z_k − zOld_k‖² → 0 (the previous increment)
    have hzo : Filter.Tendsto (fun k => ‖(iter (padmmSpecStep p) k s1).z - (iter (padmmSpecStep p) k s1).zOld‖ ^ 2)
        Filter.atTop (nhds 0) := by
      rw [← Filter.tendsto_add_atTop_iff_nat 1]
      have hb := hD.const_mul (1 / (p.rho * p.nu))
      rw [mul_zero] at hb
      refine squeeze_zero (fun k => by positivity) (fun k => ?_) hb
      have e : (iter (padmmSpecStep p) (k + 1) s1).zOld = (iter (padmmSpecStep p) k s1).z := by rw [iter_succ']; rfl
      rw [e]
      have hl := padmmDiss_lower p F G _ _ _ Hh (iter (padmmSpecStep p) k s1) (iter (padmmSpecStep p) (k + 1) s1)
      have t4 : 0 ≤ p.rho * ‖(iter (padmmSpecStep p) (k + 1) s1).u - (iter (padmmSpecStep p) k s1).u‖ ^ 2 := by positivity
      have hrn : 0 < p.rho * p.nu := by positivity
      rw [one_div, inv_mul_eq_div, le_div_iff₀ hrn]
      linarith
    have hb := (hD.const_mul (1 / c)).add hzo
    rw [mul_zero, add_zero] at hb
    refine tendsto_zero_of_sq_le (fun k => norm_nonneg _) (fun k => ?_) hb
    rw [← iter_succ' (padmmT p) k s1.quad, ← hit, ← hit]
    set A := iter (padmmSpecStep p) k s1
    set B := iter (padmmSpecStep p) (k + 1) s1
    have hBz : B.zOld = A.z := by
      show (iter (padmmSpecStep p) (k + 1) s1).zOld = _
      rw [iter_succ']; rfl
    have e : A.quad - B.quad = ((A.x - B.x, A.z - B.z, A.zOld - B.zOld, A.u - B.u) : X × Z × Z × U) := rfl
    rw [e, hBz]
    have h2 := quad_norm_sq_le (A.x - B.x) (A.z - B.z) (A.zOld - A.z) (A.u - B.u)
    -- diss ≥ c (|dx|² + |dz|² + |du|²)
    have hdiss : c * (‖B.x - A.x‖ ^ 2 + ‖B.z - A.z‖ ^ 2 + ‖B.u - A.u‖ ^ 2) ≤ padmmDiss p A B := by
      unfold padmmDiss
      have hA := H.sqA (B.x - A.x)
      have n1 : 0 ≤ ‖B.x - A.x‖ ^ 2 := by positivity
      have n2 : 0 ≤ ‖B.z - A.z‖ ^ 2 := by positivity
      have n4 : 0 ≤ ‖B.u - A.u‖ ^ 2 := by positivity
      have k1 : m0 * ‖B.x - A.x‖ ^ 2 ≤ gapA * ‖B.x - A.x‖ ^ 2 := mul_le_mul_of_nonneg_right hm2 n1
      have k2 : m0 * ‖B.u - A.u‖ ^ 2 ≤ 1 * ‖B.u - A.u‖ ^ 2 := mul_le_mul_of_nonneg_right hm1 n4
      have k3 : m0 * ‖B.z - A.z‖ ^ 2 ≤ p.nu * ‖B.z - A.z‖ ^ 2 :=
        mul_le_mul_of_nonneg_right (le_trans hm3 (by linarith)) n2
      have inner : m0 * (‖B.x - A.x‖ ^ 2 + ‖B.z - A.z‖ ^ 2 + ‖B.u - A.u‖ ^ 2)
          ≤ (p.mu * ‖B.x - A.x‖ ^ 2 - ‖p.A (B.x - A.x)‖ ^ 2) + p.nu * ‖B.z - A.z‖ ^ 2 + ‖B.u - A.u‖ ^ 2 := by
        rw [hgA] at k1
        nlinarith
      have := mul_le_mul_of_nonneg_left inner hrho.le
      rw [hcdef]
      nlinarith
    have e1 : ‖A.x - B.x‖ = ‖B.x - A.x‖ := norm_sub_rev _ _
    have e2 : ‖A.z - B.z‖ = ‖B.z - A.z‖ := norm_sub_rev _ _
    have e3 : ‖A.u - B.u‖ = ‖B.u - A.u‖ := norm_sub_rev _ _
    have e4 : ‖A.zOld - A.z‖ = ‖A.z - A.zOld‖ := norm_sub_rev _ _
    rw [e1, e2, e3, e4] at h2
    have hdc : ‖B.x - A.x‖ ^ 2 + ‖B.z - A.z‖ ^ 2 + ‖B.u - A.u‖ ^ 2 ≤ 1 / c * padmmDiss p A B := by
      rw [one_div, inv_mul_eq_div, le_div_iff₀ hc]
      linarith
    linarith
  obtain ⟨wb, hwb, hlim⟩ := fejer_converges (padmmT p) (padmmT_continuous H) (padmmD p) c Cc hc hlow hup s1.quad hfix hfejer hreg
  refine ⟨wb, (padmmT_fixed_iff H wb).1 hwb, ?_⟩
  rw [← Filter.tendsto_add_atTop_iff_nat 1]
  refine hlim.congr (fun k => ?_)
  rw [← hit]
  rfl

end Scico.Steps
