/-
  Stacks of operator EXPRESSIONS: `VerticalStack([e₁ … e_N])`, `DiagonalStack([e₁ … e_N])` denote the
  vertical concatenation / block-diagonal matrix of the matrices `den e_k` (specification stated on
  the expressions alone, through `dims`).
-/
import Scico.Proofs.OpAlgMain
import Scico.Proofs.OpAlgStack

namespace Scico.OpAlg
open Scico.DType
attribute [local instance] starConj
set_option linter.unusedSectionVars false

section
variable {K : Type} [Field K] [StarRing K] [HasRe K]

/-- SPECIFICATION: `[den e₁; …; den e_N]` -/
def vcatDen : List (LExpr K) → Mx K
  | [] => fun _ _ => 0
  | e :: es => fun i j => if i < (dims e).1 then den e i j else vcatDen es (i - (dims e).1) j

/-- SPECIFICATION: `diag(den e₁, …, den e_N)` -/
def bdiagDen : List (LExpr K) → Mx K
  | [] => fun _ _ => 0
  | e :: es => fun i j =>
    if i < (dims e).1 then (if j < (dims e).2 then den e i j else 0)
    else (if j < (dims e).2 then 0 else bdiagDen es (i - (dims e).1) (j - (dims e).2))

def rowsOf : List (LExpr K) → Nat
  | [] => 0
  | e :: es => (dims e).1 + rowsOf es

def colsOf : List (LExpr K) → Nat
  | [] => 0
  | e :: es => (dims e).2 + colsOf es

/-- every operand is inside the regime of `build_sound` -/
def AllIn (es : List (LExpr K)) : Prop :=
  ∀ e ∈ es, Lin e ∧ PlainDiagProducts e ∧ (RealK K ∨ AllC e)

theorem buildAll_sound : ∀ (es : List (LExpr K)) (os : List (Obj K)), AllIn es →
    buildAll Cfg.fixed es = .ok os →
    AllSound os (es.map den) ∧ vcatMx os (es.map den) = vcatDen es
      ∧ bdiagMx os (es.map den) = bdiagDen es ∧ sumM os = rowsOf es ∧ sumN os = colsOf es
      ∧ os.length = es.length := by
  intro es
  induction es with
  | nil =>
    intro os _ h
    simp only [buildAll] at h
    injection h with h; subst h
    exact ⟨.nil, rfl, rfl, rfl, rfl, rfl⟩
  | cons e es ih =>
    intro os hin h
    simp only [buildAll] at h
    obtain ⟨o, ho, h⟩ := bind_ok h
    obtain ⟨os', hos, h⟩ := bind_ok h
    simp only [pure, Except.pure] at h
    injection h with h; subst h
    obtain ⟨hl, hp, hK⟩ := hin e (by simp)
    obtain ⟨hS, hm, hn⟩ := build_sound e o hl hp hK ho
    obtain ⟨hA, hv, hd, hsm, hsn, hlen⟩ := ih os' (fun e' he' => hin e' (by simp [he'])) hos
    refine ⟨.cons hS hA, ?_, ?_, ?_, ?_, ?_⟩
    · funext i j
      simp only [List.map_cons, vcatMx, vcatDen, hm, hv]
    · funext i j
      simp only [List.map_cons, bdiagMx, bdiagDen, hm, hn, hd]
    · simp only [sumM, rowsOf, hm, hsm]
    · simp only [sumN, colsOf, hn, hsn]
    · simp [hlen]

theorem cols_common : ∀ (es : List (LExpr K)) (os : List (Obj K)) (n : Nat), AllIn es →
    buildAll Cfg.fixed es = .ok os → (∀ o' ∈ os, o'.n = n) → ∀ e ∈ es, (dims e).2 = n := by
  intro es
  induction es with
  | nil => intro _ _ _ _ _ e he; cases he
  | cons e es ih =>
    intro os n hin hos hn
    simp only [buildAll] at hos
    obtain ⟨o1, ho1, hos⟩ := bind_ok hos
    obtain ⟨os', hos', hos⟩ := bind_ok hos
    simp only [pure, Except.pure] at hos
    injection hos with hos; subst hos
    obtain ⟨hl, hp, hK⟩ := hin e (by simp)
    obtain ⟨_, _, hn1⟩ := build_sound e o1 hl hp hK ho1
    intro e' he'
    rcases List.mem_cons.mp he' with h' | h'
    · subst h'; rw [← hn1]; exact hn o1 (by simp)
    · exact ih os' n (fun e'' he'' => hin e'' (by simp [he''])) hos'
        (fun o' ho' => hn o' (by simp [ho'])) e' h'

/-- **VerticalStack of expressions.** -/
theorem buildVStack_sound (es : List (LExpr K)) (collapse : Bool) (o : Obj K) (hin : AllIn es)
    (h : buildVStack true es collapse = .ok o) :
    Sound o (vcatDen es) ∧ o.m = rowsOf es ∧ (∀ e ∈ es, (dims e).2 = o.n) := by
  unfold buildVStack at h
  obtain ⟨os, hos, h⟩ := bind_ok h
  obtain ⟨hA, hv, _, hsm, _, _⟩ := buildAll_sound es os hin hos
  obtain ⟨hS, hm, hn, _⟩ := vstack_sound collapse hA h
  rw [hv] at hS
  exact ⟨hS, by rw [hm, hsm], cols_common es os o.n hin hos hn⟩

/-- **DiagonalStack of expressions.** -/
theorem buildDStack_sound (es : List (LExpr K)) (cIn cOut : Bool) (o : Obj K) (hin : AllIn es)
    (h : buildDStack true es cIn cOut = .ok o) :
    Sound o (bdiagDen es) ∧ o.m = rowsOf es ∧ o.n = colsOf es := by
  unfold buildDStack at h
  obtain ⟨os, hos, h⟩ := bind_ok h
  obtain ⟨hA, _, hd, hsm, hsn, _⟩ := buildAll_sound es os hin hos
  obtain ⟨hS, hm, hn⟩ := dstack_sound cIn cOut hA h
  rw [hd] at hS
  exact ⟨hS, by rw [hm, hsm], by rw [hn, hsn]⟩

end
end Scico.OpAlg
