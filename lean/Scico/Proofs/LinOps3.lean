/-
  Helper lemmas for `Scico.Model.LinOps`, part 3: DFT (shape bookkeeping, inversion), frequency grid.
-/
import Scico.Proofs.LinOps
import Mathlib.Algebra.Field.GeomSum
import Mathlib.RingTheory.RootsOfUnity.PrimitiveRoots
import Mathlib.Tactic.FieldSimp

namespace Scico.LinOps
open Finset

/-! ### 1-d DFT and its inverse over a field with a primitive root of unity -/
section DFT
variable {K : Type} [Field K]

theorem npow_eq_pow (a : K) (e : Nat) : dftEval.npow a e = a ^ e := by
  induction e with
  | zero => simp [dftEval.npow]
  | succ e ih => simp [dftEval.npow, ih, pow_succ]

/-- orthogonality of the characters of `ℤ/n` -/
theorem root_orthogonality {ζ : K} {n : Nat} (hζ : IsPrimitiveRoot ζ n) (a b : Nat) (ha : a < n) (hb : b < n) :
    ∑ k ∈ range n, ζ ^ (a * k) * ζ⁻¹ ^ (b * k) = if a = b then (n : K) else 0 := by
  have hn : 0 < n := by omega
  have hζ0 : ζ ≠ 0 := hζ.ne_zero (by omega)
  have hterm : ∀ k, ζ ^ (a * k) * ζ⁻¹ ^ (b * k) = (ζ ^ a * ζ⁻¹ ^ b) ^ k := by
    intro k; rw [mul_pow, ← pow_mul, ← pow_mul]
  simp only [hterm]
  split
  · rename_i hab
    subst hab
    have : ζ ^ a * ζ⁻¹ ^ a = 1 := by rw [← mul_pow, mul_inv_cancel₀ hζ0, one_pow]
    simp only [this, one_pow, sum_const, card_range, nsmul_eq_mul, mul_one]
  · rename_i hab
    have hr1 : ζ ^ a * ζ⁻¹ ^ b ≠ 1 := by
      intro h
      rw [inv_pow, mul_inv_eq_one₀ (pow_ne_zero _ hζ0)] at h
      rcases Nat.lt_or_gt_of_ne hab with hlt | hgt
      · have h2 : ζ ^ (b - a) = 1 := by
          have : ζ ^ b = ζ ^ a * ζ ^ (b - a) := by rw [← pow_add]; congr 1; omega
          rw [this] at h
          have h3 := mul_left_cancel₀ (pow_ne_zero a hζ0) (by rw [mul_one]; exact h : ζ ^ a * 1 = ζ ^ a * ζ ^ (b - a))
          exact h3.symm
        exact hζ.pow_ne_one_of_pos_of_lt (by omega) (by omega) h2
      · have h2 : ζ ^ (a - b) = 1 := by
          have : ζ ^ a = ζ ^ b * ζ ^ (a - b) := by rw [← pow_add]; congr 1; omega
          rw [this] at h
          have h3 := mul_left_cancel₀ (pow_ne_zero b hζ0) (by rw [mul_one]; exact h : ζ ^ b * ζ ^ (a - b) = ζ ^ b * 1)
          exact h3
        exact hζ.pow_ne_one_of_pos_of_lt (by omega) (by omega) h2
    have hrn : (ζ ^ a * ζ⁻¹ ^ b) ^ n = 1 := by
      rw [mul_pow, ← pow_mul, ← pow_mul, Nat.mul_comm a n, Nat.mul_comm b n, pow_mul, pow_mul, inv_pow, hζ.pow_eq_one]
      simp
    rw [geom_sum_eq hr1, hrn, sub_self, zero_div]

/-- the `m`-point inverse applied to the `m`-point transform of the (cropped / zero-padded) input
    returns that cropped / zero-padded input -/
theorem dft_invCrop {ζ : K} {m : Nat} (hζ : IsPrimitiveRoot ζ m) (s s' : K) (hs : s * s' * (m : K) = 1)
    (n : Nat) (x : V K) (j : Nat) (hj : j < m) :
    dftInvCropEval ζ⁻¹ s' m (dftEval ζ s n m x) j = if j < n then x j else 0 := by
  unfold dftInvCropEval dftEval
  simp only [sumTo_eq_sum, npow_eq_pow]
  have e : ∀ k ∈ range m, (s * ∑ i ∈ range m, (if i < n then x i else 0) * ζ ^ (i * k)) * ζ⁻¹ ^ (j * k)
      = ∑ i ∈ range m, s * (if i < n then x i else 0) * (ζ ^ (i * k) * ζ⁻¹ ^ (j * k)) := by
    intro k _
    rw [mul_sum, sum_mul]
    exact sum_congr rfl (fun i _ => by ring)
  rw [sum_congr rfl e, sum_comm]
  have e2 : ∀ i ∈ range m, ∑ k ∈ range m, s * (if i < n then x i else 0) * (ζ ^ (i * k) * ζ⁻¹ ^ (j * k))
      = s * (if i < n then x i else 0) * (if i = j then (m : K) else 0) := by
    intro i hi
    rw [← mul_sum, root_orthogonality hζ i j (mem_range.mp hi) hj]
  rw [sum_congr rfl e2, sum_eq_single_of_mem j (mem_range.mpr hj)]
  · simp only [if_true]
    calc s' * (s * (if j < n then x j else 0) * (m : K)) = (s * s' * (m : K)) * (if j < n then x j else 0) := by ring
      _ = _ := by rw [hs, one_mul]
  · intro i _ hne
    simp [hne]

/-- with no cropping / padding (`m = n`) the coded inverse is the `n`-point inverse -/
theorem dftInv_eq_crop_of_eq (ω' s' : K) (n : Nat) (z : V K) (j : Nat) :
    dftInvEval ω' s' n n z j = dftInvCropEval ω' s' n z j := by
  unfold dftInvEval dftInvCropEval
  congr 1
  exact sumTo_congr (fun k hk => by simp [hk])

end DFT

/-! ### DFT constructor bookkeeping -/
section DFTShape

/-- successive `list[i] = v` assignments -/
def setMany (o : List Nat) (ps : List (Nat × Nat)) : List Nat := ps.foldl (fun o p => o.set p.1 p.2) o

theorem setMany_length (o : List Nat) (ps : List (Nat × Nat)) : (setMany o ps).length = o.length := by
  induction ps generalizing o with
  | nil => rfl
  | cons p ps ih => simp [setMany, List.foldl] at ih ⊢; rw [ih]; simp

theorem setMany_getElem?_of_not_mem (o : List Nat) (ps : List (Nat × Nat)) (i : Nat)
    (h : i ∉ ps.map (·.1)) : (setMany o ps)[i]? = o[i]? := by
  induction ps generalizing o with
  | nil => rfl
  | cons p ps ih =>
    simp only [List.map_cons, List.mem_cons, not_or] at h
    simp only [setMany, List.foldl_cons]
    have := ih (o.set p.1 p.2) h.2
    simp only [setMany] at this
    rw [this, List.getElem?_set_ne (Ne.symm h.1)]

theorem setMany_getElem?_of_mem (o : List Nat) (ps : List (Nat × Nat)) (hnd : (ps.map (·.1)).Nodup)
    (i v : Nat) (h : (i, v) ∈ ps) (hi : i < o.length) : (setMany o ps)[i]? = some v := by
  induction ps generalizing o with
  | nil => simp at h
  | cons p ps ih =>
    simp only [List.map_cons, List.nodup_cons] at hnd
    simp only [setMany, List.foldl_cons]
    rcases List.mem_cons.mp h with h1 | h1
    · subst h1
      have := setMany_getElem?_of_not_mem (o.set i v) ps i hnd.1
      simp only [setMany] at this
      rw [this]; simp [hi]
    · have := ih (o.set p.1 p.2) hnd.2 h1 (by simpa using hi)
      simpa [setMany] using this

/-- assigning to every listed position the value a fixed array has there gives back that array -/
theorem setMany_restore (base o : List Nat) (ax : List Nat) (hlen : o.length = base.length)
    (hrest : ∀ i, i ∉ ax → o[i]? = base[i]?) :
    setMany o (ax.zip (ax.map (fun i => base.getD i 0))) = base := by
  induction ax generalizing o with
  | nil =>
    simp only [List.map_nil, List.zip_nil_right, setMany, List.foldl_nil]
    exact List.ext_getElem? (fun i => hrest i (by simp))
  | cons a ax ih =>
    simp only [List.map_cons, List.zip_cons_cons, setMany, List.foldl_cons]
    apply ih
    · simpa using hlen
    · intro i hi
      by_cases hia : i = a
      · subst hia
        by_cases hlt : i < base.length
        · rw [List.getElem?_set_self (by omega)]
          simp [List.getD, hlt]
        · have h1 : o.length ≤ i := by omega
          rw [List.getElem?_eq_none (by simpa using h1), List.getElem?_eq_none (by omega)]
      · rw [List.getElem?_set_ne (Ne.symm hia)]
        exact hrest i (by simp [hia, hi])

end DFTShape

/-! ### frequency grid -/
section Freq
variable {K : Type} [Field K] [CharZero K]

/-- in the proofs naturals are embedded by `Nat.cast` -/
local instance instHasNatField : HasNat K := ⟨Nat.cast⟩

omit [CharZero K] in
theorem fftfreq_eq_signed (n : Nat) (hn : 0 < n) (d : K) (i : Nat) :
    fftfreq n d i = signedFreq n d i := by
  unfold fftfreq signedFreq
  simp only [HasNat.nat]
  have hN : (n - 1) / 2 + 1 + n / 2 = n := by omega
  by_cases h : i < (n - 1) / 2 + 1
  · have h2 : 2 * i < n := by omega
    simp [h, h2]
  · have h2 : ¬ 2 * i < n := by omega
    simp only [h, h2, if_false]
    congr 1
    have hle : (n - 1) / 2 + 1 ≤ i := by omega
    rw [Nat.cast_sub hle]
    have : ((n : Nat) : K) = (((n - 1) / 2 + 1 : Nat) : K) + ((n / 2 : Nat) : K) := by
      rw [← Nat.cast_add, hN]
    rw [this]; ring

omit [CharZero K] in
theorem kpSqPinned_eq_doc_transposed (n0 n1 : Nat) (d0 d1 : K) (a b : Nat) :
    kpSqPinned n0 n1 d0 d1 a b = kpSqDoc n0 n1 d0 d1 b a := by
  unfold kpSqPinned kpSqDoc; ring

omit [CharZero K] in
theorem kpSqPinned_eq_doc_square (n : Nat) (d : K) (a b : Nat) :
    kpSqPinned n n d d a b = kpSqDoc n n d d a b := by
  unfold kpSqPinned kpSqDoc; ring

end Freq

end Scico.LinOps
