/-
  PINNED source structure of the functions of scico/solver.py the `minimize` model transcribes (C18, round 4);
  see `Scico/Proofs/BlockSource.lean` for the mechanism.  Mathlib-free.
-/
import Scico.Proofs.BlockSource

namespace Scico.Wrap.Source

def pinned : List (String × List String) :=
  [
    -- model: ravel
    ("scico/solver.py:_ravel",
     ["def _ravel(x):",
      "  if isinstance(x, BlockArray):",
      "    return jnp.concatenate([jnp.ravel(blk) for blk in x])",
      "  return jnp.ravel(x)"]),
    -- model: cumsumFrom, splitIdx, reshape, mapO, unravel
    ("scico/solver.py:_unravel",
     ["def _unravel(x, shape):",
      "  if snp.util.is_nested(shape):",
      "    idx = np.cumsum([prod(s) for s in shape])[:-1]",
      "    return snp.blockarray([jnp.reshape(blk, s) for blk, s in zip(jnp.split(x, idx), shape)])",
      "  return jnp.reshape(x, shape)"]),
    -- model: objective, objectiveArgs (gradient-free path)
    ("scico/solver.py:_wrap_func",
     ["def _wrap_func(func, shape, dtype):",
      "  val_func = jax.jit(func)",
      "  @wraps(func)",
      "  def wrapper(x, *args):",
      "    val = val_func(_unravel(x, shape).astype(dtype), *args)",
      "    val = np.array(val).astype(float)",
      "    val = val.item() if val.ndim == 0 else val[0].item()",
      "    return val",
      "  return wrapper"]),
    -- model: objective, objectiveArgs; flat gradient = _ravel(grad) (C18_gradient_pairing)
    ("scico/solver.py:_wrap_func_and_grad",
     ["def _wrap_func_and_grad(func, shape, dtype):",
      "  val_grad_func = jax.jit(jax.value_and_grad(func, argnums=0))",
      "  @wraps(func)",
      "  def wrapper(x, *args):",
      "    val, grad = val_grad_func(_unravel(x, shape).astype(dtype), *args)",
      "    val = np.array(val).astype(float).item()",
      "    grad = np.array(_ravel(grad)).astype(float)",
      "    return (val, grad)",
      "  return wrapper"]),
    -- model: splitArr, splitVal
    ("scico/solver.py:_split_real_imag",
     ["def _split_real_imag(x):",
      "  if isinstance(x, BlockArray):",
      "    return snp.blockarray([_split_real_imag(_) for _ in x])",
      "  return snp.stack((snp.real(x), snp.imag(x)))"]),
    -- model: joinArr, joinVal
    ("scico/solver.py:_join_real_imag",
     ["def _join_real_imag(x):",
      "  if isinstance(x, BlockArray):",
      "    return snp.blockarray([_join_real_imag(_) for _ in x])",
      "  return x[0] + 1j * x[1]"]),
    -- model: DT.isInexact (TypeError), prepare / workShape / x0flat (split -> shape, dtype -> ravel), usesGrad (method list), the scipy call (generated Kwargs tables), result (astype -> unravel -> join)
    ("scico/solver.py:minimize",
     ["def minimize(func, x0, args=(), method='L-BFGS-B', hess=None, hessp=None, bounds=None, constraints=(), tol=None, callback=None, options=None):",
      "  if not jnp.issubdtype(x0.dtype, jnp.inexact):",
      "    raise TypeError",
      "  if snp.util.is_complex_dtype(x0.dtype):",
      "    iscomplex = True",
      "    func_ = lambda x, *args: func(_join_real_imag(x), *args)",
      "    x0 = _split_real_imag(x0)",
      "  else:",
      "    iscomplex = False",
      "    func_ = func",
      "  x0_shape = x0.shape",
      "  x0_dtype = x0.dtype",
      "  x0 = _ravel(x0)",
      "  if isinstance(method, str) and method.lower() in 'cg, bfgs, newton-cg, l-bfgs-b, tnc, slsqp, dogleg, trust-ncg, trust-krylov, trust-exact, trust-constr'.split(', '):",
      "    min_func = _wrap_func_and_grad(func_, x0_shape, x0_dtype)",
      "    jac = True",
      "  else:",
      "    min_func = _wrap_func(func_, x0_shape, x0_dtype)",
      "    jac = False",
      "  res = spopt.OptimizeResult({'x': None})",
      "  def fun(x0):",
      "    nonlocal res",
      "    res = spopt.minimize(min_func, x0=np.asarray(x0, dtype=float), args=args, jac=jac, method=method, hess=hess, hessp=hessp, bounds=bounds, constraints=constraints, tol=tol, callback=callback, options=options)",
      "    return res.x.astype(x0_dtype)",
      "  res.x = jax.pure_callback(fun, jax.ShapeDtypeStruct(x0.shape, x0_dtype), x0)",
      "  res.x = _unravel(res.x, x0_shape)",
      "  if iscomplex:",
      "    res.x = _join_real_imag(res.x)",
      "  return res"]),
    -- model: scalarOf (wrapper f), generated Kwargs table (forwarded keywords)
    ("scico/solver.py:minimize_scalar",
     ["def minimize_scalar(func, bracket=None, bounds=None, args=(), method=None, tol=None, options=None):",
      "  def f(x, *args):",
      "    y = func(x, *args)",
      "    return y.item() if y.ndim == 0 else y[0].item()",
      "  res = spopt.minimize_scalar(fun=f, bracket=bracket, bounds=bounds, args=args, method=method, tol=tol, options=options)",
      "  return res"])
  ]

end Scico.Wrap.Source
