/-
  Dtype-uniform expressions (every leaf, every strong scalar factor of one dtype `dt`; weak Python
  scalars that do not change `dt`): every object scico builds declares `dt` throughout, hence the
  agreement conditions `DtAgrees` of `OpAlgDt` hold and declared dtype = returned dtype.
-/
import Scico.Proofs.OpAlgDt

namespace Scico.OpAlg
open Scico.DType

set_option linter.unusedSectionVars false

section
variable {α : Type} [Add α] [Sub α] [Mul α] [Div α] [Neg α] [Zero α] [One α] [HasConj α] [HasRe α]

/-- every declared dtype of the object is `dt` -/
structure U (dt : DT) (o : Obj α) : Prop where
  inD : o.md.inDt = dt
  outD : o.md.outDt = dt
  datD : o.md.datDt = dt

theorem mkMat_u (m n : Nat) (dt : DT) (A : Mx α) : U dt (mkMat m n dt A) := ⟨rfl, rfl, rfl⟩

theorem mkDiag_u {d : V α} {dsh : Shape} {dt : DT} {inSh : Shape} {o : Obj α}
    (h : mkDiag Cfg.fixed d dsh dt inSh dt = .ok o) : U dt o := by
  unfold mkDiag at h
  split at h
  · cases h
  · injection h with h; subst h
    refine ⟨rfl, ?_, rfl⟩
    show (if Cfg.fixed.diagOutDt = true then resultType dt dt else dt) = dt
    simp [Cfg.fixed, rt_idem]

theorem mkSid_u (c : α) (sk : SK) (sh : Shape) (dt : DT) (h : resultTypeS dt sk = dt) :
    U dt (mkSid Cfg.fixed c sk sh dt) := by
  refine ⟨rfl, ?_, h⟩
  show (if Cfg.fixed.diagOutDt = true then resultType (resultTypeS dt sk) dt else dt) = dt
  simp [Cfg.fixed, h, rt_idem]

theorem mkIdent_u (sh : Shape) (dt : DT) : U dt (mkIdent (α := α) sh dt) := ⟨rfl, rfl, rfl⟩

theorem diagonal_u {dt : DT} {a : Obj α} (ha : U dt a) : a.diagonal.2.2 = dt := by
  unfold Obj.diagonal
  split
  · show resultType a.md.datDt a.md.inDt = dt
    rw [ha.datD, ha.inD, rt_idem]
  · exact ha.inD
  · exact ha.datD

theorem rediag_u {d : V α} {dsh : Shape} {dt : DT} {inSh : Shape} {o : Obj α}
    (h : rediag Cfg.fixed d dsh dt inSh none = .ok o) : U dt o := mkDiag_u h

theorem rediag_u' {d : V α} {dsh : Shape} {dt : DT} {inSh : Shape} {o : Obj α}
    (h : rediag Cfg.fixed d dsh dt inSh (some dt) = .ok o) : U dt o := mkDiag_u h

/-! ### operations -/

theorem opAddSub_u {dt : DT} (sub : Bool) {a b o : Obj α} (ha : U dt a) (hb : U dt b)
    (h : opAddSub sub a b = .ok o) : U dt o := by
  unfold opAddSub at h
  split at h
  · injection h with h; subst h
    exact ⟨ha.inD, by show resultType a.md.outDt b.md.outDt = dt; rw [ha.outD, hb.outD, rt_idem], ha.inD⟩
  · cases h

theorem linAddSub_u {dt : DT} (sub : Bool) {a b : Obj α} (ha : U dt a) (hb : U dt b) :
    U dt (linAddSub sub a b) :=
  ⟨ha.inD, by show resultType a.md.outDt b.md.outDt = dt; rw [ha.outD, hb.outD, rt_idem], ha.inD⟩

theorem diagAddSub_u {dt : DT} (sub : Bool) {a b o : Obj α} (ha : U dt a) (hb : U dt b)
    (h : diagAddSub Cfg.fixed sub a b = .ok o) : U dt o := by
  unfold diagAddSub at h
  simp only [diagonal_u ha, diagonal_u hb, rt_idem] at h
  split at h
  · exact rediag_u h
  · cases h

theorem sidAddSub_u {dt : DT} (sub : Bool) {a b o : Obj α} (ha : U dt a) (hb : U dt b)
    (h : sidAddSub Cfg.fixed sub a b = .ok o) : U dt o := by
  unfold sidAddSub at h
  split at h
  · injection h with h; subst h
    rw [ha.datD, hb.datD, ha.inD, rt_idem]
    exact mkSid_u _ _ _ _ (by show resultType dt dt = dt; exact rt_idem dt)
  · cases h

theorem matAddSub_u {dt : DT} (sub : Bool) {a b o : Obj α} (ha : U dt a) (hb : U dt b)
    (h : matAddSub sub a b = .ok o) : U dt o := by
  unfold matAddSub at h
  split at h
  · split at h
    · injection h with h; subst h
      rw [ha.inD, hb.inD, rt_idem]; exact mkMat_u _ _ _ _
    · cases h
  · split at h
    · cases h
    · split at h
      · injection h with h; subst h; exact linAddSub_u sub ha hb
      · exact opAddSub_u sub ha hb h

theorem matNeg_u {dt : DT} {a : Obj α} (ha : U dt a) : U dt (matNeg a) := by
  unfold matNeg rematrix; rw [ha.inD]; exact mkMat_u _ _ _ _

theorem addSubOf_u {dt : DT} (c : Cls) (sub : Bool) {a b o : Obj α} (ha : U dt a) (hb : U dt b)
    (h : addSubOf Cfg.fixed c sub a b = .ok o) : U dt o := by
  unfold addSubOf at h
  split at h
  · exact opAddSub_u sub ha hb h
  · exact diagAddSub_u sub ha hb h
  · exact sidAddSub_u sub ha hb h
  · exact matAddSub_u sub ha hb h
  · injection h with h; subst h; exact linAddSub_u sub ha hb

theorem addSub_u {dt : DT} (sub : Bool) {a b o : Obj α} (ha : U dt a) (hb : U dt b)
    (h : addSub Cfg.fixed sub a b = .ok o) : U dt o := by
  unfold addSub at h
  split at h
  · split at h
    · exact matAddSub_u false (matNeg_u hb) ha h
    · exact matAddSub_u false hb ha h
  · split at h
    · exact opAddSub_u sub ha hb h
    · exact matAddSub_u sub ha hb h
    · unfold wrapAddSub at h
      split at h
      · cases h
      · split at h
        · exact addSubOf_u _ sub ha hb h
        · split at h
          · exact addSubOf_u _ sub ha hb h
          · split at h
            · injection h with h; subst h; exact linAddSub_u sub ha hb
            · exact opAddSub_u sub ha hb h

/-- scalar factors that leave the dtype unchanged -/
def ScalOk (dt : DT) (c : Scal α) : Prop := resultTypeS dt c.kind.sk = dt

theorem smul_u {dt : DT} {a o : Obj α} (c : Scal α) (hc : ScalOk dt c) (ha : U dt a)
    (h : smul Cfg.fixed a c = .ok o) : U dt o := by
  unfold ScalOk at hc
  unfold smul at h
  split at h
  · unfold opMul at h
    split at h
    · injection h with h; subst h
      exact ⟨ha.inD, by show resultTypeS a.md.outDt c.kind.sk = dt; rw [ha.outD, hc], ha.inD⟩
    · cases h
  · unfold diagMul at h
    split at h
    · simp only [diagonal_u ha, hc] at h
      exact rediag_u h
    · cases h
  · unfold sidMul at h
    split at h
    · injection h with h; subst h
      rw [ha.datD, hc, ha.inD]
      exact mkSid_u _ _ _ _ (by show resultType dt dt = dt; exact rt_idem dt)
    · cases h
  · unfold matMulS at h
    split at h
    · cases h
    · split at h
      · injection h with h; subst h
        unfold rematrix; rw [ha.inD, hc]; exact mkMat_u _ _ _ _
      · split at h <;> cases h
  · unfold linMul at h
    split at h
    · injection h with h; subst h
      exact ⟨ha.inD, by show resultTypeS a.md.outDt c.kind.sk = dt; rw [ha.outD, hc], ha.inD⟩
    · cases h

theorem sdiv_u {dt : DT} {a o : Obj α} (c : Scal α) (hc : ScalOk dt c) (ha : U dt a)
    (h : sdiv Cfg.fixed a c = .ok o) : U dt o := by
  unfold ScalOk at hc
  unfold sdiv at h
  split at h
  · unfold opDiv at h
    split at h
    · injection h with h; subst h
      exact ⟨ha.inD, by show resultTypeS a.md.outDt c.kind.sk = dt; rw [ha.outD, hc], ha.inD⟩
    · cases h
  · unfold diagDiv at h
    split at h
    · simp only [diagonal_u ha, hc] at h
      exact rediag_u h
    · cases h
  · unfold sidDiv at h
    split at h
    · injection h with h; subst h
      rw [ha.datD, hc, ha.inD]
      exact mkSid_u _ _ _ _ (by show resultType dt dt = dt; exact rt_idem dt)
    · cases h
  · unfold matDivS at h
    split at h
    · cases h
    · split at h
      · injection h with h; subst h
        unfold rematrix; rw [ha.inD, hc]; exact mkMat_u _ _ _ _
      · split at h <;> cases h
  · unfold linDiv at h
    split at h
    · injection h with h; subst h
      exact ⟨ha.inD, by show resultTypeS a.md.outDt c.kind.sk = dt; rw [ha.outD, hc], ha.inD⟩
    · cases h

theorem neg_u {dt : DT} {a o : Obj α} (ha : U dt a) (h : neg Cfg.fixed a = .ok o) : U dt o := by
  unfold neg at h
  split at h
  · injection h with h; subst h; exact matNeg_u ha
  · exact smul_u _ (by cases dt <;> rfl) ha h

theorem opComp_u {dt : DT} {a b o : Obj α} (ha : U dt a) (hb : U dt b)
    (h : opComp Cfg.fixed a b = .ok o) : U dt o := by
  unfold opComp at h
  split at h
  · injection h with h; subst h; exact ⟨hb.inD, ha.outD, hb.inD⟩
  · cases h

theorem linCall_u {dt : DT} {a b o : Obj α} (ha : U dt a) (hb : U dt b)
    (h : linCall Cfg.fixed a b = .ok o) : U dt o := by
  unfold linCall at h
  split at h
  · unfold linComp at h
    split at h
    · cases h
    · split at h
      · cases h
      · injection h with h; subst h; exact ⟨hb.inD, ha.outD, hb.inD⟩
  · exact opComp_u ha hb h

theorem call_u {dt : DT} {a b o : Obj α} (ha : U dt a) (hb : U dt b) (hbd : DtOk b) (had : DtOk a)
    (h : call Cfg.fixed a b = .ok o) : U dt o := by
  unfold call at h
  split at h
  · exact opComp_u ha hb h
  · unfold matCall at h
    split at h
    · split at h
      · split at h
        · injection h with h; subst h; exact ha
        · split at h
          · injection h with h; subst h
            unfold rematrix; rw [ha.inD, hb.inD, rt_idem]; exact mkMat_u _ _ _ _
          · dsimp only at h
            split at h
            · cases h
            · rename_i outDt hev
              injection h with h; subst h
              have hev' : (do let d ← b.evalDt b.md.inDt; a.evalDt d) = Except.ok dt := by
                rw [hbd.ev, hb.outD, ← ha.inD]
                show a.evalDt a.md.inDt = _
                rw [had.ev, ha.outD, ha.inD]
              have h3 : Except.ok dt = Except.ok outDt := hev'.symm.trans hev
              injection h3 with h3
              exact ⟨hb.inD, h3.symm, hb.inD⟩
      · cases h
    · simp only [Cfg.fixed, if_true] at h
      exact opComp_u ha hb h
  · exact linCall_u ha hb h

theorem matmul_u {dt : DT} {a b o : Obj α} (ha : U dt a) (hb : U dt b) (had : DtOk a) (hbd : DtOk b)
    (h : matmul Cfg.fixed a b = .ok o) : U dt o := by
  unfold matmul at h
  split at h
  · split at h
    · split at h
      · cases h
      · injection h with h; subst h; exact ha
    · split at h <;> cases h
  · split at h
    · split at h
      · cases h
      · injection h with h; subst h; exact ha
    · split at h
      · split at h
        · cases h
        · injection h with h; subst h; exact hb
      · unfold sidMatmul at h
        simp only [Cfg.fixed, ↓reduceIte] at h
        split at h
        · split at h
          · cases h
          · split at h
            · injection h with h; subst h
              rw [ha.datD, hb.datD, ha.inD, rt_idem]
              exact mkSid_u _ _ _ _ (by show resultType dt dt = dt; exact rt_idem dt)
            · simp only [diagonal_u hb, ha.datD, rt_idem] at h
              exact rediag_u h
        · exact linCall_u ha hb h
      · unfold diagMatmul at h
        simp only [Cfg.fixed, ↓reduceIte] at h
        split at h
        · split at h
          · simp only [diagonal_u ha, diagonal_u hb, rt_idem] at h
            split at h
            · cases h
            · exact rediag_u h
          · cases h
        · exact linCall_u ha hb h
      · exact call_u ha hb hbd had h

theorem linT_u {dt : DT} {a : Obj α} (ha : U dt a) : U dt (linT a) := by
  unfold linT; split <;> exact ⟨ha.outD, ha.inD, ha.outD⟩

theorem linH_u {dt : DT} {a : Obj α} (ha : U dt a) : U dt (linH a) := ⟨ha.outD, ha.inD, ha.outD⟩
theorem linConj_u {dt : DT} {a : Obj α} (ha : U dt a) : U dt (linConj a) := ⟨ha.inD, ha.outD, ha.inD⟩
theorem linGram_u {dt : DT} {a : Obj α} (ha : U dt a) : U dt (linGram Cfg.fixed a) :=
  ⟨ha.inD, ha.inD, ha.inD⟩

theorem diagConj_u {dt : DT} {a o : Obj α} (ha : U dt a) (h : diagConj Cfg.fixed a = .ok o) :
    U dt o := by
  unfold diagConj at h
  split at h
  · injection h with h; subst h; exact ha
  · injection h with h; subst h
    rw [ha.datD, ha.inD]
    exact mkSid_u _ _ _ _ (by show resultType dt dt = dt; exact rt_idem dt)
  · simp only [diagonal_u ha, ha.inD] at h
    exact rediag_u' h

theorem diagGram_u {dt : DT} {a o : Obj α} (ha : U dt a) (h : diagGram Cfg.fixed a = .ok o) :
    U dt o := by
  unfold diagGram at h
  split at h
  · injection h with h; subst h; exact ha
  · injection h with h; subst h
    rw [ha.datD, ha.inD]
    exact mkSid_u _ _ _ _ (by show resultType dt dt = dt; exact rt_idem dt)
  · split at h
    · injection h with h; subst h; exact linGram_u ha
    · simp only [diagonal_u ha, ha.inD] at h
      exact rediag_u' h

theorem opT_u {dt : DT} {a o : Obj α} (ha : U dt a) (h : opT Cfg.fixed a = .ok o) : U dt o := by
  have hd : U dt (diagT Cfg.fixed a) := by
    unfold diagT; split
    · exact linT_u ha
    · exact ha
  unfold opT at h
  split at h
  · cases h
  · injection h with h; subst h; unfold matTop rematrix; rw [ha.inD]; exact mkMat_u _ _ _ _
  · injection h with h; subst h; exact hd
  · injection h with h; subst h; exact hd
  · injection h with h; subst h; exact hd
  · injection h with h; subst h; exact linT_u ha

theorem opH_u {dt : DT} {a o : Obj α} (ha : U dt a) (h : opH Cfg.fixed a = .ok o) : U dt o := by
  have hd : ∀ o, diagH Cfg.fixed a = .ok o → U dt o := by
    intro o h
    unfold diagH at h
    split at h
    · injection h with h; subst h; exact linH_u ha
    · exact diagConj_u ha h
  unfold opH at h
  split at h
  · cases h
  · injection h with h; subst h; unfold matHop rematrix; rw [ha.inD]; exact mkMat_u _ _ _ _
  · exact hd o h
  · exact hd o h
  · exact hd o h
  · injection h with h; subst h; exact linH_u ha

theorem opConj_u {dt : DT} {a o : Obj α} (ha : U dt a) (h : opConj Cfg.fixed a = .ok o) : U dt o := by
  unfold opConj at h
  split at h
  · cases h
  · injection h with h; subst h; unfold matConjOp rematrix; rw [ha.inD]; exact mkMat_u _ _ _ _
  · exact diagConj_u ha h
  · exact diagConj_u ha h
  · exact diagConj_u ha h
  · injection h with h; subst h; exact linConj_u ha

theorem opGram_u {dt : DT} {a o : Obj α} (ha : U dt a) (h : opGram Cfg.fixed a = .ok o) : U dt o := by
  unfold opGram at h
  split at h
  · cases h
  · injection h with h; subst h; unfold matGram rematrix; rw [ha.inD]; exact mkMat_u _ _ _ _
  · exact diagGram_u ha h
  · exact diagGram_u ha h
  · exact diagGram_u ha h
  · injection h with h; subst h; exact linGram_u ha

/-! ### dtype-uniform expressions -/

/-- every leaf is declared with the one dtype `dt`; scalar factors do not change it -/
def Uniform (dt : DT) : LExpr α → Prop
  | .mat _ _ d _ => d = dt
  | .diag _ ddt _ inDt? _ => ddt = dt ∧ (inDt? = none ∨ inDt? = some dt)
  | .scaledId _ ck _ d => d = dt ∧ resultTypeS dt ck.sk = dt
  | .ident _ d => d = dt
  | .lin _ _ inDt gDt _ _ => inDt = dt ∧ gDt = dt
  | .nonlin _ _ inDt gDt _ => inDt = dt ∧ gDt = dt
  | .add a b | .sub a b | .had _ a b | .comp a b | .matmul a b => Uniform dt a ∧ Uniform dt b
  | .smulL c a | .smulR a c | .sdiv a c | .rdiv c a | .addS _ _ a c => ScalOk dt c ∧ Uniform dt a
  | .neg a | .T a | .H a | .conj a | .gram a => Uniform dt a

theorem leafAdjOk_self (dt : DT) : LeafAdjOk dt dt := by cases dt <;> rfl

/-- on a dtype-uniform expression every built object declares `dt` throughout and is dtype-sound -/
theorem build_uniform (dt : DT) : ∀ (e : LExpr α) (o : Obj α), Uniform dt e → build e = .ok o →
    U dt o ∧ DtOk o := by
  intro e
  induction e with
  | mat m n d A =>
    intro o hu h; simp only [build, buildC] at h; injection h with h; subst h
    unfold Uniform at hu; subst hu
    exact ⟨mkMat_u _ _ _ _, mkMat_dt _ _ _ _⟩
  | diag dsh ddt inSh? inDt? d =>
    intro o hu h; simp only [build, buildC] at h
    refine ⟨?_, mkDiag_dt h⟩
    obtain ⟨h1, h2⟩ := hu
    subst h1
    rcases h2 with h2 | h2 <;> subst h2 <;> exact mkDiag_u h
  | scaledId c ck sh d =>
    intro o hu h; simp only [build, buildC] at h; injection h with h; subst h
    obtain ⟨h1, h2⟩ := hu
    subst h1
    exact ⟨mkSid_u _ _ _ _ h2, mkSid_dt _ _ _ _⟩
  | ident sh d =>
    intro o hu h; simp only [build, buildC] at h; injection h with h; subst h
    unfold Uniform at hu; subst hu
    exact ⟨mkIdent_u _ _, mkIdent_dt _ _⟩
  | lin inSh outSh inDt gDt hasAdj G =>
    intro o hu h; simp only [build, buildC] at h; injection h with h; subst h
    obtain ⟨h1, h2⟩ := hu
    subst h1; subst h2
    refine ⟨?_, mkLinLeaf_dt _ _ _ _ _ _ (fun _ => leafAdjOk_self _)⟩
    unfold mkLinLeaf
    split
    · exact ⟨rfl, rt_idem _, rfl⟩
    · exact ⟨rfl, rt_idem _, rfl⟩
  | nonlin inSh outSh inDt gDt G =>
    intro o hu h; simp only [build, buildC] at h; injection h with h; subst h
    obtain ⟨h1, h2⟩ := hu
    subst h1; subst h2
    exact ⟨⟨rfl, rt_idem _, rfl⟩, mkNonlinLeaf_dt _ _ _ _ _⟩
  | add a b iha ihb =>
    intro o hu h
    simp only [build, buildC] at h
    obtain ⟨oa, ha, h⟩ := bind_ok' h
    obtain ⟨ob, hb, h⟩ := bind_ok' h
    obtain ⟨ua, da⟩ := iha oa hu.1 ha
    obtain ⟨ub, db⟩ := ihb ob hu.2 hb
    exact ⟨addSub_u false ua ub h,
      addSub_dt false da db (fun _ => ⟨ua.inD.trans ub.inD.symm, ua.outD.trans ub.outD.symm⟩) h⟩
  | sub a b iha ihb =>
    intro o hu h
    simp only [build, buildC] at h
    obtain ⟨oa, ha, h⟩ := bind_ok' h
    obtain ⟨ob, hb, h⟩ := bind_ok' h
    obtain ⟨ua, da⟩ := iha oa hu.1 ha
    obtain ⟨ub, db⟩ := ihb ob hu.2 hb
    exact ⟨addSub_u true ua ub h,
      addSub_dt true da db (fun _ => ⟨ua.inD.trans ub.inD.symm, ua.outD.trans ub.outD.symm⟩) h⟩
  | neg a iha =>
    intro o hu h
    simp only [build, buildC] at h
    obtain ⟨oa, ha, h⟩ := bind_ok' h
    obtain ⟨ua, da⟩ := iha oa hu ha
    exact ⟨neg_u ua h, neg_dt da h⟩
  | smulL c a iha =>
    intro o hu h
    simp only [build, buildC] at h
    obtain ⟨oa, ha, h⟩ := bind_ok' h
    obtain ⟨ua, da⟩ := iha oa hu.2 ha
    exact ⟨smul_u c hu.1 ua h, smul_dt c da h⟩
  | smulR a c iha =>
    intro o hu h
    simp only [build, buildC] at h
    obtain ⟨oa, ha, h⟩ := bind_ok' h
    obtain ⟨ua, da⟩ := iha oa hu.2 ha
    exact ⟨smul_u c hu.1 ua h, smul_dt c da h⟩
  | sdiv a c iha =>
    intro o hu h
    simp only [build, buildC] at h
    obtain ⟨oa, ha, h⟩ := bind_ok' h
    obtain ⟨ua, da⟩ := iha oa hu.2 ha
    exact ⟨sdiv_u c hu.1 ua h, sdiv_dt c da h⟩
  | rdiv c a iha =>
    intro o hu h
    simp only [build, buildC] at h
    obtain ⟨oa, ha, h⟩ := bind_ok' h
    obtain ⟨ua, da⟩ := iha oa hu.2 ha
    split at h
    · refine ⟨?_, matRDivS_dt c h⟩
      unfold matRDivS at h
      split at h
      · cases h
      · split at h
        · injection h with h; subst h
          unfold rematrix; rw [ua.inD, show resultTypeS dt c.kind.sk = dt from hu.1]; exact mkMat_u _ _ _ _
        · split at h <;> cases h
    · cases h
  | addS sub rev a c iha =>
    intro o hu h
    simp only [build, buildC] at h
    obtain ⟨oa, ha, h⟩ := bind_ok' h
    obtain ⟨ua, da⟩ := iha oa hu.2 ha
    split at h
    · refine ⟨?_, matAddSubS_dt sub rev c h⟩
      unfold matAddSubS at h
      split at h
      · cases h
      · split at h
        · injection h with h; subst h
          unfold rematrix; rw [ua.inD, show resultTypeS dt c.kind.sk = dt from hu.1]; exact mkMat_u _ _ _ _
        · split at h <;> cases h
    · cases h
  | had div a b iha ihb =>
    intro o hu h
    simp only [build, buildC] at h
    obtain ⟨oa, ha, h⟩ := bind_ok' h
    obtain ⟨ob, hb, h⟩ := bind_ok' h
    obtain ⟨ua, da⟩ := iha oa hu.1 ha
    obtain ⟨ub, db⟩ := ihb ob hu.2 hb
    split at h
    · refine ⟨?_, matHadamard_dt div h⟩
      unfold matHadamard at h
      split at h
      · split at h
        · injection h with h; subst h
          unfold rematrix; rw [ua.inD, ub.inD, rt_idem]; exact mkMat_u _ _ _ _
        · cases h
      · cases h
    · cases h
  | comp a b iha ihb =>
    intro o hu h
    simp only [build, buildC] at h
    obtain ⟨oa, ha, h⟩ := bind_ok' h
    obtain ⟨ob, hb, h⟩ := bind_ok' h
    obtain ⟨ua, da⟩ := iha oa hu.1 ha
    obtain ⟨ub, db⟩ := ihb ob hu.2 hb
    exact ⟨call_u ua ub db da h, call_dt da db (fun _ => ua.inD.trans ub.outD.symm) h⟩
  | matmul a b iha ihb =>
    intro o hu h
    simp only [build, buildC] at h
    obtain ⟨oa, ha, h⟩ := bind_ok' h
    obtain ⟨ob, hb, h⟩ := bind_ok' h
    obtain ⟨ua, da⟩ := iha oa hu.1 ha
    obtain ⟨ub, db⟩ := ihb ob hu.2 hb
    exact ⟨matmul_u ua ub da db h, matmul_dt da db (fun _ _ => ua.inD.trans ub.outD.symm) h⟩
  | T a iha =>
    intro o hu h
    simp only [build, buildC] at h
    obtain ⟨oa, ha, h⟩ := bind_ok' h
    obtain ⟨ua, da⟩ := iha oa hu ha
    exact ⟨opT_u ua h, opT_dt da h⟩
  | H a iha =>
    intro o hu h
    simp only [build, buildC] at h
    obtain ⟨oa, ha, h⟩ := bind_ok' h
    obtain ⟨ua, da⟩ := iha oa hu ha
    exact ⟨opH_u ua h, opH_dt da h⟩
  | conj a iha =>
    intro o hu h
    simp only [build, buildC] at h
    obtain ⟨oa, ha, h⟩ := bind_ok' h
    obtain ⟨ua, da⟩ := iha oa hu ha
    exact ⟨opConj_u ua h, opConj_dt da h⟩
  | gram a iha =>
    intro o hu h
    simp only [build, buildC] at h
    obtain ⟨oa, ha, h⟩ := bind_ok' h
    obtain ⟨ua, da⟩ := iha oa hu ha
    exact ⟨opGram_u ua h, opGram_dt da h⟩

end
end Scico.OpAlg
