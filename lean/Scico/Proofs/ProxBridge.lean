/-
  Bridge between the executable model (`Scico/Model/Prox.lean`, instantiated at `ℝ`) and the
  specification side (`Scico/Proofs/ProxGeneric.lean`): instances, unfolding lemmas, vectors as
  points of `EuclideanSpace ℝ (Fin n)`, complex pairs as points of `ℂ`.
-/
import Scico.Model.Prox
import Scico.Proofs.ProxPi
import Mathlib.Analysis.Complex.Norm
import Mathlib.Tactic.FieldSimp

set_option linter.unusedSectionVars false

namespace Scico.ProxBridge

open Scico Scico.Prox Scico.ProxSpec WithLp

instance : HasAbs ℝ := ⟨fun x => |x|⟩
noncomputable instance : HasSqrt ℝ := ⟨Real.sqrt⟩

@[simp] theorem hasAbs_abs (x : ℝ) : HasAbs.abs x = |x| := rfl
@[simp] theorem hasSqrt_sqrt (x : ℝ) : HasSqrt.sqrt x = √x := rfl

theorem maxP_eq (a b : ℝ) : maxP a b = max a b := by
  unfold maxP; split_ifs with h
  · exact (max_eq_right h.le).symm
  · exact (max_eq_left (not_lt.mp h)).symm

theorem isZero_iff (a : ℝ) : isZero a = true ↔ a = 0 := by
  unfold isZero
  simp only [Bool.and_eq_true, Bool.not_eq_true', decide_eq_false_iff_not, not_lt]
  constructor
  · rintro ⟨h1, h2⟩; exact le_antisymm h1 h2
  · rintro rfl; exact ⟨le_refl _, le_refl _⟩

theorem posPart_eq (t : ℝ) : Prox.posPart t = max t 0 := by
  unfold Prox.posPart
  simp only [hasAbs_abs]
  rcases le_total 0 t with h | h
  · rw [abs_of_nonneg h, max_eq_left h]; ring
  · rw [abs_of_nonpos h, max_eq_right h]; ring

theorem sign_mul_abs (v : ℝ) : |v| * sign v = v := by
  unfold sign; split_ifs with h1 h2
  · rw [abs_of_pos h1]; ring
  · rw [abs_of_neg h2]; ring
  · have : v = 0 := le_antisymm (not_lt.mp h1) (not_lt.mp h2)
    simp [this]

theorem abs_sign (v : ℝ) (hv : v ≠ 0) : |sign v| = 1 := by
  unfold sign; split_ifs with h1 h2
  · simp
  · simp
  · exact absurd (le_antisymm (not_lt.mp h1) (not_lt.mp h2)) hv

theorem noNanDiv_eq (x y : ℝ) : noNanDiv x y = if y = 0 then 0 else x / y := by
  unfold noNanDiv
  by_cases h : y = 0
  · rw [if_pos ((isZero_iff y).mpr h), if_pos h]
  · have : ¬ isZero y = true := fun hh => h ((isZero_iff y).mp hh)
    rw [if_neg this, if_neg h]

/-- `Vec.sum` is the Finset sum -/
theorem vsum_eq {n : Nat} (f : Fin n → ℝ) : Vec.sum f = ∑ i, f i := by
  unfold Vec.sum; exact List.sum_ofFn

/-! ### vectors as points of Euclidean space -/

/-- a model vector as a point of `EuclideanSpace ℝ (Fin n)` -/
noncomputable def toE {n : Nat} (v : Fin n → ℝ) : EuclideanSpace ℝ (Fin n) := toLp 2 v

@[simp] theorem toE_apply {n : Nat} (v : Fin n → ℝ) (i : Fin n) : toE v i = v i := rfl

theorem toE_smul {n : Nat} (c : ℝ) (v : Fin n → ℝ) : toE (fun i => c * v i) = c • toE v := by
  ext i; simp [toE]

theorem toE_ofLp {n : Nat} (x : EuclideanSpace ℝ (Fin n)) : toE (fun i => x i) = x := rfl

theorem norm_toE {n : Nat} (v : Fin n → ℝ) : ‖toE v‖ = √(∑ i, v i * v i) := by
  rw [EuclideanSpace.norm_eq]
  congr 1
  refine Finset.sum_congr rfl fun i _ => ?_
  rw [toE_apply, Real.norm_eq_abs, sq_abs]; ring

theorem norm2_eq {n : Nat} (v : Fin n → ℝ) : norm2 v = ‖toE v‖ := by
  unfold norm2; rw [hasSqrt_sqrt, vsum_eq, norm_toE]

theorem inner_toE {n : Nat} (x y : EuclideanSpace ℝ (Fin n)) : inner ℝ x y = ∑ i, x i * y i := by
  rw [PiLp.inner_apply]
  refine Finset.sum_congr rfl fun i _ => ?_
  simp [mul_comm]

/-- change of domain description -/
theorem _root_.Scico.ProxSpec.Cert.congr_dom {E : Type*} [NormedAddCommGroup E] [InnerProductSpace ℝ E] {D D' : Set E} {f : E → ℝ}
    {lam : ℝ} {v p : E} (h : Cert D f lam v p) (hD : D = D') : Cert D' f lam v p := hD ▸ h

theorem _root_.Scico.ProxSpec.IsGMin.congr_dom {E : Type*} [NormedAddCommGroup E] [InnerProductSpace ℝ E] {D D' : Set E} {f : E → ℝ}
    {lam : ℝ} {v p : E} (h : IsGMin D f lam v p) (hD : D = D') : IsGMin D' f lam v p := hD ▸ h

/-- certificate in the one-dimensional space `ℝ`, unfolded -/
theorem cert_real_iff {D : Set ℝ} {φ : ℝ → ℝ} {lam v p : ℝ} :
    Cert D φ lam v p ↔ p ∈ D ∧ ∀ z ∈ D, φ p + (v - p) / lam * (z - p) ≤ φ z := by
  unfold Cert
  refine and_congr Iff.rfl (forall₂_congr fun z _ => ?_)
  have : inner ℝ ((1 / lam) • (v - p)) (z - p) = (v - p) / lam * (z - p) := by
    simp only [smul_eq_mul, RCLike.inner_apply, conj_trivial]; ring
  rw [this]

theorem isMin_real_iff {D : Set ℝ} {φ : ℝ → ℝ} {lam v p : ℝ} :
    IsGMin D φ lam v p ↔ p ∈ D ∧ ∀ x ∈ D, lam * φ p + 1 / 2 * (p - v) ^ 2 ≤ lam * φ x + 1 / 2 * (x - v) ^ 2 := by
  unfold IsGMin
  simp only [Real.norm_eq_abs, sq_abs]

/-- coordinate-wise certificate ⇒ certificate of the separable sum on `ℝⁿ` -/
theorem cert_sep {n : Nat} {D : Fin n → Set ℝ} {φ : Fin n → ℝ → ℝ} {lam : ℝ} {v p : Fin n → ℝ}
    (h : ∀ i, p i ∈ D i ∧ ∀ z ∈ D i, φ i (p i) + (v i - p i) / lam * (z - p i) ≤ φ i z) :
    Cert {x : EuclideanSpace ℝ (Fin n) | ∀ i, x i ∈ D i} (fun x => ∑ i, φ i (x i)) lam (toE v) (toE p) :=
  cert_pi (F := fun _ : Fin n => ℝ) (v := toE v) (p := toE p) fun i => cert_real_iff.mpr (h i)

/-- coordinate-wise global minimisers ⇒ global minimiser of the separable sum on `ℝⁿ` -/
theorem min_sep {n : Nat} {D : Fin n → Set ℝ} {φ : Fin n → ℝ → ℝ} {lam : ℝ} {v p : Fin n → ℝ}
    (h : ∀ i, p i ∈ D i ∧ ∀ x ∈ D i, lam * φ i (p i) + 1 / 2 * (p i - v i) ^ 2 ≤ lam * φ i x + 1 / 2 * (x - v i) ^ 2) :
    IsGMin {x : EuclideanSpace ℝ (Fin n) | ∀ i, x i ∈ D i} (fun x => ∑ i, φ i (x i)) lam (toE v) (toE p) :=
  min_pi (F := fun _ : Fin n => ℝ) (v := toE v) (p := toE p) fun i => isMin_real_iff.mpr (h i)

theorem setOf_forall_univ {n : Nat} :
    {x : EuclideanSpace ℝ (Fin n) | ∀ i, x i ∈ (Set.univ : Set ℝ)} = Set.univ := by
  ext; simp

/-! ### complex numbers as pairs -/

/-- a model pair as a complex number -/
def toC (z : ℝ × ℝ) : ℂ := ⟨z.1, z.2⟩

@[simp] theorem toC_re (z : ℝ × ℝ) : (toC z).re = z.1 := rfl
@[simp] theorem toC_im (z : ℝ × ℝ) : (toC z).im = z.2 := rfl

theorem cabs_eq (z : ℝ × ℝ) : cabs z = ‖toC z‖ := by
  unfold cabs
  rw [hasSqrt_sqrt, Complex.norm_eq_sqrt_sq_add_sq]
  congr 1; simp [sq]

theorem toC_cscale (c : ℝ) (z : ℝ × ℝ) : toC (cscale c z) = c • toC z := by
  apply Complex.ext <;> simp [cscale]

/-- a vector of model pairs as a point of `ℂⁿ` seen as a REAL inner-product space (`Re⟨·,·⟩`) -/
noncomputable def toCn {n : Nat} (v : Fin n → ℝ × ℝ) : PiLp 2 (fun _ : Fin n => ℂ) := toLp 2 (fun i => toC (v i))

@[simp] theorem toCn_apply {n : Nat} (v : Fin n → ℝ × ℝ) (i : Fin n) : toCn v i = toC (v i) := rfl

theorem setOf_forall_univC {n : Nat} :
    {x : PiLp 2 (fun _ : Fin n => ℂ) | ∀ i, x i ∈ (Set.univ : Set ℂ)} = Set.univ := by
  ext; simp

end Scico.ProxBridge
