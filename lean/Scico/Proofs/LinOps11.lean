/-
  Helper lemmas for `Scico.Model.LinOps`, part 11 (round 2): the projected gradient assembled from the
  finite differences along the axes (`diffstack`) and the central differences (`snp.gradient`).
-/
import Scico.Proofs.LinOps7
import Scico.Proofs.LinOps9
import Scico.Proofs.LinOps5
import Scico.Proofs.LinOps6

namespace Scico.LinOps
open Finset

section ProjFD
variable {K : Type} [CommRing K]

/-- `projEval` only reads the entries at the output position -/
theorem projEval_congr (i : Nat) : ∀ (l l' : List (V K × V K)),
    List.Forall₂ (fun a b => a.1 i = b.1 i ∧ a.2 i = b.2 i) l l' → projEval l i = projEval l' i := by
  intro l l' h
  rw [projEval_eq_sum, projEval_eq_sum]
  induction h with
  | nil => rfl
  | cons hab _ ih =>
    simp only [List.map_cons, List.sum_cons, ih, hab.1, hab.2]

theorem fdOutLen_diffstack (n : Nat) (_hn : 0 < n) : fdOutLen diffstackCfg n = n := by
  simp [fdOutLen, diffstackCfg]

/-- `ProjectedGradient` with `cdiff=False` on one local axis: coordinate fields `c_m` times the differences along
    the axes `specs[m] = (outer, n, inner)` (all of the same array of `N` entries) is multiplication by
    `Σ_m diag(c_m) · (I ⊗ D_{n_m} ⊗ I)` with `D` the documented `append=0` difference matrix -/
theorem projGrad_fd (N : Nat) (x : V K) (i : Nat) (hi : i < N) :
    ∀ (l : List (V K × Nat × Nat × Nat)), (∀ s ∈ l, s.2.1 * s.2.2.1 * s.2.2.2 = N ∧ 0 < s.2.2.1) →
    projEval (l.map (fun s => (s.1, alongAxis s.2.2.1 (fdOutLen diffstackCfg s.2.2.1) s.2.2.2 (fdEval diffstackCfg s.2.2.1) x))) i
      = mulVec (projMatrix (l.map (fun s => (s.1,
          kronAxis s.2.2.1 (fdOutLen diffstackCfg s.2.2.1) s.2.2.2 (fdMatrix diffstackCfg s.2.2.1))))) N x i := by
  intro l hl
  rw [← projEval_eq_mulVec N x i]
  apply projEval_congr
  rw [List.map_map]
  induction l with
  | nil => exact List.Forall₂.nil
  | cons s rest ih =>
    simp only [List.map_cons]
    refine List.Forall₂.cons ⟨rfl, ?_⟩ (ih (fun t ht => hl t (List.mem_cons_of_mem _ ht)))
    obtain ⟨hN, hn⟩ := hl s List.mem_cons_self
    simp only [Function.comp]
    have hlen := fdOutLen_diffstack s.2.2.1 hn
    rw [fd_axis diffstackCfg s.2.1 s.2.2.1 s.2.2.2 hn x i (by rw [hlen, hN]; exact hi), hN]

end ProjFD


section PhaseNd
variable {K : Type} [Field K] {Q : Type} [Field Q] [CharZero Q]

/-- for integer centres the N-d phases of the constructor are the phases `Π_a ζ_a⁻¹^(c_a f_a)` of `C04_circ_nd_fft`
    with `ζ_a = E(−1/n_a) = exp(−2πi/n_a)` -/
theorem shiftPhaseNd_nat {E C : Q → K} (h : ExpContract E C) : ∀ (dims cs : List Nat) (p : Nat),
    (∀ n ∈ dims, 0 < n) → cs.length = dims.length → p < prodL dims →
    shiftPhaseNd E C (fun m => (m : Q)) (cs.map (fun (c : Nat) => -((c : Nat) : Q))) dims p
      = phaseNd dims (dims.map (fun (n : Nat) => (E (-(1 / ((n : Nat) : Q))))⁻¹)) cs p
  | [], [], p, _, _, _ => by simp [shiftPhaseNd, phaseNd]
  | [], _ :: _, _, _, hl, _ => by simp at hl
  | _ :: _, [], _, _, hl, _ => by simp at hl
  | n :: ds, c :: cs, p, hpos, hl, hp => by
      have hn : 0 < n := hpos n (by simp)
      have hds : ∀ m ∈ ds, 0 < m := fun m hm => hpos m (by simp [hm])
      have hR : 0 < prodL ds := prodL_pos_of_forall ds hds
      have hf : p / prodL ds < n := by rw [Nat.div_lt_iff_lt_mul hR]; simpa [prodL] using hp
      rw [List.map_cons, List.map_cons]
      unfold shiftPhaseNd phaseNd
      rw [npow_eq_pow]
      rw [shiftPhase_nat h c n (p / prodL ds) hn hf,
        shiftPhaseNd_nat h ds cs (p % prodL ds) hds (by simpa using hl) (Nat.mod_lt _ hR)]


theorem fitsIn_length : ∀ (ks dims cs : List Nat), FitsIn ks dims cs → cs.length = dims.length
  | [], [], [], _ => rfl
  | k :: ks, n :: ds, c :: cs, h => by simp [fitsIn_length ks ds cs h.2]
  | [], [], _ :: _, h => by simp [FitsIn] at h
  | [], _ :: _, _, h => by simp [FitsIn] at h
  | _ :: _, [], _, h => by simp [FitsIn] at h
  | _ :: _, _ :: _, [], h => by simp [FitsIn] at h

/-- end to end: the spectrum `CircularConvolve.__init__` builds for integer centres — `fftn(h, s=dims)` times the
    product of the three-branch phases — followed by `_eval` is the signal-domain N-d circular convolution -/
theorem circNd_code_eq {E C : Q → K} (h : ExpContract E C) (dims ks cs : List Nat) (s : K) (hf x : V K) (p : Nat)
    (hr : Roots dims (dims.map (fun (n : Nat) => E (-(1 / ((n : Nat) : Q))))))
    (hfit : FitsIn ks dims cs) (hs : s * (prodL dims : K) = 1) (hp : p < prodL dims) :
    circNdSpecEval dims (dims.map (fun (n : Nat) => E (-(1 / ((n : Nat) : Q)))))
        (dims.map (fun (n : Nat) => (E (-(1 / ((n : Nat) : Q))))⁻¹)) s
        (fun f => dftNd dims (dims.map (fun (n : Nat) => E (-(1 / ((n : Nat) : Q))))) (padNd ks dims hf) f
          * shiftPhaseNd E C (fun m => (m : Q)) (cs.map (fun (c : Nat) => -((c : Nat) : Q))) dims f) x p
      = circNd ks dims cs hf x p := by
  have hpos := roots_pos dims _ hr
  have hlen := fitsIn_length ks dims cs hfit
  have hmap : (dims.map (fun (n : Nat) => E (-(1 / ((n : Nat) : Q))))).map (·⁻¹)
      = dims.map (fun (n : Nat) => (E (-(1 / ((n : Nat) : Q))))⁻¹) := by
    rw [List.map_map]; rfl
  rw [← circNd_fft_eq dims _ ks cs s hf x p hr hfit hs hp, hmap]
  unfold circNdSpecEval
  congr 1
  apply dftNd_congr dims _ _ _ p _ hp
  intro q hq
  beta_reduce
  rw [shiftPhaseNd_nat h dims cs q hpos hlen hq]

end PhaseNd

end Scico.LinOps
