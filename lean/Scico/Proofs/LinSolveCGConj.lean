/-
  Classical conjugate-gradient theory for the model `cgStep` of `scico.solver.cg` (C14, round 2):
  by induction over the iteration count, for Hermitian positive-definite `A` and Hermitian `M`, as long as
  `num ≠ 0` (the loop is still running):

  * residuals are orthogonal to all earlier search directions and `M`-orthogonal to each other,
  * search directions are mutually `A`-conjugate,
  * every executed step decreases the `A`-norm of the error by exactly `num² / ⟪p, A p⟫`,
  * in a space of dimension `n` some `num_k` with `k ≤ n` is exactly zero (finite termination), hence with a
    positive-definite `M` the loop of `cg` with `maxiter ≥ n` always leaves by the tolerance test.
-/
import Mathlib.Analysis.InnerProductSpace.Basic
import Mathlib.LinearAlgebra.Dimension.Finite
import Scico.Proofs.LinSolveCG

namespace Scico.LinSolve
open RCLike

variable {𝕜 V : Type} [RCLike 𝕜] [NormedAddCommGroup V] [InnerProductSpace 𝕜 V]

/-- the state after `j` loop bodies -/
noncomputable def cgSeq (A M : V → V) (b x0 : V) (j : ℕ) : CGState 𝕜 V :=
  (cgStep (rcOps 𝕜 V) A M)^[j] (cgInit (rcOps 𝕜 V) A M b x0)

theorem cgSeq_zero (A M : V → V) (b x0 : V) :
    cgSeq (𝕜 := 𝕜) A M b x0 0 = cgInit (rcOps 𝕜 V) A M b x0 := rfl

theorem cgSeq_succ (A M : V → V) (b x0 : V) (j : ℕ) :
    cgSeq (𝕜 := 𝕜) A M b x0 (j + 1) = cgStep (rcOps 𝕜 V) A M (cgSeq A M b x0 j) := by
  unfold cgSeq; rw [Function.iterate_succ_apply']

/-- `alpha` of the body executed at state `s` -/
noncomputable def cgAlpha (A : V → V) (s : CGState 𝕜 V) : 𝕜 := s.num / inner 𝕜 s.p (A s.p)

theorem cgStep_r (A M : V → V) (s : CGState 𝕜 V) :
    (cgStep (rcOps 𝕜 V) A M s).r = s.r - cgAlpha A s • A s.p := rfl

theorem cgStep_x (A M : V → V) (s : CGState 𝕜 V) :
    (cgStep (rcOps 𝕜 V) A M s).x = s.x + cgAlpha A s • s.p := rfl

theorem cgStep_p (A M : V → V) (s : CGState 𝕜 V) :
    (cgStep (rcOps 𝕜 V) A M s).p =
      (cgStep (rcOps 𝕜 V) A M s).z + ((cgStep (rcOps 𝕜 V) A M s).num / s.num) • s.p := rfl

/-- the extended invariant is preserved by a step taken at `num ≠ 0` (the hypothesis `cgCond` of
    `cgStep_inv2` is only used for that), and the denominator of `alpha` is non-zero -/
theorem cgStep_inv2' (A : V →ₗ[𝕜] V) (M : V → V) (b : V)
    (hAs : ∀ x y, inner 𝕜 (A x) y = inner 𝕜 x (A y)) (hAp : ∀ x, x ≠ 0 → 0 < re (inner 𝕜 x (A x)))
    (hM : ∀ x y, inner 𝕜 (M x) y = inner 𝕜 x (M y))
    (s : CGState 𝕜 V) (h : CGInv2 (⇑A) M b s) (hnum : s.num ≠ 0) :
    inner 𝕜 s.p (A s.p) ≠ 0 ∧ CGInv2 (⇑A) M b (cgStep (rcOps 𝕜 V) A M s) := by
  have hp : s.p ≠ 0 := by
    intro h0
    have := h.rp
    rw [h0, inner_zero_right] at this
    exact hnum this.symm
  have hden : inner 𝕜 s.p (A s.p) ≠ 0 := by
    intro h0
    have := hAp s.p hp
    rw [h0] at this; simp at this
  refine ⟨hden, ?_⟩
  have hinv := cgStep_inv A M b s h.toCGInv
  refine { toCGInv := hinv, rp := ?_, real := ?_ }
  · have hden_real : (starRingEnd 𝕜) (inner 𝕜 s.p (A s.p)) = inner 𝕜 s.p (A s.p) := by
      rw [inner_conj_symm, hAs]
    have hnum_real : (starRingEnd 𝕜) s.num = s.num := RCLike.conj_eq_iff_im.2 h.real
    simp only [cgStep, rcOps]
    set α := s.num / inner 𝕜 s.p (A s.p) with hα
    set r' := s.r - α • A s.p with hr'
    have h0 : inner 𝕜 r' s.p = 0 := by
      rw [hr', inner_sub_left, inner_smul_left, hα, map_div₀, hden_real, hnum_real, hAs s.p s.p, h.rp,
        div_mul_cancel₀ _ hden, sub_self]
    rw [inner_add_right, inner_smul_right, h0, mul_zero, add_zero]
  · have := hinv.num
    rw [hinv.pre] at this
    rw [this]
    exact im_inner_symm M hM _

section Conj
variable (A : V →ₗ[𝕜] V) (M : V → V) (b x0 : V)

set_option quotPrecheck false in
local notation "S" => cgSeq (𝕜 := 𝕜) (⇑A) M b x0

/-- orthogonality / conjugacy relations among the first `k + 1` states -/
structure CGConj (k : ℕ) : Prop where
  inv : ∀ j ≤ k, CGInv2 (⇑A) M b (S j)
  rp : ∀ i j, j < i → i ≤ k → inner 𝕜 (S i).r (S j).p = 0
  pAp : ∀ i j, j < i → i ≤ k → inner 𝕜 (S i).p (A (S j).p) = 0

variable {A M b x0}

/-- `alpha` is real and non-zero where `num ≠ 0` -/
theorem cgAlpha_real (hAs : ∀ x y, inner 𝕜 (A x) y = inner 𝕜 x (A y)) (s : CGState 𝕜 V) (hr : im s.num = 0) :
    (starRingEnd 𝕜) (cgAlpha (⇑A) s) = cgAlpha (⇑A) s := by
  unfold cgAlpha
  rw [map_div₀, RCLike.conj_eq_iff_im.2 hr, inner_conj_symm, hAs]

/-- `z_j` is a combination of `p_j` and `p_{j-1}`, so anything orthogonal to the directions is orthogonal to it -/
theorem inner_z_of_inner_p (w : V) (j : ℕ) (h0 : inner 𝕜 w (S j).p = 0)
    (h1 : ∀ j', j = j' + 1 → inner 𝕜 w (S j').p = 0) : inner 𝕜 w (S j).z = 0 := by
  cases j with
  | zero => simpa [cgSeq, cgInit] using h0
  | succ j' =>
    have hp := cgStep_p (𝕜 := 𝕜) (⇑A) M (S j')
    rw [← cgSeq_succ] at hp
    have hz : (S (j' + 1)).z = (S (j' + 1)).p - ((S (j' + 1)).num / (S j').num) • (S j').p := by
      rw [hp]; abel
    rw [hz, inner_sub_right, inner_smul_right, h0, h1 j' rfl, mul_zero, sub_zero]

/-- **Conjugacy / orthogonality by induction**: if `A` is Hermitian positive definite, `M` Hermitian, and
    `num_j ≠ 0` for all `j < k` (the loop has not converged exactly before), the relations hold up to `k`. -/
theorem cgConj (hAs : ∀ x y, inner 𝕜 (A x) y = inner 𝕜 x (A y)) (hAp : ∀ x, x ≠ 0 → 0 < re (inner 𝕜 x (A x)))
    (hM : ∀ x y, inner 𝕜 (M x) y = inner 𝕜 x (M y)) :
    ∀ k, (∀ j < k, (S j).num ≠ 0) → CGConj A M b x0 k := by
  intro k
  induction k with
  | zero =>
    intro _
    refine ⟨?_, ?_, ?_⟩
    · intro j hj
      have : j = 0 := by omega
      subst this
      exact cgInit_inv2 (⇑A) M hM b x0
    · intro i j hji hi; omega
    · intro i j hji hi; omega
  | succ k ih =>
    intro hk
    have ih := ih (fun j hj => hk j (by omega))
    have hs := ih.inv k le_rfl
    have hnum := hk k (by omega)
    obtain ⟨hden, hs'⟩ := cgStep_inv2' A M b hAs hAp hM (S k) hs hnum
    rw [← cgSeq_succ] at hs'
    have hαr := cgAlpha_real (A := A) hAs (S k) hs.real
    -- new residual against every earlier direction
    have hrp : ∀ j, j ≤ k → inner 𝕜 (S (k + 1)).r (S j).p = 0 := by
      intro j hj
      rw [cgSeq_succ, cgStep_r, inner_sub_left, inner_smul_left, hαr, hAs]
      rcases Nat.lt_or_eq_of_le hj with hlt | heq
      · rw [ih.rp k j hlt le_rfl, ih.pAp k j hlt le_rfl, mul_zero, sub_zero]
      · subst heq
        rw [hs.rp]
        unfold cgAlpha
        rw [div_mul_cancel₀ _ hden, sub_self]
    -- hence against every earlier preconditioned residual
    have hrz : ∀ j, j ≤ k → inner 𝕜 (S (k + 1)).r (S j).z = 0 := by
      intro j hj
      exact inner_z_of_inner_p _ j (hrp j hj) (fun j' hj' => hrp j' (by omega))
    refine ⟨?_, ?_, ?_⟩
    · intro j hj
      rcases Nat.lt_or_eq_of_le hj with hlt | heq
      · exact ih.inv j (by omega)
      · subst heq; exact hs'
    · intro i j hji hi
      rcases Nat.lt_or_eq_of_le hi with hlt | heq
      · exact ih.rp i j hji (by omega)
      · subst heq; exact hrp j (by omega)
    · intro i j hji hi
      rcases Nat.lt_or_eq_of_le hi with hlt | heq
      · exact ih.pAp i j hji (by omega)
      · subst heq
        have hj : j ≤ k := by omega
        have hsj := ih.inv j hj
        have hnumj : (S j).num ≠ 0 := hk j (by omega)
        obtain ⟨hdenj, _⟩ := cgStep_inv2' A M b hAs hAp hM (S j) hsj hnumj
        have hαj : cgAlpha (⇑A) (S j) ≠ 0 := div_ne_zero hnumj hdenj
        -- alpha_j • A p_j = r_j - r_{j+1}
        have hdiff : cgAlpha (⇑A) (S j) • A (S j).p = (S j).r - (S (j + 1)).r := by
          rw [cgSeq_succ, cgStep_r]; abel
        have key : cgAlpha (⇑A) (S j) * inner 𝕜 (S (k + 1)).p (A (S j).p) = 0 := by
          rw [← inner_smul_right, hdiff]
          -- p_{k+1} = z_{k+1} + beta p_k
          have hp := cgStep_p (𝕜 := 𝕜) (⇑A) M (S k)
          rw [← cgSeq_succ] at hp
          rw [hp, inner_add_left, inner_smul_left]
          -- ⟪z_{k+1}, r_i⟫ = ⟪r_{k+1}, z_i⟫
          have hzr : ∀ i, inner 𝕜 (S (k + 1)).z (S i).r = inner 𝕜 (S (k + 1)).r (S i).z := by
            intro i
            have h1 : (S (k + 1)).z = M (S (k + 1)).r := hs'.pre
            have h2 : (S i).z = M (S i).r := by
              cases i with
              | zero => rfl
              | succ i => rw [cgSeq_succ]; rfl
            rw [h1, h2, hM]
          rw [inner_sub_right, inner_sub_right, hzr j, hzr (j + 1), hrz j hj]
          have hpk : inner 𝕜 (S k).p ((S j).r - (S (j + 1)).r) = cgAlpha (⇑A) (S j) * inner 𝕜 (S k).p (A (S j).p) := by
            rw [← hdiff, inner_smul_right]
          rw [← inner_sub_right, hpk]
          rcases Nat.lt_or_eq_of_le hj with hlt | heq
          · rw [hrz (j + 1) (by omega), ih.pAp k j hlt le_rfl]; simp
          · subst heq
            have hnr : (S (j + 1)).num = inner 𝕜 (S (j + 1)).r (S (j + 1)).z := hs'.num
            have hreal' : (starRingEnd 𝕜) (S (j + 1)).num = (S (j + 1)).num := RCLike.conj_eq_iff_im.2 hs'.real
            have hreal : (starRingEnd 𝕜) (S j).num = (S j).num := RCLike.conj_eq_iff_im.2 hs.real
            rw [← hnr, map_div₀, hreal', hreal]
            unfold cgAlpha
            rw [div_mul_cancel₀ _ hden, div_mul_cancel₀ _ hnum]
            ring
        exact (mul_eq_zero.1 key).resolve_left hαj

end Conj

/-! ### every executed step decreases the `A`-norm of the error -/

/-- `‖x* − x'‖²_A = ‖x* − x‖²_A − num² / ⟪p, A p⟫` for the step taken at a state with the extended invariant -/
theorem cgStep_errA (A : V →ₗ[𝕜] V) (M : V → V) (b xs : V) (hxs : A xs = b)
    (hAs : ∀ x y, inner 𝕜 (A x) y = inner 𝕜 x (A y))
    (s : CGState 𝕜 V) (h : CGInv2 (⇑A) M b s) (hden : inner 𝕜 s.p (A s.p) ≠ 0) :
    re (inner 𝕜 (xs - (cgStep (rcOps 𝕜 V) A M s).x) (A (xs - (cgStep (rcOps 𝕜 V) A M s).x)))
      = re (inner 𝕜 (xs - s.x) (A (xs - s.x))) - (re s.num) ^ 2 / re (inner 𝕜 s.p (A s.p)) := by
  have hAe : A (xs - s.x) = s.r := by rw [map_sub, hxs, h.res]
  have hαr := cgAlpha_real (A := A) hAs s h.real
  have hden_real : (starRingEnd 𝕜) (inner 𝕜 s.p (A s.p)) = inner 𝕜 s.p (A s.p) := by
    rw [inner_conj_symm, hAs]
  have hnum_real : (starRingEnd 𝕜) s.num = s.num := RCLike.conj_eq_iff_im.2 h.real
  have hpr : inner 𝕜 s.p s.r = s.num := by
    rw [← inner_conj_symm, h.rp, hnum_real]
  have h1 : inner 𝕜 (xs - s.x) (A s.p) = s.num := by
    rw [← hAs, hAe, h.rp]
  rw [cgStep_x]
  have e : xs - (s.x + cgAlpha (⇑A) s • s.p) = (xs - s.x) - cgAlpha (⇑A) s • s.p := by abel
  rw [e, map_sub, map_smul, hAe]
  obtain ⟨ev, hev⟩ : ∃ ev, ev = xs - s.x := ⟨_, rfl⟩
  rw [← hev] at h1 ⊢
  simp only [inner_sub_left, inner_sub_right, inner_smul_left, inner_smul_right]
  rw [hαr, h1, hpr]
  -- everything is real now
  have hnum_eq : s.num = ((re s.num : ℝ) : 𝕜) := (RCLike.conj_eq_iff_re.1 hnum_real).symm
  have hden_eq : inner 𝕜 s.p (A s.p) = ((re (inner 𝕜 s.p (A s.p)) : ℝ) : 𝕜) :=
    (RCLike.conj_eq_iff_re.1 hden_real).symm
  obtain ⟨n, hn⟩ : ∃ n : ℝ, s.num = (n : 𝕜) := ⟨_, hnum_eq⟩
  obtain ⟨d, hd⟩ : ∃ d : ℝ, inner 𝕜 s.p (A s.p) = (d : 𝕜) := ⟨_, hden_eq⟩
  have hd0 : d ≠ 0 := by
    rintro rfl
    exact hden (by rw [hd]; simp)
  unfold cgAlpha
  rw [hd, hn, ← RCLike.ofReal_div]
  simp only [map_sub, RCLike.mul_re, RCLike.ofReal_re, RCLike.ofReal_im, mul_zero, sub_zero, zero_mul]
  field_simp
  ring

/-! ### finite termination -/

/-- vectors that are mutually `A`-conjugate with `⟪p_i, A p_i⟫ ≠ 0` are linearly independent -/
theorem linIndep_of_conj {n : ℕ} (A : V →ₗ[𝕜] V) (p : Fin n → V)
    (hpp : ∀ i, inner 𝕜 (p i) (A (p i)) ≠ 0) (hc : ∀ i j, i ≠ j → inner 𝕜 (p i) (A (p j)) = 0) :
    LinearIndependent 𝕜 p := by
  rw [linearIndependent_iff']
  intro s g hg i hi
  have h0 : inner 𝕜 (p i) (A (∑ j ∈ s, g j • p j)) = 0 := by rw [hg]; simp
  rw [map_sum, inner_sum] at h0
  simp only [map_smul, inner_smul_right] at h0
  rw [Finset.sum_eq_single i] at h0
  · exact (mul_eq_zero.1 h0).resolve_right (hpp i)
  · intro j _ hji
    rw [hc i j (Ne.symm hji), mul_zero]
  · intro h; exact absurd hi h

/-- **Finite termination**: in a space of dimension `n`, for Hermitian positive-definite `A` and Hermitian `M`,
    `num_k = ⟪r_k, M r_k⟫` is exactly zero for some `k ≤ n`. -/
theorem cg_finite_termination [Module.Finite 𝕜 V] (A : V →ₗ[𝕜] V) (M : V → V) (b x0 : V)
    (hAs : ∀ x y, inner 𝕜 (A x) y = inner 𝕜 x (A y)) (hAp : ∀ x, x ≠ 0 → 0 < re (inner 𝕜 x (A x)))
    (hM : ∀ x y, inner 𝕜 (M x) y = inner 𝕜 x (M y)) :
    ∃ k, k ≤ Module.finrank 𝕜 V ∧ (cgSeq (𝕜 := 𝕜) (⇑A) M b x0 k).num = 0 := by
  by_contra hcon
  push Not at hcon
  set n := Module.finrank 𝕜 V with hn
  have hC := cgConj (A := A) (M := M) (b := b) (x0 := x0) hAs hAp hM n (fun j hj => hcon j (by omega))
  let p : Fin (n + 1) → V := fun i => (cgSeq (𝕜 := 𝕜) (⇑A) M b x0 i.val).p
  have hpp : ∀ i, inner 𝕜 (p i) (A (p i)) ≠ 0 := by
    intro i
    exact (cgStep_inv2' A M b hAs hAp hM _ (hC.inv i.val (by omega)) (hcon i.val (by omega))).1
  have hc : ∀ i j, i ≠ j → inner 𝕜 (p i) (A (p j)) = 0 := by
    intro i j hij
    rcases Nat.lt_or_gt_of_ne (fun h => hij (Fin.ext h)) with h | h
    · -- i < j : use symmetry
      have := hC.pAp j.val i.val h (by omega)
      show inner 𝕜 (p i) (A (p j)) = 0
      rw [← hAs, ← inner_conj_symm]
      show (starRingEnd 𝕜) (inner 𝕜 (p j) (A (p i))) = 0
      rw [show inner 𝕜 (p j) (A (p i)) = 0 from this, map_zero]
    · exact hC.pAp i.val j.val h (by omega)
  have hli := linIndep_of_conj A p hpp hc
  have := hli.fintype_card_le_finrank
  simp at this
  omega

/-- a true loop condition with a non-negative threshold implies `num ≠ 0` -/
theorem num_ne_zero_of_cond (maxiter : ℕ) (tolsq : ℝ) (htol : 0 ≤ tolsq) (s : CGState 𝕜 V)
    (hc : cgCond (rcOps 𝕜 V) maxiter tolsq s = true) : s.num ≠ 0 := by
  intro h0
  simp only [cgCond, rcOps, Bool.and_eq_true, decide_eq_true_eq] at hc
  rw [h0] at hc
  rcases hc.2 with h | ⟨_, h⟩
  · simp at h; linarith
  · simp at h

theorem cgTolSq_nonneg (tol atol bn : ℝ) : 0 ≤ cgTolSq tol atol bn := by
  unfold cgTolSq; exact mul_self_nonneg _

/-- **`cg` needs at most `dim V` iterations** (exact arithmetic): for Hermitian positive-definite `A`, Hermitian `M`,
    any `b, x0, tol, atol`: `num_iter ≤ dim V`, and if `maxiter ≥ dim V` the loop is always left by the tolerance
    test: `⟪r, M r⟫ ≤ max(tol‖b‖, atol)²` for the residual `r` of the returned `x`. -/
theorem cg_dim_steps [Module.Finite 𝕜 V] (A : V →ₗ[𝕜] V) (M : V → V) (b x0 : V)
    (hAs : ∀ x y, inner 𝕜 (A x) y = inner 𝕜 x (A y)) (hAp : ∀ x, x ≠ 0 → 0 < re (inner 𝕜 x (A x)))
    (hM : ∀ x y, inner 𝕜 (M x) y = inner 𝕜 x (M y)) (tol atol : ℝ) (maxiter : ℕ) :
    let out := cg (rcOps 𝕜 V) A M b x0 tol atol maxiter
    let r := b - A out.1
    out.2.numIter ≤ Module.finrank 𝕜 V ∧
      (Module.finrank 𝕜 V ≤ maxiter → re (inner 𝕜 r (M r)) ≤ cgTolSq tol atol ‖b‖) := by
  intro out r
  set tolsq := cgTolSq tol atol ‖b‖ with htsq
  have htol : 0 ≤ tolsq := cgTolSq_nonneg _ _ _
  obtain ⟨k, hk, he, hi, hj⟩ := cgLoop_iterate (rcOps 𝕜 V) (⇑A) M maxiter tolsq maxiter (cgInit (rcOps 𝕜 V) A M b x0)
  obtain ⟨k0, hk0, hz⟩ := cg_finite_termination A M b x0 hAs hAp hM
  have hkk0 : k ≤ k0 := by
    by_contra hlt
    push Not at hlt
    exact num_ne_zero_of_cond maxiter tolsq htol _ (hj k0 hlt) hz
  have hii : out.2.numIter = k := by
    show (cgLoop (rcOps 𝕜 V) (⇑A) M maxiter tolsq maxiter (cgInit (rcOps 𝕜 V) A M b x0)).ii = k
    rw [hi]; simp [cgInit]
  refine ⟨by rw [hii]; omega, ?_⟩
  intro hmax
  obtain ⟨_, _, h3⟩ := cg_spec A M b x0 tol atol maxiter
  have hinv := cgLoop_inv A M b maxiter tolsq maxiter _ (cgInit_inv (𝕜 := 𝕜) A M b x0)
  have hnum : (cgLoop (rcOps 𝕜 V) (⇑A) M maxiter tolsq maxiter (cgInit (rcOps 𝕜 V) A M b x0)).num = inner 𝕜 r (M r) := by
    rw [hinv.num, hinv.pre, hinv.res]; rfl
  rcases h3 with h | h
  · -- all of `maxiter` was used: then k = k0 and num = 0
    have hkeq : k = k0 := by
      have : out.2.numIter = maxiter := h
      omega
    rw [← hnum, he, hkeq]
    have : (cgStep (rcOps 𝕜 V) (⇑A) M)^[k0] (cgInit (rcOps 𝕜 V) (⇑A) M b x0) = cgSeq (𝕜 := 𝕜) (⇑A) M b x0 k0 := rfl
    rw [this, hz]; simpa using htol
  · push Not at h
    exact h.1

/-! ### the scan variant (`cg_solver`) is exact after `dim V` steps -/

/-- forget `z` and the counter -/
def CGState.toScan (s : CGState 𝕜 V) : ScanState 𝕜 V := { x := s.x, r := s.r, p := s.p, num := s.num }

theorem scanIter_succ' (A : V → V) (k : ℕ) (s : ScanState 𝕜 V) :
    scanIter (rcOps 𝕜 V) A (k + 1) s = scanStep (rcOps 𝕜 V) A (scanIter (rcOps 𝕜 V) A k s) := by
  induction k generalizing s with
  | zero => rfl
  | succ k ih => rw [scanIter, ih]; rfl

theorem scanIter_add (A : V → V) (a c : ℕ) (s : ScanState 𝕜 V) :
    scanIter (rcOps 𝕜 V) A (a + c) s = scanIter (rcOps 𝕜 V) A c (scanIter (rcOps 𝕜 V) A a s) := by
  induction a generalizing s with
  | zero => simp [scanIter]
  | succ a ih => rw [Nat.add_right_comm, scanIter, ih]; rfl

/-- where neither guard fires, a scan step is a `cg` step without preconditioner -/
theorem scanStep_eq_cgStep (A : V → V) (s : CGState 𝕜 V) (hnum : s.num ≠ 0) (hden : inner 𝕜 s.p (A s.p) ≠ 0) :
    scanStep (rcOps 𝕜 V) A s.toScan = (cgStep (rcOps 𝕜 V) A (fun v => v) s).toScan := by
  simp [scanStep, cgStep, CGState.toScan, rcOps, hnum, hden]

/-- **`cg_solver` is exact after `dim V` iterations** (exact arithmetic): for Hermitian positive-definite `A`,
    any `b`, `x0` and `maxiter ≥ dim V`, the returned `x` solves `A x = b` — the guards keep the iterate once the
    residual has vanished. -/
theorem cgScan_exact [Module.Finite 𝕜 V] (A : V →ₗ[𝕜] V) (b x0 : V)
    (hAs : ∀ x y, inner 𝕜 (A x) y = inner 𝕜 x (A y)) (hAp : ∀ x, x ≠ 0 → 0 < re (inner 𝕜 x (A x)))
    (maxiter : ℕ) (hmax : Module.finrank 𝕜 V ≤ maxiter) :
    A (cgScan (rcOps 𝕜 V) A b x0 maxiter) = b := by
  classical
  have hM : ∀ x y : V, inner 𝕜 ((fun v : V => v) x) y = inner 𝕜 x ((fun v : V => v) y) := fun _ _ => rfl
  have hex : ∃ k, (cgSeq (𝕜 := 𝕜) (⇑A) (fun v => v) b x0 k).num = 0 := by
    obtain ⟨k, _, hk⟩ := cg_finite_termination A (fun v => v) b x0 hAs hAp hM
    exact ⟨k, hk⟩
  set k0 := Nat.find hex with hk0
  have hz : (cgSeq (𝕜 := 𝕜) (⇑A) (fun v => v) b x0 k0).num = 0 := Nat.find_spec hex
  have hnz : ∀ j < k0, (cgSeq (𝕜 := 𝕜) (⇑A) (fun v => v) b x0 j).num ≠ 0 := fun j hj => Nat.find_min hex hj
  have hk0n : k0 ≤ Module.finrank 𝕜 V := by
    obtain ⟨k, hk, hkz⟩ := cg_finite_termination A (fun v => v) b x0 hAs hAp hM
    exact le_trans (Nat.find_min' hex hkz) hk
  have hC := cgConj (A := A) (M := fun v => v) (b := b) (x0 := x0) hAs hAp hM k0 hnz
  -- the scan follows the cg sequence up to k0
  have hsim : ∀ j ≤ k0, scanIter (rcOps 𝕜 V) A j (scanInit (rcOps 𝕜 V) A b x0)
      = (cgSeq (𝕜 := 𝕜) (⇑A) (fun v => v) b x0 j).toScan := by
    intro j
    induction j with
    | zero => intro _; rfl
    | succ j ih =>
      intro hj
      have hden := (cgStep_inv2' A (fun v => v) b hAs hAp hM _ (hC.inv j (by omega)) (hnz j (by omega))).1
      rw [scanIter_succ', ih (by omega), scanStep_eq_cgStep (⇑A) _ (hnz j (by omega)) hden, cgSeq_succ]
  have hinv := hC.inv k0 le_rfl
  -- at k0 the residual and the direction vanish
  have hr0 : (cgSeq (𝕜 := 𝕜) (⇑A) (fun v => v) b x0 k0).r = 0 := by
    have h1 := hinv.num
    rw [hinv.pre, hz] at h1
    exact inner_self_eq_zero.1 h1.symm
  have hp0 : (cgSeq (𝕜 := 𝕜) (⇑A) (fun v => v) b x0 k0).p = 0 := by
    rcases Nat.eq_zero_or_pos k0 with h0 | hpos
    · have : (cgSeq (𝕜 := 𝕜) (⇑A) (fun v => v) b x0 k0).p = (cgSeq (𝕜 := 𝕜) (⇑A) (fun v => v) b x0 k0).r := by
        rw [h0]; rfl
      rw [this, hr0]
    · obtain ⟨j, hj⟩ : ∃ j, k0 = j + 1 := ⟨k0 - 1, by omega⟩
      have hp := cgStep_p (𝕜 := 𝕜) (⇑A) (fun v => v) (cgSeq (𝕜 := 𝕜) (⇑A) (fun v => v) b x0 j)
      rw [← cgSeq_succ, ← hj] at hp
      rw [hp, hz, hinv.pre, hr0]
      simp
  have hfix : scanIter (rcOps 𝕜 V) A maxiter (scanInit (rcOps 𝕜 V) A b x0)
      = (cgSeq (𝕜 := 𝕜) (⇑A) (fun v => v) b x0 k0).toScan := by
    obtain ⟨c, hc⟩ : ∃ c, maxiter = k0 + c := ⟨maxiter - k0, by omega⟩
    rw [hc, scanIter_add, hsim k0 le_rfl]
    exact scanIter_fixed A _ hr0 hp0 hz c
  unfold cgScan
  rw [hfix]
  show A (cgSeq (𝕜 := 𝕜) (⇑A) (fun v => v) b x0 k0).x = b
  have := hinv.res
  rw [hr0] at this
  exact (sub_eq_zero.1 this.symm).symm

end Scico.LinSolve
