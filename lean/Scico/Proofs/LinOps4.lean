/-
  Helper lemmas for `Scico.Model.LinOps`, part 4: the convolution theorem - the DFT-domain evaluation
  `CircularConvolve._eval` performs equals the signal-domain circular convolution of the model.
-/
import Scico.Proofs.LinOps2
import Scico.Proofs.LinOps3
import Mathlib.Data.Nat.ModEq

namespace Scico.LinOps
open Finset

section FFT
variable {K : Type} [Field K]

theorem pow_mod_root {ζ : K} {n : Nat} (hζ : IsPrimitiveRoot ζ n) (e : Nat) : ζ ^ e = ζ ^ (e % n) := by
  conv_lhs => rw [← Nat.div_add_mod e n, pow_add, pow_mul, hζ.pow_eq_one, one_pow, one_mul]

theorem root_orthogonality_mod {ζ : K} {n : Nat} (hζ : IsPrimitiveRoot ζ n) (hn : 0 < n) (a b : Nat) :
    ∑ k ∈ range n, ζ ^ (a * k) * ζ⁻¹ ^ (b * k) = if a % n = b % n then (n : K) else 0 := by
  rw [← root_orthogonality hζ (a % n) (b % n) (Nat.mod_lt _ hn) (Nat.mod_lt _ hn)]
  refine sum_congr rfl (fun k _ => ?_)
  rw [pow_mul ζ a k, pow_mul ζ (a % n) k, ← pow_mod_root hζ a, inv_pow, inv_pow, pow_mul ζ b k, pow_mul ζ (b % n) k,
    ← pow_mod_root hζ b]

theorem unique_shift (n a j c b : Nat) (ha : a < n) (hb : b < n) :
    (a + b) % n = (c + j) % n ↔ b = (j + c + n - a) % n := by
  have hn : 0 < n := by omega
  constructor
  · intro h
    have h1 : a + b ≡ a + (j + c + n - a) [MOD n] := by
      have e : a + (j + c + n - a) = (c + j) + n := by omega
      rw [e]
      exact (show a + b ≡ c + j [MOD n] from h).trans (Nat.ModEq.symm (by simp [Nat.ModEq]))
    have h2 : b ≡ j + c + n - a [MOD n] := Nat.ModEq.add_left_cancel' a h1
    have : b % n = (j + c + n - a) % n := h2
    rwa [Nat.mod_eq_of_lt hb] at this
  · intro h
    subst h
    have e : (a + (j + c + n - a) % n) % n = (a + (j + c + n - a)) % n := by
      rw [Nat.add_mod, Nat.mod_mod, ← Nat.add_mod]
    rw [e]
    have e2 : a + (j + c + n - a) = (c + j) + n := by omega
    rw [e2, Nat.add_mod_right]

/-- the computation of the code — inverse DFT of `DFT(h_pad) · phase(c) · DFT(x)` — equals the
    signal-domain circular convolution with centre `c` (convolution theorem, exact in any field
    with a primitive `n`-th root of unity) -/
theorem circ_fft_eq {ζ : K} {n : Nat} (hζ : IsPrimitiveRoot ζ n) (hn : 0 < n) (hnK : (n : K) ≠ 0)
    (h : V K) (k c : Nat) (hk : k ≤ n) (x : V K) (j : Nat) :
    dftInvCropEval ζ⁻¹ (1 / (n : K)) n
        (fun f => dftEval ζ 1 n n (padTo h k) f * ζ⁻¹ ^ (c * f) * dftEval ζ 1 n n x f) j
      = circEval h k n c x j := by
  unfold circEval
  rw [sumTo_padTo h k n hk (fun m => x ((j + c + n - m) % n))]
  unfold dftInvCropEval dftEval
  simp only [sumTo_eq_sum, npow_eq_pow, one_mul]
  have e : ∀ f ∈ range n,
      ((∑ a ∈ range n, (if a < n then padTo h k a else 0) * ζ ^ (a * f)) * ζ⁻¹ ^ (c * f)
        * ∑ b ∈ range n, (if b < n then x b else 0) * ζ ^ (b * f)) * ζ⁻¹ ^ (j * f)
      = ∑ a ∈ range n, ∑ b ∈ range n, padTo h k a * x b * (ζ ^ ((a + b) * f) * ζ⁻¹ ^ ((c + j) * f)) := by
    intro f _
    rw [sum_mul, sum_mul, sum_mul]
    refine sum_congr rfl (fun a ha => ?_)
    rw [mul_sum, sum_mul]
    refine sum_congr rfl (fun b hb => ?_)
    simp only [mem_range.mp ha, mem_range.mp hb, if_true]
    rw [Nat.add_mul, Nat.add_mul, pow_add, pow_add]
    ring
  rw [sum_congr rfl e, sum_comm]
  have e2 : ∀ a ∈ range n, ∑ f ∈ range n, ∑ b ∈ range n, padTo h k a * x b * (ζ ^ ((a + b) * f) * ζ⁻¹ ^ ((c + j) * f))
      = padTo h k a * x ((j + c + n - a) % n) * (n : K) := by
    intro a ha
    rw [sum_comm]
    have e3 : ∀ b ∈ range n, ∑ f ∈ range n, padTo h k a * x b * (ζ ^ ((a + b) * f) * ζ⁻¹ ^ ((c + j) * f))
        = padTo h k a * x b * (if b = (j + c + n - a) % n then (n : K) else 0) := by
      intro b hb
      rw [← mul_sum, root_orthogonality_mod hζ hn]
      congr 1
      simp only [unique_shift n a j c b (mem_range.mp ha) (mem_range.mp hb)]
    rw [sum_congr rfl e3, sum_eq_single_of_mem ((j + c + n - a) % n) (mem_range.mpr (Nat.mod_lt _ hn))]
    · simp
    · intro b _ hne; simp [hne]
  rw [sum_congr rfl e2, ← sum_mul]
  field_simp

end FFT
end Scico.LinOps
