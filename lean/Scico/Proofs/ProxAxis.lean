/-
  `L21Norm(l2_axis=axes)` on N-d arrays: the labelling `axisGroup` of `Scico/Model/Prox.lean` groups exactly the entries whose
  multi-indices agree along every axis that is not reduced (`axisGroup_eq_iff`; mixed-radix injectivity).
-/
import Scico.Model.Prox
import Mathlib.Tactic.Linarith
import Mathlib.Tactic.Ring

namespace Scico.ProxAxis
open Scico.Prox

theorem mixedRadix_step {r x y a b : Nat} (hx : x < r) (hy : y < r) :
    a * r + x = b * r + y ↔ a = b ∧ x = y := by
  constructor
  · intro h
    have h1 : (a * r + x) % r = x := by rw [Nat.mul_comm, Nat.mul_add_mod]; exact Nat.mod_eq_of_lt hx
    have h2 : (b * r + y) % r = y := by rw [Nat.mul_comm, Nat.mul_add_mod]; exact Nat.mod_eq_of_lt hy
    have hxy : x = y := by rw [← h1, ← h2, h]
    subst hxy
    have hr : 0 < r := by omega
    have : a * r = b * r := by omega
    exact ⟨Nat.eq_of_mul_eq_mul_right hr this, rfl⟩
  · rintro ⟨rfl, rfl⟩; rfl

/-- mixed-radix numbers are equal iff all digits are equal -/
theorem mixedRadix_inj (ds : List Nat) (r x y : Nat → Nat) (hx : ∀ d ∈ ds, x d < r d) (hy : ∀ d ∈ ds, y d < r d)
    (a b : Nat) :
    ds.foldl (fun acc d => acc * r d + x d) a = ds.foldl (fun acc d => acc * r d + y d) b ↔
      a = b ∧ ∀ d ∈ ds, x d = y d := by
  induction ds generalizing a b with
  | nil => simp
  | cons d ds ih =>
    simp only [List.foldl_cons, List.mem_cons, forall_eq_or_imp]
    rw [ih (fun e he => hx e (List.mem_cons_of_mem _ he)) (fun e he => hy e (List.mem_cons_of_mem _ he)),
      mixedRadix_step (hx d (List.mem_cons_self)) (hy d (List.mem_cons_self))]
    tauto

theorem mem_keptAxes {nd : Nat} {axes : List Nat} {d : Nat} : d ∈ keptAxes nd axes ↔ d < nd ∧ d ∉ axes := by
  unfold keptAxes
  simp [List.mem_filter, List.mem_range]

/-- **index-level grouping theorem for `L21Norm(l2_axis=axes)` on N-d arrays**: two flat entries carry the same label iff their
    multi-indices agree along every axis that is NOT reduced (all dimensions positive) -/
theorem axisGroup_eq_iff (shape axes : List Nat) (hpos : ∀ d, d < shape.length → 0 < shape.getD d 1) (i j : Nat) :
    axisGroup shape axes i = axisGroup shape axes j ↔
      ∀ d, d < shape.length → d ∉ axes → unravelAt shape i d = unravelAt shape j d := by
  unfold axisGroup
  rw [mixedRadix_inj (keptAxes shape.length axes) (fun d => shape.getD d 1) (unravelAt shape i) (unravelAt shape j)]
  · simp only [true_and]
    constructor
    · intro h d hd hn; exact h d (mem_keptAxes.mpr ⟨hd, hn⟩)
    · intro h d hd; obtain ⟨h1, h2⟩ := mem_keptAxes.mp hd; exact h d h1 h2
  · intro d hd; exact Nat.mod_lt _ (hpos d (mem_keptAxes.mp hd).1)
  · intro d hd; exact Nat.mod_lt _ (hpos d (mem_keptAxes.mp hd).1)

-- shape (2,3), l2_axis = 0: the groups are the columns; entries 1 = (0,1) and 4 = (1,1) share a group, 1 and 2 do not
example : axisGroup [2, 3] [0] 1 = axisGroup [2, 3] [0] 4 ∧ axisGroup [2, 3] [0] 1 ≠ axisGroup [2, 3] [0] 2 := by decide
example : normAxes 3 (some [-1, 0]) = [2, 0] := by decide
example : (List.range 5).map (blockGroup [2, 3]) = [0, 0, 1, 1, 1] := by decide

end Scico.ProxAxis
