/-
  C10 round 4: `FBlockCircularConvolveSolver` after `f.set_scale(s1)` (recorded finding `stale-scale-after-init`): the system it
  works with (`fblockStaleSystem`: `D` divided by the old `2 s0`, right-hand side by the new `2 s1`) and the exact condition under
  which its solution still satisfies the documented normal equations.
-/
import Scico.Proofs.LinSolveADMM

set_option linter.unusedSectionVars false

namespace Scico.LinSolve

variable {S M U Y' : Type} [Field S] [AddCommGroup M] [Module S M] [AddCommGroup U]

/-- what is solved: `AᴴA x + (1/(2 s0)) Σρ_i C_iᴴC_i x = (1/(2 s1)) rhs(s1)` -/
theorem fblockStale_spec (f : SqL2 S M Y') (s1 : S) (terms : List (Term S M U)) (hne : terms ≠ []) :
    ∃ lhs rhs, fblockStaleSystem 0 f s1 terms = some (lhs, rhs) ∧
      (∀ x, lhs x = f.A.adj (f.A.eval x) + (1 / (2 * f.scale)) • (terms.map fun t => t.rho • t.C.adj (t.C.eval x)).sum) ∧
      rhs = (1 / (2 * s1)) • rhsSpec (some (f.withScale s1)) terms := by
  unfold fblockStaleSystem fblockSystem
  rw [reduceAdd_fun]
  cases terms with
  | nil => exact absurd rfl hne
  | cons t ts =>
    refine ⟨_, _, rfl, ?_, ?_⟩
    · intro x
      simp only [two_eq, LinOp.gram, List.map_map, Function.comp_def]
    · simp only [two_eq, linearRhs_spec]

/-- **exact condition**: for an unweighted loss (`W = id`) and `s0, s1 ≠ 0`, a solution of the stale FBlock system satisfies the
    documented normal equations of the current loss iff `(s1 − s0) · Σ ρ_i C_iᴴ C_i x = 0` -/
theorem fblockStale_exact (f : SqL2 S M Y') (s1 : S) (terms : List (Term S M U)) (x : M) (hW : ∀ v, f.W v = v)
    (h0 : 2 * f.scale ≠ 0) (h1 : 2 * s1 ≠ 0)
    (hsys : f.A.adj (f.A.eval x) + (1 / (2 * f.scale)) • (terms.map fun t => t.rho • t.C.adj (t.C.eval x)).sum
        = (1 / (2 * s1)) • rhsSpec (some (f.withScale s1)) terms) :
    lhsSpec (some (f.withScale s1)) terms x = rhsSpec (some (f.withScale s1)) terms ↔
      (s1 - f.scale) • (terms.map fun t => t.rho • t.C.adj (t.C.eval x)).sum = 0 := by
  have hl : lhsSpec (some (f.withScale s1)) terms x
      = (terms.map fun t => t.rho • t.C.adj (t.C.eval x)).sum + (2 * s1) • f.A.adj (f.A.eval x) := by
    simp only [lhsSpec, SqL2.withScale, hW]
  set g := (terms.map fun t => t.rho • t.C.adj (t.C.eval x)).sum with hg
  set r := rhsSpec (some (f.withScale s1)) terms with hr
  set a := f.A.adj (f.A.eval x) with ha
  -- multiply the stale system by 2 s1
  have hr' : r = (2 * s1) • a + ((2 * s1) / (2 * f.scale)) • g := by
    have := congrArg (fun v => (2 * s1) • v) hsys
    simp only [smul_add, smul_smul, mul_one_div_cancel h1, one_smul] at this
    rw [← this, mul_one_div]
  rw [hl, hr']
  have hs0 : f.scale ≠ 0 := fun h => h0 (by rw [h, mul_zero])
  constructor
  · intro h
    have h2 : g - ((2 * s1) / (2 * f.scale)) • g = 0 := by
      have e : g - ((2 * s1) / (2 * f.scale)) • g
          = (g + (2 * s1) • a) - ((2 * s1) • a + ((2 * s1) / (2 * f.scale)) • g) := by abel
      rw [e, h, sub_self]
    have h3 : ((f.scale - s1) / f.scale) • g = 0 := by
      rw [← h2]
      have : (2 * s1) / (2 * f.scale) = s1 / f.scale := by rw [mul_div_mul_left _ _ (left_ne_zero_of_mul h1)]
      rw [this, sub_div, div_self hs0, sub_smul, one_smul]
    have h4 := congrArg (fun v => (-f.scale) • v) h3
    simp only [smul_smul, smul_zero] at h4
    have e : -f.scale * ((f.scale - s1) / f.scale) = s1 - f.scale := by
      rw [neg_mul, mul_div_assoc', mul_div_cancel_left₀ _ hs0, neg_sub]
    rw [e] at h4
    exact h4
  · intro h
    have h5 : ((2 * s1) / (2 * f.scale)) • g = g := by
      have : (2 * s1) / (2 * f.scale) = 1 + (s1 - f.scale) / f.scale := by
        rw [mul_div_mul_left _ _ (left_ne_zero_of_mul h1), sub_div, div_self hs0]; ring
      rw [this, add_smul, one_smul, div_eq_mul_inv, mul_comm, ← smul_smul, h, smul_zero, add_zero]
    rw [h5, add_comm]

end Scico.LinSolve
