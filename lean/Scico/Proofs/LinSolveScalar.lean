/-
  Proofs about the bisection and golden-section models of `Scico.Model.LinSolve` (C14), over an
  arbitrary linearly ordered field `K` (so ℚ and ℝ), for every iteration count.
-/
import Mathlib.Algebra.Order.Field.Basic
import Mathlib.Tactic.Ring
import Mathlib.Tactic.Linarith
import Mathlib.Tactic.Positivity
import Mathlib.Tactic.FieldSimp
import Scico.Model.LinSolve

set_option linter.unusedSectionVars false

namespace Scico.LinSolve

variable {K : Type} [Field K] [LinearOrder K] [IsStrictOrderedRing K] [Inhabited K]

theorem thaw_ofFn {α : Type} [Inhabited α] {n : Nat} (f : Fin n → α) : thaw (Array.ofFn f) = f := by
  funext i
  simp [thaw, Array.getD]

theorem isZero_iff (x : K) : isZero x = true ↔ x = 0 := by
  simp only [isZero, Bool.and_eq_true, Bool.not_eq_true', decide_eq_false_iff_not, not_lt]
  constructor
  · rintro ⟨h1, h2⟩; exact le_antisymm h2 h1
  · rintro rfl; exact ⟨le_rfl, le_rfl⟩

theorem sgn_pos {x : K} (h : 0 < x) : sgn x = 1 := by simp [sgn, h]
theorem sgn_neg {x : K} (h : x < 0) : sgn x = -1 := by simp [sgn, h, not_lt.2 h.le]
theorem sgn_zero : sgn (0 : K) = 0 := by simp [sgn]

/-- `sign(x) * sign(y) == 1` iff `x y > 0` -/
theorem sameSign_iff (x y : K) : isZero (sgn x * sgn y - 1) = true ↔ 0 < x * y := by
  rw [isZero_iff]
  rcases lt_trichotomy x 0 with hx | rfl | hx <;> rcases lt_trichotomy y 0 with hy | rfl | hy
  · simp [sgn_neg hx, sgn_neg hy, mul_pos_of_neg_of_neg hx hy]
  · simp [sgn_zero]
  · simp [sgn_neg hx, sgn_pos hy, not_lt.2 (mul_nonpos_of_nonpos_of_nonneg hx.le hy.le)]; norm_num
  · simp [sgn_zero]
  · simp [sgn_zero]
  · simp [sgn_zero]
  · simp [sgn_pos hx, sgn_neg hy, not_lt.2 (mul_nonpos_of_nonneg_of_nonpos hx.le hy.le)]; norm_num
  · simp [sgn_zero]
  · simp [sgn_pos hx, sgn_pos hy, mul_pos hx hy]

theorem absv_eq_abs (x : K) : absv x = |x| := by
  unfold absv
  split
  · rename_i h; rw [abs_of_neg h]
  · rename_i h; rw [abs_of_nonneg (not_lt.1 h)]

/-! ## bisection -/

/-- what one loop body does to element `i` -/
theorem bisectStep_elem {n : Nat} (f : Fin n → K → K) (s : BisectSt K n) (i : Fin n) :
    (bisectStep f s).a i =
        (if 0 < s.fa i * f i ((s.a i + s.b i) / 2) ∨ f i ((s.a i + s.b i) / 2) = 0 then (s.a i + s.b i) / 2 else s.a i) ∧
    (bisectStep f s).b i =
        (if 0 < f i ((s.a i + s.b i) / 2) * s.fb i ∨ f i ((s.a i + s.b i) / 2) = 0 then (s.a i + s.b i) / 2 else s.b i) ∧
    (bisectStep f s).fa i = f i ((bisectStep f s).a i) ∧ (bisectStep f s).fb i = f i ((bisectStep f s).b i) ∧
    (bisectStep f s).steps = s.steps + 1 := by
  refine ⟨?_, ?_, ?_, ?_, rfl⟩ <;>
    (simp only [bisectStep, thaw_ofFn, Bool.or_eq_true, sameSign_iff]
     try simp only [isZero_iff, two, one_add_one_eq_two])

/-- per-element invariant of the bracket -/
structure BisectInv (f : K → K) (a0 b0 a b fa fb : K) : Prop where
  hfa : fa = f a
  hfb : fb = f b
  lo : a0 ≤ a
  mid : a ≤ b
  hi : b ≤ b0
  sign : f a * f b ≤ 0

theorem bisectStep_inv {n : Nat} (f : Fin n → K → K) (s : BisectSt K n) (i : Fin n) (a0 b0 : K)
    (h : BisectInv (f i) a0 b0 (s.a i) (s.b i) (s.fa i) (s.fb i)) :
    BisectInv (f i) a0 b0 ((bisectStep f s).a i) ((bisectStep f s).b i) ((bisectStep f s).fa i) ((bisectStep f s).fb i) := by
  obtain ⟨ha, hb, hfa, hfb, _⟩ := bisectStep_elem f s i
  obtain ⟨e1, e2, l1, l2, l3, sg⟩ := h
  set a := s.a i
  set b := s.b i
  set c := (a + b) / 2 with hc
  set t := f i c with ht
  have hac : a ≤ c := by rw [hc]; linarith
  have hcb : c ≤ b := by rw [hc]; linarith
  rw [e1] at ha
  rw [e2] at hb
  refine ⟨hfa, hfb, ?_, ?_, ?_, ?_⟩
  · rw [ha]; split <;> linarith
  · rw [ha, hb]; split <;> split <;> linarith
  · rw [hb]; split <;> linarith
  · rw [ha, hb]
    by_cases h0 : t = 0
    · simp [h0, ← ht]
    · by_cases h1 : 0 < f i a * t <;> by_cases h2 : 0 < t * f i b
      · -- both positive: f a · f b > 0, impossible
        exfalso
        have : 0 < (f i a * t) * (t * f i b) := mul_pos h1 h2
        have ht2 : 0 < t * t := mul_self_pos.2 h0
        nlinarith
      · simp only [h1, h2, h0, or_false, if_true, if_false, ← ht]
        exact not_lt.1 h2
      · simp only [h1, h2, h0, or_false, if_true, if_false, ← ht]
        exact not_lt.1 h1
      · simp only [h1, h2, h0, or_false, if_false]
        exact sg

/-- strict sign change: the width halves, unless an exact zero is hit (then the bracket collapses on it) -/
theorem bisectStep_strict {n : Nat} (f : Fin n → K → K) (s : BisectSt K n) (i : Fin n)
    (e1 : s.fa i = f i (s.a i)) (e2 : s.fb i = f i (s.b i)) :
    (f i (s.a i) * f i (s.b i) < 0 →
      (f i ((bisectStep f s).a i) * f i ((bisectStep f s).b i) < 0 ∧
          (bisectStep f s).b i - (bisectStep f s).a i = (s.b i - s.a i) / 2) ∨
        ((bisectStep f s).a i = (bisectStep f s).b i ∧ f i ((bisectStep f s).a i) = 0)) ∧
    ((s.a i = s.b i ∧ f i (s.a i) = 0) →
        ((bisectStep f s).a i = (bisectStep f s).b i ∧ f i ((bisectStep f s).a i) = 0)) := by
  obtain ⟨ha, hb, _, _, _⟩ := bisectStep_elem f s i
  set a := s.a i
  set b := s.b i
  set c := (a + b) / 2 with hc
  set t := f i c with ht
  rw [e1] at ha
  rw [e2] at hb
  constructor
  · intro sg
    by_cases h0 : t = 0
    · right
      rw [ha, hb]; simp [h0, ← ht]
    · left
      have ht2 : 0 < t * t := mul_self_pos.2 h0
      have hprod : (f i a * t) * (t * f i b) < 0 := by nlinarith
      by_cases h1 : 0 < f i a * t
      · have h2 : t * f i b < 0 := by
          by_contra hcon
          have := mul_nonneg h1.le (not_lt.1 hcon)
          linarith
        rw [ha, hb]
        simp only [h1, h0, not_lt.2 h2.le, or_false, if_true, if_false, ← ht]
        exact ⟨h2, by rw [hc]; ring⟩
      · have h1' : f i a * t < 0 := by
          rcases lt_or_eq_of_le (not_lt.1 h1) with h | h
          · exact h
          · rw [h] at hprod; simp at hprod
        have h2 : 0 < t * f i b := by
          by_contra hcon
          have := mul_nonneg_of_nonpos_of_nonpos h1'.le (not_lt.1 hcon)
          linarith
        rw [ha, hb]
        simp only [h1, h2, h0, or_false, if_true, if_false, ← ht]
        exact ⟨h1', by rw [hc]; ring⟩
  · rintro ⟨hab, hz⟩
    have hca : c = a := by rw [hc, ← hab]; ring
    have h0 : t = 0 := by rw [ht, hca]; exact hz
    rw [ha, hb]; simp [h0, ← ht]

theorem foldl_max_ge (l : List K) : ∀ (init : K), init ≤ l.foldl max init ∧ ∀ x ∈ l, x ≤ l.foldl max init := by
  induction l with
  | nil => intro init; simp
  | cons y ys ih =>
    intro init
    obtain ⟨h1, h2⟩ := ih (max init y)
    simp only [List.foldl_cons, List.mem_cons]
    refine ⟨le_trans (le_max_left _ _) h1, ?_⟩
    rintro x (rfl | hx)
    · exact le_trans (le_max_right _ _) h1
    · exact h2 x hx

/-- every entry is bounded by `snp.max(snp.abs(v))` -/
theorem le_vmaxAbs {n : Nat} (v : Vec K n) (i : Fin n) : |v i| ≤ vmaxAbs v := by
  unfold vmaxAbs
  rw [← absv_eq_abs]
  exact (foldl_max_ge _ 0).2 _ (List.mem_ofFn.2 ⟨i, rfl⟩)

theorem bisectStep_xerr {n : Nat} (f : Fin n → K → K) (s : BisectSt K n) (i : Fin n) :
    |(bisectStep f s).b i - (bisectStep f s).a i| ≤ (bisectStep f s).xerr := by
  have : (bisectStep f s).xerr = vmaxAbs fun i => (bisectStep f s).b i - (bisectStep f s).a i := by
    simp only [bisectStep, thaw_ofFn]
  rw [this]
  exact le_vmaxAbs (fun j => (bisectStep f s).b j - (bisectStep f s).a j) i

theorem bisectInit_inv {n : Nat} (f : Fin n → K → K) (a0 b0 : Vec K n) (i : Fin n) (h0 : a0 i ≤ b0 i)
    (hs : f i (a0 i) * f i (b0 i) ≤ 0) :
    BisectInv (f i) (a0 i) (b0 i) ((bisectInit f a0 b0).a i) ((bisectInit f a0 b0).b i)
      ((bisectInit f a0 b0).fa i) ((bisectInit f a0 b0).fb i) :=
  ⟨rfl, rfl, le_rfl, h0, le_rfl, hs⟩

/-- the bracket invariants after any number `k` of loop bodies -/
theorem bisect_iterate_inv {n : Nat} (f : Fin n → K → K) (a0 b0 : Vec K n) (i : Fin n) (h0 : a0 i ≤ b0 i)
    (hs : f i (a0 i) * f i (b0 i) ≤ 0) (k : Nat) :
    BisectInv (f i) (a0 i) (b0 i) (((bisectStep f)^[k] (bisectInit f a0 b0)).a i) (((bisectStep f)^[k] (bisectInit f a0 b0)).b i)
      (((bisectStep f)^[k] (bisectInit f a0 b0)).fa i) (((bisectStep f)^[k] (bisectInit f a0 b0)).fb i) := by
  induction k with
  | zero => exact bisectInit_inv f a0 b0 i h0 hs
  | succ k ih =>
    rw [Function.iterate_succ_apply']
    exact bisectStep_inv f _ i _ _ ih

/-- with a strict sign change initially: after `k` bodies the width is `(b₀ − a₀)/2^k`, unless an exact
    zero was hit, in which case the bracket has collapsed onto that zero -/
theorem bisect_iterate_strict {n : Nat} (f : Fin n → K → K) (a0 b0 : Vec K n) (i : Fin n) (h0 : a0 i ≤ b0 i)
    (hs : f i (a0 i) * f i (b0 i) < 0) (k : Nat) :
    let s := (bisectStep f)^[k] (bisectInit f a0 b0)
    (f i (s.a i) * f i (s.b i) < 0 ∧ s.b i - s.a i = (b0 i - a0 i) / 2 ^ k) ∨ (s.a i = s.b i ∧ f i (s.a i) = 0) := by
  induction k with
  | zero => left; exact ⟨hs, by simp [bisectInit]⟩
  | succ k ih =>
    simp only [Function.iterate_succ_apply'] at ih ⊢
    have hinv := bisect_iterate_inv f a0 b0 i h0 hs.le k
    obtain ⟨p1, p2⟩ := bisectStep_strict f ((bisectStep f)^[k] (bisectInit f a0 b0)) i hinv.hfa hinv.hfb
    rcases ih with ⟨hlt, hw⟩ | hz
    · rcases p1 hlt with ⟨q1, q2⟩ | q
      · left
        refine ⟨q1, ?_⟩
        rw [q2, hw, pow_succ]; field_simp
      · right; exact q
    · right; exact p2 hz

/-- the loop returns some iterate of the body; it stops early only when both tolerances are met -/
theorem bisectLoop_iterate {n : Nat} (f : Fin n → K → K) (xtol ftol : K) :
    ∀ (fuel : Nat) (s : BisectSt K n), ∃ k, k ≤ fuel ∧
      bisectLoop f xtol ftol fuel s = (bisectStep f)^[k] s ∧
      (k = fuel ∨ ((bisectLoop f xtol ftol fuel s).xerr ≤ xtol ∧ (bisectLoop f xtol ftol fuel s).ferr ≤ ftol ∧ 0 < k))
  | 0, s => ⟨0, le_rfl, rfl, Or.inl rfl⟩
  | fuel + 1, s => by
    unfold bisectLoop
    simp only
    split
    · rename_i hc
      exact ⟨1, by omega, rfl, Or.inr ⟨hc.1, hc.2, by omega⟩⟩
    · obtain ⟨k, hk, he, hx⟩ := bisectLoop_iterate f xtol ftol fuel (bisectStep f s)
      refine ⟨k + 1, by omega, ?_, ?_⟩
      · rw [he, Function.iterate_succ_apply]
      · rcases hx with rfl | ⟨h1, h2, _⟩
        · left; rfl
        · right; exact ⟨h1, h2, by omega⟩

theorem bisectPick_mem {n : Nat} (s : BisectSt K n) (i : Fin n) :
    bisectPick s i = s.a i ∨ bisectPick s i = s.b i := by
  unfold bisectPick
  split
  · right; rfl
  · left; rfl

/-! ## golden-section search -/

/-- strict unimodality on `[lo, hi]` with minimiser `xs` (the specification's hypothesis) -/
structure Unimodal (f : K → K) (lo hi xs : K) : Prop where
  mem_lo : lo ≤ xs
  mem_hi : xs ≤ hi
  dec : ∀ u v, lo ≤ u → u < v → v ≤ xs → f v < f u
  inc : ∀ u v, xs ≤ u → u < v → v ≤ hi → f u < f v

theorem goldShrink_elem {n : Nat} (f : Fin n → K → K) (s : GoldSt K n) (i : Fin n) :
    (goldShrink f s).a i = (if f i (s.d i) ≤ f i (s.c i) then s.c i else s.a i) ∧
    (goldShrink f s).b i = (if f i (s.c i) < f i (s.d i) then s.d i else s.b i) ∧
    (goldShrink f s).steps = s.steps + 1 ∧
    (goldShrink f s).xerr = vmaxAbs (fun j => (goldShrink f s).b j - (goldShrink f s).a j) := by
  refine ⟨?_, ?_, ?_, ?_⟩ <;> simp only [goldShrink, thaw_ofFn, ge_iff_le]

theorem goldPoints_elem {n : Nat} (gr : K) (s : GoldSt K n) (i : Fin n) :
    (goldPoints gr s).a i = s.a i ∧ (goldPoints gr s).b i = s.b i ∧
    (goldPoints gr s).c i = s.b i - gr * (s.b i - s.a i) ∧ (goldPoints gr s).d i = s.a i + gr * (s.b i - s.a i) ∧
    (goldPoints gr s).steps = s.steps := by
  refine ⟨?_, ?_, ?_, ?_, ?_⟩ <;> simp only [goldPoints, thaw_ofFn]

/-- per-element invariant at the top of a loop body -/
structure GoldInv (gr : K) (f : K → K) (a0 b0 xs : K) (w : K) (a b c d : K) : Prop where
  lo : a0 ≤ a
  hi : b ≤ b0
  lt : a < b
  hc : c = b - gr * (b - a)
  hd : d = a + gr * (b - a)
  xa : a ≤ xs
  xb : xs ≤ b
  width : b - a = w

/-- one shrink: the minimiser stays inside, the bracket stays inside the old one, the width is
    multiplied by `gr` -/
theorem goldShrink_inv {n : Nat} (gr : K) (hg1 : 1 / 2 < gr) (hg2 : gr < 1) (f : Fin n → K → K) (s : GoldSt K n)
    (i : Fin n) (a0 b0 xs w : K) (hu : Unimodal (f i) a0 b0 xs)
    (h : GoldInv gr (f i) a0 b0 xs w (s.a i) (s.b i) (s.c i) (s.d i)) :
    let s' := goldShrink f s
    a0 ≤ s'.a i ∧ s'.b i ≤ b0 ∧ s.a i ≤ s'.a i ∧ s'.b i ≤ s.b i ∧ s'.a i < s'.b i ∧ s'.a i ≤ xs ∧ xs ≤ s'.b i ∧
      s'.b i - s'.a i = gr * w := by
  obtain ⟨ea, eb, _, _⟩ := goldShrink_elem f s i
  obtain ⟨lo, hi, lt, hc, hd, xa, xb, width⟩ := h
  set a := s.a i
  set b := s.b i
  set c := s.c i
  set d := s.d i
  have hpos : 0 < b - a := sub_pos.2 lt
  have hac : a < c := by rw [hc]; nlinarith
  have hcd : c < d := by rw [hc, hd]; nlinarith
  have hdb : d < b := by rw [hd]; nlinarith
  intro s'
  show a0 ≤ (goldShrink f s).a i ∧ (goldShrink f s).b i ≤ b0 ∧ a ≤ (goldShrink f s).a i ∧ (goldShrink f s).b i ≤ b ∧
    (goldShrink f s).a i < (goldShrink f s).b i ∧ (goldShrink f s).a i ≤ xs ∧ xs ≤ (goldShrink f s).b i ∧
    (goldShrink f s).b i - (goldShrink f s).a i = gr * w
  rw [ea, eb]
  by_cases hlt : f i c < f i d
  · have hx : xs ≤ d := by
      by_contra hcon
      have := hu.dec c d (by linarith) hcd (not_le.1 hcon).le
      linarith
    simp only [hlt, not_le.2 hlt, if_true, if_false]
    refine ⟨lo, by linarith, le_rfl, hdb.le, by linarith, xa, hx, ?_⟩
    rw [hd, ← width]; ring
  · have hx : c ≤ xs := by
      by_contra hcon
      have := hu.inc c d (not_le.1 hcon).le hcd (by linarith)
      exact hlt this
    simp only [hlt, not_lt.1 hlt, if_true, if_false]
    refine ⟨by linarith, hi, hac.le, le_rfl, by linarith, hx, xb, ?_⟩
    rw [hc, ← width]; ring

/-- a full loop body (`goldShrink` then `goldPoints`) re-establishes the invariant with width `gr · w` -/
theorem goldIter_inv {n : Nat} (gr : K) (hg1 : 1 / 2 < gr) (hg2 : gr < 1) (f : Fin n → K → K) (s : GoldSt K n)
    (i : Fin n) (a0 b0 xs w : K) (hu : Unimodal (f i) a0 b0 xs)
    (h : GoldInv gr (f i) a0 b0 xs w (s.a i) (s.b i) (s.c i) (s.d i)) :
    GoldInv gr (f i) a0 b0 xs (gr * w) ((goldPoints gr (goldShrink f s)).a i) ((goldPoints gr (goldShrink f s)).b i)
      ((goldPoints gr (goldShrink f s)).c i) ((goldPoints gr (goldShrink f s)).d i) := by
  obtain ⟨p1, p2, p3, p4, _⟩ := goldPoints_elem gr (goldShrink f s) i
  obtain ⟨q1, q2, _, _, q5, q6, q7, q8⟩ := goldShrink_inv gr hg1 hg2 f s i a0 b0 xs w hu h
  rw [p1, p2, p3, p4]
  exact ⟨q1, q2, q5, rfl, rfl, q6, q7, q8⟩

theorem goldInit_inv {n : Nat} (gr : K) (f : Fin n → K → K) (a0 b0 : Vec K n) (i : Fin n) (xs : K)
    (hab : a0 i < b0 i) (hu : Unimodal (f i) (a0 i) (b0 i) xs) :
    GoldInv gr (f i) (a0 i) (b0 i) xs (b0 i - a0 i) ((goldInit gr a0 b0 none).a i) ((goldInit gr a0 b0 none).b i)
      ((goldInit gr a0 b0 none).c i) ((goldInit gr a0 b0 none).d i) :=
  ⟨le_rfl, le_rfl, hab, rfl, rfl, hu.mem_lo, hu.mem_hi, rfl⟩

theorem gold_iterate_inv {n : Nat} (gr : K) (hg1 : 1 / 2 < gr) (hg2 : gr < 1) (f : Fin n → K → K) (a0 b0 : Vec K n)
    (i : Fin n) (xs : K) (hab : a0 i < b0 i) (hu : Unimodal (f i) (a0 i) (b0 i) xs) (k : Nat) :
    let s := (fun s => goldPoints gr (goldShrink f s))^[k] (goldInit gr a0 b0 none)
    GoldInv gr (f i) (a0 i) (b0 i) xs (gr ^ k * (b0 i - a0 i)) (s.a i) (s.b i) (s.c i) (s.d i) := by
  induction k with
  | zero => simpa using goldInit_inv gr f a0 b0 i xs hab hu
  | succ k ih =>
    simp only [Function.iterate_succ_apply'] at ih ⊢
    have := goldIter_inv gr hg1 hg2 f _ i (a0 i) (b0 i) xs _ hu ih
    rw [pow_succ, mul_comm (gr ^ k) gr, mul_assoc]
    exact this

/-- the bracket returned by the loop is the bracket after the shrink of some iterate of the full body;
    the loop stops early only when the tolerance is met -/
theorem goldLoop_iterate {n : Nat} (gr : K) (f : Fin n → K → K) (xtol : K) :
    ∀ (fuel : Nat) (s : GoldSt K n), 0 < fuel → ∃ k, k < fuel ∧
      (goldLoop gr f xtol fuel s).a = (goldShrink f ((fun s => goldPoints gr (goldShrink f s))^[k] s)).a ∧
      (goldLoop gr f xtol fuel s).b = (goldShrink f ((fun s => goldPoints gr (goldShrink f s))^[k] s)).b ∧
      (goldLoop gr f xtol fuel s).xerr = (goldShrink f ((fun s => goldPoints gr (goldShrink f s))^[k] s)).xerr ∧
      (k + 1 = fuel ∨ (goldLoop gr f xtol fuel s).xerr ≤ xtol)
  | 0, s, h => by omega
  | fuel + 1, s, _ => by
    unfold goldLoop
    simp only
    split
    · rename_i hc
      exact ⟨0, by omega, rfl, rfl, rfl, Or.inr hc⟩
    · by_cases hf : fuel = 0
      · subst hf
        exact ⟨0, by omega, by simp [goldLoop, goldPoints], by simp [goldLoop, goldPoints], by simp [goldLoop, goldPoints],
          Or.inl rfl⟩
      · obtain ⟨k, hk, he1, he2, he3, hx⟩ := goldLoop_iterate gr f xtol fuel (goldPoints gr (goldShrink f s)) (by omega)
        refine ⟨k + 1, by omega, ?_, ?_, ?_, ?_⟩
        · rw [he1, Function.iterate_succ_apply]
        · rw [he2, Function.iterate_succ_apply]
        · rw [he3, Function.iterate_succ_apply]
        · rcases hx with h | h
          · left; omega
          · right; exact h

theorem goldPick_mem {n : Nat} (f : Fin n → K → K) (s : GoldSt K n) (i : Fin n) :
    goldPick f s i = s.a i ∨ goldPick f s i = s.b i := by
  unfold goldPick
  split
  · right; rfl
  · left; rfl

/-! ## assembled specifications -/

theorem bisect_iterate_steps {n : Nat} (f : Fin n → K → K) (s : BisectSt K n) (k : Nat) :
    ((bisectStep f)^[k] s).steps = s.steps + k := by
  induction k with
  | zero => rfl
  | succ k ih =>
    rw [Function.iterate_succ_apply']
    show ((bisectStep f)^[k] s).steps + 1 = _
    rw [ih]; omega

theorem bisect_spec {n : Nat} (f : Fin n → K → K) (a0 b0 : Vec K n) (xtol ftol : K) (maxiter : Nat) (rc : Bool)
    (x : Vec K n) (s : BisectSt K n) (h : bisect f a0 b0 xtol ftol maxiter rc = .ok (x, s)) (i : Fin n)
    (h0 : a0 i ≤ b0 i) (hs : f i (a0 i) * f i (b0 i) ≤ 0) :
    a0 i ≤ s.a i ∧ s.a i ≤ s.b i ∧ s.b i ≤ b0 i ∧ f i (s.a i) * f i (s.b i) ≤ 0 ∧
    (x i = s.a i ∨ x i = s.b i) ∧ a0 i ≤ x i ∧ x i ≤ b0 i ∧ s.steps ≤ maxiter ∧
    (s.steps < maxiter → s.xerr ≤ xtol ∧ s.ferr ≤ ftol ∧ s.b i - s.a i ≤ xtol ∧ |x i - s.a i| ≤ xtol ∧ |x i - s.b i| ≤ xtol) := by
  unfold bisect at h
  simp only at h
  split at h
  · cases h
  · simp only [Except.ok.injEq, Prod.mk.injEq] at h
    obtain ⟨hx, hs'⟩ := h
    obtain ⟨k, hk, he, hexit⟩ := bisectLoop_iterate f xtol ftol maxiter (bisectInit f a0 b0)
    have hinv := bisect_iterate_inv f a0 b0 i h0 hs k
    rw [← he, hs'] at hinv
    have hsteps : s.steps = k := by
      rw [← hs', he, bisect_iterate_steps]; simp [bisectInit]
    have hpick : x i = s.a i ∨ x i = s.b i := by
      rw [← hx, hs']; exact bisectPick_mem s i
    have hxlo : a0 i ≤ x i := by rcases hpick with e | e <;> rw [e] <;> linarith [hinv.lo, hinv.mid]
    have hxhi : x i ≤ b0 i := by rcases hpick with e | e <;> rw [e] <;> linarith [hinv.hi, hinv.mid]
    refine ⟨hinv.lo, hinv.mid, hinv.hi, ?_, hpick, hxlo, hxhi, by omega, ?_⟩
    · have := hinv.sign; exact this
    · intro hlt
      rcases hexit with hk' | ⟨hxe, hfe, hkpos⟩
      · omega
      · rw [hs'] at hxe hfe
        have hw : s.b i - s.a i ≤ xtol := by
          obtain ⟨j, rfl⟩ : ∃ j, k = j + 1 := ⟨k - 1, by omega⟩
          have hb := bisectStep_xerr f ((bisectStep f)^[j] (bisectInit f a0 b0)) i
          rw [← Function.iterate_succ_apply' (bisectStep f), ← he, hs'] at hb
          exact le_trans (le_trans (le_abs_self _) hb) hxe
        have hm := hinv.mid
        refine ⟨hxe, hfe, hw, ?_, ?_⟩
        · rcases hpick with e | e <;> rw [e]
          · simp; linarith
          · rw [abs_of_nonneg (by linarith)]; exact hw
        · rcases hpick with e | e <;> rw [e]
          · rw [abs_sub_comm, abs_of_nonneg (by linarith)]; exact hw
          · simp; linarith

theorem golden_spec {n : Nat} (gr : K) (hg1 : 1 / 2 < gr) (hg2 : gr < 1) (f : Fin n → K → K) (a0 b0 : Vec K n)
    (xtol : K) (maxiter : Nat) (hmax : 0 < maxiter) (i : Fin n) (xs : K) (hab : a0 i < b0 i)
    (hu : Unimodal (f i) (a0 i) (b0 i) xs) :
    let out := golden gr f a0 b0 none xtol maxiter
    ∃ k, k < maxiter ∧ a0 i ≤ out.2.a i ∧ out.2.a i ≤ xs ∧ xs ≤ out.2.b i ∧ out.2.b i ≤ b0 i ∧
      out.2.b i - out.2.a i = gr ^ (k + 1) * (b0 i - a0 i) ∧
      (out.1 i = out.2.a i ∨ out.1 i = out.2.b i) ∧ |out.1 i - xs| ≤ gr ^ (k + 1) * (b0 i - a0 i) ∧
      (k + 1 = maxiter ∨ (out.2.xerr ≤ xtol ∧ |out.1 i - xs| ≤ xtol)) := by
  intro out
  obtain ⟨k, hk, ea, eb, ex, hexit⟩ := goldLoop_iterate gr f xtol maxiter (goldInit gr a0 b0 none) hmax
  have hinv := gold_iterate_inv gr hg1 hg2 f a0 b0 i xs hab hu k
  obtain ⟨q1, q2, _, _, q5, q6, q7, q8⟩ := goldShrink_inv gr hg1 hg2 f _ i (a0 i) (b0 i) xs _ hu hinv
  have hA : out.2.a i = (goldShrink f ((fun s => goldPoints gr (goldShrink f s))^[k] (goldInit gr a0 b0 none))).a i :=
    congrFun ea i
  have hB : out.2.b i = (goldShrink f ((fun s => goldPoints gr (goldShrink f s))^[k] (goldInit gr a0 b0 none))).b i :=
    congrFun eb i
  have hw : out.2.b i - out.2.a i = gr ^ (k + 1) * (b0 i - a0 i) := by
    rw [hA, hB, q8, pow_succ]; ring
  have hpick : out.1 i = out.2.a i ∨ out.1 i = out.2.b i := goldPick_mem f out.2 i
  have hdist : |out.1 i - xs| ≤ out.2.b i - out.2.a i := by
    rw [← hA] at q6; rw [← hB] at q7
    rcases hpick with e | e <;> rw [e, abs_le] <;> constructor <;> linarith
  refine ⟨k, hk, by rw [hA]; exact q1, by rw [hA]; exact q6, by rw [hB]; exact q7, by rw [hB]; exact q2, hw, hpick,
    by rw [← hw]; exact hdist, ?_⟩
  rcases hexit with h | h
  · exact Or.inl h
  · right
    refine ⟨h, le_trans hdist ?_⟩
    have hxerr : |out.2.b i - out.2.a i| ≤ out.2.xerr := by
      have e4 := (goldShrink_elem f ((fun s => goldPoints gr (goldShrink f s))^[k] (goldInit gr a0 b0 none)) i).2.2.2
      rw [show out.2.xerr = _ from ex, e4, hA, hB]
      exact le_vmaxAbs (fun j => (goldShrink f _).b j - (goldShrink f _).a j) i
    exact le_trans (le_trans (le_abs_self _) hxerr) h

end Scico.LinSolve
