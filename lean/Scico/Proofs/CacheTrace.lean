/-
  Cached traces and parameter updates (`Scico.Model.Cache` §7): invariant of the trace cache.
-/
import Scico.Model.Cache
import Mathlib.Logic.Basic
import Mathlib.Data.List.Basic

namespace Scico.Cache

variable {ν : Type}

/-- every cached trace agrees with the current attributes on the trace-time attributes -/
def TracedObj.Fresh (traced : String → Bool) (o : TracedObj ν) : Prop :=
  ∀ e ∈ o.cache, ∀ a, traced a = true → e.2 a = o.attrs a

/-- an operation that does not assign a trace-time attribute -/
def TraceOp.harmless (traced : String → Bool) : TraceOp ν → Prop
  | .set a _ => traced a = false
  | .call _ => True

theorem TracedObj.fresh_step (traced : String → Bool) (o : TracedObj ν) (h : o.Fresh traced) (op : TraceOp ν)
    (hop : op.harmless traced) : (o.step op).Fresh traced := by
  cases op with
  | set a v =>
    intro e he b hb
    have hab : b ≠ a := by
      intro hba; subst hba
      simp only [TraceOp.harmless] at hop
      rw [hop] at hb; cases hb
    simp only [TracedObj.step, hab, if_false]
    exact h e he b hb
  | call sig =>
    simp only [TracedObj.step]
    cases hf : o.cache.find? (fun e => e.1 == sig) with
    | some e0 => simpa [hf] using h
    | none =>
      intro e he b hb
      simp only [List.mem_append, List.mem_singleton] at he
      rcases he with he | rfl
      · exact h e he b hb
      · rfl

theorem TracedObj.fresh_run (traced : String → Bool) (ops : List (TraceOp ν)) :
    ∀ o : TracedObj ν, o.Fresh traced → (∀ op ∈ ops, op.harmless traced) → (o.run ops).Fresh traced := by
  induction ops with
  | nil => intro o h _; exact h
  | cons op ops ih =>
    intro o h hall
    exact ih _ (TracedObj.fresh_step traced o h op (hall op List.mem_cons_self))
      (fun q hq => hall q (List.mem_cons_of_mem _ hq))

theorem TracedObj.effective_of_fresh (traced : String → Bool) (o : TracedObj ν) (h : o.Fresh traced) (sig : Nat) :
    o.effective traced sig = o.attrs := by
  unfold TracedObj.effective
  cases hf : o.cache.find? (fun e => e.1 == sig) with
  | none => rfl
  | some e =>
    funext a
    by_cases ht : traced a = true
    · simp only [ht, if_true]; exact h e (List.mem_of_find?_eq_some hf) a ht
    · simp [ht]

end Scico.Cache
