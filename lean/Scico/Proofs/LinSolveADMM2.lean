/-
  Round 2 additions for property C10:
  * uniqueness of the solution of the x-step normal equations when the quadratic part is positive definite
    (so every exact solver returns the same `x`);
  * the objective `GenericSubproblemSolver` hands to scipy (`genericObj`) *is* the x-step objective for a weighted
    squared-l2 loss, hence its exact minimisers are the solutions of the normal equations;
  * `rel_res` is invariant under a common non-zero scaling of both sides (the block-circulant solvers report the
    accuracy of the system divided by `2α` resp. `2ωρ₁`).
-/
import Scico.Proofs.LinSolveADMM
import Scico.Proofs.LinSolveScalar

set_option linter.unusedSectionVars false

namespace Scico.LinSolve
open RCLike

variable {𝕜 V Y : Type} [RCLike 𝕜] [NormedAddCommGroup V] [InnerProductSpace 𝕜 V]
  [NormedAddCommGroup Y] [InnerProductSpace 𝕜 Y]

section Family
variable {ι : Type} [Fintype ι] {U : ι → Type} [∀ i, NormedAddCommGroup (U i)] [∀ i, InnerProductSpace 𝕜 (U i)]

/-- the quadratic part of the x-step objective -/
noncomputable def xstepQuad (A : V →ₗ[𝕜] Y) (W : Y →ₗ[𝕜] Y) (C : ∀ i, V →ₗ[𝕜] U i) (α : ℝ) (ρ : ι → ℝ) (h : V) : ℝ :=
  2 * α * re (inner 𝕜 (A h) (W (A h))) + ∑ i, ρ i * ‖C i h‖ ^ 2

/-- `re ⟪h, N h⟫ = 2α ⟪A h, W A h⟫ + Σ ρ_i ‖C_i h‖²` for the normal-equation operator `N` -/
theorem re_inner_normalOp (A : V →ₗ[𝕜] Y) (AH : Y →ₗ[𝕜] V) (hA : ∀ x y, inner 𝕜 (A x) y = inner 𝕜 x (AH y))
    (W : Y →ₗ[𝕜] Y) (C : ∀ i, V →ₗ[𝕜] U i) (CH : ∀ i, U i →ₗ[𝕜] V) (hC : ∀ i x y, inner 𝕜 (C i x) y = inner 𝕜 x (CH i y))
    (α : ℝ) (ρ : ι → ℝ) (h : V) :
    re (inner 𝕜 h (((2 * α : ℝ) : 𝕜) • AH (W (A h)) + ∑ i, ((ρ i : ℝ) : 𝕜) • CH i (C i h))) = xstepQuad A W C α ρ h := by
  unfold xstepQuad
  rw [inner_add_right, inner_smul_right, inner_sum, map_add, map_sum, re_ofReal_mul, ← hA]
  congr 1
  apply Finset.sum_congr rfl
  intro i _
  rw [inner_smul_right, re_ofReal_mul, ← hC, inner_self_eq_norm_sq_to_K]
  norm_cast

/-- **uniqueness**: if the quadratic part is positive definite, the normal equations have at most one solution -/
theorem normal_eq_unique (A : V →ₗ[𝕜] Y) (AH : Y →ₗ[𝕜] V) (hA : ∀ x y, inner 𝕜 (A x) y = inner 𝕜 x (AH y))
    (W : Y →ₗ[𝕜] Y) (C : ∀ i, V →ₗ[𝕜] U i) (CH : ∀ i, U i →ₗ[𝕜] V) (hC : ∀ i x y, inner 𝕜 (C i x) y = inner 𝕜 x (CH i y))
    (α : ℝ) (ρ : ι → ℝ) (hpd : ∀ h, h ≠ 0 → 0 < xstepQuad A W C α ρ h) (rhs : V) (x1 x2 : V)
    (h1 : ((2 * α : ℝ) : 𝕜) • AH (W (A x1)) + ∑ i, ((ρ i : ℝ) : 𝕜) • CH i (C i x1) = rhs)
    (h2 : ((2 * α : ℝ) : 𝕜) • AH (W (A x2)) + ∑ i, ((ρ i : ℝ) : 𝕜) • CH i (C i x2) = rhs) : x1 = x2 := by
  by_contra hne
  have hh : x1 - x2 ≠ 0 := sub_ne_zero.2 hne
  have hN : ((2 * α : ℝ) : 𝕜) • AH (W (A (x1 - x2))) + ∑ i, ((ρ i : ℝ) : 𝕜) • CH i (C i (x1 - x2)) = 0 := by
    have e : ((2 * α : ℝ) : 𝕜) • AH (W (A (x1 - x2))) + ∑ i, ((ρ i : ℝ) : 𝕜) • CH i (C i (x1 - x2))
        = (((2 * α : ℝ) : 𝕜) • AH (W (A x1)) + ∑ i, ((ρ i : ℝ) : 𝕜) • CH i (C i x1))
          - (((2 * α : ℝ) : 𝕜) • AH (W (A x2)) + ∑ i, ((ρ i : ℝ) : 𝕜) • CH i (C i x2)) := by
      simp only [map_sub, smul_sub, Finset.sum_sub_distrib]
      abel
    rw [e, h1, h2, sub_self]
  have := re_inner_normalOp A AH hA W C CH hC α ρ (x1 - x2)
  rw [hN, inner_zero_right] at this
  have hp := hpd _ hh
  rw [← this] at hp
  simp at hp

/-- a sufficient condition met by every generated problem: some `C_i` is injective with `ρ_i > 0`
    (e.g. an `Identity`), `W ⪰ 0`, `α ≥ 0`, all `ρ ≥ 0` -/
theorem xstepQuad_pos_of_injective (A : V →ₗ[𝕜] Y) (W : Y →ₗ[𝕜] Y) (hWp : ∀ u, 0 ≤ re (inner 𝕜 u (W u)))
    (C : ∀ i, V →ₗ[𝕜] U i) (α : ℝ) (hα : 0 ≤ α) (ρ : ι → ℝ) (hρ : ∀ i, 0 ≤ ρ i)
    (i0 : ι) (hρ0 : 0 < ρ i0) (hinj : ∀ h, C i0 h = 0 → h = 0) (h : V) (hh : h ≠ 0) :
    0 < xstepQuad A W C α ρ h := by
  unfold xstepQuad
  have h1 : 0 ≤ 2 * α * re (inner 𝕜 (A h) (W (A h))) := mul_nonneg (by linarith) (hWp _)
  have h2 : 0 < ∑ i, ρ i * ‖C i h‖ ^ 2 := by
    apply Finset.sum_pos'
    · intro i _; exact mul_nonneg (hρ i) (by positivity)
    · refine ⟨i0, Finset.mem_univ _, mul_pos hρ0 ?_⟩
      have : C i0 h ≠ 0 := fun hc => hh (hinj h hc)
      positivity
  linarith

end Family

/-! ## the objective of `GenericSubproblemSolver` -/

section Generic
variable {U : Type} [NormedAddCommGroup U] [InnerProductSpace 𝕜 U] {n : Nat}

theorem foldl_add_sum' {β : Type} (l : List β) (h : β → ℝ) (r0 : ℝ) :
    l.foldl (fun r t => r + h t) r0 = r0 + (l.map h).sum := by
  induction l generalizing r0 with
  | nil => simp
  | cons t ts ih => rw [List.foldl_cons, ih]; simp [add_assoc]

/-- **`GenericSubproblemSolver.solve.obj`** with the loss `f(x) = α ⟪Ax − y, W(Ax − y)⟫` (what `SquaredL2Loss.__call__`
    evaluates) and `sqnorm = Σ|·|²`: the function handed to scipy is the x-step objective. -/
theorem genericObj_eq_xstepObj (A : V →ₗ[𝕜] Y) (W : Y →ₗ[𝕜] Y) (C : Fin n → V →ₗ[𝕜] U) (α : ℝ) (ρ : Fin n → ℝ) (y : Y)
    (z u : Fin n → U) (x : V) :
    genericObj (fun w : U => ‖w‖ ^ 2) (some fun x => α * re (inner 𝕜 (A x - y) (W (A x - y))))
        (List.ofFn fun i => (ρ i, (⇑(C i) : V → U), z i, u i)) x
      = xstepObj (U := fun _ : Fin n => U) A W C α ρ y (fun i => z i - u i) x := by
  unfold genericObj xstepObj
  simp only
  rw [foldl_add_sum', zero_add, List.map_ofFn, List.sum_ofFn, add_comm]
  congr 1
  apply Finset.sum_congr rfl
  intro i _
  simp only [Function.comp_def, two]
  ring

end Generic

/-! ## `rel_res` is invariant under scaling of the system -/

/-- `rel_res(c·ax, c·b) = rel_res(ax, b)` for `c ≠ 0` (norms given: `‖c v‖ = |c| ‖v‖`) -/
theorem relResOf_scale (k nax nb nd : ℝ) (hk : 0 < k) :
    relResOf (k * nax) (k * nb) (k * nd) = relResOf nax nb nd := by
  unfold relResOf
  simp only
  rw [← mul_max_of_nonneg _ _ hk.le]
  by_cases h0 : max nax nb = 0
  · have hz : isZero (max nax nb) = true := (isZero_iff _).2 h0
    have hz' : isZero (k * max nax nb) = true := (isZero_iff _).2 (by rw [h0, mul_zero])
    rw [if_pos hz, if_pos hz']
  · have hz : ¬ isZero (max nax nb) = true := fun h => h0 ((isZero_iff _).1 h)
    have hz' : ¬ isZero (k * max nax nb) = true := fun h =>
      h0 ((mul_eq_zero.1 ((isZero_iff _).1 h)).resolve_left hk.ne')
    rw [if_neg hz, if_neg hz', mul_div_mul_left _ _ hk.ne']

theorem relRes_smul {E : Type} [NormedAddCommGroup E] [NormedSpace 𝕜 E] (c : 𝕜) (hc : c ≠ 0) (ax b : E) :
    relRes (fun v : E => ‖v‖) (c • ax) (c • b) = relRes (fun v : E => ‖v‖) ax b := by
  unfold relRes
  simp only
  rw [← smul_sub, norm_smul, norm_smul, norm_smul]
  exact relResOf_scale ‖c‖ _ _ _ (norm_pos_iff.2 hc)

end Scico.LinSolve
