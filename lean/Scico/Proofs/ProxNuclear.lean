/-
  `NuclearNorm.prox` (scico/functional/_norm.py) — the reduction of the matrix problem to the singular values, PROVED.

  Setting: inner-product spaces `H₁`, `H₂` over `𝕜 ∈ {ℝ, ℂ}` (columns, rows), a REAL inner-product space `E` (matrices, `Re` of the
  Frobenius inner product) and rank-one elements `outer u w = u wᴴ` with `⟪u wᴴ, u' w'ᴴ⟫ = Re(⟪u,u'⟫ · conj⟪w,w'⟫)` (`IsOuter`).  `IsSVD Z u s w`: `Z = Σ s_i u_i w_iᵀ`, `u`, `w`
  orthonormal, `s ≥ 0`.

  * `inner_le_sum_sv` : `⟪Σ g_i u_i w_iᵀ, Z⟫ ≤ Σ σ_j(Z)` for `g ∈ [0,1]` (operator/nuclear duality on an SVD; Bessel +
    Cauchy–Schwarz — no trace inequality is assumed);
  * `sum_sv_unique` : the sum of the singular values does not depend on the decomposition, so `nucNorm` is well defined
    given only that every `Z` HAS a thin SVD (the contract of `jnp.linalg.svd`);
  * `cert_nuclear` : `Σ max(0, s_i - lam) u_i w_iᵀ` carries the sub-gradient certificate of the nuclear norm at
    `V = Σ s_i u_i w_iᵀ`;
  * `cert_nuclear_matrix` : the instance for `m × n` real matrices, `V = U diag(s) Vh`;
  * `cert_nuclear_matrixC` : the instance for complex matrices (`w_l` = conjugated rows of `Vh`).
-/
import Scico.Proofs.ProxGeneric
import Mathlib.Analysis.InnerProductSpace.PiL2
import Mathlib.Analysis.InnerProductSpace.Orthonormal
import Mathlib.Analysis.Real.Sqrt
import Mathlib.Algebra.Order.BigOperators.Ring.Finset

set_option linter.unusedSectionVars false

namespace Scico.ProxNuclear

open Scico.ProxSpec Finset

variable {𝕜 : Type*} [RCLike 𝕜] {E H₁ H₂ : Type*} [NormedAddCommGroup E] [InnerProductSpace ℝ E]
  [NormedAddCommGroup H₁] [InnerProductSpace 𝕜 H₁] [NormedAddCommGroup H₂] [InnerProductSpace 𝕜 H₂]

local notation "⟪" x ", " y "⟫" => inner ℝ x y
local notation "⟪" x ", " y "⟫ₖ" => inner 𝕜 x y

/-- rank-one elements `outer u w` (`u wᵀ` for matrices with the Frobenius inner product): only the identity
    `⟪u wᵀ, u' w'ᵀ⟫ = ⟪u,u'⟫⟪w,w'⟫` is used -/
def IsOuter (𝕜 : Type*) [RCLike 𝕜] {E H₁ H₂ : Type*} [NormedAddCommGroup E] [InnerProductSpace ℝ E]
    [NormedAddCommGroup H₁] [InnerProductSpace 𝕜 H₁] [NormedAddCommGroup H₂] [InnerProductSpace 𝕜 H₂]
    (outer : H₁ → H₂ → E) : Prop :=
  ∀ u w u' w', inner ℝ (outer u w) (outer u' w') = RCLike.re (inner 𝕜 u u' * (starRingEnd 𝕜) (inner 𝕜 w w'))

/-- `Z = Σ_i s_i · u_i w_iᵀ` with orthonormal families `u`, `w` and `s ≥ 0`: a thin singular value decomposition
    (what `svd(v, full_matrices=False)` returns: `Z = U diag(s) Vh`, `u_i` the columns of `U`, `w_i` the rows of `Vh`) -/
structure IsSVD (𝕜 : Type*) [RCLike 𝕜] {E H₁ H₂ : Type*} [NormedAddCommGroup E] [InnerProductSpace ℝ E]
    [NormedAddCommGroup H₁] [InnerProductSpace 𝕜 H₁] [NormedAddCommGroup H₂] [InnerProductSpace 𝕜 H₂]
    (outer : H₁ → H₂ → E) {k : ℕ} (Z : E) (u : Fin k → H₁) (s : Fin k → ℝ) (w : Fin k → H₂) : Prop where
  ou : Orthonormal 𝕜 u
  ow : Orthonormal 𝕜 w
  nonneg : ∀ i, 0 ≤ s i
  eq : Z = ∑ i, s i • outer (u i) (w i)

theorem inner_sum_outer {outer : H₁ → H₂ → E} (hO : IsOuter 𝕜 outer) {k k' : ℕ}
    (c : Fin k → ℝ) (u : Fin k → H₁) (w : Fin k → H₂) (d : Fin k' → ℝ) (u' : Fin k' → H₁) (w' : Fin k' → H₂) :
    ⟪∑ i, c i • outer (u i) (w i), ∑ j, d j • outer (u' j) (w' j)⟫
      = ∑ j, d j * ∑ i, c i * RCLike.re (⟪u i, u' j⟫ₖ * (starRingEnd 𝕜) ⟪w i, w' j⟫ₖ) := by
  rw [inner_sum]
  refine sum_congr rfl fun j _ => ?_
  rw [sum_inner, mul_sum]
  refine sum_congr rfl fun i _ => ?_
  rw [real_inner_smul_left, real_inner_smul_right, hO]; ring

/-- Bessel + Cauchy–Schwarz: for orthonormal families `u`, `w`, unit vectors `x`, `y` and weights `g ∈ [0,1]`,
    `Σ_i g_i ⟪u_i,x⟫⟪w_i,y⟫ ≤ 1` (the operator norm of `Σ g_i u_i w_iᵀ` is at most one) -/
theorem bilinear_le_one {k : ℕ} {u : Fin k → H₁} {w : Fin k → H₂} (hu : Orthonormal 𝕜 u) (hw : Orthonormal 𝕜 w)
    {g : Fin k → ℝ} (hg0 : ∀ i, 0 ≤ g i) (hg1 : ∀ i, g i ≤ 1) {x : H₁} {y : H₂} (hx : ‖x‖ = 1) (hy : ‖y‖ = 1) :
    ∑ i, g i * RCLike.re (⟪u i, x⟫ₖ * (starRingEnd 𝕜) ⟪w i, y⟫ₖ) ≤ 1 := by
  have h1 : ∑ i, g i * RCLike.re (⟪u i, x⟫ₖ * (starRingEnd 𝕜) ⟪w i, y⟫ₖ) ≤ ∑ i, ‖⟪u i, x⟫ₖ‖ * ‖⟪w i, y⟫ₖ‖ := by
    refine sum_le_sum fun i _ => ?_
    have hz : RCLike.re (⟪u i, x⟫ₖ * (starRingEnd 𝕜) ⟪w i, y⟫ₖ) ≤ ‖⟪u i, x⟫ₖ‖ * ‖⟪w i, y⟫ₖ‖ := by
      have := RCLike.re_le_norm (⟪u i, x⟫ₖ * (starRingEnd 𝕜) ⟪w i, y⟫ₖ)
      rwa [norm_mul, RCLike.norm_conj] at this
    have hnn : 0 ≤ ‖⟪u i, x⟫ₖ‖ * ‖⟪w i, y⟫ₖ‖ := by positivity
    rcases le_total 0 (RCLike.re (⟪u i, x⟫ₖ * (starRingEnd 𝕜) ⟪w i, y⟫ₖ)) with h | h
    · calc g i * RCLike.re (⟪u i, x⟫ₖ * (starRingEnd 𝕜) ⟪w i, y⟫ₖ)
          ≤ 1 * RCLike.re (⟪u i, x⟫ₖ * (starRingEnd 𝕜) ⟪w i, y⟫ₖ) := mul_le_mul_of_nonneg_right (hg1 i) h
        _ ≤ _ := by linarith
    · have : g i * RCLike.re (⟪u i, x⟫ₖ * (starRingEnd 𝕜) ⟪w i, y⟫ₖ) ≤ 0 := mul_nonpos_of_nonneg_of_nonpos (hg0 i) h
      linarith
  have h2 := Real.sum_mul_le_sqrt_mul_sqrt univ (fun i => ‖⟪u i, x⟫ₖ‖) (fun i => ‖⟪w i, y⟫ₖ‖)
  have bu : ∑ i, ‖⟪u i, x⟫ₖ‖ ^ 2 ≤ 1 := by
    have := hu.sum_inner_products_le x (s := univ)
    simpa [hx] using this
  have bw : ∑ i, ‖⟪w i, y⟫ₖ‖ ^ 2 ≤ 1 := by
    have := hw.sum_inner_products_le y (s := univ)
    simpa [hy] using this
  have s1 : √(∑ i, ‖⟪u i, x⟫ₖ‖ ^ 2) ≤ 1 := (Real.sqrt_le_left zero_le_one).mpr (by simpa using bu)
  have s2 : √(∑ i, ‖⟪w i, y⟫ₖ‖ ^ 2) ≤ 1 := (Real.sqrt_le_left zero_le_one).mpr (by simpa using bw)
  have : √(∑ i, ‖⟪u i, x⟫ₖ‖ ^ 2) * √(∑ i, ‖⟪w i, y⟫ₖ‖ ^ 2) ≤ 1 := by
    have := mul_le_mul s1 s2 (Real.sqrt_nonneg _) zero_le_one
    simpa using this
  linarith

/-- **nuclear/operator-norm duality on an SVD**: `⟪Σ g_i u_i w_iᵀ, Z⟫ ≤ Σ_j s'_j` for `g ∈ [0,1]` and any SVD of `Z` -/
theorem inner_le_sum_sv {outer : H₁ → H₂ → E} (hO : IsOuter 𝕜 outer) {k k' : ℕ} {u : Fin k → H₁} {w : Fin k → H₂}
    (hu : Orthonormal 𝕜 u) (hw : Orthonormal 𝕜 w) {g : Fin k → ℝ} (hg0 : ∀ i, 0 ≤ g i) (hg1 : ∀ i, g i ≤ 1)
    {Z : E} {u' : Fin k' → H₁} {s' : Fin k' → ℝ} {w' : Fin k' → H₂} (hZ : IsSVD 𝕜 outer Z u' s' w') :
    ⟪∑ i, g i • outer (u i) (w i), Z⟫ ≤ ∑ j, s' j := by
  rw [hZ.eq, inner_sum_outer hO]
  refine sum_le_sum fun j _ => ?_
  have := bilinear_le_one hu hw hg0 hg1 (hZ.ou.1 j) (hZ.ow.1 j)
  have h := mul_le_mul_of_nonneg_left this (hZ.nonneg j)
  simpa using h

/-- **`NuclearNorm.prox` is the proximal map of the sum of singular values.**
    Assumptions (contracts of `jnp.linalg.svd`, stated as hypotheses): every `Z` has a thin SVD (`hex`) and `f Z` is the
    sum of the singular values of ANY thin SVD of `Z` (`hf`; this is how `NuclearNorm.__call__` computes it).
    No trace inequality is assumed: the certificate only needs Bessel and Cauchy–Schwarz. -/
theorem cert_nuclear {outer : H₁ → H₂ → E} (hO : IsOuter 𝕜 outer) {f : E → ℝ}
    (hf : ∀ (k : ℕ) (Z : E) (u : Fin k → H₁) (s : Fin k → ℝ) (w : Fin k → H₂), IsSVD 𝕜 outer Z u s w → f Z = ∑ i, s i)
    (hex : ∀ Z : E, ∃ (k : ℕ) (u : Fin k → H₁) (s : Fin k → ℝ) (w : Fin k → H₂), IsSVD 𝕜 outer Z u s w)
    {lam : ℝ} (hlam : 0 < lam) {k : ℕ} {V : E} {u : Fin k → H₁} {s : Fin k → ℝ} {w : Fin k → H₂}
    (hV : IsSVD 𝕜 outer V u s w) :
    Cert Set.univ f lam V (∑ i, max 0 (s i - lam) • outer (u i) (w i)) := by
  refine ⟨trivial, fun z _ => ?_⟩
  set t : Fin k → ℝ := fun i => max 0 (s i - lam) with ht
  have ht0 : ∀ i, 0 ≤ t i := fun i => le_max_left _ _
  have hP : IsSVD 𝕜 outer (∑ i, t i • outer (u i) (w i)) u t w := ⟨hV.ou, hV.ow, ht0, rfl⟩
  obtain ⟨k', u', s', w', hz⟩ := hex z
  rw [hf _ _ _ _ _ hP, hf _ _ _ _ _ hz]
  -- G = (1/lam)(V - P) = Σ g_i u_i w_iᵀ
  set g : Fin k → ℝ := fun i => (s i - t i) / lam with hg
  have hG : (1 / lam) • (V - ∑ i, t i • outer (u i) (w i)) = ∑ i, g i • outer (u i) (w i) := by
    rw [hV.eq, ← sum_sub_distrib, smul_sum]
    refine sum_congr rfl fun i _ => ?_
    rw [← sub_smul, smul_smul, hg]
    congr 1; ring
  have hg0 : ∀ i, 0 ≤ g i := fun i => by
    rw [hg]; apply div_nonneg _ hlam.le
    simp only [ht]; rcases le_total 0 (s i - lam) with h | h
    · rw [max_eq_right h]; linarith
    · rw [max_eq_left h]; linarith [hV.nonneg i]
  have hg1 : ∀ i, g i ≤ 1 := fun i => by
    rw [hg, div_le_one hlam]
    simp only [ht]; rcases le_total 0 (s i - lam) with h | h
    · rw [max_eq_right h]; linarith
    · rw [max_eq_left h]; linarith
  have hgt : ∀ i, g i * t i = t i := fun i => by
    simp only [hg, ht]; rcases le_total 0 (s i - lam) with h | h
    · rw [max_eq_right h]; field_simp; ring
    · rw [max_eq_left h]; ring
  rw [hG, inner_sub_right]
  have hGP : ⟪∑ i, g i • outer (u i) (w i), ∑ i, t i • outer (u i) (w i)⟫ = ∑ i, t i := by
    rw [inner_sum_outer hO]
    refine sum_congr rfl fun j _ => ?_
    have : ∑ i, g i * RCLike.re (⟪u i, u j⟫ₖ * (starRingEnd 𝕜) ⟪w i, w j⟫ₖ) = g j := by
      classical
      rw [sum_eq_single j]
      · rw [(orthonormal_iff_ite.mp hV.ou) j j, (orthonormal_iff_ite.mp hV.ow) j j]; simp
      · intro i _ hij
        rw [(orthonormal_iff_ite.mp hV.ou) i j, if_neg hij]; simp
      · intro h; exact absurd (mem_univ j) h
    rw [this, mul_comm, hgt]
  have hGz := inner_le_sum_sv hO hV.ou hV.ow hg0 hg1 hz
  rw [hGP]
  linarith



/-- `⟪Σ_i u_i w_iᵀ, Σ_i s_i u_i w_iᵀ⟫ = Σ s_i` -/
theorem inner_partial_isometry {outer : H₁ → H₂ → E} (hO : IsOuter 𝕜 outer) {k : ℕ} {Z : E} {u : Fin k → H₁}
    {s : Fin k → ℝ} {w : Fin k → H₂} (hZ : IsSVD 𝕜 outer Z u s w) :
    ⟪∑ i, (1 : ℝ) • outer (u i) (w i), Z⟫ = ∑ j, s j := by
  conv_lhs => rw [hZ.eq]
  rw [inner_sum_outer hO]
  refine sum_congr rfl fun j _ => ?_
  have : ∑ i, (1 : ℝ) * RCLike.re (⟪u i, u j⟫ₖ * (starRingEnd 𝕜) ⟪w i, w j⟫ₖ) = 1 := by
    classical
    rw [sum_eq_single j]
    · rw [(orthonormal_iff_ite.mp hZ.ou) j j, (orthonormal_iff_ite.mp hZ.ow) j j]; simp
    · intro i _ hij
      rw [(orthonormal_iff_ite.mp hZ.ou) i j, if_neg hij]; simp
    · intro h; exact absurd (mem_univ j) h
  rw [this, mul_one]

/-- **the sum of the singular values does not depend on the decomposition** (so "the nuclear norm" is well defined as
    soon as a thin SVD exists) -/
theorem sum_sv_unique {outer : H₁ → H₂ → E} (hO : IsOuter 𝕜 outer) {k k' : ℕ} {Z : E} {u : Fin k → H₁} {s : Fin k → ℝ}
    {w : Fin k → H₂} {u' : Fin k' → H₁} {s' : Fin k' → ℝ} {w' : Fin k' → H₂}
    (h : IsSVD 𝕜 outer Z u s w) (h' : IsSVD 𝕜 outer Z u' s' w') : ∑ i, s i = ∑ j, s' j := by
  apply le_antisymm
  · rw [← inner_partial_isometry hO h]
    exact inner_le_sum_sv hO h.ou h.ow (fun _ => zero_le_one) (fun _ => le_refl _) h'
  · rw [← inner_partial_isometry hO h']
    exact inner_le_sum_sv hO h'.ou h'.ow (fun _ => zero_le_one) (fun _ => le_refl _) h

/-- SPEC: the nuclear norm = sum of the singular values of a thin SVD (`hex`: one exists for every `Z`) -/
noncomputable def nucNorm {outer : H₁ → H₂ → E}
    (hex : ∀ Z : E, ∃ (k : ℕ) (u : Fin k → H₁) (s : Fin k → ℝ) (w : Fin k → H₂), IsSVD 𝕜 outer Z u s w) (Z : E) : ℝ :=
  ∑ i, (hex Z).choose_spec.choose_spec.choose i

theorem nucNorm_eq {outer : H₁ → H₂ → E} (hO : IsOuter 𝕜 outer)
    (hex : ∀ Z : E, ∃ (k : ℕ) (u : Fin k → H₁) (s : Fin k → ℝ) (w : Fin k → H₂), IsSVD 𝕜 outer Z u s w)
    {k : ℕ} {Z : E} {u : Fin k → H₁} {s : Fin k → ℝ} {w : Fin k → H₂} (h : IsSVD 𝕜 outer Z u s w) :
    nucNorm hex Z = ∑ i, s i :=
  sum_sv_unique hO (hex Z).choose_spec.choose_spec.choose_spec.choose_spec h

/-! ### the instance: real `m × n` matrices with the Frobenius inner product -/

section Matrix
open WithLp

variable {m n k : ℕ}

/-- `m × n` matrices as a Euclidean space (Frobenius inner product) -/
abbrev MatE (m n : ℕ) := EuclideanSpace ℝ (Fin m × Fin n)

noncomputable def matE (M : Fin m → Fin n → ℝ) : MatE m n := toLp 2 (fun ij => M ij.1 ij.2)

/-- `u wᵀ` -/
noncomputable def outerM (u : EuclideanSpace ℝ (Fin m)) (w : EuclideanSpace ℝ (Fin n)) : MatE m n :=
  toLp 2 (fun ij => u ij.1 * w ij.2)

theorem isOuter_outerM : IsOuter ℝ (outerM (m := m) (n := n)) := by
  intro u w u' w'
  simp only [RCLike.re_to_real, conj_trivial]
  rw [PiLp.inner_apply, PiLp.inner_apply, PiLp.inner_apply, Fintype.sum_prod_type, Finset.sum_mul_sum]
  refine sum_congr rfl fun i _ => sum_congr rfl fun j _ => ?_
  simp only [outerM, RCLike.inner_apply, conj_trivial]
  ring

/-- column `l` of `U`, row `l` of `Vh` -/
noncomputable def colE (U : Fin m → Fin k → ℝ) (l : Fin k) : EuclideanSpace ℝ (Fin m) := toLp 2 (fun i => U i l)
noncomputable def rowE (Vh : Fin k → Fin n → ℝ) (l : Fin k) : EuclideanSpace ℝ (Fin n) := toLp 2 (fun j => Vh l j)

/-- `U @ diag(s) @ Vh` is `Σ_l s_l · (column l of U)(row l of Vh)ᵀ` -/
theorem matE_usv (U : Fin m → Fin k → ℝ) (s : Fin k → ℝ) (Vh : Fin k → Fin n → ℝ) :
    matE (fun i j => ∑ l, U i l * s l * Vh l j) = ∑ l, s l • outerM (colE U l) (rowE Vh l) := by
  ext ij
  simp only [matE, outerM, colE, rowE, WithLp.ofLp_sum, WithLp.ofLp_smul, Finset.sum_apply, Pi.smul_apply, smul_eq_mul]
  refine sum_congr rfl fun l _ => ?_
  ring

/-- `NuclearNorm.prox` on matrices: with `v = U diag(s) Vh` a thin SVD (orthonormal columns of `U`, orthonormal rows of `Vh`,
    `s ≥ 0`), `U diag(max(0, s - lam)) Vh` carries the certificate of the sum of singular values. -/
theorem cert_nuclear_matrix {f : MatE m n → ℝ}
    (hf : ∀ (k : ℕ) (Z : MatE m n) (u : Fin k → EuclideanSpace ℝ (Fin m)) (s : Fin k → ℝ)
      (w : Fin k → EuclideanSpace ℝ (Fin n)), IsSVD ℝ outerM Z u s w → f Z = ∑ i, s i)
    (hex : ∀ Z : MatE m n, ∃ (k : ℕ) (u : Fin k → EuclideanSpace ℝ (Fin m)) (s : Fin k → ℝ)
      (w : Fin k → EuclideanSpace ℝ (Fin n)), IsSVD ℝ outerM Z u s w)
    {lam : ℝ} (hlam : 0 < lam) (U : Fin m → Fin k → ℝ) (s : Fin k → ℝ) (Vh : Fin k → Fin n → ℝ)
    (hU : Orthonormal ℝ (colE U)) (hV : Orthonormal ℝ (rowE Vh)) (hs : ∀ l, 0 ≤ s l) :
    Cert Set.univ f lam (matE (fun i j => ∑ l, U i l * s l * Vh l j))
      (matE (fun i j => ∑ l, U i l * max 0 (s l - lam) * Vh l j)) := by
  rw [matE_usv, matE_usv]
  exact cert_nuclear isOuter_outerM hf hex hlam ⟨hU, hV, hs, rfl⟩

end Matrix

/-! ### the instance: complex `m × n` matrices, real inner product `Re tr(AᴴB)` -/

section MatrixC
open WithLp

variable {m n k : ℕ}

/-- complex `m × n` matrices as a REAL inner-product space (`Re⟨·,·⟩_F`) -/
abbrev MatC (m n : ℕ) := PiLp 2 (fun _ : Fin m × Fin n => ℂ)

noncomputable def matC (M : Fin m → Fin n → ℂ) : MatC m n := toLp 2 (fun ij => M ij.1 ij.2)

/-- `u wᴴ` -/
noncomputable def outerC (u : EuclideanSpace ℂ (Fin m)) (w : EuclideanSpace ℂ (Fin n)) : MatC m n :=
  toLp 2 (fun ij => u ij.1 * (starRingEnd ℂ) (w ij.2))

theorem isOuter_outerC : IsOuter ℂ (outerC (m := m) (n := n)) := by
  intro u w u' w'
  rw [PiLp.inner_apply, PiLp.inner_apply, PiLp.inner_apply, Fintype.sum_prod_type, map_sum, Finset.sum_mul_sum,
    map_sum]
  refine sum_congr rfl fun i _ => ?_
  rw [map_sum]
  refine sum_congr rfl fun j _ => ?_
  simp only [outerC, Complex.inner, RCLike.inner_apply, map_mul, Complex.conj_conj, RCLike.re_to_complex]
  ring_nf

/-- column `l` of `U`; the conjugated row `l` of `Vh` (so that `U diag(s) Vh = Σ s_l u_l w_lᴴ`) -/
noncomputable def colC (U : Fin m → Fin k → ℂ) (l : Fin k) : EuclideanSpace ℂ (Fin m) := toLp 2 (fun i => U i l)
noncomputable def rowConjC (Vh : Fin k → Fin n → ℂ) (l : Fin k) : EuclideanSpace ℂ (Fin n) :=
  toLp 2 (fun j => (starRingEnd ℂ) (Vh l j))

theorem matC_usv (U : Fin m → Fin k → ℂ) (s : Fin k → ℝ) (Vh : Fin k → Fin n → ℂ) :
    matC (fun i j => ∑ l, (s l : ℂ) * (U i l * Vh l j)) = ∑ l, s l • outerC (colC U l) (rowConjC Vh l) := by
  ext ij
  simp only [matC, outerC, colC, rowConjC, WithLp.ofLp_sum, WithLp.ofLp_smul, Finset.sum_apply, Pi.smul_apply,
    Complex.conj_conj, Complex.real_smul]

/-- `NuclearNorm.prox` on complex matrices -/
theorem cert_nuclear_matrixC
    (hex : ∀ Z : MatC m n, ∃ (k : ℕ) (u : Fin k → EuclideanSpace ℂ (Fin m)) (s : Fin k → ℝ)
      (w : Fin k → EuclideanSpace ℂ (Fin n)), IsSVD ℂ outerC Z u s w)
    {lam : ℝ} (hlam : 0 < lam) (U : Fin m → Fin k → ℂ) (s : Fin k → ℝ) (Vh : Fin k → Fin n → ℂ)
    (hU : Orthonormal ℂ (colC U)) (hV : Orthonormal ℂ (rowConjC Vh)) (hs : ∀ l, 0 ≤ s l) :
    Cert Set.univ (nucNorm hex) lam (matC (fun i j => ∑ l, (s l : ℂ) * (U i l * Vh l j)))
      (matC (fun i j => ∑ l, ((max 0 (s l - lam) : ℝ) : ℂ) * (U i l * Vh l j))) := by
  rw [matC_usv, matC_usv]
  exact cert_nuclear isOuter_outerC (fun _ _ _ _ _ h => nucNorm_eq isOuter_outerC hex h) hex hlam ⟨hU, hV, hs, rfl⟩

end MatrixC

end Scico.ProxNuclear
