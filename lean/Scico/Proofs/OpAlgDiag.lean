/-
  Soundness of `Diagonal`, `ScaledIdentity`, `Identity`: constructors and every closed-form override
  (repaired tree, `Cfg.fixed`).
-/
import Scico.Proofs.OpAlgMat
import Scico.Proofs.OpAlgShape

namespace Scico.OpAlg
open Scico.DType
attribute [local instance] starConj
set_option linter.unusedSectionVars false

section
variable {K : Type} [Field K] [StarRing K] [HasRe K]

/-- the matrix of `x ↦ d * x` under numpy broadcasting -/
def diagMx (out inSh dsh : Shape) (dg : V K) : Mx K :=
  fun i j => if bidxS out inSh i = j then dg (bidxS out dsh i) else 0

theorem mulVec_diagMx (n : Nat) (out inSh dsh : Shape) (dg : V K) (x : V K) (i : Nat) :
    mulVec n (diagMx out inSh dsh dg) x i
      = if bidxS out inSh i < n then dg (bidxS out dsh i) * x (bidxS out inSh i) else 0 := by
  unfold mulVec diagMx
  have : ∀ j, (if bidxS out inSh i = j then dg (bidxS out dsh i) else 0) * x j
      = if bidxS out inSh i = j then dg (bidxS out dsh i) * x j else 0 := by
    intro j; by_cases h : bidxS out inSh i = j <;> simp [h]
  simp only [this]
  rw [sumTo_ite_eq']

/-- `Diagonal(d, input_shape, input_dtype)` -/
theorem mkDiag_sound (cfg : Cfg) (d : V K) (dsh : Shape) (ddt : DT) (inSh : Shape) (inDt : DT)
    {o : Obj K} (h : mkDiag cfg d dsh ddt inSh inDt = .ok o)
    (hmode : RealK K ∨ (inDt.isComplex = true ∧ ddt.isComplex = true)) :
    Sound o (diagMx o.md.outShape inSh dsh (trunc dsh.size d).get)
    ∧ o.md.cls = .diag ∧ o.md.inShape = inSh ∧ o.md.datShape = dsh
    ∧ bshapeS inSh dsh = .ok o.md.outShape ∧ o.dat = trunc dsh.size d ∧ o.md.datDt = ddt := by
  unfold mkDiag at h
  split at h
  · cases h
  · rename_i outSh hout
    injection h with h; subst h
    refine ⟨?_, rfl, rfl, rfl, hout, rfl, rfl⟩
    have hev : ∀ (x : Vc K) (i : Nat),
        (vbmul outSh.size (bidxS outSh dsh) (bidxS outSh inSh) (trunc dsh.size d) (vtrunc inSh.size x)).get i
          = if i < outSh.size then mulVec inSh.size (diagMx outSh inSh dsh (trunc dsh.size d).get) x.get i else 0 := by
      intro x i
      simp only [vbmul_get, vtrunc_get]
      by_cases hi : i < outSh.size
      · simp only [hi, if_true]
        rw [mulVec_diagMx]
        by_cases hp : bidxS outSh inSh i < inSh.size <;> simp [hp]
      · simp [hi]
    exact
    { lin := by simp
      evSz := by szt
      adSz := by szt
      ev := hev
      ad := by
        intro y j
        exact autoAdj_adjIs _ _ inDt _ _ _ hev (hmode.imp id (fun h => h.1)) y j
      pl := by
        simp only [PayloadIs]
        refine ⟨hout, ?_, ?_⟩
        · intro k hk; simp [Nat.not_lt.mpr hk]
        · intro i j _ _; rfl
      mode := by
        rcases hmode with h | h
        · exact Or.inl h
        · refine Or.inr ⟨h.1, ?_, h.2⟩
          show (if cfg.diagOutDt = true then resultType ddt inDt else inDt).isComplex = true
          split
          · exact rt_complex_left h.2
          · exact h.1 }

/-- `ScaledIdentity(c, input_shape, input_dtype)` -/
theorem mkSid_sound (cfg : Cfg) (c : K) (sk : SK) (sh : Shape) (inDt : DT)
    (hmode : RealK K ∨ inDt.isComplex = true) :
    Sound (mkSid cfg c sk sh inDt) (fun i j => if i = j then c else 0) := by
  have hev : ∀ (x : Vc K) (i : Nat),
      (vmap sh.size (fun t => c * t) (vtrunc sh.size x)).get i
        = if i < sh.size then mulVec sh.size (fun i j => if i = j then c else 0) x.get i else 0 := by
    intro x i
    simp only [vmap_get, vtrunc_get]
    by_cases hi : i < sh.size
    · simp only [hi, if_true]
      unfold mulVec
      have : ∀ j, (if i = j then c else 0) * x.get j = if i = j then c * x.get j else 0 := by
        intro j; by_cases h : i = j <;> simp [h]
      simp only [this]
      rw [sumTo_ite_eq']; simp [hi]
    · simp [hi]
  exact
  { lin := by simp [mkSid]
    evSz := by szt
    adSz := by szt
    ev := hev
    ad := by
      intro y j
      exact autoAdj_adjIs _ _ inDt _ _ _ hev hmode y j
    pl := by
      simp only [PayloadIs, mkSid]
      exact ⟨trivial, fun i j _ _ => by simp⟩
    mode := by
      rcases hmode with h | h
      · exact Or.inl h
      · refine Or.inr ⟨h, ?_, rtS_complex _ h⟩
        show (if cfg.diagOutDt = true then resultType (resultTypeS inDt sk) inDt else inDt).isComplex = true
        split
        · exact rt_complex_right h
        · exact h }

/-- `Identity(input_shape, input_dtype)` -/
theorem mkIdent_sound (sh : Shape) (inDt : DT) (hmode : RealK K ∨ inDt.isComplex = true) :
    Sound (mkIdent sh inDt : Obj K) (fun i j => if i = j then 1 else 0) := by
  have hev : ∀ (x : Vc K) (i : Nat),
      (vtrunc sh.size x).get i
        = if i < sh.size then mulVec sh.size (fun i j => if i = j then (1 : K) else 0) x.get i else 0 := by
    intro x i
    simp only [vtrunc_get]
    by_cases hi : i < sh.size
    · simp only [hi, if_true]
      unfold mulVec
      have : ∀ j, (if i = j then (1 : K) else 0) * x.get j = if i = j then x.get j else 0 := by
        intro j; by_cases h : i = j <;> simp [h]
      simp only [this]
      rw [sumTo_ite_eq']; simp [hi]
    · simp [hi]
  exact
  { lin := by simp [mkIdent]
    evSz := by szt
    adSz := by szt
    ev := hev
    ad := by
      intro y j
      exact autoAdj_adjIs _ _ inDt _ _ _ hev hmode y j
    pl := by
      simp only [PayloadIs, mkIdent]
      exact ⟨trivial, by simp, fun i j _ _ => by simp⟩
    mode := by
      rcases hmode with h | h
      · exact Or.inl h
      · exact Or.inr ⟨h, h, h⟩ }

/-- classes of the `Diagonal` family -/
def IsDiagCls (c : Cls) : Prop := c = .diag ∨ c = .scaledId ∨ c = .ident

theorem isSub_diag_iff (c : Cls) : c.isSub .diag = true ↔ IsDiagCls c := by
  cases c <;> simp [Cls.isSub, IsDiagCls]

theorem isSub_sid_iff (c : Cls) : c.isSub .scaledId = true ↔ (c = .scaledId ∨ c = .ident) := by
  cases c <;> simp [Cls.isSub]

/-- the `diagonal` property of any member of the family describes the denoted matrix -/
theorem diagonal_spec {a : Obj K} {Da : Mx K} (ha : Sound a Da) (hc : IsDiagCls a.md.cls) :
    bshapeS a.md.inShape a.diagonal.2.1 = .ok a.md.outShape
    ∧ (∀ i j, i < a.m → j < a.n → Da i j = diagMx a.md.outShape a.md.inShape a.diagonal.2.1 a.diagonal.1.get i j)
    ∧ (RealK K ∨ a.diagonal.2.2.isComplex = true)
    ∧ (∀ k, a.diagonal.2.1.size ≤ k → a.diagonal.1.get k = 0) := by
  have hpl := ha.pl
  rcases hc with hc | hc | hc
  · simp only [PayloadIs, hc] at hpl
    simp only [Obj.diagonal, hc]
    refine ⟨hpl.1, ?_, ?_, hpl.2.1⟩
    · intro i j hi hj; exact hpl.2.2 i j hi hj
    · rcases ha.mode with h | h
      · exact Or.inl h
      · exact Or.inr h.datC
  · obtain ⟨hio, hD⟩ := sid_payload ha (Or.inl hc)
    have hmn : a.m = a.n := by simp only [Obj.m, Obj.n, hio]
    simp only [Obj.diagonal, hc]
    refine ⟨by rw [← hio]; exact bshapeS_self _, ?_, ?_, fun k hk => by simp [Obj.n, Nat.not_lt.mpr hk]⟩
    · intro i j hi hj
      rw [hD i j (hmn ▸ hi) hj]
      unfold diagMx
      have hi' : i < a.md.inShape.size := by have := hmn ▸ hi; exact this
      rw [← hio, bidxS_self _ i hi']
      simp [hi']
    · rcases ha.mode with h | h
      · exact Or.inl h
      · exact Or.inr (rt_complex_right h.inC)
  · obtain ⟨hio, hD⟩ := sid_payload ha (Or.inr hc)
    have hmn : a.m = a.n := by simp only [Obj.m, Obj.n, hio]
    have h1 : a.dat.get 0 = 1 := by
      simp only [PayloadIs, hc] at hpl; exact hpl.2.1
    simp only [Obj.diagonal, hc]
    refine ⟨by rw [← hio]; exact bshapeS_self _, ?_, ?_, fun k hk => by simp [Obj.n, Nat.not_lt.mpr hk]⟩
    · intro i j hi hj
      rw [hD i j (hmn ▸ hi) hj, h1]
      unfold diagMx
      have hi' : i < a.md.inShape.size := by have := hmn ▸ hi; exact this
      rw [← hio, bidxS_self _ i hi']
      simp [hi']
    · rcases ha.mode with h | h
      · exact Or.inl h
      · exact Or.inr h.inC

theorem rediag_fixed (d : V K) (dsh : Shape) (ddt : DT) (inSh : Shape) (inDt? : Option DT) :
    rediag Cfg.fixed d dsh ddt inSh inDt?
      = mkDiag Cfg.fixed d dsh ddt inSh (match inDt? with | some t => t | none => ddt) := by
  cases inDt? <;> rfl


theorem sameShape_iff {a b : Obj K} (h : a.sameShape b = true) :
    a.md.inShape = b.md.inShape ∧ a.md.outShape = b.md.outShape := by
  unfold Obj.sameShape at h
  simpa using h

/-- `Diagonal.__add__ / __sub__` -/
theorem diagAddSub_sound (sub : Bool) {a b o : Obj K} {Da Db : Mx K} (ha : Sound a Da)
    (hb : Sound b Db) (hca : IsDiagCls a.md.cls) (hcb : IsDiagCls b.md.cls)
    (hs : a.sameShape b = true) (h : diagAddSub Cfg.fixed sub a b = .ok o) :
    Sound o (fun i j => pm sub (Da i j) (Db i j)) := by
  obtain ⟨hsa, hDa, hma, hza⟩ := diagonal_spec ha hca
  obtain ⟨hsb, hDb, hmb, hzb⟩ := diagonal_spec hb hcb
  obtain ⟨hin, hout⟩ := sameShape_iff hs
  unfold diagAddSub at h
  rcases hda : a.diagonal with ⟨da, sa, ta⟩
  rcases hdb : b.diagonal with ⟨db, sb, tb⟩
  simp only [hda, hdb] at h hsa hDa hma hza hsb hDb hmb hzb
  split at h
  · rename_i hss
    subst hss
    rw [rediag_fixed] at h
    obtain ⟨hS, _, hi', _, hbo, _, _⟩ := mkDiag_sound _ _ _ _ _ _ h (by
      rcases hma with h | h
      · exact Or.inl h
      · exact Or.inr ⟨rt_complex_left h, rt_complex_left h⟩)
    have hoo : o.md.outShape = a.md.outShape := by
      rw [hsa] at hbo; injection hbo with hbo; exact hbo.symm
    have hom : o.m = a.m := by simp only [Obj.m, hoo]
    have hon : o.n = a.n := by simp only [Obj.n, hi']
    refine hS.congr (fun i j hi hj => ?_)
    rw [hDa i j (hom ▸ hi) (hon ▸ hj), hDb i j (sameShape_m hs ▸ hom ▸ hi) (sameShape_n hs ▸ hon ▸ hj)]
    unfold diagMx
    rw [hoo, ← hin, ← hout]
    by_cases hp : bidxS a.md.outShape a.md.inShape i = j
    · simp only [hp, if_true, trunc_get]
      by_cases hq : bidxS a.md.outShape sa i < sa.size
      · simp [hq]
      · rw [hza _ (Nat.le_of_not_lt hq), hzb _ (Nat.le_of_not_lt hq)]
        simp [hq, pm_zero]
    · simp [hp, pm_zero]
  · cases h


/-- a derived `Diagonal` rebuilt with the shapes of `a` denotes the broadcast matrix of the new
    diagonal array -/
theorem rediag_same_sound {a o : Obj K} {Da : Mx K} (ha : Sound a Da) (hca : IsDiagCls a.md.cls)
    (g : V K) (ddt : DT) (inDt? : Option DT)
    (h : rediag Cfg.fixed g a.diagonal.2.1 ddt a.md.inShape inDt? = .ok o)
    (hmode : RealK K ∨ (ddt.isComplex = true ∧ ∀ t, inDt? = some t → t.isComplex = true)) :
    Sound o (diagMx a.md.outShape a.md.inShape a.diagonal.2.1 (trunc a.diagonal.2.1.size g).get)
    ∧ o.md.inShape = a.md.inShape ∧ o.md.outShape = a.md.outShape := by
  obtain ⟨hsa, _, _, _⟩ := diagonal_spec ha hca
  rw [rediag_fixed] at h
  obtain ⟨hS, _, hi', _, hbo, _, _⟩ := mkDiag_sound _ _ _ _ _ _ h (by
    rcases hmode with h | h
    · exact Or.inl h
    · refine Or.inr ⟨?_, h.1⟩
      cases inDt? with
      | none => exact h.1
      | some t => exact h.2 t rfl)
  have hoo : o.md.outShape = a.md.outShape := by
    rw [hsa] at hbo; injection hbo with hbo; exact hbo.symm
  refine ⟨?_, hi', hoo⟩
  rw [← hoo]; exact hS

theorem sizes_of_shapes {a o : Obj K} (hi : o.md.inShape = a.md.inShape)
    (ho : o.md.outShape = a.md.outShape) : o.m = a.m ∧ o.n = a.n := by
  simp only [Obj.m, Obj.n, hi, ho, and_self]

/-- element-wise image of the diagonal by a map fixing zero -/
theorem rediag_map_sound {a o : Obj K} {Da : Mx K} (ha : Sound a Da) (hca : IsDiagCls a.md.cls)
    (f : K → K) (hf0 : f 0 = 0) (ddt : DT) (inDt? : Option DT)
    (h : rediag Cfg.fixed (fun i => f (a.diagonal.1.get i)) a.diagonal.2.1 ddt a.md.inShape inDt? = .ok o)
    (hmode : RealK K ∨ (ddt.isComplex = true ∧ ∀ t, inDt? = some t → t.isComplex = true)) :
    Sound o (fun i j => f (Da i j))
    ∧ o.md.inShape = a.md.inShape ∧ o.md.outShape = a.md.outShape := by
  obtain ⟨_, hDa, _, hza⟩ := diagonal_spec ha hca
  obtain ⟨hS, hi', ho'⟩ := rediag_same_sound ha hca _ ddt inDt? h hmode
  obtain ⟨hom, hon⟩ := sizes_of_shapes hi' ho'
  refine ⟨hS.congr (fun i j hi hj => ?_), hi', ho'⟩
  rw [hDa i j (hom ▸ hi) (hon ▸ hj)]
  unfold diagMx
  by_cases hp : bidxS a.md.outShape a.md.inShape i = j
  · simp only [hp, if_true, trunc_get]
    by_cases hq : bidxS a.md.outShape a.diagonal.2.1 i < a.diagonal.2.1.size
    · simp [hq]
    · rw [hza _ (Nat.le_of_not_lt hq)]; simp [hq, hf0]
  · simp [hp, hf0]

theorem Sound.modeDat {a : Obj K} {Da : Mx K} (ha : Sound a Da) (hca : IsDiagCls a.md.cls) :
    RealK K ∨ a.diagonal.2.2.isComplex = true := (diagonal_spec ha hca).2.2.1

/-- `Diagonal.__mul__` -/
theorem diagMul_sound {a o : Obj K} {Da : Mx K} (c : Scal K) (ha : Sound a Da)
    (hca : IsDiagCls a.md.cls) (h : diagMul Cfg.fixed a c = .ok o) :
    Sound o (fun i j => c.val * Da i j) ∧ o.md.inShape = a.md.inShape ∧ o.md.outShape = a.md.outShape := by
  unfold diagMul at h
  split at h
  · obtain ⟨hS, hi, ho⟩ := rediag_map_sound ha hca (fun t => t * c.val) (by simp) _ none h (by
      rcases ha.modeDat hca with h | h
      · exact Or.inl h
      · exact Or.inr ⟨rtS_complex _ h, by simp⟩)
    exact ⟨hS.congr (fun i j _ _ => by ring), hi, ho⟩
  · cases h

/-- `Diagonal.__truediv__` -/
theorem diagDiv_sound {a o : Obj K} {Da : Mx K} (c : Scal K) (ha : Sound a Da)
    (hca : IsDiagCls a.md.cls) (h : diagDiv Cfg.fixed a c = .ok o) :
    Sound o (fun i j => Da i j / c.val) ∧ o.md.inShape = a.md.inShape ∧ o.md.outShape = a.md.outShape := by
  unfold diagDiv at h
  split at h
  · exact rediag_map_sound ha hca (fun t => t / c.val) (by simp) _ none h (by
      rcases ha.modeDat hca with h | h
      · exact Or.inl h
      · exact Or.inr ⟨rtS_complex _ h, by simp⟩)
  · cases h

/-- a `ScaledIdentity` built on the shape of `a` -/
theorem mkSid_on {a : Obj K} {Da : Mx K} (ha : Sound a Da)
    (hc : a.md.cls = .scaledId ∨ a.md.cls = .ident) (c : K) (sk : SK) (E : Mx K)
    (hE : ∀ i j, i < a.n → j < a.n → (if i = j then c else 0) = E i j) :
    Sound (mkSid Cfg.fixed c sk a.md.inShape a.md.inDt) E := by
  refine (mkSid_sound Cfg.fixed c sk a.md.inShape a.md.inDt ha.modeIn).congr (fun i j hi hj => ?_)
  exact hE i j hi hj

/-- `ScaledIdentity.__add__ / __sub__` -/
theorem sidAddSub_sound (sub : Bool) {a b o : Obj K} {Da Db : Mx K} (ha : Sound a Da)
    (hb : Sound b Db) (hca : a.md.cls = .scaledId ∨ a.md.cls = .ident)
    (hcb : b.md.cls = .scaledId ∨ b.md.cls = .ident)
    (hs : a.sameShape b = true) (h : sidAddSub Cfg.fixed sub a b = .ok o) :
    Sound o (fun i j => pm sub (Da i j) (Db i j)) ∧ o.md.inShape = a.md.inShape ∧ o.md.outShape = a.md.outShape := by
  obtain ⟨hio, hDa⟩ := sid_payload ha hca
  obtain ⟨_, hDb⟩ := sid_payload hb hcb
  unfold sidAddSub at h
  split at h
  · injection h with h; subst h
    refine ⟨mkSid_on ha hca _ _ _ (fun i j hi hj => ?_), rfl, hio⟩
    rw [hDa i j hi hj, hDb i j (sameShape_n hs ▸ hi) (sameShape_n hs ▸ hj)]
    by_cases hij : i = j <;> simp [hij, pm_zero]
  · cases h

/-- `ScaledIdentity.__mul__` -/
theorem sidMul_sound {a o : Obj K} {Da : Mx K} (c : Scal K) (ha : Sound a Da)
    (hca : a.md.cls = .scaledId ∨ a.md.cls = .ident) (h : sidMul Cfg.fixed a c = .ok o) :
    Sound o (fun i j => c.val * Da i j) ∧ o.md.inShape = a.md.inShape ∧ o.md.outShape = a.md.outShape := by
  obtain ⟨hio, hDa⟩ := sid_payload ha hca
  unfold sidMul at h
  split at h
  · injection h with h; subst h
    refine ⟨mkSid_on ha hca _ _ _ (fun i j hi hj => ?_), rfl, hio⟩
    rw [hDa i j hi hj]
    by_cases hij : i = j <;> simp [hij, mul_comm]
  · cases h

/-- `ScaledIdentity.__truediv__` -/
theorem sidDiv_sound {a o : Obj K} {Da : Mx K} (c : Scal K) (ha : Sound a Da)
    (hca : a.md.cls = .scaledId ∨ a.md.cls = .ident) (h : sidDiv Cfg.fixed a c = .ok o) :
    Sound o (fun i j => Da i j / c.val) ∧ o.md.inShape = a.md.inShape ∧ o.md.outShape = a.md.outShape := by
  obtain ⟨hio, hDa⟩ := sid_payload ha hca
  unfold sidDiv at h
  split at h
  · injection h with h; subst h
    refine ⟨mkSid_on ha hca _ _ _ (fun i j hi hj => ?_), rfl, hio⟩
    rw [hDa i j hi hj]
    by_cases hij : i = j <;> simp [hij]
  · cases h

/-- a square member of the family denotes a diagonal matrix -/
theorem diag_square {a : Obj K} {Da : Mx K} (ha : Sound a Da) (hca : IsDiagCls a.md.cls)
    (hsq : a.md.inShape = a.md.outShape) :
    ∀ i j, i < a.n → j < a.n → Da i j = if i = j then Da i i else 0 := by
  obtain ⟨_, hDa, _, _⟩ := diagonal_spec ha hca
  have hmn : a.m = a.n := by simp only [Obj.m, Obj.n, hsq]
  intro i j hi hj
  have hi' : i < a.md.outShape.size := by rw [← hsq]; exact hi
  rw [hDa i j (hmn ▸ hi) hj, hDa i i (hmn ▸ hi) hi]
  unfold diagMx
  rw [hsq, bidxS_self _ i hi']
  by_cases hij : i = j <;> simp [hij]

theorem isSquare_iff (a : Obj K) : isSquare a = true ↔ a.md.inShape = a.md.outShape := by
  simp [isSquare]

/-- `Diagonal.T` (inherited by the subclasses) -/
theorem diagT_sound {a : Obj K} {Da : Mx K} (ha : Sound a Da) (hca : IsDiagCls a.md.cls) :
    Sound (diagT Cfg.fixed a) (matT Da)
    ∧ (diagT Cfg.fixed a).md.inShape = a.md.outShape ∧ (diagT Cfg.fixed a).md.outShape = a.md.inShape := by
  unfold diagT
  by_cases hsq : isSquare a = true
  · have hsq' := (isSquare_iff a).mp hsq
    simp only [Cfg.fixed, hsq, Bool.not_true, Bool.and_false, Bool.false_eq_true, if_false]
    have hmn : a.m = a.n := by simp only [Obj.m, Obj.n, hsq']
    refine ⟨ha.congr (fun i j hi hj => ?_), hsq', hsq'.symm⟩
    have := diag_square ha hca hsq'
    simp only [matT]
    rw [this i j (hmn ▸ hi) hj, this j i hj (hmn ▸ hi)]
    by_cases hij : i = j
    · subst hij; simp
    · have : ¬ j = i := fun h => hij h.symm
      simp [hij, this]
  · simp only [Cfg.fixed, hsq, Bool.not_false, Bool.and_self, if_true]
    exact ⟨linT_sound ha, by unfold linT; split <;> rfl, by unfold linT; split <;> rfl⟩

/-- `Diagonal.conj`, `ScaledIdentity.conj`, `Identity.conj` -/
theorem diagConj_sound {a o : Obj K} {Da : Mx K} (ha : Sound a Da) (hca : IsDiagCls a.md.cls)
    (h : diagConj Cfg.fixed a = .ok o) :
    Sound o (matConj Da) ∧ o.md.inShape = a.md.inShape ∧ o.md.outShape = a.md.outShape := by
  unfold diagConj at h
  rcases hca with hc | hc | hc
  · simp only [hc] at h
    obtain ⟨hS, hi, ho⟩ := rediag_map_sound ha (Or.inl hc) (fun t => star t) (by simp) _ _ h (by
      rcases ha.mode with h | h
      · exact Or.inl h
      · refine Or.inr ⟨?_, ?_⟩
        · have := ha.modeDat (Or.inl hc)
          rcases this with h' | h'
          · simp only [Obj.diagonal, hc]; exact h.datC
          · exact h'
        · intro t ht; injection ht with ht; rw [← ht]; exact h.inC)
    exact ⟨hS, hi, ho⟩
  · simp only [hc] at h
    injection h with h; subst h
    obtain ⟨hio, hDa⟩ := sid_payload ha (Or.inl hc)
    refine ⟨mkSid_on ha (Or.inl hc) _ _ _ (fun i j hi hj => ?_), rfl, hio⟩
    simp only [matConj, conj_eq_star]
    rw [hDa i j hi hj]
    by_cases hij : i = j <;> simp [hij]
  · simp only [hc] at h
    injection h with h; subst h
    obtain ⟨hio, hDa⟩ := sid_payload ha (Or.inr hc)
    have hmn : a.m = a.n := by simp only [Obj.m, Obj.n, hio]
    have h1 : a.dat.get 0 = 1 := by
      have := ha.pl; simp only [PayloadIs, hc] at this; exact this.2.1
    refine ⟨ha.congr (fun i j hi hj => ?_), rfl, rfl⟩
    simp only [matConj, conj_eq_star]
    rw [hDa i j (hmn ▸ hi) hj, h1]
    by_cases hij : i = j <;> simp [hij]

/-- `Diagonal.H` -/
theorem diagH_sound {a o : Obj K} {Da : Mx K} (ha : Sound a Da) (hca : IsDiagCls a.md.cls)
    (h : diagH Cfg.fixed a = .ok o) :
    Sound o (matH Da) ∧ o.md.inShape = a.md.outShape ∧ o.md.outShape = a.md.inShape := by
  unfold diagH at h
  by_cases hsq : isSquare a = true
  · have hsq' := (isSquare_iff a).mp hsq
    simp only [Cfg.fixed, hsq, Bool.not_true, Bool.and_false, Bool.false_eq_true, if_false] at h
    obtain ⟨hS, hi, ho⟩ := diagConj_sound ha hca h
    obtain ⟨hom, hon⟩ := sizes_of_shapes hi ho
    have hmn : a.m = a.n := by simp only [Obj.m, Obj.n, hsq']
    refine ⟨hS.congr (fun i j hi' hj' => ?_), by rw [hi, hsq'], by rw [ho, hsq']⟩
    have := diag_square ha hca hsq'
    simp only [matConj, matH, conj_eq_star]
    have hi2 : i < a.n := by rw [← hmn, ← hom]; exact hi'
    have hj2 : j < a.n := by rw [← hon]; exact hj'
    rw [this i j hi2 hj2, this j i hj2 hi2]
    by_cases hij : i = j
    · subst hij; simp
    · have : ¬ j = i := fun h => hij h.symm
      simp [hij, this]
  · simp only [Cfg.fixed, hsq, Bool.not_false, Bool.and_self, if_true] at h
    injection h with h; subst h
    exact ⟨linH_sound ha, rfl, rfl⟩


/-- Gram matrix of a (square) diagonal matrix -/
theorem gram_of_diag (k : Nat) (D : Mx K)
    (hD : ∀ i j, i < k → j < k → D i j = if i = j then D i i else 0) (i j : Nat)
    (hi : i < k) (hj : j < k) :
    matMul k (matH D) D i j = if i = j then star (D i i) * D i i else 0 := by
  unfold matMul matH
  have : ∀ l, l < k → conj (D l i) * D l j = if l = i then (if i = j then star (D i i) * D i i else 0) else 0 := by
    intro l hl
    rw [hD l i hl hi, hD l j hl hj]
    by_cases h1 : l = i
    · subst h1
      by_cases h2 : l = j
      · subst h2; simp [conj_eq_star]
      · simp [h2]
    · simp [h1, conj_eq_star]
  rw [sumTo_congr this, sumTo_ite_eq]
  simp [hi]

/-- `gram_op` of the three classes -/
theorem diagGram_sound {a o : Obj K} {Da : Mx K} (ha : Sound a Da) (hca : IsDiagCls a.md.cls)
    (h : diagGram Cfg.fixed a = .ok o) :
    Sound o (matMul a.m (matH Da) Da) ∧ o.md.inShape = a.md.inShape ∧ o.md.outShape = a.md.inShape := by
  unfold diagGram at h
  rcases hca with hc | hc | hc
  · simp only [hc] at h
    by_cases hsq : isSquare a = true
    · have hsq' := (isSquare_iff a).mp hsq
      simp only [Cfg.fixed, hsq, Bool.not_true, Bool.and_false, Bool.false_eq_true, if_false] at h
      have hmn : a.m = a.n := by simp only [Obj.m, Obj.n, hsq']
      obtain ⟨hS, hi, ho⟩ := rediag_map_sound ha (Or.inl hc) (fun t => star t * t) (by simp) _ _ h (by
        rcases ha.mode with h | h
        · exact Or.inl h
        · refine Or.inr ⟨?_, ?_⟩
          · simp only [Obj.diagonal, hc]; exact h.datC
          · intro t ht; injection ht with ht; rw [← ht]; exact h.inC)
      obtain ⟨hom, hon⟩ := sizes_of_shapes hi ho
      refine ⟨hS.congr (fun i j hi' hj' => ?_), hi, by rw [ho, hsq']⟩
      have hsqD := diag_square ha (Or.inl hc) hsq'
      have hi2 : i < a.n := by rw [← hmn, ← hom]; exact hi'
      have hj2 : j < a.n := by rw [← hon]; exact hj'
      rw [hmn, gram_of_diag a.n Da hsqD i j hi2 hj2, hsqD i j hi2 hj2]
      by_cases hij : i = j <;> simp [hij]
    · simp only [Cfg.fixed, hsq, Bool.not_false, Bool.and_self, if_true] at h
      injection h with h; subst h
      exact ⟨linGram_sound _ ha, rfl, rfl⟩
  · simp only [hc] at h
    injection h with h; subst h
    obtain ⟨hio, hDa⟩ := sid_payload ha (Or.inl hc)
    have hmn : a.m = a.n := by simp only [Obj.m, Obj.n, hio]
    refine ⟨mkSid_on ha (Or.inl hc) _ _ _ (fun i j hi hj => ?_), rfl, rfl⟩
    have hsqD : ∀ i j, i < a.n → j < a.n → Da i j = if i = j then Da i i else 0 := by
      intro i j hi hj
      rw [hDa i j hi hj, hDa i i hi hi]; simp
    rw [hmn, gram_of_diag a.n Da hsqD i j hi hj, hDa i i hi hi]
    by_cases hij : i = j <;> simp [hij, conj_eq_star, mul_comm]
  · simp only [hc] at h
    injection h with h; subst h
    obtain ⟨hio, hDa⟩ := sid_payload ha (Or.inr hc)
    have hmn : a.m = a.n := by simp only [Obj.m, Obj.n, hio]
    have h1 : a.dat.get 0 = 1 := by
      have := ha.pl; simp only [PayloadIs, hc] at this; exact this.2.1
    refine ⟨ha.congr (fun i j hi hj => ?_), rfl, hio.symm⟩
    have hsqD : ∀ i j, i < a.n → j < a.n → Da i j = if i = j then Da i i else 0 := by
      intro i j hi hj
      rw [hDa i j hi hj, hDa i i hi hi]; simp
    have hi2 : i < a.n := hmn ▸ hi
    rw [hmn, gram_of_diag a.n Da hsqD i j hi2 hj, hDa i j hi2 hj, hDa i i hi2 hi2, h1]
    by_cases hij : i = j <;> simp [hij]


theorem linCall_sound (cfg : Cfg) {a b o : Obj K} {Da Db : Mx K} (ha : Sound a Da) (hb : Sound b Db)
    (h : linCall cfg a b = .ok o) :
    Sound o (matMul a.n Da Db) ∧ o.md.inShape = b.md.inShape ∧ o.md.outShape = a.md.outShape := by
  unfold linCall at h
  have hbl : b.cls.isLinop = true := by
    have := hb.lin
    simp only [Obj.cls, Cls.isLinop, bne_iff_ne, ne_eq]; exact this
  rw [if_pos hbl] at h
  refine ⟨linComp_sound ha hb h, ?_, ?_⟩ <;>
  · unfold linComp at h
    split at h
    · cases h
    · split at h
      · cases h
      · injection h with h; subst h; rfl

/-- `ScaledIdentity.__matmul__` -/
theorem sidMatmul_sound {a b o : Obj K} {Da Db : Mx K} (ha : Sound a Da) (hb : Sound b Db)
    (hca : a.md.cls = .scaledId ∨ a.md.cls = .ident) (h : sidMatmul Cfg.fixed a b = .ok o) :
    Sound o (matMul a.n Da Db) ∧ o.md.inShape = b.md.inShape ∧ o.md.outShape = a.md.outShape := by
  obtain ⟨hio, hDa⟩ := sid_payload ha hca
  unfold sidMatmul at h
  by_cases hbd : b.cls.isSub .diag = true
  · rw [if_pos hbd] at h
    have hbD : IsDiagCls b.md.cls := (isSub_diag_iff _).mp hbd
    simp only [Cfg.fixed, if_true] at h
    split at h
    · cases h
    · rename_i hsh
      have hsh' : a.md.inShape = b.md.outShape := by simpa using hsh
      have hk : a.n = b.m := by simp only [Obj.n, Obj.m, hsh']
      split at h
      · rename_i hbs
        have hbS := (isSub_sid_iff _).mp hbs
        obtain ⟨hbio, hDb⟩ := sid_payload hb hbS
        have hbn : b.n = b.m := by simp only [Obj.n, Obj.m, hbio]
        injection h with h; subst h
        refine ⟨mkSid_on ha hca _ _ _ (fun i j hi hj => ?_), ?_, hio⟩
        · rw [matMul_sid_left a.n Da Db _ hDa i j hi, hDb i j (by omega) (by omega)]
          by_cases hij : i = j <;> simp [hij]
        · show a.md.inShape = b.md.inShape
          rw [hsh', hbio]
      · obtain ⟨hS, hi, ho⟩ := rediag_map_sound hb hbD (fun t => a.dat.get 0 * t) (by simp) _ none h (by
          rcases ha.mode with h | h
          · exact Or.inl h
          · exact Or.inr ⟨rt_complex_left h.datC, by simp⟩)
        obtain ⟨hom, hon⟩ := sizes_of_shapes hi ho
        refine ⟨hS.congr (fun i j hi' hj' => ?_), hi, by rw [ho, ← hsh', hio]⟩
        have hi2 : i < a.n := by rw [hk, ← hom]; exact hi'
        rw [matMul_sid_left a.n Da Db _ hDa i j hi2]
  · rw [if_neg hbd] at h
    exact linCall_sound _ ha hb h

/-- the side condition under which `Diagonal @ Diagonal` is covered by `diagMatmul_sound`:
    both diagonal arrays have the same shape and the right operand is square
    (no broadcasting *between* the two diagonals) -/
def DiagProductPlain (a b : Obj K) : Prop :=
  a.diagonal.2.1 = b.diagonal.2.1 ∧ b.md.inShape = b.md.outShape

/-- `Diagonal.__matmul__` -/
theorem diagMatmul_sound {a b o : Obj K} {Da Db : Mx K} (ha : Sound a Da) (hb : Sound b Db)
    (hca : IsDiagCls a.md.cls) (h : diagMatmul Cfg.fixed a b = .ok o)
    (hR : IsDiagCls b.md.cls → DiagProductPlain a b) :
    Sound o (matMul a.n Da Db) ∧ o.md.inShape = b.md.inShape ∧ o.md.outShape = a.md.outShape := by
  unfold diagMatmul at h
  by_cases hbd : b.cls.isSub .diag = true
  · rw [if_pos hbd] at h
    have hbD : IsDiagCls b.md.cls := (isSub_diag_iff _).mp hbd
    obtain ⟨hss, hbsq⟩ := hR hbD
    simp only [Cfg.fixed, if_true] at h
    split at h
    · rename_i hsh
      have hk : a.n = b.m := by simp only [Obj.n, Obj.m, hsh]
      obtain ⟨hsa, hDa, _, hza⟩ := diagonal_spec ha hca
      obtain ⟨hsb, hDb, hmb, hzb⟩ := diagonal_spec hb hbD
      -- both operators are square on the same shape
      have hab : a.md.inShape = b.md.inShape := by rw [hsh, hbsq]
      have haout : a.md.outShape = b.md.outShape := by
        rw [hab, hss, hsb] at hsa; injection hsa with hsa; exact hsa.symm
      have hasq : a.md.inShape = a.md.outShape := by rw [hsh, haout]
      have hbn : b.n = b.m := by simp only [Obj.n, Obj.m, hbsq]
      have han : a.n = a.m := by simp only [Obj.n, Obj.m, hasq]
      rcases hda : a.diagonal with ⟨da, sa, ta⟩
      rcases hdb : b.diagonal with ⟨db, sb, tb⟩
      simp only [hda, hdb] at h hss hDa hza hDb hzb hmb
      subst hss
      rw [bshapeS_self] at h
      simp only at h
      have hbdiag : b.diagonal.2.1 = sa := by rw [hdb]
      rw [← hbdiag] at h
      obtain ⟨hS, hi, ho⟩ := rediag_same_sound hb hbD _ _ none h (by
        rcases ha.modeDat hca with h | h
        · exact Or.inl h
        · refine Or.inr ⟨?_, by simp⟩
          rw [hda] at h; exact rt_complex_left h)
      obtain ⟨hom, hon⟩ := sizes_of_shapes hi ho
      refine ⟨hS.congr (fun i j hi' hj' => ?_), hi, by rw [ho, haout]⟩
      have hi2 : i < a.n := by rw [hk, ← hom]; exact hi'
      have hj2 : j < b.n := by rw [← hon]; exact hj'
      have hib : i < b.n := by rw [hbn, ← hom]; exact hi'
      have hsqA := diag_square ha hca hasq
      have hsqB := diag_square hb hbD hbsq
      -- right-hand side: product of two diagonal matrices
      have hR : matMul a.n Da Db i j = if i = j then Da i i * Db i i else 0 := by
        unfold matMul
        have : ∀ l, l < a.n → Da i l * Db l j = if i = l then (if i = j then Da i i * Db i i else 0) else 0 := by
          intro l hl
          rw [hsqA i l hi2 hl]
          by_cases h1 : i = l
          · subst h1
            rw [hsqB i j hib hj2]
            by_cases h2 : i = j <;> simp [h2]
          · simp [h1]
        rw [sumTo_congr this, sumTo_ite_eq']; simp [hi2]
      rw [hR, hDa i i (han ▸ hi2) hi2, hDb i i (hbn ▸ hib) hib]
      unfold diagMx
      rw [hbdiag, ← hbsq, bidxS_self _ i (by simpa [Obj.n] using hib), ← hasq,
        bidxS_self _ i (by simpa [Obj.n] using hi2), hab]
      by_cases hij : i = j
      · subst hij
        simp only [if_true, trunc_get]
        by_cases hq : bidxS b.md.inShape sa i < sa.size
        · simp only [hq, if_true]
          rw [bidxS_self _ _ hq]
        · rw [hza _ (Nat.le_of_not_lt hq)]; simp [hq]
      · simp [hij]
    · cases h
  · rw [if_neg hbd] at h
    exact linCall_sound _ ha hb h

end
end Scico.OpAlg
