/-
  PINNED source structure of the functions the block-array model transcribes (C13, round 4).
  `harness/block_translate.py` regenerates `Scico/Generated/BlockSource.lean` from the working tree (ast:
  one line per statement, indentation = nesting depth, docstrings / comments / annotations / exception
  messages dropped) and Lean decides `generated = pinned`.  Each entry names the model definitions
  (`Scico.Model.Block`) that transcribe it: when a body changes, the obligation breaks, and the entry is
  reviewed TOGETHER with those definitions.  Mathlib-free.
-/

namespace Scico.Source

/-- same functions, same normalised bodies -/
def check (generated pinned : List (String × List String)) : Bool := generated == pinned

theorem check_sound (g p : List (String × List String)) (h : check g p = true) : g = p := by
  simpa [check] using h

end Scico.Source

namespace Scico.Block.Source

def pinned : List (String × List String) :=
  [
    -- model: coerce, homogeneous, mkFrom, mkBlock
    ("scico/numpy/_blockarray.py:BlockArray.__init__",
     ["def __init__(self, inputs):",
      "  self.arrays = [x if isinstance(x, jnp.ndarray) else jnp.array(x) for x in inputs]",
      "  if not all((a.dtype == self.arrays[0].dtype for a in self.arrays)):",
      "    raise ValueError"]),
    -- model: dtypeOf
    ("scico/numpy/_blockarray.py:BlockArray.dtype",
     ["@property",
      "def dtype(self):",
      "  return self.arrays[0].dtype"]),
    -- model: List.length (numBlocksInArgs, lensOk read it)
    ("scico/numpy/_blockarray.py:BlockArray.__len__",
     ["def __len__(self):",
      "  return self.arrays.__len__()"]),
    -- model: getItem (int key), getSlice (slice key: the list result goes through the constructor)
    ("scico/numpy/_blockarray.py:BlockArray.__getitem__",
     ["def __getitem__(self, key):",
      "  result = self.arrays[key]",
      "  if not isinstance(result, jnp.ndarray):",
      "    return BlockArray(result)",
      "  return result"]),
    -- model: setItem, setSlice (copy of the list, assignment, constructor)
    ("scico/numpy/_blockarray.py:BlockArray.__setitem__",
     ["def __setitem__(self, key, value):",
      "  arrays = list(self.arrays)",
      "  arrays[key] = value",
      "  self.arrays = BlockArray(arrays).arrays"]),
    -- model: treeUnflatten, unflattenNode
    ("scico/numpy/_blockarray.py:_unflatten",
     ["def _unflatten(_, xs):",
      "  xs = list(xs)",
      "  if all((isinstance(x, jnp.ndarray) for x in xs)):",
      "    return BlockArray(xs)",
      "  ba = object.__new__(BlockArray)",
      "  ba.arrays = xs",
      "  return ba"]),
    -- model: treeFlatten (the block list itself, aux = None), treeUnflatten
    ("scico/numpy/_blockarray.py:@call:jax.tree_util.register_pytree_node",
     ["jax.tree_util.register_pytree_node(BlockArray, lambda xs: (xs.arrays, None), _unflatten)"]),
    -- model: unop
    ("scico/numpy/_blockarray.py:_unary_op_wrapper",
     ["def _unary_op_wrapper(op_name):",
      "  op = getattr(Array, op_name)",
      "  @wraps(op)",
      "  def op_ba(self):",
      "    return BlockArray((op(x) for x in self))",
      "  return op_ba"]),
    -- model: opPair, binop (length check + zip; broadcast branch with the NotImplemented test)
    ("scico/numpy/_blockarray.py:_binary_op_wrapper",
     ["def _binary_op_wrapper(op_name):",
      "  op = getattr(Array, op_name)",
      "  @wraps(op)",
      "  def op_ba(self, other):",
      "    if isinstance(other, BlockArray):",
      "      if len(self) != len(other):",
      "        raise TypeError",
      "      return BlockArray((op(x, y) for x, y in zip(self, other)))",
      "    result = list((op(x, other) for x in self))",
      "    if NotImplemented in result:",
      "      return NotImplemented",
      "    return BlockArray(result)",
      "  return op_ba"]),
    -- model: liftMethod
    ("scico/numpy/_blockarray.py:_da_prop_wrapper",
     ["def _da_prop_wrapper(prop_name):",
      "  prop = getattr(Array, prop_name)",
      "  @property",
      "  @wraps(prop)",
      "  def prop_ba(self):",
      "    result = tuple((getattr(x, prop_name) for x in self))",
      "    if isinstance(result[0], jnp.ndarray):",
      "      return BlockArray(result)",
      "    return result",
      "  return prop_ba"]),
    -- model: liftMethod
    ("scico/numpy/_blockarray.py:_da_method_wrapper.method_ba",
     ["@wraps(method, assigned=wrapper_assignments)",
      "def method_ba(self, *args, **kwargs):",
      "  result = tuple((getattr(x, method_name)(*args, **kwargs) for x in self))",
      "  if isinstance(result[0], jnp.ndarray):",
      "    return BlockArray(result)",
      "  return result"]),
    -- model: mapTupleOfTuples, lookupKey, eraseKey
    ("scico/numpy/_wrappers.py:map_func_over_tuple_of_tuples",
     ["def map_func_over_tuple_of_tuples(func, map_arg_name='shape'):",
      "  @wraps(func)",
      "  def mapped(*args, **kwargs):",
      "    bound_args = signature(func).bind(*args, **kwargs)",
      "    if map_arg_name not in bound_args.arguments:",
      "      return func(*args, **kwargs)",
      "    map_arg_val = bound_args.arguments.pop(map_arg_name)",
      "    if not snp.util.is_nested(map_arg_val):",
      "      return func(*args, **kwargs)",
      "    return BlockArray((func(*bound_args.args, **bound_args.kwargs, **{map_arg_name: x}) for x in map_arg_val))",
      "  return mapped"]),
    -- model: firstBlk, numBlocksInArgs (positional before keyword, first block argument)
    ("scico/numpy/_wrappers.py:_num_blocks_in_args",
     ["def _num_blocks_in_args(*args, **kwargs):",
      "  first_ba_arg = next((arg for arg in args if isinstance(arg, BlockArray)), None)",
      "  if first_ba_arg is None:",
      "    first_ba_kwarg = next((v for k, v in kwargs.items() if isinstance(v, BlockArray)), None)",
      "    if first_ba_kwarg is None:",
      "      num_blocks = 0",
      "    else:",
      "      num_blocks = len(first_ba_kwarg)",
      "  else:",
      "    num_blocks = len(first_ba_arg)",
      "  return num_blocks"]),
    -- model: lensOk, pick, blockArgsKwargs
    ("scico/numpy/_wrappers.py:_block_args_kwargs",
     ["def _block_args_kwargs(num_blocks, *args, **kwargs):",
      "  for arg in (*args, *kwargs.values()):",
      "    if isinstance(arg, BlockArray) and len(arg) != num_blocks:",
      "      raise TypeError",
      "  new_args = []",
      "  new_kwargs = []",
      "  for i in range(num_blocks):",
      "    new_args.append([arg[i] if isinstance(arg, BlockArray) else arg for arg in args])",
      "    new_kwargs.append({k: v[i] if isinstance(v, BlockArray) else v for k, v in kwargs.items()})",
      "  return (new_args, new_kwargs)"]),
    -- model: mapFuncOverBlocks (num_blocks == 0 test)
    ("scico/numpy/_wrappers.py:map_func_over_blocks",
     ["def map_func_over_blocks(func):",
      "  @wraps(func)",
      "  def mapped(*args, **kwargs):",
      "    num_blocks = _num_blocks_in_args(*args, **kwargs)",
      "    if num_blocks == 0:",
      "      return func(*args, **kwargs)",
      "    new_args, new_kwargs = _block_args_kwargs(num_blocks, *args, **kwargs)",
      "    return BlockArray((func(*new_args[i], **new_kwargs[i]) for i in range(num_blocks)))",
      "  return mapped"]),
    -- model: mapVoidFuncOverBlocks
    ("scico/numpy/_wrappers.py:map_void_func_over_blocks",
     ["def map_void_func_over_blocks(func):",
      "  @wraps(func)",
      "  def mapped(*args, **kwargs):",
      "    num_blocks = _num_blocks_in_args(*args, **kwargs)",
      "    if num_blocks == 0:",
      "      func(*args, **kwargs)",
      "    else:",
      "      new_args, new_kwargs = _block_args_kwargs(num_blocks, *args, **kwargs)",
      "      [func(*new_args[i], **new_kwargs[i]) for i in range(num_blocks)]",
      "  return mapped"]),
    -- model: addFullReduction, catArg, ravelCatVia (pop block args from the bound arguments, then `'axis' in`, then > 1)
    ("scico/numpy/_wrappers.py:add_full_reduction",
     ["def add_full_reduction(func, axis_arg_name='axis'):",
      "  sig = signature(func)",
      "  if axis_arg_name not in sig.parameters:",
      "    raise ValueError",
      "  @wraps(func)",
      "  def wrapped(*args, **kwargs):",
      "    bound_args = sig.bind(*args, **kwargs)",
      "    ba_args = {}",
      "    for (k, v) in list(bound_args.arguments.items()):",
      "      if isinstance(v, BlockArray):",
      "        ba_args[k] = bound_args.arguments.pop(k)",
      "    if 'axis' in bound_args.arguments:",
      "      return func(*bound_args.args, **bound_args.kwargs, **ba_args)",
      "    if len(ba_args) > 1:",
      "      raise ValueError",
      "    ba_args = {k: jnp.concatenate(v.ravel()) for k, v in ba_args.items()}",
      "    return func(*bound_args.args, **bound_args.kwargs, **ba_args)",
      "  return wrapped"]),
    -- model: STree.isSeq, STree.isNested
    ("scico/numpy/util.py:is_nested",
     ["def is_nested(x):",
      "  return isinstance(x, (list, tuple)) and any([isinstance(_, (list, tuple)) for _ in x])"]),
    -- model: shapeToSize, STree.prod
    ("scico/numpy/util.py:shape_to_size",
     ["def shape_to_size(shape):",
      "  if is_nested(shape):",
      "    return sum((prod(s) for s in shape))",
      "  return prod(shape)"]),
    -- model: keyOf, seedOf, addSeedCore, addSeed
    ("scico/random.py:_add_seed.fun_alt",
     ["def fun_alt(*args, key=None, seed=None, **kwargs):",
      "  if len(args) >= num_params:",
      "    key = args[num_params - 1]",
      "  if len(args) > num_params:",
      "    seed = args[num_params]",
      "  if key is not None and seed is not None:",
      "    raise ValueError",
      "  if key is None:",
      "    if seed is None:",
      "      seed = 0",
      "    key = jax.random.PRNGKey(seed)",
      "  result = fun(key, *args[:num_params - 1], **kwargs)",
      "  key, subkey = jax.random.split(key, 2)",
      "  return (result, key)"]),
    -- model: randomWrapped
    ("scico/random.py:_wrap",
     ["def _wrap(fun):",
      "  fun_wrapped = _add_seed(map_func_over_tuple_of_tuples(fun))",
      "  fun_wrapped.__module__ = __name__",
      "  return fun_wrapped"]),
    -- model: which jax.random functions are wrapped: first parameter `key`, a parameter `shape` (tie: section random)
    ("scico/random.py:_is_wrappable",
     ["def _is_wrappable(fun):",
      "  params = inspect.signature(getattr(jax.random, fun)).parameters",
      "  prmkey = list(params.keys())",
      "  return prmkey and prmkey[0] == 'key' and ('shape' in params.keys())"])
  ]

end Scico.Block.Source
