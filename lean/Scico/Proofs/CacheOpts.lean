/-
  Helper lemmas for the constructor-option / shared-default state machine of `Scico.Model.Cache` §5.
-/
import Scico.Model.Cache
import Mathlib.Data.List.Basic
import Mathlib.Data.List.Nodup

namespace Scico.Cache

variable {ν : Type}

/-- the in-place mutations of a history that target dictionary object `id`, applied in order
    (specification: what an observer of that one object sees, ignoring everything else) -/
def mutsOn (id : Nat) : List (OptOp ν) → Dict ν → Dict ν
  | [], d => d
  | .mutate j k v :: os, d => mutsOn id os (if j = id then d.set k v else d)
  | _ :: os, d => mutsOn id os d

/-- well-formed world: the default object exists and every instance points at an existing dictionary -/
structure OptWorld.WF (w : OptWorld ν) : Prop where
  pos : 0 < w.dicts.length
  inb : ∀ id ∈ w.insts, id < w.dicts.length

theorem OptWorld.wf_init (lit : Dict ν) : (OptWorld.init lit).WF := ⟨by simp [OptWorld.init], by simp [OptWorld.init]⟩

/-- the dictionary id a `byRef` constructor stores -/
def byRefId (w : OptWorld ν) (arg : Option Nat) : Nat :=
  match arg with
  | none => 0
  | some a => match w.dicts[a]? with | some _ => a | none => 0

theorem OptWorld.ctor_byRef (lit : Dict ν) (w : OptWorld ν) (arg : Option Nat) :
    w.ctor .byRef lit arg = { w with insts := w.insts ++ [byRefId w arg] } := by
  cases arg with
  | none => rfl
  | some a => simp only [OptWorld.ctor, byRefId]; cases w.dicts[a]? <;> rfl

theorem byRefId_lt (w : OptWorld ν) (hpos : 0 < w.dicts.length) (arg : Option Nat) : byRefId w arg < w.dicts.length := by
  cases arg with
  | none => exact hpos
  | some a =>
    simp only [byRefId]
    cases hg : w.dicts[a]? with
    | none => exact hpos
    | some u =>
      simp only
      by_contra hlt
      rw [List.getElem?_eq_none (by omega)] at hg
      cases hg

theorem OptWorld.wf_apply (p : OptPattern) (lit : Dict ν) (w : OptWorld ν) (hw : w.WF) (o : OptOp ν) :
    (w.apply p lit o).WF := by
  cases o with
  | userDict d =>
    refine ⟨by simp [OptWorld.apply], ?_⟩
    intro id hid
    have := hw.inb id hid
    simp only [OptWorld.apply, List.length_append, List.length_cons, List.length_nil]
    omega
  | mutate id k v => exact ⟨by simpa [OptWorld.apply] using hw.pos, by simpa [OptWorld.apply] using hw.inb⟩
  | ctor arg =>
    cases p with
    | byRef =>
      simp only [OptWorld.apply, OptWorld.ctor_byRef]
      refine ⟨hw.pos, ?_⟩
      intro id hid
      simp only [List.mem_append, List.mem_singleton] at hid
      rcases hid with h | rfl
      · exact hw.inb id h
      · exact byRefId_lt w hw.pos arg
    | copyUpdate =>
      refine ⟨by simp [OptWorld.apply, OptWorld.ctor], ?_⟩
      intro id hid
      simp only [OptWorld.apply, OptWorld.ctor, List.mem_append, List.mem_singleton] at hid
      simp only [OptWorld.apply, OptWorld.ctor, List.length_append, List.length_cons, List.length_nil]
      rcases hid with h | rfl
      · have := hw.inb id h; omega
      · omega
    | classUpdate =>
      refine ⟨by simpa [OptWorld.apply, OptWorld.ctor] using hw.pos, ?_⟩
      intro id hid
      simp only [OptWorld.apply, OptWorld.ctor, List.mem_append, List.mem_singleton] at hid
      simp only [OptWorld.apply, OptWorld.ctor, List.length_set]
      rcases hid with h | rfl
      · exact hw.inb id h
      · exact hw.pos

theorem OptWorld.wf_run (p : OptPattern) (lit : Dict ν) (ops : List (OptOp ν)) :
    ∀ w : OptWorld ν, w.WF → (w.run p lit ops).WF := by
  induction ops with
  | nil => intro w hw; exact hw
  | cons o os ih => intro w hw; exact ih _ (OptWorld.wf_apply p lit w hw o)

/-! ### pattern `copyUpdate`: a new dictionary per object -/

/-- no two objects hold the same dictionary -/
theorem OptWorld.nodup_apply_copy (lit : Dict ν) (w : OptWorld ν) (hw : w.WF) (hn : w.insts.Nodup) (o : OptOp ν) :
    (w.apply .copyUpdate lit o).insts.Nodup := by
  cases o with
  | userDict d => exact hn
  | mutate id k v => exact hn
  | ctor arg =>
    simp only [OptWorld.apply, OptWorld.ctor]
    rw [List.nodup_append]
    refine ⟨hn, by simp, ?_⟩
    intro a ha b hb
    simp only [List.mem_singleton] at hb
    have := hw.inb a ha
    omega

theorem OptWorld.nodup_run_copy (lit : Dict ν) (ops : List (OptOp ν)) :
    ∀ w : OptWorld ν, w.WF → w.insts.Nodup → (w.run .copyUpdate lit ops).insts.Nodup := by
  induction ops with
  | nil => intro w _ hn; exact hn
  | cons o os ih =>
    intro w hw hn
    exact ih _ (OptWorld.wf_apply .copyUpdate lit w hw o) (OptWorld.nodup_apply_copy lit w hw hn o)

/-- the default object is never an instance's dictionary under `copyUpdate` -/
theorem OptWorld.zero_not_inst_copy (lit : Dict ν) (ops : List (OptOp ν)) :
    ∀ w : OptWorld ν, w.WF → 0 ∉ w.insts → 0 ∉ (w.run .copyUpdate lit ops).insts := by
  induction ops with
  | nil => intro w _ h; exact h
  | cons o os ih =>
    intro w hw h
    apply ih _ (OptWorld.wf_apply .copyUpdate lit w hw o)
    cases o with
    | userDict d => exact h
    | mutate id k v => exact h
    | ctor arg =>
      simp only [OptWorld.apply, OptWorld.ctor, List.mem_append, List.mem_singleton, not_or]
      exact ⟨h, by have := hw.pos; omega⟩

/-! ### the content of one dictionary object along a history -/

/-- under `byRef` and `copyUpdate` only in-place mutations change an existing dictionary object -/
theorem OptWorld.dict_run (p : OptPattern) (hp : p ≠ .classUpdate) (lit : Dict ν) (ops : List (OptOp ν)) (id : Nat) :
    ∀ (w : OptWorld ν) (d : Dict ν), w.dicts[id]? = some d →
      (w.run p lit ops).dicts[id]? = some (mutsOn id ops d) := by
  induction ops with
  | nil => intro w d h; exact h
  | cons o os ih =>
    intro w d h
    have hlt : id < w.dicts.length := by
      by_contra hge; rw [List.getElem?_eq_none (by omega)] at h; cases h
    cases o with
    | userDict u =>
      simp only [OptWorld.run, mutsOn]
      apply ih
      simp only [OptWorld.apply]
      rw [List.getElem?_append_left hlt]; exact h
    | mutate j k v =>
      simp only [OptWorld.run, mutsOn]
      apply ih
      simp only [OptWorld.apply, List.getElem?_modify, h]
      by_cases hj : j = id <;> simp [hj]
    | ctor arg =>
      simp only [OptWorld.run, mutsOn]
      apply ih
      cases p with
      | classUpdate => exact absurd rfl hp
      | copyUpdate =>
        simp only [OptWorld.apply, OptWorld.ctor]
        rw [List.getElem?_append_left hlt]; exact h
      | byRef =>
        simp only [OptWorld.apply, OptWorld.ctor_byRef]
        exact h

theorem mutsOn_none (id : Nat) (ops : List (OptOp ν)) (hno : ∀ k v, OptOp.mutate id k v ∉ ops) (d : Dict ν) :
    mutsOn id ops d = d := by
  induction ops generalizing d with
  | nil => rfl
  | cons o os ih =>
    have hos : ∀ k v, OptOp.mutate id k v ∉ os := fun k v h => hno k v (List.mem_cons_of_mem _ h)
    cases o with
    | userDict u => exact ih hos d
    | ctor arg => exact ih hos d
    | mutate j k v =>
      simp only [mutsOn]
      by_cases hj : j = id
      · subst hj; exact absurd List.mem_cons_self (hno k v)
      · simp only [hj, if_false]; exact ih hos d

end Scico.Cache
