/-
  Proofs/StepsOpial — convergence of the ITERATES of a Fejér-monotone, asymptotically regular fixed-point iteration in
  finite dimension (Opial's argument), and its application to PDHG: for a merely convex problem (no strong
  convexity), linear `C`, `alpha = 1`, `τσ‖C‖² < 1`, finite-dimensional variables, the PDHG iterates `(x_k, z_k)`
  converge from every start to a saddle point `(x̄, z̄)` — so `minimizer()` converges to a minimiser of `f + g∘C`.
-/
import Scico.Model.Steps
import Scico.Proofs.StepsConvex
import Scico.Proofs.StepsFixed
import Scico.Proofs.StepsRelax
import Scico.Proofs.StepsPDHG
import Mathlib.Topology.MetricSpace.Sequences
import Mathlib.Analysis.Normed.Module.FiniteDimension
import Mathlib.Tactic.Abel

set_option linter.unusedSectionVars false

namespace Scico.Steps

/-- Opial: `T` continuous on a proper normed space, `D` comparable to the squared norm, the orbit of `w0` Fejér monotone
    w.r.t. every fixed point and asymptotically regular, at least one fixed point ⇒ the orbit converges to a fixed point -/
theorem fejer_converges {E : Type} [NormedAddCommGroup E] [ProperSpace E]
    (T : E → E) (hT : Continuous T) (D : E → E → ℝ) (c Cc : ℝ) (hc : 0 < c)
    (hlow : ∀ a b, c * ‖a - b‖ ^ 2 ≤ D a b) (hup : ∀ a b, D a b ≤ Cc * ‖a - b‖ ^ 2)
    (w0 : E) (hfix : ∃ ws, T ws = ws)
    (hfejer : ∀ ws, T ws = ws → ∀ k, D (iter T (k + 1) w0) ws ≤ D (iter T k w0) ws)
    (hreg : Filter.Tendsto (fun k => ‖iter T k w0 - T (iter T k w0)‖) Filter.atTop (nhds 0)) :
    ∃ wb, T wb = wb ∧ Filter.Tendsto (fun k => iter T k w0) Filter.atTop (nhds wb) := by
  obtain ⟨ws, hws⟩ := hfix
  -- the orbit is bounded
  have hmono : ∀ wf, T wf = wf → ∀ k, D (iter T k w0) wf ≤ D w0 wf := by
    intro wf hwf k
    induction k with
    | zero => exact le_refl _
    | succ k ih => exact le_trans (hfejer wf hwf k) ih
  have hD0 : 0 ≤ D w0 ws := le_trans (by positivity) (hlow w0 ws)
  have hball : ∀ k, iter T k w0 ∈ Metric.closedBall ws (Real.sqrt (D w0 ws / c)) := by
    intro k
    rw [Metric.mem_closedBall, dist_eq_norm]
    apply Real.le_sqrt_of_sq_le
    rw [le_div_iff₀ hc]
    have := hlow (iter T k w0) ws
    have := hmono ws hws k
    linarith
  obtain ⟨a, _, φ, hφ, hlim⟩ := tendsto_subseq_of_bounded Metric.isBounded_closedBall hball
  -- the cluster point is a fixed point
  have hTa : T a = a := by
    have h1 : Filter.Tendsto (fun n => T (iter T (φ n) w0)) Filter.atTop (nhds (T a)) :=
      (hT.tendsto a).comp hlim
    have h2 : Filter.Tendsto (fun n => iter T (φ n) w0 - T (iter T (φ n) w0)) Filter.atTop (nhds (a - T a)) :=
      hlim.sub h1
    have h3 : Filter.Tendsto (fun n => iter T (φ n) w0 - T (iter T (φ n) w0)) Filter.atTop (nhds 0) := by
      rw [tendsto_zero_iff_norm_tendsto_zero]
      exact hreg.comp hφ.tendsto_atTop
    have := tendsto_nhds_unique h2 h3
    exact (sub_eq_zero.1 this).symm
  refine ⟨a, hTa, ?_⟩
  -- D(w_k, a) is non-increasing and tends to 0 along the subsequence, hence tends to 0
  have hanti : ∀ k j, k ≤ j → D (iter T j w0) a ≤ D (iter T k w0) a := by
    intro k j hkj
    induction hkj with
    | refl => exact le_refl _
    | step _ ih => exact le_trans (hfejer a hTa _) ih
  have hsub : Filter.Tendsto (fun n => Cc * ‖iter T (φ n) w0 - a‖ ^ 2) Filter.atTop (nhds 0) := by
    have h1 : Filter.Tendsto (fun n => ‖iter T (φ n) w0 - a‖) Filter.atTop (nhds 0) := by
      rw [← tendsto_iff_norm_sub_tendsto_zero]; exact hlim
    have h2 := (h1.pow 2).const_mul Cc
    simpa using h2
  have hDlim : Filter.Tendsto (fun k => D (iter T k w0) a) Filter.atTop (nhds 0) := by
    rw [Metric.tendsto_atTop]
    intro ε hε
    rw [Metric.tendsto_atTop] at hsub
    obtain ⟨N, hN⟩ := hsub ε hε
    refine ⟨φ N, fun k hk => ?_⟩
    have h1 := hN N (le_refl N)
    rw [Real.dist_eq, sub_zero] at h1 ⊢
    have h0 : 0 ≤ D (iter T k w0) a := le_trans (by positivity) (hlow (iter T k w0) a)
    rw [abs_of_nonneg h0]
    have h2 := hanti (φ N) k hk
    have h3 := hup (iter T (φ N) w0) a
    have h4 : Cc * ‖iter T (φ N) w0 - a‖ ^ 2 ≤ |Cc * ‖iter T (φ N) w0 - a‖ ^ 2| := le_abs_self _
    linarith
  rw [tendsto_iff_norm_sub_tendsto_zero]
  have hb := hDlim.const_mul (1 / c)
  rw [mul_zero] at hb
  refine tendsto_zero_of_sq_le (fun k => norm_nonneg _) (fun k => ?_) hb
  have := hlow (iter T k w0) a
  rw [one_div, inv_mul_eq_div, le_div_iff₀ hc]
  linarith

/-! ### PDHG in finite dimension -/

section PDHG

variable {X Z : Type} [NormedAddCommGroup X] [InnerProductSpace ℝ X] [FiniteDimensional ℝ X]
  [NormedAddCommGroup Z] [InnerProductSpace ℝ Z] [FiniteDimensional ℝ Z]

local notation "⟪" x ", " y "⟫" => inner ℝ x y

/-- the PDHG iteration on the pair `(x, z)` (linear `C`, `alpha = 1`) -/
def pdhgT (p : PDHGParams ℝ X Z) (w : X × Z) : X × Z :=
  (p.proxf p.tau (w.1 - p.tau • p.Cadj w.2),
   p.proxgConj p.sigma (w.2 + p.sigma • p.C ((1 + 1 : ℝ) • p.proxf p.tau (w.1 - p.tau • p.Cadj w.2) - (1 : ℝ) • w.1)))

theorem pdhgT_step (p : PDHGParams ℝ X Z) (hlin : p.linear = true) (ha : p.alpha = 1) (s : PDHGState X Z) :
    ((pdhgSpecStep p s).x, (pdhgSpecStep p s).z) = pdhgT p (s.x, s.z) := by
  unfold pdhgSpecStep pdhgT
  simp only [hlin, ha]

theorem pdhgT_iter (p : PDHGParams ℝ X Z) (hlin : p.linear = true) (ha : p.alpha = 1) (k : Nat) :
    ∀ s : PDHGState X Z,
      ((iter (pdhgSpecStep p) k s).x, (iter (pdhgSpecStep p) k s).z) = iter (pdhgT p) k (s.x, s.z) := by
  induction k with
  | zero => intro s; rfl
  | succ k ih =>
    intro s
    show ((iter (pdhgSpecStep p) k (pdhgSpecStep p s)).x, (iter (pdhgSpecStep p) k (pdhgSpecStep p s)).z)
      = iter (pdhgT p) k (pdhgT p (s.x, s.z))
    rw [ih (pdhgSpecStep p s), pdhgT_step p hlin ha s]

/-- hypotheses that do not mention a particular saddle point -/
structure PDHGConvHyp (p : PDHGParams ℝ X Z) (F : Fn X) (Gc : Fn Z) (Lc theta : ℝ) : Prop where
  lin : p.linear = true
  alpha1 : p.alpha = 1
  tau : 0 < p.tau
  sigma : 0 < p.sigma
  add : ∀ x y, p.C (x + y) = p.C x + p.C y
  adj : ∀ w x, ⟪p.Cadj w, x⟫ = ⟪w, p.C x⟫
  proxf : IsProx F p.proxf
  proxgc : IsProx Gc p.proxgConj
  range : PDHGRange p Lc theta

/-- a saddle point: `−Cᵀz ∈ ∂f(x)`, `Cx ∈ ∂g*(z)` -/
def IsSaddle (p : PDHGParams ℝ X Z) (F : Fn X) (Gc : Fn Z) (w : X × Z) : Prop :=
  F.Subgrad w.1 (-(p.Cadj w.2)) ∧ Gc.Subgrad w.2 (p.C w.1)

theorem PDHGConvHyp.hyp {p : PDHGParams ℝ X Z} {F : Fn X} {Gc : Fn Z} {Lc theta : ℝ} (H : PDHGConvHyp p F Gc Lc theta)
    {w : X × Z} (hw : IsSaddle p F Gc w) : PDHGHyp p F w.1 w.2 :=
  ⟨H.lin, H.alpha1, H.tau, H.sigma, H.add, H.adj, H.proxf, hw.1, pdhg_dual_of_conj p Gc H.proxgc w.1 w.2 hw.2⟩

/-- fixed points of the iteration are exactly the saddle points -/
theorem pdhgT_fixed_iff {p : PDHGParams ℝ X Z} {F : Fn X} {Gc : Fn Z} {Lc theta : ℝ} (H : PDHGConvHyp p F Gc Lc theta)
    (w : X × Z) : pdhgT p w = w ↔ IsSaddle p F Gc w := by
  constructor
  · intro h
    have h1 : p.proxf p.tau (w.1 - p.tau • p.Cadj w.2) = w.1 := congrArg Prod.fst h
    have h2 : p.proxgConj p.sigma (w.2 + p.sigma • p.C ((1 + 1 : ℝ) • p.proxf p.tau (w.1 - p.tau • p.Cadj w.2) - (1 : ℝ) • w.1))
        = w.2 := congrArg Prod.snd h
    rw [h1] at h2
    have e : (1 + 1 : ℝ) • w.1 - (1 : ℝ) • w.1 = w.1 := by rw [add_smul, one_smul]; abel
    rw [e] at h2
    constructor
    · apply H.proxf.subgrad_of_fixed H.tau
      rw [smul_neg, ← sub_eq_add_neg]; exact h1
    · exact H.proxgc.subgrad_of_fixed H.sigma h2
  · intro hw
    have h1 : p.proxf p.tau (w.1 - p.tau • p.Cadj w.2) = w.1 := by
      have := H.proxf.fixed H.tau hw.1
      rwa [smul_neg, ← sub_eq_add_neg] at this
    have e : (1 + 1 : ℝ) • w.1 - (1 : ℝ) • w.1 = w.1 := by rw [add_smul, one_smul]; abel
    have h2 : p.proxgConj p.sigma (w.2 + p.sigma • p.C w.1) = w.2 := H.proxgc.fixed H.sigma hw.2
    unfold pdhgT
    rw [h1, e, h2]

theorem cadj_bound {p : PDHGParams ℝ X Z} {F : Fn X} {Gc : Fn Z} {Lc theta : ℝ} (H : PDHGConvHyp p F Gc Lc theta)
    (w : Z) : ‖p.Cadj w‖ ≤ Lc * ‖w‖ := by
  have h1 : ‖p.Cadj w‖ ^ 2 = ⟪w, p.C (p.Cadj w)⟫ := by rw [← real_inner_self_eq_norm_sq, H.adj]
  have h2 := real_inner_le_norm w (p.C (p.Cadj w))
  have h3 := H.range.bd (p.Cadj w)
  have h0 : 0 ≤ ‖p.Cadj w‖ := norm_nonneg _
  have hw0 : 0 ≤ ‖w‖ := norm_nonneg _
  by_cases hz : ‖p.Cadj w‖ = 0
  · rw [hz]; have := H.range.L0; positivity
  · have hpos : 0 < ‖p.Cadj w‖ := lt_of_le_of_ne h0 (Ne.symm hz)
    have : ‖p.Cadj w‖ * ‖p.Cadj w‖ ≤ (Lc * ‖w‖) * ‖p.Cadj w‖ := by
      have := mul_le_mul_of_nonneg_left h3 hw0
      nlinarith
    exact le_of_mul_le_mul_right this hpos

theorem cadj_sub {p : PDHGParams ℝ X Z} {F : Fn X} {Gc : Fn Z} {Lc theta : ℝ} (H : PDHGConvHyp p F Gc Lc theta)
    (w w' : Z) : p.Cadj (w - w') = p.Cadj w - p.Cadj w' := by
  have : p.Cadj (w - w') - (p.Cadj w - p.Cadj w') = 0 := by
    rw [← inner_self_eq_zero (𝕜 := ℝ)]
    rw [inner_sub_left, inner_sub_left, H.adj, H.adj, H.adj, inner_sub_left]
    ring
  exact sub_eq_zero.1 this

theorem c_sub {p : PDHGParams ℝ X Z} {F : Fn X} {Gc : Fn Z} {Lc theta : ℝ} (H : PDHGConvHyp p F Gc Lc theta)
    (u v : X) : p.C (u - v) = p.C u - p.C v := by
  have := H.add (u - v) v
  rw [sub_add_cancel] at this
  rw [this]; abel

theorem pdhgT_continuous {p : PDHGParams ℝ X Z} {F : Fn X} {Gc : Fn Z} {Lc theta : ℝ} (H : PDHGConvHyp p F Gc Lc theta) :
    Continuous (pdhgT p) := by
  have hL0 := H.range.L0
  have hC : Continuous p.C := by
    apply LipschitzWith.continuous (K := ⟨Lc, hL0⟩)
    apply LipschitzWith.of_dist_le_mul
    intro u v
    rw [dist_eq_norm, dist_eq_norm, ← c_sub H]
    exact H.range.bd _
  have hCa : Continuous p.Cadj := by
    apply LipschitzWith.continuous (K := ⟨Lc, hL0⟩)
    apply LipschitzWith.of_dist_le_mul
    intro u v
    rw [dist_eq_norm, dist_eq_norm, ← cadj_sub H]
    exact cadj_bound H _
  have hpf : Continuous (p.proxf p.tau) := by
    apply LipschitzWith.continuous (K := 1)
    apply LipschitzWith.of_dist_le_mul
    intro u v
    rw [dist_eq_norm, dist_eq_norm, NNReal.coe_one, one_mul]
    exact H.proxf.nonexpansive H.tau u v
  have hpg : Continuous (p.proxgConj p.sigma) := by
    apply LipschitzWith.continuous (K := 1)
    apply LipschitzWith.of_dist_le_mul
    intro u v
    rw [dist_eq_norm, dist_eq_norm, NNReal.coe_one, one_mul]
    exact H.proxgc.nonexpansive H.sigma u v
  unfold pdhgT
  fun_prop

theorem pdM_upper (C : X → Z) {tau sigma Lc theta : ℝ} (ht : 0 < tau) (hs : 0 < sigma) (hL : 0 ≤ Lc)
    (hth : 0 ≤ theta) (hbd : ∀ a, ‖C a‖ ≤ Lc * ‖a‖) (hts : tau * sigma * Lc ^ 2 ≤ theta ^ 2) (a : X) (b : Z) :
    pdM C tau sigma a b ≤ (1 + theta) * (‖a‖ ^ 2 / tau + ‖b‖ ^ 2 / sigma) := by
  have h := pdM_lower C ht hs hL hth hbd hts a (-b)
  unfold pdM at h ⊢
  rw [inner_neg_right, norm_neg] at h
  linarith

theorem prod_norm_sq_le (a : X) (b : Z) : ‖(a, b)‖ ^ 2 ≤ ‖a‖ ^ 2 + ‖b‖ ^ 2 := by
  rw [Prod.norm_def]
  have ha : 0 ≤ ‖a‖ := norm_nonneg _
  have hb : 0 ≤ ‖b‖ := norm_nonneg _
  rcases le_total ‖a‖ ‖b‖ with h | h
  · rw [max_eq_right h]; nlinarith
  · rw [max_eq_left h]; nlinarith

/-- PDHG, merely convex problem, finite-dimensional variables, `alpha = 1`, linear `C`, `τσ‖C‖² < 1`: if a saddle point
    exists, the iterates converge from EVERY start to a saddle point -/
theorem pdhg_converges_findim {p : PDHGParams ℝ X Z} {F : Fn X} {Gc : Fn Z} {Lc theta : ℝ}
    (H : PDHGConvHyp p F Gc Lc theta) (hsad : ∃ w, IsSaddle p F Gc w) (s : PDHGState X Z) :
    ∃ wb : X × Z, IsSaddle p F Gc wb ∧
      Filter.Tendsto (fun k => (iter (pdhgSpecStep p) k s).x) Filter.atTop (nhds wb.1) ∧
      Filter.Tendsto (fun k => (iter (pdhgSpecStep p) k s).z) Filter.atTop (nhds wb.2) := by
  have ht := H.tau
  have hs := H.sigma
  have R := H.range
  have hth : 0 < 1 - theta := by linarith [R.th1]
  have low := fun (a : X) (b : Z) => pdM_lower p.C ht hs R.L0 R.th0 R.bd R.ts a b
  have up := fun (a : X) (b : Z) => pdM_upper p.C ht hs R.L0 R.th0 R.bd R.ts a b
  have hAB : ∀ (a : X) (b : Z), 0 ≤ ‖a‖ ^ 2 / p.tau + ‖b‖ ^ 2 / p.sigma := fun a b => by positivity
  have hMnn : ∀ (a : X) (b : Z), 0 ≤ pdM p.C p.tau p.sigma a b := fun a b => by
    have := mul_nonneg hth.le (hAB a b); linarith [low a b]
  set D : X × Z → X × Z → ℝ := fun w w' => pdM p.C p.tau p.sigma (w.1 - w'.1) (w.2 - w'.2) with hD
  set c := (1 - theta) * min (1 / p.tau) (1 / p.sigma) with hcdef
  set Cc := (1 + theta) * (1 / p.tau + 1 / p.sigma) with hCc
  have hc : 0 < c := mul_pos hth (lt_min (by positivity) (by positivity))
  have hlow : ∀ a b : X × Z, c * ‖a - b‖ ^ 2 ≤ D a b := by
    intro a b
    have h1 := low (a.1 - b.1) (a.2 - b.2)
    have h2 := prod_norm_sq_le (a.1 - b.1) (a.2 - b.2)
    have e : ‖a - b‖ = ‖((a.1 - b.1, a.2 - b.2) : X × Z)‖ := rfl
    rw [e]
    have hm1 : min (1 / p.tau) (1 / p.sigma) ≤ 1 / p.tau := min_le_left _ _
    have hm2 : min (1 / p.tau) (1 / p.sigma) ≤ 1 / p.sigma := min_le_right _ _
    have hm0 : 0 ≤ min (1 / p.tau) (1 / p.sigma) := le_min (by positivity) (by positivity)
    have hx : min (1 / p.tau) (1 / p.sigma) * ‖a.1 - b.1‖ ^ 2 ≤ ‖a.1 - b.1‖ ^ 2 / p.tau := by
      have := mul_le_mul_of_nonneg_right hm1 (by positivity : (0 : ℝ) ≤ ‖a.1 - b.1‖ ^ 2)
      have e' : 1 / p.tau * ‖a.1 - b.1‖ ^ 2 = ‖a.1 - b.1‖ ^ 2 / p.tau := by ring
      linarith
    have hz : min (1 / p.tau) (1 / p.sigma) * ‖a.2 - b.2‖ ^ 2 ≤ ‖a.2 - b.2‖ ^ 2 / p.sigma := by
      have := mul_le_mul_of_nonneg_right hm2 (by positivity : (0 : ℝ) ≤ ‖a.2 - b.2‖ ^ 2)
      have e' : 1 / p.sigma * ‖a.2 - b.2‖ ^ 2 = ‖a.2 - b.2‖ ^ 2 / p.sigma := by ring
      linarith
    have h3 : min (1 / p.tau) (1 / p.sigma) * ‖((a.1 - b.1, a.2 - b.2) : X × Z)‖ ^ 2
        ≤ ‖a.1 - b.1‖ ^ 2 / p.tau + ‖a.2 - b.2‖ ^ 2 / p.sigma := by
      have := mul_le_mul_of_nonneg_left h2 hm0
      linarith
    have h4 := mul_le_mul_of_nonneg_left h3 hth.le
    simp only [hD, hcdef]
    linarith
  have hup : ∀ a b : X × Z, D a b ≤ Cc * ‖a - b‖ ^ 2 := by
    intro a b
    have h1 := up (a.1 - b.1) (a.2 - b.2)
    have hn1 : ‖a.1 - b.1‖ ≤ ‖a - b‖ := norm_fst_le (a - b)
    have hn2 : ‖a.2 - b.2‖ ≤ ‖a - b‖ := norm_snd_le (a - b)
    have hs1 : ‖a.1 - b.1‖ ^ 2 ≤ ‖a - b‖ ^ 2 := pow_le_pow_left₀ (norm_nonneg _) hn1 2
    have hs2 : ‖a.2 - b.2‖ ^ 2 ≤ ‖a - b‖ ^ 2 := pow_le_pow_left₀ (norm_nonneg _) hn2 2
    have h2 : ‖a.1 - b.1‖ ^ 2 / p.tau + ‖a.2 - b.2‖ ^ 2 / p.sigma ≤ (1 / p.tau + 1 / p.sigma) * ‖a - b‖ ^ 2 := by
      have e1 : ‖a.1 - b.1‖ ^ 2 / p.tau ≤ ‖a - b‖ ^ 2 / p.tau := div_le_div_of_nonneg_right hs1 ht.le
      have e2 : ‖a.2 - b.2‖ ^ 2 / p.sigma ≤ ‖a - b‖ ^ 2 / p.sigma := div_le_div_of_nonneg_right hs2 hs.le
      have : (1 / p.tau + 1 / p.sigma) * ‖a - b‖ ^ 2 = ‖a - b‖ ^ 2 / p.tau + ‖a - b‖ ^ 2 / p.sigma := by ring
      linarith
    have h3 := mul_le_mul_of_nonneg_left h2 (by linarith [R.th0] : (0 : ℝ) ≤ 1 + theta)
    simp only [hD, hCc]
    linarith
  have hiter := pdhgT_iter p H.lin H.alpha1
  have hfix : ∃ ws, pdhgT p ws = ws := by
    obtain ⟨w, hw⟩ := hsad; exact ⟨w, (pdhgT_fixed_iff H w).2 hw⟩
  have hfejer : ∀ ws, pdhgT p ws = ws → ∀ k, D (iter (pdhgT p) (k + 1) (s.x, s.z)) ws ≤ D (iter (pdhgT p) k (s.x, s.z)) ws := by
    intro ws hws k
    have hw := (pdhgT_fixed_iff H ws).1 hws
    have h := (pdhg_fejer_step p F ws.1 ws.2 (H.hyp hw) (iter (pdhgSpecStep p) k s)).2.2
    rw [← iter_succ' (pdhgSpecStep p) k s] at h
    rw [← hiter (k + 1) s, ← hiter k s]
    simp only [hD]
    have := hMnn ((iter (pdhgSpecStep p) k s).x - (iter (pdhgSpecStep p) (k + 1) s).x)
      ((iter (pdhgSpecStep p) k s).z - (iter (pdhgSpecStep p) (k + 1) s).z)
    linarith
  have hreg : Filter.Tendsto (fun k => ‖iter (pdhgT p) k (s.x, s.z) - pdhgT p (iter (pdhgT p) k (s.x, s.z))‖)
      Filter.atTop (nhds 0) := by
    obtain ⟨ws, hws⟩ := hsad
    have hI := pdhg_increments_tendsto p F ws.1 ws.2 (H.hyp hws) R s
    have hb := hI.const_mul (p.tau + p.sigma)
    rw [mul_zero] at hb
    refine tendsto_zero_of_sq_le (fun k => norm_nonneg _) (fun k => ?_) hb
    rw [← iter_succ' (pdhgT p) k (s.x, s.z), ← hiter (k + 1) s, ← hiter k s]
    have h2 := prod_norm_sq_le ((iter (pdhgSpecStep p) k s).x - (iter (pdhgSpecStep p) (k + 1) s).x)
      ((iter (pdhgSpecStep p) k s).z - (iter (pdhgSpecStep p) (k + 1) s).z)
    have e : ((iter (pdhgSpecStep p) k s).x, (iter (pdhgSpecStep p) k s).z)
        - ((iter (pdhgSpecStep p) (k + 1) s).x, (iter (pdhgSpecStep p) (k + 1) s).z)
        = ((iter (pdhgSpecStep p) k s).x - (iter (pdhgSpecStep p) (k + 1) s).x,
           (iter (pdhgSpecStep p) k s).z - (iter (pdhgSpecStep p) (k + 1) s).z) := rfl
    rw [e]
    set a := (iter (pdhgSpecStep p) k s).x - (iter (pdhgSpecStep p) (k + 1) s).x
    set b := (iter (pdhgSpecStep p) k s).z - (iter (pdhgSpecStep p) (k + 1) s).z
    have e1 : ‖a‖ ^ 2 = p.tau * (‖a‖ ^ 2 / p.tau) := by field_simp
    have e2 : ‖b‖ ^ 2 = p.sigma * (‖b‖ ^ 2 / p.sigma) := by field_simp
    have hA : 0 ≤ ‖a‖ ^ 2 / p.tau := by positivity
    have hB : 0 ≤ ‖b‖ ^ 2 / p.sigma := by positivity
    nlinarith
  obtain ⟨wb, hwb, hlim⟩ := fejer_converges (pdhgT p) (pdhgT_continuous H) D c Cc hc hlow hup (s.x, s.z) hfix hfejer hreg
  refine ⟨wb, (pdhgT_fixed_iff H wb).1 hwb, ?_, ?_⟩
  · have := (continuous_fst.tendsto wb).comp hlim
    refine this.congr (fun k => ?_)
    simp only [Function.comp]
    rw [← hiter k s]
  · have := (continuous_snd.tendsto wb).comp hlim
    refine this.congr (fun k => ?_)
    simp only [Function.comp]
    rw [← hiter k s]

end PDHG

end Scico.Steps
