/-
  Helper lemmas for `Scico.Model.LinOps`, part 17 (round 4): optical propagators `F⁻¹ D F` — identity for `D = 1`,
  semigroup law for products of transfer functions (unpadded case).
-/
import Scico.Proofs.LinOps14

namespace Scico.LinOps
open Finset
set_option linter.unusedSectionVars false

section Propagator
variable {K : Type} [Field K]

theorem rootsOpt_inv : ∀ (dims : List Nat) (ws : List (Option K)), RootsOpt dims ws → RootsOpt dims (ws.map (Option.map (·⁻¹)))
  | [], [], _ => trivial
  | [], _ :: _, h => by simp [RootsOpt] at h
  | _ :: _, [], h => by simp [RootsOpt] at h
  | n :: ds, some w :: ws, h => ⟨h.1.inv, h.2.1, rootsOpt_inv ds ws h.2.2⟩
  | n :: ds, none :: ws, h => ⟨h.1, rootsOpt_inv ds ws h.2⟩

theorem map_inv_inv (ws : List (Option K)) : (ws.map (Option.map (·⁻¹))).map (Option.map (·⁻¹)) = ws := by
  induction ws with
  | nil => rfl
  | cons a ws ih => cases a <;> simp [ih]

theorem dftAxesSize_map {β γ : Type} (g : β → γ) : ∀ (dims : List Nat) (ws : List (Option β)),
    dftAxesSize dims (ws.map (Option.map g)) = dftAxesSize dims ws
  | [], _ => by simp [dftAxesSize]
  | _ :: _, [] => by simp [dftAxesSize]
  | n :: ds, some w :: ws => by simp [dftAxesSize, dftAxesSize_map g ds ws]
  | n :: ds, none :: ws => by simp [dftAxesSize, dftAxesSize_map g ds ws]

theorem padNd_self (ns : List Nat) (hpos : ∀ n ∈ ns, 0 < n) (y : V K) (q : Nat) (hq : q < prodL ns) :
    padNd ns ns y q = y q := by
  have := padNd_embed ns ns y q (fitsPad_self ns hpos) hq
  rwa [embedIdx_self] at this

/-- `F (F⁻¹ z) = z` (unpadded): the forward transform undoes the coded inverse -/
theorem dftFwd_inv (ns : List Nat) (ws : List (Option K)) (s s' : K) (z : V K) (f : Nat)
    (hr : RootsOpt ns ws) (hs : s * s' * (dftAxesSize ns ws : K) = 1) (hf : f < prodL ns) :
    dftFwdPad ns ns ws s (dftInvCodedNd ns ns (ws.map (Option.map (·⁻¹))) s' z) f = z f := by
  have hpos := rootsOpt_pos ns ws hr
  have h := dftInvCoded_unpadded ns (ws.map (Option.map (·⁻¹))) s' s z f (rootsOpt_inv ns ws hr)
    (by rw [dftAxesSize_map]; rw [← hs]; ring) hf
  rw [map_inv_inv] at h
  -- the coded inverse with the roots `ws` and the forward transform with the roots `ws` are the same expression
  exact h

/-- `D = 1` (propagation distance 0): the propagator is the identity -/
theorem prop_one (ns : List Nat) (ws : List (Option K)) (s s' : K) (D x : V K) (p : Nat)
    (hr : RootsOpt ns ws) (hs : s * s' * (dftAxesSize ns ws : K) = 1) (hD : ∀ f, f < prodL ns → D f = 1) (hp : p < prodL ns) :
    propEval ns ns ws (ws.map (Option.map (·⁻¹))) s s' D x p = x p := by
  have hpos := rootsOpt_pos ns ws hr
  unfold propEval
  rw [← dftInvCoded_unpadded ns ws s s' x p hr hs hp]
  unfold dftInvCodedNd
  congr 1
  apply dftAxes_congr ns _ _ _ p _ hp
  intro q hq
  rw [padNd_self ns hpos _ q hq, padNd_self ns hpos _ q hq, hD q hq, one_mul]

/-- semigroup law: propagating with `D₂` and then with `D₁` is propagating with the product `D₁ · D₂` -/
theorem prop_mul (ns : List Nat) (ws : List (Option K)) (s s' : K) (D1 D2 x : V K) (p : Nat)
    (hr : RootsOpt ns ws) (hs : s * s' * (dftAxesSize ns ws : K) = 1) (hp : p < prodL ns) :
    propEval ns ns ws (ws.map (Option.map (·⁻¹))) s s' D1 (propEval ns ns ws (ws.map (Option.map (·⁻¹))) s s' D2 x) p
      = propEval ns ns ws (ws.map (Option.map (·⁻¹))) s s' (fun f => D1 f * D2 f) x p := by
  have hpos := rootsOpt_pos ns ws hr
  unfold propEval
  unfold dftInvCodedNd
  congr 1
  apply dftAxes_congr ns _ _ _ p _ hp
  intro q hq
  rw [padNd_self ns hpos _ q hq, padNd_self ns hpos _ q hq]
  have := dftFwd_inv ns ws s s' (fun f => D2 f * dftFwdPad ns ns ws s x f) q hr hs hq
  unfold dftInvCodedNd at this
  rw [this]; ring

/-- padded propagator with the DOCUMENTED inverse: `D ≡ 1` on the padded spectrum gives the identity -/
theorem propDoc_one (ns ms : List Nat) (ws : List (Option K)) (s s' : K) (D x : V K) (p : Nat)
    (hfit : FitsPad ns ms) (hr : RootsOpt ms ws) (hs : s * s' * (dftAxesSize ms ws : K) = 1)
    (hD : ∀ f, f < prodL ms → D f = 1) (hp : p < prodL ns) :
    propEvalDoc ns ms ws (ws.map (Option.map (·⁻¹))) s s' D x p = x p := by
  unfold propEvalDoc
  rw [← dftPad_inv_documented ns ms ws s s' x p hfit hr hs hp]
  unfold dftInvDocNd
  congr 1
  apply dftAxes_congr ms _ _ _ _ _ (embedIdx_lt ns ms p hfit hp)
  intro q hq
  rw [hD q hq, one_mul]

end Propagator

section Euler
variable {K : Type} [Field K]

/-- the centre of the volume is projected to the centre of the detector, for every rotation and spacing -/
theorem euler_centre (R : M K) (vs ds halfIn halfOut : V K) (i : Nat) :
    eulerProject R vs ds halfIn halfOut halfIn i = halfOut i := by
  unfold eulerProject eulerT; ring

/-- a displacement `d` of the point moves its projection by `M d`: with unit spacings and `R` the first two rows of the
    identity, voxel `(a, b, c)` lands at `(a, b) − input_shape[:2]/2 + output_shape/2` -/
theorem euler_identity (halfIn halfOut x : V K) (i : Nat) (hi : i < 2) :
    eulerProject (fun a b => if a = b then (1 : K) else 0) (fun _ => 1) (fun _ => 1) halfIn halfOut x i
      = x i - halfIn i + halfOut i := by
  unfold eulerProject eulerT eulerM
  interval_cases i <;> simp [sumTo] <;> ring

end Euler

end Scico.LinOps
