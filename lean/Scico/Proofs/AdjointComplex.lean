/-
  Adjoint engine over `ℂ`: the real inner product `Re⟪·,·⟫`, operators from a real into a complex space,
  branch 2 of `scico.linear_adjoint`, and "Re-identity + complex linearity ⇒ complex identity".
-/
import Mathlib.Data.Complex.Basic
import Mathlib.Data.Complex.BigOperators
import Scico.Proofs.AdjointLinAdj

set_option linter.unusedSectionVars false

namespace Scico.Adjoint
open Finset Complex

theorem reTest_complex (z : ℂ) : reTest z = ((2 * z.re : ℝ) : ℂ) := by
  apply Complex.ext <;> simp [reTest] <;> ring

/-- over `ℂ`, `IsAdjRe` is the identity of real parts -/
theorem isAdjRe_iff (A : Op ℂ) :
    IsAdjRe A ↔ ∀ x y, (ip A.nout (A.eval x) y).re = (ip A.nin x (A.adj y)).re := by
  unfold IsAdjRe IsAdjW
  constructor
  · intro h x y
    have := h x y
    rw [reTest_complex, reTest_complex] at this
    have := congrArg Complex.re this
    simp only [Complex.ofReal_re] at this
    exact mul_left_cancel₀ (two_ne_zero) this
  · intro h x y
    rw [reTest_complex, reTest_complex, h x y]

/-- real part of a vector, as a complex vector -/
def vre (x : V ℂ) : V ℂ := fun i => ((x i).re : ℂ)

theorem ip_re_right (n : Nat) (u w : V ℂ) :
    (ip n (vre u) (vre w)).re = ∑ i ∈ range n, (u i).re * (w i).re := by
  simp [ip_eq, vre, Complex.re_sum]

/-- An operator from a REAL space into a complex space, as scico holds it: `eval x = M x` on real `x`
    (extended to complex arguments through `Re`), `adj y = Re(Mᴴ y)`. -/
def realToComplex (m n : Nat) (M : Nat → Nat → ℂ) : Op ℂ where
  nin := n
  nout := m
  eval := fun x => mulVec n M (vre x)
  adj := fun y => vre (mulVec m (fun j i => star (M i j)) y)

/-- it satisfies the adjoint identity in the real inner product, for all vectors -/
theorem realToComplex_isAdjRe (m n : Nat) (M : Nat → Nat → ℂ) : IsAdjRe (realToComplex m n M) := by
  rw [isAdjRe_iff]
  intro x y
  -- both sides equal  Re ⟪M (Re x), y⟫ = Re ⟪Re x, Mᴴ y⟫
  have h := mat_isAdj m n M (vre x) y
  simp only [Op.mat] at h
  have e1 : ip m ((realToComplex m n M).eval x) y = ip m (fun i => sumTo n fun j => M i j * vre x j) y := rfl
  rw [show (realToComplex m n M).nout = m from rfl, show (realToComplex m n M).nin = n from rfl, e1, h]
  simp only [realToComplex, ip_eq, Complex.re_sum, vre, mulVec, sumTo_eq, conj_eq_star]
  apply Finset.sum_congr rfl
  intro j _
  simp [Complex.mul_re]

/-- contract of `jax.linear_transpose` for a REAL primal and a complex matrix: the real part of `Mᵀ ct` -/
def JaxTransposeRC (jt : Bool → Nat → Nat → (V ℂ → V ℂ) → V ℂ → V ℂ) : Prop :=
  ∀ (m n : Nat) (M : Nat → Nat → ℂ) (y : V ℂ), ∀ j < n,
    jt false m n (mulVec n M) y j = (((∑ i ∈ range m, M i j * y i).re : ℝ) : ℂ)

/-- a function meeting the contract (non-vacuity): probe with basis vectors, keep the real part for a real primal -/
def probeTransposeRC : Bool → Nat → Nat → (V ℂ → V ℂ) → V ℂ → V ℂ :=
  fun pc m _ g y j =>
    if pc then ∑ i ∈ range m, g (basis j) i * y i else (((∑ i ∈ range m, g (basis j) i * y i).re : ℝ) : ℂ)

theorem probeTransposeRC_ok : JaxTransposeRC probeTransposeRC := by
  intro m n M y j hj
  simp only [probeTransposeRC, Bool.false_eq_true, if_false]
  congr 2
  apply Finset.sum_congr rfl
  intro i _
  rw [mulVec_basis n M j hj]

/-- branch 2 of `linear_adjoint` (real primal, complex output): returns `y ↦ Re(Mᴴ y)` -/
theorem linearAdjoint_realToComplex {jt} (hjt : JaxTransposeRC jt) (m n : Nat) (M : Nat → Nat → ℂ)
    (y : V ℂ) (j : Nat) (hj : j < n) :
    linearAdjoint jt m n false true (mulVec n M) y j = (realToComplex m n M).adj y j := by
  simp only [linearAdjoint, Bool.false_eq_true, if_false, if_true]
  rw [conjFun_mulVec, hjt m n _ y j hj]
  simp [realToComplex, vre, mulVec, sumTo_eq]

/-- a map commutes with multiplication by `i` -/
def CommutesI (f : V ℂ → V ℂ) : Prop := ∀ x, f (vsmul Complex.I x) = vsmul Complex.I (f x)

/-- for complex-linear `eval`, `adj` the identity of real parts already gives the complex identity -/
theorem re_to_complex {A : Op ℂ} (hre : IsAdjRe A) (hE : CommutesI A.eval) : IsAdj A := by
  rw [isAdjRe_iff] at hre
  intro x y
  apply Complex.ext
  · exact hre x y
  · -- Im ⟪u,w⟫ = Re ⟪-i u, w⟫
    have h := hre (vsmul (-Complex.I) x) y
    have e : A.eval (vsmul (-Complex.I) x) = vsmul (-Complex.I) (A.eval x) := by
      have h1 := hE (vsmul (-Complex.I) x)
      have h2 : vsmul Complex.I (vsmul (-Complex.I) x) = x := by
        funext i; simp [vsmul, ← mul_assoc]
      rw [h2] at h1
      funext i
      have := congrFun h1 i
      simp only [vsmul] at this ⊢
      rw [this, ← mul_assoc]
      simp
    rw [e, ip_smul_left, ip_smul_left] at h
    simpa [Complex.mul_re] using h

/-! ### basis lifting in the real inner product -/

/-- real-linear (over `ℝ ⊂ ℂ`), reading only the first `n` coordinates -/
structure IsRLinear (n : Nat) (f : V ℂ → V ℂ) : Prop where
  add : ∀ x y, f (vadd x y) = vadd (f x) (f y)
  smul : ∀ (r : ℝ) x, f (vsmul (r : ℂ) x) = vsmul (r : ℂ) (f x)
  ext : ∀ x x', (∀ j < n, x j = x' j) → f x = f x'

/-- `i·e_j` -/
def ibasis (j : Nat) : V ℂ := vsmul Complex.I (basis j)

theorem IsRLinear.zero {n : Nat} {f : V ℂ → V ℂ} (h : IsRLinear n f) : f vzero = vzero := by
  have := h.smul 0 vzero
  have e : vsmul ((0 : ℝ) : ℂ) vzero = vzero := by funext i; simp [vsmul, vzero]
  rw [e] at this
  rw [this]
  funext i
  simp [vsmul, vzero]

theorem IsRLinear.trunc_expand {n : Nat} {f : V ℂ → V ℂ} (h : IsRLinear n f) (x : V ℂ) (i : Nat) :
    ∀ k, f (trunc k x) i
      = ∑ j ∈ range k, (((x j).re : ℂ) * f (basis j) i + ((x j).im : ℂ) * f (ibasis j) i) := by
  intro k
  induction k with
  | zero =>
    have : trunc 0 x = vzero := by funext j; simp [trunc, vzero]
    rw [this, h.zero]
    simp [vzero]
  | succ k ih =>
    have e : trunc (k + 1) x
        = vadd (trunc k x) (vadd (vsmul ((x k).re : ℂ) (basis k)) (vsmul ((x k).im : ℂ) (ibasis k))) := by
      funext j
      simp only [trunc, vadd, vsmul, basis, ibasis]
      by_cases h1 : j < k
      · have : j ≠ k := Nat.ne_of_lt h1
        simp [h1, this, Nat.lt_succ_of_lt h1]
      · by_cases h2 : j = k
        · subst h2
          simp
        · have : ¬ j < k + 1 := by omega
          simp [h1, h2, this]
    rw [e, h.add, h.add, h.smul, h.smul, Finset.sum_range_succ, ← ih]
    simp [vadd, vsmul]

theorem IsRLinear.expand {n : Nat} {f : V ℂ → V ℂ} (h : IsRLinear n f) (x : V ℂ) (i : Nat) :
    f x i = ∑ j ∈ range n, (((x j).re : ℂ) * f (basis j) i + ((x j).im : ℂ) * f (ibasis j) i) := by
  rw [← h.trunc_expand x i n]
  have : f x = f (trunc n x) := by
    apply h.ext
    intro j hj
    simp [trunc, hj]
  rw [this]

theorem ip_ibasis_right (n i : Nat) (hi : i < n) (u : V ℂ) : ip n u (ibasis i) = -Complex.I * u i := by
  simp only [ip_eq, ibasis, vsmul, basis]
  have e : ∀ t, u t * star (Complex.I * (if t = i then (1 : ℂ) else 0)) = if t = i then -Complex.I * u t else 0 := by
    intro t; by_cases h : t = i <;> simp [h]; ring
  simp only [e]
  rw [Finset.sum_ite_eq' (range n) i (fun t => -Complex.I * u t)]
  simp [hi]

theorem ip_ibasis_left (n j : Nat) (hj : j < n) (w : V ℂ) : ip n (ibasis j) w = Complex.I * star (w j) := by
  simp only [ip_eq, ibasis, vsmul, basis]
  have e : ∀ t, Complex.I * (if t = j then (1 : ℂ) else 0) * star (w t) = if t = j then Complex.I * star (w t) else 0 := by
    intro t; by_cases h : t = j <;> simp [h]
  simp only [e]
  rw [Finset.sum_ite_eq' (range n) j (fun t => Complex.I * star (w t))]
  simp [hj]

/-- lifting lemma in the real inner product: real-linear `eval`, `adj` and the identity of real parts on all pairs
    from the real basis `{e_j, i·e_j} × {e_i, i·e_i}` ⇒ the identity of real parts for all vectors -/
theorem basis_lift_re {A : Op ℂ} (hE : IsRLinear A.nin A.eval) (hB : IsRLinear A.nout A.adj)
    (h11 : ∀ j < A.nin, ∀ i < A.nout, (ip A.nout (A.eval (basis j)) (basis i)).re = (ip A.nin (basis j) (A.adj (basis i))).re)
    (h1i : ∀ j < A.nin, ∀ i < A.nout, (ip A.nout (A.eval (basis j)) (ibasis i)).re = (ip A.nin (basis j) (A.adj (ibasis i))).re)
    (hi1 : ∀ j < A.nin, ∀ i < A.nout, (ip A.nout (A.eval (ibasis j)) (basis i)).re = (ip A.nin (ibasis j) (A.adj (basis i))).re)
    (hii : ∀ j < A.nin, ∀ i < A.nout, (ip A.nout (A.eval (ibasis j)) (ibasis i)).re = (ip A.nin (ibasis j) (A.adj (ibasis i))).re) :
    IsAdjRe A := by
  rw [isAdjRe_iff]
  intro x y
  -- the four families of hypotheses in coordinates
  have k11 : ∀ j < A.nin, ∀ i < A.nout, (A.eval (basis j) i).re = (A.adj (basis i) j).re := by
    intro j hj i hi
    have := h11 j hj i hi
    rw [ip_basis_right _ _ hi, ip_basis_left _ _ hj] at this
    simpa using this
  have k1i : ∀ j < A.nin, ∀ i < A.nout, (A.eval (basis j) i).im = (A.adj (ibasis i) j).re := by
    intro j hj i hi
    have := h1i j hj i hi
    rw [ip_ibasis_right _ _ hi, ip_basis_left _ _ hj] at this
    simpa using this
  have ki1 : ∀ j < A.nin, ∀ i < A.nout, (A.eval (ibasis j) i).re = (A.adj (basis i) j).im := by
    intro j hj i hi
    have := hi1 j hj i hi
    rw [ip_basis_right _ _ hi, ip_ibasis_left _ _ hj] at this
    simpa using this
  have kii : ∀ j < A.nin, ∀ i < A.nout, (A.eval (ibasis j) i).im = (A.adj (ibasis i) j).im := by
    intro j hj i hi
    have := hii j hj i hi
    rw [ip_ibasis_right _ _ hi, ip_ibasis_left _ _ hj] at this
    simpa using this
  simp only [ip_eq, Complex.re_sum]
  have l : ∀ i ∈ range A.nout, (A.eval x i * star (y i)).re
      = ∑ j ∈ range A.nin, ((x j).re * (y i).re * (A.eval (basis j) i).re + (x j).re * (y i).im * (A.eval (basis j) i).im
          + (x j).im * (y i).re * (A.eval (ibasis j) i).re + (x j).im * (y i).im * (A.eval (ibasis j) i).im) := by
    intro i _
    rw [hE.expand x i, Finset.sum_mul, Complex.re_sum]
    apply Finset.sum_congr rfl
    intro j _
    simp [Complex.mul_re, Complex.add_re, Complex.mul_im]
    ring
  have r : ∀ j ∈ range A.nin, (x j * star (A.adj y j)).re
      = ∑ i ∈ range A.nout, ((x j).re * (y i).re * (A.eval (basis j) i).re + (x j).re * (y i).im * (A.eval (basis j) i).im
          + (x j).im * (y i).re * (A.eval (ibasis j) i).re + (x j).im * (y i).im * (A.eval (ibasis j) i).im) := by
    intro j hj
    rw [hB.expand y j, star_sum, Finset.mul_sum, Complex.re_sum]
    apply Finset.sum_congr rfl
    intro i hi
    rw [k11 j (Finset.mem_range.mp hj) i (Finset.mem_range.mp hi), k1i j (Finset.mem_range.mp hj) i (Finset.mem_range.mp hi),
      ki1 j (Finset.mem_range.mp hj) i (Finset.mem_range.mp hi), kii j (Finset.mem_range.mp hj) i (Finset.mem_range.mp hi)]
    simp [Complex.mul_re, Complex.add_re, Complex.mul_im, Complex.add_im]
    ring
  rw [Finset.sum_congr rfl l, Finset.sum_congr rfl r, Finset.sum_comm]

/-! ### complex scalar times an operator with a real output space (`_to_output_space` keeps the real part) -/

/-- projection on the real subfield, as a complex number (`y.real` of `_to_output_space`) -/
def creal (z : ℂ) : ℂ := ((z.re : ℝ) : ℂ)

/-- `c * A` for complex `c` and `A` with real-valued output: `adj y = A.adj(Re(conj(c)·y))` is the adjoint in
    `Re⟪·,·⟫` -/
theorem smulRe_isAdjRe {A : Op ℂ} (hA : IsAdjRe A) (hreal : ∀ x, ∀ i < A.nout, (A.eval x i).im = 0) (c : ℂ) :
    IsAdjRe (Op.smulRe creal c A) := by
  rw [isAdjRe_iff] at hA ⊢
  intro x y
  have h := hA x (fun i => creal (star c * y i))
  show (ip A.nout (vsmul c (A.eval x)) y).re = (ip A.nin x (A.adj fun i => creal (conj c * y i))).re
  rw [conj_eq_star] at *
  rw [← h]
  simp only [ip_eq, Complex.re_sum]
  apply Finset.sum_congr rfl
  intro i hi
  have hi0 := hreal x i (Finset.mem_range.mp hi)
  simp [vsmul, creal, Complex.mul_re, Complex.mul_im, hi0]
  ring

end Scico.Adjoint
