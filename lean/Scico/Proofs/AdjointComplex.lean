/-
  Adjoint engine over `ℂ`: the real inner product `Re⟪·,·⟫`, operators from a real into a complex space,
  branch 2 of `scico.linear_adjoint`, and "Re-identity + complex linearity ⇒ complex identity".
-/
import Mathlib.Data.Complex.Basic
import Mathlib.Data.Complex.BigOperators
import Scico.Proofs.AdjointLinAdj

set_option linter.unusedSectionVars false

namespace Scico.Adjoint
open Finset Complex

theorem reTest_complex (z : ℂ) : reTest z = ((2 * z.re : ℝ) : ℂ) := by
  apply Complex.ext <;> simp [reTest] <;> ring

/-- over `ℂ`, `IsAdjRe` is the identity of real parts -/
theorem isAdjRe_iff (A : Op ℂ) :
    IsAdjRe A ↔ ∀ x y, (ip A.nout (A.eval x) y).re = (ip A.nin x (A.adj y)).re := by
  unfold IsAdjRe IsAdjW
  constructor
  · intro h x y
    have := h x y
    rw [reTest_complex, reTest_complex] at this
    have := congrArg Complex.re this
    simp only [Complex.ofReal_re] at this
    exact mul_left_cancel₀ (two_ne_zero) this
  · intro h x y
    rw [reTest_complex, reTest_complex, h x y]

/-- real part of a vector, as a complex vector -/
def vre (x : V ℂ) : V ℂ := fun i => ((x i).re : ℂ)

theorem ip_re_right (n : Nat) (u w : V ℂ) :
    (ip n (vre u) (vre w)).re = ∑ i ∈ range n, (u i).re * (w i).re := by
  simp [ip_eq, vre, Complex.re_sum]

/-- An operator from a REAL space into a complex space, as scico holds it: `eval x = M x` on real `x`
    (extended to complex arguments through `Re`), `adj y = Re(Mᴴ y)`. -/
def realToComplex (m n : Nat) (M : Nat → Nat → ℂ) : Op ℂ where
  nin := n
  nout := m
  eval := fun x => mulVec n M (vre x)
  adj := fun y => vre (mulVec m (fun j i => star (M i j)) y)

/-- it satisfies the adjoint identity in the real inner product, for all vectors -/
theorem realToComplex_isAdjRe (m n : Nat) (M : Nat → Nat → ℂ) : IsAdjRe (realToComplex m n M) := by
  rw [isAdjRe_iff]
  intro x y
  -- both sides equal  Re ⟪M (Re x), y⟫ = Re ⟪Re x, Mᴴ y⟫
  have h := mat_isAdj m n M (vre x) y
  simp only [Op.mat] at h
  have e1 : ip m ((realToComplex m n M).eval x) y = ip m (fun i => sumTo n fun j => M i j * vre x j) y := rfl
  rw [show (realToComplex m n M).nout = m from rfl, show (realToComplex m n M).nin = n from rfl, e1, h]
  simp only [realToComplex, ip_eq, Complex.re_sum, vre, mulVec, sumTo_eq, conj_eq_star]
  apply Finset.sum_congr rfl
  intro j _
  simp [Complex.mul_re]

/-- contract of `jax.linear_transpose` for a REAL primal and a complex matrix: the real part of `Mᵀ ct` -/
def JaxTransposeRC (jt : Bool → Nat → Nat → (V ℂ → V ℂ) → V ℂ → V ℂ) : Prop :=
  ∀ (m n : Nat) (M : Nat → Nat → ℂ) (y : V ℂ), ∀ j < n,
    jt false m n (mulVec n M) y j = (((∑ i ∈ range m, M i j * y i).re : ℝ) : ℂ)

/-- a function meeting the contract (non-vacuity): probe with basis vectors, keep the real part for a real primal -/
def probeTransposeRC : Bool → Nat → Nat → (V ℂ → V ℂ) → V ℂ → V ℂ :=
  fun pc m _ g y j =>
    if pc then ∑ i ∈ range m, g (basis j) i * y i else (((∑ i ∈ range m, g (basis j) i * y i).re : ℝ) : ℂ)

theorem probeTransposeRC_ok : JaxTransposeRC probeTransposeRC := by
  intro m n M y j hj
  simp only [probeTransposeRC, Bool.false_eq_true, if_false]
  congr 2
  apply Finset.sum_congr rfl
  intro i _
  rw [mulVec_basis n M j hj]

/-- branch 2 of `linear_adjoint` (real primal, complex output): returns `y ↦ Re(Mᴴ y)` -/
theorem linearAdjoint_realToComplex {jt} (hjt : JaxTransposeRC jt) (m n : Nat) (M : Nat → Nat → ℂ)
    (y : V ℂ) (j : Nat) (hj : j < n) :
    linearAdjoint jt m n false true (mulVec n M) y j = (realToComplex m n M).adj y j := by
  simp only [linearAdjoint, Bool.false_eq_true, if_false, if_true]
  rw [conjFun_mulVec, hjt m n _ y j hj]
  simp [realToComplex, vre, mulVec, sumTo_eq]

/-- a map commutes with multiplication by `i` -/
def CommutesI (f : V ℂ → V ℂ) : Prop := ∀ x, f (vsmul Complex.I x) = vsmul Complex.I (f x)

/-- for complex-linear `eval`, `adj` the identity of real parts already gives the complex identity -/
theorem re_to_complex {A : Op ℂ} (hre : IsAdjRe A) (hE : CommutesI A.eval) : IsAdj A := by
  rw [isAdjRe_iff] at hre
  intro x y
  apply Complex.ext
  · exact hre x y
  · -- Im ⟪u,w⟫ = Re ⟪-i u, w⟫
    have h := hre (vsmul (-Complex.I) x) y
    have e : A.eval (vsmul (-Complex.I) x) = vsmul (-Complex.I) (A.eval x) := by
      have h1 := hE (vsmul (-Complex.I) x)
      have h2 : vsmul Complex.I (vsmul (-Complex.I) x) = x := by
        funext i; simp [vsmul, ← mul_assoc]
      rw [h2] at h1
      funext i
      have := congrFun h1 i
      simp only [vsmul] at this ⊢
      rw [this, ← mul_assoc]
      simp
    rw [e, ip_smul_left, ip_smul_left] at h
    simpa [Complex.mul_re] using h

end Scico.Adjoint
