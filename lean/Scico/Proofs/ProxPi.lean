/-
  Separable sums on product spaces (`PiLp 2`): block arrays, coordinate-wise functionals
  (fibre `ℝ`), complex coordinate-wise functionals (fibre `ℂ` with `Re⟨·,·⟩`), groups.
  `EuclideanSpace ℝ (Fin n)` is `PiLp 2 (fun _ => ℝ)`.
-/
import Scico.Proofs.ProxGeneric
import Mathlib.Analysis.InnerProductSpace.PiL2

set_option linter.unusedSectionVars false

namespace Scico.ProxSpec

open WithLp

variable {ι : Type*} [Fintype ι] {F : ι → Type*} [∀ i, NormedAddCommGroup (F i)]
  [∀ i, InnerProductSpace ℝ (F i)]

/-- **separable sum, convex case**: component certificates give the certificate of the sum on the
    product space (block-wise prox of `SeparableFunctional`, coordinate-wise prox of `L1Norm`, …). -/
theorem cert_pi {D : ∀ i, Set (F i)} {φ : ∀ i, F i → ℝ} {lam : ℝ} {v p : PiLp 2 F}
    (h : ∀ i, Cert (D i) (φ i) lam (v i) (p i)) :
    Cert {x : PiLp 2 F | ∀ i, x i ∈ D i} (fun x => ∑ i, φ i (x i)) lam v p := by
  refine ⟨fun i => (h i).1, fun z hz => ?_⟩
  rw [PiLp.inner_apply, ← Finset.sum_add_distrib]
  refine Finset.sum_le_sum fun i _ => ?_
  have := (h i).2 (z i) (hz i)
  simpa [PiLp.sub_apply, PiLp.smul_apply] using this

/-- **separable sum, general case**: component-wise global minimisers minimise the sum. -/
theorem min_pi {D : ∀ i, Set (F i)} {φ : ∀ i, F i → ℝ} {lam : ℝ} {v p : PiLp 2 F}
    (h : ∀ i, IsGMin (D i) (φ i) lam (v i) (p i)) :
    IsGMin {x : PiLp 2 F | ∀ i, x i ∈ D i} (fun x => ∑ i, φ i (x i)) lam v p := by
  refine ⟨fun i => (h i).1, fun x hx => ?_⟩
  rw [PiLp.norm_sq_eq_of_L2, PiLp.norm_sq_eq_of_L2, Finset.mul_sum, Finset.mul_sum, Finset.mul_sum,
    Finset.mul_sum, ← Finset.sum_add_distrib, ← Finset.sum_add_distrib]
  refine Finset.sum_le_sum fun i _ => ?_
  have := (h i).2 (x i) (hx i)
  simpa [PiLp.sub_apply] using this

/-- converse of `min_pi` at one coordinate: if the assembled point is a global minimiser then so is
    each component (used to show that a wrong coordinate makes the whole vector sub-optimal). -/
theorem min_pi_coord [DecidableEq ι] {D : ∀ i, Set (F i)} {φ : ∀ i, F i → ℝ} {lam : ℝ} {v p : PiLp 2 F}
    (h : IsGMin {x : PiLp 2 F | ∀ i, x i ∈ D i} (fun x => ∑ i, φ i (x i)) lam v p) (i : ι) :
    IsGMin (D i) (φ i) lam (v i) (p i) := by
  refine ⟨h.1 i, fun a ha => ?_⟩
  -- competitor: p with coordinate i replaced by a
  set x : PiLp 2 F := toLp 2 (Function.update (ofLp p) i a) with hx
  have hxi : x i = a := by simp [hx]
  have hxj : ∀ j, j ≠ i → x j = p j := fun j hj => by simp [hx, Function.update_of_ne hj]
  have hmem : x ∈ {x : PiLp 2 F | ∀ i, x i ∈ D i} := fun j => by
    by_cases hj : j = i
    · subst hj; rw [hxi]; exact ha
    · rw [hxj j hj]; exact h.1 j
  have := h.2 x hmem
  rw [PiLp.norm_sq_eq_of_L2, PiLp.norm_sq_eq_of_L2] at this
  have s1 : ∑ j, φ j (x j) = ∑ j, φ j (p j) - φ i (p i) + φ i a := by
    rw [← Finset.add_sum_erase _ _ (Finset.mem_univ i), ← Finset.add_sum_erase _ (fun j => φ j (p j)) (Finset.mem_univ i), hxi]
    have : ∑ j ∈ Finset.univ.erase i, φ j (x j) = ∑ j ∈ Finset.univ.erase i, φ j (p j) :=
      Finset.sum_congr rfl fun j hj => by rw [hxj j (Finset.ne_of_mem_erase hj)]
    rw [this]; ring
  have s2 : ∑ j, ‖(x - v) j‖ ^ 2 = ∑ j, ‖(p - v) j‖ ^ 2 - ‖p i - v i‖ ^ 2 + ‖a - v i‖ ^ 2 := by
    rw [← Finset.add_sum_erase _ _ (Finset.mem_univ i),
      ← Finset.add_sum_erase _ (fun j => ‖(p - v) j‖ ^ 2) (Finset.mem_univ i)]
    have : ∑ j ∈ Finset.univ.erase i, ‖(x - v) j‖ ^ 2 = ∑ j ∈ Finset.univ.erase i, ‖(p - v) j‖ ^ 2 :=
      Finset.sum_congr rfl fun j hj => by
        rw [PiLp.sub_apply, PiLp.sub_apply, hxj j (Finset.ne_of_mem_erase hj)]
    rw [this, PiLp.sub_apply, PiLp.sub_apply, hxi]; ring
  beta_reduce at this
  rw [s1, s2] at this
  linarith

end Scico.ProxSpec
