/-
  Helper lemmas for `Scico.Model.LinOps`, part 6 (round 2): N-d circular convolution and the N-d
  convolution theorem (the DFT-domain evaluation of `CircularConvolve._eval` for any `ndims`).
-/
import Scico.Proofs.LinOps5

namespace Scico.LinOps
open Finset


section Nd
variable {K : Type} [Field K]

/-- `ws[a]` is a primitive `dims[a]`-th root of unity, every axis is non-empty -/
def Roots : List Nat → List K → Prop
  | [], [] => True
  | n :: ds, w :: ws => IsPrimitiveRoot w n ∧ 0 < n ∧ Roots ds ws
  | _, _ => False

/-- the filter shape `ks` fits into `dims` (so `fftn(h, s=dims)` zero-pads) and there is one centre per axis -/
def FitsIn : List Nat → List Nat → List Nat → Prop
  | [], [], [] => True
  | k :: ks, n :: ds, _ :: cs => k ≤ n ∧ FitsIn ks ds cs
  | _, _, _ => False

theorem dftNd_cons (n : Nat) (ds : List Nat) (w : K) (ws : List K) (x : V K) (p : Nat) :
    dftNd (n :: ds) (w :: ws) x p
      = ∑ j ∈ range n, dftNd ds ws (slab (prodL ds) j x) (p % prodL ds) * w ^ (j * (p / prodL ds)) := by
  simp only [dftNd, sumTo_eq_sum, npow_eq_pow]

theorem dftNd_congr : ∀ (dims : List Nat) (ws : List K) (x y : V K) (p : Nat),
    (∀ q, q < prodL dims → x q = y q) → p < prodL dims → dftNd dims ws x p = dftNd dims ws y p
  | [], ws, x, y, p, h, hp => by
      cases ws <;> simpa [dftNd] using h p hp
  | n :: ds, [], x, y, p, h, hp => by simpa [dftNd] using h p hp
  | n :: ds, w :: ws, x, y, p, h, hp => by
      rw [dftNd_cons, dftNd_cons]
      have hR : 0 < prodL ds := by
        rcases Nat.eq_zero_or_pos (prodL ds) with h0 | h0
        · simp [prodL, h0] at hp
        · exact h0
      refine sum_congr rfl (fun j hj => ?_)
      congr 1
      apply dftNd_congr ds ws _ _ _ _ (Nat.mod_lt _ hR)
      intro q hq
      apply h
      have hj' := mem_range.mp hj
      calc j * prodL ds + q < j * prodL ds + prodL ds := by omega
        _ = (j + 1) * prodL ds := by ring
        _ ≤ n * prodL ds := Nat.mul_le_mul_right _ hj'

theorem dftNd_lin {ι : Type} (S : Finset ι) : ∀ (dims : List Nat) (ws : List K) (cf : ι → K) (F : ι → V K) (p : Nat),
    dftNd dims ws (fun q => ∑ a ∈ S, cf a * F a q) p = ∑ a ∈ S, cf a * dftNd dims ws (F a) p
  | [], ws, cf, F, p => by cases ws <;> simp [dftNd]
  | n :: ds, [], cf, F, p => by simp [dftNd]
  | n :: ds, w :: ws, cf, F, p => by
      rw [dftNd_cons]
      have e : ∀ j, slab (prodL ds) j (fun q => ∑ a ∈ S, cf a * F a q)
          = fun r => ∑ a ∈ S, cf a * slab (prodL ds) j (F a) r := fun j => rfl
      simp only [e, dftNd_lin S ds ws, dftNd_cons]
      simp only [sum_mul, mul_sum, mul_assoc]
      rw [sum_comm]

theorem dftNd_zero (dims : List Nat) (ws : List K) (p : Nat) : dftNd dims ws (fun _ => (0 : K)) p = 0 := by
  have := dftNd_lin (∅ : Finset Nat) dims ws (fun _ => (0 : K)) (fun _ _ => (0 : K)) p
  simpa using this

theorem roots_prod_pos : ∀ (dims : List Nat) (ws : List K), Roots dims ws → 0 < prodL dims
  | [], [], _ => by simp [prodL]
  | [], _ :: _, h => by simp [Roots] at h
  | _ :: _, [], h => by simp [Roots] at h
  | n :: ds, w :: ws, h => by
      obtain ⟨_, hn, hr⟩ := h
      exact Nat.mul_pos hn (roots_prod_pos ds ws hr)

theorem idx_div {R : Nat} (hR : 0 < R) (a r : Nat) (hr : r < R) : (a * R + r) / R = a := by
  rw [Nat.add_comm, Nat.add_mul_div_right _ _ hR, Nat.div_eq_of_lt hr, Nat.zero_add]

theorem idx_mod {R : Nat} (a r : Nat) (hr : r < R) : (a * R + r) % R = r := by
  rw [Nat.add_comm, Nat.add_mul_mod_self_right, Nat.mod_eq_of_lt hr]

/-- lead-axis step of the forward transform -/
theorem dftNd_lead (n : Nat) (ds : List Nat) (w : K) (ws : List K) (x : V K) (f0 r : Nat)
    (hR : 0 < prodL ds) (hr : r < prodL ds) :
    dftNd (n :: ds) (w :: ws) x (f0 * prodL ds + r)
      = ∑ b ∈ range n, dftNd ds ws (slab (prodL ds) b x) r * w ^ (b * f0) := by
  rw [dftNd_cons, idx_div hR f0 r hr, idx_mod f0 r hr]

/-- slab `a` of the zero-padded filter: the padded slab `a` of the filter, or zero -/
theorem dftNd_pad_slab (k n : Nat) (ks ds : List Nat) (ws : List K) (h : V K) (a r : Nat)
    (hR : 0 < prodL ds) (hr : r < prodL ds) :
    dftNd ds ws (slab (prodL ds) a (padNd (k :: ks) (n :: ds) h)) r
      = if a < k then dftNd ds ws (padNd ks ds (slab (prodL ks) a h)) r else 0 := by
  by_cases hak : a < k
  · rw [if_pos hak]
    apply dftNd_congr ds ws _ _ r _ hr
    intro q hq
    simp only [slab, padNd, idx_div hR a q hq, idx_mod a q hq, if_pos hak]
  · rw [if_neg hak, ← dftNd_zero ds ws r]
    apply dftNd_congr ds ws _ _ r _ hr
    intro q hq
    simp only [slab, padNd, idx_div hR a q hq, if_neg hak]

/-- N-d convolution theorem: `ifftn( fftn(h, s=dims) · Π_a ζ_a⁻¹^(c_a f_a) · fftn(x) )`, i.e. what
    `CircularConvolve._eval` computes for integer centres over `ndims = dims.length` axes, equals the
    signal-domain N-d circular convolution `Σ_m h[m] · x[(i + c − m) mod dims]` -/
theorem circNd_fft_eq : ∀ (dims : List Nat) (ws : List K) (ks cs : List Nat) (s : K) (h x : V K) (p : Nat),
    Roots dims ws → FitsIn ks dims cs → s * (prodL dims : K) = 1 → p < prodL dims →
    circNdSpecEval dims ws (ws.map (·⁻¹)) s
        (fun f => dftNd dims ws (padNd ks dims h) f * phaseNd dims (ws.map (·⁻¹)) cs f) x p
      = circNd ks dims cs h x p
  | [], [], [], [], s, h, x, p, _, _, hs, hp => by
      have hp0 : p = 0 := by simpa [prodL] using hp
      have hs1 : s = 1 := by simpa [prodL] using hs
      subst hp0 hs1
      simp [circNdSpecEval, dftNd, padNd, phaseNd, circNd]
  | [], _ :: _, _, _, _, _, _, _, hr, _, _, _ => by simp [Roots] at hr
  | _ :: _, [], _, _, _, _, _, _, hr, _, _, _ => by simp [Roots] at hr
  | [], [], _ :: _, _, _, _, _, _, _, hf, _, _ => by simp [FitsIn] at hf
  | [], [], [], _ :: _, _, _, _, _, _, hf, _, _ => by simp [FitsIn] at hf
  | _ :: _, _ :: _, [], _, _, _, _, _, _, hf, _, _ => by simp [FitsIn] at hf
  | _ :: _, _ :: _, _ :: _, [], _, _, _, _, _, hf, _, _ => by simp [FitsIn] at hf
  | n :: ds, w :: ws, k :: ks, c :: cs, s, h, x, p, hr, hf, hs, hp => by
      obtain ⟨hw, hn, hr'⟩ := hr
      obtain ⟨hkn, hf'⟩ := hf
      have hR : 0 < prodL ds := roots_prod_pos ds ws hr'
      have hj' : p % prodL ds < prodL ds := Nat.mod_lt _ hR
      have hj0 : p / prodL ds < n := by
        rw [Nat.div_lt_iff_lt_mul hR]; simpa [prodL] using hp
      have hs' : (s * (n : K)) * (prodL ds : K) = 1 := by
        rw [← hs]; simp only [prodL]; push_cast; ring
      have IH := fun a b => circNd_fft_eq ds ws ks cs (s * (n : K)) (slab (prodL ks) a h) (slab (prodL ds) b x)
        (p % prodL ds) hr' hf' hs' hj'
      simp only [circNdSpecEval] at IH ⊢
      -- the spectral product on slab f0 is a double sum over the slabs of h and x
      have eslab : ∀ f0, ∀ r, r < prodL ds →
          slab (prodL ds) f0 (fun f => dftNd (n :: ds) (w :: ws) (padNd (k :: ks) (n :: ds) h) f
              * phaseNd (n :: ds) (w⁻¹ :: ws.map (·⁻¹)) (c :: cs) f * dftNd (n :: ds) (w :: ws) x f) r
            = ∑ a ∈ range n, (if a < k then (1 : K) else 0) * ∑ b ∈ range n, (w ^ ((a + b) * f0) * w⁻¹ ^ (c * f0))
                * (dftNd ds ws (padNd ks ds (slab (prodL ks) a h)) r * phaseNd ds (ws.map (·⁻¹)) cs r
                    * dftNd ds ws (slab (prodL ds) b x) r) := by
        intro f0 r hr
        simp only [slab, dftNd_lead n ds w ws _ f0 r hR hr, phaseNd, npow_eq_pow,
          idx_div hR f0 r hr, idx_mod f0 r hr]
        have := fun a => dftNd_pad_slab k n ks ds ws h a r hR hr
        rw [sum_congr rfl (fun a _ => by rw [this a])]
        rw [sum_mul, sum_mul]
        refine sum_congr rfl (fun a _ => ?_)
        rw [mul_sum, mul_sum]
        refine sum_congr rfl (fun b _ => ?_)
        rw [Nat.add_mul, pow_add]
        split <;> ring
      rw [List.map_cons, dftNd_cons]
      have estep : ∀ f0 ∈ range n,
          dftNd ds (ws.map (·⁻¹)) (slab (prodL ds) f0 (fun f => dftNd (n :: ds) (w :: ws) (padNd (k :: ks) (n :: ds) h) f
              * phaseNd (n :: ds) (w⁻¹ :: ws.map (·⁻¹)) (c :: cs) f * dftNd (n :: ds) (w :: ws) x f)) (p % prodL ds)
            * w⁻¹ ^ (f0 * (p / prodL ds))
          = ∑ a ∈ range n, ∑ b ∈ range n, ((if a < k then (1 : K) else 0)
              * dftNd ds (ws.map (·⁻¹)) (fun r => dftNd ds ws (padNd ks ds (slab (prodL ks) a h)) r
                  * phaseNd ds (ws.map (·⁻¹)) cs r * dftNd ds ws (slab (prodL ds) b x) r) (p % prodL ds))
              * (w ^ ((a + b) * f0) * w⁻¹ ^ ((c + p / prodL ds) * f0)) := by
        intro f0 _
        rw [dftNd_congr ds _ _ _ _ (eslab f0) hj']
        rw [dftNd_lin, sum_mul]
        refine sum_congr rfl (fun a _ => ?_)
        rw [dftNd_lin, mul_sum, sum_mul]
        refine sum_congr rfl (fun b _ => ?_)
        rw [Nat.add_mul c, pow_add, Nat.mul_comm f0]
        ring
      rw [sum_congr rfl estep, sum_comm, mul_sum]
      simp only [circNd, sumTo_eq_sum]
      have eterm : ∀ i ∈ range n,
          s * ∑ f0 ∈ range n, ∑ b ∈ range n, (if i < k then (1 : K) else 0)
              * dftNd ds (ws.map (·⁻¹)) (fun r => dftNd ds ws (padNd ks ds (slab (prodL ks) i h)) r
                  * phaseNd ds (ws.map (·⁻¹)) cs r * dftNd ds ws (slab (prodL ds) b x) r) (p % prodL ds)
              * (w ^ ((i + b) * f0) * w⁻¹ ^ ((c + p / prodL ds) * f0))
          = if i < k then circNd ks ds cs (slab (prodL ks) i h)
              (slab (prodL ds) ((p / prodL ds + c + n - i) % n) x) (p % prodL ds) else 0 := by
        intro i hi
        rw [sum_comm]
        have e3 : ∀ b ∈ range n, ∑ f0 ∈ range n, (if i < k then (1 : K) else 0)
              * dftNd ds (ws.map (·⁻¹)) (fun r => dftNd ds ws (padNd ks ds (slab (prodL ks) i h)) r
                  * phaseNd ds (ws.map (·⁻¹)) cs r * dftNd ds ws (slab (prodL ds) b x) r) (p % prodL ds)
              * (w ^ ((i + b) * f0) * w⁻¹ ^ ((c + p / prodL ds) * f0))
            = (if i < k then (1 : K) else 0)
              * dftNd ds (ws.map (·⁻¹)) (fun r => dftNd ds ws (padNd ks ds (slab (prodL ks) i h)) r
                  * phaseNd ds (ws.map (·⁻¹)) cs r * dftNd ds ws (slab (prodL ds) b x) r) (p % prodL ds)
              * (if b = (p / prodL ds + c + n - i) % n then (n : K) else 0) := by
          intro b hb
          rw [← mul_sum, root_orthogonality_mod hw hn]
          congr 1
          simp only [unique_shift n i (p / prodL ds) c b (mem_range.mp hi) (mem_range.mp hb)]
        rw [sum_congr rfl e3, sum_eq_single_of_mem ((p / prodL ds + c + n - i) % n) (mem_range.mpr (Nat.mod_lt _ hn))
          (fun b _ hne => by simp [hne])]
        rw [if_pos rfl]
        split
        · rw [← IH]; ring
        · ring
      rw [sum_congr rfl eterm, sum_ite, sum_const_zero, add_zero]
      apply sum_congr _ (fun _ _ => rfl)
      ext a
      simp only [mem_filter, mem_range]
      constructor
      · exact fun h' => h'.2
      · exact fun h' => ⟨lt_of_lt_of_le h' hkn, h'⟩


end Nd

section NdMatrix
variable {K : Type} [CommRing K]

theorem prodL_pos_of_forall : ∀ (dims : List Nat), (∀ n ∈ dims, 0 < n) → 0 < prodL dims
  | [], _ => by simp [prodL]
  | n :: ds, h => Nat.mul_pos (h n (by simp)) (prodL_pos_of_forall ds (fun m hm => h m (by simp [hm])))

theorem shiftIdx_lt : ∀ (dims cs : List Nat) (p q : Nat), (∀ n ∈ dims, 0 < n) → shiftIdx dims cs p q < prodL dims
  | [], _, _, _, _ => by simp [shiftIdx, prodL]
  | n :: ds, [], _, _, h => by simpa [shiftIdx] using prodL_pos_of_forall (n :: ds) h
  | n :: ds, c :: cs, p, q, h => by
      have hn : 0 < n := h n (by simp)
      have hds : ∀ m ∈ ds, 0 < m := fun m hm => h m (by simp [hm])
      have h1 := shiftIdx_lt ds cs (p % prodL ds) (q % prodL ds) hds
      have h2 : (p / prodL ds + c + n - q / prodL ds) % n < n := Nat.mod_lt _ hn
      simp only [shiftIdx, prodL]
      calc _ < (p / prodL ds + c + n - q / prodL ds) % n * prodL ds + prodL ds := by omega
        _ = ((p / prodL ds + c + n - q / prodL ds) % n + 1) * prodL ds := by ring
        _ ≤ n * prodL ds := Nat.mul_le_mul_right _ h2

/-- the signal-domain N-d circular convolution is multiplication by the documented N-d circulant
    `H[i, j] = h_pad[(i + c − j) mod dims]` (multi-indices, row-major) -/
theorem circNd_eq_mulVec : ∀ (ks dims cs : List Nat) (h x : V K) (p : Nat),
    (∀ n ∈ dims, 0 < n) → FitsIn ks dims cs →
    circNd ks dims cs h x p = mulVec (circMatrixNd ks dims cs h) (prodL dims) x p
  | [], [], [], h, x, p, _, _ => by
      simp [circNd, mulVec, circMatrixNd, padNd, shiftIdx, prodL, sumTo]
  | [], [], _ :: _, _, _, _, _, hf => by simp [FitsIn] at hf
  | [], _ :: _, _, _, _, _, _, hf => by simp [FitsIn] at hf
  | _ :: _, [], _, _, _, _, _, hf => by simp [FitsIn] at hf
  | _ :: _, _ :: _, [], _, _, _, _, hf => by simp [FitsIn] at hf
  | k :: ks, n :: ds, c :: cs, h, x, p, hpos, hf => by
      obtain ⟨hkn, hf'⟩ := hf
      have hn : 0 < n := hpos n (by simp)
      have hds : ∀ m ∈ ds, 0 < m := fun m hm => hpos m (by simp [hm])
      have hR : 0 < prodL ds := prodL_pos_of_forall ds hds
      have IH := fun (h' x' : V K) => circNd_eq_mulVec ks ds cs h' x' (p % prodL ds) hds hf'
      simp only [circNd, IH, mulVec, circMatrixNd, sumTo_eq_sum, prodL]
      rw [sum_range_mul2]
      -- rows of the right-hand side, slab by slab
      have erhs : ∀ q0 ∈ range n, ∑ q' ∈ range (prodL ds),
            padNd (k :: ks) (n :: ds) h (shiftIdx (n :: ds) (c :: cs) p (q0 * prodL ds + q')) * x (q0 * prodL ds + q')
          = if (p / prodL ds + c + n - q0) % n < k then
              ∑ q' ∈ range (prodL ds), padNd ks ds (slab (prodL ks) ((p / prodL ds + c + n - q0) % n) h)
                (shiftIdx ds cs (p % prodL ds) q') * slab (prodL ds) q0 x q'
            else 0 := by
        intro q0 _
        split
        · rename_i ha
          refine sum_congr rfl (fun q' hq' => ?_)
          have hq := mem_range.mp hq'
          have hlt := shiftIdx_lt ds cs (p % prodL ds) q' hds
          simp only [shiftIdx, padNd, slab, idx_div hR q0 q' hq, idx_mod q0 q' hq, idx_div hR _ _ hlt,
            idx_mod _ _ hlt, if_pos ha]
        · rename_i ha
          refine sum_eq_zero (fun q' hq' => ?_)
          have hq := mem_range.mp hq'
          have hlt := shiftIdx_lt ds cs (p % prodL ds) q' hds
          simp only [shiftIdx, padNd, idx_div hR q0 q' hq, idx_mod q0 q' hq, idx_div hR _ _ hlt, if_neg ha, zero_mul]
      rw [sum_congr rfl erhs]
      -- extend the tap sum to `range n` and re-index `m ↔ q0 = (j0 + c + n − m) mod n`
      have elhs : ∑ m ∈ range k, ∑ q' ∈ range (prodL ds), padNd ks ds (slab (prodL ks) m h) (shiftIdx ds cs (p % prodL ds) q')
            * slab (prodL ds) ((p / prodL ds + c + n - m) % n) x q'
          = ∑ m ∈ range n, if m < k then ∑ q' ∈ range (prodL ds), padNd ks ds (slab (prodL ks) m h)
              (shiftIdx ds cs (p % prodL ds) q') * slab (prodL ds) ((p / prodL ds + c + n - m) % n) x q' else 0 := by
        rw [sum_ite, sum_const_zero, add_zero]
        apply sum_congr _ (fun _ _ => rfl)
        ext a
        simp only [mem_filter, mem_range]
        exact ⟨fun h' => ⟨lt_of_lt_of_le h' hkn, h'⟩, fun h' => h'.2⟩
      rw [elhs]
      refine sum_nbij' (fun m => (p / prodL ds + c + n - m) % n) (fun j => (p / prodL ds + c + n - j) % n) ?_ ?_ ?_ ?_ ?_
      · intro m _; exact mem_range.mpr (Nat.mod_lt _ hn)
      · intro j _; exact mem_range.mpr (Nat.mod_lt _ hn)
      · intro m hm; exact refl_mod_invol _ _ _ (Nat.le_add_left _ _) (mem_range.mp hm)
      · intro j hj; exact refl_mod_invol _ _ _ (Nat.le_add_left _ _) (mem_range.mp hj)
      · intro m hm
        rw [refl_mod_invol _ _ _ (Nat.le_add_left _ _) (mem_range.mp hm)]


/-! multi-index reading of the flat definitions (row-major `ravel`) -/

theorem shiftIdx_ravel : ∀ (dims cs i j : List Nat), InBounds dims i → InBounds dims j →
    shiftIdx dims cs (ravel dims i) (ravel dims j) = ravel dims (shiftMI dims cs i j)
  | [], _, [], [], _, _ => by simp [shiftIdx, ravel]
  | [], _, [], _ :: _, _, hj => by simp [InBounds] at hj
  | [], _, _ :: _, _, hi, _ => by simp [InBounds] at hi
  | _ :: _, _, [], _, hi, _ => by simp [InBounds] at hi
  | _ :: _, _, _ :: _, [], _, hj => by simp [InBounds] at hj
  | n :: ds, [], i :: is, j :: js, _, _ => by simp [shiftIdx, shiftMI, ravel]
  | n :: ds, c :: cs, i :: is, j :: js, hi, hj => by
      obtain ⟨_, hi'⟩ := hi
      obtain ⟨_, hj'⟩ := hj
      have h1 := ravel_lt ds is hi'
      have h2 := ravel_lt ds js hj'
      have hR : 0 < prodL ds := by omega
      simp only [shiftIdx, shiftMI, ravel, idx_div hR i _ h1, idx_mod i _ h1, idx_div hR j _ h2, idx_mod j _ h2,
        shiftIdx_ravel ds cs is js hi' hj']

theorem padNd_ravel_in {K : Type} [Zero K] : ∀ (ks dims idx : List Nat) (h : V K), InBounds dims idx → InBounds ks idx →
    padNd ks dims h (ravel dims idx) = h (ravel ks idx)
  | [], [], [], h, _, _ => by simp [padNd, ravel]
  | [], [], _ :: _, _, hd, _ => by simp [InBounds] at hd
  | [], _ :: _, [], _, hd, _ => by simp [InBounds] at hd
  | [], _ :: _, _ :: _, _, _, hk => by simp [InBounds] at hk
  | _ :: _, [], [], _, _, hk => by simp [InBounds] at hk
  | _ :: _, [], _ :: _, _, hd, _ => by simp [InBounds] at hd
  | _ :: _, _ :: _, [], _, hd, _ => by simp [InBounds] at hd
  | k :: ks, n :: ds, i :: is, h, hd, hk => by
      obtain ⟨_, hd'⟩ := hd
      obtain ⟨hik, hk'⟩ := hk
      have h1 := ravel_lt ds is hd'
      have hR : 0 < prodL ds := by omega
      simp only [padNd, ravel, idx_div hR i _ h1, idx_mod i _ h1, if_pos hik, padNd_ravel_in ks ds is _ hd' hk', slab]

theorem padNd_ravel_out {K : Type} [Zero K] : ∀ (ks dims idx : List Nat) (h : V K), InBounds dims idx →
    ks.length = dims.length → ¬ InBounds ks idx → padNd ks dims h (ravel dims idx) = 0
  | [], [], [], _, _, _, hk => by simp [InBounds] at hk
  | [], _ :: _, _, _, _, hl, _ => by simp at hl
  | _ :: _, [], _, _, _, hl, _ => by simp at hl
  | [], [], _ :: _, _, hd, _, _ => by simp [InBounds] at hd
  | _ :: _, _ :: _, [], _, hd, _, _ => by simp [InBounds] at hd
  | k :: ks, n :: ds, i :: is, h, hd, hl, hk => by
      obtain ⟨_, hd'⟩ := hd
      have h1 := ravel_lt ds is hd'
      have hR : 0 < prodL ds := by omega
      simp only [padNd, ravel, idx_div hR i _ h1, idx_mod i _ h1]
      split
      · rename_i hik
        exact padNd_ravel_out ks ds is _ hd' (by simpa using hl) (fun h' => hk ⟨hik, h'⟩)
      · rfl

end NdMatrix
section NdSpec
variable {K : Type} [Field K]

theorem roots_pos : ∀ (dims : List Nat) (ws : List K), Roots dims ws → ∀ n ∈ dims, 0 < n
  | [], _, _ => by simp
  | _ :: _, [], h => by simp [Roots] at h
  | n :: ds, w :: ws, h => by
      obtain ⟨_, hn, hr⟩ := h
      intro m hm
      rcases List.mem_cons.mp hm with rfl | hm'
      · exact hn
      · exact roots_pos ds ws hr m hm'

/-- N-d spectral-multiplier form (unscaled): `idftn(H · dftn(x)) = Σ_q idftn(H)[(p − q) mod dims] · x[q]` for ANY
    spectrum `H` -/
theorem circNdSpec_raw : ∀ (dims : List Nat) (ws : List K) (H x : V K) (p : Nat), Roots dims ws → p < prodL dims →
    dftNd dims (ws.map (·⁻¹)) (fun f => H f * dftNd dims ws x f) p
      = ∑ q ∈ range (prodL dims),
          dftNd dims (ws.map (·⁻¹)) H (shiftIdx dims (List.replicate dims.length 0) p q) * x q
  | [], [], H, x, p, _, hp => by
      have hp0 : p = 0 := by simpa [prodL] using hp
      subst hp0
      simp [dftNd, shiftIdx, prodL]
  | [], _ :: _, _, _, _, hr, _ => by simp [Roots] at hr
  | _ :: _, [], _, _, _, hr, _ => by simp [Roots] at hr
  | n :: ds, w :: ws, H, x, p, hr, hp => by
      obtain ⟨hw, hn, hr'⟩ := hr
      have hR : 0 < prodL ds := roots_prod_pos ds ws hr'
      have hj' : p % prodL ds < prodL ds := Nat.mod_lt _ hR
      have IH := fun (H' x' : V K) => circNdSpec_raw ds ws H' x' (p % prodL ds) hr' hj'
      rw [List.map_cons, dftNd_cons]
      -- left-hand side, slab by slab
      have elhs : ∀ f0 ∈ range n,
          dftNd ds (ws.map (·⁻¹)) (slab (prodL ds) f0 (fun f => H f * dftNd (n :: ds) (w :: ws) x f)) (p % prodL ds)
            * w⁻¹ ^ (f0 * (p / prodL ds))
          = ∑ b ∈ range n, ∑ q' ∈ range (prodL ds),
              (dftNd ds (ws.map (·⁻¹)) (slab (prodL ds) f0 H)
                  (shiftIdx ds (List.replicate ds.length 0) (p % prodL ds) q') * (w ^ (b * f0) * w⁻¹ ^ ((p / prodL ds) * f0)))
                * x (b * prodL ds + q') := by
        intro f0 _
        have e1 : ∀ r, r < prodL ds →
            slab (prodL ds) f0 (fun f => H f * dftNd (n :: ds) (w :: ws) x f) r
              = ∑ b ∈ range n, w ^ (b * f0) * (slab (prodL ds) f0 H r * dftNd ds ws (slab (prodL ds) b x) r) := by
          intro r hr
          simp only [slab, dftNd_lead n ds w ws _ f0 r hR hr, mul_sum]
          exact sum_congr rfl (fun b _ => by ring)
        rw [dftNd_congr ds _ _ _ _ e1 hj', dftNd_lin, sum_mul]
        refine sum_congr rfl (fun b _ => ?_)
        rw [IH, mul_sum, sum_mul]
        refine sum_congr rfl (fun q' _ => ?_)
        simp only [slab]
        rw [Nat.mul_comm f0]
        ring
      rw [sum_congr rfl elhs]
      simp only [prodL]
      rw [sum_range_mul2, sum_comm]
      refine sum_congr rfl (fun b hb => ?_)
      rw [sum_comm]
      refine sum_congr rfl (fun q' hq' => ?_)
      have hq := mem_range.mp hq'
      have hlt := shiftIdx_lt ds (List.replicate ds.length 0) (p % prodL ds) q' (roots_pos ds ws hr')
      simp only [List.length_cons, List.replicate_succ, shiftIdx, idx_div hR b q' hq, idx_mod b q' hq, Nat.add_zero]
      rw [dftNd_cons, idx_div hR _ _ hlt, idx_mod _ _ hlt, sum_mul]
      refine sum_congr rfl (fun f0 _ => ?_)
      rw [Nat.mul_comm f0 ((p / prodL ds + n - b) % n), root_shift hw hn b (p / prodL ds) f0 (mem_range.mp hb)]



/-- N-d inversion (all axes, transform size = input size): `idftn(dftn(x)) = N · x` (unscaled) -/
theorem dftNd_inv_raw : ∀ (dims : List Nat) (ws : List K) (x : V K) (p : Nat), Roots dims ws → p < prodL dims →
    dftNd dims (ws.map (·⁻¹)) (dftNd dims ws x) p = (prodL dims : K) * x p
  | [], [], x, p, _, hp => by simp [dftNd, prodL]
  | [], _ :: _, _, _, hr, _ => by simp [Roots] at hr
  | _ :: _, [], _, _, hr, _ => by simp [Roots] at hr
  | n :: ds, w :: ws, x, p, hr, hp => by
      obtain ⟨hw, hn, hr'⟩ := hr
      have hR : 0 < prodL ds := roots_prod_pos ds ws hr'
      have hj' : p % prodL ds < prodL ds := Nat.mod_lt _ hR
      have hj0 : p / prodL ds < n := by
        rw [Nat.div_lt_iff_lt_mul hR]; simpa [prodL] using hp
      have IH := fun (x' : V K) => dftNd_inv_raw ds ws x' (p % prodL ds) hr' hj'
      rw [List.map_cons, dftNd_cons]
      have e : ∀ f0 ∈ range n,
          dftNd ds (ws.map (·⁻¹)) (slab (prodL ds) f0 (dftNd (n :: ds) (w :: ws) x)) (p % prodL ds)
            * w⁻¹ ^ (f0 * (p / prodL ds))
          = ∑ b ∈ range n, ((prodL ds : K) * x (b * prodL ds + p % prodL ds))
              * (w ^ (b * f0) * w⁻¹ ^ ((p / prodL ds) * f0)) := by
        intro f0 _
        have e1 : ∀ r, r < prodL ds → slab (prodL ds) f0 (dftNd (n :: ds) (w :: ws) x) r
            = ∑ b ∈ range n, w ^ (b * f0) * dftNd ds ws (slab (prodL ds) b x) r := by
          intro r hr
          simp only [slab, dftNd_lead n ds w ws _ f0 r hR hr]
          exact sum_congr rfl (fun b _ => by ring)
        rw [dftNd_congr ds _ _ _ _ e1 hj', dftNd_lin, sum_mul]
        refine sum_congr rfl (fun b _ => ?_)
        rw [IH, Nat.mul_comm f0]
        simp only [slab]; ring
      rw [sum_congr rfl e, sum_comm]
      have e2 : ∀ b ∈ range n, ∑ f0 ∈ range n, ((prodL ds : K) * x (b * prodL ds + p % prodL ds))
              * (w ^ (b * f0) * w⁻¹ ^ ((p / prodL ds) * f0))
          = ((prodL ds : K) * x (b * prodL ds + p % prodL ds)) * (if b = p / prodL ds then (n : K) else 0) := by
        intro b hb
        rw [← mul_sum, root_orthogonality hw b (p / prodL ds) (mem_range.mp hb) hj0]
      rw [sum_congr rfl e2, sum_eq_single_of_mem (p / prodL ds) (mem_range.mpr hj0) (fun b _ hne => by simp [hne])]
      rw [if_pos rfl, Nat.div_add_mod' p (prodL ds)]
      simp only [prodL]; push_cast; ring

end NdSpec

end Scico.LinOps
