/-
  C15, the `solve` loop: closed form of `n` clean iterations (world, clock, counter, records,
  callback log, timer), splitting of the loop, behaviour at the first iteration that trips the
  NaN stop.  Everything is by induction over the number of iterations.
-/
import Scico.Proofs.DriverTimer

set_option linter.unusedSimpArgs false

namespace Scico.Driver
open Scico.Driver.Spec

variable {ω ρ ξ α L : Type} [DecidableEq L]

/-! ### dictionary -/

theorem Store.set_set (s : Store L) (l : L) (a b : Entry) : (s.set l a).set l b = s.set l b := by
  induction s with
  | nil => simp [Store.set]
  | cons p s ih =>
    obtain ⟨k, x⟩ := p
    by_cases hk : k = l <;> simp [Store.set, hk, ih]

/-! ### the default timer -/

theorem start_none_store (T : Timer L) (c : Nat) :
    (T.start .none c).store =
      T.store.set T.dflt (startEntry ((T.store.get T.dflt).getD Entry.fresh) c) := by
  simp only [Timer.start, Timer.startLabels, List.foldl_cons, List.foldl_nil, startOne]
  cases T.store.get T.dflt <;> simp

@[simp] theorem start_dflt (T : Timer L) (a : Arg L) (c : Nat) : (T.start a c).dflt = T.dflt := rfl
@[simp] theorem start_all (T : Timer L) (a : Arg L) (c : Nat) : (T.start a c).all = T.all := rfl

theorem stop_none (T : Timer L) (c : Nat) (e : Entry) (hda : T.dflt ≠ T.all)
    (h : T.store.get T.dflt = some e) :
    T.stop .none c = ({ T with store := T.store.set T.dflt (stopEntry e c) }, true) := by
  simp [Timer.stop, Timer.targets, hda, updList, h]

/-- the default timer of `T` is running and reads `e` at clock `c`; all else is as in `T0` -/
def RunningAt (T0 T : Timer L) (c e : Nat) : Prop :=
  T.dflt = T0.dflt ∧ T.all = T0.all ∧
    ∃ s td, T.store = T0.store.set T0.dflt ⟨some s, td⟩ ∧ s ≤ c ∧ td + (c - s) = e

/-- the default timer of `T` is stopped with `e` accumulated; all else is as in `T0` -/
def StoppedAt (T0 T : Timer L) (e : Nat) : Prop :=
  T.dflt = T0.dflt ∧ T.all = T0.all ∧ T.store = T0.store.set T0.dflt ⟨none, e⟩

theorem RunningAt.read {T0 T : Timer L} {c e : Nat} (h : RunningAt T0 T c e) (c' : Nat) (hc : c ≤ c') :
    T.elapsedDefault true c' = e + (c' - c) := by
  obtain ⟨hd, _, s, td, hs, hle, he⟩ := h
  simp only [Timer.elapsedDefault, hs, hd, Store.get_set, if_true, elapsedEntry]
  omega

theorem RunningAt.advance {T0 T : Timer L} {c e : Nat} (h : RunningAt T0 T c e) (c' : Nat)
    (hc : c ≤ c') : RunningAt T0 T c' (e + (c' - c)) := by
  obtain ⟨hd, ha, s, td, hs, hle, he⟩ := h
  exact ⟨hd, ha, s, td, hs, by omega, by omega⟩

theorem RunningAt.stop {T0 T : Timer L} {c e : Nat} (h : RunningAt T0 T c e) (hda : T0.dflt ≠ T0.all) :
    (T.stop .none c).2 = true ∧ StoppedAt T0 (T.stop .none c).1 e := by
  obtain ⟨hd, ha, s, td, hs, hle, he⟩ := h
  have hg : T.store.get T.dflt = some ⟨some s, td⟩ := by simp [hs, hd, Store.get_set]
  have hda' : T.dflt ≠ T.all := by rw [hd, ha]; exact hda
  rw [stop_none T c _ hda' hg]
  refine ⟨rfl, hd, ha, ?_⟩
  simp [hs, hd, Store.set_set, stopEntry, he]

theorem StoppedAt.start {T0 T : Timer L} {e : Nat} (h : StoppedAt T0 T e) (c : Nat) :
    RunningAt T0 (T.start .none c) c e := by
  obtain ⟨hd, ha, hs⟩ := h
  refine ⟨by simp [Timer.start, hd], by simp [Timer.start, ha], c, e, ?_, Nat.le_refl _, by omega⟩
  rw [start_none_store, hs, hd]
  simp [Store.get_set, Store.set_set, startEntry]

/-- start times of a running default timer are not in the future -/
def TimerWF (T : Timer L) (c : Nat) : Prop :=
  ∀ e, T.store.get T.dflt = some e → ∀ s, e.t0 = some s → s ≤ c

theorem elapsedDefault_start (T : Timer L) (c : Nat) (total : Bool) :
    (T.start .none c).elapsedDefault total c = T.elapsedDefault total c := by
  simp only [Timer.elapsedDefault, start_none_store, start_dflt, Store.get_set, if_true]
  cases h : T.store.get T.dflt with
  | none => cases total <;> simp [startEntry, Entry.fresh, elapsedEntry]
  | some e =>
    cases h0 : e.t0 <;> simp [startEntry, h0, elapsedEntry]

/-- `self.timer.start()` at the beginning of `solve`: whatever the state of the default timer
    (absent, stopped, still running after an exception), it now runs and reads what it read -/
theorem running_after_start (T : Timer L) (c : Nat) (hwf : TimerWF T c) :
    RunningAt (T.start .none c) (T.start .none c) c (T.elapsedDefault true c) := by
  refine ⟨rfl, rfl, ?_⟩
  have hst := start_none_store T c
  have hd : (T.start .none c).dflt = T.dflt := by simp [Timer.start]
  cases h : T.store.get T.dflt with
  | none =>
    refine ⟨c, 0, ?_, Nat.le_refl _, ?_⟩
    · rw [hd, hst, h]; simp [Store.set_set, startEntry, Entry.fresh]
    · simp [Timer.elapsedDefault, h]
  | some e =>
    cases h0 : e.t0 with
    | none =>
      refine ⟨c, e.td, ?_, Nat.le_refl _, ?_⟩
      · rw [hd, hst, h]; simp [Store.set_set, startEntry, h0]
      · simp [Timer.elapsedDefault, h, elapsedEntry, h0]
    | some s =>
      refine ⟨s, e.td, ?_, hwf e h s h0, ?_⟩
      · rw [hd, hst, h]
        simp only [Option.getD_some, startEntry, h0, Store.set_set]
        congr 1
        cases e; simp_all
      · simp [Timer.elapsedDefault, h, elapsedEntry, h0]; omega

/-! ### sums -/

theorem stepTime_succ (E : Env ω ρ ξ α) (cb : Option (Callback ω)) (w : ω) (n : Nat) :
    stepTime E cb w (n + 1) = stepTime E cb w n + E.stepTicks (worldAt E cb w n) := by
  simp [stepTime, List.range_succ]

theorem cbTime_succ (E : Env ω ρ ξ α) (cb : Option (Callback ω)) (w : ω) (n : Nat) :
    cbTime E cb w (n + 1) = cbTime E cb w n + cbTicks cb (afterStep E cb w n) := by
  simp [cbTime, List.range_succ]

theorem worldAt_add (E : Env ω ρ ξ α) (cb : Option (Callback ω)) (w : ω) (a b : Nat) :
    worldAt E cb w (a + b) = worldAt E cb (worldAt E cb w a) b := by
  induction b with
  | zero => rfl
  | succ b ih => rw [← Nat.add_assoc]; simp [worldAt, ih]

theorem afterStep_add (E : Env ω ρ ξ α) (cb : Option (Callback ω)) (w : ω) (a b : Nat) :
    afterStep E cb w (a + b) = afterStep E cb (worldAt E cb w a) b := by
  simp [afterStep, worldAt_add]

theorem stepTime_add (E : Env ω ρ ξ α) (cb : Option (Callback ω)) (w : ω) (a b : Nat) :
    stepTime E cb w (a + b) = stepTime E cb w a + stepTime E cb (worldAt E cb w a) b := by
  induction b with
  | zero => simp [stepTime]
  | succ b ih => rw [← Nat.add_assoc, stepTime_succ, stepTime_succ, ih, worldAt_add]; omega

theorem cbTime_add (E : Env ω ρ ξ α) (cb : Option (Callback ω)) (w : ω) (a b : Nat) :
    cbTime E cb w (a + b) = cbTime E cb w a + cbTime E cb (worldAt E cb w a) b := by
  induction b with
  | zero => simp [cbTime]
  | succ b ih => rw [← Nat.add_assoc, cbTime_succ, cbTime_succ, ih, afterStep_add]; omega

/-! ### NaN test -/

theorem workingVarsFinite_eq_false_iff {α : Type} (fin : α → Bool) (vars : List (Var α)) :
    workingVarsFinite fin vars = false ↔ hasNonFinite fin vars := by
  unfold workingVarsFinite hasNonFinite allFinite
  rw [List.all_eq_false]
  constructor
  · rintro ⟨v, hv, hb⟩
    refine ⟨v, hv, ?_⟩
    cases v with
    | plain xs => simpa [Var.any] using hb
    | block bs => simpa [Var.any] using hb
  · rintro ⟨v, hv, hb⟩
    refine ⟨v, hv, ?_⟩
    cases v with
    | plain xs => simpa [Var.any] using hb
    | block bs => simpa [Var.any] using hb

/-- the test `self.nanstop and not self._working_vars_finite()` after the step of iteration `k` -/
def tripsB (E : Env ω ρ ξ α) (nanstop : Bool) (w : ω) : Bool :=
  nanstop && !(workingVarsFinite E.fin (E.vars w))

theorem tripsB_iff (E : Env ω ρ ξ α) (cb : Option (Callback ω)) (w : ω) (nanstop : Bool) (k : Nat) :
    tripsB E nanstop (afterStep E cb w k) = true ↔ tripsAt E cb w nanstop k := by
  unfold tripsB tripsAt
  rw [← workingVarsFinite_eq_false_iff]
  cases nanstop <;> cases workingVarsFinite E.fin (E.vars (afterStep E cb w k)) <;> simp

/-! ### splitting the loop -/

theorem loop_add (E : Env ω ρ ξ α) (cb : Option (Callback ω)) (a b : Nat) (i : Int) (d : Drv ω ρ L) :
    loop E cb (a + b) i d =
      match loop E cb a i d with
      | (d', .ok) => loop E cb b (i + a) d'
      | r => r := by
  induction a generalizing i d with
  | zero => simp [loop]
  | succ a ih =>
    rw [Nat.succ_add]
    simp only [loop]
    rcases hb : body E cb d i with ⟨d', o⟩
    cases o with
    | ok =>
      simp only [ih]
      have : i + 1 + (a : Int) = i + ((a + 1 : Nat) : Int) := by omega
      rw [this]
    | nan => rfl
    | key => rfl

theorem loop_one (E : Env ω ρ ξ α) (cb : Option (Callback ω)) (i : Int) (d : Drv ω ρ L) :
    loop E cb 1 i d = body E cb d i := by
  simp only [loop]
  rcases hb : body E cb d i with ⟨d', o⟩
  cases o <;> rfl

theorem loop_succ (E : Env ω ρ ξ α) (cb : Option (Callback ω)) (n : Nat) (i : Int) (d : Drv ω ρ L) :
    loop E cb (n + 1) i d =
      match loop E cb n i d with
      | (d', .ok) => body E cb d' (i + n)
      | r => r := by
  rw [loop_add, ]
  rcases loop E cb n i d with ⟨d', o⟩
  cases o <;> simp [loop_one]

/-! ### one pass of the loop, restated in pieces -/

/-- `for self.itnum in …` + `self.step()` -/
def stepped (E : Env ω ρ ξ α) (d : Drv ω ρ L) (i : Int) : Drv ω ρ L :=
  { d with itnum := i, world := E.step d.world, clock := d.clock + E.stepTicks d.world }

/-- `self.itstat_object.insert(self.itstat_insert_func(self))` -/
def recorded (E : Env ω ρ ξ α) (d : Drv ω ρ L) : Drv ω ρ L :=
  { d with rows := statsInsert d.rows ⟨d.itnum, d.timer.elapsedDefault true d.clock, E.fields d.world⟩ }

/-- `callback(self)` with its ghost record -/
def called (c : Callback ω) (d : Drv ω ρ L) : Drv ω ρ L :=
  { d with world := c.run d.world, clock := d.clock + c.ticks d.world,
           cblog := d.cblog ++ [⟨d.itnum, d.world, d.clock, d.clock + c.ticks d.world⟩] }

theorem body_eq (E : Env ω ρ ξ α) (cb : Option (Callback ω)) (d : Drv ω ρ L) (i : Int) :
    body E cb d i =
      if tripsB E (stepped E d i).nanstop (stepped E d i).world then (stepped E d i, .nan)
      else match cb with
        | none => (recorded E (stepped E d i), .ok)
        | some c =>
          match (recorded E (stepped E d i)).timerStop with
          | (d3, false) => (d3, .key)
          | (d3, true) => ((called c d3).timerStart, .ok) := by
  cases cb <;> rfl

/-- state of the driver after `n` clean iterations of a loop that started in `d0` with loop
    values `i0, i0+1, …`, `e0` ticks on the running default timer (`T0` = the timer object at
    that moment) -/
structure LoopAt (E : Env ω ρ ξ α) (cb : Option (Callback ω)) (T0 : Timer L) (d0 : Drv ω ρ L)
    (i0 : Int) (e0 : Nat) (n : Nat) (d : Drv ω ρ L) : Prop where
  world : d.world = worldAt E cb d0.world n
  clock : d.clock = d0.clock + stepTime E cb d0.world n + cbTime E cb d0.world n
  itnum : d.itnum = if n = 0 then d0.itnum else i0 + ((n : Int) - 1)
  maxiter : d.maxiter = d0.maxiter
  nanstop : d.nanstop = d0.nanstop
  rows : d.rows = d0.rows ++ (List.range n).map (specRow E cb d0.world i0 e0)
  cblog : d.cblog = d0.cblog ++
    (if cb.isSome then (List.range n).map (specCb E cb d0.world i0 d0.clock) else [])
  tlog : d.tlog = d0.tlog ++
    (if cb.isSome then (List.range n).flatMap (specBracket E cb d0.world d0.clock) else [])
  timer : RunningAt T0 d.timer d.clock (e0 + stepTime E cb d0.world n)

theorem loopAt_zero (E : Env ω ρ ξ α) (cb : Option (Callback ω)) (T0 : Timer L) (d0 : Drv ω ρ L)
    (i0 : Int) (e0 : Nat) (h : RunningAt T0 d0.timer d0.clock e0) : LoopAt E cb T0 d0 i0 e0 0 d0 := by
  refine ⟨rfl, by simp [stepTime, cbTime], by simp, rfl, rfl, by simp, by simp, by simp, ?_⟩
  simpa [stepTime] using h

/-- the pass that trips the NaN stop: the step has run, the counter shows the iteration, nothing
    else has happened (no record, no callback, timer left running) -/
theorem body_trip (E : Env ω ρ ξ α) (cb : Option (Callback ω)) (d : Drv ω ρ L) (i : Int)
    (h : tripsB E d.nanstop (E.step d.world) = true) :
    body E cb d i = (stepped E d i, .nan) := by
  rw [body_eq]
  simp [stepped, h]

theorem body_clean (E : Env ω ρ ξ α) (cb : Option (Callback ω)) (T0 : Timer L) (d0 : Drv ω ρ L)
    (i0 : Int) (e0 : Nat) (n : Nat) (d : Drv ω ρ L) (hda : T0.dflt ≠ T0.all)
    (h : LoopAt E cb T0 d0 i0 e0 n d)
    (hclean : tripsB E d0.nanstop (afterStep E cb d0.world n) = false) :
    (body E cb d (i0 + n)).2 = .ok ∧ LoopAt E cb T0 d0 i0 e0 (n + 1) (body E cb d (i0 + n)).1 := by
  have hw : E.step d.world = afterStep E cb d0.world n := by rw [h.world]; rfl
  have hnot : tripsB E (stepped E d (i0 + n)).nanstop (stepped E d (i0 + n)).world = false := by
    simp only [stepped, h.nanstop, hw, hclean]
  have hrun := h.timer.advance (d.clock + E.stepTicks d.world) (by omega)
  have hread := h.timer.read (d.clock + E.stepTicks d.world) (by omega)
  have hdt : E.stepTicks d.world = E.stepTicks (worldAt E cb d0.world n) := by rw [h.world]
  have hrow : (⟨i0 + n, d.timer.elapsedDefault true (d.clock + E.stepTicks d.world),
      E.fields (E.step d.world)⟩ : Row ρ) = specRow E cb d0.world i0 e0 n := by
    rw [hread]
    simp only [specRow, hw, stepTime_succ, hdt]
    congr 1
    omega
  have hit : (i0 + (n : Int)) = if n + 1 = 0 then d0.itnum else i0 + (((n + 1 : Nat) : Int) - 1) := by
    simp
  rw [body_eq, hnot]
  simp only [Bool.false_eq_true, if_false]
  cases cb with
  | none =>
    refine ⟨rfl, ?_⟩
    refine ⟨?_, ?_, hit, h.maxiter, h.nanstop, ?_, ?_, ?_, ?_⟩
    · simp [recorded, stepped, h.world, worldAt, iterWorld, cbRun]
    · simp only [recorded, stepped, h.clock, stepTime_succ, cbTime_succ, cbTicks, hdt]
      omega
    · simp only [recorded, stepped, statsInsert, hrow, h.rows, List.range_succ, List.map_append,
        List.map_cons, List.map_nil, List.append_assoc]
    · simp [recorded, stepped, h.cblog]
    · simp [recorded, stepped, h.tlog]
    · simp only [recorded, stepped, stepTime_succ]
      have := hrun
      rw [← hdt]
      convert this using 1
      omega
  | some c =>
    -- the timer is stopped around the callback and restarted after it
    have hstop := hrun.stop hda
    rcases hts : (recorded E (stepped E d (i0 + n))).timerStop with ⟨d3, ok⟩
    have hts' := hts
    simp only [Drv.timerStop, recorded, stepped, Prod.mk.injEq] at hts'
    obtain ⟨hd3, hok⟩ := hts'
    rw [hstop.1] at hok
    subst hok
    simp only
    refine ⟨trivial, ?_⟩
    have hst : StoppedAt T0 d3.timer (e0 + stepTime E (some c) d0.world n + (d.clock + E.stepTicks d.world - d.clock)) := by
      rw [← hd3]; exact hstop.2
    have hd3w : d3.world = E.step d.world := by rw [← hd3]
    have hd3c : d3.clock = d.clock + E.stepTicks d.world := by rw [← hd3]
    have hd3i : d3.itnum = i0 + n := by rw [← hd3]
    have hcbt : cbTicks (some c) (afterStep E (some c) d0.world n) = c.ticks (E.step d.world) := by
      rw [hw]; rfl
    have hcbrec : (⟨i0 + n, E.step d.world, d.clock + E.stepTicks d.world,
        d.clock + E.stepTicks d.world + c.ticks (E.step d.world)⟩ : CbRec ω) =
        specCb E (some c) d0.world i0 d0.clock n := by
      simp only [specCb, cbTicks, h.clock, stepTime_succ, hdt, ← hw]
      congr 1 <;> omega
    refine ⟨?_, ?_, ?_, ?_, ?_, ?_, ?_, ?_, ?_⟩
    · simp [Drv.timerStart, called, hd3w, h.world, worldAt, iterWorld, cbRun]
    · simp only [Drv.timerStart, called, hd3w, hd3c, h.clock, stepTime_succ, cbTime_succ, cbTicks, hdt, hw]
      omega
    · simp only [Drv.timerStart, called, hd3i]; exact hit
    · simp only [Drv.timerStart, called]; rw [← hd3]; exact h.maxiter
    · simp only [Drv.timerStart, called]; rw [← hd3]; exact h.nanstop
    · simp only [Drv.timerStart, called]
      rw [← hd3]
      simp only [statsInsert, hrow, h.rows, List.range_succ, List.map_append,
        List.map_cons, List.map_nil, List.append_assoc]
    · simp only [Drv.timerStart, called, hd3w, hd3c, hd3i, hcbrec]
      rw [← hd3]
      simp [h.cblog, List.range_succ]
    · simp only [Drv.timerStart, called, hd3w, hd3c]
      rw [← hd3]
      have hb : ([⟨d.clock + E.stepTicks d.world, .stop, .none⟩,
          ⟨d.clock + E.stepTicks d.world + c.ticks (E.step d.world), .start, .none⟩] : List (Call L)) =
          specBracket E (some c) d0.world d0.clock n := by
        have he : (specCb E (some c) d0.world 0 d0.clock n).enter = d.clock + E.stepTicks d.world := by
          simp only [specCb, h.clock, stepTime_succ, hdt]; omega
        have hl : (specCb E (some c) d0.world 0 d0.clock n).leave =
            d.clock + E.stepTicks d.world + c.ticks (E.step d.world) := by
          simp only [specCb, hcbt, h.clock, stepTime_succ, hdt]; omega
        simp only [specBracket, he, hl]
      simp only [h.tlog, Option.isSome_some, if_true, List.range_succ, List.flatMap_append,
        List.flatMap_cons, List.flatMap_nil, List.append_nil, ← hb, List.append_assoc,
        List.cons_append, List.nil_append]
    · simp only [Drv.timerStart, called]
      rw [stepTime_succ, ← hdt]
      have hstart := hst.start (d3.clock + c.ticks d3.world)
      convert hstart using 1
      omega

/-! ### `n` clean iterations; the first tripping iteration -/

theorem loop_clean (E : Env ω ρ ξ α) (cb : Option (Callback ω)) (T0 : Timer L) (d0 : Drv ω ρ L)
    (i0 : Int) (e0 : Nat) (hda : T0.dflt ≠ T0.all) (hrun : RunningAt T0 d0.timer d0.clock e0) (n : Nat)
    (hclean : ∀ k < n, tripsB E d0.nanstop (afterStep E cb d0.world k) = false) :
    (loop E cb n i0 d0).2 = .ok ∧ LoopAt E cb T0 d0 i0 e0 n (loop E cb n i0 d0).1 := by
  induction n with
  | zero => exact ⟨rfl, loopAt_zero E cb T0 d0 i0 e0 hrun⟩
  | succ n ih =>
    obtain ⟨hok, hat⟩ := ih (fun k hk => hclean k (by omega))
    rw [loop_succ]
    rcases hl : loop E cb n i0 d0 with ⟨d', o⟩
    rw [hl] at hok hat
    simp only at hok hat
    subst hok
    exact body_clean E cb T0 d0 i0 e0 n d' hda hat (hclean n (by omega))

theorem loop_trip (E : Env ω ρ ξ α) (cb : Option (Callback ω)) (T0 : Timer L) (d0 : Drv ω ρ L)
    (i0 : Int) (e0 : Nat) (hda : T0.dflt ≠ T0.all) (hrun : RunningAt T0 d0.timer d0.clock e0)
    (j n : Nat) (hj : j < n)
    (hclean : ∀ k < j, tripsB E d0.nanstop (afterStep E cb d0.world k) = false)
    (htrip : tripsB E d0.nanstop (afterStep E cb d0.world j) = true) :
    ∃ dj, LoopAt E cb T0 d0 i0 e0 j dj ∧ loop E cb n i0 d0 = (stepped E dj (i0 + j), .nan) := by
  obtain ⟨hok, hat⟩ := loop_clean E cb T0 d0 i0 e0 hda hrun j hclean
  rcases hl : loop E cb j i0 d0 with ⟨dj, o⟩
  rw [hl] at hok hat
  simp only at hok hat
  subst hok
  refine ⟨dj, hat, ?_⟩
  obtain ⟨m, rfl⟩ : ∃ m, n = j + (m + 1) := ⟨n - j - 1, by omega⟩
  rw [loop_add, hl]
  simp only [loop]
  have hb : body E cb dj (i0 + j) = (stepped E dj (i0 + j), .nan) := by
    apply body_trip
    rw [hat.nanstop, hat.world]
    exact htrip
  rw [hb]

/-! ### `solve` -/

/-- state after a `solve()` that was not interrupted: `m = max(maxiter, 0)` iterations -/
structure SolveDone (E : Env ω ρ ξ α) (cb : Option (Callback ω)) (d r : Drv ω ρ L) : Prop where
  world : r.world = worldAt E cb d.world d.maxiter.toNat
  clock : r.clock = d.clock + stepTime E cb d.world d.maxiter.toNat + cbTime E cb d.world d.maxiter.toNat
  itnum : r.itnum = d.itnum + (d.maxiter.toNat : Int)
  maxiter : r.maxiter = d.maxiter
  nanstop : r.nanstop = d.nanstop
  rows : r.rows = d.rows ++
    (List.range d.maxiter.toNat).map (specRow E cb d.world d.itnum (d.timer.elapsedDefault true d.clock))
  cblog : r.cblog = d.cblog ++
    (if cb.isSome then (List.range d.maxiter.toNat).map (specCb E cb d.world d.itnum d.clock) else [])
  timer : StoppedAt (d.timer.start .none d.clock) r.timer
    (d.timer.elapsedDefault true d.clock + stepTime E cb d.world d.maxiter.toNat)
  tlog : r.tlog = d.tlog ++ [⟨d.clock, .start, .none⟩] ++
    (if cb.isSome then (List.range d.maxiter.toNat).flatMap (specBracket E cb d.world d.clock) else []) ++
    [⟨r.clock, .stop, .none⟩]

theorem solve_clean (E : Env ω ρ ξ α) (cb : Option (Callback ω)) (d : Drv ω ρ L)
    (hda : d.timer.dflt ≠ d.timer.all) (hwf : TimerWF d.timer d.clock)
    (hclean : ∀ k < d.maxiter.toNat, tripsB E d.nanstop (afterStep E cb d.world k) = false) :
    (solve E cb d).2 = .ok ∧ SolveDone E cb d (solve E cb d).1 := by
  have hrun := running_after_start d.timer d.clock hwf
  obtain ⟨hok, hat⟩ := loop_clean E cb (d.timer.start .none d.clock) d.timerStart d.itnum
    (d.timer.elapsedDefault true d.clock) hda hrun d.maxiter.toNat hclean
  unfold solve
  have hm0 : d.timerStart.maxiter = d.maxiter := rfl
  have hi0 : d.timerStart.itnum = d.itnum := rfl
  simp only [hm0, hi0]
  rcases hl : loop E cb d.maxiter.toNat d.itnum d.timerStart with ⟨d1, o⟩
  rw [hl] at hok hat
  simp only at hok hat
  subst hok
  simp only
  have hstop := hat.timer.stop hda
  rcases hts : d1.timerStop with ⟨d2, ok⟩
  have hts' := hts
  simp only [Drv.timerStop, Prod.mk.injEq] at hts'
  obtain ⟨hd2, hok2⟩ := hts'
  rw [hstop.1] at hok2
  subst hok2
  simp only
  refine ⟨trivial, ?_⟩
  have hd2m : d2.maxiter = d.maxiter := by rw [← hd2]; exact hat.maxiter
  have hitn : d1.itnum = if d.maxiter.toNat = 0 then d.itnum else d.itnum + ((d.maxiter.toNat : Int) - 1) :=
    hat.itnum
  by_cases hpos : d.maxiter > 0
  · simp only [hd2m, hpos, if_true]
    have hne : d.maxiter.toNat ≠ 0 := by omega
    refine ⟨?_, ?_, ?_, ?_, ?_, ?_, ?_, ?_, ?_⟩
    · rw [← hd2]; exact hat.world
    · rw [← hd2]; exact hat.clock
    · simp only; rw [← hd2]; simp only [hitn, hne, if_false]; omega
    · rfl
    · rw [← hd2]; exact hat.nanstop
    · rw [← hd2]; exact hat.rows
    · rw [← hd2]; exact hat.cblog
    · rw [← hd2]; exact hstop.2
    · rw [← hd2]; simp only [hat.tlog, Drv.timerStart, List.append_assoc]
  · simp only [hd2m, hpos, if_false]
    have hz : d.maxiter.toNat = 0 := by omega
    refine ⟨?_, ?_, ?_, ?_, ?_, ?_, ?_, ?_, ?_⟩
    · rw [← hd2]; exact hat.world
    · rw [← hd2]; exact hat.clock
    · rw [← hd2]; simp only [hitn, hz, if_true]; simp [Drv.timerStart]
    · exact hd2m
    · rw [← hd2]; exact hat.nanstop
    · rw [← hd2]; exact hat.rows
    · rw [← hd2]; exact hat.cblog
    · rw [← hd2]; exact hstop.2
    · rw [← hd2]; simp only [hat.tlog, Drv.timerStart, List.append_assoc]

/-- state after a `solve()` interrupted by the NaN stop in iteration `j` (0-based) -/
structure SolveTripped (E : Env ω ρ ξ α) (cb : Option (Callback ω)) (d r : Drv ω ρ L) (j : Nat) : Prop where
  world : r.world = afterStep E cb d.world j
  itnum : r.itnum = d.itnum + (j : Int)
  rows : r.rows = d.rows ++
    (List.range j).map (specRow E cb d.world d.itnum (d.timer.elapsedDefault true d.clock))
  cblog : r.cblog = d.cblog ++
    (if cb.isSome then (List.range j).map (specCb E cb d.world d.itnum d.clock) else [])
  clock : r.clock = d.clock + stepTime E cb d.world (j + 1) + cbTime E cb d.world j

theorem solve_trip (E : Env ω ρ ξ α) (cb : Option (Callback ω)) (d : Drv ω ρ L)
    (hda : d.timer.dflt ≠ d.timer.all) (hwf : TimerWF d.timer d.clock) (j : Nat)
    (hj : j < d.maxiter.toNat)
    (hclean : ∀ k < j, tripsB E d.nanstop (afterStep E cb d.world k) = false)
    (htrip : tripsB E d.nanstop (afterStep E cb d.world j) = true) :
    (solve E cb d).2 = .nan ∧ SolveTripped E cb d (solve E cb d).1 j := by
  have hrun := running_after_start d.timer d.clock hwf
  obtain ⟨dj, hat, hl⟩ := loop_trip E cb (d.timer.start .none d.clock) d.timerStart d.itnum
    (d.timer.elapsedDefault true d.clock) hda hrun j d.maxiter.toNat hj hclean htrip
  unfold solve
  have hm0 : d.timerStart.maxiter = d.maxiter := rfl
  have hi0 : d.timerStart.itnum = d.itnum := rfl
  simp only [hm0, hi0, hl]
  refine ⟨trivial, ?_, ?_, ?_, ?_, ?_⟩
  · simp only [stepped, hat.world]; rfl
  · simp [stepped]
  · simp only [stepped]; exact hat.rows
  · simp only [stepped]; exact hat.cblog
  · simp only [stepped, hat.clock, hat.world, stepTime_succ]
    simp only [Drv.timerStart]
    omega

/-! ### resumption -/

/-! projections of `setMaxiter` / `tick` -/
section
omit [DecidableEq L]
@[simp] theorem setMaxiter_world (d : Drv ω ρ L) (m : Int) : (d.setMaxiter m).world = d.world := rfl
@[simp] theorem setMaxiter_clock (d : Drv ω ρ L) (m : Int) : (d.setMaxiter m).clock = d.clock := rfl
@[simp] theorem setMaxiter_itnum (d : Drv ω ρ L) (m : Int) : (d.setMaxiter m).itnum = d.itnum := rfl
@[simp] theorem setMaxiter_nanstop (d : Drv ω ρ L) (m : Int) : (d.setMaxiter m).nanstop = d.nanstop := rfl
@[simp] theorem setMaxiter_timer (d : Drv ω ρ L) (m : Int) : (d.setMaxiter m).timer = d.timer := rfl
@[simp] theorem setMaxiter_rows (d : Drv ω ρ L) (m : Int) : (d.setMaxiter m).rows = d.rows := rfl
@[simp] theorem setMaxiter_cblog (d : Drv ω ρ L) (m : Int) : (d.setMaxiter m).cblog = d.cblog := rfl
@[simp] theorem setMaxiter_tlog (d : Drv ω ρ L) (m : Int) : (d.setMaxiter m).tlog = d.tlog := rfl
@[simp] theorem setMaxiter_maxiter (d : Drv ω ρ L) (m : Int) : (d.setMaxiter m).maxiter = m := rfl
@[simp] theorem tick_world (d : Drv ω ρ L) (g : Nat) : (d.tick g).world = d.world := rfl
@[simp] theorem tick_itnum (d : Drv ω ρ L) (g : Nat) : (d.tick g).itnum = d.itnum := rfl
@[simp] theorem tick_nanstop (d : Drv ω ρ L) (g : Nat) : (d.tick g).nanstop = d.nanstop := rfl
@[simp] theorem tick_timer (d : Drv ω ρ L) (g : Nat) : (d.tick g).timer = d.timer := rfl
@[simp] theorem tick_rows (d : Drv ω ρ L) (g : Nat) : (d.tick g).rows = d.rows := rfl
@[simp] theorem tick_cblog (d : Drv ω ρ L) (g : Nat) : (d.tick g).cblog = d.cblog := rfl
@[simp] theorem tick_tlog (d : Drv ω ρ L) (g : Nat) : (d.tick g).tlog = d.tlog := rfl
@[simp] theorem tick_maxiter (d : Drv ω ρ L) (g : Nat) : (d.tick g).maxiter = d.maxiter := rfl
@[simp] theorem tick_clock (d : Drv ω ρ L) (g : Nat) : (d.tick g).clock = d.clock + g := rfl
end

theorem StoppedAt.read {T0 T : Timer L} {e : Nat} (h : StoppedAt T0 T e) (c : Nat) :
    T.elapsedDefault true c = e := by
  obtain ⟨hd, _, hs⟩ := h
  simp [Timer.elapsedDefault, hs, hd, Store.get_set, elapsedEntry]

theorem StoppedAt.wf {T0 T : Timer L} {e : Nat} (h : StoppedAt T0 T e) (c : Nat) : TimerWF T c := by
  obtain ⟨hd, _, hs⟩ := h
  intro e' he' s hs'
  rw [hs, hd, Store.get_set] at he'
  simp only [if_true, Option.some.injEq] at he'
  subst he'
  simp at hs'

theorem specRow_shift (E : Env ω ρ ξ α) (cb : Option (Callback ω)) (w : ω) (i0 : Int) (e0 a k : Nat) :
    specRow E cb w i0 e0 (a + k) =
      specRow E cb (worldAt E cb w a) (i0 + a) (e0 + stepTime E cb w a) k := by
  simp only [specRow, afterStep_add]
  rw [show a + k + 1 = a + (k + 1) by omega, stepTime_add]
  congr 1 <;> omega

theorem specCb_shift (E : Env ω ρ ξ α) (cb : Option (Callback ω)) (w : ω) (i0 : Int) (c0 a k : Nat) :
    specCb E cb w i0 c0 (a + k) =
      specCb E cb (worldAt E cb w a) (i0 + a) (c0 + stepTime E cb w a + cbTime E cb w a) k := by
  simp only [specCb, afterStep_add]
  rw [show a + k + 1 = a + (k + 1) by omega, stepTime_add, cbTime_add]
  congr 1 <;> omega

omit [DecidableEq L] in
theorem timer_ext (T T' : Timer L) (h1 : T.store = T'.store) (h2 : T.dflt = T'.dflt)
    (h3 : T.all = T'.all) : T = T' := by
  cases T; cases T'; simp_all

/-- `solve()` with `m₁` iterations, any pause, `solve()` with `m₂` iterations — against one
    `solve()` with `m₁ + m₂` iterations -/
theorem solve_resume (E : Env ω ρ ξ α) (cb : Option (Callback ω)) (d : Drv ω ρ L) (m1 m2 g : Nat)
    (hda : d.timer.dflt ≠ d.timer.all) (hwf : TimerWF d.timer d.clock)
    (hclean : ∀ k < m1 + m2, tripsB E d.nanstop (afterStep E cb d.world k) = false) :
    let r1 := solve E cb (d.setMaxiter m1)
    let r2 := solve E cb ((r1.1.tick g).setMaxiter m2)
    let r := solve E cb (d.setMaxiter ((m1 + m2 : Nat) : Int))
    r1.2 = .ok ∧ r2.2 = .ok ∧ r.2 = .ok ∧ r2.1.world = r.1.world ∧ r2.1.itnum = r.1.itnum ∧
      r2.1.rows = r.1.rows ∧ r2.1.timer = r.1.timer ∧ r2.1.clock = r.1.clock + g ∧
      (g = 0 → r2.1.cblog = r.1.cblog) := by
  intro r1 r2 r
  have hr1 : solve E cb (d.setMaxiter m1) = r1 := rfl
  have hr2 : solve E cb ((r1.1.tick g).setMaxiter m2) = r2 := rfl
  have hr : solve E cb (d.setMaxiter ((m1 + m2 : Nat) : Int)) = r := rfl
  clear_value r r2 r1
  have t1 : (d.setMaxiter (m1 : Int)).maxiter.toNat = m1 := by simp
  have t12 : (d.setMaxiter ((m1 + m2 : Nat) : Int)).maxiter.toNat = m1 + m2 := by
    simp only [setMaxiter_maxiter, Int.toNat_natCast]
  obtain ⟨ok1, S1⟩ := solve_clean E cb (d.setMaxiter m1) hda hwf
    (by rw [t1]; intro k hk; exact hclean k (by omega))
  obtain ⟨ok, S⟩ := solve_clean E cb (d.setMaxiter ((m1 + m2 : Nat) : Int)) hda hwf
    (by rw [t12]; exact hclean)
  rw [hr1] at ok1 S1
  rw [hr] at ok S
  have S1w := S1.world; have S1c := S1.clock; have S1i := S1.itnum; have S1r := S1.rows
  have S1n := S1.nanstop; have S1t := S1.timer; have S1b := S1.cblog
  rw [t1] at S1w S1c S1i S1r S1t S1b
  simp only [setMaxiter_world, setMaxiter_clock, setMaxiter_itnum, setMaxiter_nanstop, setMaxiter_timer, setMaxiter_rows, setMaxiter_cblog, setMaxiter_tlog, setMaxiter_maxiter, tick_world, tick_itnum, tick_nanstop, tick_timer, tick_rows, tick_cblog, tick_tlog, tick_maxiter, tick_clock] at S1w S1c S1i S1r S1n S1t S1b
  -- the object before the second call
  have hda' : ((r1.1.tick g).setMaxiter m2).timer.dflt ≠ ((r1.1.tick g).setMaxiter m2).timer.all := by
    show r1.1.timer.dflt ≠ r1.1.timer.all
    rw [S1t.1, S1t.2.1]; exact hda
  have hwf' : TimerWF ((r1.1.tick g).setMaxiter m2).timer ((r1.1.tick g).setMaxiter m2).clock :=
    S1t.wf _
  have t2 : ((r1.1.tick g).setMaxiter (m2 : Int)).maxiter.toNat = m2 := by simp
  have hw' : ((r1.1.tick g).setMaxiter (m2 : Int)).world = worldAt E cb d.world m1 := S1w
  have hn' : ((r1.1.tick g).setMaxiter (m2 : Int)).nanstop = d.nanstop := S1n
  obtain ⟨ok2, S2⟩ := solve_clean E cb ((r1.1.tick g).setMaxiter m2) hda' hwf'
    (by rw [t2, hw', hn']; intro k hk; rw [← afterStep_add]; exact hclean (m1 + k) (by omega))
  rw [hr2] at ok2 S2
  have S2w := S2.world; have S2c := S2.clock; have S2i := S2.itnum; have S2r := S2.rows
  have S2t := S2.timer; have S2b := S2.cblog
  rw [t2] at S2w S2c S2i S2r S2t S2b
  rw [hw'] at S2w S2c S2r S2t S2b
  have he' : ((r1.1.tick g).setMaxiter (m2 : Int)).timer.elapsedDefault true
      ((r1.1.tick g).setMaxiter (m2 : Int)).clock =
      d.timer.elapsedDefault true d.clock + stepTime E cb d.world m1 := S1t.read _
  rw [he'] at S2r S2t
  simp only [setMaxiter_world, setMaxiter_clock, setMaxiter_itnum, setMaxiter_nanstop, setMaxiter_timer, setMaxiter_rows, setMaxiter_cblog, setMaxiter_tlog, setMaxiter_maxiter, tick_world, tick_itnum, tick_nanstop, tick_timer, tick_rows, tick_cblog, tick_tlog, tick_maxiter, tick_clock] at S2c S2i S2r S2t S2b
  have Sw := S.world; have Sc := S.clock; have Si := S.itnum; have Sr := S.rows
  have St := S.timer; have Sb := S.cblog
  rw [t12] at Sw Sc Si Sr St Sb
  simp only [setMaxiter_world, setMaxiter_clock, setMaxiter_itnum, setMaxiter_nanstop, setMaxiter_timer, setMaxiter_rows, setMaxiter_cblog, setMaxiter_tlog, setMaxiter_maxiter, tick_world, tick_itnum, tick_nanstop, tick_timer, tick_rows, tick_cblog, tick_tlog, tick_maxiter, tick_clock] at Sw Sc Si Sr St Sb
  refine ⟨ok1, ok2, ok, ?_, ?_, ?_, ?_, ?_, ?_⟩
  · rw [S2w, Sw, worldAt_add]
  · rw [S2i, Si, S1i]; push_cast; omega
  · rw [S2r, Sr, S1r, List.range_add, List.map_append, List.map_map, List.append_assoc]
    congr 2
    apply List.map_congr_left
    intro k _
    simp only [Function.comp]
    rw [specRow_shift, S1i]
  · apply timer_ext
    · rw [S2t.2.2, St.2.2, start_none_store, S1t.2.2, start_none_store]
      simp only [start_dflt, S1t.1, Store.set_set, stepTime_add]
      congr 2
      omega
    · rw [S2t.1, St.1]; simp [S1t.1]
    · rw [S2t.2.1, St.2.1]; simp [S1t.2.1]
  · rw [S2c, Sc, S1c, stepTime_add, cbTime_add]; omega
  · intro hg
    subst hg
    rw [S2b, Sb, S1b]
    cases cb with
    | none => simp
    | some c =>
      simp only [Option.isSome_some, if_true, List.range_add, List.map_append, List.map_map,
        List.append_assoc]
      congr 2
      apply List.map_congr_left
      intro k _
      simp only [Function.comp]
      rw [specCb_shift, S1i, S1c]
      simp


/-- resumption when the NaN stop trips during the second call: same exception, in the same
    (globally numbered) iteration, with the same state, counter and records as the single long run -/
theorem solve_resume_trip (E : Env ω ρ ξ α) (cb : Option (Callback ω)) (d : Drv ω ρ L) (m1 m2 g : Nat)
    (hda : d.timer.dflt ≠ d.timer.all) (hwf : TimerWF d.timer d.clock) (j : Nat)
    (hj1 : m1 ≤ j) (hj2 : j < m1 + m2)
    (hclean : ∀ k < j, tripsB E d.nanstop (afterStep E cb d.world k) = false)
    (htrip : tripsB E d.nanstop (afterStep E cb d.world j) = true) :
    let r1 := solve E cb (d.setMaxiter m1)
    let r2 := solve E cb ((r1.1.tick g).setMaxiter m2)
    let r := solve E cb (d.setMaxiter ((m1 + m2 : Nat) : Int))
    r1.2 = .ok ∧ r2.2 = .nan ∧ r.2 = .nan ∧ r2.1.world = r.1.world ∧ r2.1.itnum = r.1.itnum ∧
      r2.1.rows = r.1.rows ∧ r2.1.clock = r.1.clock + g := by
  intro r1 r2 r
  have hr1 : solve E cb (d.setMaxiter m1) = r1 := rfl
  have hr2 : solve E cb ((r1.1.tick g).setMaxiter m2) = r2 := rfl
  have hr : solve E cb (d.setMaxiter ((m1 + m2 : Nat) : Int)) = r := rfl
  clear_value r r2 r1
  obtain ⟨j', rfl⟩ : ∃ j', j = m1 + j' := ⟨j - m1, by omega⟩
  have t1 : (d.setMaxiter (m1 : Int)).maxiter.toNat = m1 := by simp
  have t12 : (d.setMaxiter ((m1 + m2 : Nat) : Int)).maxiter.toNat = m1 + m2 := by
    simp only [setMaxiter_maxiter, Int.toNat_natCast]
  obtain ⟨ok1, S1⟩ := solve_clean E cb (d.setMaxiter m1) hda hwf
    (by rw [t1]; intro k hk; exact hclean k (by omega))
  obtain ⟨o, S⟩ := solve_trip E cb (d.setMaxiter ((m1 + m2 : Nat) : Int)) hda hwf (m1 + j')
    (by rw [t12]; exact hj2) hclean htrip
  rw [hr1] at ok1 S1
  rw [hr] at o S
  have S1w := S1.world; have S1c := S1.clock; have S1i := S1.itnum; have S1r := S1.rows
  have S1n := S1.nanstop; have S1t := S1.timer
  rw [t1] at S1w S1c S1i S1r S1t
  simp only [setMaxiter_world, setMaxiter_clock, setMaxiter_itnum, setMaxiter_nanstop, setMaxiter_timer, setMaxiter_rows, setMaxiter_cblog, setMaxiter_tlog, setMaxiter_maxiter, tick_world, tick_itnum, tick_nanstop, tick_timer, tick_rows, tick_cblog, tick_tlog, tick_maxiter, tick_clock] at S1w S1c S1i S1r S1n S1t
  have hda' : ((r1.1.tick g).setMaxiter m2).timer.dflt ≠ ((r1.1.tick g).setMaxiter m2).timer.all := by
    show r1.1.timer.dflt ≠ r1.1.timer.all
    rw [S1t.1, S1t.2.1]; exact hda
  have hwf' : TimerWF ((r1.1.tick g).setMaxiter m2).timer ((r1.1.tick g).setMaxiter m2).clock :=
    S1t.wf _
  have t2 : ((r1.1.tick g).setMaxiter (m2 : Int)).maxiter.toNat = m2 := by simp
  have hw' : ((r1.1.tick g).setMaxiter (m2 : Int)).world = worldAt E cb d.world m1 := S1w
  have hn' : ((r1.1.tick g).setMaxiter (m2 : Int)).nanstop = d.nanstop := S1n
  obtain ⟨o2, S2⟩ := solve_trip E cb ((r1.1.tick g).setMaxiter m2) hda' hwf' j'
    (by rw [t2]; omega)
    (by rw [hw', hn']; intro k hk; rw [← afterStep_add]; exact hclean (m1 + k) (by omega))
    (by rw [hw', hn', ← afterStep_add]; exact htrip)
  rw [hr2] at o2 S2
  have S2w := S2.world; have S2c := S2.clock; have S2i := S2.itnum; have S2r := S2.rows
  rw [hw'] at S2w S2c S2r
  have he' : ((r1.1.tick g).setMaxiter (m2 : Int)).timer.elapsedDefault true
      ((r1.1.tick g).setMaxiter (m2 : Int)).clock =
      d.timer.elapsedDefault true d.clock + stepTime E cb d.world m1 := S1t.read _
  rw [he'] at S2r
  simp only [setMaxiter_world, setMaxiter_clock, setMaxiter_itnum, setMaxiter_nanstop, setMaxiter_timer, setMaxiter_rows, setMaxiter_cblog, setMaxiter_tlog, setMaxiter_maxiter, tick_world, tick_itnum, tick_nanstop, tick_timer, tick_rows, tick_cblog, tick_tlog, tick_maxiter, tick_clock] at S2c S2i S2r
  have Sw := S.world; have Sc := S.clock; have Si := S.itnum; have Sr := S.rows
  simp only [setMaxiter_world, setMaxiter_clock, setMaxiter_itnum, setMaxiter_nanstop, setMaxiter_timer, setMaxiter_rows, setMaxiter_cblog, setMaxiter_tlog, setMaxiter_maxiter, tick_world, tick_itnum, tick_nanstop, tick_timer, tick_rows, tick_cblog, tick_tlog, tick_maxiter, tick_clock] at Sw Sc Si Sr
  refine ⟨ok1, o2, o, ?_, ?_, ?_, ?_⟩
  · rw [S2w, Sw, afterStep_add]
  · rw [S2i, Si, S1i]; push_cast; omega
  · rw [S2r, Sr, S1r, List.range_add, List.map_append, List.map_map, List.append_assoc]
    congr 2
    apply List.map_congr_left
    intro k _
    simp only [Function.comp]
    rw [specRow_shift, S1i]
  · have h1 : stepTime E cb d.world (m1 + j' + 1) =
        stepTime E cb d.world m1 + stepTime E cb (worldAt E cb d.world m1) (j' + 1) := by
      rw [show m1 + j' + 1 = m1 + (j' + 1) by omega]; exact stepTime_add E cb d.world m1 (j' + 1)
    have h2 := cbTime_add E cb d.world m1 j'
    rw [S2c, Sc, S1c, h1, h2]; omega

/-! ### packaging for the property theorems -/

/-- what is assumed of the optimiser object when `solve` is called: its timer is the
    `Timer()` the constructor made (default label ≠ all-label), and a default timer that is still
    running (left so by an earlier NaN stop) was not started in the future -/
structure Ready (d : Drv ω ρ L) : Prop where
  labels : d.timer.dflt ≠ d.timer.all
  past : TimerWF d.timer d.clock

/-- no iteration of this `solve()` call trips the NaN stop -/
def NoTrip (E : Env ω ρ ξ α) (cb : Option (Callback ω)) (d : Drv ω ρ L) : Prop :=
  ∀ k < d.maxiter.toNat, ¬ tripsAt E cb d.world d.nanstop k

omit [DecidableEq L] in
theorem noTrip_tripsB {E : Env ω ρ ξ α} {cb : Option (Callback ω)} {d : Drv ω ρ L}
    (h : NoTrip E cb d) : ∀ k < d.maxiter.toNat, tripsB E d.nanstop (afterStep E cb d.world k) = false := by
  intro k hk
  have := h k hk
  rw [← tripsB_iff] at this
  simpa using this

theorem first_trip (p : Nat → Bool) (m : Nat) :
    (∀ k < m, p k = false) ∨ ∃ j < m, (∀ k < j, p k = false) ∧ p j = true := by
  induction m with
  | zero => left; intro k hk; omega
  | succ m ih =>
    rcases ih with h | ⟨j, hj, hc, ht⟩
    · cases hp : p m with
      | false =>
        left; intro k hk
        by_cases hkm : k = m
        · subst hkm; exact hp
        · exact h k (by omega)
      | true => right; exact ⟨m, by omega, h, hp⟩
    · right; exact ⟨j, by omega, hc, ht⟩

theorem ready_init (w : ω) (o : Options) (dflt all : L) (c : Nat) (h : dflt ≠ all) :
    Ready (Drv.init (ρ := ρ) w o dflt all c) := by
  refine ⟨h, ?_⟩
  intro e he
  simp [Drv.init, Timer.init, Store.get] at he

/-! ### sequences of `solve` calls -/

/-- `solver.maxiter = m; solver.solve(cb)` for each `(m, cb)` in turn -/
def runSolves (E : Env ω ρ ξ α) : List (Int × Option (Callback ω)) → Drv ω ρ L → Drv ω ρ L
  | [], d => d
  | c :: cs, d => runSolves E cs (solve E c.2 (d.setMaxiter c.1)).1

/-- none of the calls raises -/
def AllOk (E : Env ω ρ ξ α) : List (Int × Option (Callback ω)) → Drv ω ρ L → Prop
  | [], _ => True
  | c :: cs, d => (solve E c.2 (d.setMaxiter c.1)).2 = .ok ∧ AllOk E cs (solve E c.2 (d.setMaxiter c.1)).1

/-- total number of iterations requested -/
def totalIters (calls : List (Int × Option (Callback ω))) : Nat := (calls.map (fun c => c.1.toNat)).sum

theorem ready_after_solve (E : Env ω ρ ξ α) (cb : Option (Callback ω)) (d : Drv ω ρ L) (hr : Ready d)
    (S : SolveDone E cb d (solve E cb d).1) : Ready (solve E cb d).1 := by
  refine ⟨?_, S.timer.wf _⟩
  rw [S.timer.1, S.timer.2.1]
  exact hr.labels

theorem noTrip_of_ok (E : Env ω ρ ξ α) (cb : Option (Callback ω)) (d : Drv ω ρ L) (hr : Ready d)
    (hok : (solve E cb d).2 = .ok) :
    ∀ k < d.maxiter.toNat, tripsB E d.nanstop (afterStep E cb d.world k) = false := by
  rcases first_trip (fun k => tripsB E d.nanstop (afterStep E cb d.world k)) d.maxiter.toNat with
    h | ⟨j, hj, hc, ht⟩
  · exact h
  · obtain ⟨o, _⟩ := solve_trip E cb d hr.labels hr.past j hj hc ht
    rw [o] at hok
    cases hok

theorem runSolves_numbering (E : Env ω ρ ξ α) (calls : List (Int × Option (Callback ω)))
    (d : Drv ω ρ L) (hr : Ready d) (hok : AllOk E calls d) :
    (runSolves E calls d).itnum = d.itnum + (totalIters calls : Int) ∧
      (runSolves E calls d).rows.map (·.iter) =
        d.rows.map (·.iter) ++ (List.range (totalIters calls)).map (fun (k : Nat) => d.itnum + (k : Int)) ∧
      Ready (runSolves E calls d) := by
  induction calls generalizing d with
  | nil => simp [runSolves, totalIters, hr]
  | cons c cs ih =>
    obtain ⟨ok, rest⟩ := hok
    have hr1 : Ready (d.setMaxiter c.1) := ⟨hr.labels, hr.past⟩
    obtain ⟨_, S⟩ := solve_clean E c.2 (d.setMaxiter c.1) hr1.labels hr1.past
      (noTrip_of_ok E c.2 _ hr1 ok)
    have hr2 := ready_after_solve E c.2 _ hr1 S
    obtain ⟨hi, hrows, hrd⟩ := ih _ hr2 rest
    have Si := S.itnum
    have Sr := S.rows
    simp only [setMaxiter_maxiter, setMaxiter_itnum, setMaxiter_rows] at Si Sr
    have htot : totalIters (c :: cs) = c.1.toNat + totalIters cs := by simp [totalIters]
    refine ⟨?_, ?_, hrd⟩
    · simp only [runSolves]; rw [hi, Si, htot]; push_cast; omega
    · simp only [runSolves]
      rw [hrows, Sr, htot, List.range_add, List.map_append, List.map_append, List.map_map, List.map_map,
        List.append_assoc]
      congr 2
      apply List.map_congr_left
      intro k _
      simp only [Function.comp, Si]
      push_cast; omega

end Scico.Driver
