/-
  Block arrays nested inside other pytrees — and pytrees nested inside block arrays — (C13, rounds 2–3):
  jax's `tree_flatten` / `tree_unflatten` recursion over standard containers (tuple / list / dict:
  children kept as they are) and the registered `BlockArray` node (children rebuilt first, then the
  registered `_unflatten`: constructor when every child is an array, otherwise stored untouched).
-/
import Scico.Proofs.Block

namespace Scico.Block

variable {α δ : Type}

/-- when every child is an array, the children are exactly their leaf values -/
theorem all_childArr_eq (E : Env α δ) : ∀ (ts : List (PT α)), ts.all (childArr E) = true →
    ts = (leafVals ts).map PT.leaf ∧ ∀ a ∈ leafVals ts, E.isArr a = true
  | [], _ => ⟨rfl, by simp [leafVals]⟩
  | .leaf a :: cs, h => by
    simp only [List.all_cons, Bool.and_eq_true, childArr] at h
    obtain ⟨e, h2⟩ := all_childArr_eq E cs h.2
    refine ⟨by simp only [leafVals, List.map_cons]; rw [← e], ?_⟩
    intro x hx
    simp only [leafVals, List.mem_cons] at hx
    rcases hx with rfl | hx
    · exact h.1
    · exact h2 x hx
  | .tup _ :: cs, h => by simp [childArr] at h
  | .blk _ :: cs, h => by simp [childArr] at h

/-- the constructor on arrays returns them as they are (or rejects mixed dtypes) -/
theorem mkBlock_eq_of_arrays [DecidableEq δ] (E : Env α δ) {l b : List α}
    (harr : ∀ a ∈ l, E.isArr a = true) (h : mkBlock E l = .ok b) : b = l := by
  obtain ⟨hlen, _, hget⟩ := mkFrom_ok E h
  apply List.ext_getElem hlen
  intro i h1 h2
  obtain ⟨z, hz, hc⟩ := hget i h2 h1
  simp only [Except.ok.injEq] at hz
  subst hz
  rw [coerce_arr E (harr _ (List.getElem_mem h2))] at hc
  exact (Except.ok.inj hc).symm

/-- the registered `_unflatten` never changes its children -/
theorem unflattenNode_eq [DecidableEq δ] (E : Env α δ) {ts : List (PT α)} {t : PT α}
    (h : unflattenNode E ts = .ok t) : t = .blk ts := by
  unfold unflattenNode at h
  by_cases hall : ts.all (childArr E) = true
  · simp only [hall, if_true] at h
    obtain ⟨e, harr⟩ := all_childArr_eq E ts hall
    cases hm : mkBlock E (leafVals ts) with
    | error e' => simp [hm] at h
    | ok vs =>
      simp only [hm, Except.ok.injEq] at h
      rw [← h, mkBlock_eq_of_arrays E harr hm, ← e]
  · simp only [hall] at h
    exact (Except.ok.inj h).symm

/-- a block node the registered `_unflatten` accepts: some child is not an array (a placeholder, a
    nested block array, a tuple), or all are arrays of one dtype -/
def BlkOk (E : Env α δ) (ts : List (PT α)) : Prop :=
  ts.all (childArr E) = false ∨ WF E (leafVals ts)

theorem unflattenNode_ok [DecidableEq δ] (E : Env α δ) {ts : List (PT α)} (h : BlkOk E ts) :
    unflattenNode E ts = .ok (.blk ts) := by
  unfold unflattenNode
  rcases h with h | h
  · simp [h]
  · by_cases hall : ts.all (childArr E) = true
    · obtain ⟨e, _⟩ := all_childArr_eq E ts hall
      simp only [hall, if_true, mkBlock_wf E h]
      rw [← e]
    · simp [hall]

/-- the only way the registered `_unflatten` rejects: all children arrays, dtypes differ -/
theorem unflattenNode_error [DecidableEq δ] (E : Env α δ) {ts : List (PT α)} {e : Err}
    (h : unflattenNode E ts = .error e) :
    e = .dtype ∧ ts.all (childArr E) = true ∧ ¬ Homog E (leafVals ts) := by
  unfold unflattenNode at h
  by_cases hall : ts.all (childArr E) = true
  · simp only [hall, if_true] at h
    obtain ⟨_, harr⟩ := all_childArr_eq E ts hall
    by_cases hh : Homog E (leafVals ts)
    · rw [mkBlock_wf E ⟨harr, hh⟩] at h; cases h
    · have := mkFrom_hetero E (g := Except.ok) (h := id) (xs := leafVals ts) (fun _ _ => rfl) harr (by simpa using hh)
      simp only [mkBlock] at h
      rw [this] at h
      exact ⟨(Except.error.inj h).symm, hall, hh⟩
  · simp [hall] at h

mutual
/-- every block array node of the tree is acceptable -/
def PT.Ok (E : Env α δ) : PT α → Prop
  | .leaf _ => True
  | .tup cs => OkL E cs
  | .blk bs => OkL E bs ∧ BlkOk E bs
def OkL (E : Env α δ) : List (PT α) → Prop
  | [] => True
  | c :: cs => c.Ok E ∧ OkL E cs
end

mutual
/-- `tree_unflatten(tree_structure(t), tree_leaves(t)) = t`, also with further leaves behind -/
theorem unflat_leaves [DecidableEq δ] (E : Env α δ) : ∀ (t : PT α) (rest : List α), t.Ok E →
    unflat E t.struct (t.leaves ++ rest) = .ok (t, rest)
  | .leaf a, rest, _ => by simp [PT.struct, PT.leaves, unflat]
  | .tup cs, rest, h => by
    have := unflatL_leaves E cs rest (by simpa [PT.Ok] using h)
    simp [PT.struct, PT.leaves, unflat, this]
  | .blk bs, rest, h => by
    have h' : OkL E bs ∧ BlkOk E bs := by simpa [PT.Ok] using h
    have := unflatL_leaves E bs rest h'.1
    simp [PT.struct, PT.leaves, unflat, this, unflattenNode_ok E h'.2]
theorem unflatL_leaves [DecidableEq δ] (E : Env α δ) : ∀ (cs : List (PT α)) (rest : List α), OkL E cs →
    unflatL E (structL cs) (leavesL cs ++ rest) = .ok (cs, rest)
  | [], rest, _ => by simp [structL, leavesL, unflatL]
  | c :: cs, rest, h => by
    have h' : c.Ok E ∧ OkL E cs := by simpa [OkL] using h
    have h1 := unflat_leaves E c (leavesL cs ++ rest) h'.1
    have h2 := unflatL_leaves E cs rest h'.2
    simp [structL, leavesL, unflatL, List.append_assoc, h1, h2]
end

mutual
/-- whatever `tree_unflatten` returns has the requested structure and exactly the consumed leaves, in
    order and untouched — for ANY leaves (arrays, tracers, placeholder objects) -/
theorem unflat_sound [DecidableEq δ] (E : Env α δ) : ∀ (s : PT Unit) (l : List α) (t : PT α) (r : List α),
    unflat E s l = .ok (t, r) → t.struct = s ∧ t.leaves ++ r = l
  | .leaf u, l, t, r, h => by
    cases l with
    | nil => simp [unflat] at h
    | cons a rest =>
      simp only [unflat, Except.ok.injEq, Prod.mk.injEq] at h
      obtain ⟨rfl, rfl⟩ := h
      cases u
      simp [PT.struct, PT.leaves]
  | .tup cs, l, t, r, h => by
    simp only [unflat] at h
    cases hc : unflatL E cs l with
    | error e => simp [hc] at h
    | ok p =>
      obtain ⟨ts, r'⟩ := p
      simp only [hc, Except.ok.injEq, Prod.mk.injEq] at h
      obtain ⟨rfl, rfl⟩ := h
      obtain ⟨h1, h2⟩ := unflatL_sound E cs l ts r' hc
      simp [PT.struct, PT.leaves, h1, h2]
  | .blk us, l, t, r, h => by
    simp only [unflat] at h
    cases hc : unflatL E us l with
    | error e => simp [hc] at h
    | ok p =>
      obtain ⟨ts, r'⟩ := p
      simp only [hc] at h
      cases hn : unflattenNode E ts with
      | error e => simp [hn] at h
      | ok t' =>
        simp only [hn, Except.ok.injEq, Prod.mk.injEq] at h
        obtain ⟨rfl, rfl⟩ := h
        have := unflattenNode_eq E hn
        subst this
        obtain ⟨h1, h2⟩ := unflatL_sound E us l ts r' hc
        simp [PT.struct, PT.leaves, h1, h2]
theorem unflatL_sound [DecidableEq δ] (E : Env α δ) : ∀ (cs : List (PT Unit)) (l : List α)
    (ts : List (PT α)) (r : List α),
    unflatL E cs l = .ok (ts, r) → structL ts = cs ∧ leavesL ts ++ r = l
  | [], l, ts, r, h => by
    simp only [unflatL, Except.ok.injEq, Prod.mk.injEq] at h
    obtain ⟨rfl, rfl⟩ := h
    simp [structL, leavesL]
  | c :: cs, l, ts, r, h => by
    simp only [unflatL] at h
    cases hc : unflat E c l with
    | error e => simp [hc] at h
    | ok p =>
      obtain ⟨t, r1⟩ := p
      simp only [hc] at h
      cases hcs : unflatL E cs r1 with
      | error e => simp [hcs] at h
      | ok q =>
        obtain ⟨ts', r2⟩ := q
        simp only [hcs, Except.ok.injEq, Prod.mk.injEq] at h
        obtain ⟨rfl, rfl⟩ := h
        obtain ⟨a1, a2⟩ := unflat_sound E c l t r1 hc
        obtain ⟨b1, b2⟩ := unflatL_sound E cs r1 ts' r2 hcs
        simp only [structL, leavesL, a1, b1, List.append_assoc, b2, a2, and_self]
end

mutual
/-- the number of leaves is a function of the structure -/
theorem struct_leaves_length : ∀ (t : PT α), t.struct.leaves.length = t.leaves.length
  | .leaf _ => rfl
  | .tup cs => by simpa [PT.struct, PT.leaves] using structL_leaves_length cs
  | .blk bs => by simpa [PT.struct, PT.leaves] using structL_leaves_length bs
theorem structL_leaves_length : ∀ (cs : List (PT α)), (leavesL (structL cs)).length = (leavesL cs).length
  | [] => rfl
  | c :: cs => by simp [structL, leavesL, struct_leaves_length c, structL_leaves_length cs]
end

/-- `jax.tree_util.tree_map(f, t)`: flatten, apply `f` to every leaf, unflatten with the same treedef -/
def treeMap [DecidableEq δ] (E : Env α δ) (f : α → α) (t : PT α) : Res (PT α) :=
  match unflat E t.struct (t.leaves.map f) with
  | .error e => .error e
  | .ok (t', _) => .ok t'

theorem treeMap_sound [DecidableEq δ] (E : Env α δ) (f : α → α) (t t' : PT α)
    (h : treeMap E f t = .ok t') : t'.struct = t.struct ∧ t'.leaves = t.leaves.map f := by
  unfold treeMap at h
  cases hu : unflat E t.struct (t.leaves.map f) with
  | error e => simp [hu] at h
  | ok p =>
    obtain ⟨t1, r⟩ := p
    simp only [hu, Except.ok.injEq] at h
    subst h
    obtain ⟨h1, h2⟩ := unflat_sound E _ _ _ _ hu
    refine ⟨h1, ?_⟩
    have hl : t1.leaves.length = (t.leaves.map f).length := by
      rw [← struct_leaves_length t1, h1, struct_leaves_length t, List.length_map]
    have hr : r = [] := by
      have := congrArg List.length h2
      rw [List.length_append, hl] at this
      exact List.eq_nil_of_length_eq_zero (by omega)
    rw [hr, List.append_nil] at h2
    exact h2

end Scico.Block
