/-
  C15, further parts of `scico.util` / `scico.diagnostics` brought inside the model:
  `ContextTimer` (both actions), the table `Timer.__str__` prints, `IterationStats.history(transpose=True)`.
-/
import Scico.Proofs.DriverTimer

set_option linter.unusedSimpArgs false

namespace Scico.Driver
open Scico.Driver.Spec



variable {L : Type} [DecidableEq L]

/-! ### `ContextTimer` -/

/-- the label a `ContextTimer` acts on -/
def ctxLabel (T : Timer L) (label : Option L) : L := label.getD T.dflt

theorem start_ctx_get (T : Timer L) (label : Option L) (t : Nat) (l' : L) :
    (T.start (ctxArg label) t).store.get l' =
      if ctxLabel T label = l' then some (startEntry ((T.store.get l').getD Entry.fresh) t)
      else T.store.get l' := by
  cases label with
  | none =>
    simp only [Timer.start, ctxArg, Timer.startLabels, List.foldl_cons, List.foldl_nil, startOne_get, ctxLabel,
      Option.getD_none]
    by_cases h : T.dflt = l' <;> simp [h]
  | some l =>
    simp only [Timer.start, ctxArg, Timer.startLabels, List.foldl_cons, List.foldl_nil, startOne_get, ctxLabel,
      Option.getD_some]
    by_cases h : l = l' <;> simp [h]

theorem targets_ctx (T : Timer L) (label : Option L) (h : ctxLabel T label ≠ T.all) :
    T.targets (ctxArg label) = [ctxLabel T label] := by
  cases label with
  | none =>
    have h' : ¬ T.dflt = T.all := h
    simp only [Timer.targets, ctxArg, ctxLabel, Option.getD_none, if_neg h']
  | some l =>
    have h' : ¬ l = T.all := h
    simp only [Timer.targets, ctxArg, ctxLabel, Option.getD_some, if_neg h']

theorem stop_ctx (T : Timer L) (label : Option L) (t : Nat) (h : ctxLabel T label ≠ T.all) :
    T.stop (ctxArg label) t =
      match T.store.get (ctxLabel T label) with
      | none => (T, false)
      | some e => ({ T with store := T.store.set (ctxLabel T label) (stopEntry e t) }, true) := by
  simp only [Timer.stop, targets_ctx T label h, updList]
  cases T.store.get (ctxLabel T label) <;> rfl

/-- **`with ContextTimer(timer, label)`** (action `StartStop`, label not the `all` label): never
    raises; after the block the label is stopped and its total reading — at any later time — is its
    reading at entry plus the duration of the block, whether or not it was already running
    (a running timer is *stopped* by the exit: the context manager is not re-entrant). -/
theorem ctx_startStop (T : Timer L) (label : Option L) (t1 t2 : Nat) (_h12 : t1 ≤ t2)
    (hall : ctxLabel T label ≠ T.all)
    (hwf : ∀ e, T.store.get (ctxLabel T label) = some e → ∀ s, e.t0 = some s → s ≤ t1) :
    let T1 := (ctxEnter T label .startStop t1).1
    let r := ctxExit T1 label .startStop t2
    r.2 = true ∧
      ∀ now, r.1.elapsed (some (ctxLabel T label)) true now =
          some (((T.elapsed (some (ctxLabel T label)) true t1).getD 0) + (t2 - t1)) ∧
        r.1.elapsed (some (ctxLabel T label)) false now = some 0 := by
  intro T1 r
  have hT1 : T1 = T.start (ctxArg label) t1 := rfl
  have hl1 : ctxLabel T1 label = ctxLabel T label := by cases label <;> rfl
  have hall1 : ctxLabel T1 label ≠ T1.all := by rw [hl1]; exact hall
  have hg1 := start_ctx_get T label t1 (ctxLabel T label)
  simp only [if_true] at hg1
  have hr : r = T1.stop (ctxArg label) t2 := rfl
  rw [hr, stop_ctx T1 label t2 hall1, hl1, hT1, hg1]
  refine ⟨rfl, ?_⟩
  intro now
  simp only [Timer.elapsed, Store.get_set, if_true, Option.map_some]
  cases hget : T.store.get (ctxLabel T label) with
  | none =>
    simp [startEntry, stopEntry, Entry.fresh, elapsedEntry]
  | some e =>
    cases h0 : e.t0 with
    | none => simp [startEntry, stopEntry, elapsedEntry, h0]
    | some s =>
      have := hwf e hget s h0
      simp [startEntry, stopEntry, elapsedEntry, h0]
      omega

/-- **`with ContextTimer(timer, label, action="StopStart")`** on an existing label other than the
    `all` label: never raises; the duration of the block is excluded — at any time `now` after the
    exit the total reading is the reading at entry plus the time since the exit — and the label
    is running afterwards whether or not it was running before. -/
theorem ctx_stopStart (T : Timer L) (label : Option L) (t1 t2 : Nat)
    (hall : ctxLabel T label ≠ T.all) (e : Entry) (hex : T.store.get (ctxLabel T label) = some e)
    (hwf : ∀ s, e.t0 = some s → s ≤ t1) :
    let r1 := ctxEnter T label .stopStart t1
    let r := ctxExit r1.1 label .stopStart t2
    r1.2 = true ∧ r.2 = true ∧
      ∀ now, t2 ≤ now → r.1.elapsed (some (ctxLabel T label)) true now =
          some (((T.elapsed (some (ctxLabel T label)) true t1).getD 0) + (now - t2)) ∧
        r.1.elapsed (some (ctxLabel T label)) false now = some (now - t2) := by
  intro r1 r
  have hr1 : r1 = ({ T with store := T.store.set (ctxLabel T label) (stopEntry e t1) }, true) := by
    show T.stop (ctxArg label) t1 = _
    rw [stop_ctx T label t1 hall, hex]
  have hl1 : ctxLabel r1.1 label = ctxLabel T label := by rw [hr1]; cases label <;> rfl
  have hr : r = (r1.1.start (ctxArg label) t2, true) := rfl
  refine ⟨by rw [hr1], by rw [hr], ?_⟩
  intro now hnow
  have hg := start_ctx_get r1.1 label t2 (ctxLabel T label)
  rw [hl1] at hg
  simp only [if_true] at hg
  rw [hr]
  simp only [Timer.elapsed, hg, Option.map_some]
  rw [hr1]
  simp only [Store.get_set, if_true, Option.getD_some, hex, Option.map_some]
  cases h0 : e.t0 with
  | none => simp [startEntry, stopEntry, elapsedEntry, h0]; omega
  | some s =>
    have := hwf s h0
    simp [startEntry, stopEntry, elapsedEntry, h0]
    omega

/-- `StopStart` on a label that does not exist raises `KeyError` at entry (also for the default
    label of a fresh `Timer()`), leaving the timer unchanged -/
theorem ctx_stopStart_keyerror (T : Timer L) (label : Option L) (t1 : Nat)
    (hall : ctxLabel T label ≠ T.all) (hex : T.store.get (ctxLabel T label) = none) :
    ctxEnter T label .stopStart t1 = (T, false) := by
  show T.stop (ctxArg label) t1 = _
  rw [stop_ctx T label t1 hall, hex]

/-! ### `Timer.__str__` -/

omit [DecidableEq L] in
theorem mem_insertSorted (lt : L → L → Bool) (x y : L) (ls : List L) :
    y ∈ insertSorted lt x ls ↔ y = x ∨ y ∈ ls := by
  induction ls with
  | nil => simp [insertSorted]
  | cons z zs ih =>
    unfold insertSorted
    by_cases h : lt z x = true
    · simp only [h, if_true, List.mem_cons, ih]
      constructor
      · rintro (h1 | h1 | h1) <;> simp [h1]
      · rintro (h1 | h1 | h1) <;> simp [h1]
    · simp [h]

omit [DecidableEq L] in
theorem mem_sortLabels (lt : L → L → Bool) (y : L) (ls : List L) : y ∈ sortLabels lt ls ↔ y ∈ ls := by
  induction ls with
  | nil => simp [sortLabels]
  | cons x xs ih =>
    have : sortLabels lt (x :: xs) = insertSorted lt x (sortLabels lt xs) := rfl
    rw [this, mem_insertSorted, ih]
    simp

omit [DecidableEq L] in
theorem length_insertSorted (lt : L → L → Bool) (x : L) (ls : List L) :
    (insertSorted lt x ls).length = ls.length + 1 := by
  induction ls with
  | nil => rfl
  | cons z zs ih =>
    unfold insertSorted
    by_cases h : lt z x = true <;> simp [h, ih]

omit [DecidableEq L] in
theorem length_sortLabels (lt : L → L → Bool) (ls : List L) : (sortLabels lt ls).length = ls.length := by
  induction ls with
  | nil => rfl
  | cons x xs ih =>
    have : sortLabels lt (x :: xs) = insertSorted lt x (sortLabels lt xs) := rfl
    rw [this, length_insertSorted, ih]
    rfl

/-- sortedness for a total order given as a Boolean `lt` -/
def SortedBy (lt : L → L → Bool) (ls : List L) : Prop := ls.Pairwise (fun a b => lt b a = false)

omit [DecidableEq L] in
theorem sorted_insertSorted (lt : L → L → Bool)
    (htot : ∀ a b, lt a b = false → lt b a = false → a = b)
    (htrans : ∀ a b c, lt a b = true → lt b c = true → lt a c = true)
    (hirr : ∀ a, lt a a = false)
    (x : L) (ls : List L) (h : SortedBy lt ls) : SortedBy lt (insertSorted lt x ls) := by
  induction ls with
  | nil => simp [insertSorted, SortedBy]
  | cons z zs ih =>
    unfold SortedBy at h ih ⊢
    rw [List.pairwise_cons] at h
    obtain ⟨hz, hzs⟩ := h
    unfold insertSorted
    by_cases hc : lt z x = true
    · simp only [hc, if_true, List.pairwise_cons]
      refine ⟨?_, ih hzs⟩
      intro b hb
      rw [mem_insertSorted] at hb
      rcases hb with rfl | hb
      · -- lt b z = false since lt z b
        cases hbz : lt b z with
        | false => rfl
        | true => have := htrans _ _ _ hc hbz; rw [hirr] at this; cases this
      · exact hz b hb
    · have hc' : lt z x = false := by simpa using hc
      rw [if_neg hc, List.pairwise_cons]
      refine ⟨?_, List.pairwise_cons.mpr ⟨hz, hzs⟩⟩
      intro b hb
      rcases List.mem_cons.mp hb with rfl | hb
      · exact hc'
      · -- lt b x = false: otherwise lt b x, and (lt z b = false ∧ lt b z = false → z = b) or lt z b …
        cases hbx : lt b x with
        | false => rfl
        | true =>
          have hbz := hz b hb
          cases hzb : lt z b with
          | true => have := htrans _ _ _ hzb hbx; rw [hc'] at this; cases this
          | false => have := htot z b hzb hbz; subst this; rw [hc'] at hbx; cases hbx

omit [DecidableEq L] in
theorem sorted_sortLabels (lt : L → L → Bool)
    (htot : ∀ a b, lt a b = false → lt b a = false → a = b)
    (htrans : ∀ a b c, lt a b = true → lt b c = true → lt a c = true)
    (hirr : ∀ a, lt a a = false) (ls : List L) : SortedBy lt (sortLabels lt ls) := by
  induction ls with
  | nil => simp [sortLabels, SortedBy]
  | cons x xs ih => exact sorted_insertSorted lt htot htrans hirr x _ ih

/-- the rows of the printed table carry the labels of `sorted(self.t0)`, in that order -/
theorem strRows_labels (lt : L → L → Bool) (T : Timer L) (t : Nat) :
    (T.strRows lt t).map (·.label) = sortLabels lt T.store.keys := by
  unfold Timer.strRows
  have hall : ∀ l ∈ sortLabels lt T.store.keys, (T.store.get l).isSome = true := by
    intro l hl
    rw [mem_sortLabels] at hl
    exact (Store.mem_keys_iff _ _).mp hl
  generalize sortLabels lt T.store.keys = ks at hall
  induction ks with
  | nil => rfl
  | cons k ks ih =>
    have hk := hall k (by simp)
    obtain ⟨e, he⟩ := Option.isSome_iff_exists.mp hk
    simp only [List.filterMap_cons, he, Option.map_some, List.map_cons]
    rw [ih (fun l hl => hall l (by simp [hl]))]

/-- every row shows the entry of its label: accumulated time of the completed intervals, and the
    time since the pending start (`Stopped` iff none) -/
theorem strRows_entry (lt : L → L → Bool) (T : Timer L) (t : Nat) (r : StrRow L)
    (hr : r ∈ T.strRows lt t) :
    ∃ e, T.store.get r.label = some e ∧ r.accum = e.td ∧ r.current = e.t0.map (fun s => t - s) := by
  unfold Timer.strRows at hr
  rw [List.mem_filterMap] at hr
  obtain ⟨l, _, hl⟩ := hr
  cases hg : T.store.get l with
  | none => simp [hg] at hl
  | some e =>
    simp only [hg, Option.map_some, Option.some.injEq] at hl
    subst hl
    exact ⟨e, hg, rfl, rfl⟩


/-- **the printed table against the stop-watch**: after any history on any configuration, every
    row belongs to an existing label; `Accum.` plus `Current` is the ideal stop-watch's total;
    `Current` is the time since the first `start` of the trailing run of `start`s and reads
    `Stopped` iff there is none -/
theorem strRows_spec (lt : L → L → Bool) (c : Cfg L) (h : List (Call L)) (now : Nat)
    (hm : Monotone h now) (r : StrRow L)
    (hr : r ∈ ((Timer.init c.init c.dflt c.all).run h).strRows lt now) :
    known c h r.label = true ∧
      r.accum + r.current.getD 0 = specTotal (labelHistory c h r.label) now ∧
      r.current = (trailingStarts (labelHistory c h r.label)).head?.map (fun ev => now - ev.1) ∧
      r.current.getD 0 = specCurrent (labelHistory c h r.label) now := by
  have R : Represents c h ((Timer.init c.init c.dflt c.all).run h) := by
    simpa using represents_run [] h _ (represents_init c)
  obtain ⟨e, hg, ha, hc⟩ := strRows_entry lt _ now r hr
  rw [R.get r.label] at hg
  cases hk : known c h r.label with
  | false => simp [hk] at hg
  | true =>
    simp only [hk, if_true, Option.some.injEq] at hg
    have hsorted := labelHistoryFrom_sorted c r.label [] h hm.1
    have hle : ∀ ev ∈ labelHistory c h r.label, ev.1 ≤ now := by
      intro ev hev
      obtain ⟨k, hk', ht⟩ := labelHistoryFrom_times c r.label [] h ev hev
      rw [← ht]; exact hm.2 k hk'
    have hR := refines_machFold (labelHistory c h r.label) hsorted
    rw [hg] at hR
    have htot := hR.total now hle
    have h0 := hR.t0_eq
    refine ⟨rfl, ?_, ?_, ?_⟩
    · rw [htot, ha, hc, elapsedEntry_total]
      cases e.t0 <;> simp <;> omega
    · rw [hc, h0]
      cases (trailingStarts (labelHistory c h r.label)).head? <;> rfl
    · rw [hc, h0, specCurrent]
      cases (trailingStarts (labelHistory c h r.label)).head? <;> rfl

/-- every existing label has a row, and only those -/
theorem strRows_complete (lt : L → L → Bool) (c : Cfg L) (h : List (Call L)) (now : Nat) (l : L) :
    l ∈ (((Timer.init c.init c.dflt c.all).run h).strRows lt now).map (·.label) ↔ known c h l = true := by
  have R : Represents c h ((Timer.init c.init c.dflt c.all).run h) := by
    simpa using represents_run [] h _ (represents_init c)
  rw [strRows_labels, mem_sortLabels, Store.mem_keys_iff, isSome_of_represents R l]

/-! ### the keys of the dictionary are distinct -/

theorem Store.keys_set (s : Store L) (l : L) (e : Entry) :
    (s.set l e).keys = if l ∈ s.keys then s.keys else s.keys ++ [l] := by
  induction s with
  | nil => simp [Store.set, Store.keys]
  | cons p s ih =>
    obtain ⟨k, x⟩ := p
    by_cases hk : k = l
    · subst hk
      simp [Store.set, Store.keys]
    · have hlk : ¬ l = k := fun h => hk h.symm
      have ih' : List.map (fun x => x.1) (Store.set s l e) =
          if l ∈ List.map (fun x => x.1) s then List.map (fun x => x.1) s else List.map (fun x => x.1) s ++ [l] := ih
      simp only [Store.set, hk, if_false, Store.keys, List.map_cons, List.mem_cons, hlk, false_or, ih']
      by_cases hm : l ∈ List.map (fun x => x.1) s <;> simp [hm]

theorem Store.nodup_set (s : Store L) (l : L) (e : Entry) (h : s.keys.Nodup) : (s.set l e).keys.Nodup := by
  rw [Store.keys_set]
  by_cases hm : l ∈ s.keys
  · simpa [hm] using h
  · simp only [hm, if_false]
    rw [List.nodup_append]
    refine ⟨h, by simp, ?_⟩
    intro a ha b hb
    simp only [List.mem_singleton] at hb
    subst hb
    intro hab
    subst hab
    exact hm ha

omit [DecidableEq L] in
theorem nodup_foldl_set (f : Store L → L → Store L)
    (hf : ∀ s l, s.keys.Nodup → (f s l).keys.Nodup) (ls : List L) (s : Store L) (h : s.keys.Nodup) :
    (ls.foldl f s).keys.Nodup := by
  induction ls generalizing s with
  | nil => exact h
  | cons l ls ih => exact ih _ (hf s l h)

theorem nodup_startOne (s : Store L) (t : Nat) (l : L) (h : s.keys.Nodup) : (startOne s t l).keys.Nodup := by
  unfold startOne
  cases s.get l <;> exact Store.nodup_set _ _ _ h

theorem nodup_updList (f : Entry → Entry) (ls : List L) (s : Store L) (h : s.keys.Nodup) :
    (updList f s ls).1.keys.Nodup := by
  induction ls generalizing s with
  | nil => exact h
  | cons l ls ih =>
    unfold updList
    cases hg : s.get l with
    | none => exact h
    | some e => exact ih _ (Store.nodup_set _ _ _ h)

theorem nodup_init (labels : Arg L) (dflt all : L) : (Timer.init labels dflt all).store.keys.Nodup := by
  unfold Timer.init
  exact nodup_foldl_set _ (fun s l h => Store.nodup_set s l _ h) _ [] (by simp [Store.keys])

theorem nodup_apply (T : Timer L) (c : Call L) (h : T.store.keys.Nodup) : (T.apply c).1.store.keys.Nodup := by
  unfold Timer.apply
  cases c.op with
  | start => exact nodup_foldl_set _ (fun s l h => nodup_startOne s c.time l h) _ _ h
  | stop => exact nodup_updList _ _ _ h
  | reset => exact nodup_updList _ _ _ h

theorem nodup_run (T : Timer L) (hs : List (Call L)) (h : T.store.keys.Nodup) : (T.run hs).store.keys.Nodup := by
  induction hs generalizing T with
  | nil => exact h
  | cons c cs ih => exact ih _ (nodup_apply T c h)

omit [DecidableEq L] in
theorem nodup_insertSorted (lt : L → L → Bool) (x : L) (ls : List L) (h : ls.Nodup) (hx : x ∉ ls) :
    (insertSorted lt x ls).Nodup := by
  induction ls with
  | nil => simp [insertSorted]
  | cons y ys ih =>
    rw [List.nodup_cons] at h
    unfold insertSorted
    by_cases hc : lt y x = true
    · simp only [hc, if_true, List.nodup_cons]
      refine ⟨?_, ih h.2 (fun hm => hx (by simp [hm]))⟩
      rw [mem_insertSorted]
      rintro (rfl | hm)
      · exact hx (by simp)
      · exact h.1 hm
    · rw [if_neg hc, List.nodup_cons]
      exact ⟨hx, List.nodup_cons.mpr h⟩

omit [DecidableEq L] in
theorem nodup_sortLabels (lt : L → L → Bool) (ls : List L) (h : ls.Nodup) : (sortLabels lt ls).Nodup := by
  induction ls with
  | nil => simp [sortLabels]
  | cons x xs ih =>
    rw [List.nodup_cons] at h
    have : sortLabels lt (x :: xs) = insertSorted lt x (sortLabels lt xs) := rfl
    rw [this]
    exact nodup_insertSorted lt x _ (ih h.2) (fun hm => h.1 ((mem_sortLabels lt x xs).mp hm))

/-- no label appears twice in the printed table -/
theorem strRows_nodup (lt : L → L → Bool) (c : Cfg L) (h : List (Call L)) (now : Nat) :
    ((((Timer.init c.init c.dflt c.all).run h).strRows lt now).map (·.label)).Nodup := by
  rw [strRows_labels]
  exact nodup_sortLabels lt _ (nodup_run _ h (nodup_init _ _ _))


/-! ### `history(transpose=True)` -/

theorem historyTranspose_nil {β : Type} : historyTranspose ([] : List (List β)) = [] := rfl

/-- the transposed history has one list per field of the first record, each as long as the
    history, and entry `m` of list `n` is field `n` of record `m` -/
theorem historyTranspose_spec {β : Type} (r0 : List β) (rest : List (List β)) :
    (historyTranspose (r0 :: rest)).length = r0.length ∧
      (∀ col ∈ historyTranspose (r0 :: rest), col.length = (r0 :: rest).length) ∧
      ∀ (m n : Nat) (r : List β) (x : β), (r0 :: rest)[m]? = some r → r[n]? = some x → n < r0.length →
        ((historyTranspose (r0 :: rest))[n]?.bind (·[m]?)) = some (some x) := by
  refine ⟨by simp [historyTranspose], ?_, ?_⟩
  · intro col hc
    simp only [historyTranspose, List.mem_map, List.mem_range] at hc
    obtain ⟨n, _, rfl⟩ := hc
    simp [column]
  · intro m n r x hm hn hlt
    simp only [historyTranspose]
    rw [List.getElem?_map, List.getElem?_range hlt]
    simp only [Option.map_some, Option.bind_some, column, List.getElem?_map, hm, Option.map_some, hn]

/-! ### the options merge of `itstat_func_and_object` -/

section
variable {β : Type}

theorem dictGet_set (d : List (String × β)) (k k' : String) (v : β) :
    dictGet (dictSet d k v) k' = if k = k' then some v else dictGet d k' := by
  induction d with
  | nil => simp [dictSet, dictGet]
  | cons p r ih =>
    obtain ⟨a, x⟩ := p
    by_cases h : a = k
    · subst h
      by_cases h2 : a = k' <;> simp [dictSet, dictGet, h2]
    · by_cases h2 : a = k'
      · subst h2
        have : ¬ k = a := fun e => h e.symm
        simp [dictSet, dictGet, h, this]
      · simp [dictSet, dictGet, h, h2, ih]

/-- `update`: the caller's value wins, keys it does not have keep the default
    (`u` a dictionary: distinct keys) -/
theorem dictGet_update (d u : List (String × β)) (hu : (u.map (·.1)).Nodup) (k : String) :
    dictGet (dictUpdate d u) k = match dictGet u k with
      | some v => some v
      | none => dictGet d k := by
  induction u generalizing d with
  | nil => simp [dictUpdate, dictGet]
  | cons p r ih =>
    obtain ⟨a, x⟩ := p
    simp only [List.map_cons, List.nodup_cons] at hu
    have ih' := ih (dictSet d a x) hu.2
    simp only [dictUpdate, List.foldl_cons] at ih' ⊢
    rw [ih']
    by_cases h : a = k
    · subst h
      have hnone : dictGet r a = none := by
        have hn := hu.1
        clear ih ih' hu
        induction r with
        | nil => rfl
        | cons q r ihr =>
          obtain ⟨b, y⟩ := q
          simp only [List.map_cons, List.mem_cons, not_or] at hn
          have : ¬ b = a := fun e => hn.1 e.symm
          simp [dictGet, this, ihr hn.2]
      simp [dictGet, hnone, dictGet_set]
    · simp only [dictGet, h, if_false, dictGet_set]

theorem dictGet_filter_ne (d : List (String × β)) (k k' : String) (h : k' ≠ k) :
    dictGet (d.filter (fun p => p.1 != k)) k' = dictGet d k' := by
  induction d with
  | nil => rfl
  | cons p r ih =>
    obtain ⟨a, x⟩ := p
    by_cases h1 : a = k
    · subst h1
      have : ¬ a = k' := fun e => h e.symm
      have hb : (a != a) = false := by simp
      rw [List.filter_cons]
      simp only [hb, Bool.false_eq_true, if_false, ih, dictGet, this]
    · have hb : (a != k) = true := by simp [h1]
      rw [List.filter_cons]
      simp only [hb, if_true, dictGet, ih]

theorem dictGet_filter_self (d : List (String × β)) (k : String) :
    dictGet (d.filter (fun p => p.1 != k)) k = none := by
  induction d with
  | nil => rfl
  | cons p r ih =>
    obtain ⟨a, x⟩ := p
    by_cases h1 : a = k
    · subst h1
      have hb : (a != a) = false := by simp
      rw [List.filter_cons]
      simp only [hb, Bool.false_eq_true, if_false, ih]
    · have hb : (a != k) = true := by simp [h1]
      rw [List.filter_cons]
      simp only [hb, if_true, dictGet, h1, if_false, ih]

/-- the options a caller passes, as the code reads them: `None` and `{}` mean "defaults" -/
def userGet (user : Option (List (String × β))) (k : String) : Option β :=
  match user with
  | some u => dictGet u k
  | none => none

theorem itstatSetup_spec (fields func displayOff : β) (user : Option (List (String × β)))
    (hu : ∀ u, user = some u → (u.map (·.1)).Nodup) :
    (itstatSetup fields func displayOff user).userAfter = user ∧
    (itstatSetup fields func displayOff user).func = some ((userGet user "itstat_func").getD func) ∧
    dictGet (itstatSetup fields func displayOff user).kwargs "itstat_func" = none ∧
    dictGet (itstatSetup fields func displayOff user).kwargs "fields" = some ((userGet user "fields").getD fields) ∧
    dictGet (itstatSetup fields func displayOff user).kwargs "display" = some ((userGet user "display").getD displayOff) ∧
    ∀ k, k ≠ "itstat_func" → k ≠ "fields" → k ≠ "display" →
      dictGet (itstatSetup fields func displayOff user).kwargs k = userGet user k := by
  have hd : ∀ k, dictGet [("fields", fields), ("itstat_func", func), ("display", displayOff)] k =
      if "fields" = k then some fields else if "itstat_func" = k then some func
      else if "display" = k then some displayOff else none := by
    intro k; simp [dictGet]
  -- lookup in the merged dictionary
  have hm : ∀ k, dictGet (mergedOptions [("fields", fields), ("itstat_func", func), ("display", displayOff)] user) k =
      match userGet user k with
      | some v => some v
      | none => dictGet [("fields", fields), ("itstat_func", func), ("display", displayOff)] k := by
    intro k
    unfold mergedOptions
    cases user with
    | none => simp [userGet]
    | some u =>
      by_cases he : u.isEmpty = true
      · have : u = [] := by simpa using he
        subst this
        simp [userGet, dictGet]
      · have he' : u.isEmpty = false := by simpa using he
        simp only [he', Bool.false_eq_true, if_false, userGet]
        exact dictGet_update _ u (hu u rfl) k
  refine ⟨rfl, ?_, ?_, ?_, ?_, ?_⟩
  · simp only [itstatSetup, dictPop]
    rw [hm, hd]
    cases userGet user "itstat_func" <;> simp
  · simp only [itstatSetup, dictPop]
    exact dictGet_filter_self _ _
  · simp only [itstatSetup, dictPop]
    rw [dictGet_filter_ne _ _ _ (by decide), hm, hd]
    cases userGet user "fields" <;> simp
  · simp only [itstatSetup, dictPop]
    rw [dictGet_filter_ne _ _ _ (by decide), hm, hd]
    cases userGet user "display" <;> simp
  · intro k h1 h2 h3
    simp only [itstatSetup, dictPop]
    rw [dictGet_filter_ne _ _ _ h1, hm, hd]
    have a1 : ¬ "fields" = k := fun e => h2 e.symm
    have a2 : ¬ "itstat_func" = k := fun e => h1 e.symm
    have a3 : ¬ "display" = k := fun e => h3 e.symm
    cases userGet user k <;> simp [a1, a2, a3]

/-- any number of optimisers built from the same options object get the same setup, and the
    object is what it was -/
theorem itstatSetups_same (fields func displayOff : β) (n : Nat) (user : Option (List (String × β))) :
    (itstatSetups fields func displayOff n user).2 = user ∧
      ∀ s ∈ (itstatSetups fields func displayOff n user).1,
        s.func = (itstatSetup fields func displayOff user).func ∧
        s.kwargs = (itstatSetup fields func displayOff user).kwargs := by
  induction n with
  | zero => simp [itstatSetups]
  | succ n ih =>
    simp only [itstatSetups]
    have hu : (itstatSetup fields func displayOff user).userAfter = user := rfl
    rw [hu]
    refine ⟨ih.1, ?_⟩
    intro s hs
    rcases List.mem_cons.mp hs with rfl | hs
    · exact ⟨rfl, rfl⟩
    · exact ih.2 s hs

end

end Scico.Driver
