/-
  Adjoint engine: link between the dtype/shape layer and the value layer.  A typed derivation tree that scico's real
  construction tests accept (`wfT`: shapes as tuples, dtypes), erased to a value tree with the flags scico computes
  (`.T` branch from the declared dtype, replication strides from the shapes), passes the size checks `wf` of the value
  layer and has the declared flat sizes — so the induction `derived_isAdjW` applies to exactly the trees scico builds.
-/
import Scico.Proofs.AdjointTotal
import Scico.Proofs.AdjointDerived
namespace Scico.Adjoint
open TOp

/-- number of entries of an array of the given dims -/
def prodL : List Nat → Nat
  | [] => 1
  | d :: ds => d * prodL ds

/-- flat size of a shape (BlockArray: sum over the blocks) -/
def Shp.size : Shp → Nat
  | .arr d => prodL d
  | .blk bs => (bs.map prodL).sum
  | .het bs => (bs.map prodL).sum

theorem prodL_append (a b : List Nat) : prodL (a ++ b) = prodL a * prodL b := by
  induction a with
  | nil => simp [prodL]
  | cons x xs ih => simp [prodL, ih, Nat.mul_assoc]

theorem prodL_take_drop (n : Nat) (d : List Nat) : prodL (d.take n) * prodL (d.drop n) = prodL d := by
  rw [← prodL_append, List.take_append_drop]

theorem prodL_insAx (k ax : Nat) (d : List Nat) : prodL (insAx k ax d) = k * prodL d := by
  unfold insAx
  rw [prodL_append]
  show prodL (d.take ax) * (k * prodL (d.drop ax)) = k * prodL d
  rw [← prodL_take_drop ax d]
  ring

theorem collapsible_sum (d : List Nat) (rest : List (List Nat)) (h : rest.all (· == d) = true) :
    (rest.map prodL).sum = rest.length * prodL d := by
  induction rest with
  | nil => simp
  | cons r rs ih =>
    simp only [List.all_cons, Bool.and_eq_true, beq_iff_eq] at h
    simp [ih h.2, h.1, Nat.add_mul, Nat.add_comm]

theorem size_collapseShp (s : Shp) : (collapseShp s).size = s.size := by
  cases s with
  | arr d => rfl
  | blk bs =>
    cases bs with
    | nil => rfl
    | cons d rest =>
      simp only [collapseShp]
      by_cases hc : collapsible (d :: rest) = true
      · simp only [hc, if_true, Shp.size, prodL, List.map_cons, List.sum_cons]
        rw [collapsible_sum d rest (by simpa [collapsible] using hc)]
        ring
      · simp [hc]
  | het bs =>
    cases bs with
    | nil => rfl
    | cons d rest =>
      simp only [collapseShp]
      by_cases hc : collapsible (d :: rest) = true
      · simp only [hc, if_true, Shp.size, prodL, List.map_cons, List.sum_cons]
        rw [collapsible_sum d rest (by simpa [collapsible] using hc)]
        ring
      · simp [hc]

theorem size_collapseIf (c : Bool) (s : Shp) : (collapseIf c s).size = s.size := by
  cases c <;> simp [collapseIf, size_collapseShp]

/-! ### erasure of a typed tree to a value tree -/

variable {α : Type}

/-- `e` is a value-level derivation tree with the same constructions as the typed tree `t` (arbitrary scalar values;
    the `.T` flag, the replication strides and the size of an empty stack are the ones scico computes from the declared
    metadata) -/
inductive Erase (coded : Bool) (envT : Nat → TOp) : TExpr → Expr α → Prop where
  | leaf (i : Nat) : Erase coded envT (.leaf i) (.leaf i)
  | add {a b a' b'} : Erase coded envT a a' → Erase coded envT b b' → Erase coded envT (.add a b) (.add a' b')
  | sub {a b a' b'} : Erase coded envT a a' → Erase coded envT b b' → Erase coded envT (.sub a b) (.sub a' b')
  | neg {a a'} : Erase coded envT a a' → Erase coded envT (.neg a) (.neg a')
  | smul {a a'} (k : SK) (c : α) : Erase coded envT a a' → Erase coded envT (.smul k a) (.smul c a')
  | sdiv {a a'} (k : SK) (c : α) : Erase coded envT a a' → Erase coded envT (.sdiv k a) (.sdiv c a')
  | comp {a b a' b'} : Erase coded envT a a' → Erase coded envT b b' → Erase coded envT (.comp a b) (.comp a' b')
  | tr {a a'} : Erase coded envT a a' → Erase coded envT (.tr a) (.tr (runT coded envT a).idt.cplx a')
  | herm {a a'} : Erase coded envT a a' → Erase coded envT (.herm a) (.herm a')
  | cj {a a'} : Erase coded envT a a' → Erase coded envT (.cj a) (.cj a')
  | gram {a a'} : Erase coded envT a a' → Erase coded envT (.gram a) (.gram a')
  | vone {a a'} : Erase coded envT a a' → Erase coded envT (.vone a) (.vcons a' (.vnil (runT coded envT a).ish.size))
  | vcons {a s a' s'} : Erase coded envT a a' → Erase coded envT s s' → Erase coded envT (.vcons a s) (.vcons a' s')
  | vfin {s s'} : Erase coded envT s s' → Erase coded envT (.vfin s) s'
  | done {a a'} : Erase coded envT a a' → Erase coded envT (.done a) (.dcons a' .dnil)
  | dcons {a s a' s'} : Erase coded envT a a' → Erase coded envT s s' → Erase coded envT (.dcons a s) (.dcons a' s')
  | dfin {s s'} (ci co : Bool) : Erase coded envT s s' → Erase coded envT (.dfin ci co s) s'
  | drep {a a'} (k ia oa : Nat) : Erase coded envT a a' →
      Erase coded envT (.drep k ia oa a)
        (.drep k (prodL ((dimsOf (runT coded envT a).ish).drop ia)) (prodL ((dimsOf (runT coded envT a).osh).drop oa)) a')

/-- no empty arrays below a replication (scico's `vmap` over an empty operand is degenerate; `wf` wants positive strides) -/
def posOK (coded : Bool) (envT : Nat → TOp) : TExpr → Prop
  | .leaf _ => True
  | .add a b | .sub a b | .comp a b | .vcons a b | .dcons a b => posOK coded envT a ∧ posOK coded envT b
  | .neg a | .smul _ a | .sdiv _ a | .tr a | .herm a | .cj a | .gram a | .vone a | .vfin a | .done a | .dfin _ _ a =>
      posOK coded envT a
  | .drep _ _ _ a => posOK coded envT a ∧ 0 < (runT coded envT a).ish.size ∧ 0 < (runT coded envT a).osh.size

section link
variable {K : Type} [Field K] [StarRing K]

/-- the value environment has the sizes the typed environment declares -/
def SizesAgree (env : Nat → Op K) (envT : Nat → TOp) : Prop :=
  ∀ i, (env i).nin = (envT i).ish.size ∧ (env i).nout = (envT i).osh.size

structure Good (coded : Bool) (env : Nat → Op K) (envT : Nat → TOp) (t : TExpr) (e : Expr K) : Prop where
  wf : wf env e = true
  nin : (run env e).nin = (runT coded envT t).ish.size
  nout : (run env e).nout = (runT coded envT t).osh.size

theorem size_arr_of_isArr {s : Shp} (h : isArr s = true) : s.size = prodL (dimsOf s) := by
  cases s with
  | arr d => rfl
  | blk bs => simp [isArr] at h
  | het bs => simp [isArr] at h

theorem size_blk_of_eq {s : Shp} (h : s = .blk (blocksOf s)) : s.size = ((blocksOf s).map prodL).sum := by
  rw [h]; rfl

theorem erase_good (coded : Bool) (env : Nat → Op K) (envT : Nat → TOp) (hsz : SizesAgree env envT) :
    ∀ {t : TExpr} {e : Expr K}, Erase coded envT t e → wfT coded envT t = true → posOK coded envT t →
      Good coded env envT t e := by
  intro t e h
  induction h with
  | leaf i =>
    intro _ _
    exact ⟨rfl, (hsz i).1, (hsz i).2⟩
  | @add a b a' b' _ _ iha ihb =>
    intro hw hp
    simp only [wfT, Bool.and_eq_true, decide_eq_true_eq] at hw
    obtain ⟨⟨⟨wa, wb⟩, hi⟩, ho⟩ := hw
    have ga := iha wa hp.1
    have gb := ihb wb hp.2
    refine ⟨?_, ?_, ?_⟩
    · simp only [wf, Bool.and_eq_true, beq_iff_eq]
      exact ⟨⟨⟨ga.wf, gb.wf⟩, by rw [ga.nin, gb.nin, hi]⟩, by rw [ga.nout, gb.nout, ho]⟩
    · simpa [run, Op.add, runT, TOp.add] using ga.nin
    · simpa [run, Op.add, runT, TOp.add] using ga.nout
  | @sub a b a' b' _ _ iha ihb =>
    intro hw hp
    simp only [wfT, Bool.and_eq_true, decide_eq_true_eq] at hw
    obtain ⟨⟨⟨wa, wb⟩, hi⟩, ho⟩ := hw
    have ga := iha wa hp.1
    have gb := ihb wb hp.2
    refine ⟨?_, ?_, ?_⟩
    · simp only [wf, Bool.and_eq_true, beq_iff_eq]
      exact ⟨⟨⟨ga.wf, gb.wf⟩, by rw [ga.nin, gb.nin, hi]⟩, by rw [ga.nout, gb.nout, ho]⟩
    · simpa [run, Op.sub, runT, TOp.add] using ga.nin
    · simpa [run, Op.sub, runT, TOp.add] using ga.nout
  | @neg a a' _ ih =>
    intro hw hp
    have g := ih (by simpa [wfT] using hw) hp
    exact ⟨by simpa [wf] using g.wf, by simpa [run, Op.neg, Op.smul, runT, TOp.smul] using g.nin,
      by simpa [run, Op.neg, Op.smul, runT, TOp.smul] using g.nout⟩
  | @smul a a' k c _ ih =>
    intro hw hp
    have g := ih (by simpa [wfT] using hw) hp
    exact ⟨by simpa [wf] using g.wf, by simpa [run, Op.smul, runT, TOp.smul] using g.nin,
      by simpa [run, Op.smul, runT, TOp.smul] using g.nout⟩
  | @sdiv a a' k c _ ih =>
    intro hw hp
    have g := ih (by simpa [wfT] using hw) hp
    exact ⟨by simpa [wf] using g.wf, by simpa [run, Op.sdiv, runT, TOp.smul] using g.nin,
      by simpa [run, Op.sdiv, runT, TOp.smul] using g.nout⟩
  | @comp a b a' b' _ _ iha ihb =>
    intro hw hp
    simp only [wfT, Bool.and_eq_true, decide_eq_true_eq] at hw
    obtain ⟨⟨⟨wa, wb⟩, hs⟩, _⟩ := hw
    have ga := iha wa hp.1
    have gb := ihb wb hp.2
    refine ⟨?_, ?_, ?_⟩
    · simp only [wf, Bool.and_eq_true, beq_iff_eq]
      exact ⟨⟨ga.wf, gb.wf⟩, by rw [ga.nin, gb.nout, hs]⟩
    · simpa [run, Op.comp, runT, TOp.comp] using gb.nin
    · simpa [run, Op.comp, runT, TOp.comp] using ga.nout
  | @tr a a' _ ih =>
    intro hw hp
    have g := ih (by simpa [wfT] using hw) hp
    refine ⟨by simpa [wf] using g.wf, ?_, ?_⟩
    · have : (run env (Expr.tr (runT coded envT a).idt.cplx a')).nin = (run env a').nout := by
        simp only [run, Op.tr]; split <;> rfl
      rw [this, g.nout]
      cases coded <;> simp only [runT, TOp.tr, TOp.trCoded, TOp.herm, Bool.false_eq_true, if_false, if_true] <;> split <;> rfl
    · have : (run env (Expr.tr (runT coded envT a).idt.cplx a')).nout = (run env a').nin := by
        simp only [run, Op.tr]; split <;> rfl
      rw [this, g.nin]
      cases coded <;> simp only [runT, TOp.tr, TOp.trCoded, TOp.herm, Bool.false_eq_true, if_false, if_true] <;> split <;> rfl
  | @herm a a' _ ih =>
    intro hw hp
    have g := ih (by simpa [wfT] using hw) hp
    exact ⟨by simpa [wf] using g.wf, by simpa [run, Op.herm, runT, TOp.herm] using g.nout,
      by simpa [run, Op.herm, runT, TOp.herm] using g.nin⟩
  | @cj a a' _ ih =>
    intro hw hp
    have g := ih (by simpa [wfT] using hw) hp
    exact ⟨by simpa [wf] using g.wf, by simpa [run, Op.cj, runT, TOp.cj] using g.nin,
      by simpa [run, Op.cj, runT, TOp.cj] using g.nout⟩
  | @gram a a' _ ih =>
    intro hw hp
    have g := ih (by simpa [wfT] using hw) hp
    exact ⟨by simpa [wf] using g.wf, by simpa [run, Op.gram, runT, TOp.gram] using g.nin,
      by simpa [run, Op.gram, runT, TOp.gram] using g.nin⟩
  | @vone a a' _ ih =>
    intro hw hp
    simp only [wfT, Bool.and_eq_true] at hw
    have g := ih hw.1 hp
    refine ⟨?_, ?_, ?_⟩
    · simp only [wf, Bool.and_eq_true, beq_iff_eq, run, Op.vnil]
      exact ⟨⟨g.wf, trivial⟩, g.nin⟩
    · simpa [run, Op.vcons, runT, TOp.vone] using g.nin
    · simp only [run, Op.vcons, Op.vnil, runT, TOp.vone, Shp.size, List.map_cons, List.map_nil, List.sum_cons, List.sum_nil]
      rw [g.nout, size_arr_of_isArr hw.2]
  | @vcons a s a' s' _ _ iha ihs =>
    intro hw hp
    simp only [wfT, Bool.and_eq_true, decide_eq_true_eq] at hw
    obtain ⟨⟨⟨⟨⟨⟨wa, ws⟩, hc⟩, ho⟩, hi⟩, _⟩, _⟩ := hw
    have ga := iha wa hp.1
    have gs := ihs ws hp.2
    refine ⟨?_, ?_, ?_⟩
    · simp only [wf, Bool.and_eq_true, beq_iff_eq]
      exact ⟨⟨ga.wf, gs.wf⟩, by rw [ga.nin, gs.nin, hi]⟩
    · simpa [run, Op.vcons, runT, TOp.vcons] using ga.nin
    · simp only [run, Op.vcons, runT, TOp.vcons, Shp.size, List.map_cons, List.sum_cons]
      rw [ga.nout, gs.nout, size_arr_of_isArr ho, size_blk_of_eq (vchain_osh coded envT hc)]
  | @vfin s s' _ ih =>
    intro hw hp
    simp only [wfT, Bool.and_eq_true] at hw
    have g := ih hw.1 hp
    exact ⟨g.wf, by simpa [runT, TOp.vfin] using g.nin, by rw [g.nout]; simp [runT, TOp.vfin, size_collapseShp]⟩
  | @done a a' _ ih =>
    intro hw hp
    simp only [wfT, Bool.and_eq_true] at hw
    have g := ih hw.1.1 hp
    refine ⟨?_, ?_, ?_⟩
    · simp only [wf, Bool.and_eq_true]
      exact ⟨g.wf, trivial⟩
    · simp only [run, Op.dcons, Op.dnil, runT, TOp.done, Shp.size, List.map_cons, List.map_nil, List.sum_cons, List.sum_nil]
      rw [g.nin, size_arr_of_isArr hw.1.2]
    · simp only [run, Op.dcons, Op.dnil, runT, TOp.done, Shp.size, List.map_cons, List.map_nil, List.sum_cons, List.sum_nil]
      rw [g.nout, size_arr_of_isArr hw.2]
  | @dcons a s a' s' _ _ iha ihs =>
    intro hw hp
    simp only [wfT, Bool.and_eq_true, decide_eq_true_eq] at hw
    obtain ⟨⟨⟨⟨⟨⟨wa, ws⟩, hc⟩, hi⟩, ho⟩, _⟩, _⟩ := hw
    have ga := iha wa hp.1
    have gs := ihs ws hp.2
    refine ⟨?_, ?_, ?_⟩
    · simp only [wf, Bool.and_eq_true]
      exact ⟨ga.wf, gs.wf⟩
    · simp only [run, Op.dcons, runT, TOp.dcons, Shp.size, List.map_cons, List.sum_cons]
      rw [ga.nin, gs.nin, size_arr_of_isArr hi, size_blk_of_eq (dchain_shapes coded envT hc).1]
    · simp only [run, Op.dcons, runT, TOp.dcons, Shp.size, List.map_cons, List.sum_cons]
      rw [ga.nout, gs.nout, size_arr_of_isArr ho, size_blk_of_eq (dchain_shapes coded envT hc).2]
  | @dfin s s' ci co _ ih =>
    intro hw hp
    simp only [wfT, Bool.and_eq_true] at hw
    have g := ih hw.1 hp
    exact ⟨g.wf, by rw [g.nin]; simp [runT, TOp.dfin, size_collapseIf], by rw [g.nout]; simp [runT, TOp.dfin, size_collapseIf]⟩
  | @drep a a' k ia oa _ ih =>
    intro hw hp
    simp only [wfT, Bool.and_eq_true, decide_eq_true_eq] at hw
    obtain ⟨⟨⟨⟨⟨wa, hi⟩, ho⟩, _⟩, _⟩, hk⟩ := hw
    obtain ⟨hpa, hpi, hpo⟩ := hp
    have g := ih wa hpa
    have ei := size_arr_of_isArr hi
    have eo := size_arr_of_isArr ho
    have fi := prodL_take_drop ia (dimsOf (runT coded envT a).ish)
    have fo := prodL_take_drop oa (dimsOf (runT coded envT a).osh)
    have qi : 0 < prodL ((dimsOf (runT coded envT a).ish).drop ia) := by
      rw [ei, ← fi] at hpi
      exact Nat.pos_of_ne_zero (by intro h0; rw [h0, Nat.mul_zero] at hpi; exact Nat.lt_irrefl 0 hpi)
    have qo : 0 < prodL ((dimsOf (runT coded envT a).osh).drop oa) := by
      rw [eo, ← fo] at hpo
      exact Nat.pos_of_ne_zero (by intro h0; rw [h0, Nat.mul_zero] at hpo; exact Nat.lt_irrefl 0 hpo)
    refine ⟨?_, ?_, ?_⟩
    · simp only [wf, Bool.and_eq_true, beq_iff_eq, decide_eq_true_eq]
      refine ⟨⟨⟨⟨⟨g.wf, qi⟩, qo⟩, ?_⟩, ?_⟩, hk⟩
      · rw [g.nin, ei, ← fi]; exact Nat.mul_mod_left _ _
      · rw [g.nout, eo, ← fo]; exact Nat.mul_mod_left _ _
    · simp only [run, Op.drep, runT, TOp.drep, Shp.size]
      rw [g.nin, ei, prodL_insAx]
    · simp only [run, Op.drep, runT, TOp.drep, Shp.size]
      rw [g.nout, eo, prodL_insAx]

/-- a typed tree that scico accepts, erased to values: the value tree passes the size checks of `wf` (so the induction
    `derived_isAdjW` applies) and has the declared sizes -/
theorem typed_tree_isAdjW {ρ : K → K} (hρ : Test ρ) (coded : Bool) (env : Nat → Op K) (envT : Nat → TOp)
    (hsz : SizesAgree env envT) (henv : ∀ i, IsAdjW ρ (env i)) {t : TExpr} {e : Expr K} (he : Erase coded envT t e)
    (hw : wfT coded envT t = true) (hp : posOK coded envT t) (hd : divOK e) : IsAdjW ρ (run env e) :=
  derived_isAdjW hρ env henv e (erase_good coded env envT hsz he hw hp).wf hd

end link

end Scico.Adjoint
