/-
  `Diagonal @ Diagonal` with broadcasting BETWEEN the two diagonal arrays (plain shapes): the product
  `Diagonal(d_a * d_b, input_shape = b.input_shape)` denotes `D_a · D_b`.  Uses the composition law of
  the broadcast index maps (`OpAlgBidx`).  This removes the side condition `DiagProductPlain` for all
  plain (non-block) shapes.
-/
import Scico.Proofs.OpAlgDiag
import Scico.Proofs.OpAlgBidx

namespace Scico.OpAlg
open Scico.DType
attribute [local instance] starConj
set_option linter.unusedSectionVars false

/-! ### the calculus on un-reversed dimension lists -/

/-- `src` broadcasts to `out` -/
def BcS (src out : List Nat) : Prop := Bc src.reverse out.reverse

theorem bshape_BcS {a b r : List Nat} (h : bshape a b = some r) : BcS a r ∧ BcS b r := by
  unfold bshape at h
  cases hr : bshapeRev a.reverse b.reverse with
  | none => simp [hr] at h
  | some r' =>
    simp only [hr, Option.map_some, Option.some.injEq] at h
    subst h
    unfold BcS
    rw [List.reverse_reverse]
    exact bshapeRev_Bc hr

theorem BcS_trans {a b c : List Nat} (h1 : BcS a b) (h2 : BcS b c) : BcS a c := Bc_trans h1 h2

theorem bidx_lt {src out : List Nat} (k : Nat) (h : BcS src out) (hk : k < prodL out) :
    bidx out src k < prodL src := by
  unfold bidx
  have := bidxRev_lt k h (by rw [prodL_reverse]; exact hk)
  rwa [prodL_reverse] at this

theorem bidx_comp {src mid out : List Nat} (k : Nat) (h1 : BcS src mid) (h2 : BcS mid out)
    (hk : k < prodL out) : bidx mid src (bidx out mid k) = bidx out src k := by
  unfold bidx
  exact bidxRev_comp k h1 h2 (by rw [prodL_reverse]; exact hk)

theorem bshape_comm (a b : List Nat) : bshape a b = bshape b a := by
  unfold bshape; rw [bshapeRev_comm]

theorem bshape_assoc {x y z xy yz r1 r2 : List Nat} (h1 : bshape x y = some xy)
    (h2 : bshape xy z = some r1) (h3 : bshape y z = some yz) (h4 : bshape x yz = some r2) : r1 = r2 := by
  unfold bshape at h1 h2 h3 h4
  cases e1 : bshapeRev x.reverse y.reverse with
  | none => simp [e1] at h1
  | some xy' =>
    simp only [e1, Option.map_some, Option.some.injEq] at h1; subst h1
    cases e3 : bshapeRev y.reverse z.reverse with
    | none => simp [e3] at h3
    | some yz' =>
      simp only [e3, Option.map_some, Option.some.injEq] at h3; subst h3
      rw [List.reverse_reverse] at h2 h4
      cases e2 : bshapeRev xy' z.reverse with
      | none => simp [e2] at h2
      | some r1' =>
        simp only [e2, Option.map_some, Option.some.injEq] at h2; subst h2
        cases e4 : bshapeRev x.reverse yz' with
        | none => simp [e4] at h4
        | some r2' =>
          simp only [e4, Option.map_some, Option.some.injEq] at h4; subst h4
          rw [bshapeRev_assoc e1 e2 e3 e4]

theorem bshapeS_plain {a b : List Nat} {out : Shape} (h : bshapeS (.plain a) (.plain b) = .ok out) :
    ∃ r, out = .plain r ∧ bshape a b = some r := by
  simp only [bshapeS] at h
  cases hr : bshape a b with
  | none => simp [hr] at h
  | some r =>
    simp only [hr] at h
    injection h with h
    exact ⟨r, h.symm, rfl⟩

section
variable {K : Type} [Field K] [StarRing K] [HasRe K]

/-- the shapes of a member of the `Diagonal` family are plain (no block arrays) -/
def PlainObj (a : Obj K) : Prop := ∃ i d, a.md.inShape = .plain i ∧ a.diagonal.2.1 = .plain d

/-- **`Diagonal.__matmul__(Diagonal)`, general broadcasting, plain shapes** -/
theorem diagMatmul_sound_plain {a b o : Obj K} {Da Db : Mx K} (ha : Sound a Da) (hb : Sound b Db)
    (hca : IsDiagCls a.md.cls) (hbD : IsDiagCls b.md.cls) (hpa : PlainObj a) (hpb : PlainObj b)
    (h : diagMatmul Cfg.fixed a b = .ok o) :
    Sound o (matMul a.n Da Db) ∧ o.md.inShape = b.md.inShape ∧ o.md.outShape = a.md.outShape := by
  unfold diagMatmul at h
  have hbd : b.cls.isSub .diag = true := (isSub_diag_iff _).mpr hbD
  rw [if_pos hbd] at h
  simp only [show Cfg.fixed.diagKeep = true from rfl, if_true] at h
  split at h
  · rename_i hsh
    obtain ⟨hsa, hDa, _, hza⟩ := diagonal_spec ha hca
    obtain ⟨hsb, hDb, _, hzb⟩ := diagonal_spec hb hbD
    have hmA := ha.modeDat hca
    have hmB := hb.modeDat hbD
    obtain ⟨ia, dsa, hia, hdsa⟩ := hpa
    obtain ⟨ib, dsb, hib, hdsb⟩ := hpb
    rcases hda : a.diagonal with ⟨da, sa, ta⟩
    rcases hdb : b.diagonal with ⟨db, sb, tb⟩
    simp only [hda, hdb] at h hsa hDa hza hsb hDb hzb hdsa hdsb hmA hmB
    subst hdsa; subst hdsb
    rw [hia] at hsa
    rw [hib] at hsb
    obtain ⟨oa, hoa, hbsa⟩ := bshapeS_plain hsa
    obtain ⟨ob, hob, hbsb⟩ := bshapeS_plain hsb
    -- a.in = b.out
    have hiaob : ia = ob := by
      rw [hia, hob] at hsh; injection hsh
    subst hiaob
    -- the broadcast of the two diagonals
    cases hsh2 : bshapeS (Shape.plain dsa) (Shape.plain dsb) with
    | error e => simp [hsh2] at h
    | ok sh =>
      simp only [hsh2] at h
      obtain ⟨dsh, hdsh, hbsh⟩ := bshapeS_plain hsh2
      subst hdsh
      rw [rediag_fixed] at h
      obtain ⟨hS, _, hoi, _, hoo, _, _⟩ := mkDiag_sound _ _ _ _ _ _ h (by
        rcases hmA with h' | h'
        · exact Or.inl h'
        · exact Or.inr ⟨rt_complex_left h', rt_complex_left h'⟩)
      rw [hib] at hoo
      obtain ⟨oo, hooe, hbso⟩ := bshapeS_plain hoo
      -- associativity: the output shape is that of `a`
      have hoooa : oa = oo :=
        bshape_assoc hbsb hbsa (by rw [bshape_comm]; exact hbsh) hbso
      subst hoooa
      have hoout : o.md.outShape = a.md.outShape := by rw [hooe, hoa]
      have hoin : o.md.inShape = b.md.inShape := hoi
      -- broadcast relations
      obtain ⟨c_ib_ob, c_sb_ob⟩ := bshape_BcS hbsb
      obtain ⟨c_ob_oa, c_sa_oa⟩ := bshape_BcS hbsa
      obtain ⟨c_sa_sh, c_sb_sh⟩ := bshape_BcS hbsh
      obtain ⟨_, c_sh_oa⟩ := bshape_BcS hbso
      have ham : a.m = prodL oa := by simp only [Obj.m, hoa, Shape.size]
      have han : a.n = prodL ia := by simp only [Obj.n, hia, Shape.size]
      have hbm : b.m = prodL ia := by simp only [Obj.m, hob, Shape.size]
      have hbn : b.n = prodL ib := by simp only [Obj.n, hib, Shape.size]
      have hom : o.m = prodL oa := by simp only [Obj.m, hooe, Shape.size]
      have hon : o.n = prodL ib := by simp only [Obj.n, hoin, hib, Shape.size]
      refine ⟨hS.congr (fun i j hi' hj' => ?_), hoin, hoout⟩
      have hi_oa : i < prodL oa := by rw [← hom]; exact hi'
      have hj_ib : j < prodL ib := by rw [← hon]; exact hj'
      -- the column picked by the left factor
      have hk : bidx oa ia i < prodL ia := bidx_lt i c_ob_oa hi_oa
      -- right-hand side: D_a · D_b
      have hR : matMul a.n Da Db i j
          = da.get (bidx oa dsa i) * (if bidx ia ib (bidx oa ia i) = j then db.get (bidx ia dsb (bidx oa ia i)) else 0) := by
        unfold matMul
        have : ∀ l, l < a.n → Da i l * Db l j
            = if bidx oa ia i = l then da.get (bidx oa dsa i) * Db (bidx oa ia i) j else 0 := by
          intro l hl
          rw [hDa i l (by rw [ham]; exact hi_oa) hl]
          unfold diagMx
          rw [hoa, hia]
          simp only [bidxS]
          by_cases h1 : bidx oa ia i = l
          · subst h1; simp
          · simp [h1]
        rw [sumTo_congr this, sumTo_ite_eq' a.n (bidx oa ia i)
          (fun l => da.get (bidx oa dsa i) * Db (bidx oa ia i) j)]
        have hk' : bidx oa ia i < a.n := by rw [han]; exact hk
        simp only [hk', if_true]
        rw [hDb (bidx oa ia i) j (by rw [hbm]; exact hk) (by rw [hbn]; exact hj_ib)]
        unfold diagMx
        rw [hob, hib]
        simp only [bidxS]
        rfl
      rw [hR]
      unfold diagMx
      rw [hooe, hib]
      simp only [bidxS, trunc_get, Shape.size]
      rw [bidx_comp i c_ib_ob c_ob_oa hi_oa, bidx_comp i c_sb_ob c_ob_oa hi_oa]
      have ht : bidx oa dsh i < prodL dsh := bidx_lt i c_sh_oa hi_oa
      simp only [ht, if_true]
      rw [bidx_comp i c_sa_sh c_sh_oa hi_oa, bidx_comp i c_sb_sh c_sh_oa hi_oa]
      by_cases hj : bidx oa ib i = j
      · simp [hj]
      · simp [hj]
  · cases h

/-- the side condition that remains: at a `Diagonal @ Diagonal-family` product either all shapes are
    plain (any broadcasting allowed), or — for BlockArray shapes — the two diagonals have one shape and
    the right factor is square -/
def DiagProductOk (a b : Obj K) : Prop := (PlainObj a ∧ PlainObj b) ∨ DiagProductPlain a b

/-- `Diagonal.__matmul__`, both regimes -/
theorem diagMatmul_sound' {a b o : Obj K} {Da Db : Mx K} (ha : Sound a Da) (hb : Sound b Db)
    (hca : IsDiagCls a.md.cls) (h : diagMatmul Cfg.fixed a b = .ok o)
    (hR : IsDiagCls b.md.cls → DiagProductOk a b) :
    Sound o (matMul a.n Da Db) ∧ o.md.inShape = b.md.inShape ∧ o.md.outShape = a.md.outShape := by
  by_cases hbD : IsDiagCls b.md.cls
  · rcases hR hbD with ⟨h2, h3⟩ | h1
    · exact diagMatmul_sound_plain ha hb hca hbD h2 h3 h
    · exact diagMatmul_sound ha hb hca h (fun _ => h1)
  · exact diagMatmul_sound ha hb hca h (fun hb' => absurd hb' hbD)

end
end Scico.OpAlg
