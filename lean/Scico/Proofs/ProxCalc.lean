/-
  Lemmas about the executable model `Scico.Model.ProxCalc` (property C08): decision logic of
  the capability flags over the constructor tree, the smart constructors `c * f`, `f / c`,
  and the closed form of `SquaredL2Loss.prox` for diagonal (real or complex) `A`.
-/
import Scico.Model.ProxCalc
import Mathlib.Tactic.Ring
import Mathlib.Tactic.Linarith
import Mathlib.Tactic.FieldSimp
import Mathlib.Tactic.Positivity
import Mathlib.Algebra.Order.Field.Basic

namespace Scico.ProxCalc
open Scico Scico.FuncEval

section flags
variable {α : Type} [Add α] [Sub α] [Mul α] [Div α] [Neg α] [Zero α] [One α] [LT α] [DecidableLT α]
  [HasSqrt α]

/-- a result that is an exception -/
def Raises {β} (r : Except Err β) : Prop := ∃ e, r = .error e

theorem raises_bind {β γ} {r : Except Err β} (g : β → Except Err γ) (h : Raises r) : Raises (r >>= g) := by
  obtain ⟨e, rfl⟩ := h; exact ⟨e, rfl⟩

/-- every `ScaledFunctional` node has a positive scale (for a non-positive scale the flag is
    cleared although `prox` still forwards to the wrapped functional) -/
def ScaledPos : Fn α → Prop
  | .leaf _ => True
  | .scaled c f => 0 < c ∧ ScaledPos f
  | .sum f g => ScaledPos f ∧ ScaledPos g
  | .snil => True
  | .scons f r => ScaledPos f ∧ ScaledPos r
  | .lossNone _ _ _ => True
  | .loss _ _ f _ => ScaledPos f
  | .sqL2 _ _ _ _ => True

/-- **an unadvertised prox raises**: when `has_prox` is `False` (and the flag was not cleared
    because of a non-positive scale), `prox` raises for every argument -/
theorem prox_raises_of_not_hasProx (E : Env α) :
    ∀ (t : Fn α) (v : Arg α) (lam : α), hasProx E t = false → ScaledPos t → Raises (prox E t v lam) := by
  intro t
  induction t with
  | leaf i => intro v lam h _; simp only [hasProx] at h; exact ⟨.notimpl, by simp [prox, h]⟩
  | scaled c f ih =>
    intro v lam h hp
    simp only [hasProx, Bool.and_eq_false_iff, decide_eq_false_iff_not] at h
    rcases h with h | h
    · simpa [prox] using ih v (lam * c) h hp.2
    · exact absurd hp.1 h
  | sum f g _ _ => intro v lam _ _; exact ⟨.notimpl, rfl⟩
  | snil => intro v lam h; simp [hasProx] at h
  | scons f r ihf ihr =>
    intro v lam h hp
    simp only [hasProx, Bool.and_eq_false_iff] at h
    match v with
    | .arr _ => exact ⟨.value, rfl⟩
    | .blk [] => exact ⟨.value, rfl⟩
    | .blk (b :: bs) =>
      simp only [prox]
      rcases h with h | h
      · exact raises_bind _ (ihf (.arr b) lam h hp.1)
      · cases hq : prox E f (.arr b) lam with
        | error e => exact ⟨e, rfl⟩
        | ok p =>
          obtain ⟨e, he⟩ := ihr (.blk bs) lam h hp.2
          exact ⟨e, by simp [he, bind, Except.bind]⟩
  | lossNone y A s => intro v lam _ _; exact ⟨.notimpl, rfl⟩
  | loss y A f s ih =>
    intro v lam h _
    simp only [hasProx] at h
    exact ⟨.notimpl, by simp [prox, h]⟩
  | sqL2 y A w s =>
    intro v lam h _
    cases A with
    | nonlin i => exact ⟨.notimpl, rfl⟩
    | ident => simp [hasProx] at h
    | diag d => simp [hasProx] at h
    | lin i => simp [hasProx] at h

/-- **an unadvertised evaluation raises** -/
theorem eval_raises_of_not_hasEval (E : Env α) :
    ∀ (t : Fn α) (x : Arg α), hasEval E t = false → Raises (eval E t x) := by
  intro t
  induction t with
  | leaf i => intro x h; simp only [hasEval] at h; exact ⟨.notimpl, by simp [eval, h]⟩
  | scaled c f ih => intro x h; simp only [hasEval] at h; exact raises_bind _ (ih x h)
  | sum f g ihf ihg =>
    intro x h
    simp only [hasEval, Bool.and_eq_false_iff] at h
    simp only [eval]
    rcases h with h | h
    · exact raises_bind _ (ihf x h)
    · cases hp : eval E f x with
      | error e => exact ⟨e, rfl⟩
      | ok p =>
        obtain ⟨e, he⟩ := ihg x h
        exact ⟨e, by simp [he, bind, Except.bind]⟩
  | snil => intro x h; simp [hasEval] at h
  | scons f r ihf ihr =>
    intro x h
    simp only [hasEval, Bool.and_eq_false_iff] at h
    match x with
    | .arr _ => exact ⟨.value, rfl⟩
    | .blk [] => exact ⟨.value, rfl⟩
    | .blk (b :: bs) =>
      simp only [eval]
      rcases h with h | h
      · exact raises_bind _ (ihf (.arr b) h)
      · cases hp : eval E f (.arr b) with
        | error e => exact ⟨e, rfl⟩
        | ok p =>
          obtain ⟨e, he⟩ := ihr (.blk bs) h
          exact ⟨e, by simp [he, bind, Except.bind]⟩
  | lossNone y A s => intro x _; exact ⟨.notimpl, rfl⟩
  | loss y A f s ih =>
    intro x h
    simp only [hasEval] at h
    simp only [eval]
    cases hd : Arg.sub (E.applyOpt A x) y with
    | error e => exact ⟨e, rfl⟩
    | ok d =>
      obtain ⟨e, he⟩ := ih d h
      exact ⟨e, by simp [he, bind, Except.bind]⟩
  | sqL2 y A w s => intro x h; simp [hasEval] at h

/-! the rule of the tree *before* the repairs 1a0aadd / 689de28 (kept to document the two findings) -/

/-- `has_eval` before 1a0aadd: every `Loss` declared `True` -/
def hasEvalOld (E : Env α) : Fn α → Bool
  | .leaf i => E.hasEval i
  | .scaled _ f => hasEvalOld E f
  | .sum f g => hasEvalOld E f && hasEvalOld E g
  | .snil => true
  | .scons f r => hasEvalOld E f && hasEvalOld E r
  | .lossNone _ _ _ => true
  | .loss _ _ _ _ => true
  | .sqL2 _ _ _ _ => true

/-- `has_prox` before 1a0aadd / 689de28: `Loss` looked at `A` only, `ScaledFunctional` ignored the sign -/
def hasProxOld (E : Env α) : Fn α → Bool
  | .leaf i => E.hasProx i
  | .scaled _ f => hasProxOld E f
  | .sum _ _ => false
  | .snil => true
  | .scons f r => hasProxOld E f && hasProxOld E r
  | .lossNone _ _ _ => false
  | .loss _ A _ _ => A.isNone
  | .sqL2 _ A _ _ => match A with
    | .nonlin _ => false
    | _ => true

/-- the repaired flags are never more generous than the old ones -/
theorem hasProxOld_of_hasProx (E : Env α) : ∀ t : Fn α, hasProx E t = true → hasProxOld E t = true := by
  intro t
  induction t with
  | leaf i => exact id
  | scaled c f ih => intro h; simp only [hasProx, Bool.and_eq_true] at h; exact ih h.1
  | sum f g _ _ => intro h; simp [hasProx] at h
  | snil => intro _; rfl
  | scons f r ihf ihr =>
    intro h; simp only [hasProx, Bool.and_eq_true] at h
    simp only [hasProxOld, Bool.and_eq_true]; exact ⟨ihf h.1, ihr h.2⟩
  | lossNone y A s => intro h; simp [hasProx] at h
  | loss y A f s ih => intro h; simp only [hasProx, Bool.and_eq_true] at h; exact h.1
  | sqL2 y A w s => exact id

theorem hasEvalOld_of_hasEval (E : Env α) : ∀ t : Fn α, hasEval E t = true → hasEvalOld E t = true := by
  intro t
  induction t with
  | leaf i => exact id
  | scaled c f ih => exact ih
  | sum f g ihf ihg =>
    intro h; simp only [hasEval, Bool.and_eq_true] at h
    simp only [hasEvalOld, Bool.and_eq_true]; exact ⟨ihf h.1, ihg h.2⟩
  | snil => intro _; rfl
  | scons f r ihf ihr =>
    intro h; simp only [hasEval, Bool.and_eq_true] at h
    simp only [hasEvalOld, Bool.and_eq_true]; exact ⟨ihf h.1, ihr h.2⟩
  | lossNone y A s => intro h; simp [hasEval] at h
  | loss y A f s ih => intro _; rfl
  | sqL2 y A w s => exact id

end flags

/-! ### `c * f` and `f / c` denote the scaled functional -/
section mul
variable {K : Type} [Field K] [LinearOrder K] [IsStrictOrderedRing K] [HasSqrt K]

theorem eval_mul (E : Env K) (t : Fn K) (c : K) (x : Arg K) :
    eval E (t.mul c) x = (eval E t x).map (c * ·) := by
  cases t with
  | scaled s f =>
    simp only [Fn.mul, eval]
    cases eval E f x with
    | error e => rfl
    | ok r => simp [bind, Except.bind, Except.map, pure, Except.pure, mul_assoc]
  | lossNone y A s => rfl
  | loss y A f s =>
    simp only [Fn.mul, eval]
    cases Arg.sub (E.applyOpt A x) y with
    | error e => rfl
    | ok d =>
      simp only [bind, Except.bind]
      cases eval E f d with
      | error e => rfl
      | ok r =>
        simp only [Except.map, pure, Except.pure]
        congr 1; ring
  | sqL2 y A w s =>
    simp only [Fn.mul, eval]
    cases OpK.apply E A x with
    | error e => rfl
    | ok ax =>
      simp only [bind, Except.bind]
      cases Arg.sub y ax with
      | error e => rfl
      | ok d =>
        simp only [Except.map, pure, Except.pure]
        congr 1; ring
  | leaf i =>
    simp only [Fn.mul, eval]
    split <;> rfl
  | sum f g => simp only [Fn.mul, eval]; rfl
  | snil => simp only [Fn.mul, eval]; rfl
  | scons f r => simp only [Fn.mul, eval]; rfl

/-- `(c * f).prox(v, lam) = f.prox(v, lam * c)` for every shape of `f` (plain, already scaled, loss) -/
theorem prox_mul (E : Env K) (t : Fn K) (c : K) (v : Arg K) (lam : K) :
    prox E (t.mul c) v lam = prox E t v (lam * c) ∨
      (∃ y A w s, t = .sqL2 y A w s) := by
  cases t with
  | scaled s f => left; simp only [Fn.mul, prox]; congr 1; ring
  | lossNone y A s => left; rfl
  | loss y A f s =>
    left
    simp only [Fn.mul, prox]
    have : s * c * lam = s * (lam * c) := by ring
    rw [this]
  | sqL2 y A w s => right; exact ⟨y, A, w, s, rfl⟩
  | leaf i => left; rfl
  | sum f g => left; rfl
  | snil => left; rfl
  | scons f r => left; rfl

end mul

/-! ### closed form of `SquaredL2Loss.prox` for a diagonal `A`, entry by entry

For one entry with complex data `a = (ar, ai)`, `y`, `v`, real weight `w ≥ 0`, `c = 2·scale·lam ≥ 0`
the code returns `x = (c·conj(a)·w·y + v) / (c·w·|a|² + 1)`. -/
section diag
variable {K : Type} [Field K] [LinearOrder K] [IsStrictOrderedRing K]

/-- one complex entry of the closed form: real and imaginary part -/
def diagEntry (c w ar ai yr yi vr vi : K) : K × K :=
  ((c * (ar * (w * yr) + ai * (w * yi)) + vr) / (c * (w * (ar * ar + ai * ai)) + 1),
   (c * (ar * (w * yi) - ai * (w * yr)) + vi) / (c * (w * (ar * ar + ai * ai)) + 1))

/-- entrywise objective `(c/2)·w·|a x − y|² + ½|x − v|²`  (`= lam·scale·w|ax−y|² + ½|x−v|²`) -/
def entryObj (c w ar ai yr yi vr vi xr xi : K) : K :=
  (c / 2) * (w * ((ar * xr - ai * xi - yr) ^ 2 + (ar * xi + ai * xr - yi) ^ 2))
    + (1 / 2) * ((xr - vr) ^ 2 + (xi - vi) ^ 2)

theorem diag_den_pos {c w : K} (hc : 0 ≤ c) (hw : 0 ≤ w) (ar ai : K) :
    0 < c * (w * (ar * ar + ai * ai)) + 1 := by
  have : 0 ≤ ar * ar + ai * ai := by nlinarith [mul_self_nonneg ar, mul_self_nonneg ai]
  have := mul_nonneg hc (mul_nonneg hw this)
  linarith

/-- the entry solves the (complex, scalar) normal equation
    `(1 + c·conj(a)·w·a) x = v + c·conj(a)·w·y`, real and imaginary parts -/
theorem diagEntry_solves {c w : K} (hc : 0 ≤ c) (hw : 0 ≤ w) (ar ai yr yi vr vi : K) :
    let x := diagEntry c w ar ai yr yi vr vi
    (1 + c * (w * (ar * ar + ai * ai))) * x.1 = vr + c * (ar * (w * yr) + ai * (w * yi)) ∧
    (1 + c * (w * (ar * ar + ai * ai))) * x.2 = vi + c * (ar * (w * yi) - ai * (w * yr)) := by
  have hd := (diag_den_pos hc hw ar ai).ne'
  simp only [diagEntry]
  constructor <;> field_simp <;> ring

/-- completing the square: the entry is the unique minimiser of the entrywise objective -/
theorem entryObj_expand {c w : K} (hc : 0 ≤ c) (hw : 0 ≤ w) (ar ai yr yi vr vi xr xi : K) :
    let p := diagEntry c w ar ai yr yi vr vi
    entryObj c w ar ai yr yi vr vi xr xi = entryObj c w ar ai yr yi vr vi p.1 p.2
      + (1 / 2) * (c * (w * (ar * ar + ai * ai)) + 1) * ((xr - p.1) ^ 2 + (xi - p.2) ^ 2) := by
  have hd := (diag_den_pos hc hw ar ai).ne'
  simp only [diagEntry, entryObj]
  field_simp
  ring

theorem diagEntry_minimises {c w : K} (hc : 0 ≤ c) (hw : 0 ≤ w) (ar ai yr yi vr vi xr xi : K) :
    let p := diagEntry c w ar ai yr yi vr vi
    entryObj c w ar ai yr yi vr vi p.1 p.2 ≤ entryObj c w ar ai yr yi vr vi xr xi := by
  intro p
  have h := entryObj_expand hc hw ar ai yr yi vr vi xr xi
  simp only at h
  rw [h]
  have h1 := diag_den_pos hc hw ar ai
  have h2 : 0 ≤ (xr - p.1) ^ 2 + (xi - p.2) ^ 2 := by positivity
  have : 0 ≤ (1 / 2) * (c * (w * (ar * ar + ai * ai)) + 1) * ((xr - p.1) ^ 2 + (xi - p.2) ^ 2) := by
    positivity
  linarith

end diag

/-! the list-level closed form of the model *is* the entry formula, entry by entry -/
section diagmodel
variable {K : Type} [Field K] [LinearOrder K] [IsStrictOrderedRing K]

/-- complex case, one entry: `sqL2DiagProx` on interleaved data of a single entry -/
theorem sqL2DiagProx_entry_cplx (scale lam w ar ai yr yi vr vi : K) :
    sqL2DiagProx true scale lam (some [w]) [ar, ai] [yr, yi] [vr, vi]
      = [(diagEntry ((1 + 1) * scale * lam) w ar ai yr yi vr vi).1,
         (diagEntry ((1 + 1) * scale * lam) w ar ai yr yi vr vi).2] := by
  simp only [sqL2DiagProx, nEntries, emul, econj, cconjL, rmulL, rmulLc, cmulL, sqmags, pairs, edivR, edivRc, diagEntry,
    Option.getD, List.map, List.zipWith, if_true]
  congr 1
  · congr 1; ring
  · congr 1; congr 1; ring

/-- real case, one entry -/
theorem sqL2DiagProx_entry_real (scale lam w a y v : K) :
    sqL2DiagProx false scale lam (some [w]) [a] [y] [v]
      = [(diagEntry ((1 + 1) * scale * lam) w a 0 y 0 v 0).1] := by
  simp only [sqL2DiagProx, nEntries, emul, econj, rmulL, sqmags, edivR, diagEntry,
    Option.getD, List.map, List.zipWith]
  simp

end diagmodel

/-! ### the system handed to `cg`, and the closed form on whole arrays -/
section cgsystem
variable {K : Type} [Field K]

/-- the system `SquaredL2Loss.prox` hands to `cg` — `lhs = Identity + lam * hessian` with
    `hessian = 2·scale·AᴴWA`, `rhs = v + 2·lam·scale·AᴴW y` — is entry by entry the documented
    `(I + 2αλ AᴴWA) x` and `v + 2αλ AᴴW y` -/
theorem sqL2Lhs_eq (scale lam : K) (ahwa : List K → List K) (x : List K) :
    sqL2Lhs scale lam ahwa x = List.zipWith (fun xi ti => xi + 2 * scale * lam * ti) x (ahwa x) := by
  unfold sqL2Lhs
  rw [List.zipWith_map_right]
  congr 1
  funext a b
  ring

theorem sqL2Rhs_eq (scale lam : K) (ahwy v : List K) :
    sqL2Rhs scale lam ahwy v = List.zipWith (fun vi ti => vi + 2 * scale * lam * ti) v ahwy := by
  unfold sqL2Rhs
  rw [List.zipWith_map_right]
  congr 1
  funext a b
  ring

end cgsystem

section diaglist
variable {K : Type} [Field K] [LinearOrder K] [IsStrictOrderedRing K]

theorem entry_real {c w : K} (hc : 0 ≤ c) (hw : 0 ≤ w) (a y v x : K) :
    (c / 2) * (w * ((y - a * ((c * (a * (w * y)) + v) / (c * (w * (a * a)) + 1))) *
        (y - a * ((c * (a * (w * y)) + v) / (c * (w * (a * a)) + 1)))))
      + (1 / 2) * ((c * (a * (w * y)) + v) / (c * (w * (a * a)) + 1) - v) ^ 2
    ≤ (c / 2) * (w * ((y - a * x) * (y - a * x))) + (1 / 2) * (x - v) ^ 2 := by
  have hd : 0 < c * (w * (a * a)) + 1 := by
    have := mul_nonneg hc (mul_nonneg hw (mul_self_nonneg a)); linarith
  have key : (c / 2) * (w * ((y - a * x) * (y - a * x))) + (1 / 2) * (x - v) ^ 2
      - ((c / 2) * (w * ((y - a * ((c * (a * (w * y)) + v) / (c * (w * (a * a)) + 1))) *
        (y - a * ((c * (a * (w * y)) + v) / (c * (w * (a * a)) + 1)))))
      + (1 / 2) * ((c * (a * (w * y)) + v) / (c * (w * (a * a)) + 1) - v) ^ 2)
      = (1 / 2) * (c * (w * (a * a)) + 1) * (x - (c * (a * (w * y)) + v) / (c * (w * (a * a)) + 1)) ^ 2 := by
    field_simp
    ring
  have : 0 ≤ (1 / 2) * (c * (w * (a * a)) + 1) * (x - (c * (a * (w * y)) + v) / (c * (w * (a * a)) + 1)) ^ 2 := by
    positivity
  linarith

/-- the documented objective `lam·scale·Σ w_i (y_i − a_i x_i)² + ½ Σ (x_i − v_i)²` of the prox of a
    weighted squared-ℓ² loss with real diagonal forward operator, on lists -/
def diagObj (scale lam : K) (w a y v x : List K) : K :=
  lam * (scale * (List.zipWith (· * ·) w (sqmags false (List.zipWith (· - ·) y (List.zipWith (· * ·) a x)))).sum)
    + (1 / 2) * (List.zipWith (fun xi vi => (xi - vi) ^ 2) x v).sum

/-- **real diagonal `A`, whole arrays**: the list returned by the closed-form branch minimises the
    documented objective among all arrays of the same length -/
theorem sqL2DiagProx_minimises_real {scale lam : K} (hc : 0 ≤ (1 + 1) * scale * lam) :
    ∀ (w a y v x : List K), (∀ wi ∈ w, 0 ≤ wi) → w.length = v.length → a.length = v.length →
      y.length = v.length → x.length = v.length →
      diagObj scale lam w a y v (sqL2DiagProx false scale lam (some w) a y v) ≤ diagObj scale lam w a y v x := by
  intro w a y v
  induction v generalizing w a y with
  | nil =>
    intro x _ h1 h2 h3 h4
    simp only [List.length_nil, List.length_eq_zero_iff] at h1 h2 h3 h4
    subst h1 h2 h3 h4
    simp [diagObj, sqL2DiagProx, sqmags, emul, econj, rmulL, edivR]
  | cons v0 v ih =>
    intro x hw h1 h2 h3 h4
    match w, a, y, x, h1, h2, h3, h4 with
    | w0 :: w, a0 :: a, y0 :: y, x0 :: x, h1, h2, h3, h4 =>
      simp only [List.length_cons, Nat.add_right_cancel_iff] at h1 h2 h3 h4
      have ih' := ih w a y x (fun wi hwi => hw wi (by simp [hwi])) h1 h2 h3 h4
      have hw0 : 0 ≤ w0 := hw w0 (by simp)
      have he := entry_real hc hw0 a0 y0 v0 x0
      simp only [diagObj, sqL2DiagProx, sqmags, emul, econj, rmulL, edivR, Option.getD, Bool.false_eq_true,
        if_false, List.zipWith_cons_cons, List.map_cons, List.sum_cons] at ih' ⊢
      linarith
    | [], _, _, _, h1, _, _, _ => simp at h1
    | _ :: _, [], _, _, _, h2, _, _ => simp at h2
    | _ :: _, _ :: _, [], _, _, _, h3, _ => simp at h3
    | _ :: _, _ :: _, _ :: _, [], _, _, _, h4 => simp at h4

end diaglist

section evalsq
variable {K : Type} [Field K] [LinearOrder K] [IsStrictOrderedRing K] [HasSqrt K]

/-- what `SquaredL2Loss.__call__` evaluates for real data and a Diagonal forward operator -/
theorem eval_sqL2_diag_real (E : Env K) (hE : E.cplx = false) (w a y x : List K) (s : K)
    (h1 : a.length = x.length) (h2 : y.length = x.length) :
    eval E (.sqL2 (.arr y) (.diag a) (some w) s) (.arr x)
      = .ok (s * (List.zipWith (· * ·) w (sqmags false (List.zipWith (· - ·) y (List.zipWith (· * ·) a x)))).sum) := by
  have hl : (List.zipWith (· * ·) a x).length = x.length := by simp [h1]
  have hl2 : y.length = (List.zipWith (· * ·) a x).length := by rw [hl, h2]
  simp [eval, OpK.apply, hE, emul, hl, Arg.sub, Arg.zip, zipSame, hl2, Except.map, bind, Except.bind, pure,
    Except.pure, wsum, Arg.flat]
end evalsq

end Scico.ProxCalc
