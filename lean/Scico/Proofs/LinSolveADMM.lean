/-
  Proofs for property C10 (ADMM x-update):
  * `normal_eq_iff_argmin` — the documented normal equations characterise the minimisers of the x-step
    objective (quadratic expansion; real and complex; any number of `C_i` with different codomains);
  * the assembly theorems: what `LinearSubproblemSolver` (and its subclasses) hand to the back end *is* that
    system; the rescalings of the two block-circulant solvers.
-/
import Scico.Proofs.LinSolveCG
import Scico.Proofs.LinSolveMat
import Mathlib.Analysis.InnerProductSpace.Basic
import Mathlib.Tactic.Ring
import Mathlib.Tactic.Linarith
import Mathlib.Tactic.FieldSimp

set_option linter.unusedSectionVars false

namespace Scico.LinSolve
open RCLike

variable {𝕜 V Y : Type} [RCLike 𝕜] [NormedAddCommGroup V] [InnerProductSpace 𝕜 V]
  [NormedAddCommGroup Y] [InnerProductSpace 𝕜 Y]

/-- expansion of the weighted data term -/
theorem quadA (A : V →ₗ[𝕜] Y) (AH : Y →ₗ[𝕜] V) (hA : ∀ x y, inner 𝕜 (A x) y = inner 𝕜 x (AH y))
    (W : Y →ₗ[𝕜] Y) (hWs : ∀ u v, inner 𝕜 (W u) v = inner 𝕜 u (W v)) (y : Y) (x h : V) :
    re (inner 𝕜 (A (x + h) - y) (W (A (x + h) - y))) =
      re (inner 𝕜 (A x - y) (W (A x - y))) + 2 * re (inner 𝕜 (AH (W (A x - y))) h) + re (inner 𝕜 (A h) (W (A h))) := by
  have e : A (x + h) - y = (A x - y) + A h := by rw [map_add]; abel
  set r := A x - y
  rw [e, map_add, inner_add_left, inner_add_right, inner_add_right]
  have h1 : inner 𝕜 r (W (A h)) = inner 𝕜 (AH (W r)) h := by
    rw [← hWs, ← inner_conj_symm, hA, inner_conj_symm]
  have h2 : re (inner 𝕜 (A h) (W r)) = re (inner 𝕜 (AH (W r)) h) := by
    rw [hA, ← inner_conj_symm, conj_re]
  simp only [map_add, h1, h2]
  ring

/-- expansion of one splitting term -/
theorem quadC {U : Type} [NormedAddCommGroup U] [InnerProductSpace 𝕜 U]
    (C : V →ₗ[𝕜] U) (CH : U →ₗ[𝕜] V) (hC : ∀ x y, inner 𝕜 (C x) y = inner 𝕜 x (CH y)) (v : U) (x h : V) :
    ‖v - C (x + h)‖ ^ 2 = ‖v - C x‖ ^ 2 + 2 * re (inner 𝕜 (CH (C x - v)) h) + ‖C h‖ ^ 2 := by
  have e : v - C (x + h) = (v - C x) - C h := by rw [map_add]; abel
  rw [e, @norm_sub_sq 𝕜]
  have h1 : inner 𝕜 (v - C x) (C h) = - inner 𝕜 (CH (C x - v)) h := by
    rw [← inner_conj_symm, hC, inner_conj_symm, ← neg_sub (C x) v, map_neg, inner_neg_left]
  rw [h1, map_neg]; ring

section Family
variable {ι : Type} [Fintype ι] {U : ι → Type} [∀ i, NormedAddCommGroup (U i)] [∀ i, InnerProductSpace 𝕜 (U i)]

/-- the ADMM x-step objective  `α ‖A x − y‖²_W + Σ ρ_i/2 ‖v_i − C_i x‖²`  (`v_i = z_i − u_i`) -/
noncomputable def xstepObj (A : V →ₗ[𝕜] Y) (W : Y →ₗ[𝕜] Y) (C : ∀ i, V →ₗ[𝕜] U i) (α : ℝ) (ρ : ι → ℝ) (y : Y)
    (v : ∀ i, U i) (x : V) : ℝ :=
  α * re (inner 𝕜 (A x - y) (W (A x - y))) + ∑ i, ρ i / 2 * ‖v i - C i x‖ ^ 2

/-- **normal equations ⇔ argmin** -/
theorem normal_eq_iff_argmin (A : V →ₗ[𝕜] Y) (AH : Y →ₗ[𝕜] V) (hA : ∀ x y, inner 𝕜 (A x) y = inner 𝕜 x (AH y))
    (W : Y →ₗ[𝕜] Y) (hWs : ∀ u v, inner 𝕜 (W u) v = inner 𝕜 u (W v)) (hWp : ∀ u, 0 ≤ re (inner 𝕜 u (W u)))
    (C : ∀ i, V →ₗ[𝕜] U i) (CH : ∀ i, U i →ₗ[𝕜] V) (hC : ∀ i x y, inner 𝕜 (C i x) y = inner 𝕜 x (CH i y))
    (α : ℝ) (hα : 0 ≤ α) (ρ : ι → ℝ) (hρ : ∀ i, 0 ≤ ρ i) (y : Y) (v : ∀ i, U i) (x : V) :
    (((2 * α : ℝ) : 𝕜) • AH (W (A x)) + ∑ i, ((ρ i : ℝ) : 𝕜) • CH i (C i x)
        = ((2 * α : ℝ) : 𝕜) • AH (W y) + ∑ i, ((ρ i : ℝ) : 𝕜) • CH i (v i))
      ↔ ∀ x', xstepObj A W C α ρ y v x ≤ xstepObj A W C α ρ y v x' := by
  -- half gradient and quadratic part
  let g : V → V := fun x => ((α : ℝ) : 𝕜) • AH (W (A x - y)) + ∑ i, ((ρ i / 2 : ℝ) : 𝕜) • CH i (C i x - v i)
  let q : V → ℝ := fun h => α * re (inner 𝕜 (A h) (W (A h))) + ∑ i, ρ i / 2 * ‖C i h‖ ^ 2
  have hq : ∀ h, 0 ≤ q h := fun h =>
    add_nonneg (mul_nonneg hα (hWp _)) (Finset.sum_nonneg fun i _ => mul_nonneg (by linarith [hρ i]) (by positivity))
  have hq2 : ∀ (t : ℝ) (h : V), q ((t : 𝕜) • h) = t ^ 2 * q h := by
    intro t h
    have hA' : re (inner 𝕜 (A ((t : 𝕜) • h)) (W (A ((t : 𝕜) • h)))) = t ^ 2 * re (inner 𝕜 (A h) (W (A h))) := by
      rw [map_smul, map_smul, inner_smul_left, inner_smul_right, conj_ofReal, ← mul_assoc, ← ofReal_mul, re_ofReal_mul]
      ring
    have hC' : ∀ i, ‖C i ((t : 𝕜) • h)‖ ^ 2 = t ^ 2 * ‖C i h‖ ^ 2 := by
      intro i; rw [map_smul, norm_smul, mul_pow, RCLike.norm_ofReal, sq_abs]
    simp only [q, hA', hC']
    rw [mul_add, Finset.mul_sum]
    congr 1
    · ring
    · apply Finset.sum_congr rfl; intro i _; ring
  have hexp : ∀ x h, xstepObj A W C α ρ y v (x + h) = xstepObj A W C α ρ y v x + 2 * re (inner 𝕜 (g x) h) + q h := by
    intro x h
    have hg : re (inner 𝕜 (g x) h) = α * re (inner 𝕜 (AH (W (A x - y))) h)
        + ∑ i, ρ i / 2 * re (inner 𝕜 (CH i (C i x - v i)) h) := by
      simp only [g]
      rw [inner_add_left, inner_smul_left, sum_inner, map_add, map_sum, conj_ofReal, re_ofReal_mul]
      congr 1
      apply Finset.sum_congr rfl; intro i _
      rw [inner_smul_left, conj_ofReal, re_ofReal_mul]
    rw [hg]
    simp only [xstepObj, q]
    rw [quadA A AH hA W hWs y x h]
    rw [Finset.sum_congr rfl (fun i _ => by rw [quadC (C i) (CH i) (hC i) (v i) x h])]
    have e : ∀ i, ρ i / 2 * (‖v i - C i x‖ ^ 2 + 2 * re (inner 𝕜 (CH i (C i x - v i)) h) + ‖C i h‖ ^ 2)
        = ρ i / 2 * ‖v i - C i x‖ ^ 2 + 2 * (ρ i / 2 * re (inner 𝕜 (CH i (C i x - v i)) h)) + ρ i / 2 * ‖C i h‖ ^ 2 := by
      intro i; ring
    rw [Finset.sum_congr rfl (fun i _ => e i), Finset.sum_add_distrib, Finset.sum_add_distrib, ← Finset.mul_sum]
    ring
  rw [argmin_iff_grad_zero (𝕜 := 𝕜) (xstepObj A W C α ρ y v) g q hq hq2 hexp x]
  -- g x = 0  ⇔  normal equations
  simp only [g]
  have e1 : ∀ i, ((ρ i / 2 : ℝ) : 𝕜) • CH i (C i x - v i)
      = (1 / 2 : 𝕜) • (((ρ i : ℝ) : 𝕜) • CH i (C i x) - ((ρ i : ℝ) : 𝕜) • CH i (v i)) := by
    intro i
    rw [map_sub, smul_sub, smul_sub, smul_smul, smul_smul]
    congr 2 <;> (push_cast; ring)
  have e0 : ((α : ℝ) : 𝕜) • AH (W (A x - y))
      = (1 / 2 : 𝕜) • (((2 * α : ℝ) : 𝕜) • AH (W (A x)) - ((2 * α : ℝ) : 𝕜) • AH (W y)) := by
    rw [map_sub, map_sub, smul_sub, smul_sub, smul_smul, smul_smul]
    congr 2 <;> (push_cast; ring)
  rw [e0, Finset.sum_congr rfl (fun i _ => e1 i), ← Finset.smul_sum, ← smul_add, Finset.sum_sub_distrib]
  rw [smul_eq_zero_iff_right (by norm_num : (1 / 2 : 𝕜) ≠ 0)]
  constructor
  · intro h
    have h' := sub_eq_zero.2 h
    rw [← h']; abel
  · intro h
    rw [← sub_eq_zero, ← h]; abel

end Family

/-! ## assembly: what the solvers of `_admmaux.py` hand to their back ends -/

section Assembly
variable {S M U Y' : Type} [Field S] [AddCommGroup M] [Module S M] [AddCommGroup U]

/-- documented left-hand operator `Σ ρ_i C_iᴴ C_i + 2 α Aᴴ W A` -/
def lhsSpec (f : Option (SqL2 S M Y')) (terms : List (Term S M U)) (x : M) : M :=
  (terms.map fun t => t.rho • t.C.adj (t.C.eval x)).sum +
    (match f with | none => 0 | some f => (2 * f.scale) • f.A.adj (f.W (f.A.eval x)))

/-- documented right-hand side `2 α Aᴴ W y + Σ ρ_i C_iᴴ (z_i − u_i)` -/
def rhsSpec (f : Option (SqL2 S M Y')) (terms : List (Term S M U)) : M :=
  (match f with | none => 0 | some f => (2 * f.scale) • f.A.adj (f.W f.y)) +
    (terms.map fun t => t.rho • t.C.adj (t.z - t.u)).sum

theorem foldl_fun_add (gs : List (M → M)) (g : M → M) (x : M) :
    (gs.foldl (fun a b => fun x => a x + b x) g) x = g x + (gs.map fun h => h x).sum := by
  induction gs generalizing g with
  | nil => simp
  | cons h hs ih => rw [List.foldl_cons, ih]; simp [add_assoc]

theorem reduceAdd_fun (gs : List (M → M)) :
    reduceAdd (β := M → M) (fun a b => fun x => a x + b x) gs =
      match gs with
      | [] => none
      | _ :: _ => some fun x => (gs.map fun h => h x).sum := by
  cases gs with
  | nil => rfl
  | cons g gs =>
    simp only [reduceAdd, Option.some.injEq]
    funext x
    rw [foldl_fun_add]; simp

theorem two_eq : (two : S) = 2 := by unfold two; norm_num
theorem two_eq' {K : Type} [Field K] : (two : K) = 2 := by unfold two; norm_num

/-- **`LinearSubproblemSolver.internal_init`**: `lhs_op` is the documented operator (for a non-empty list
    of `C_i`; the empty list makes Python's `reduce` raise) -/
theorem linearLhs_spec (f : Option (SqL2 S M Y')) (terms : List (Term S M U)) (hne : terms ≠ []) :
    ∃ lhs, linearLhs f terms = some lhs ∧ ∀ x, lhs x = lhsSpec f terms x := by
  unfold linearLhs
  rw [reduceAdd_fun]
  cases terms with
  | nil => exact absurd rfl hne
  | cons t ts =>
    cases f with
    | none =>
      refine ⟨_, rfl, ?_⟩
      intro x
      simp [lhsSpec, LinOp.gram, List.map_map, Function.comp_def]
    | some f =>
      refine ⟨_, rfl, ?_⟩
      intro x
      simp [lhsSpec, LinOp.gram, SqL2.hessian, two_eq, List.map_map, Function.comp_def]

theorem linearLhs_nil (f : Option (SqL2 S M Y')) : linearLhs (U := U) f [] = none := rfl

theorem foldl_add_sum {β : Type} (l : List β) (h : β → M) (r0 : M) :
    l.foldl (fun r t => r + h t) r0 = r0 + (l.map h).sum := by
  induction l generalizing r0 with
  | nil => simp
  | cons t ts ih => rw [List.foldl_cons, ih]; simp [add_assoc]

/-- **`compute_rhs`** is the documented right-hand side -/
theorem linearRhs_spec (f : Option (SqL2 S M Y')) (terms : List (Term S M U)) :
    linearRhs 0 f terms = rhsSpec f terms := by
  unfold linearRhs rhsSpec
  rw [foldl_add_sum]
  cases f with
  | none => rfl
  | some f => simp [two_eq]

/-- **`FBlockCircularConvolveSolver`**: the system handed to `ConvATADSolver`, `(AᴴA + D) x = rhs / 2α`, is
    equivalent (for `α ≠ 0`) to `2α AᴴA x + Σ ρ_i C_iᴴC_i x = rhs` — which is the documented system exactly
    when the loss carries no weights (`W = id`): `f.W` enters the right-hand side but not the left. -/
theorem fblock_spec (f : SqL2 S M Y') (terms : List (Term S M U)) (hne : terms ≠ []) (hc : 2 * f.scale ≠ 0) :
    ∃ lhs rhs, fblockSystem 0 f terms = some (lhs, rhs) ∧
      ∀ x, (lhs x = rhs ↔
        (2 * f.scale) • f.A.adj (f.A.eval x) + (terms.map fun t => t.rho • t.C.adj (t.C.eval x)).sum = rhsSpec (some f) terms) := by
  unfold fblockSystem
  rw [reduceAdd_fun]
  cases terms with
  | nil => exact absurd rfl hne
  | cons t ts =>
    refine ⟨_, _, rfl, ?_⟩
    intro x
    simp only [two_eq, linearRhs_spec, LinOp.gram, List.map_map, Function.comp_def]
    set g := (List.map (fun t : Term S M U => t.rho • t.C.adj (t.C.eval x)) (t :: ts)).sum
    set r := rhsSpec (some f) (t :: ts)
    constructor
    · intro h
      have := congrArg (fun v => (2 * f.scale) • v) h
      simp only [smul_add, smul_smul, mul_one_div_cancel hc, one_smul] at this
      exact this
    · intro h
      rw [← h, smul_add, smul_smul, one_div_mul_cancel hc, one_smul]

theorem fblock_spec_unweighted (f : SqL2 S M Y') (terms : List (Term S M U)) (hne : terms ≠ []) (hc : 2 * f.scale ≠ 0)
    (hW : ∀ v, f.W v = v) :
    ∃ lhs rhs, fblockSystem 0 f terms = some (lhs, rhs) ∧ ∀ x, (lhs x = rhs ↔ lhsSpec (some f) terms x = rhsSpec (some f) terms) := by
  obtain ⟨lhs, rhs, h1, h2⟩ := fblock_spec f terms hne hc
  refine ⟨lhs, rhs, h1, fun x => ?_⟩
  rw [h2 x]
  simp only [lhsSpec, hW]
  rw [add_comm]

/-! ### `G0BlockCircularConvolveSolver` -/

theorem zip_ones_sum {β : Type} (rest : List β) (h : S → β → M) :
    ((List.zip (rest.map fun _ => (1 : S)) rest).map fun p => h p.1 p.2).sum = (rest.map fun t => h 1 t).sum := by
  induction rest with
  | nil => rfl
  | cons t ts ih =>
    rw [List.map_cons, List.zip_cons_cons, List.map_cons, List.sum_cons, ih, List.map_cons, List.sum_cons]

theorem g0RhsRaw_spec (omega : S) (t1 : Term S M U) (rest : List (Term S M U)) :
    g0RhsRaw 0 omega (t1 :: rest) =
      (2 * omega * t1.rho) • t1.C.adj (t1.z - t1.u) + (rest.map fun t => t.rho • t.C.adj (t.z - t.u)).sum := by
  unfold g0RhsRaw
  simp only [List.drop_succ_cons, List.drop_zero, List.zip_cons_cons, List.foldl_cons, zero_add, two_eq]
  rw [foldl_add_sum, zip_ones_sum rest (fun w t => (w * t.rho) • t.C.adj (t.z - t.u))]
  simp

/-- **`G0BlockCircularConvolveSolver`**: the system handed to `ConvATADSolver` is equivalent (for
    `c = 2 ω ρ₁ ≠ 0`) to `c·C₁ᴴC₁ x + Σ_{i≥2} ρ_i C_iᴴC_i x = c·C₁ᴴv₁ + Σ_{i≥2} ρ_i C_iᴴ v_i` — the first term is
    weighted by `2 ω ρ₁` instead of `ρ₁`. -/
theorem g0_spec (omega : S) (t1 : Term S M U) (rest : List (Term S M U)) (hne : rest ≠ [])
    (hc : 2 * omega * t1.rho ≠ 0) :
    ∃ lhs rhs, g0System 0 omega (t1 :: rest) = some (lhs, rhs) ∧
      ∀ x, (lhs x = rhs ↔
        (2 * omega * t1.rho) • t1.C.adj (t1.C.eval x) + (rest.map fun t => t.rho • t.C.adj (t.C.eval x)).sum
          = (2 * omega * t1.rho) • t1.C.adj (t1.z - t1.u) + (rest.map fun t => t.rho • t.C.adj (t.z - t.u)).sum) := by
  unfold g0System
  simp only
  rw [reduceAdd_fun]
  cases rest with
  | nil => exact absurd rfl hne
  | cons t ts =>
    refine ⟨_, _, rfl, ?_⟩
    intro x
    simp only [two_eq, g0RhsRaw_spec, LinOp.gram, List.map_map, Function.comp_def]
    set g := (List.map (fun t : Term S M U => t.rho • t.C.adj (t.C.eval x)) (t :: ts)).sum
    set r := (2 * omega * t1.rho) • t1.C.adj (t1.z - t1.u) + (List.map (fun t : Term S M U => t.rho • t.C.adj (t.z - t.u)) (t :: ts)).sum
    constructor
    · intro h
      have := congrArg (fun v => (2 * omega * t1.rho) • v) h
      simp only [smul_add, smul_smul, mul_one_div_cancel hc, one_smul] at this
      exact this
    · intro h
      rw [← h, smul_add, smul_smul, one_div_mul_cancel hc, one_smul]

/-- the **exact condition**: a solution `x` of the system G0 solves satisfies the documented normal equations
    of the x-step iff `(2ω − 1) ρ₁ · C₁ᴴ(C₁ x − v₁) = 0` -/
theorem g0_exact (omega : S) (t1 : Term S M U) (rest : List (Term S M U)) (x : M)
    (hadd : ∀ a b, t1.C.adj (a - b) = t1.C.adj a - t1.C.adj b)
    (hsys : (2 * omega * t1.rho) • t1.C.adj (t1.C.eval x) + (rest.map fun t => t.rho • t.C.adj (t.C.eval x)).sum
          = (2 * omega * t1.rho) • t1.C.adj (t1.z - t1.u) + (rest.map fun t => t.rho • t.C.adj (t.z - t.u)).sum) :
    lhsSpec (Y' := Y') none (t1 :: rest) x = rhsSpec (Y' := Y') none (t1 :: rest) ↔
      ((2 * omega - 1) * t1.rho) • t1.C.adj (t1.C.eval x - (t1.z - t1.u)) = 0 := by
  simp only [lhsSpec, rhsSpec, List.map_cons, List.sum_cons, add_zero, zero_add]
  set g := (rest.map fun t => t.rho • t.C.adj (t.C.eval x)).sum
  set r := (rest.map fun t => t.rho • t.C.adj (t.z - t.u)).sum
  set a := t1.C.adj (t1.C.eval x)
  set b := t1.C.adj (t1.z - t1.u)
  rw [hadd]
  have e : ((2 * omega - 1) * t1.rho) • (a - b) = ((2 * omega * t1.rho) • a + g) - ((2 * omega * t1.rho) • b + r)
      - ((t1.rho • a + g) - (t1.rho • b + r)) := by
    rw [sub_mul, one_mul, sub_smul, smul_sub, smul_sub]; abel
  rw [e, hsys, sub_self, zero_sub, neg_eq_zero, sub_eq_zero]

/-- G0 is exact when `2 ω = 1` (the default `scale = 0.5` of `SquaredL2Loss`) -/
theorem g0_spec_half (omega : S) (t1 : Term S M U) (rest : List (Term S M U)) (hne : rest ≠ [])
    (hω : 2 * omega = 1) (hρ : t1.rho ≠ 0) :
    ∃ lhs rhs, g0System 0 omega (t1 :: rest) = some (lhs, rhs) ∧
      ∀ x, (lhs x = rhs ↔ lhsSpec (Y' := Y') none (t1 :: rest) x = rhsSpec (Y' := Y') none (t1 :: rest)) := by
  obtain ⟨lhs, rhs, h1, h2⟩ := g0_spec omega t1 rest hne (by rw [hω, one_mul]; exact hρ)
  refine ⟨lhs, rhs, h1, fun x => ?_⟩
  rw [h2 x, hω, one_mul]
  simp [lhsSpec, rhsSpec]

/-! ### `CircularConvolveSolver` per frequency -/

theorem circLhsHat_spec {N : Nat} (f : Option (S × Vec S N)) (terms : List (S × Vec S N)) (hne : terms ≠ []) :
    ∃ lhs, circLhsHat f terms = some lhs ∧
      ∀ w, lhs w = (terms.map fun t => t.1 * t.2 w).sum + (match f with | none => 0 | some (sc, gA) => 2 * sc * gA w) := by
  unfold circLhsHat
  have hred : ∀ gs : List (Vec S N), reduceAdd (β := Vec S N) (fun a b => fun w => a w + b w) gs =
      match gs with
      | [] => none
      | _ :: _ => some fun w => (gs.map fun h => h w).sum := by
    intro gs
    cases gs with
    | nil => rfl
    | cons g gs =>
      simp only [reduceAdd, Option.some.injEq]
      funext w
      have : ∀ (gs : List (Vec S N)) (g : Vec S N), (gs.foldl (fun a b => fun w => a w + b w) g) w = g w + (gs.map fun h => h w).sum := by
        intro gs
        induction gs with
        | nil => intro g; simp
        | cons h hs ih => intro g; rw [List.foldl_cons, ih]; simp [add_assoc]
      rw [this]; simp
  rw [hred]
  cases terms with
  | nil => exact absurd rfl hne
  | cons t ts =>
    cases f with
    | none => exact ⟨_, rfl, fun w => by simp [List.map_map, Function.comp_def]⟩
    | some f =>
      obtain ⟨sc, gA⟩ := f
      exact ⟨_, rfl, fun w => by simp [List.map_map, Function.comp_def, two_eq]⟩

theorem circSolveHat_spec {N : Nat} (lhs rhs : Vec S N) (w : Fin N) (h : lhs w ≠ 0) :
    lhs w * circSolveHat lhs rhs w = rhs w := by
  unfold circSolveHat
  field_simp

end Assembly

/-! ### `MatrixSubproblemSolver`: arguments of `MatrixATADSolver` -/

section MatrixSub
variable {K : Type} [Field K] [HasConj K] [HasIsZero K] {m n : Nat}

theorem DMat.smul_entry (c : K) (D : DMat K n) (i j : Fin n) : (D.smul c).entry i j = c * D.entry i j := by
  cases D with
  | diag d => simp only [DMat.smul, DMat.entry]; split <;> simp
  | full D => rfl

theorem DMat.add_entry (a b : DMat K n) (i j : Fin n) : (a.add b).entry i j = a.entry i j + b.entry i j := by
  cases a <;> cases b <;> simp only [DMat.add, DMat.entry]
  split <;> simp

theorem DMat.foldl_add_entry (l : List (DMat K n)) (g : DMat K n) (i j : Fin n) :
    (l.foldl DMat.add g).entry i j = g.entry i j + (l.map fun D => D.entry i j).sum := by
  induction l generalizing g with
  | nil => simp
  | cons h hs ih => rw [List.foldl_cons, ih, DMat.add_entry]; simp [add_assoc]

/-- entries of `C.gram_op`: `Cᴴ C` -/
theorem COp.gramD_entry (C : COp K n) (i j : Fin n) :
    C.gramD.entry i j = match C with
      | .diag d => if i = j then conj (d i) * d i else 0
      | .mat _ M => ∑ k, conj (M k i) * M k j := by
  cases C with
  | diag d => rfl
  | mat p M => simp [COp.gramD, DMat.entry, vsum_eq]

/-- **`MatrixSubproblemSolver.internal_init`**: the solver it builds is `MatrixATADSolver(A, D, W')` with
    `W' = 2 α W` and `D = Σ ρ_i C_iᴴ C_i` entry by entry — so (by `C14_woodbury_matrix`) its `solve` returns the
    solution of `(Aᴴ (2αW) A + Σ ρ_i C_iᴴC_i) x = rhs` on either path. -/
theorem matrixSubATAD_spec (scale : K) (A : Mat K m n) (W : Vec K m) (terms : List (K × COp K n)) (hne : terms ≠ []) :
    ∃ s, matrixSubATAD scale A W terms = some s ∧ s.A = A ∧ (∀ i, s.W i = 2 * scale * W i) ∧
      (∀ i j, s.D.entry i j = (terms.map fun t => t.1 * t.2.gramD.entry i j).sum) ∧
      (s.D.isDiag = true ↔ ∀ t ∈ terms, ∃ d, t.2 = .diag d) := by
  unfold matrixSubATAD
  cases terms with
  | nil => exact absurd rfl hne
  | cons t ts =>
    simp only [List.map_cons, reduceAdd, Option.map_some]
    refine ⟨_, rfl, rfl, fun i => by simp [two_eq'], ?_, ?_⟩
    · intro i j
      simp only [DMat.foldl_add_entry, DMat.smul_entry, List.map_map, Function.comp_def, List.sum_cons]
    · -- a sum of Diagonal operators is a Diagonal; one MatrixOperator makes it a MatrixOperator
      have key : ∀ (l : List (K × COp K n)) (g : DMat K n),
          ((l.map fun t => (t.2.gramD).smul t.1).foldl DMat.add g).isDiag = true ↔
            (g.isDiag = true ∧ ∀ t ∈ l, ∃ d, t.2 = .diag d) := by
        intro l
        induction l with
        | nil => intro g; simp
        | cons h hs ih =>
          intro g
          rw [List.map_cons, List.foldl_cons, ih]
          obtain ⟨c, C⟩ := h
          cases g <;> cases C <;> simp [DMat.add, DMat.smul, COp.gramD, DMat.isDiag]
      rw [key]
      obtain ⟨c, C⟩ := t
      cases C <;> simp [DMat.smul, COp.gramD, DMat.isDiag]

end MatrixSub

end Scico.LinSolve
