/-
  Helper lemmas for `Scico.Model.LinOps`, part 8 (round 2): index / weight formulas of the 2-D X-ray
  projector (`XRayTransform2D._calc_weights`) and the views at the documented angles 0 and π/2.
-/
import Scico.Proofs.LinOps2
import Mathlib.Algebra.Order.Field.Basic
import Mathlib.Algebra.Order.Ring.Abs
import Mathlib.Tactic.FieldSimp

namespace Scico.LinOps
open Finset
set_option linter.unusedSectionVars false


section XRayViews
variable {K : Type} [Field K] [LinearOrder K] [IsStrictOrderedRing K]

local instance : HasNat K := ⟨Nat.cast⟩
local instance : HasAbs K := ⟨abs⟩

/-- views along the first image axis (`sin = 0`: angles 0, π): index and weight do not depend on the column -/
theorem xray_px_u1_zero (g : XGeom K) (h : g.u1 = 0) (i j : Nat) : g.px i j = g.px i 0 := by
  simp [XGeom.px, h]

/-- views along the second image axis (`cos = 0`: angles π/2, 3π/2): no dependence on the row -/
theorem xray_px_u0_zero (g : XGeom K) (h : g.u0 = 0) (i j : Nat) : g.px i j = g.px 0 j := by
  simp [XGeom.px, h]

omit [LinearOrder K] [IsStrictOrderedRing K] in
/-- if bins and weights depend on the row only, the view is the 1-d footprint operator applied to the ROW SUMS -/
theorem xrayProject_rows (n0 n1 : Nat) (I : Nat → Int) (w x : V K) (I0 : Nat → Int) (w0 : V K) (ny : Nat)
    (hI : ∀ i j, i < n0 → j < n1 → I (i * n1 + j) = I0 i) (hw : ∀ i j, i < n0 → j < n1 → w (i * n1 + j) = w0 i)
    (b : Nat) : xrayProject (n0 * n1) I w x ny b = xrayProject n0 I0 w0 (rowSums n1 x) ny b := by
  unfold xrayProject rowSums
  split
  · simp only [sumTo_eq_sum]
    rw [sum_range_mul2]
    refine sum_congr rfl (fun i hi => ?_)
    have e : ∀ j ∈ range n1,
        ((if fixNeg ny (I (i * n1 + j)) = b then w (i * n1 + j) * x (i * n1 + j) else 0)
          + (if fixNeg ny (I (i * n1 + j) + 1) = b then (1 - w (i * n1 + j)) * x (i * n1 + j) else 0))
        = (if fixNeg ny (I0 i) = (b : Int) then w0 i else 0) * x (i * n1 + j)
          + (if fixNeg ny (I0 i + 1) = (b : Int) then 1 - w0 i else 0) * x (i * n1 + j) := by
      intro j hj
      rw [hI i j (mem_range.mp hi) (mem_range.mp hj), hw i j (mem_range.mp hi) (mem_range.mp hj)]
      split <;> split <;> simp
    rw [sum_congr rfl e, sum_add_distrib, ← mul_sum, ← mul_sum]
    split <;> split <;> simp
  · rfl

omit [LinearOrder K] [IsStrictOrderedRing K] in
/-- if bins and weights depend on the column only, the view is the 1-d footprint operator applied to the COLUMN SUMS -/
theorem xrayProject_cols (n0 n1 : Nat) (I : Nat → Int) (w x : V K) (I1 : Nat → Int) (w1 : V K) (ny : Nat)
    (hI : ∀ i j, i < n0 → j < n1 → I (i * n1 + j) = I1 j) (hw : ∀ i j, i < n0 → j < n1 → w (i * n1 + j) = w1 j)
    (b : Nat) : xrayProject (n0 * n1) I w x ny b = xrayProject n1 I1 w1 (colSums n0 n1 x) ny b := by
  unfold xrayProject colSums
  split
  · simp only [sumTo_eq_sum]
    rw [sum_range_mul2, sum_comm]
    refine sum_congr rfl (fun j hj => ?_)
    have e : ∀ i ∈ range n0,
        ((if fixNeg ny (I (i * n1 + j)) = b then w (i * n1 + j) * x (i * n1 + j) else 0)
          + (if fixNeg ny (I (i * n1 + j) + 1) = b then (1 - w (i * n1 + j)) * x (i * n1 + j) else 0))
        = (if fixNeg ny (I1 j) = (b : Int) then w1 j else 0) * x (i * n1 + j)
          + (if fixNeg ny (I1 j + 1) = (b : Int) then 1 - w1 j else 0) * x (i * n1 + j) := by
      intro i hi
      rw [hI i j (mem_range.mp hi) (mem_range.mp hj), hw i j (mem_range.mp hi) (mem_range.mp hj)]
      split <;> split <;> simp
    rw [sum_congr rfl e, sum_add_distrib, ← mul_sum, ← mul_sum]
    split <;> split <;> simp
  · rfl

omit [LinearOrder K] [IsStrictOrderedRing K] in
/-- a 1-d footprint with bins `d + i` and unit weights copies the input to the bins `d, d+1, …` -/
theorem xrayProject_shift (n : Nat) (d : Nat) (s : V K) (ny : Nat) (b : Nat) (hb : b < ny) :
    xrayProject n (fun i => (d : Int) + i) (fun _ => 1) s ny b = if d ≤ b ∧ b < d + n then s (b - d) else 0 := by
  unfold xrayProject
  rw [if_pos hb, sumTo_eq_sum]
  have hfix : ∀ i : Nat, fixNeg ny ((d : Int) + i) = (d : Int) + i := fun i => by simp [fixNeg]; omega
  simp only [hfix, sub_self, zero_mul, ite_self, add_zero, one_mul]
  split
  · rename_i h
    rw [sum_eq_single_of_mem (b - d) (mem_range.mpr (by omega))]
    · rw [if_pos (by omega)]
    · intro i _ hne; rw [if_neg (by omega)]
  · rename_i h
    exact sum_eq_zero (fun i hi => by rw [if_neg (by have := mem_range.mp hi; omega)])

/-- angle 0, unit pixels along the first axis, pixel edges on bin edges (`x0[0] − y0 = d ∈ ℕ`): bins `d + i`,
    all weights 1 (`floor` of an integer is itself: the only property of `floor` used) -/
theorem xray_angle0_weights (g : XGeom K) (fl : K → Int) (hfl : ∀ z : Int, fl (z : K) = z) (d : Nat)
    (hu0 : g.u0 = 1) (hu1 : g.u1 = 0) (hdx : g.dxa = 1) (hd : g.x0a - g.y0 = d) (i j : Nat) :
    g.ind fl i j = (d : Int) + i ∧ g.wt fl (fun z => (z : K)) i j = 1 := by
  have hpx : g.px i j = (((d : Int) + i : Int) : K) := by
    simp only [XGeom.px, hu0, hu1, hdx, mul_one, mul_zero, add_zero, zero_mul]
    rw [hd]
    have : min (min (d : K) ((d : K) + 1)) (min (d : K) ((d : K) + 1)) = d := by
      rw [min_self, min_eq_left (by linarith)]
    rw [this]; push_cast; simp [HasNat.nat]
  have hw : g.width = 1 := by
    simp only [XGeom.width, hu0, hu1, hdx, mul_one, zero_mul, add_zero, sub_zero, max_self, min_self]
    simp [HasAbs.abs, HasNat.nat]
  refine ⟨by rw [XGeom.ind, hpx, hfl], ?_⟩
  rw [XGeom.wt, hw, hpx, hfl]
  simp [HasNat.nat]

/-- angle π/2 (`u = (0, 1)`), unit pixels along the second axis, aligned edges: bins `d + j`, weights 1 -/
theorem xray_angle90_weights (g : XGeom K) (fl : K → Int) (hfl : ∀ z : Int, fl (z : K) = z) (d : Nat)
    (hu0 : g.u0 = 0) (hu1 : g.u1 = 1) (hdx : g.dxb = 1) (hd : g.x0b - g.y0 = d) (i j : Nat) :
    g.ind fl i j = (d : Int) + j ∧ g.wt fl (fun z => (z : K)) i j = 1 := by
  have hpx : g.px i j = (((d : Int) + j : Int) : K) := by
    simp only [XGeom.px, hu0, hu1, hdx, mul_one, mul_zero, add_zero, zero_mul, zero_add]
    rw [hd]
    have : min (min (d : K) (d : K)) (min ((d : K) + 1) ((d : K) + 1)) = d := by
      rw [min_self, min_self, min_eq_left (by linarith)]
    rw [this]; push_cast; simp [HasNat.nat]
  have hw : g.width = 1 := by
    simp only [XGeom.width, hu0, hu1, hdx, mul_one, zero_mul, zero_add, zero_sub]
    simp [HasAbs.abs, HasNat.nat]
  refine ⟨by rw [XGeom.ind, hpx, hfl], ?_⟩
  rw [XGeom.wt, hw, hpx, hfl]
  simp [HasNat.nat]

end XRayViews
end Scico.LinOps
