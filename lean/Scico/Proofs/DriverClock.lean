/-
  C15, the interval timer over an ARBITRARY clock: `scico.util.Timer` (model `Scico.Driver.Clock`)
  returns what the history-based gap-summing stop-watch `Clock.specElapsed` prescribes, for clock
  values in any additive commutative group (ℤ, ℚ, ℝ — no order is needed for the equality).
  The dictionary / label-routing part is a port of `DriverTimer.lean` (it never looks at the
  clock values); the single-label part is new (`refines_snoc`).
-/
import Scico.Proofs.DriverClockSpec
import Mathlib.Data.List.Induction
import Mathlib.Data.List.TakeWhile
import Mathlib.Tactic.Abel
import Mathlib.Algebra.Order.Group.Defs

set_option linter.unusedSimpArgs false
set_option linter.unusedSectionVars false

namespace Scico.Driver.Clock
open Scico.Driver
open Scico.Driver.Spec (Cfg)

variable {L τ : Type} [DecidableEq L] [AddCommGroup τ]

/-! ### the per-label machine -/

def mach (e : Entry τ) (ev : τ × Op) : Entry τ :=
  match ev.2 with
  | .start => startEntry e ev.1
  | .stop => stopEntry e ev.1
  | .reset => resetEntry e

def machFold (es : List (τ × Op)) : Entry τ := es.foldl mach Entry.fresh

theorem machFold_snoc (es : List (τ × Op)) (ev : τ × Op) :
    machFold (es ++ [ev]) = mach (machFold es) ev := by
  simp [machFold, List.foldl_append]

theorem trailingStarts_snoc (es : List (τ × Op)) (t : τ) (k : Op) :
    trailingStarts (es ++ [(t, k)]) =
      if k = .start then trailingStarts es ++ [(t, k)] else [] := by
  unfold trailingStarts
  cases k <;> simp

/-! ### the gap-summing specification under appending one event -/

theorem sinceReset_snoc (es : List (τ × Op)) (t : τ) (k : Op) :
    sinceReset (es ++ [(t, k)]) = if k = .reset then [] else sinceReset es ++ [(t, k)] := by
  induction es with
  | nil => cases k <;> simp [sinceReset]
  | cons e es ih =>
    simp only [List.cons_append, sinceReset, List.any_append, List.any_cons, List.any_nil, Bool.or_false]
    cases k with
    | reset => simp [ih]
    | start =>
      simp only [show (Op.start == Op.reset) = false from rfl, Bool.or_false, ih]
      by_cases h1 : es.any (fun x => x.2 == Op.reset) = true
      · simp [h1]
      · by_cases h2 : (e.2 == Op.reset) = true <;> simp [h1, h2]
    | stop =>
      simp only [show (Op.stop == Op.reset) = false from rfl, Bool.or_false, ih]
      by_cases h1 : es.any (fun x => x.2 == Op.reset) = true
      · simp [h1]
      · by_cases h2 : (e.2 == Op.reset) = true <;> simp [h1, h2]

theorem gapSum_snoc (es : List (τ × Op)) (t : τ) (k : Op) (T : τ) :
    gapSum (es ++ [(t, k)]) T = gapSum es t + (if k = .start then T - t else 0) := by
  induction es with
  | nil => cases k <;> simp [gapSum]
  | cons e es ih =>
    cases es with
    | nil =>
      simp only [List.cons_append, List.nil_append, gapSum]
      cases k <;> simp
    | cons e' es =>
      have ih' : gapSum (e' :: es ++ [(t, k)]) T = gapSum (e' :: es) t + (if k = .start then T - t else 0) := ih
      simp only [List.cons_append] at ih' ⊢
      simp only [gapSum, ih']
      abel

theorem specTotal_snoc (es : List (τ × Op)) (t : τ) (k : Op) (T : τ) :
    specTotal (es ++ [(t, k)]) T =
      if k = .reset then 0 else specTotal es t + (if k = .start then T - t else 0) := by
  unfold specTotal
  rw [sinceReset_snoc]
  cases k with
  | reset => simp [gapSum]
  | start => simp [gapSum_snoc]
  | stop => simp [gapSum_snoc]

/-! ### the refinement for one label -/

theorem elapsedEntry_total (e : Entry τ) (T : τ) :
    elapsedEntry e true T = (match e.t0 with | some s => T - s | none => 0) + e.td := by
  unfold elapsedEntry; cases e.t0 <;> simp

/-- Invariant linking the accumulators to the history — for EVERY query time `T` (over a group the
    identity is algebraic; the order of the clock values plays no role) -/
structure Refines (es : List (τ × Op)) (e : Entry τ) : Prop where
  t0_eq : e.t0 = (trailingStarts es).head?.map (·.1)
  total : ∀ T, specTotal es T = elapsedEntry e true T

theorem refines_nil : Refines ([] : List (τ × Op)) Entry.fresh := by
  refine ⟨by simp [trailingStarts, Entry.fresh], ?_⟩
  intro T
  simp [specTotal, sinceReset, gapSum, elapsedEntry, Entry.fresh]

theorem refines_snoc (es : List (τ × Op)) (e : Entry τ) (t : τ) (k : Op) (h : Refines es e) :
    Refines (es ++ [(t, k)]) (mach e (t, k)) := by
  obtain ⟨h0, htot⟩ := h
  have hI := htot t
  cases k with
  | start =>
    cases ht0 : e.t0 with
    | none =>
      have hts : trailingStarts es = [] := by
        rw [ht0] at h0
        cases hh : trailingStarts es with
        | nil => rfl
        | cons a l => simp [hh] at h0
      refine ⟨by simp [mach, startEntry, ht0, trailingStarts_snoc, hts], ?_⟩
      intro T
      rw [specTotal_snoc, hI]
      simp [mach, startEntry, ht0, elapsedEntry]
      abel
    | some s0 =>
      refine ⟨?_, ?_⟩
      · rw [ht0] at h0
        cases hh : trailingStarts es with
        | nil => simp [hh] at h0
        | cons a l =>
          simp [hh] at h0
          simp [mach, startEntry, ht0, trailingStarts_snoc, hh, h0]
      · intro T
        rw [specTotal_snoc, hI]
        simp [mach, startEntry, ht0, elapsedEntry]
        abel
  | stop =>
    refine ⟨by cases ht0 : e.t0 <;> simp [mach, stopEntry, ht0, trailingStarts_snoc], ?_⟩
    intro T
    rw [specTotal_snoc, hI]
    cases ht0 : e.t0 with
    | none => simp [mach, stopEntry, ht0, elapsedEntry]
    | some s0 => simp [mach, stopEntry, ht0, elapsedEntry]; abel
  | reset =>
    refine ⟨by simp [mach, resetEntry, trailingStarts_snoc], ?_⟩
    intro T
    rw [specTotal_snoc]
    simp [mach, resetEntry, elapsedEntry]

theorem refines_machFold (es : List (τ × Op)) : Refines es (machFold es) := by
  induction es using List.reverseRecOn with
  | nil => exact refines_nil
  | append_singleton es ev ih =>
    rw [machFold_snoc]
    obtain ⟨t, k⟩ := ev
    exact refines_snoc es (machFold es) t k ih

theorem elapsedEntry_machFold (es : List (τ × Op)) (T : τ) (total : Bool) :
    elapsedEntry (machFold es) total T = if total then specTotal es T else specCurrent es T := by
  have h := refines_machFold es
  cases total with
  | true => simp [h.total T]
  | false =>
    simp only [Bool.false_eq_true, if_false, elapsedEntry, specCurrent, h.t0_eq]
    cases (trailingStarts es).head? <;> simp

/-! ### dictionary -/

theorem Store.get_set (s : Store L τ) (l l' : L) (e : Entry τ) :
    (s.set l e).get l' = if l = l' then some e else s.get l' := by
  induction s with
  | nil => simp [Store.set, Store.get]
  | cons p s ih =>
    obtain ⟨k, x⟩ := p
    by_cases hk : k = l
    · subst hk
      by_cases hl : k = l' <;> simp [Store.set, Store.get, hl]
    · by_cases hl : k = l'
      · subst hl
        have : ¬ l = k := fun h => hk h.symm
        simp [Store.set, Store.get, hk, this]
      · simp [Store.set, Store.get, hk, hl, ih]

theorem Store.mem_keys_iff (s : Store L τ) (l : L) : l ∈ s.keys ↔ (s.get l).isSome = true := by
  induction s with
  | nil => simp [Store.keys, Store.get]
  | cons p s ih =>
    obtain ⟨k, x⟩ := p
    by_cases hk : k = l
    · simp [Store.keys, Store.get, hk]
    · have : ¬ l = k := fun h => hk h.symm
      simp only [Store.keys, List.map_cons, List.mem_cons, this, false_or, Store.get, hk, if_false]
      exact ih

/-! ### idempotence of the per-entry operations at a fixed time -/

theorem startEntry_idem (e : Entry τ) (t : τ) : startEntry (startEntry e t) t = startEntry e t := by
  cases h : e.t0 <;> simp [startEntry, h]

theorem stopEntry_idem (e : Entry τ) (t : τ) : stopEntry (stopEntry e t) t = stopEntry e t := by
  cases h : e.t0 <;> simp [stopEntry, h]

theorem resetEntry_idem (e : Entry τ) : resetEntry (resetEntry e) = resetEntry e := rfl

/-! ### the loops of `__init__`, `start`, `stop`, `reset` seen through `get` -/

theorem initLoop_get (ls : List L) (s : Store L τ) (l' : L) :
    (ls.foldl (fun s l => s.set l Entry.fresh) s).get l' =
      if l' ∈ ls then some Entry.fresh else s.get l' := by
  induction ls generalizing s with
  | nil => simp
  | cons l ls ih =>
    simp only [List.foldl_cons, ih, Store.get_set, List.mem_cons]
    by_cases h1 : l' ∈ ls
    · simp [h1]
    · by_cases h2 : l = l'
      · simp [h2]
      · have : ¬ l' = l := fun h => h2 h.symm
        simp [h1, h2, this]

theorem startOne_get (s : Store L τ) (t : τ) (l l' : L) :
    (startOne s t l).get l' =
      if l = l' then some (startEntry ((s.get l).getD Entry.fresh) t) else s.get l' := by
  unfold startOne
  cases h : s.get l <;> simp [Store.get_set]

theorem startLoop_get (ls : List L) (s : Store L τ) (t : τ) (l' : L) :
    (ls.foldl (fun s l => startOne s t l) s).get l' =
      if l' ∈ ls then some (startEntry ((s.get l').getD Entry.fresh) t) else s.get l' := by
  induction ls generalizing s with
  | nil => simp
  | cons l ls ih =>
    simp only [List.foldl_cons, ih, startOne_get, List.mem_cons]
    by_cases h2 : l = l'
    · subst h2
      by_cases h1 : l ∈ ls <;> simp [h1, startEntry_idem]
    · have : ¬ l' = l := fun h => h2 h.symm
      by_cases h1 : l' ∈ ls <;> simp [h1, h2, this]

theorem isSome_get_set (s : Store L τ) (l : L) (e : Entry τ) (h : (s.get l).isSome = true) (x : L) :
    ((s.set l e).get x).isSome = (s.get x).isSome := by
  rw [Store.get_set]
  by_cases hx : l = x
  · subst hx; simp [h]
  · simp [hx]

theorem updList_ok (f : Entry τ → Entry τ) (s : Store L τ) (ls : List L) :
    (updList f s ls).2 = ls.all (fun l => (s.get l).isSome) := by
  induction ls generalizing s with
  | nil => simp [updList]
  | cons l ls ih =>
    unfold updList
    cases h : s.get l with
    | none => simp [h]
    | some e =>
      have hs : (s.get l).isSome = true := by simp [h]
      simp only [ih, List.all_cons, h, Option.isSome_some, Bool.true_and]
      congr 1
      funext x
      exact isSome_get_set s l (f e) hs x

theorem updList_get (f : Entry τ → Entry τ) (hf : ∀ e, f (f e) = f e) (s : Store L τ) (ls : List L) (l' : L) :
    (updList f s ls).1.get l' =
      if l' ∈ ls.takeWhile (fun l => (s.get l).isSome) then (s.get l').map f else s.get l' := by
  induction ls generalizing s with
  | nil => simp [updList]
  | cons l ls ih =>
    unfold updList
    cases h : s.get l with
    | none => simp [h]
    | some e =>
      have hs : (s.get l).isSome = true := by simp [h]
      have hp : (fun x => ((s.set l (f e)).get x).isSome) = (fun x => (s.get x).isSome) := by
        funext x; exact isSome_get_set s l (f e) hs x
      rw [ih (s.set l (f e)), hp]
      simp only [List.takeWhile_cons, hs, if_true, List.mem_cons, Store.get_set]
      by_cases h2 : l = l'
      · subst h2
        by_cases h1 : l ∈ List.takeWhile (fun x => (s.get x).isSome) ls <;> simp [h1, h, hf]
      · have : ¬ l' = l := fun hh => h2 hh.symm
        by_cases h1 : l' ∈ List.takeWhile (fun x => (s.get x).isSome) ls <;> simp [h1, h2, this]

/-! ### the history-based specification under appending a call -/

theorem labelHistoryFrom_append (c : Cfg L) (l : L) (p a b : List (Call L τ)) :
    labelHistoryFrom c l p (a ++ b) = labelHistoryFrom c l p a ++ labelHistoryFrom c l (p ++ a) b := by
  induction a generalizing p with
  | nil => simp [labelHistoryFrom]
  | cons k a ih =>
    simp only [List.cons_append, labelHistoryFrom, ih, List.append_assoc]
    simp

theorem labelHistory_snoc (c : Cfg L) (pre : List (Call L τ)) (k : Call L τ) (l : L) :
    labelHistory c (pre ++ [k]) l =
      labelHistory c pre l ++ (if reaches c pre k l then [(k.time, k.op)] else []) := by
  simp [labelHistory, labelHistoryFrom_append, labelHistoryFrom]

theorem known_snoc (c : Cfg L) (pre : List (Call L τ)) (k : Call L τ) (l : L) :
    known c (pre ++ [k]) l =
      (known c pre l || (k.op == .start && (c.startLabels k.arg).contains l)) := by
  simp [known, List.any_append, Bool.or_assoc]

theorem known_mono (c : Cfg L) (p h : List (Call L τ)) (l : L) (hk : known c (p ++ h) l = false) :
    known c p l = false := by
  simp only [known, List.any_append, Bool.or_eq_false_iff] at hk ⊢
  exact ⟨hk.1, hk.2.1⟩

theorem reaches_known (c : Cfg L) (pre : List (Call L τ)) (k : Call L τ) (l : L)
    (hop : k.op ≠ .start) (h : reaches c pre k l = true) : known c pre l = true := by
  unfold reaches at h
  cases hk : k.op with
  | start => exact absurd hk hop
  | stop =>
    simp only [hk] at h
    cases ht : c.explicitTargets k.arg with
    | none => simpa [ht] using h
    | some ls =>
      simp only [ht, List.contains_eq_mem, decide_eq_true_eq] at h
      have := (List.mem_takeWhile_imp h)
      simpa using this
  | reset =>
    simp only [hk] at h
    cases ht : c.explicitTargets k.arg with
    | none => simpa [ht] using h
    | some ls =>
      simp only [ht, List.contains_eq_mem, decide_eq_true_eq] at h
      have := (List.mem_takeWhile_imp h)
      simpa using this

/-- a label that does not exist has received no event -/
theorem labelHistoryFrom_unknown (c : Cfg L) (l : L) (p h : List (Call L τ))
    (hk : known c (p ++ h) l = false) : labelHistoryFrom c l p h = [] := by
  induction h generalizing p with
  | nil => simp [labelHistoryFrom]
  | cons k rest ih =>
    have hk' : known c ((p ++ [k]) ++ rest) l = false := by simpa using hk
    have hp : known c p l = false := known_mono c p (k :: rest) l hk
    have hpk : known c (p ++ [k]) l = false := known_mono c (p ++ [k]) rest l hk'
    have hr : reaches c p k l = false := by
      by_cases hop : k.op = .start
      · rw [known_snoc] at hpk
        simp only [hop, beq_self_eq_true, Bool.true_and, Bool.or_eq_false_iff] at hpk
        have hnm : ¬ l ∈ c.startLabels k.arg := by simpa using hpk.2
        simp [reaches, hop, hnm]
      · cases hr : reaches c p k l with
        | false => rfl
        | true => rw [reaches_known c p k l hop hr] at hp; exact absurd hp (by simp)
    simp [labelHistoryFrom, hr, ih (p ++ [k]) hk']

theorem labelHistory_unknown (c : Cfg L) (h : List (Call L τ)) (l : L) (hk : known c h l = false) :
    labelHistory c h l = [] :=
  labelHistoryFrom_unknown c l [] h (by simpa using hk)

/-! ### the invariant: dictionary = specification, label by label -/

/-- the timer object represents the call history `pre` -/
structure Represents (c : Cfg L) (pre : List (Call L τ)) (T : Timer L τ) : Prop where
  dflt : T.dflt = c.dflt
  all : T.all = c.all
  get : ∀ l, T.store.get l = if known c pre l then some (machFold (labelHistory c pre l)) else none

theorem represents_init (c : Cfg L) :
    Represents c ([] : List (Call L τ)) (Timer.init c.init c.dflt c.all : Timer L τ) := by
  refine ⟨rfl, rfl, ?_⟩
  intro l
  have hk : known c ([] : List (Call L τ)) l = decide (l ∈ c.initLabels) := by simp [known]
  have hg : (Timer.init c.init c.dflt c.all : Timer L τ).store.get l =
      if l ∈ c.initLabels then some Entry.fresh else none := by
    unfold Timer.init Cfg.initLabels
    cases c.init <;> rw [initLoop_get] <;> simp [Store.get]
  rw [hg, hk]
  by_cases h : l ∈ c.initLabels <;> simp [h, labelHistory, labelHistoryFrom, machFold]

theorem isSome_of_represents {c : Cfg L} {pre : List (Call L τ)} {T : Timer L τ}
    (h : Represents c pre T) (l : L) : (T.store.get l).isSome = known c pre l := by
  rw [h.get l]; cases known c pre l <;> simp

theorem targets_eq {c : Cfg L} {pre : List (Call L τ)} {T : Timer L τ} (h : Represents c pre T)
    (a : Arg L) :
    T.targets a = match c.explicitTargets a with
      | none => T.store.keys
      | some ls => ls := by
  cases a with
  | none =>
    simp only [Timer.targets, Cfg.explicitTargets, h.dflt, h.all]
    by_cases hd : c.dflt = c.all <;> simp [hd]
  | one l =>
    simp only [Timer.targets, Cfg.explicitTargets, h.all]
    by_cases hd : l = c.all <;> simp [hd]
  | many ls => simp [Timer.targets, Cfg.explicitTargets]

/-- key lemma for `stop`/`reset`: the update loop reaches exactly the labels `reaches` lists, and
    raises exactly when `raisesKey` says so -/
theorem upd_reaches {c : Cfg L} {pre : List (Call L τ)} {T : Timer L τ} (h : Represents c pre T)
    (k : Call L τ) (hop : k.op ≠ .start) (f : Entry τ → Entry τ) (hf : ∀ e, f (f e) = f e) (l : L) :
    (updList f T.store (T.targets k.arg)).1.get l =
        (if reaches c pre k l then (T.store.get l).map f else T.store.get l) ∧
      (updList f T.store (T.targets k.arg)).2 = !(raisesKey c pre k) := by
  have hp : (fun x => (T.store.get x).isSome) = known c pre := by
    funext x; exact isSome_of_represents h x
  rw [updList_get f hf, updList_ok, targets_eq h, hp]
  have hreach : reaches c pre k l = match c.explicitTargets k.arg with
      | none => known c pre l
      | some ls => (ls.takeWhile (known c pre)).contains l := by
    unfold reaches
    cases hk : k.op with
    | start => exact absurd hk hop
    | stop => rfl
    | reset => rfl
  have hraise : raisesKey c pre k = match c.explicitTargets k.arg with
      | none => false
      | some ls => !(ls.all (known c pre)) := by
    unfold raisesKey
    cases hk : k.op with
    | start => exact absurd hk hop
    | stop => rfl
    | reset => rfl
  rw [hreach, hraise]
  cases ht : c.explicitTargets k.arg with
  | some ls => simp
  | none =>
    have hall : ∀ x ∈ T.store.keys, known c pre x = true := by
      intro x hx
      rw [← isSome_of_represents h x]
      exact (Store.mem_keys_iff _ _).mp hx
    have htw : T.store.keys.takeWhile (known c pre) = T.store.keys := by
      rw [List.takeWhile_eq_self_iff]; exact hall
    have hmem : (l ∈ T.store.keys) ↔ known c pre l = true := by
      rw [Store.mem_keys_iff, isSome_of_represents h l]
    simp only [htw]
    refine ⟨?_, ?_⟩
    · by_cases hk : known c pre l = true
      · simp [hk, hmem.mpr hk]
      · have : ¬ l ∈ T.store.keys := fun hm => hk (hmem.mp hm)
        simp [this, hk]
    · simpa using hall

theorem represents_apply {c : Cfg L} {pre : List (Call L τ)} {T : Timer L τ} (h : Represents c pre T)
    (k : Call L τ) :
    Represents c (pre ++ [k]) (T.apply k).1 ∧ (T.apply k).2 = !(raisesKey c pre k) := by
  cases hop : k.op with
  | start =>
    refine ⟨⟨?_, ?_, ?_⟩, ?_⟩
    · simp [Timer.apply, hop, Timer.start, h.dflt]
    · simp [Timer.apply, hop, Timer.start, h.all]
    · intro l
      have hsl : T.startLabels k.arg = c.startLabels k.arg := by
        cases k.arg <;> simp [Timer.startLabels, Cfg.startLabels, h.dflt]
      simp only [Timer.apply, hop, Timer.start, startLoop_get, hsl, known_snoc, labelHistory_snoc,
        beq_self_eq_true, Bool.true_and, reaches, List.contains_eq_mem]
      by_cases hm : l ∈ c.startLabels k.arg
      · simp only [hm, if_true, decide_true, Bool.or_true, machFold_snoc, mach]
        rw [h.get l]
        cases hk : known c pre l with
        | true => simp
        | false => simp [labelHistory_unknown c pre l hk, machFold]
      · simp [hm, h.get l]
    · simp [Timer.apply, hop, raisesKey]
  | stop =>
    have hne : k.op ≠ .start := by simp [hop]
    refine ⟨⟨?_, ?_, ?_⟩, ?_⟩
    · simp [Timer.apply, hop, Timer.stop, h.dflt]
    · simp [Timer.apply, hop, Timer.stop, h.all]
    · intro l
      have := (upd_reaches h k hne (fun e => stopEntry e k.time) (fun e => stopEntry_idem e k.time) l).1
      simp only [Timer.apply, hop, Timer.stop, this, known_snoc, labelHistory_snoc]
      simp only [show (Op.stop == Op.start) = false from rfl, Bool.false_and, Bool.or_false]
      cases hr : reaches c pre k l with
      | false => simp [h.get l]
      | true =>
        have hk := reaches_known c pre k l hne hr
        simp [h.get l, hk, machFold_snoc, mach]
    · have := (upd_reaches h k hne (fun e => stopEntry e k.time) (fun e => stopEntry_idem e k.time)
        c.dflt).2
      simpa [Timer.apply, hop, Timer.stop] using this
  | reset =>
    have hne : k.op ≠ .start := by simp [hop]
    refine ⟨⟨?_, ?_, ?_⟩, ?_⟩
    · simp [Timer.apply, hop, Timer.reset, h.dflt]
    · simp [Timer.apply, hop, Timer.reset, h.all]
    · intro l
      have := (upd_reaches h k hne resetEntry resetEntry_idem l).1
      simp only [Timer.apply, hop, Timer.reset, this, known_snoc, labelHistory_snoc]
      simp only [show (Op.reset == Op.start) = false from rfl, Bool.false_and, Bool.or_false]
      cases hr : reaches c pre k l with
      | false => simp [h.get l]
      | true =>
        have hk := reaches_known c pre k l hne hr
        simp [h.get l, hk, machFold_snoc, mach]
    · have := (upd_reaches h k hne resetEntry resetEntry_idem c.dflt).2
      simpa [Timer.apply, hop, Timer.reset] using this

theorem represents_run {c : Cfg L} (pre h : List (Call L τ)) (T : Timer L τ)
    (hT : Represents c pre T) : Represents c (pre ++ h) (T.run h) := by
  induction h generalizing pre T with
  | nil => simpa [Timer.run] using hT
  | cons k rest ih =>
    have := ih (pre ++ [k]) (T.apply k).1 (represents_apply hT k).1
    simpa [Timer.run] using this


/-- **the multi-label refinement over an arbitrary clock** -/
theorem timer_refines_stopwatch (c : Cfg L) (h : List (Call L τ)) (now : τ) (label : Option L) (total : Bool) :
    ((Timer.init c.init c.dflt c.all).run h).elapsed label total now = specElapsed c h label total now := by
  have R : Represents c h ((Timer.init c.init c.dflt c.all).run h) := by
    simpa using represents_run [] h _ (represents_init c)
  cases label with
  | none =>
    simp only [Timer.elapsed, specElapsed, Option.getD_none, R.dflt, R.get c.dflt, Option.isNone_none, if_true]
    cases hk : known c h c.dflt with
    | true => simp [elapsedEntry_machFold]
    | false => simp
  | some l =>
    simp only [Timer.elapsed, specElapsed, Option.getD_some, R.get l, Option.isNone_some]
    cases hk : known c h l with
    | true => simp [elapsedEntry_machFold]
    | false => simp

theorem timer_keyerror (c : Cfg L) (h : List (Call L τ)) (k : Call L τ) :
    (((Timer.init c.init c.dflt c.all).run h).apply k).2 = !(raisesKey c h k) := by
  have R : Represents c h ((Timer.init c.init c.dflt c.all).run h) := by
    simpa using represents_run [] h _ (represents_init c)
  exact (represents_apply R k).2

/-! ### with an ordered clock: the stop-watch reading is a duration -/

section Ordered
variable [LinearOrder τ] [IsOrderedAddMonoid τ]

/-! ### time order of a label's events -/

theorem labelHistoryFrom_times (c : Cfg L) (l : L) (p h : List (Call L τ)) :
    ∀ e ∈ labelHistoryFrom c l p h, ∃ k ∈ h, k.time = e.1 := by
  induction h generalizing p with
  | nil => simp [labelHistoryFrom]
  | cons k rest ih =>
    intro e he
    simp only [labelHistoryFrom, List.mem_append] at he
    rcases he with he | he
    · by_cases hr : reaches c p k l = true
      · simp only [hr, if_true, List.mem_singleton] at he
        exact ⟨k, by simp, by simp [he]⟩
      · simp [hr] at he
    · obtain ⟨k', hk', ht⟩ := ih (p ++ [k]) e he
      exact ⟨k', by simp [hk'], ht⟩

theorem labelHistoryFrom_sorted (c : Cfg L) (l : L) (p h : List (Call L τ))
    (hs : h.Pairwise (fun a b => a.time ≤ b.time)) :
    (labelHistoryFrom c l p h).Pairwise (fun a b => a.1 ≤ b.1) := by
  induction h generalizing p with
  | nil => simp [labelHistoryFrom]
  | cons k rest ih =>
    rw [List.pairwise_cons] at hs
    simp only [labelHistoryFrom]
    rw [List.pairwise_append]
    refine ⟨?_, ih (p ++ [k]) hs.2, ?_⟩
    · by_cases hr : reaches c p k l = true <;> simp [hr]
    · intro a ha b hb
      by_cases hr : reaches c p k l = true
      · simp only [hr, if_true, List.mem_singleton] at ha
        obtain ⟨k', hk', ht⟩ := labelHistoryFrom_times c l (p ++ [k]) rest b hb
        rw [ha, ← ht]
        exact hs.1 k' hk'
      · simp [hr] at ha


theorem sinceReset_sublist (es : List (τ × Op)) : (sinceReset es).Sublist es := by
  induction es with
  | nil => simp [sinceReset]
  | cons e es ih =>
    unfold sinceReset
    by_cases h1 : es.any (fun x => x.2 == Op.reset) = true
    · simp only [h1, if_true]; exact ih.trans (List.sublist_cons_self _ _)
    · by_cases h2 : (e.2 == Op.reset) = true
      · simp only [h1, h2, if_true, Bool.false_eq_true, if_false]; exact List.sublist_cons_self _ _
      · simp [h1, h2]

theorem gapSum_nonneg (es : List (τ × Op)) (now : τ) (hs : es.Pairwise (fun a b => a.1 ≤ b.1))
    (hn : ∀ e ∈ es, e.1 ≤ now) : 0 ≤ gapSum es now := by
  induction es with
  | nil => simp [gapSum]
  | cons e es ih =>
    cases es with
    | nil =>
      simp only [gapSum]
      split
      · exact sub_nonneg.mpr (hn e (by simp))
      · exact le_refl _
    | cons e' es =>
      rw [List.pairwise_cons] at hs
      simp only [gapSum]
      apply add_nonneg
      · split
        · exact sub_nonneg.mpr (hs.1 e' (by simp))
        · exact le_refl _
      · exact ih hs.2 (fun x hx => hn x (by simp [hx]))

/-- on a non-decreasing clock the ideal stop-watch never shows a negative time -/
theorem specTotal_nonneg (c : Cfg L) (h : List (Call L τ)) (now : τ) (hm : Monotone h now) (l : L) :
    0 ≤ specTotal (labelHistory c h l) now := by
  have hsorted := labelHistoryFrom_sorted c l [] h hm.1
  have hsub := sinceReset_sublist (labelHistory c h l)
  apply gapSum_nonneg
  · exact hsorted.sublist hsub
  · intro e he
    obtain ⟨k, hk, ht⟩ := labelHistoryFrom_times c l [] h e (hsub.subset he)
    rw [← ht]; exact hm.2 k hk

end Ordered

end Scico.Driver.Clock
