/-
  Collapse rules of the stacks and `shape_to_size` (model in Scico/Model/Shape.lean).
-/
import Scico.Model.Shape

namespace Scico.Shape

theorem prodList_cons (a : Nat) (l : List Nat) : prodList (a :: l) = a * prodList l := rfl

/-- sum of the sizes of `k` copies of a shape -/
theorem sum_replicate_size (s : List Nat) (rest : List NShape) (h : ∀ t ∈ rest, t = .plain s) :
    ((rest.map shapeToSize).foldr (· + ·) 0) = rest.length * prodList s := by
  induction rest with
  | nil => simp
  | cons t rest ih =>
    have ht : t = .plain s := h t (by simp)
    have ih' := ih (fun u hu => h u (by simp [hu]))
    simp only [List.map_cons, List.foldr_cons, List.length_cons, ih', ht, shapeToSize]
    rw [Nat.succ_mul, Nat.add_comm]

/-- `is_collapsible`: a non-empty list is collapsible iff its first shape is plain and all the
    others are equal to it -/
theorem isCollapsible_iff (s : NShape) (rest : List NShape) :
    isCollapsible (s :: rest) = true ↔ (s.isNested = false ∧ ∀ t ∈ rest, t = s) := by
  simp [isCollapsible, List.all_eq_true]

theorem isBlockable_iff (shapes : List NShape) :
    isBlockable shapes = true ↔ ∀ t ∈ shapes, t.isNested = false := by
  simp [isBlockable, List.any_eq_true]

/-- **stacked**: exactly when collapsing is allowed and all shapes are one and the same plain
    shape `S`; the result is the plain shape `(N, *S)` -/
theorem collapse_stacked_iff (s : NShape) (rest : List NShape) (allow : Bool) (d : List Nat) :
    collapseShapes (s :: rest) allow = some (.stacked d)
      ↔ (allow = true ∧ ∃ dims, s = .plain dims ∧ (∀ t ∈ rest, t = s) ∧ d = (rest.length + 1) :: dims) := by
  unfold collapseShapes
  by_cases hc : isCollapsible (s :: rest) = true
  · obtain ⟨hn, hall⟩ := (isCollapsible_iff s rest).mp hc
    cases s with
    | nested bs => simp [NShape.isNested] at hn
    | plain dims =>
      cases allow
      · simp [hc, isBlockable]
      · simp only [hc, Bool.and_self, if_true, Option.some.injEq, Collapsed.stacked.injEq,
          List.length_cons, true_and]
        constructor
        · intro h; exact ⟨dims, rfl, hall, h.symm⟩
        · rintro ⟨dims', h1, _, h3⟩
          injection h1 with h1; subst h1; exact h3.symm
  · have hc' : isCollapsible (s :: rest) = false := by simpa using hc
    simp only [hc', Bool.false_and, Bool.false_eq_true, if_false]
    constructor
    · intro h
      split at h <;> simp at h
    · rintro ⟨_, dims, h1, h2, _⟩
      exfalso
      apply hc
      rw [isCollapsible_iff]
      exact ⟨by rw [h1]; rfl, h2⟩

/-- **error** (twice-nested): exactly when the shapes are not stacked and one of them is nested -/
theorem collapse_error_iff (s : NShape) (rest : List NShape) (allow : Bool) :
    collapseShapes (s :: rest) allow = none
      ↔ (¬ (isCollapsible (s :: rest) = true ∧ allow = true) ∧ ∃ t ∈ s :: rest, t.isNested = true) := by
  unfold collapseShapes
  by_cases hc : (isCollapsible (s :: rest) && allow) = true
  · have hc2 : isCollapsible (s :: rest) = true ∧ allow = true := by simpa using hc
    obtain ⟨hn, _⟩ := (isCollapsible_iff s rest).mp hc2.1
    cases s with
    | nested bs => simp [NShape.isNested] at hn
    | plain dims => simp [hc, hc2]
  · have hc2 : ¬ (isCollapsible (s :: rest) = true ∧ allow = true) := by simpa using hc
    simp only [hc, if_false, hc2, not_false_eq_true, true_and]
    have hany : isBlockable (s :: rest) = !((s :: rest).any NShape.isNested) := rfl
    cases ha : (s :: rest).any NShape.isNested with
    | false =>
      simp only [hany, ha, Bool.not_false, if_true]
      constructor
      · intro h; cases h
      · rintro ⟨t, ht, hn⟩
        have : (s :: rest).any NShape.isNested = true := List.any_eq_true.mpr ⟨t, ht, hn⟩
        rw [ha] at this; cases this
    | true =>
      simp only [hany, ha, Bool.not_true, Bool.false_eq_true, if_false, true_iff]
      exact List.any_eq_true.mp ha

/-- stacking preserves the number of elements: `shape_to_size((N, *S)) = Σ shape_to_size(S)` -/
theorem collapse_stacked_size (s : NShape) (rest : List NShape) (allow : Bool) (d : List Nat)
    (h : collapseShapes (s :: rest) allow = some (.stacked d)) :
    prodList d = ((s :: rest).map shapeToSize).foldr (· + ·) 0 := by
  obtain ⟨_, dims, hs, hall, hd⟩ := (collapse_stacked_iff s rest allow d).mp h
  subst hs; subst hd
  have := sum_replicate_size dims rest hall
  simp only [List.map_cons, List.foldr_cons, this, shapeToSize, prodList_cons]
  rw [Nat.succ_mul, Nat.add_comm]

end Scico.Shape
