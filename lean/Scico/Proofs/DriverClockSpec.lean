/-
  C15, interval timer over an ARBITRARY clock type `τ`: the history-based ideal stop-watch.
  Same shape as `DriverSpec.lean` (which counts integer ticks); here time is measured by adding up
  the lengths of the gaps between consecutive events of a label during which the watch runs.
  Mathlib-free, executable.  No `t0`/`td`/dictionary appears in it.
-/
import Scico.Proofs.DriverSpec

namespace Scico.Driver.Clock
open Scico.Driver
open Scico.Driver.Spec (Cfg)

section
variable {L τ : Type} [DecidableEq L]

/-- a label exists after the calls `pre` iff it was given to the constructor or named by a `start` -/
def known (c : Cfg L) (pre : List (Call L τ)) (l : L) : Bool :=
  c.initLabels.contains l ||
    pre.any (fun k => k.op == .start && (c.startLabels k.arg).contains l)

/-- does the call deliver an event to label `l`?  (as `Spec.reaches`) -/
def reaches (c : Cfg L) (pre : List (Call L τ)) (k : Call L τ) (l : L) : Bool :=
  match k.op with
  | .start => (c.startLabels k.arg).contains l
  | _ =>
    match c.explicitTargets k.arg with
    | none => known c pre l
    | some ls => (ls.takeWhile (known c pre)).contains l

def raisesKey (c : Cfg L) (pre : List (Call L τ)) (k : Call L τ) : Bool :=
  match k.op with
  | .start => false
  | _ =>
    match c.explicitTargets k.arg with
    | none => false
    | some ls => !(ls.all (known c pre))

def labelHistoryFrom (c : Cfg L) (l : L) : List (Call L τ) → List (Call L τ) → List (τ × Op)
  | _, [] => []
  | pre, k :: rest =>
    (if reaches c pre k l then [(k.time, k.op)] else []) ++ labelHistoryFrom c l (pre ++ [k]) rest

def labelHistory (c : Cfg L) (h : List (Call L τ)) (l : L) : List (τ × Op) :=
  labelHistoryFrom c l [] h

end

section
variable {τ : Type} [Add τ] [Sub τ] [Zero τ]

/-- the events after the most recent `reset` (all of them if there is none) -/
def sinceReset : List (τ × Op) → List (τ × Op)
  | [] => []
  | e :: es =>
    if es.any (fun x => x.2 == .reset) then sinceReset es
    else if e.2 == .reset then es else e :: es

/-- time shown by an ideal stop-watch that has received the events `es` (no reset among them)
    when the clock shows `now`: the sum of the lengths of the gaps — between consecutive events,
    and from the last event to `now` — that begin with a `start` -/
def gapSum : List (τ × Op) → τ → τ
  | [], _ => 0
  | [e], now => if e.2 == .start then now - e.1 else 0
  | e :: e' :: es, now => (if e.2 == .start then e'.1 - e.1 else 0) + gapSum (e' :: es) now

/-- `elapsed(total=True)` of the ideal stop-watch -/
def specTotal (es : List (τ × Op)) (now : τ) : τ := gapSum (sinceReset es) now

/-- the maximal trailing run of `start` events -/
def trailingStarts (es : List (τ × Op)) : List (τ × Op) :=
  (es.reverse.takeWhile (fun e => e.2 == .start)).reverse

/-- `elapsed(total=False)`: time since the first `start` of the trailing run of `start`s -/
def specCurrent (es : List (τ × Op)) (now : τ) : τ :=
  match (trailingStarts es).head? with
  | some e => now - e.1
  | none => 0

variable {L : Type} [DecidableEq L]

/-- what `elapsed(label, total)` must return at clock value `now` after the calls `h` -/
def specElapsed (c : Cfg L) (h : List (Call L τ)) (label : Option L) (total : Bool) (now : τ) : Option τ :=
  let l := label.getD c.dflt
  if known c h l then
    some (if total then specTotal (labelHistory c h l) now else specCurrent (labelHistory c h l) now)
  else if label.isNone then some 0
  else none

end

/-- clock values along a history never decrease and none is after `now` -/
def Monotone {L τ : Type} [LE τ] (h : List (Call L τ)) (now : τ) : Prop :=
  h.Pairwise (fun a b => a.time ≤ b.time) ∧ ∀ k ∈ h, k.time ≤ now

end Scico.Driver.Clock
