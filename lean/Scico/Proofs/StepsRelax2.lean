/-
  Proofs/StepsRelax2 — the dual residual reported by `ADMM.norm_dual_residual()`,
  `‖Σ_i ρ_i C_iᵀ (z_i^{k+1} − z_i^k)‖`, tends to `0` along every trajectory of relaxed ADMM (`0 < α < 2`) when the
  adjoints are bounded (`‖C_iᵀ w‖ ≤ B ‖w‖`; automatic in finite dimension).
-/
import Scico.Model.Steps
import Scico.Proofs.StepsEq
import Scico.Proofs.StepsRelax

set_option linter.unusedSectionVars false

namespace Scico.Steps

variable {X Z : Type} [NormedAddCommGroup X] [InnerProductSpace ℝ X]
  [NormedAddCommGroup Z] [InnerProductSpace ℝ Z]

/-- weighted Cauchy–Schwarz on a list: `(Σ w a)² ≤ (Σ w)(Σ w a²)` for `w ≥ 0` -/
theorem list_weighted_cs {ι : Type} (l : List ι) (w a : ι → ℝ) (hw : ∀ i ∈ l, 0 ≤ w i) :
    ((l.map (fun i => w i * a i)).sum) ^ 2 ≤ (l.map w).sum * (l.map (fun i => w i * a i ^ 2)).sum := by
  induction l with
  | nil => simp
  | cons i l ih =>
    have hwi := hw i (by simp)
    have ih' := ih (fun j hj => hw j (by simp [hj]))
    have hR : 0 ≤ (l.map w).sum := List.sum_nonneg (by
      intro v hv; simp only [List.mem_map] at hv; obtain ⟨j, hj, rfl⟩ := hv; exact hw j (by simp [hj]))
    have hT : 0 ≤ (l.map (fun i => w i * a i ^ 2)).sum := List.sum_nonneg (by
      intro v hv; simp only [List.mem_map] at hv; obtain ⟨j, hj, rfl⟩ := hv
      exact mul_nonneg (hw j (by simp [hj])) (by positivity))
    simp only [List.map_cons, List.sum_cons]
    set S := (l.map (fun i => w i * a i)).sum
    set R := (l.map w).sum
    set T := (l.map (fun i => w i * a i ^ 2)).sum
    -- 2 a S ≤ R a² + T
    have key : 2 * a i * S ≤ R * a i ^ 2 + T := by
      by_cases hR0 : R = 0
      · have hS : S = 0 := by
          have : S ^ 2 ≤ 0 := by rw [hR0, zero_mul] at ih'; exact ih'
          have h0 : 0 ≤ S ^ 2 := by positivity
          exact pow_eq_zero_iff two_ne_zero |>.1 (le_antisymm this h0)
        rw [hS, hR0]; simp [hT]
      · have hRp : 0 < R := lt_of_le_of_ne hR (Ne.symm hR0)
        have h1 : 0 ≤ (a i * R - S) ^ 2 := by positivity
        have h2 : 2 * a i * S * R ≤ (R * a i ^ 2 + T) * R := by nlinarith
        exact le_of_mul_le_mul_right h2 hRp
    nlinarith [mul_le_mul_of_nonneg_left key hwi]

theorem norm_list_sum_le' {ι : Type} (l : List ι) (f : ι → X) (g : ι → ℝ) (h : ∀ i ∈ l, ‖f i‖ ≤ g i) :
    ‖(l.map f).sum‖ ≤ (l.map g).sum := by
  induction l with
  | nil => simp
  | cons i l ih =>
    simp only [List.map_cons, List.sum_cons]
    have h1 := h i (by simp)
    have h2 := ih (fun j hj => h j (by simp [hj]))
    have := norm_add_le (f i) ((l.map f).sum)
    linarith

attribute [local instance] realHasSqrt

/-- `norm_dual_residual()` of the model at the state after a step, in terms of rows -/
theorem RS.normDual_next (f : Option (X → ℝ)) (alpha : ℝ) (solveX : List Z → List Z → X → X) (s : RS X Z) :
    admmNormDualImpl (admmOfCons f alpha solveX (s.rows.map (·.c))) (s.next alpha solveX).state
      = ‖(s.rows.map (fun r => r.c.rho • r.c.Cadj (r.znA alpha (s.xn solveX) - r.z))).sum‖ := by
  rw [admm_normDual_spec]
  unfold admmNormDualSpec RS.state RS.next admmOfCons
  simp only [List.map_map]
  congr 2
  generalize s.rows = rows
  generalize s.xn solveX = xn
  induction rows with
  | nil => simp
  | cons r rs ih =>
    simp only [List.map_cons, List.zipWith_cons_cons, Function.comp]
    rw [ih]

/-- `norm_dual_residual()² ≤ B² (Σρ_i) Σρ_i‖z_i⁺ − z_i‖²` -/
theorem RS.normDual_sq_le (f : Option (X → ℝ)) (alpha : ℝ) (solveX : List Z → List Z → X → X) (s : RS X Z)
    (Bd : ℝ) (_hB : 0 ≤ Bd) (hrho : ∀ r ∈ s.rows, 0 < r.c.rho) (hbd : ∀ r ∈ s.rows, ∀ w, ‖r.c.Cadj w‖ ≤ Bd * ‖w‖) :
    admmNormDualImpl (admmOfCons f alpha solveX (s.rows.map (·.c))) (s.next alpha solveX).state ^ 2
      ≤ Bd ^ 2 * ((s.rows.map (fun r => r.c.rho)).sum * s.dzSq alpha solveX) := by
  rw [RS.normDual_next]
  have h1 := norm_list_sum_le' s.rows (fun r => r.c.rho • r.c.Cadj (r.znA alpha (s.xn solveX) - r.z))
    (fun r => r.c.rho * (Bd * ‖r.znA alpha (s.xn solveX) - r.z‖)) (by
      intro r hr
      rw [norm_smul, Real.norm_eq_abs, abs_of_pos (hrho r hr)]
      exact mul_le_mul_of_nonneg_left (hbd r hr _) (hrho r hr).le)
  have h2 := list_weighted_cs s.rows (fun r => r.c.rho) (fun r => Bd * ‖r.znA alpha (s.xn solveX) - r.z‖)
    (fun r hr => (hrho r hr).le)
  have h0 : 0 ≤ ‖(s.rows.map (fun r => r.c.rho • r.c.Cadj (r.znA alpha (s.xn solveX) - r.z))).sum‖ := norm_nonneg _
  have h3 := pow_le_pow_left₀ h0 h1 2
  have e : (s.rows.map (fun r => r.c.rho * (Bd * ‖r.znA alpha (s.xn solveX) - r.z‖) ^ 2)).sum
      = Bd ^ 2 * s.dzSq alpha solveX := by
    unfold RS.dzSq
    rw [← list_sum_map_mul_left]
    congr 1
    apply List.map_congr_left
    intro r _
    ring
  rw [e] at h2
  calc _ ≤ _ := h3
    _ ≤ (s.rows.map (fun r => r.c.rho)).sum * (Bd ^ 2 * s.dzSq alpha solveX) := h2
    _ = _ := by ring

/-- the dual residual accessor tends to `0` along every trajectory (`0 < α < 2`, bounded adjoints) -/
theorem RS.normDual_tendsto {alpha m : ℝ} {cons : List (Con X Z)} {uss : List Z} {solveX : List Z → List Z → X → X}
    {F : Fn X} {xs : X} (H : RelaxHyp alpha m cons uss solveX F xs) (ha : 0 < alpha) (ha2 : alpha < 2)
    (f : Option (X → ℝ)) (Bd : ℝ) (hB : 0 ≤ Bd) (hbd : ∀ c ∈ cons, ∀ w, ‖c.Cadj w‖ ≤ Bd * ‖w‖)
    {s : RS X Z} (h : RS.OK xs cons uss s) :
    Filter.Tendsto (fun k => admmNormDualImpl (admmOfCons f alpha solveX cons) (iter (RS.next alpha solveX) (k + 1) s).state)
      Filter.atTop (nhds 0) := by
  have hdz := (RS.dzSq_tendsto H ha ha2 h).const_mul (Bd ^ 2 * (cons.map (fun c => c.rho)).sum)
  rw [mul_zero] at hdz
  refine tendsto_zero_of_sq_le (fun k => ?_) (fun k => ?_) hdz
  · rw [admm_normDual_spec]; unfold admmNormDualSpec admmOfCons; exact norm_nonneg _
  · have hk := RS.iter_ok alpha solveX k h
    have hc := hk.hc
    have := RS.normDual_sq_le f alpha solveX (iter (RS.next alpha solveX) k s) Bd hB
      (fun r hr => (hk.hb r hr).rho) (fun r hr w => by
        have : r.c ∈ cons := by rw [← hc]; exact List.mem_map_of_mem hr
        exact hbd _ this w)
    rw [hc] at this
    rw [iter_succ']
    have e : ((iter (RS.next alpha solveX) k s).rows.map (fun r => r.c.rho)) = cons.map (fun c => c.rho) := by
      rw [← hc, List.map_map]; rfl
    rw [e] at this
    linarith

end Scico.Steps
