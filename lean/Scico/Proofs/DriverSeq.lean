/-
  C15: any number of `solve()` calls (same callback, arbitrary pauses in between) against ONE
  `solve()` with the total iteration count — by induction over the list of calls from
  `solve_resume`.
-/
import Scico.Proofs.DriverSolve

set_option linter.unusedSimpArgs false

namespace Scico.Driver
open Scico.Driver.Spec

variable {ω ρ ξ α L : Type} [DecidableEq L]

/-- `solver.maxiter = m₀; solver.solve(cb)`, then for each `(g, m)` of the list: a pause of `g`
    ticks, `solver.maxiter = m; solver.solve(cb)` -/
def runSeq (E : Env ω ρ ξ α) (cb : Option (Callback ω)) (d : Drv ω ρ L) (m0 : Nat)
    (rest : List (Nat × Nat)) : Drv ω ρ L :=
  rest.foldl (fun d p => (solve E cb ((d.tick p.1).setMaxiter p.2)).1) (solve E cb (d.setMaxiter m0)).1

/-- iterations requested by the later calls -/
def seqIters (rest : List (Nat × Nat)) : Nat := (rest.map (·.2)).sum

/-- total length of the pauses -/
def seqPause (rest : List (Nat × Nat)) : Nat := (rest.map (·.1)).sum

theorem runSeq_cons (E : Env ω ρ ξ α) (cb : Option (Callback ω)) (d : Drv ω ρ L) (m0 : Nat)
    (p : Nat × Nat) (rest : List (Nat × Nat)) :
    runSeq E cb d m0 (p :: rest) = runSeq E cb ((solve E cb (d.setMaxiter m0)).1.tick p.1) p.2 rest := rfl

/-- **`k` calls ≡ one long call.** -/
theorem solve_sequence (E : Env ω ρ ξ α) (cb : Option (Callback ω)) (rest : List (Nat × Nat))
    (d : Drv ω ρ L) (m0 : Nat)
    (hda : d.timer.dflt ≠ d.timer.all) (hwf : TimerWF d.timer d.clock)
    (hclean : ∀ k < m0 + seqIters rest, tripsB E d.nanstop (afterStep E cb d.world k) = false) :
    let r := runSeq E cb d m0 rest
    let s := solve E cb (d.setMaxiter ((m0 + seqIters rest : Nat) : Int))
    s.2 = .ok ∧ r.world = s.1.world ∧ r.itnum = s.1.itnum ∧ r.rows = s.1.rows ∧ r.timer = s.1.timer ∧
      r.clock = s.1.clock + seqPause rest ∧ r.nanstop = s.1.nanstop := by
  induction rest generalizing d m0 with
  | nil =>
    intro r s
    have t1 : (d.setMaxiter ((m0 + seqIters [] : Nat) : Int)).maxiter.toNat = m0 := by
      simp [seqIters]
    obtain ⟨ok, _⟩ := solve_clean E cb (d.setMaxiter ((m0 + seqIters [] : Nat) : Int)) hda hwf
      (by rw [t1]; intro k hk; exact hclean k (by simp [seqIters]; omega))
    have hrs : r = s.1 := by
      show (solve E cb (d.setMaxiter m0)).1 = (solve E cb (d.setMaxiter ((m0 + seqIters [] : Nat) : Int))).1
      simp [seqIters]
    refine ⟨ok, by rw [hrs], by rw [hrs], by rw [hrs], by rw [hrs], by rw [hrs]; simp [seqPause], by rw [hrs]⟩
  | cons p rest ih =>
    obtain ⟨g, m⟩ := p
    intro r s
    have hsum : seqIters ((g, m) :: rest) = m + seqIters rest := by simp [seqIters]
    have hpause : seqPause ((g, m) :: rest) = g + seqPause rest := by simp [seqPause]
    -- the first call
    have t1 : (d.setMaxiter (m0 : Int)).maxiter.toNat = m0 := by simp
    obtain ⟨ok1, S1⟩ := solve_clean E cb (d.setMaxiter m0) hda hwf
      (by rw [t1]; intro k hk; exact hclean k (by omega))
    have S1w := S1.world; have S1n := S1.nanstop; have S1t := S1.timer
    rw [t1] at S1w
    simp only [setMaxiter_world, setMaxiter_nanstop, setMaxiter_timer, setMaxiter_clock] at S1w S1n S1t
    -- the object before the second call
    let d1 := (solve E cb (d.setMaxiter m0)).1.tick g
    have hd1w : d1.world = worldAt E cb d.world m0 := S1w
    have hd1n : d1.nanstop = d.nanstop := S1n
    have hda1 : d1.timer.dflt ≠ d1.timer.all := by
      show (solve E cb (d.setMaxiter m0)).1.timer.dflt ≠ (solve E cb (d.setMaxiter m0)).1.timer.all
      rw [S1t.1, S1t.2.1]; exact hda
    have hwf1 : TimerWF d1.timer d1.clock := S1t.wf _
    have hclean1 : ∀ k < m + seqIters rest, tripsB E d1.nanstop (afterStep E cb d1.world k) = false := by
      intro k hk
      rw [hd1n, hd1w, ← afterStep_add]
      exact hclean (m0 + k) (by omega)
    obtain ⟨_, iw, ii, ir, it, ic, inn⟩ := ih d1 m hda1 hwf1 hclean1
    -- two calls against one, with the remaining total as the second count
    have hres := solve_resume E cb d m0 (m + seqIters rest) g hda hwf
      (by intro k hk; exact hclean k (by omega))
    obtain ⟨_, _, ok, rw_, ri, rr, rt, rc, _⟩ := hres
    have hcast : ((m0 + seqIters ((g, m) :: rest) : Nat) : Int) = ((m0 + (m + seqIters rest) : Nat) : Int) := by
      rw [hsum]
    have hs : s = solve E cb (d.setMaxiter ((m0 + (m + seqIters rest) : Nat) : Int)) := by
      show solve E cb (d.setMaxiter ((m0 + seqIters ((g, m) :: rest) : Nat) : Int)) = _
      rw [hcast]
    have hr : r = runSeq E cb d1 m rest := rfl
    -- nanstop of the long run
    have t12 : (d.setMaxiter ((m0 + (m + seqIters rest) : Nat) : Int)).maxiter.toNat = m0 + (m + seqIters rest) := by
      simp only [setMaxiter_maxiter, Int.toNat_natCast]
    obtain ⟨_, S⟩ := solve_clean E cb (d.setMaxiter ((m0 + (m + seqIters rest) : Nat) : Int)) hda hwf
      (by rw [t12]; intro k hk; exact hclean k (by omega))
    have t2 : (d1.setMaxiter ((m + seqIters rest : Nat) : Int)).maxiter.toNat = m + seqIters rest := by
      simp only [setMaxiter_maxiter, Int.toNat_natCast]
    obtain ⟨_, S2⟩ := solve_clean E cb (d1.setMaxiter ((m + seqIters rest : Nat) : Int)) hda1 hwf1
      (by rw [t2]; exact hclean1)
    rw [hs, hr]
    refine ⟨ok, ?_, ?_, ?_, ?_, ?_, ?_⟩
    · rw [iw]; exact rw_
    · rw [ii]; exact ri
    · rw [ir]; exact rr
    · rw [it]; exact rt
    · rw [ic, hpause]
      have : (solve E cb (d1.setMaxiter ((m + seqIters rest : Nat) : Int))).1.clock =
          (solve E cb (d.setMaxiter ((m0 + (m + seqIters rest) : Nat) : Int))).1.clock + g := rc
      rw [this]; omega
    · rw [inn, S2.nanstop, S.nanstop]
      simp only [setMaxiter_nanstop]
      exact hd1n

/-! ### after a NaN stop -/

/-- the timer after a `solve()` that the NaN stop interrupted in iteration `j`: the default timer
    is left running and reads the time at the call plus the durations of the steps `0..j` -/
theorem solve_trip_timer (E : Env ω ρ ξ α) (cb : Option (Callback ω)) (d : Drv ω ρ L)
    (hda : d.timer.dflt ≠ d.timer.all) (hwf : TimerWF d.timer d.clock) (j : Nat)
    (hj : j < d.maxiter.toNat)
    (hclean : ∀ k < j, tripsB E d.nanstop (afterStep E cb d.world k) = false)
    (htrip : tripsB E d.nanstop (afterStep E cb d.world j) = true) :
    RunningAt (d.timer.start .none d.clock) (solve E cb d).1.timer (solve E cb d).1.clock
      (d.timer.elapsedDefault true d.clock + stepTime E cb d.world (j + 1)) := by
  have hrun := running_after_start d.timer d.clock hwf
  obtain ⟨dj, hat, hl⟩ := loop_trip E cb (d.timer.start .none d.clock) d.timerStart d.itnum
    (d.timer.elapsedDefault true d.clock) hda hrun j d.maxiter.toNat hj hclean htrip
  unfold solve
  have hm0 : d.timerStart.maxiter = d.maxiter := rfl
  have hi0 : d.timerStart.itnum = d.itnum := rfl
  simp only [hm0, hi0, hl]
  have hadv := hat.timer.advance (dj.clock + E.stepTicks dj.world) (by omega)
  have hw : dj.world = worldAt E cb d.world j := hat.world
  simp only [stepped]
  rw [stepTime_succ]
  have : d.timer.elapsedDefault true d.clock + stepTime E cb d.timerStart.world j +
      (dj.clock + E.stepTicks dj.world - dj.clock) =
      d.timer.elapsedDefault true d.clock + (stepTime E cb d.world j + E.stepTicks (worldAt E cb d.world j)) := by
    rw [hw]; simp only [Drv.timerStart]; omega
  rw [← this]
  exact hadv

theorem RunningAt.wf {T0 T : Timer L} {c e : Nat} (h : RunningAt T0 T c e) : TimerWF T c := by
  obtain ⟨hd, _, s, td, hs, hle, _⟩ := h
  intro e' he' s' hs'
  rw [hs, hd, Store.get_set] at he'
  simp only [if_true, Option.some.injEq] at he'
  subst he'
  simp only [Option.some.injEq] at hs'
  omega

end Scico.Driver
