/-
  C15: the time `solve` reports, seen through the stop-watch refinement.

  `Logged cfg d` : the optimiser's timer object is a `Timer(cfg)` on which exactly the calls of the
  ghost log `d.tlog` were made, in time order.  `solve` keeps this invariant, so the `Time` of a
  record is `elapsed()` of such a timer, i.e. (by `timer_refines_stopwatch`) the ideal stop-watch
  over the log; and the log has a `stop` at the entry and a `start` at the exit of every callback,
  so no tick inside a callback is counted.
-/
import Scico.Proofs.DriverSolve

set_option linter.unusedSimpArgs false

namespace Scico.Driver
open Scico.Driver.Spec

variable {ω ρ ξ α L : Type} [DecidableEq L]

structure Logged (cfg : Cfg L) (d : Drv ω ρ L) : Prop where
  timer : d.timer = (Timer.init cfg.init cfg.dflt cfg.all).run d.tlog
  mono : Monotone d.tlog d.clock

theorem run_snoc (T : Timer L) (h : List (Call L)) (c : Call L) :
    T.run (h ++ [c]) = ((T.run h).apply c).1 := by
  simp [Timer.run, List.foldl_append]

omit [DecidableEq L] in
theorem monotone_snoc {h : List (Call L)} {now : Nat} (hm : Monotone h now) (c : Call L)
    (hc : c.time = now) : Monotone (h ++ [c]) now := by
  obtain ⟨hp, hb⟩ := hm
  refine ⟨?_, ?_⟩
  · rw [List.pairwise_append]
    refine ⟨hp, by simp, ?_⟩
    intro a ha b hb'
    simp only [List.mem_singleton] at hb'
    subst hb'
    rw [hc]; exact hb a ha
  · intro k hk
    simp only [List.mem_append, List.mem_singleton] at hk
    rcases hk with hk | hk
    · exact hb k hk
    · subst hk; omega

omit [DecidableEq L] in
theorem monotone_later {h : List (Call L)} {now now' : Nat} (hm : Monotone h now) (hle : now ≤ now') :
    Monotone h now' :=
  ⟨hm.1, fun k hk => Nat.le_trans (hm.2 k hk) hle⟩

theorem logged_timerStart {cfg : Cfg L} {d : Drv ω ρ L} (hl : Logged cfg d) : Logged cfg d.timerStart := by
  refine ⟨?_, ?_⟩
  · simp only [Drv.timerStart, run_snoc, ← hl.timer, Timer.apply]
  · exact monotone_snoc hl.mono _ rfl

theorem logged_timerStop {cfg : Cfg L} {d : Drv ω ρ L} (hl : Logged cfg d) : Logged cfg d.timerStop.1 := by
  refine ⟨?_, ?_⟩
  · simp only [Drv.timerStop, run_snoc, ← hl.timer, Timer.apply]
  · exact monotone_snoc hl.mono _ rfl

/-- anything that leaves the timer and its log alone and does not turn the clock back -/
theorem logged_of_eq {cfg : Cfg L} {d d' : Drv ω ρ L} (hl : Logged cfg d) (ht : d'.timer = d.timer)
    (hg : d'.tlog = d.tlog) (hc : d.clock ≤ d'.clock) : Logged cfg d' :=
  ⟨by rw [ht, hg]; exact hl.timer, by rw [hg]; exact monotone_later hl.mono hc⟩

theorem logged_body (E : Env ω ρ ξ α) (cb : Option (Callback ω)) {cfg : Cfg L} {d : Drv ω ρ L}
    (i : Int) (hl : Logged cfg d) : Logged cfg (body E cb d i).1 := by
  have h1 : Logged cfg (stepped E d i) := logged_of_eq hl rfl rfl (by simp [stepped])
  have h2 : Logged cfg (recorded E (stepped E d i)) := logged_of_eq h1 rfl rfl (Nat.le_refl _)
  rw [body_eq]
  split
  · exact h1
  · cases cb with
    | none => exact h2
    | some c =>
      simp only
      have h3 := logged_timerStop h2
      rcases hts : (recorded E (stepped E d i)).timerStop with ⟨d3, ok⟩
      rw [hts] at h3
      cases ok with
      | false => exact h3
      | true =>
        have h4 : Logged cfg (called c d3) := logged_of_eq h3 rfl rfl (by simp [called])
        exact logged_timerStart h4

theorem logged_loop (E : Env ω ρ ξ α) (cb : Option (Callback ω)) {cfg : Cfg L} (n : Nat) (i : Int)
    {d : Drv ω ρ L} (hl : Logged cfg d) : Logged cfg (loop E cb n i d).1 := by
  induction n generalizing i d with
  | zero => exact hl
  | succ n ih =>
    simp only [loop]
    have hb := logged_body E cb i hl
    rcases hbd : body E cb d i with ⟨d', o⟩
    rw [hbd] at hb
    cases o with
    | ok => exact ih (i + 1) hb
    | nan => exact hb
    | key => exact hb

theorem logged_solve (E : Env ω ρ ξ α) (cb : Option (Callback ω)) {cfg : Cfg L} {d : Drv ω ρ L}
    (hl : Logged cfg d) : Logged cfg (solve E cb d).1 := by
  unfold solve
  have hm0 : d.timerStart.maxiter = d.maxiter := rfl
  have hi0 : d.timerStart.itnum = d.itnum := rfl
  simp only [hm0, hi0]
  have h0 := logged_timerStart hl
  have h1 := logged_loop E cb d.maxiter.toNat d.itnum h0
  rcases hlp : loop E cb d.maxiter.toNat d.itnum d.timerStart with ⟨d1, o⟩
  rw [hlp] at h1
  cases o with
  | nan => exact h1
  | key => exact h1
  | ok =>
    simp only
    have h2 := logged_timerStop h1
    rcases hts : d1.timerStop with ⟨d2, ok⟩
    rw [hts] at h2
    cases ok with
    | false => exact h2
    | true =>
      simp only
      split
      · exact logged_of_eq h2 rfl rfl (Nat.le_refl _)
      · exact h2

theorem logged_init (w : ω) (o : Options) (cfg : Cfg L) (hc : cfg.init = .none) (c : Nat) :
    Logged cfg (Drv.init (ρ := ρ) w o cfg.dflt cfg.all c) := by
  refine ⟨by simp [Drv.init, Timer.run, hc], ?_⟩
  simp [Drv.init, Monotone]

/-! ### the timer calls `solve` has issued when record `k` is made -/

/-- log at the moment record `k` of this `solve` call is made -/
def logAt (E : Env ω ρ ξ α) (cb : Option (Callback ω)) (d : Drv ω ρ L) (k : Nat) : List (Call L) :=
  d.tlog ++ [⟨d.clock, .start, .none⟩] ++ (List.range k).flatMap (specBracket E cb d.world d.clock)

/-- clock at the moment record `k` is made -/
def recordClock (E : Env ω ρ ξ α) (cb : Option (Callback ω)) (d : Drv ω ρ L) (k : Nat) : Nat :=
  d.clock + stepTime E cb d.world (k + 1) + cbTime E cb d.world k

theorem known_of_start_none (cfg : Cfg L) (A B : List (Call L)) (t : Nat) :
    known cfg (A ++ [⟨t, .start, .none⟩] ++ B) cfg.dflt = true := by
  simp [known, List.any_append, Cfg.startLabels]

/-- **the reported time is the ideal stop-watch over the issued timer calls** -/
theorem row_time_is_stopwatch (E : Env ω ρ ξ α) (c : Callback ω) (cfg : Cfg L) (d : Drv ω ρ L)
    (hl : Logged cfg d) (hda : d.timer.dflt ≠ d.timer.all) (hwf : TimerWF d.timer d.clock) (k : Nat)
    (hclean : ∀ j < k, tripsB E d.nanstop (afterStep E (some c) d.world j) = false) :
    Monotone (logAt E (some c) d k) (recordClock E (some c) d k) ∧
      d.timer.elapsedDefault true d.clock + stepTime E (some c) d.world (k + 1) =
        specTotal (labelHistory cfg (logAt E (some c) d k) cfg.dflt) (recordClock E (some c) d k) := by
  have hrun := running_after_start d.timer d.clock hwf
  obtain ⟨_, hat⟩ := loop_clean E (some c) (d.timer.start .none d.clock) d.timerStart d.itnum
    (d.timer.elapsedDefault true d.clock) hda hrun k hclean
  have hlog := logged_loop E (some c) k d.itnum (logged_timerStart hl)
  generalize (loop E (some c) k d.itnum d.timerStart).1 = dk at hat hlog
  have htl : dk.tlog = logAt E (some c) d k := by
    rw [hat.tlog]; simp [logAt, Drv.timerStart]
  have hck : dk.clock + E.stepTicks (worldAt E (some c) d.world k) = recordClock E (some c) d k := by
    rw [hat.clock]; simp only [recordClock, stepTime_succ, Drv.timerStart]; omega
  have hmono : Monotone (logAt E (some c) d k) (recordClock E (some c) d k) := by
    rw [← htl, ← hck]; exact monotone_later hlog.mono (by omega)
  refine ⟨hmono, ?_⟩
  have hread := hat.timer.read (recordClock E (some c) d k) (by omega)
  have href := timer_refines_stopwatch cfg (logAt E (some c) d k) (recordClock E (some c) d k) hmono none true
  rw [← htl, ← hlog.timer] at href
  simp only [Timer.elapsed, specElapsed, Option.getD_none, htl] at href
  have hk : known cfg (logAt E (some c) d k) cfg.dflt = true := by
    unfold logAt; exact known_of_start_none cfg _ _ _
  rw [hk] at href
  simp only [if_true, Option.some.injEq] at href
  rw [← href, hread, stepTime_succ, ← hck]
  simp only [Drv.timerStart]
  omega

/-! ### no tick inside a callback is counted -/

theorem lastBefore_mid (pre post : List (Nat × Op)) (a s : Nat) (k : Op) (ha : a ≤ s)
    (hpost : ∀ e ∈ post, s < e.1) : lastBefore (pre ++ [(a, k)] ++ post) s = some k := by
  have hp : post.filter (fun e => decide (e.1 ≤ s)) = [] := by
    rw [List.filter_eq_nil_iff]
    intro e he
    have := hpost e he
    simp; omega
  simp [lastBefore, List.filter_append, hp, ha]

theorem reaches_stop_default (cfg : Cfg L) (A : List (Call L)) (t : Nat) (hcfg : cfg.dflt ≠ cfg.all)
    (hk : known cfg A cfg.dflt = true) : reaches cfg A ⟨t, .stop, .none⟩ cfg.dflt = true := by
  simp [reaches, Cfg.explicitTargets, hcfg, hk]

/-- during the callback of an earlier iteration `j < k` the ideal stop-watch (over the timer
    calls issued up to record `k`) does not count -/
theorem callback_ticks_not_counted (E : Env ω ρ ξ α) (c : Callback ω) (cfg : Cfg L) (d : Drv ω ρ L)
    (hl : Logged cfg d) (hda : d.timer.dflt ≠ d.timer.all) (hwf : TimerWF d.timer d.clock) (k : Nat)
    (hclean : ∀ j < k, tripsB E d.nanstop (afterStep E (some c) d.world j) = false)
    (j : Nat) (hj : j < k) (s : Nat)
    (hs1 : (specCb E (some c) d.world d.itnum d.clock j).enter ≤ s)
    (hs2 : s < (specCb E (some c) d.world d.itnum d.clock j).leave) :
    counted (labelHistory cfg (logAt E (some c) d k) cfg.dflt) s = false := by
  have R : Represents cfg d.tlog d.timer := by
    have := represents_run (c := cfg) [] d.tlog _ (represents_init cfg)
    rw [hl.timer]; simpa using this
  have hcfg : cfg.dflt ≠ cfg.all := by rw [← R.dflt, ← R.all]; exact hda
  obtain ⟨hmono, _⟩ := row_time_is_stopwatch E c cfg d hl hda hwf k hclean
  obtain ⟨r, rfl⟩ : ∃ r, k = j + 1 + r := ⟨k - j - 1, by omega⟩
  -- split the log at the bracket of iteration j
  let A : List (Call L) := d.tlog ++ [⟨d.clock, .start, .none⟩] ++
    (List.range j).flatMap (specBracket E (some c) d.world d.clock)
  let B : List (Call L) := ((List.range r).map (fun x => j + 1 + x)).flatMap
    (specBracket E (some c) d.world d.clock)
  let en := (specCb E (some c) d.world 0 d.clock j).enter
  let lv := (specCb E (some c) d.world 0 d.clock j).leave
  have hen : en = (specCb E (some c) d.world d.itnum d.clock j).enter := rfl
  have hlv : lv = (specCb E (some c) d.world d.itnum d.clock j).leave := rfl
  have hsplit : logAt E (some c) d (j + 1 + r) =
      (A ++ [⟨en, .stop, .none⟩]) ++ (⟨lv, .start, .none⟩ :: B) := by
    simp only [logAt, A, B, en, lv, List.range_add, List.range_succ, List.flatMap_append,
      List.flatMap_cons, List.flatMap_nil, specBracket, List.append_assoc, List.cons_append,
      List.nil_append, List.append_nil, List.singleton_append]
  rw [hsplit] at hmono ⊢
  have hkA : known cfg A cfg.dflt = true := known_of_start_none cfg _ _ _
  -- the label history around the bracket
  have hLH : labelHistory cfg ((A ++ [⟨en, .stop, .none⟩]) ++ (⟨lv, .start, .none⟩ :: B)) cfg.dflt =
      labelHistory cfg A cfg.dflt ++ [(en, .stop)] ++
        labelHistoryFrom cfg cfg.dflt (A ++ [⟨en, .stop, .none⟩]) (⟨lv, .start, .none⟩ :: B) := by
    simp only [labelHistory, labelHistoryFrom_append, List.nil_append, labelHistoryFrom,
      reaches_stop_default cfg A en hcfg hkA, if_true, List.append_nil, List.append_assoc]
  have hpost : ∀ e ∈ labelHistoryFrom cfg cfg.dflt (A ++ [⟨en, .stop, .none⟩]) (⟨lv, .start, .none⟩ :: B),
      s < e.1 := by
    intro e he
    obtain ⟨call, hc, ht⟩ := labelHistoryFrom_times cfg cfg.dflt _ _ e he
    have hp := hmono.1
    rw [List.pairwise_append] at hp
    have hpc := hp.2.1
    rw [List.pairwise_cons] at hpc
    rw [← ht]
    simp only [List.mem_cons] at hc
    rcases hc with hc | hc
    · subst hc; rw [hlv] at *; exact hs2
    · have := hpc.1 call hc
      simp only at this
      rw [hlv] at this
      omega
  rw [hLH]
  have hlb := lastBefore_mid (labelHistory cfg A cfg.dflt) _ en s .stop (by rw [hen]; exact hs1) hpost
  unfold counted runningAt
  rw [hlb]
  simp

end Scico.Driver
