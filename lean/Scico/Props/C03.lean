/-
  Property C03 — optimisers keep an optimal point fixed; monotone quantities; convergence of PGM.
  ONLY property theorems (+ non-vacuity examples) here; proofs in `Proofs/Steps{Convex,Fixed,PGM,Lyap}.lean`.

  Setting: variables live in arbitrary real inner-product spaces (ℝⁿ, ℂⁿ with `Re⟨·,·⟩`, block arrays =
  products); functionals are `Fn` (domain + finite values); KKT conditions in sub-gradient form;
  proximal maps satisfy the certificate contract `IsProx` (≡ argmin definition for convex functionals,
  `C03_prox_contract_iff_argmin`); `…SpecStep` is the documented iteration, equal to `step()` by C11.

  Round 2 (second half of the file): ADMM with relaxation `alpha ∈ (0,2)` — Lyapunov descent of the
  Douglas–Rachford quantity `W`, residuals → 0 and convergence of `minimizer()` to the minimiser for strongly
  convex `f`, from every start; PDHG Fejér monotonicity and residuals → 0 for `τσ‖C‖² < 1`; Lyapunov functions of
  ProximalADMM (`μ ≥ ‖A‖²`, `ν ≥ ‖B‖²`) and LinearizedADMM (`μ‖C‖² ≤ ν`) with residuals → 0; FISTA `O(1/k²)`.

  NOT proved here (exercised numerically by the check only): convergence of the *iterates* of ADMM for merely convex
  `f`, of LinearizedADMM / ProximalADMM / PDHG / AcceleratedPGM, and anything about NonLinearPADMM / non-linear PDHG
  beyond fixed points (non-convex); PDHG with `alpha ≠ 1`.
-/
import Scico.Proofs.StepsFixed
import Scico.Proofs.StepsPGM
import Scico.Proofs.StepsLyap
import Scico.Proofs.StepsLyapN
import Scico.Proofs.StepsRelax
import Scico.Proofs.StepsPDHG
import Scico.Proofs.StepsProxADMM
import Scico.Proofs.StepsFISTA
import Scico.Proofs.StepsExamples
import Scico.Proofs.StepsRelax2
import Scico.Proofs.StepsPGM2
import Scico.Proofs.StepsStrong
import Scico.Proofs.StepsOpial
import Scico.Proofs.StepsOpial2
import Scico.Proofs.StepsExamples2
import Scico.Proofs.StepsPDHGAlpha
import Scico.Proofs.StepsOpial3
import Scico.Proofs.StepsOpial4
import Scico.Proofs.StepsFISTA2
import Scico.Proofs.StepsPDHGStrong
import Scico.Proofs.StepsXSolve
import Scico.Model.StepsSource

set_option linter.unusedSectionVars false

namespace Scico.Props.C03
open Scico Scico.Steps

variable {X Z U : Type} [NormedAddCommGroup X] [InnerProductSpace ℝ X]
  [NormedAddCommGroup Z] [InnerProductSpace ℝ Z] [NormedAddCommGroup U] [InnerProductSpace ℝ U]

/-- the proximal-map contract used below is the argmin definition (convex functionals) -/
theorem C03_prox_contract_iff_argmin {F : Fn X} (hc : F.IsConvex) (prox : ℝ → X → X) :
    IsProx F prox ↔ IsProxArgmin F prox := isProx_iff_argmin hc prox

/-- a point satisfying the KKT conditions minimises the documented objective `f(x) + g(Cx)` -/
theorem C03_kkt_minimiser (F : Fn X) (G : Fn Z) (C : X → Z) (Cadj : Z → X)
    (hC : ∀ x y, C (x - y) = C x - C y) (hadj : ∀ w x, inner ℝ (Cadj w) x = inner ℝ w (C x))
    (xs : X) (y : Z) (h1 : F.Subgrad xs (-(Cadj y))) (h2 : G.Subgrad (C xs) y) :
    ∀ x ∈ F.dom, C x ∈ G.dom → F.val xs + G.val (C xs) ≤ F.val x + G.val (C x) :=
  kkt_isMin F G C Cadj hC hadj xs y h1 h2

/-- ADMM, `N` constraints, any relaxation `alpha`: KKT point (`z_i* = C_i x*`, `ρ_i u_i* ∈ ∂g_i(z_i*)`,
    `x*` stationary for the strictly convex x-sub-problem) is a fixed point -/
theorem C03_admm_fixed (f : Option (X → ℝ)) (alpha : ℝ) (solveX : List Z → List Z → X → X)
    (cons : List (Con X Z)) (F : Fn X) (hsolve : XSolver F cons solveX) (xs : X) (us : List Z)
    (hkkt : List.Forall₂ (fun (c : Con X Z) u => 0 < c.rho ∧ IsProx c.G c.prox ∧ c.G.Subgrad (c.C xs) (c.rho • u)) cons us)
    (hx : F.Subgrad xs (xGrad cons (cons.map (fun c => c.C xs)) us xs)) (zOld : List Z) :
    admmSpecStep (admmOfCons f alpha solveX cons)
        { x := xs, z := cons.map (fun c => c.C xs), zOld := zOld, u := us }
      = { x := xs, z := cons.map (fun c => c.C xs), zOld := cons.map (fun c => c.C xs), u := us } :=
  admm_fixed f alpha solveX cons F hsolve xs us hkkt hx zOld

/-- linearized ADMM: `−(1/ν)Cᵀu* ∈ ∂f(x*)`, `(1/ν)u* ∈ ∂g(Cx*)` -/
theorem C03_ladmm_fixed (p : LADMMParams ℝ X Z) (F : Fn X) (G : Fn Z)
    (hf : IsProx F p.proxf) (hg : IsProx G p.proxg) (hmu : 0 < p.mu) (hnu : 0 < p.nu) (xs : X) (us : Z)
    (h1 : F.Subgrad xs (-((1 / p.nu) • p.Cadj us))) (h2 : G.Subgrad (p.C xs) ((1 / p.nu) • us)) :
    ladmmSpecStep p { x := xs, z := p.C xs, zOld := p.C xs, u := us }
      = { x := xs, z := p.C xs, zOld := p.C xs, u := us } :=
  ladmm_fixed p F G hf hg hmu hnu xs us h1 h2

/-- proximal ADMM with general `B`, `c`: `Ax* + Bz* = c`, `−ρAᵀu* ∈ ∂f(x*)`, `−ρBᵀu* ∈ ∂g(z*)` -/
theorem C03_padmm_fixed (p : PADMMParams ℝ X Z U) (F : Fn X) (G : Fn Z)
    (hf : IsProx F p.proxf) (hg : IsProx G p.proxg) (hrho : 0 < p.rho) (hmu : 0 < p.mu) (hnu : 0 < p.nu)
    (xs : X) (zs : Z) (us : U) (hfeas : p.A xs + p.B zs = p.c)
    (h1 : F.Subgrad xs (-(p.rho • p.AH us))) (h2 : G.Subgrad zs (-(p.rho • p.BH us))) :
    padmmSpecStep p { x := xs, z := zs, zOld := zs, u := us, uOld := us }
      = { x := xs, z := zs, zOld := zs, u := us, uOld := us } :=
  padmm_fixed p F G hf hg hrho hmu hnu xs zs us hfeas h1 h2

/-- proximal ADMM with the constructor defaults `B = −I`, `c = 0` -/
theorem C03_padmm_default_fixed (p : PADMMParams ℝ X U U) (F : Fn X) (G : Fn U)
    (hf : IsProx F p.proxf) (hg : IsProx G p.proxg) (hrho : 0 < p.rho) (hmu : 0 < p.mu) (hnu : 0 < p.nu)
    (hB : p.B = padmmDefaultB.1) (hBH : p.BH = padmmDefaultB.2) (hc : p.c = padmmC none) (xs : X) (us : U)
    (h1 : F.Subgrad xs (-(p.rho • p.AH us))) (h2 : G.Subgrad (p.A xs) (p.rho • us)) :
    padmmSpecStep p { x := xs, z := p.A xs, zOld := p.A xs, u := us, uOld := us }
      = { x := xs, z := p.A xs, zOld := p.A xs, u := us, uOld := us } :=
  padmm_fixed_default p F G hf hg hrho hmu hnu hB hBH hc xs us h1 h2

/-- non-linear proximal ADMM: `H(x*,z*) = 0`, stationarity through the Jacobians at the point -/
theorem C03_nlpadmm_fixed (p : NLPADMMParams ℝ X Z U) (F : Fn X) (G : Fn Z)
    (hf : IsProx F p.proxf) (hg : IsProx G p.proxg) (hrho : 0 < p.rho) (hmu : 0 < p.mu) (hnu : 0 < p.nu)
    (xs : X) (zs : Z) (us : U) (hfeas : p.H xs zs = 0)
    (h1 : F.Subgrad xs (-(p.rho • p.JxH xs zs us))) (h2 : G.Subgrad zs (-(p.rho • p.JzH xs zs us))) :
    nlpadmmSpecStep p { x := xs, z := zs, zOld := zs, u := us, uOld := us }
      = { x := xs, z := zs, zOld := zs, u := us, uOld := us } :=
  nlpadmm_fixed p F G hf hg hrho hmu hnu xs zs us hfeas h1 h2

/-- PDHG, linear and non-linear `C`, any `alpha`: saddle point `−Cᵀz* ∈ ∂f(x*)` (resp. `−[JC(x*)]ᵀz*`),
    `z* ∈ ∂g(Cx*)`, with `conj_prox` computed through `g.prox` as the code does -/
theorem C03_pdhg_fixed (p : PDHGParams ℝ X Z) (F : Fn X) (G : Fn Z) (proxg : ℝ → Z → Z)
    (hf : IsProx F p.proxf) (hg : IsProx G proxg)
    (hconj : ∀ lam v, p.proxgConj lam v = v - lam • proxg (1 / lam) ((1 / lam) • v))
    (htau : 0 < p.tau) (hsig : 0 < p.sigma) (xs : X) (zs : Z)
    (h1 : F.Subgrad xs (-(match p.linear with
      | true => p.Cadj zs
      | false => p.JCadj xs zs)))
    (h2 : G.Subgrad (p.C xs) zs) :
    pdhgSpecStep p { x := xs, xOld := xs, z := zs, zOld := zs }
      = { x := xs, xOld := xs, z := zs, zOld := zs } :=
  pdhg_fixed_moreau p F G proxg hf hg hconj htau hsig xs zs h1 h2

/-- the same with the contract stated on the conjugate: `Cx* ∈ ∂g*(z*)` -/
theorem C03_pdhg_fixed_conj (p : PDHGParams ℝ X Z) (F : Fn X) (Gc : Fn Z)
    (hf : IsProx F p.proxf) (hg : IsProx Gc p.proxgConj) (htau : 0 < p.tau) (hsig : 0 < p.sigma)
    (xs : X) (zs : Z)
    (h1 : F.Subgrad xs (-(match p.linear with
      | true => p.Cadj zs
      | false => p.JCadj xs zs)))
    (h2 : Gc.Subgrad zs (p.C xs)) :
    pdhgSpecStep p { x := xs, xOld := xs, z := zs, zOld := zs }
      = { x := xs, xOld := xs, z := zs, zOld := zs } :=
  pdhg_fixed p F Gc hf hg htau hsig xs zs h1 h2

/-- PGM with any step-size hook returning a positive `L`: `−∇f(x*) ∈ ∂g(x*)` ⇒ `x` unchanged, residual 0 -/
theorem C03_pgm_fixed {σ : Type} (p : PGMParams σ ℝ X) (G : Fn X) (hg : IsProx G p.proxg)
    (hnorm : p.normX = fun v => ‖v‖) (s : PGMState σ ℝ X)
    (hL : 0 < (p.pol.update s.mem s.L s.x s.x).1) (h : G.Subgrad s.x (-(p.gradf s.x))) :
    (pgmSpecStep p s).x = s.x ∧ (pgmSpecStep p s).fpr = 0 :=
  pgm_fixed p G hg hnorm s hL h

attribute [local instance] realHasSqrt

/-- accelerated PGM started at `x = v = x*` keeps `x` and `v` (the momentum counter advances) -/
theorem C03_apgm_fixed {σ : Type} (p : PGMParams σ ℝ X) (G : Fn X) (hg : IsProx G p.proxg)
    (hnorm : p.normX = fun v => ‖v‖) (s : APGMState σ ℝ X) (hv : s.v = s.x) (hk : p.pol.kind ≠ .robust)
    (hL : ∀ a, 0 < (p.pol.update s.mem s.L s.x a).1) (h : G.Subgrad s.x (-(p.gradf s.x))) :
    (apgmSpecStep p s).x = s.x ∧ (apgmSpecStep p s).v = s.x ∧ (apgmSpecStep p s).fpr = 0 :=
  apgm_fixed p G hg hnorm s hv hk hL h

/-- PGM, `L ≥` Lipschitz constant (co-coercive gradient, descent lemma): one step does not increase the
    distance to any minimiser and decreases the objective by at least `(L/2)‖x⁺ − x‖²` -/
theorem C03_pgm_monotone {f : X → ℝ} {grad : X → X} {prox : ℝ → X → X} {G : Fn X} (hp : IsProx G prox)
    {L : ℝ} (hL : 0 < L) (hco : CoCoercive grad L) (hd : DescentLemma f grad L) {xs : X}
    (hk : G.Subgrad xs (-(grad xs))) (x : X) (hx : x ∈ G.dom) :
    ‖pgStep grad prox L x - xs‖ ≤ ‖x - xs‖ ∧
    f (pgStep grad prox L x) + G.val (pgStep grad prox L x) ≤ f x + G.val x - L / 2 * ‖pgStep grad prox L x - x‖ ^ 2 :=
  ⟨pgStep_dist hp hL hco hk x, pgStep_objective hp hL hd hx⟩

/-- … along the whole trajectory of the documented iteration (base step-size object) -/
theorem C03_pgm_monotone_traj (p : PGMParams Unit ℝ X) {G : Fn X} {L : ℝ} (h : PGMHyp p G L) {xs : X}
    (hk : G.Subgrad xs (-(p.gradf xs))) (s : PGMState Unit ℝ X) (hsL : s.L = L) (k : Nat) :
    ‖(iter (pgmSpecStep p) (k + 1) s).x - xs‖ ≤ ‖(iter (pgmSpecStep p) k s).x - xs‖ :=
  pgm_traj_dist p h hk s hsL k

/-- linear rate for strongly convex `f` (every `k`, every start) -/
theorem C03_pgm_contract (p : PGMParams Unit ℝ X) {G : Fn X} {L m : ℝ} (h : PGMHyp p G L)
    (hm : StronglyMonotone p.gradf m) (hmL : m ≤ L) {xs : X} (hk : G.Subgrad xs (-(p.gradf xs)))
    (s : PGMState Unit ℝ X) (hsL : s.L = L) (k : Nat) :
    ‖(iter (pgmSpecStep p) k s).x - xs‖ ^ 2 ≤ (1 - m / L) ^ k * ‖s.x - xs‖ ^ 2 :=
  pgm_linear_rate p h hm hmL hk s hsL k

/-- hence `minimizer()` of the iterates converges to the (unique) minimiser from every start -/
theorem C03_pgm_converges (p : PGMParams Unit ℝ X) {G : Fn X} {L m : ℝ} (h : PGMHyp p G L)
    (hm : StronglyMonotone p.gradf m) (hm0 : 0 < m) (hmL : m ≤ L) {xs : X}
    (hk : G.Subgrad xs (-(p.gradf xs))) (s : PGMState Unit ℝ X) (hsL : s.L = L) :
    Filter.Tendsto (fun k => pgmMinimizer (iter (pgmSpecStep p) k s)) Filter.atTop (nhds xs) ∧
    (∀ ys, G.Subgrad ys (-(p.gradf ys)) → ys = xs) :=
  ⟨pgm_converges p h hm hm0 hmL hk s hsL,
   fun _ hy => pgm_kkt_unique h.prox h.Lpos h.coco hm hm0 hy hk⟩

/-- the hypotheses hold for quadratics `f x = ½⟪Hx,x⟫ − ⟪b,x⟫`, `H` symmetric, `m ≤ H ≤ L`
    (weighted squared-ℓ2 loss: `H = 2α AᴴWA`, `b = 2α AᴴWy`) -/
theorem C03_quadratic_hyp (H : X → X) (b : X) (hadd : ∀ x y, H (x + y) = H x + H y)
    (hsmul : ∀ (c : ℝ) x, H (c • x) = c • H x) (hsym : ∀ x y, inner ℝ (H x) y = inner ℝ x (H y))
    {L m : ℝ} (hL : 0 < L) (hm : 0 ≤ m) (hlb : ∀ x, m * ‖x‖ ^ 2 ≤ inner ℝ (H x) x)
    (hub : ∀ x, inner ℝ (H x) x ≤ L * ‖x‖ ^ 2) :
    CoCoercive (fun x => H x - b) L ∧
    DescentLemma (fun x => 1 / 2 * inner ℝ (H x) x - inner ℝ b x) (fun x => H x - b) L ∧
    StronglyMonotone (fun x => H x - b) m := by
  have hpsd : ∀ x, 0 ≤ inner ℝ (H x) x := fun x => le_trans (by positivity) (hlb x)
  exact ⟨quad_coco H b hadd hsmul hsym hpsd hL hub, quad_descent H b hadd hsym hub, quad_strong H b hadd hlb⟩

/-- FISTA momentum: `t₊² − t₊ = t²`, and `t_k ≥ t_0 + k/2` along the accelerated iteration
    (from `t_0 = 1`: `t_k ≥ (k+2)/2`) -/
theorem C03_fista_t {σ : Type} (p : PGMParams σ ℝ X) (hk : p.pol.kind ≠ .robust) (k : Nat)
    (s : APGMState σ ℝ X) (hs : 0 ≤ s.t) :
    s.t + k / 2 ≤ (iter (apgmSpecStep p) k s).t ∧ fistaTImpl s.t ^ 2 - fistaTImpl s.t = s.t ^ 2 ∧
    (apgmSpecStep p s).t = fistaTImpl s.t :=
  ⟨apgm_t_lower p hk k s hs, fistaT_identity s.t, apgm_t_step p s hk⟩

/-- ADMM Lyapunov descent (Boyd et al. §3.3), `N` constraints, `alpha = 1`.  The constraints and the
    per-constraint parts of the state / KKT point are bundled in rows `(c, z, u, u*)`.  From a
    dual-feasible state (`ρ_i u_i ∈ ∂g_i(z_i)`, true after every step) one documented iteration gives
    `V⁺ + Σ ρ_i(‖C_i x⁺ − z_i⁺‖² + ‖z_i⁺ − z_i‖²) ≤ V` for `V = Σ ρ_i(‖u_i − u_i*‖² + ‖z_i − C_i x*‖²)`,
    and the new state is dual feasible again. -/
theorem C03_admm_lyapunov (rows : List (Row X Z)) (f : Option (X → ℝ)) (solveX : List Z → List Z → X → X)
    (F : Fn X)
    (hsolve : ∀ z u x0, F.Subgrad (solveX z u x0) (xGrad (rows.map (·.c)) z u (solveX z u x0)))
    (xs : X) (hok : ∀ r ∈ rows, RowOK xs r)
    (hkx : F.Subgrad xs (xGrad (rows.map (·.c)) (rows.map (fun r => r.c.C xs)) (rows.map (·.us)) xs))
    (x : X) (zOld : List Z) :
    let xn := solveX (rows.map (·.z)) (rows.map (·.u)) x
    admmSpecStep (admmOfCons f 1 solveX (rows.map (·.c)))
        { x := x, z := rows.map (·.z), zOld := zOld, u := rows.map (·.u) }
      = { x := xn, z := rows.map (fun r => r.zn xn), zOld := rows.map (·.z), u := rows.map (fun r => r.un xn) } ∧
    (∀ r ∈ rows, r.c.G.Subgrad (r.zn xn) (r.c.rho • r.un xn)) ∧
    rowsV xs rows (fun r => r.zn xn) (fun r => r.un xn)
        + (rows.map (fun r => r.c.rho * (‖r.c.C xn - r.zn xn‖ ^ 2 + ‖r.zn xn - r.z‖ ^ 2))).sum
      ≤ rowsV xs rows (·.z) (·.u) :=
  admm_lyapunov_rows rows f solveX F hsolve xs hok hkx x zOld

/-- … hence `V_k ≤ V_0` for every `k` along the trajectory of the documented iteration -/
theorem C03_admm_lyapunov_traj (cons : List (Con X Z)) (uss : List Z) (f : Option (X → ℝ))
    (solveX : List Z → List Z → X → X) (F : Fn X)
    (hsolve : ∀ z u x0, F.Subgrad (solveX z u x0) (xGrad cons z u (solveX z u x0)))
    (xs : X) (hkx : F.Subgrad xs (xGrad cons (cons.map (fun c => c.C xs)) uss xs)) (k : Nat)
    (rows : List (Row X Z)) (x : X) (zOld : List Z)
    (hc : rows.map (·.c) = cons) (hu : rows.map (·.us) = uss) (hok : ∀ r ∈ rows, RowOK xs r) :
    ∃ (rows' : List (Row X Z)) (x' : X) (zOld' : List Z),
      iter (admmSpecStep (admmOfCons f 1 solveX cons)) k
          { x := x, z := rows.map (·.z), zOld := zOld, u := rows.map (·.u) }
        = { x := x', z := rows'.map (·.z), zOld := zOld', u := rows'.map (·.u) } ∧
      rows'.map (·.c) = cons ∧ rows'.map (·.us) = uss ∧ (∀ r ∈ rows', RowOK xs r) ∧
      rowsV xs rows' (·.z) (·.u) ≤ rowsV xs rows (·.z) (·.u) :=
  admm_lyapunov_rows_traj cons uss f solveX F hsolve xs hkx k rows x zOld hc hu hok

/-- the single-constraint form with explicit vectors -/
theorem C03_admm_lyapunov_single (c : Con X Z) (f : Option (X → ℝ)) (solveX : List Z → List Z → X → X)
    (F : Fn X) (hsolve : ∀ z u x0, F.Subgrad (solveX z u x0) (xGrad [c] z u (solveX z u x0)))
    (hC : ∀ x y, c.C (x - y) = c.C x - c.C y) (hadj : ∀ w x, inner ℝ (c.Cadj w) x = inner ℝ w (c.C x))
    (hrho : 0 < c.rho) (hprox : IsProx c.G c.prox)
    (xs : X) (us : Z) (hkx : F.Subgrad xs (xGrad [c] [c.C xs] [us] xs)) (hkz : c.G.Subgrad (c.C xs) (c.rho • us))
    (x : X) (z zOld u : Z) (hpre : c.G.Subgrad z (c.rho • u)) :
    ∃ xn zn un,
      admmSpecStep (admmOfCons f 1 solveX [c]) { x := x, z := [z], zOld := [zOld], u := [u] }
        = { x := xn, z := [zn], zOld := [z], u := [un] } ∧
      c.G.Subgrad zn (c.rho • un) ∧
      c.rho * (‖un - us‖ ^ 2 + ‖zn - c.C xs‖ ^ 2) + c.rho * (‖c.C xn - zn‖ ^ 2 + ‖zn - z‖ ^ 2)
        ≤ c.rho * (‖u - us‖ ^ 2 + ‖z - c.C xs‖ ^ 2) :=
  admm_lyapunov_single c f solveX F hsolve hC hadj hrho hprox xs us hkx hkz x z zOld u hpre

/-! ### non-vacuity: the hypotheses are satisfiable on non-trivial instances -/

-- proximal maps meeting the contract, in every inner-product space
example : IsProx (Fn.ofReal (fun _ : X => (0 : ℝ))) (fun _ v => v) := isProx_zero
example (y0 : X) : IsProx (Fn.ofReal (fun x : X => 1 / 2 * ‖x - y0‖ ^ 2)) (fun lam v => (1 / (1 + lam)) • (v + lam • y0)) :=
  isProx_halfsq y0

/-- linearized ADMM for `min ½‖x − y0‖² + 0`, `C = id`: the KKT point is `(y0, y0, 0)` and
    `C03_ladmm_fixed` applies (the step really is the identity there, while it moves other points) -/
example (y0 : X) :
    let p : LADMMParams ℝ X X :=
      { f := fun x => 1 / 2 * ‖x - y0‖ ^ 2, g := fun _ => 0,
        proxf := fun lam v => (1 / (1 + lam)) • (v + lam • y0), proxg := fun _ v => v,
        C := id, Cadj := id, mu := 1 / 2, nu := 1, normX := fun v => ‖v‖, normZ := fun v => ‖v‖ }
    ladmmSpecStep p { x := y0, z := y0, zOld := y0, u := 0 } = { x := y0, z := y0, zOld := y0, u := 0 } := by
  intro p
  have := C03_ladmm_fixed p (Fn.ofReal (fun x : X => 1 / 2 * ‖x - y0‖ ^ 2)) (Fn.ofReal (fun _ => 0))
    (isProx_halfsq y0) isProx_zero (by norm_num [p]) (by norm_num [p]) y0 0
    (by
      refine ⟨trivial, fun y _ => ?_⟩
      simp [p, Fn.ofReal])
    (by
      refine ⟨trivial, fun y _ => ?_⟩
      simp [p, Fn.ofReal])
  simpa [p] using this

-- the PGM hypotheses hold for `H = h·id`, `0 < h`, with `m = L = h`
example (h : ℝ) (hh : 0 < h) (b : X) :
    CoCoercive (fun x : X => h • x - b) h ∧ StronglyMonotone (fun x : X => h • x - b) h := by
  have := C03_quadratic_hyp (fun x : X => h • x) b (fun x y => smul_add h x y)
    (fun c x => by simp only [smul_smul, mul_comm]) (fun x y => by rw [inner_smul_left, inner_smul_right]; simp)
    hh hh.le (fun x => by rw [inner_smul_left, real_inner_self_eq_norm_sq]; simp)
    (fun x => by rw [inner_smul_left, real_inner_self_eq_norm_sq]; simp)
  exact ⟨this.1, this.2.2⟩

/-- the hypotheses of `C03_admm_lyapunov` are satisfiable: two rows with `C = id`, `g_i = 0`,
    `f = ½‖· − y0‖²`, exact x-update `x = (y0 + Σρ_i(z_i − u_i))/(1 + Σρ_i)`, KKT point `(y0, u* = 0)` -/
example (y0 z1 z2 : X) :
    let c1 : Con X X := { rho := 1, C := id, Cadj := id, G := Fn.ofReal (fun _ => 0), g := fun _ => 0, prox := fun _ v => v }
    let c2 : Con X X := { rho := 2, C := id, Cadj := id, G := Fn.ofReal (fun _ => 0), g := fun _ => 0, prox := fun _ v => v }
    let rows : List (Row X X) := [{ c := c1, z := z1, u := 0, us := 0 }, { c := c2, z := z2, u := 0, us := 0 }]
    ∀ r ∈ rows, RowOK y0 r := by
  intro c1 c2 rows r hr
  have hz : ∀ v : X, (Fn.ofReal (fun _ : X => (0 : ℝ))).Subgrad v 0 := fun v => ⟨trivial, fun y _ => by simp [Fn.ofReal]⟩
  simp only [rows, List.mem_cons, List.not_mem_nil, or_false] at hr
  rcases hr with rfl | rfl
  · exact ⟨fun _ _ => rfl, fun _ _ => rfl, by norm_num [c1], isProx_zero, by simpa [c1] using hz _, by simpa [c1] using hz _⟩
  · exact ⟨fun _ _ => rfl, fun _ _ => rfl, by norm_num [c2], isProx_zero, by simpa [c2] using hz _, by simpa [c2] using hz _⟩

-- FISTA from t₀ = 1: t₁ = (1+√5)/2 ≥ 3/2
example : (3 : ℝ) / 2 ≤ fistaTImpl 1 := by
  have := fistaT_ge 1 (by norm_num)
  linarith

/-! ## Round 2: relaxation, residuals, convergence of ADMM; PDHG; proximal / linearized ADMM; FISTA rate -/

/-- ADMM with relaxation `alpha ≥ 0` (Eckstein–Bertsekas / Boyd §3.4.3), `N` constraints, `∂f` strongly monotone with
    modulus `m ≥ 0` (`m = 0`: plain convexity, `StrongSub F 0` holds for every `F`).  One documented iteration from
    a dual-feasible state (`ρ_i u_i ∈ ∂g_i(z_i)`, true after every step — second conjunct, which needs no
    assumption on the previous state): for `W = Σ ρ_i ‖(z_i + u_i) − (C_i x* + u_i*)‖²`,
    `W⁺ + α(2−α) Σ ρ_i ‖C_i x⁺ − z_i‖² + 2 α m ‖x⁺ − x*‖² ≤ W`. -/
theorem C03_admm_relax_lyapunov (alpha : ℝ) (ha : 0 ≤ alpha) (rows : List (Row X Z)) (f : Option (X → ℝ))
    (solveX : List Z → List Z → X → X) (F : Fn X) (m : ℝ) (hsm : StrongSub F m)
    (hsolve : ∀ z u x0, F.Subgrad (solveX z u x0) (xGrad (rows.map (·.c)) z u (solveX z u x0)))
    (xs : X) (hok : ∀ r ∈ rows, RowOK xs r)
    (hkx : F.Subgrad xs (xGrad (rows.map (·.c)) (rows.map (fun r => r.c.C xs)) (rows.map (·.us)) xs))
    (x : X) (zOld : List Z) :
    let xn := solveX (rows.map (·.z)) (rows.map (·.u)) x
    admmSpecStep (admmOfCons f alpha solveX (rows.map (·.c)))
        { x := x, z := rows.map (·.z), zOld := zOld, u := rows.map (·.u) }
      = { x := xn, z := rows.map (fun r => r.znA alpha xn), zOld := rows.map (·.z), u := rows.map (fun r => r.unA alpha xn) } ∧
    (∀ r ∈ rows, r.c.G.Subgrad (r.znA alpha xn) (r.c.rho • r.unA alpha xn)) ∧
    rowsW xs rows (fun r => r.znA alpha xn) (fun r => r.unA alpha xn)
        + alpha * (2 - alpha) * rowsQ rows xn + 2 * alpha * (m * ‖xn - xs‖ ^ 2)
      ≤ rowsW xs rows (·.z) (·.u) :=
  ⟨admm_relax_step_eq alpha rows f solveX x zOld,
   fun r hr => row_feasibleA alpha _ r (hok r hr).rho (hok r hr).prox,
   admm_relax_descent alpha ha rows solveX F m hsm hsolve xs hok hkx x⟩

/-- … along whole trajectories from EVERY start `s` (any `x`, any lists `z`, `u` of the right length — bundled as
    rows, `exists_rows`): the model's iterates are the row iterates; from the first iterate on `W` is non-increasing
    and the decreases are summable (`Σ_j D_j + W_{k+1} ≤ W_1`, `0 ≤ α ≤ 2`). -/
theorem C03_admm_relax_traj {alpha m : ℝ} {cons : List (Con X Z)} {uss : List Z} {solveX : List Z → List Z → X → X}
    {F : Fn X} {xs : X} (H : RelaxHyp alpha m cons uss solveX F xs) (f : Option (X → ℝ)) (s : RS X Z)
    (hb : RS.Base xs cons uss s) (k : Nat) :
    iter (admmSpecStep (admmOfCons f alpha solveX cons)) k s.state = (iter (RS.next alpha solveX) k s).state ∧
    (iter (RS.next alpha solveX) (k + 2) s).W xs ≤ (iter (RS.next alpha solveX) (k + 1) s).W xs ∧
    (∑ j ∈ Finset.range k, (iter (RS.next alpha solveX) (j + 1) s).D alpha m xs solveX)
        + (iter (RS.next alpha solveX) (k + 1) s).W xs ≤ (iter (RS.next alpha solveX) 1 s).W xs :=
  ⟨(RS.iter_eq alpha f solveX cons k s hb.hc).1,
   RS.W_mono H (RS.next_ok alpha solveX hb) k,
   RS.sum_descent H (RS.next_ok alpha solveX hb) k⟩

/-- every state with lists of the length of the constraint list is given by rows -/
theorem C03_admm_state_rows (cons : List (Con X Z)) (uss z u : List Z) (h1 : uss.length = cons.length)
    (h2 : z.length = cons.length) (h3 : u.length = cons.length) :
    ∃ rows : List (Row X Z), rows.map (·.c) = cons ∧ rows.map (·.us) = uss ∧ rows.map (·.z) = z ∧ rows.map (·.u) = u :=
  exists_rows cons uss z u h1 h2 h3

/-- `0 < α < 2`: the residual reported by `norm_primal_residual()` tends to `0` along every trajectory, and so does
    `Σ ρ_i ‖z_i^{k+1} − z_i^k‖²` (which bounds the dual residual `‖Σ ρ_i C_iᵀ(z_i^{k+1} − z_i^k)‖` for bounded `C_i`) -/
theorem C03_admm_residuals_tendsto {alpha m : ℝ} {cons : List (Con X Z)} {uss : List Z}
    {solveX : List Z → List Z → X → X} {F : Fn X} {xs : X} (H : RelaxHyp alpha m cons uss solveX F xs)
    (ha : 0 < alpha) (ha2 : alpha < 2) (f : Option (X → ℝ)) (s : RS X Z) (hb : RS.Base xs cons uss s) :
    Filter.Tendsto (fun k => admmNormPrimalImpl (admmOfCons f alpha solveX cons)
        (iter (admmSpecStep (admmOfCons f alpha solveX cons)) (k + 2) s.state) none) Filter.atTop (nhds 0) ∧
    Filter.Tendsto (fun k => (iter (RS.next alpha solveX) (k + 1) s).dzSq alpha solveX) Filter.atTop (nhds 0) := by
  have hok := RS.next_ok alpha solveX hb
  constructor
  · have h1 := RS.primalSq_tendsto H ha ha2 hok
    have h2 := (Real.continuous_sqrt.tendsto 0).comp h1
    rw [Real.sqrt_zero] at h2
    refine h2.congr (fun k => ?_)
    simp only [Function.comp]
    have e := RS.iter_eq alpha f solveX cons (k + 2) s hb.hc
    rw [e.1]
    have := RS.normPrimal_eq f alpha solveX (iter (RS.next alpha solveX) (k + 2) s)
    rw [e.2] at this
    rw [this]
    rfl
  · exact RS.dzSq_tendsto H ha ha2 hok

/-- strongly convex `f` (`m > 0`), `0 < α ≤ 2`: from EVERY start the point returned by `minimizer()` converges to the
    minimiser `x*`, which is the only point satisfying the hypotheses -/
theorem C03_admm_converges {alpha m : ℝ} {cons : List (Con X Z)} {uss : List Z} {solveX : List Z → List Z → X → X}
    {F : Fn X} {xs : X} (H : RelaxHyp alpha m cons uss solveX F xs) (ha : 0 < alpha) (hm : 0 < m)
    (f : Option (X → ℝ)) (s : RS X Z) (hb : RS.Base xs cons uss s) :
    Filter.Tendsto (fun k => admmMinimizer (iter (admmSpecStep (admmOfCons f alpha solveX cons)) k s.state))
      Filter.atTop (nhds xs) := by
  have hok := RS.next_ok alpha solveX hb
  have h1 := RS.x_tendsto H ha hm hok
  rw [← Filter.tendsto_add_atTop_iff_nat 1]
  refine h1.congr (fun k => ?_)
  rw [(RS.iter_eq alpha f solveX cons (k + 1) s hb.hc).1]
  rfl

/-- the un-relaxed Lyapunov function `V` of `C03_admm_lyapunov` from EVERY start: after the first iteration the
    state is dual feasible, so `V_{k+1} ≤ V_1` for all `k` -/
theorem C03_admm_lyapunov_anystart (cons : List (Con X Z)) (uss : List Z) (f : Option (X → ℝ))
    (solveX : List Z → List Z → X → X) (F : Fn X)
    (hsolve : ∀ z u x0, F.Subgrad (solveX z u x0) (xGrad cons z u (solveX z u x0)))
    (xs : X) (hkx : F.Subgrad xs (xGrad cons (cons.map (fun c => c.C xs)) uss xs)) (k : Nat)
    (s : RS X Z) (hb : RS.Base xs cons uss s) :
    ∃ (rows' : List (Row X Z)) (x' : X) (zOld' : List Z),
      iter (admmSpecStep (admmOfCons f 1 solveX cons)) (k + 1) s.state
        = { x := x', z := rows'.map (·.z), zOld := zOld', u := rows'.map (·.u) } ∧
      rows'.map (·.c) = cons ∧ rows'.map (·.us) = uss ∧ (∀ r ∈ rows', RowOK xs r) ∧
      rowsV xs rows' (·.z) (·.u) ≤ rowsV xs (s.next 1 solveX).rows (·.z) (·.u) := by
  have hok := RS.next_ok 1 solveX hb
  have h1 := RS.step_eq 1 f solveX s
  rw [hb.hc] at h1
  obtain ⟨rows', x', zOld', e, hc, hu, hr, hV⟩ :=
    admm_lyapunov_rows_traj cons uss f solveX F hsolve xs hkx k (s.next 1 solveX).rows (s.next 1 solveX).x
      (s.next 1 solveX).zOld hok.hc hok.hu (fun r hr => (hok.hb r hr).ok (hok.hpre r hr))
  refine ⟨rows', x', zOld', ?_, hc, hu, hr, hV⟩
  show iter _ k (admmSpecStep _ s.state) = _
  rw [h1]
  exact e

/-- PDHG (Chambolle–Pock form implemented by scico), linear `C`, `alpha = 1`: one documented iteration from ANY
    state is Fejér monotone w.r.t. every saddle point in the metric `M(a,b) = ‖a‖²/τ − 2⟪Ca,b⟫ + ‖b‖²/σ`, and `M`
    dominates `(1−θ)(‖a‖²/τ + ‖b‖²/σ)` when `τσ‖C‖² ≤ θ²` -/
theorem C03_pdhg_fejer (p : PDHGParams ℝ X Z) (F : Fn X) (xs : X) (zs : Z) (H : PDHGHyp p F xs zs)
    (s : PDHGState X Z) :
    pdM p.C p.tau p.sigma ((pdhgSpecStep p s).x - xs) ((pdhgSpecStep p s).z - zs)
        + pdM p.C p.tau p.sigma (s.x - (pdhgSpecStep p s).x) (s.z - (pdhgSpecStep p s).z)
      ≤ pdM p.C p.tau p.sigma (s.x - xs) (s.z - zs) ∧
    (∀ (Lc theta : ℝ), PDHGRange p Lc theta → ∀ a b,
      (1 - theta) * (‖a‖ ^ 2 / p.tau + ‖b‖ ^ 2 / p.sigma) ≤ pdM p.C p.tau p.sigma a b) :=
  ⟨(pdhg_fejer_step p F xs zs H s).2.2,
   fun _ _ R a b => pdM_lower p.C H.tau H.sigma R.L0 R.th0 R.bd R.ts a b⟩

/-- the dual hypothesis of `PDHGHyp` from the proximal-map contracts: on the conjugate (`Cx* ∈ ∂g*(z*)`), or on `g`
    itself with `conj_prox` computed by the Moreau decomposition as the code does (`z* ∈ ∂g(Cx*)`) -/
theorem C03_pdhg_dual_contract (p : PDHGParams ℝ X Z) (xs : X) (zs : Z) :
    (∀ Gc : Fn Z, IsProx Gc p.proxgConj → Gc.Subgrad zs (p.C xs) →
      ∀ lam, 0 < lam → ∀ v, 0 ≤ inner ℝ (p.proxgConj lam v - zs) ((1 / lam) • (v - p.proxgConj lam v) - p.C xs)) ∧
    (∀ (G : Fn Z) (proxg : ℝ → Z → Z), IsProx G proxg →
      (∀ lam v, p.proxgConj lam v = v - lam • proxg (1 / lam) ((1 / lam) • v)) → G.Subgrad (p.C xs) zs →
      ∀ lam, 0 < lam → ∀ v, 0 ≤ inner ℝ (p.proxgConj lam v - zs) ((1 / lam) • (v - p.proxgConj lam v) - p.C xs)) :=
  ⟨fun Gc hg h2 => pdhg_dual_of_conj p Gc hg xs zs h2,
   fun G proxg hg hconj h2 => pdhg_dual_of_moreau p G proxg hg hconj xs zs h2⟩

/-- … along whole trajectories from every start, for the documented range `τσ‖C‖² < 1`: the `M`-distance to every
    saddle point is non-increasing, the Euclidean distances stay bounded by it, and the residuals reported by
    `norm_primal_residual()` / `norm_dual_residual()` tend to `0` -/
theorem C03_pdhg_traj (p : PDHGParams ℝ X Z) (F : Fn X) (xs : X) (zs : Z) (H : PDHGHyp p F xs zs)
    {Lc theta : ℝ} (R : PDHGRange p Lc theta) (hnx : p.normX = fun v => ‖v‖) (hnz : p.normZ = fun v => ‖v‖)
    (s : PDHGState X Z) :
    (∀ k, pdM p.C p.tau p.sigma ((iter (pdhgSpecStep p) (k + 1) s).x - xs) ((iter (pdhgSpecStep p) (k + 1) s).z - zs)
        ≤ pdM p.C p.tau p.sigma ((iter (pdhgSpecStep p) k s).x - xs) ((iter (pdhgSpecStep p) k s).z - zs)) ∧
    (∀ k, (1 - theta) * (‖(iter (pdhgSpecStep p) k s).x - xs‖ ^ 2 / p.tau + ‖(iter (pdhgSpecStep p) k s).z - zs‖ ^ 2 / p.sigma)
        ≤ pdM p.C p.tau p.sigma (s.x - xs) (s.z - zs)) ∧
    Filter.Tendsto (fun k => pdhgNormPrimalImpl p (iter (pdhgSpecStep p) (k + 1) s)) Filter.atTop (nhds 0) ∧
    Filter.Tendsto (fun k => pdhgNormDualImpl p (iter (pdhgSpecStep p) (k + 1) s)) Filter.atTop (nhds 0) :=
  ⟨fun k => (pdhg_fejer_traj p F xs zs H R s k).1, fun k => (pdhg_fejer_traj p F xs zs H R s k).2,
   (pdhg_residuals_tendsto p F xs zs H R hnx hnz s).1, (pdhg_residuals_tendsto p F xs zs H R hnx hnz s).2⟩

/-- proximal ADMM (general `B`, `c`) under the documented constraints `μ ≥ ‖A‖²`, `ν ≥ ‖B‖²`: every state produced by
    `step()` satisfies the invariant `PADMMInv` (first conjunct: from ANY state), and from such a state
    `Ψ⁺ + ‖x⁺−x‖²_P + ρν‖z⁺−z‖² + ρ‖u⁺−u‖² ≤ Ψ` for
    `Ψ = ρ‖u−u*‖² + ‖x−x*‖²_P + ρν‖z−z*‖² + ‖z−z_old‖²_Q`, `P = ρ(μ − AᵀA)`, `Q = ρ(ν − BᵀB)`; `Ψ, ‖·‖_P, ‖·‖_Q ≥ 0` -/
theorem C03_padmm_lyapunov (p : PADMMParams ℝ X Z U) (F : Fn X) (G : Fn Z) (xs : X) (zs : Z) (us : U)
    (H : PADMMHyp p F G xs zs us) (s : PADMMState X Z U) :
    PADMMInv p G (padmmSpecStep p s) ∧
    (PADMMInv p G s →
      padmmPsi p xs zs us (padmmSpecStep p s) + padmmDiss p s (padmmSpecStep p s) ≤ padmmPsi p xs zs us s) ∧
    0 ≤ padmmPsi p xs zs us s ∧ 0 ≤ padmmDiss p s (padmmSpecStep p s) :=
  ⟨padmm_inv_step p G H.rho H.nu H.proxg s, padmm_lyapunov_step p F G xs zs us H s,
   padmmPsi_nonneg p F G xs zs us H s, padmmDiss_nonneg p F G xs zs us H _ _⟩

/-- … along whole trajectories from every start: `Ψ_{k+2} ≤ Ψ_{k+1}`, and the residuals reported by
    `norm_primal_residual()` and (fast form) `norm_dual_residual()` tend to `0` -/
theorem C03_padmm_traj (p : PADMMParams ℝ X Z U) (F : Fn X) (G : Fn Z) (xs : X) (zs : Z) (us : U)
    (H : PADMMHyp p F G xs zs us) (hnu : p.normU = fun v => ‖v‖) (hnz : p.normZ = fun v => ‖v‖)
    (hfast : p.fastDual = true) (s : PADMMState X Z U) :
    (∀ k, padmmPsi p xs zs us (iter (padmmSpecStep p) (k + 2) s) ≤ padmmPsi p xs zs us (iter (padmmSpecStep p) (k + 1) s)) ∧
    (∃ r : ℕ → ℝ, (∀ k, padmmNormPrimalImpl p (iter (padmmSpecStep p) (k + 2) s) none none = .ok (r k)) ∧
      Filter.Tendsto r Filter.atTop (nhds 0)) ∧
    Filter.Tendsto (fun k => padmmNormDualImpl p (iter (padmmSpecStep p) (k + 2) s)) Filter.atTop (nhds 0) :=
  ⟨fun k => padmm_lyapunov_mono p F G xs zs us H (padmmSpecStep p s) (padmm_inv_step p G H.rho H.nu H.proxg s) k,
   (padmm_residuals_tendsto p F G xs zs us H hnu hnz hfast s).1,
   (padmm_residuals_tendsto p F G xs zs us H hnu hnz hfast s).2⟩

/-- linearized ADMM under the documented constraint `μ‖C‖² ≤ ν`: from a dual-feasible state (`u/ν ∈ ∂g(z)`, true
    after every step — first conjunct, from ANY state)
    `V = (1/ν)(‖u−u*‖² + ‖z−Cx*‖²) + (1/μ)‖x−x*‖² − (1/ν)‖C(x−x*)‖²` decreases by at least
    `(1/μ)‖x⁺−x‖² − (1/ν)‖C(x⁺−x)‖² + (1/ν)(‖z⁺−z‖² + ‖u⁺−u‖²) ≥ 0` -/
theorem C03_ladmm_lyapunov (p : LADMMParams ℝ X Z) (F : Fn X) (G : Fn Z) (xs : X) (us : Z)
    (H : LADMMHyp p F G xs us) (s : LADMMState X Z) :
    G.Subgrad (ladmmSpecStep p s).z ((1 / p.nu) • (ladmmSpecStep p s).u) ∧
    (G.Subgrad s.z ((1 / p.nu) • s.u) →
      ladmmV p xs us (ladmmSpecStep p s) + ladmmDiss p s (ladmmSpecStep p s) ≤ ladmmV p xs us s) ∧
    0 ≤ ladmmV p xs us s ∧ 0 ≤ ladmmDiss p s (ladmmSpecStep p s) :=
  ⟨ladmm_feasible_step p G H.nu H.proxg s, ladmm_lyapunov_step p F G xs us H s,
   ladmmV_nonneg p F G xs us H s, ladmmDiss_nonneg p F G xs us H _ _⟩

/-- … along whole trajectories from every start: `V_{k+2} ≤ V_{k+1}`, `norm_primal_residual() → 0`, `‖z − z_old‖ → 0` -/
theorem C03_ladmm_traj (p : LADMMParams ℝ X Z) (F : Fn X) (G : Fn Z) (xs : X) (us : Z)
    (H : LADMMHyp p F G xs us) (hnz : p.normZ = fun v => ‖v‖) (s : LADMMState X Z) :
    (∀ k, ladmmV p xs us (iter (ladmmSpecStep p) (k + 2) s) ≤ ladmmV p xs us (iter (ladmmSpecStep p) (k + 1) s)) ∧
    Filter.Tendsto (fun k => ladmmNormPrimalImpl p (iter (ladmmSpecStep p) (k + 2) s) none) Filter.atTop (nhds 0) ∧
    Filter.Tendsto (fun k => ‖(iter (ladmmSpecStep p) (k + 2) s).z - (iter (ladmmSpecStep p) (k + 2) s).zOld‖)
      Filter.atTop (nhds 0) :=
  ⟨fun k => ladmm_lyapunov_mono p F G xs us H (ladmmSpecStep p s) (ladmm_feasible_step p G H.nu H.proxg s) k,
   (ladmm_residuals_tendsto p F G xs us H hnz s).1, (ladmm_residuals_tendsto p F G xs us H hnz s).2⟩

/-- accelerated PGM = FISTA (Beck–Teboulle 2009, Thm 4.4) for the documented iteration with the base step-size object,
    `L ≥` Lipschitz constant, convex `f`: from the constructor state (`v = x_0`, `t = 1`), for every `k` and every
    comparison point `x̄ ∈ dom g` (in particular a minimiser): `F(x_{k+1}) − F(x̄) ≤ 2L‖x_0 − x̄‖²/(k+2)²` -/
theorem C03_fista_rate (p : PGMParams Unit ℝ X) {G : Fn X} {L : ℝ} (h : FISTAHyp p G L) (xb : X) (hxb : xb ∈ G.dom)
    (s : APGMState Unit ℝ X) (hsL : s.L = L) (ht : s.t = 1) (hv : s.v = s.x) (k : Nat) :
    (p.f (iter (apgmSpecStep p) (k + 1) s).x + G.val (iter (apgmSpecStep p) (k + 1) s).x) - (p.f xb + G.val xb)
      ≤ 2 * L * ‖s.x - xb‖ ^ 2 / ((k : ℝ) + 2) ^ 2 :=
  fista_rate p h xb hxb s hsL ht hv k

/-- … and the dual residual reported by `norm_dual_residual()`, `‖Σ ρ_i C_iᵀ(z_i^{k+1} − z_i^k)‖`, when the adjoints are
    bounded (`‖C_iᵀ w‖ ≤ B‖w‖`, automatic in finite dimension) -/
theorem C03_admm_dual_residual_tendsto {alpha m : ℝ} {cons : List (Con X Z)} {uss : List Z}
    {solveX : List Z → List Z → X → X} {F : Fn X} {xs : X} (H : RelaxHyp alpha m cons uss solveX F xs)
    (ha : 0 < alpha) (ha2 : alpha < 2) (f : Option (X → ℝ)) (Bd : ℝ) (hB : 0 ≤ Bd)
    (hbd : ∀ c ∈ cons, ∀ w, ‖c.Cadj w‖ ≤ Bd * ‖w‖) (s : RS X Z) (hb : RS.Base xs cons uss s) :
    Filter.Tendsto (fun k => admmNormDualImpl (admmOfCons f alpha solveX cons)
        (iter (admmSpecStep (admmOfCons f alpha solveX cons)) (k + 2) s.state)) Filter.atTop (nhds 0) := by
  have hok := RS.next_ok alpha solveX hb
  have h1 := RS.normDual_tendsto H ha ha2 f Bd hB hbd hok
  refine h1.congr (fun k => ?_)
  rw [(RS.iter_eq alpha f solveX cons (k + 2) s hb.hc).1]
  rfl

/-- the FISTA potential `E = 2t(t−1)(F(x) − F(x̄)) + L‖t v − (t−1) x − x̄‖²` (in the variables of the public state) does
    not increase in one documented iteration whenever `t ≥ 1` (true on every reachable state) -/
theorem C03_fista_potential (p : PGMParams Unit ℝ X) {G : Fn X} {L : ℝ} (h : FISTAHyp p G L) (xb : X)
    (hxb : xb ∈ G.dom) (s : APGMState Unit ℝ X) (hsL : s.L = L) (ht : 1 ≤ s.t) (hdom : s.x ∈ G.dom ∨ s.t = 1) :
    fistaE p G L xb (apgmSpecStep p s) ≤ fistaE p G L xb s ∧
    (apgmSpecStep p s).x ∈ G.dom ∧ 1 ≤ (apgmSpecStep p s).t ∧ (apgmSpecStep p s).L = L :=
  fista_potential_step p h xb hxb s hsL ht hdom

/-- PGM with an ARBITRARY step-size hook (BB, adaptive BB, line searches, user objects): if the value `L` it returns at
    this state is `≥` the Lipschitz constant `L_f`, the documented step does not increase the distance to any minimiser
    and decreases the objective by at least `(L/2)‖x⁺ − x‖²` -/
theorem C03_pgm_monotone_anyhook {σ : Type} (p : PGMParams σ ℝ X) {G : Fn X} (hp : IsProx G p.proxg) {Lf : ℝ}
    (hLf : 0 < Lf) (hco : CoCoercive p.gradf Lf) (hd : DescentLemma p.f p.gradf Lf) (s : PGMState σ ℝ X)
    (hL : Lf ≤ (p.pol.update s.mem s.L s.x s.x).1) {xs : X} (hk : G.Subgrad xs (-(p.gradf xs))) :
    ‖(pgmSpecStep p s).x - xs‖ ≤ ‖s.x - xs‖ ∧
    (s.x ∈ G.dom → p.f (pgmSpecStep p s).x + G.val (pgmSpecStep p s).x
      ≤ p.f s.x + G.val s.x - (pgmSpecStep p s).L / 2 * ‖(pgmSpecStep p s).x - s.x‖ ^ 2) :=
  pgm_anyhook_step p hp hLf hco hd s hL hk

/-- strongly convex `f` (`∂f` `m`-strongly monotone, `m > 0`): from EVERY start the point returned by `minimizer()`
    converges to the minimiser — PDHG (`alpha = 1`, linear `C`, `τσ‖C‖² < 1`), ProximalADMM (`μ ≥ ‖A‖²`, `ν ≥ ‖B‖²`),
    LinearizedADMM (`μ‖C‖² ≤ ν`).  (ADMM: `C03_admm_converges`; PGM: `C03_pgm_converges`.) -/
theorem C03_pdhg_padmm_ladmm_converge {m : ℝ} (hm : 0 < m) (F : Fn X) (hsm : StrongSub F m) :
    (∀ (p : PDHGParams ℝ X Z) (xs : X) (zs : Z), PDHGHyp p F xs zs → ∀ (Lc theta : ℝ), PDHGRange p Lc theta →
      ∀ s : PDHGState X Z,
        Filter.Tendsto (fun k => pdhgMinimizer (iter (pdhgSpecStep p) k s)) Filter.atTop (nhds xs)) ∧
    (∀ (p : PADMMParams ℝ X Z U) (G : Fn Z) (xs : X) (zs : Z) (us : U), PADMMHyp p F G xs zs us →
      ∀ s : PADMMState X Z U,
        Filter.Tendsto (fun k => padmmMinimizer (iter (padmmSpecStep p) k s)) Filter.atTop (nhds xs)) ∧
    (∀ (p : LADMMParams ℝ X Z) (G : Fn Z) (xs : X) (us : Z), LADMMHyp p F G xs us →
      ∀ s : LADMMState X Z,
        Filter.Tendsto (fun k => ladmmMinimizer (iter (ladmmSpecStep p) k s)) Filter.atTop (nhds xs)) :=
  ⟨fun p xs zs H _ _ R s => pdhg_x_tendsto p F xs zs H R hm hsm s,
   fun p G xs zs us H s => padmm_x_tendsto p F G xs zs us H hm hsm s,
   fun p G xs us H s => ladmm_x_tendsto p F G xs us H hm hsm s⟩

/-- AcceleratedPGM, `m`-strongly convex `f`: `‖x_{k+1} − x*‖² ≤ 4L‖x_0 − x*‖²/(m (k+2)²)` for every `k`, hence
    `minimizer() → x*` from every start -/
theorem C03_fista_converges (p : PGMParams Unit ℝ X) {G : Fn X} {L m : ℝ} (h : FISTAHyp p G L) (hm : 0 < m)
    (hs : GradStrongConvex p.f p.gradf m) {xs : X} (hk : G.Subgrad xs (-(p.gradf xs)))
    (s : APGMState Unit ℝ X) (hsL : s.L = L) (ht : s.t = 1) (hv : s.v = s.x) :
    (∀ k : Nat, ‖(iter (apgmSpecStep p) (k + 1) s).x - xs‖ ^ 2 ≤ 4 * L * ‖s.x - xs‖ ^ 2 / (m * ((k : ℝ) + 2) ^ 2)) ∧
    Filter.Tendsto (fun k => apgmMinimizer (iter (apgmSpecStep p) k s)) Filter.atTop (nhds xs) :=
  ⟨fun k => fista_x_rate p h hm hs hk s hsL ht hv k, fista_x_tendsto p h hm hs hk s hsL ht hv⟩

/-- AcceleratedPGM with the library's `t` rule `t⁺ = (1 + √(1 + 4t²))/2`, MERELY CONVEX `f` (convergence of the whole sequence
    of iterates is an open problem for this rule).  From the constructor state, for EVERY minimiser `x*` of `f + g`:
    every iterate lies in the closed ball of radius `‖x_0 − x*‖` around `x*`, and every iterate after the first is in `dom g` -/
theorem C03_fista_iterates_ball (p : PGMParams Unit ℝ X) {G : Fn X} {L : ℝ} (h : FISTAHyp p G L) {xb : X}
    (hmin : IsMinOn p.f G xb) (s : APGMState Unit ℝ X) (hsL : s.L = L) (ht : s.t = 1) (hv : s.v = s.x) (k : Nat) :
    ‖apgmMinimizer (iter (apgmSpecStep p) k s) - xb‖ ≤ ‖s.x - xb‖ ∧ (iter (apgmSpecStep p) (k + 1) s).x ∈ G.dom :=
  ⟨fista_ball p h hmin s hsL ht hv k, fista_dom p h hmin s hsL ht hv k⟩

/-- … and when `f + g` has closed sub-level sets (a closed function): every cluster point of the iterates is a minimiser; in
    finite dimensions (arrays) some subsequence converges to a minimiser -/
theorem C03_fista_cluster_points [FiniteDimensional ℝ X] (p : PGMParams Unit ℝ X) {G : Fn X} {L : ℝ} (h : FISTAHyp p G L)
    {xb : X} (hmin : IsMinOn p.f G xb) (hcl : ClosedSublevels p.f G)
    (s : APGMState Unit ℝ X) (hsL : s.L = L) (ht : s.t = 1) (hv : s.v = s.x) :
    (∀ (φ : ℕ → ℕ), StrictMono φ → ∀ xc : X,
      Filter.Tendsto (fun k => apgmMinimizer (iter (apgmSpecStep p) (φ k) s)) Filter.atTop (nhds xc) → IsMinOn p.f G xc) ∧
    (∃ xc, IsMinOn p.f G xc ∧ ∃ φ : ℕ → ℕ, StrictMono φ ∧
      Filter.Tendsto (fun k => apgmMinimizer (iter (apgmSpecStep p) (φ k) s)) Filter.atTop (nhds xc)) := by
  have := FiniteDimensional.proper_real X
  exact ⟨fun φ hφ xc hlim => fista_cluster_min p h hmin hcl s hsL ht hv φ hφ xc hlim,
    fista_subseq p h hmin hcl s hsL ht hv⟩

/-- … and when the minimiser is UNIQUE the whole sequence `minimizer()` converges to it (finite dimensions, `f` merely
    convex: no strong convexity of `f` or `g`) -/
theorem C03_fista_merely_convex_converges [FiniteDimensional ℝ X] (p : PGMParams Unit ℝ X) {G : Fn X} {L : ℝ}
    (h : FISTAHyp p G L) {xb : X} (hmin : IsMinOn p.f G xb) (huniq : ∀ y, IsMinOn p.f G y → y = xb)
    (hcl : ClosedSublevels p.f G) (s : APGMState Unit ℝ X) (hsL : s.L = L) (ht : s.t = 1) (hv : s.v = s.x) :
    Filter.Tendsto (fun k => apgmMinimizer (iter (apgmSpecStep p) k s)) Filter.atTop (nhds xb) := by
  have := FiniteDimensional.proper_real X
  exact fista_unique_tendsto p h hmin huniq hcl s hsL ht hv

/-- PDHG over the WHOLE documented range `alpha ∈ [0,1]` (`alpha = 0`: Arrow–Hurwicz, for which the merely convex instance of
    `C03_pdhg_alpha0_no_convergence` does not converge), `m`-strongly convex `f`, linear `C` with `‖Ca‖ ≤ L‖a‖`, `τσL² ≤ 1`, and
    the additional explicit step condition `(1−α)σL² + gap ≤ 2m` (void for `alpha = 1`; `σL² ≤ 2m` for `alpha = 0`):
    (i) one documented iteration is Fejér-monotone in `M_α(a,b) = ‖a‖²/τ − 2α⟪Ca,b⟫ + ‖b‖²/σ ≥ 0` with the gain `gap·‖x⁺ − x*‖²`;
    (ii) for `gap > 0`, `minimizer() → x*` from every start -/
theorem C03_pdhg_alpha_strong (p : PDHGParams ℝ X Z) (F : Fn X) (xs : X) (zs : Z) (H : PDHGHypA p F xs zs)
    {Lc m gap : ℝ} (R : PDHGRangeA p Lc m gap) (hsm : StrongSub F m) :
    (∀ s : PDHGState X Z,
      pdMA p.C p.tau p.sigma p.alpha ((pdhgSpecStep p s).x - xs) ((pdhgSpecStep p s).z - zs)
          + gap * ‖(pdhgSpecStep p s).x - xs‖ ^ 2
        ≤ pdMA p.C p.tau p.sigma p.alpha (s.x - xs) (s.z - zs)) ∧
    (∀ (a : X) (b : Z), 0 ≤ pdMA p.C p.tau p.sigma p.alpha a b) ∧
    (0 < gap → ∀ s : PDHGState X Z,
      Filter.Tendsto (fun k => pdhgMinimizer (iter (pdhgSpecStep p) k s)) Filter.atTop (nhds xs)) :=
  ⟨fun s => pdhg_fejer_step_alpha_strong p F xs zs H R hsm s, fun a b => pdMA_nonneg p H.tau H.sigma R a b,
   fun hg s => pdhg_x_tendsto_alpha p F xs zs H R hg hsm s⟩

/-- the x-update of the LINEAR-SYSTEM family of ADMM sub-problem solvers (`LinearSubproblemSolver`, `MatrixSubproblemSolver`,
    `CircularConvolveSolver`, `FBlockCircularConvolveSolver`) meets the contract `XSolver` that the ADMM theorems of this file assume of
    `solveX`.  Transcription of `_admmaux.py`: `lhs_op = H + Σρ_i C_iᴴC_i` (`internal_init`, `H = 2·scale·AᴴWA`), `compute_rhs() =
    g0 + Σρ_i C_iᴴ(z_i − u_i)` (`g0 = 2·scale·AᴴWy`; `f = None`: `H = 0`, `g0 = 0`), `solve` returns `x` with `lhs_op x = rhs` (that the
    concrete CG / Cholesky / DFT solvers do so is C10 / C14).  With `f` differentiable, `∇f = H − g0` (a quadratic loss), additive
    `C_iᴴ` and injective `lhs_op`: `solveX` returns the stationary point of the x-sub-problem and that point is unique — so
    `C03_admm_fixed`, the Lyapunov / relaxed-`W` descent, residual and convergence theorems apply to these solvers; on the states the
    optimiser reaches (all lists of length `N`) the sum over the paired constraints is `lhs_op` itself -/
theorem C03_admm_linear_solver_contract (F : Fn X) (gradf : X → X) (Q : QuadLoss F gradf) (cons : List (Con X Z))
    (hadd : ∀ c ∈ cons, ∀ a b, c.Cadj (a - b) = c.Cadj a - c.Cadj b)
    (g0 : X) (H : X → X) (hgrad : ∀ x, gradf x = H x - g0) (solveX : List Z → List Z → X → X)
    (hsolve : ∀ z u x0, linLhsT cons H z u (solveX z u x0) = linRhs cons g0 z u)
    (hinj : ∀ z u x x', linLhsT cons H z u x = linLhsT cons H z u x' → x = x') :
    XSolver F cons solveX ∧
    (∀ z u : List Z, z.length = cons.length → u.length = cons.length → ∀ x, linLhsT cons H z u x = linLhs cons H x) :=
  ⟨linear_solver_XSolver F gradf Q cons hadd g0 H hgrad solveX hsolve hinj,
   fun z u hz hu x => linLhsT_eq cons H z u hz hu x⟩

/-- the parameter ranges printed in the class docstrings (pinned strings of `Model/StepsSource.lean`, compared with the working
    tree by the generated obligation `Scico.Generated.StepsTables.constraints_ok` on every run) - the hypotheses `LADMMHyp`,
    `PADMMHyp`, `PDHGHyp` / `PDHGHypA`, `DescentLemma` of the theorems of this file transcribe exactly these -/
theorem C03_documented_constraints : Scico.Steps.Source.DocumentedConstraints := Scico.Steps.Source.documented_constraints

/-- merely convex problems (no strong convexity), finite-dimensional variables (arrays), Opial's argument: if a saddle
    point exists, the PDHG iterates (`alpha = 1`, linear `C`, `τσ‖C‖² < 1`) converge from EVERY start to a saddle point
    `(x̄, z̄)` (`−Cᵀz̄ ∈ ∂f(x̄)`, `Cx̄ ∈ ∂g*(z̄)`) — so `minimizer()` converges to a minimiser of `f + g∘C` -/
theorem C03_pdhg_converges_findim [FiniteDimensional ℝ X] [FiniteDimensional ℝ Z] {p : PDHGParams ℝ X Z} {F : Fn X}
    {Gc : Fn Z} {Lc theta : ℝ} (H : PDHGConvHyp p F Gc Lc theta) (hsad : ∃ w, IsSaddle p F Gc w) (s : PDHGState X Z) :
    ∃ wb : X × Z, IsSaddle p F Gc wb ∧
      Filter.Tendsto (fun k => pdhgMinimizer (iter (pdhgSpecStep p) k s)) Filter.atTop (nhds wb.1) ∧
      Filter.Tendsto (fun k => (iter (pdhgSpecStep p) k s).z) Filter.atTop (nhds wb.2) :=
  pdhg_converges_findim H hsad s

/-- … and the LinearizedADMM iterates `(x_k, z_k, u_k)` (`μ‖C‖² < ν`) converge from EVERY start to a KKT point
    (`z̄ = Cx̄`, `−(1/ν)Cᵀū ∈ ∂f(x̄)`, `(1/ν)ū ∈ ∂g(Cx̄)`), which minimises `f + g∘C` by `C03_kkt_minimiser` -/
theorem C03_ladmm_converges_findim [FiniteDimensional ℝ X] [FiniteDimensional ℝ Z] {p : LADMMParams ℝ X Z} {F : Fn X}
    {G : Fn Z} {Lc : ℝ} (H : LADMMConvHyp p F G Lc) (hk : ∃ w, IsLKKT p F G w) (s : LADMMState X Z) :
    ∃ wb : X × Z × Z, IsLKKT p F G wb ∧
      Filter.Tendsto (fun k => ((iter (ladmmSpecStep p) k s).x, (iter (ladmmSpecStep p) k s).z, (iter (ladmmSpecStep p) k s).u))
        Filter.atTop (nhds wb) :=
  ladmm_converges_findim H hk s

/-- … and the ProximalADMM iterates `(x_k, z_k, z_k^old, u_k)` (general `B`, `c`; strict documented constraints `μ > ‖A‖²`,
    `ν > ‖B‖²`) converge from EVERY start to a KKT point (`Ax̄ + Bz̄ = c`, `−ρAᵀū ∈ ∂f(x̄)`, `−ρBᵀū ∈ ∂g(z̄)`) -/
theorem C03_padmm_converges_findim [FiniteDimensional ℝ X] [FiniteDimensional ℝ Z] [FiniteDimensional ℝ U]
    {p : PADMMParams ℝ X Z U} {F : Fn X} {G : Fn Z} {La Lb : ℝ} (H : PADMMConvHyp p F G La Lb)
    (hk : ∃ w, IsPKKT p F G w) (s : PADMMState X Z U) :
    ∃ wb : X × Z × Z × U, IsPKKT p F G wb ∧
      Filter.Tendsto (fun k => ((iter (padmmSpecStep p) k s).x, (iter (padmmSpecStep p) k s).z,
        (iter (padmmSpecStep p) k s).zOld, (iter (padmmSpecStep p) k s).u)) Filter.atTop (nhds wb) :=
  padmm_converges_findim H hk s

/-- ADMM itself: `N` constraints, relaxation `0 < α < 2`, MERELY convex problem, finite-dimensional variables, any x-solver
    that returns the (unique) stationary point of the x-sub-problem and depends continuously on `(z, u)`.  If a KKT point
    exists, then from EVERY start (any `x`, any lists `z = List.ofFn zf`, `u = List.ofFn uf` of length `N`) the point returned
    by `minimizer()` converges to the `x*` of a KKT point, and the Douglas–Rachford variables `z_i^k + u_i^k` (`σseq`) converge
    to `C_i x* + u_i*`.  (Opial's argument on `Fin N → Z` with `W` as the Fejér metric.) -/
theorem C03_admm_converges_findim [FiniteDimensional ℝ X] [FiniteDimensional ℝ Z] {cons : List (Con X Z)} {alpha : ℝ}
    {solveX : List Z → List Z → X → X} {F : Fn X} {x0 : X} {rlo rhi : ℝ}
    (H : ADMMConvHyp cons alpha solveX F x0 rlo rhi) (hk : ∃ xs us, IsAKKT cons F xs us) (f : Option (X → ℝ))
    (us0 zf uf : Fin cons.length → Z) (x : X) (zo : List Z) :
    ∃ (xs : X) (us : Fin cons.length → Z) (σseq : ℕ → Fin cons.length → Z), IsAKKT cons F xs us ∧
      (∀ k, (iter (admmSpecStep (admmOfCons f alpha solveX cons)) (k + 1)
              { x := x, z := List.ofFn zf, zOld := zo, u := List.ofFn uf }).z = List.ofFn (Pz cons (σseq k)) ∧
            (iter (admmSpecStep (admmOfCons f alpha solveX cons)) (k + 1)
              { x := x, z := List.ofFn zf, zOld := zo, u := List.ofFn uf }).u
              = List.ofFn (fun i => σseq k i - Pz cons (σseq k) i)) ∧
      Filter.Tendsto σseq Filter.atTop (nhds (fun i => (cons.get i).C xs + us i)) ∧
      Filter.Tendsto (fun k => admmMinimizer (iter (admmSpecStep (admmOfCons f alpha solveX cons)) k
          { x := x, z := List.ofFn zf, zOld := zo, u := List.ofFn uf })) Filter.atTop (nhds xs) := by
  obtain ⟨xs, us, σseq, hkk, hrows, hσ, hx⟩ := admm_converges_findim H hk us0 zf uf x zo
  have hstate : (⟨rowsOf cons us0 zf uf, x, zo⟩ : RS X Z).state = { x := x, z := List.ofFn zf, zOld := zo, u := List.ofFn uf } := by
    unfold RS.state
    simp only [rowsOf_z, rowsOf_u]
  have hit := fun k => (RS.iter_eq alpha f solveX cons k ⟨rowsOf cons us0 zf uf, x, zo⟩ (rowsOf_c cons us0 zf uf)).1
  simp only [hstate] at hit
  refine ⟨xs, us, σseq, hkk, fun k => ?_, hσ, ?_⟩
  · rw [hit (k + 1)]
    unfold RS.state
    simp only [hrows k]
    unfold rowsσ
    exact ⟨rowsOf_z cons _ _ _, rowsOf_u cons _ _ _⟩
  · refine hx.congr (fun k => ?_)
    rw [hit k]
    rfl

/-- PDHG with ANY extrapolation parameter `alpha` (documented range `[0,1]`), linear `C`: the Fejér inequality of
    `C03_pdhg_fejer` holds up to the explicit defect `2(1−α)⟪z⁺ − z*, C(x − x⁺)⟫`, which vanishes for `alpha = 1` -/
theorem C03_pdhg_alpha_defect (p : PDHGParams ℝ X Z) (F : Fn X) (xs : X) (zs : Z) (H : PDHGHypA p F xs zs)
    (s : PDHGState X Z) :
    pdM p.C p.tau p.sigma ((pdhgSpecStep p s).x - xs) ((pdhgSpecStep p s).z - zs)
        + pdM p.C p.tau p.sigma (s.x - (pdhgSpecStep p s).x) (s.z - (pdhgSpecStep p s).z)
      ≤ pdM p.C p.tau p.sigma (s.x - xs) (s.z - zs)
        + 2 * (1 - p.alpha) * inner ℝ ((pdhgSpecStep p s).z - zs) (p.C (s.x - (pdhgSpecStep p s).x)) :=
  pdhg_fejer_step_alpha p F xs zs H s

/-- … and the defect is real: NEGATIVE result for `alpha = 0`, which is inside the documented range.  For the convex
    problem `f = 0`, `g = ι_{0}` (`g* = 0`), `C = I` on ℝ with `τ = σ = 1/2` (`τσ‖C‖² = 1/4 < 1`, all documented constraints
    met, unique saddle point `(0,0)`): the `M`-distance to the saddle point INCREASES in the step from `(0,1)`, and
    `x_k² + z_k² ≥ (3/5)(x_0² + z_0²)` for every `k` and every start — no orbit converges.  Hence for merely convex
    problems the property's convergence claim cannot hold for PDHG with `alpha = 0` (it does for `alpha = 1`,
    `C03_pdhg_converges_findim`, and for strongly convex `f` the case `alpha < 1` is open here). -/
theorem C03_pdhg_alpha0_no_convergence :
    (PDHGHypA pdhgA0 (Fn.ofReal (fun _ : ℝ => (0 : ℝ))) 0 0 ∧ PDHGRange pdhgA0 1 (1 / 2) ∧ pdhgA0.alpha = 0) ∧
    pdM pdhgA0.C pdhgA0.tau pdhgA0.sigma (0 - 0) (1 - 0)
      < pdM pdhgA0.C pdhgA0.tau pdhgA0.sigma
          ((pdhgSpecStep pdhgA0 { x := 0, xOld := 0, z := 1, zOld := 1 }).x - 0)
          ((pdhgSpecStep pdhgA0 { x := 0, xOld := 0, z := 1, zOld := 1 }).z - 0) ∧
    (∀ (s : PDHGState ℝ ℝ) (k : Nat),
      3 / 5 * (s.x ^ 2 + s.z ^ 2) ≤ (iter (pdhgSpecStep pdhgA0) k s).x ^ 2 + (iter (pdhgSpecStep pdhgA0) k s).z ^ 2) :=
  ⟨pdhgA0_hyp, pdhgA0_not_fejer, pdhgA0_no_convergence⟩

/-- PGM: the objective is non-increasing along the whole trajectory (base step-size object, `L ≥` Lipschitz constant) -/
theorem C03_pgm_objective_traj (p : PGMParams Unit ℝ X) {G : Fn X} {L : ℝ} (h : PGMHyp p G L)
    (hd : DescentLemma p.f p.gradf L) (s : PGMState Unit ℝ X) (hsL : s.L = L) (k : Nat) :
    p.f (iter (pgmSpecStep p) (k + 2) s).x + G.val (iter (pgmSpecStep p) (k + 2) s).x
      ≤ p.f (iter (pgmSpecStep p) (k + 1) s).x + G.val (iter (pgmSpecStep p) (k + 1) s).x := by
  have hL := pgm_iter_L p h (k + 1) s hsL
  have hx := (pgmSpec_x p h (iter (pgmSpecStep p) (k + 1) s) hL).1
  have hdom : (iter (pgmSpecStep p) (k + 1) s).x ∈ G.dom := by
    rw [iter_succ', (pgmSpec_x p h (iter (pgmSpecStep p) k s) (pgm_iter_L p h k s hsL)).1]
    exact (h.prox L⁻¹ (inv_pos.2 h.Lpos) _).1
  have := pgStep_objective h.prox h.Lpos hd hdom
  rw [← hx, ← iter_succ' (pgmSpecStep p) (k + 1) s] at this
  have h0 : 0 ≤ L / 2 * ‖(iter (pgmSpecStep p) (k + 1 + 1) s).x - (iter (pgmSpecStep p) (k + 1) s).x‖ ^ 2 := by
    have := h.Lpos; positivity
  linarith

/-! ### non-vacuity of the round-2 theorems: `min ½‖x − y0‖² + Σ 0(x)`, in every inner-product space -/

-- the x-update contract `XSolver` of `C03_admm_fixed` (stationarity + uniqueness) holds for the exact solver
example (y0 : X) : XSolver (halfSq y0) [idCon 1, idCon 2] (exSolveX y0 [idCon 1, idCon 2]) :=
  exSolveX_xsolver y0 _ (by intro c hc; simp at hc; rcases hc with rfl | rfl <;> exact ⟨rfl, rfl⟩)
    (by intro c hc; simp at hc; rcases hc with rfl | rfl <;> norm_num [idCon])

-- relaxed ADMM, two constraints, `α = 3/2`, strongly convex `f` (`m = 1`): all hypotheses of
-- `C03_admm_relax_traj / _residuals_tendsto / _converges` hold, for every start `(x, z_1, z_2, u_1, u_2)`
example (y0 x z1 z2 u1 u2 : X) :
    Filter.Tendsto (fun k => admmMinimizer (iter (admmSpecStep (admmOfCons none (3 / 2) (exSolveX y0 ([1, 2].map idCon))
        ([1, 2].map idCon))) k
        (RS.state ⟨[⟨idCon 1, z1, u1, 0⟩, ⟨idCon 2, z2, u2, 0⟩], x, []⟩))) Filter.atTop (nhds y0) := by
  have H := ex_relaxHyp y0 [1, 2] (by intro r hr; simp at hr; rcases hr with rfl | rfl <;> norm_num) (3 / 2)
    (by norm_num) (by norm_num)
  refine C03_admm_converges H (by norm_num) (by norm_num) none _ ⟨rfl, rfl, ?_⟩
  intro r hr
  simp at hr
  rcases hr with rfl | rfl
  · exact idCon_base 1 (by norm_num) y0 z1 u1
  · exact idCon_base 2 (by norm_num) y0 z2 u2

-- bounded adjoints of `C03_admm_dual_residual_tendsto` on the instance: `C_iᵀ = I`, `B = 1`
example : ∀ c ∈ ([1, 2].map idCon : List (Con X X)), ∀ w, ‖c.Cadj w‖ ≤ 1 * ‖w‖ := by
  intro c hc w; simp at hc; rcases hc with rfl | rfl <;> simp [idCon]
-- an adaptive hook that doubles `L` (so `L ≥ L_f = 1` from `L_0 = 1` on) meets the hypothesis of `C03_pgm_monotone_anyhook`
example (y0 : X) (s : PGMState Unit ℝ X) (hs : 1 ≤ s.L) :
    let p : PGMParams Unit ℝ X := { exPGM y0 with pol := { kind := .bb, update := fun m L _ _ => (2 * L, m), getZ := fun _ => 0 } }
    (1 : ℝ) ≤ (p.pol.update s.mem s.L s.x s.x).1 := by
  intro p; show (1 : ℝ) ≤ 2 * s.L; linarith
example (y0 : X) : PDHGHyp (exPDHG y0) (halfSq y0) y0 0 ∧ PDHGRange (exPDHG y0) 1 (1 / 2) :=
  ⟨exPDHG_hyp y0, exPDHG_range y0⟩
example (y0 : X) : PADMMHyp (exPADMM y0) (halfSq y0) zeroFn y0 y0 0 := exPADMM_hyp y0
example (y0 : X) : LADMMHyp (exLADMM y0) (halfSq y0) zeroFn y0 0 := exLADMM_hyp y0
example (y0 : X) : FISTAHyp (exPGM y0) zeroFn 1 := exPGM_fista y0
-- `PDHGHypA` (any alpha) on the α = 1 instance as well
example (y0 : X) : PDHGHypA (exPDHG y0) (halfSq y0) y0 0 :=
  ⟨(exPDHG_hyp y0).lin, (exPDHG_hyp y0).tau, (exPDHG_hyp y0).sigma, (exPDHG_hyp y0).add, fun _ _ => rfl,
   (exPDHG_hyp y0).adj, (exPDHG_hyp y0).proxf, (exPDHG_hyp y0).kktx, (exPDHG_hyp y0).dual⟩
-- the finite-dimensional convergence theorems on the instances (saddle point `(y0, 0)`, KKT point `(y0, y0, 0)`)
example [FiniteDimensional ℝ X] (y0 : X) :
    PDHGConvHyp (exPDHG y0) (halfSq y0) (Fn.indicator ({0} : Set X)) 1 (1 / 2) ∧
    IsSaddle (exPDHG y0) (halfSq y0) (Fn.indicator ({0} : Set X)) (y0, 0) := ⟨exPDHG_conv y0, exPDHG_saddle y0⟩
example [FiniteDimensional ℝ X] (y0 : X) :
    LADMMConvHyp (exLADMM y0) (halfSq y0) zeroFn 1 ∧ IsLKKT (exLADMM y0) (halfSq y0) zeroFn (y0, y0, 0) :=
  ⟨exLADMM_conv y0, exLADMM_kkt y0⟩
example [FiniteDimensional ℝ X] (y0 : X) :
    PADMMConvHyp (exPADMM2 y0) (halfSq y0) zeroFn 1 1 ∧ IsPKKT (exPADMM2 y0) (halfSq y0) zeroFn (y0, y0, y0, 0) :=
  ⟨exPADMM2_conv y0, exPADMM2_kkt y0⟩
example [FiniteDimensional ℝ X] (y0 x0 : X) :
    ADMMConvHyp [idCon 1, idCon 2] (3 / 2) (exSolveX y0 [idCon 1, idCon 2]) (halfSq y0) x0 1 2 ∧
    IsAKKT ([idCon 1, idCon 2] : List (Con X X)) (halfSq y0) y0 (fun _ => 0) := ⟨exADMM_conv y0 x0, exADMM_kkt y0⟩
-- strong convexity on the instances: `∂(½‖·−y0‖²)` is 1-strongly monotone; function form for FISTA
example (y0 : X) : StrongSub (halfSq y0) 1 := halfSq_strong y0
example (y0 : X) : GradStrongConvex (exPGM y0).f (exPGM y0).gradf 1 := by
  intro x y
  simp only [exPGM]
  have e : y - y0 = (x - y0) + (y - x) := by abel
  rw [e, norm_add_sq_real]
  linarith
-- so e.g. PDHG on the instance converges from every start
example (y0 : X) (s : PDHGState X X) :
    Filter.Tendsto (fun k => pdhgMinimizer (iter (pdhgSpecStep (exPDHG y0)) k s)) Filter.atTop (nhds y0) :=
  (C03_pdhg_padmm_ladmm_converge (U := X) (by norm_num : (0 : ℝ) < 1) (halfSq y0) (halfSq_strong y0)).1
    (exPDHG y0) y0 0 (exPDHG_hyp y0) 1 (1 / 2) (exPDHG_range y0) s
-- the FISTA bound on the instance: F(x_{k+1}) − F(y0) ≤ 2‖x_0 − y0‖²/(k+2)²
example (y0 x0 : X) (k : Nat) :
    1 / 2 * ‖(iter (apgmSpecStep (exPGM y0)) (k + 1) (apgmInit 1 0 x0 ())).x - y0‖ ^ 2
      ≤ 2 * 1 * ‖x0 - y0‖ ^ 2 / ((k : ℝ) + 2) ^ 2 := by
  have := C03_fista_rate (exPGM y0) (exPGM_fista y0) y0 trivial (apgmInit 1 0 x0 ()) rfl rfl rfl k
  simpa [exPGM, zeroFn, Fn.ofReal, apgmInit] using this

-- the hypotheses of the merely-convex FISTA statements on the instance (minimiser y0, unique, closed sub-level sets), and
-- their conclusion there
example (y0 : X) : IsMinOn (exPGM y0).f (zeroFn : Fn X) y0 ∧ (∀ y, IsMinOn (exPGM y0).f (zeroFn : Fn X) y → y = y0) ∧
    ClosedSublevels (exPGM y0).f (zeroFn : Fn X) := ⟨exPGM_isMin y0, exPGM_unique y0, exPGM_closed y0⟩
example [FiniteDimensional ℝ X] (y0 x0 : X) :
    Filter.Tendsto (fun k => apgmMinimizer (iter (apgmSpecStep (exPGM y0)) k (apgmInit 1 0 x0 ()))) Filter.atTop (nhds y0) :=
  C03_fista_merely_convex_converges (exPGM y0) (exPGM_fista y0) (exPGM_isMin y0) (exPGM_unique y0) (exPGM_closed y0)
    (apgmInit 1 0 x0 ()) rfl rfl rfl

-- Arrow–Hurwicz (`alpha = 0`) and every other `alpha ∈ [0,1]` on the strongly convex instance: hypotheses hold, iterates converge
example (y0 : X) (alpha : ℝ) (h0 : 0 ≤ alpha) (h1 : alpha ≤ 1) :
    PDHGHypA (exPDHGA y0 alpha) (halfSq y0) y0 0 ∧ PDHGRangeA (exPDHGA y0 alpha) 1 1 (3 / 2) :=
  ⟨exPDHGA_hyp y0 alpha, exPDHGA_range y0 h0 h1⟩
example (y0 : X) (s : PDHGState X X) :
    Filter.Tendsto (fun k => pdhgMinimizer (iter (pdhgSpecStep (exPDHGA y0 0)) k s)) Filter.atTop (nhds y0) :=
  (C03_pdhg_alpha_strong (exPDHGA y0 0) (halfSq y0) y0 0 (exPDHGA_hyp y0 0) (exPDHGA_range y0 le_rfl zero_le_one)
    (halfSq_strong y0)).2.2 (by norm_num) s

-- the linear-system x-update on an instance (one identity constraint, `ρ = 1`, `f = ½‖· − y0‖²`): normal equation solved exactly,
-- contract met, so e.g. the fixed-point theorem applies to it
example (y0 : X) : QuadLoss (halfSq y0) (fun x => x - y0) ∧ XSolver (halfSq y0) [idCon 1] (exLinSolve y0) :=
  ⟨halfSq_quadLoss y0, exLinSolve_XSolver y0⟩

end Scico.Props.C03
