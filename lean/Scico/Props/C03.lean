/-
  Property C03 — optimisers keep an optimal point fixed; monotone quantities; convergence of PGM.
  ONLY property theorems (+ non-vacuity examples) here; proofs in `Proofs/Steps{Convex,Fixed,PGM,Lyap}.lean`.

  Setting: variables live in arbitrary real inner-product spaces (ℝⁿ, ℂⁿ with `Re⟨·,·⟩`, block arrays =
  products); functionals are `Fn` (domain + finite values); KKT conditions in sub-gradient form;
  proximal maps satisfy the certificate contract `IsProx` (≡ argmin definition for convex functionals,
  `C03_prox_contract_iff_argmin`); `…SpecStep` is the documented iteration, equal to `step()` by C11.

  NOT proved here (exercised numerically by the check only): convergence of the ADMM family and of PDHG
  to the minimiser from arbitrary starts; Lyapunov descent under relaxation `alpha ≠ 1` (Boyd's §3.3
  argument, which is what is formalised, is for `alpha = 1`).
-/
import Scico.Proofs.StepsFixed
import Scico.Proofs.StepsPGM
import Scico.Proofs.StepsLyap
import Scico.Proofs.StepsLyapN

set_option linter.unusedSectionVars false

namespace Scico.Props.C03
open Scico Scico.Steps

variable {X Z U : Type} [NormedAddCommGroup X] [InnerProductSpace ℝ X]
  [NormedAddCommGroup Z] [InnerProductSpace ℝ Z] [NormedAddCommGroup U] [InnerProductSpace ℝ U]

/-- the proximal-map contract used below is the argmin definition (convex functionals) -/
theorem C03_prox_contract_iff_argmin {F : Fn X} (hc : F.IsConvex) (prox : ℝ → X → X) :
    IsProx F prox ↔ IsProxArgmin F prox := isProx_iff_argmin hc prox

/-- a point satisfying the KKT conditions minimises the documented objective `f(x) + g(Cx)` -/
theorem C03_kkt_minimiser (F : Fn X) (G : Fn Z) (C : X → Z) (Cadj : Z → X)
    (hC : ∀ x y, C (x - y) = C x - C y) (hadj : ∀ w x, inner ℝ (Cadj w) x = inner ℝ w (C x))
    (xs : X) (y : Z) (h1 : F.Subgrad xs (-(Cadj y))) (h2 : G.Subgrad (C xs) y) :
    ∀ x ∈ F.dom, C x ∈ G.dom → F.val xs + G.val (C xs) ≤ F.val x + G.val (C x) :=
  kkt_isMin F G C Cadj hC hadj xs y h1 h2

/-- ADMM, `N` constraints, any relaxation `alpha`: KKT point (`z_i* = C_i x*`, `ρ_i u_i* ∈ ∂g_i(z_i*)`,
    `x*` stationary for the strictly convex x-sub-problem) is a fixed point -/
theorem C03_admm_fixed (f : Option (X → ℝ)) (alpha : ℝ) (solveX : List Z → List Z → X → X)
    (cons : List (Con X Z)) (F : Fn X) (hsolve : XSolver F cons solveX) (xs : X) (us : List Z)
    (hkkt : List.Forall₂ (fun (c : Con X Z) u => 0 < c.rho ∧ IsProx c.G c.prox ∧ c.G.Subgrad (c.C xs) (c.rho • u)) cons us)
    (hx : F.Subgrad xs (xGrad cons (cons.map (fun c => c.C xs)) us xs)) (zOld : List Z) :
    admmSpecStep (admmOfCons f alpha solveX cons)
        { x := xs, z := cons.map (fun c => c.C xs), zOld := zOld, u := us }
      = { x := xs, z := cons.map (fun c => c.C xs), zOld := cons.map (fun c => c.C xs), u := us } :=
  admm_fixed f alpha solveX cons F hsolve xs us hkkt hx zOld

/-- linearized ADMM: `−(1/ν)Cᵀu* ∈ ∂f(x*)`, `(1/ν)u* ∈ ∂g(Cx*)` -/
theorem C03_ladmm_fixed (p : LADMMParams ℝ X Z) (F : Fn X) (G : Fn Z)
    (hf : IsProx F p.proxf) (hg : IsProx G p.proxg) (hmu : 0 < p.mu) (hnu : 0 < p.nu) (xs : X) (us : Z)
    (h1 : F.Subgrad xs (-((1 / p.nu) • p.Cadj us))) (h2 : G.Subgrad (p.C xs) ((1 / p.nu) • us)) :
    ladmmSpecStep p { x := xs, z := p.C xs, zOld := p.C xs, u := us }
      = { x := xs, z := p.C xs, zOld := p.C xs, u := us } :=
  ladmm_fixed p F G hf hg hmu hnu xs us h1 h2

/-- proximal ADMM with general `B`, `c`: `Ax* + Bz* = c`, `−ρAᵀu* ∈ ∂f(x*)`, `−ρBᵀu* ∈ ∂g(z*)` -/
theorem C03_padmm_fixed (p : PADMMParams ℝ X Z U) (F : Fn X) (G : Fn Z)
    (hf : IsProx F p.proxf) (hg : IsProx G p.proxg) (hrho : 0 < p.rho) (hmu : 0 < p.mu) (hnu : 0 < p.nu)
    (xs : X) (zs : Z) (us : U) (hfeas : p.A xs + p.B zs = p.c)
    (h1 : F.Subgrad xs (-(p.rho • p.AH us))) (h2 : G.Subgrad zs (-(p.rho • p.BH us))) :
    padmmSpecStep p { x := xs, z := zs, zOld := zs, u := us, uOld := us }
      = { x := xs, z := zs, zOld := zs, u := us, uOld := us } :=
  padmm_fixed p F G hf hg hrho hmu hnu xs zs us hfeas h1 h2

/-- proximal ADMM with the constructor defaults `B = −I`, `c = 0` -/
theorem C03_padmm_default_fixed (p : PADMMParams ℝ X U U) (F : Fn X) (G : Fn U)
    (hf : IsProx F p.proxf) (hg : IsProx G p.proxg) (hrho : 0 < p.rho) (hmu : 0 < p.mu) (hnu : 0 < p.nu)
    (hB : p.B = padmmDefaultB.1) (hBH : p.BH = padmmDefaultB.2) (hc : p.c = padmmC none) (xs : X) (us : U)
    (h1 : F.Subgrad xs (-(p.rho • p.AH us))) (h2 : G.Subgrad (p.A xs) (p.rho • us)) :
    padmmSpecStep p { x := xs, z := p.A xs, zOld := p.A xs, u := us, uOld := us }
      = { x := xs, z := p.A xs, zOld := p.A xs, u := us, uOld := us } :=
  padmm_fixed_default p F G hf hg hrho hmu hnu hB hBH hc xs us h1 h2

/-- non-linear proximal ADMM: `H(x*,z*) = 0`, stationarity through the Jacobians at the point -/
theorem C03_nlpadmm_fixed (p : NLPADMMParams ℝ X Z U) (F : Fn X) (G : Fn Z)
    (hf : IsProx F p.proxf) (hg : IsProx G p.proxg) (hrho : 0 < p.rho) (hmu : 0 < p.mu) (hnu : 0 < p.nu)
    (xs : X) (zs : Z) (us : U) (hfeas : p.H xs zs = 0)
    (h1 : F.Subgrad xs (-(p.rho • p.JxH xs zs us))) (h2 : G.Subgrad zs (-(p.rho • p.JzH xs zs us))) :
    nlpadmmSpecStep p { x := xs, z := zs, zOld := zs, u := us, uOld := us }
      = { x := xs, z := zs, zOld := zs, u := us, uOld := us } :=
  nlpadmm_fixed p F G hf hg hrho hmu hnu xs zs us hfeas h1 h2

/-- PDHG, linear and non-linear `C`, any `alpha`: saddle point `−Cᵀz* ∈ ∂f(x*)` (resp. `−[JC(x*)]ᵀz*`),
    `z* ∈ ∂g(Cx*)`, with `conj_prox` computed through `g.prox` as the code does -/
theorem C03_pdhg_fixed (p : PDHGParams ℝ X Z) (F : Fn X) (G : Fn Z) (proxg : ℝ → Z → Z)
    (hf : IsProx F p.proxf) (hg : IsProx G proxg)
    (hconj : ∀ lam v, p.proxgConj lam v = v - lam • proxg (1 / lam) ((1 / lam) • v))
    (htau : 0 < p.tau) (hsig : 0 < p.sigma) (xs : X) (zs : Z)
    (h1 : F.Subgrad xs (-(match p.linear with
      | true => p.Cadj zs
      | false => p.JCadj xs zs)))
    (h2 : G.Subgrad (p.C xs) zs) :
    pdhgSpecStep p { x := xs, xOld := xs, z := zs, zOld := zs }
      = { x := xs, xOld := xs, z := zs, zOld := zs } :=
  pdhg_fixed_moreau p F G proxg hf hg hconj htau hsig xs zs h1 h2

/-- the same with the contract stated on the conjugate: `Cx* ∈ ∂g*(z*)` -/
theorem C03_pdhg_fixed_conj (p : PDHGParams ℝ X Z) (F : Fn X) (Gc : Fn Z)
    (hf : IsProx F p.proxf) (hg : IsProx Gc p.proxgConj) (htau : 0 < p.tau) (hsig : 0 < p.sigma)
    (xs : X) (zs : Z)
    (h1 : F.Subgrad xs (-(match p.linear with
      | true => p.Cadj zs
      | false => p.JCadj xs zs)))
    (h2 : Gc.Subgrad zs (p.C xs)) :
    pdhgSpecStep p { x := xs, xOld := xs, z := zs, zOld := zs }
      = { x := xs, xOld := xs, z := zs, zOld := zs } :=
  pdhg_fixed p F Gc hf hg htau hsig xs zs h1 h2

/-- PGM with any step-size hook returning a positive `L`: `−∇f(x*) ∈ ∂g(x*)` ⇒ `x` unchanged, residual 0 -/
theorem C03_pgm_fixed {σ : Type} (p : PGMParams σ ℝ X) (G : Fn X) (hg : IsProx G p.proxg)
    (hnorm : p.normX = fun v => ‖v‖) (s : PGMState σ ℝ X)
    (hL : 0 < (p.pol.update s.mem s.L s.x s.x).1) (h : G.Subgrad s.x (-(p.gradf s.x))) :
    (pgmSpecStep p s).x = s.x ∧ (pgmSpecStep p s).fpr = 0 :=
  pgm_fixed p G hg hnorm s hL h

attribute [local instance] realHasSqrt

/-- accelerated PGM started at `x = v = x*` keeps `x` and `v` (the momentum counter advances) -/
theorem C03_apgm_fixed {σ : Type} (p : PGMParams σ ℝ X) (G : Fn X) (hg : IsProx G p.proxg)
    (hnorm : p.normX = fun v => ‖v‖) (s : APGMState σ ℝ X) (hv : s.v = s.x) (hk : p.pol.kind ≠ .robust)
    (hL : ∀ a, 0 < (p.pol.update s.mem s.L s.x a).1) (h : G.Subgrad s.x (-(p.gradf s.x))) :
    (apgmSpecStep p s).x = s.x ∧ (apgmSpecStep p s).v = s.x ∧ (apgmSpecStep p s).fpr = 0 :=
  apgm_fixed p G hg hnorm s hv hk hL h

/-- PGM, `L ≥` Lipschitz constant (co-coercive gradient, descent lemma): one step does not increase the
    distance to any minimiser and decreases the objective by at least `(L/2)‖x⁺ − x‖²` -/
theorem C03_pgm_monotone {f : X → ℝ} {grad : X → X} {prox : ℝ → X → X} {G : Fn X} (hp : IsProx G prox)
    {L : ℝ} (hL : 0 < L) (hco : CoCoercive grad L) (hd : DescentLemma f grad L) {xs : X}
    (hk : G.Subgrad xs (-(grad xs))) (x : X) (hx : x ∈ G.dom) :
    ‖pgStep grad prox L x - xs‖ ≤ ‖x - xs‖ ∧
    f (pgStep grad prox L x) + G.val (pgStep grad prox L x) ≤ f x + G.val x - L / 2 * ‖pgStep grad prox L x - x‖ ^ 2 :=
  ⟨pgStep_dist hp hL hco hk x, pgStep_objective hp hL hd hx⟩

/-- … along the whole trajectory of the documented iteration (base step-size object) -/
theorem C03_pgm_monotone_traj (p : PGMParams Unit ℝ X) {G : Fn X} {L : ℝ} (h : PGMHyp p G L) {xs : X}
    (hk : G.Subgrad xs (-(p.gradf xs))) (s : PGMState Unit ℝ X) (hsL : s.L = L) (k : Nat) :
    ‖(iter (pgmSpecStep p) (k + 1) s).x - xs‖ ≤ ‖(iter (pgmSpecStep p) k s).x - xs‖ :=
  pgm_traj_dist p h hk s hsL k

/-- linear rate for strongly convex `f` (every `k`, every start) -/
theorem C03_pgm_contract (p : PGMParams Unit ℝ X) {G : Fn X} {L m : ℝ} (h : PGMHyp p G L)
    (hm : StronglyMonotone p.gradf m) (hmL : m ≤ L) {xs : X} (hk : G.Subgrad xs (-(p.gradf xs)))
    (s : PGMState Unit ℝ X) (hsL : s.L = L) (k : Nat) :
    ‖(iter (pgmSpecStep p) k s).x - xs‖ ^ 2 ≤ (1 - m / L) ^ k * ‖s.x - xs‖ ^ 2 :=
  pgm_linear_rate p h hm hmL hk s hsL k

/-- hence `minimizer()` of the iterates converges to the (unique) minimiser from every start -/
theorem C03_pgm_converges (p : PGMParams Unit ℝ X) {G : Fn X} {L m : ℝ} (h : PGMHyp p G L)
    (hm : StronglyMonotone p.gradf m) (hm0 : 0 < m) (hmL : m ≤ L) {xs : X}
    (hk : G.Subgrad xs (-(p.gradf xs))) (s : PGMState Unit ℝ X) (hsL : s.L = L) :
    Filter.Tendsto (fun k => pgmMinimizer (iter (pgmSpecStep p) k s)) Filter.atTop (nhds xs) ∧
    (∀ ys, G.Subgrad ys (-(p.gradf ys)) → ys = xs) :=
  ⟨pgm_converges p h hm hm0 hmL hk s hsL,
   fun _ hy => pgm_kkt_unique h.prox h.Lpos h.coco hm hm0 hy hk⟩

/-- the hypotheses hold for quadratics `f x = ½⟪Hx,x⟫ − ⟪b,x⟫`, `H` symmetric, `m ≤ H ≤ L`
    (weighted squared-ℓ2 loss: `H = 2α AᴴWA`, `b = 2α AᴴWy`) -/
theorem C03_quadratic_hyp (H : X → X) (b : X) (hadd : ∀ x y, H (x + y) = H x + H y)
    (hsmul : ∀ (c : ℝ) x, H (c • x) = c • H x) (hsym : ∀ x y, inner ℝ (H x) y = inner ℝ x (H y))
    {L m : ℝ} (hL : 0 < L) (hm : 0 ≤ m) (hlb : ∀ x, m * ‖x‖ ^ 2 ≤ inner ℝ (H x) x)
    (hub : ∀ x, inner ℝ (H x) x ≤ L * ‖x‖ ^ 2) :
    CoCoercive (fun x => H x - b) L ∧
    DescentLemma (fun x => 1 / 2 * inner ℝ (H x) x - inner ℝ b x) (fun x => H x - b) L ∧
    StronglyMonotone (fun x => H x - b) m := by
  have hpsd : ∀ x, 0 ≤ inner ℝ (H x) x := fun x => le_trans (by positivity) (hlb x)
  exact ⟨quad_coco H b hadd hsmul hsym hpsd hL hub, quad_descent H b hadd hsym hub, quad_strong H b hadd hlb⟩

/-- FISTA momentum: `t₊² − t₊ = t²`, and `t_k ≥ t_0 + k/2` along the accelerated iteration
    (from `t_0 = 1`: `t_k ≥ (k+2)/2`) -/
theorem C03_fista_t {σ : Type} (p : PGMParams σ ℝ X) (hk : p.pol.kind ≠ .robust) (k : Nat)
    (s : APGMState σ ℝ X) (hs : 0 ≤ s.t) :
    s.t + k / 2 ≤ (iter (apgmSpecStep p) k s).t ∧ fistaTImpl s.t ^ 2 - fistaTImpl s.t = s.t ^ 2 ∧
    (apgmSpecStep p s).t = fistaTImpl s.t :=
  ⟨apgm_t_lower p hk k s hs, fistaT_identity s.t, apgm_t_step p s hk⟩

/-- ADMM Lyapunov descent (Boyd et al. §3.3), `N` constraints, `alpha = 1`.  The constraints and the
    per-constraint parts of the state / KKT point are bundled in rows `(c, z, u, u*)`.  From a
    dual-feasible state (`ρ_i u_i ∈ ∂g_i(z_i)`, true after every step) one documented iteration gives
    `V⁺ + Σ ρ_i(‖C_i x⁺ − z_i⁺‖² + ‖z_i⁺ − z_i‖²) ≤ V` for `V = Σ ρ_i(‖u_i − u_i*‖² + ‖z_i − C_i x*‖²)`,
    and the new state is dual feasible again. -/
theorem C03_admm_lyapunov (rows : List (Row X Z)) (f : Option (X → ℝ)) (solveX : List Z → List Z → X → X)
    (F : Fn X)
    (hsolve : ∀ z u x0, F.Subgrad (solveX z u x0) (xGrad (rows.map (·.c)) z u (solveX z u x0)))
    (xs : X) (hok : ∀ r ∈ rows, RowOK xs r)
    (hkx : F.Subgrad xs (xGrad (rows.map (·.c)) (rows.map (fun r => r.c.C xs)) (rows.map (·.us)) xs))
    (x : X) (zOld : List Z) :
    let xn := solveX (rows.map (·.z)) (rows.map (·.u)) x
    admmSpecStep (admmOfCons f 1 solveX (rows.map (·.c)))
        { x := x, z := rows.map (·.z), zOld := zOld, u := rows.map (·.u) }
      = { x := xn, z := rows.map (fun r => r.zn xn), zOld := rows.map (·.z), u := rows.map (fun r => r.un xn) } ∧
    (∀ r ∈ rows, r.c.G.Subgrad (r.zn xn) (r.c.rho • r.un xn)) ∧
    rowsV xs rows (fun r => r.zn xn) (fun r => r.un xn)
        + (rows.map (fun r => r.c.rho * (‖r.c.C xn - r.zn xn‖ ^ 2 + ‖r.zn xn - r.z‖ ^ 2))).sum
      ≤ rowsV xs rows (·.z) (·.u) :=
  admm_lyapunov_rows rows f solveX F hsolve xs hok hkx x zOld

/-- … hence `V_k ≤ V_0` for every `k` along the trajectory of the documented iteration -/
theorem C03_admm_lyapunov_traj (cons : List (Con X Z)) (uss : List Z) (f : Option (X → ℝ))
    (solveX : List Z → List Z → X → X) (F : Fn X)
    (hsolve : ∀ z u x0, F.Subgrad (solveX z u x0) (xGrad cons z u (solveX z u x0)))
    (xs : X) (hkx : F.Subgrad xs (xGrad cons (cons.map (fun c => c.C xs)) uss xs)) (k : Nat)
    (rows : List (Row X Z)) (x : X) (zOld : List Z)
    (hc : rows.map (·.c) = cons) (hu : rows.map (·.us) = uss) (hok : ∀ r ∈ rows, RowOK xs r) :
    ∃ (rows' : List (Row X Z)) (x' : X) (zOld' : List Z),
      iter (admmSpecStep (admmOfCons f 1 solveX cons)) k
          { x := x, z := rows.map (·.z), zOld := zOld, u := rows.map (·.u) }
        = { x := x', z := rows'.map (·.z), zOld := zOld', u := rows'.map (·.u) } ∧
      rows'.map (·.c) = cons ∧ rows'.map (·.us) = uss ∧ (∀ r ∈ rows', RowOK xs r) ∧
      rowsV xs rows' (·.z) (·.u) ≤ rowsV xs rows (·.z) (·.u) :=
  admm_lyapunov_rows_traj cons uss f solveX F hsolve xs hkx k rows x zOld hc hu hok

/-- the single-constraint form with explicit vectors -/
theorem C03_admm_lyapunov_single (c : Con X Z) (f : Option (X → ℝ)) (solveX : List Z → List Z → X → X)
    (F : Fn X) (hsolve : ∀ z u x0, F.Subgrad (solveX z u x0) (xGrad [c] z u (solveX z u x0)))
    (hC : ∀ x y, c.C (x - y) = c.C x - c.C y) (hadj : ∀ w x, inner ℝ (c.Cadj w) x = inner ℝ w (c.C x))
    (hrho : 0 < c.rho) (hprox : IsProx c.G c.prox)
    (xs : X) (us : Z) (hkx : F.Subgrad xs (xGrad [c] [c.C xs] [us] xs)) (hkz : c.G.Subgrad (c.C xs) (c.rho • us))
    (x : X) (z zOld u : Z) (hpre : c.G.Subgrad z (c.rho • u)) :
    ∃ xn zn un,
      admmSpecStep (admmOfCons f 1 solveX [c]) { x := x, z := [z], zOld := [zOld], u := [u] }
        = { x := xn, z := [zn], zOld := [z], u := [un] } ∧
      c.G.Subgrad zn (c.rho • un) ∧
      c.rho * (‖un - us‖ ^ 2 + ‖zn - c.C xs‖ ^ 2) + c.rho * (‖c.C xn - zn‖ ^ 2 + ‖zn - z‖ ^ 2)
        ≤ c.rho * (‖u - us‖ ^ 2 + ‖z - c.C xs‖ ^ 2) :=
  admm_lyapunov_single c f solveX F hsolve hC hadj hrho hprox xs us hkx hkz x z zOld u hpre

/-! ### non-vacuity: the hypotheses are satisfiable on non-trivial instances -/

-- proximal maps meeting the contract, in every inner-product space
example : IsProx (Fn.ofReal (fun _ : X => (0 : ℝ))) (fun _ v => v) := isProx_zero
example (y0 : X) : IsProx (Fn.ofReal (fun x : X => 1 / 2 * ‖x - y0‖ ^ 2)) (fun lam v => (1 / (1 + lam)) • (v + lam • y0)) :=
  isProx_halfsq y0

/-- linearized ADMM for `min ½‖x − y0‖² + 0`, `C = id`: the KKT point is `(y0, y0, 0)` and
    `C03_ladmm_fixed` applies (the step really is the identity there, while it moves other points) -/
example (y0 : X) :
    let p : LADMMParams ℝ X X :=
      { f := fun x => 1 / 2 * ‖x - y0‖ ^ 2, g := fun _ => 0,
        proxf := fun lam v => (1 / (1 + lam)) • (v + lam • y0), proxg := fun _ v => v,
        C := id, Cadj := id, mu := 1 / 2, nu := 1, normX := fun v => ‖v‖, normZ := fun v => ‖v‖ }
    ladmmSpecStep p { x := y0, z := y0, zOld := y0, u := 0 } = { x := y0, z := y0, zOld := y0, u := 0 } := by
  intro p
  have := C03_ladmm_fixed p (Fn.ofReal (fun x : X => 1 / 2 * ‖x - y0‖ ^ 2)) (Fn.ofReal (fun _ => 0))
    (isProx_halfsq y0) isProx_zero (by norm_num [p]) (by norm_num [p]) y0 0
    (by
      refine ⟨trivial, fun y _ => ?_⟩
      simp [p, Fn.ofReal])
    (by
      refine ⟨trivial, fun y _ => ?_⟩
      simp [p, Fn.ofReal])
  simpa [p] using this

-- the PGM hypotheses hold for `H = h·id`, `0 < h`, with `m = L = h`
example (h : ℝ) (hh : 0 < h) (b : X) :
    CoCoercive (fun x : X => h • x - b) h ∧ StronglyMonotone (fun x : X => h • x - b) h := by
  have := C03_quadratic_hyp (fun x : X => h • x) b (fun x y => smul_add h x y)
    (fun c x => by simp only [smul_smul, mul_comm]) (fun x y => by rw [inner_smul_left, inner_smul_right]; simp)
    hh hh.le (fun x => by rw [inner_smul_left, real_inner_self_eq_norm_sq]; simp)
    (fun x => by rw [inner_smul_left, real_inner_self_eq_norm_sq]; simp)
  exact ⟨this.1, this.2.2⟩

/-- the hypotheses of `C03_admm_lyapunov` are satisfiable: two rows with `C = id`, `g_i = 0`,
    `f = ½‖· − y0‖²`, exact x-update `x = (y0 + Σρ_i(z_i − u_i))/(1 + Σρ_i)`, KKT point `(y0, u* = 0)` -/
example (y0 z1 z2 : X) :
    let c1 : Con X X := { rho := 1, C := id, Cadj := id, G := Fn.ofReal (fun _ => 0), g := fun _ => 0, prox := fun _ v => v }
    let c2 : Con X X := { rho := 2, C := id, Cadj := id, G := Fn.ofReal (fun _ => 0), g := fun _ => 0, prox := fun _ v => v }
    let rows : List (Row X X) := [{ c := c1, z := z1, u := 0, us := 0 }, { c := c2, z := z2, u := 0, us := 0 }]
    ∀ r ∈ rows, RowOK y0 r := by
  intro c1 c2 rows r hr
  have hz : ∀ v : X, (Fn.ofReal (fun _ : X => (0 : ℝ))).Subgrad v 0 := fun v => ⟨trivial, fun y _ => by simp [Fn.ofReal]⟩
  simp only [rows, List.mem_cons, List.not_mem_nil, or_false] at hr
  rcases hr with rfl | rfl
  · exact ⟨fun _ _ => rfl, fun _ _ => rfl, by norm_num [c1], isProx_zero, by simpa [c1] using hz _, by simpa [c1] using hz _⟩
  · exact ⟨fun _ _ => rfl, fun _ _ => rfl, by norm_num [c2], isProx_zero, by simpa [c2] using hz _, by simpa [c2] using hz _⟩

-- FISTA from t₀ = 1: t₁ = (1+√5)/2 ≥ 3/2
example : (3 : ℝ) / 2 ≤ fistaTImpl 1 := by
  have := fistaT_ge 1 (by norm_num)
  linarith

end Scico.Props.C03
