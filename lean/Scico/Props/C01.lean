/-
  Property C01 — adjoint identity ⟪A x, y⟫ = ⟪x, Aᴴ y⟫ for every linear operator.   ONLY property theorems here.

  Model: Scico/Model/Adjoint.lean (how scico BUILDS adjoint closures).  Scalars: any field with an involution
  (`ℝ`, `ℂ`).  `ip n u w = Σ_{i<n} u i * conj (w i)` is what `valid_adjoint` computes.
  Quantifiers: all sizes, all vectors, all filters / index arrays / matrices, derivation trees of any depth.
-/
import Scico.Proofs.AdjointComplex
import Scico.Proofs.AdjointTotal
import Scico.Proofs.AdjointSlab
import Scico.Proofs.AdjointSpectral
import Scico.Proofs.AdjointLink
import Scico.Proofs.AdjointClosed

namespace Scico.Props.C01
open Scico.Adjoint Finset

variable {K : Type} [Field K] [StarRing K]

/-- Every operator derived from leaves by `+`, `-`, unary `-`, scalar `*` and `/`, composition, `.T`, `.H`,
    `.conj()`, `.gram_op`, vertical / diagonal stacks and replication along arbitrary axes satisfies the adjoint
    identity if the leaves do — for trees of any depth that pass scico's own shape checks. -/
theorem C01_derived (env : Nat → Op K) (henv : ∀ i, IsAdj (env i)) (e : Expr K)
    (hwf : wf env e = true) (hdiv : divOK e) : IsAdj (run env e) :=
  (isAdj_iff _).mpr (derived_isAdjW test_id env (fun i => (isAdj_iff _).mp (henv i)) e hwf hdiv)

/-- The same in the real inner product `Re⟪·,·⟫` (operators from a real into a complex space), for ALL scalar factors,
    real or not: the code applies `conj c` before the operand's adjoint (`self.adj(conj(c)*y)`, repo 9a89e4c), so a
    complex multiple of a real→complex operator is again an adjoint pair in `Re⟪·,·⟫`.  (With the closure of the pinned
    tree, `conj(c)*self.adj(y)`, this needed real scalars.) -/
theorem C01_derived_re (env : Nat → Op K) (henv : ∀ i, IsAdjRe (env i)) (e : Expr K)
    (hwf : wf env e = true) (hdiv : divOK e) : IsAdjRe (run env e) :=
  derived_isAdjW test_re env henv e hwf hdiv

/-- `.H` applies the conjugate transpose of the operator's matrix (it *is* the adjoint) -/
theorem C01_H_eq_adj {A : Op K} {M : Nat → Nat → K} (hA : IsAdj A) (hM : IsMat A M) :
    ∀ y, ∀ j < A.nin, (Op.herm A).eval y j = ∑ i ∈ range A.nout, star (M i j) * y i :=
  herm_matrix hA hM

/-- `.T` of a complex operator applies the plain transpose: no conjugation -/
theorem C01_T_unconj {A : Op K} {M : Nat → Nat → K} (hA : IsAdj A) (hM : IsMat A M) :
    ∀ y, ∀ j < A.nin, (Op.tr true A).eval y j = ∑ i ∈ range A.nout, M i j * y i :=
  tr_matrix hA hM

/-- `.conj()` applies the entrywise conjugate matrix -/
theorem C01_conj_entrywise {A : Op K} {M : Nat → Nat → K} (hM : IsMat A M) :
    ∀ x, ∀ i < A.nout, (Op.cj A).eval x i = ∑ j ∈ range A.nin, star (M i j) * x j :=
  cj_matrix hM

/-- for an operator with a real matrix, `.T` (either dtype branch) and `.H` coincide -/
theorem C01_real_T_eq_H {A : Op K} {M : Nat → Nat → K} (hA : IsAdj A) (hM : IsMat A M)
    (hreal : ∀ i j, star (M i j) = M i j) (c : Bool) :
    ∀ y, ∀ j < A.nin, (Op.tr c A).eval y j = (Op.herm A).eval y j :=
  real_tr_eq_herm hA hM hreal c

/-- the views are themselves adjoint pairs (`(A.T).adj`, `(A.H).adj`, `(A.conj()).adj`, `G.adj`) -/
theorem C01_views_adjoint {A : Op K} (hA : IsAdj A) (c : Bool) :
    IsAdj (Op.tr c A) ∧ IsAdj (Op.herm A) ∧ IsAdj (Op.cj A) ∧ IsAdj (Op.gram A) :=
  ⟨tr_isAdjW test_id hA c, herm_isAdjW test_id hA, cj_isAdjW test_id hA, gram_isAdjW test_id hA⟩

/-- `MatrixOperator`: `A.conj().T @ y` is the adjoint of `A @ x` -/
theorem C01_mat_adj (m n : Nat) (M : Nat → Nat → K) : IsAdj (Op.mat m n M) := mat_isAdj m n M

/-- `CircularConvolve`: correlation with the conjugated filter is the adjoint of circular convolution -/
theorem C01_circ_adj (n : Nat) (h : V K) : IsAdj (Op.circ n h) := circ_isAdj n h

/-- … including the sum over a broadcast batch axis (`k` filters, one signal) -/
theorem C01_circ_batch_adj (k n : Nat) (hk : 0 < k) (hn : 0 < n) (h : V K) : IsAdj (Op.circBatch k n h) :=
  circBatch_isAdj k n hk hn h

/-- X-ray projectors: gather-with-zero-fill is the adjoint of scatter-add-with-drop for ALL index arrays -/
theorem C01_scatter_gather (np ny : Nat) (I : Nat → Nat) (w : V K) (hw : ∀ p, star (w p) = w p) :
    ∀ x y, ip ny (scatterAddDrop np ny I w x) y = ip np x (gatherFill0 ny I w y) :=
  scatFill_isAdj np ny I w hw

/-- FULL STATEMENT (the code since e359064: `.at[idx].add` drops, `.at[idx].get(mode="fill", fill_value=0)` fills, negative
    indices redirected per bin on both sides): one projector term with its back-projector AS CODED is an adjoint pair for
    EVERY index array — every geometry, detector size and offset, 1-D detector (2-D transform) and flattened 2-D detector
    (3-D transform, `flat2`) — and all real weights -/
theorem C01_xray_backproject (np ny : Nat) (I : Nat → Nat) (w : V K) (hw : ∀ p, star (w p) = w p) :
    IsAdj (Op.scatFill np ny I w) :=
  scatFill_isAdj np ny I w hw

/-- the whole projector as the code assembles it — vertical stack over views of sums of scatter terms (2 per view in
    2-D, 4 per view in 3-D) — is an adjoint pair, for every geometry (instance of `C01_derived` on the coded leaves) -/
theorem C01_xray_projector (env : Nat → Op K)
    (hleaf : ∀ i, ∃ np ny I w, env i = Op.scatFill np ny I w ∧ ∀ p, star (w p) = w p)
    (e : Expr K) (hwf : wf env e = true) (hdiv : divOK e) : IsAdj (run env e) := by
  apply C01_derived env _ e hwf hdiv
  intro i
  obtain ⟨np, ny, I, w, he, hw⟩ := hleaf i
  rw [he]
  exact scatFill_isAdj np ny I w hw

/-! #### historical: the back-projectors of the pinned tree (clamped gather), findings `xray2d/3d-backproject-clamp`,
    fixed in /repo by e359064 -/

/-- the clamped gather of the pinned `back_project` equals the true adjoint iff every pixel of non-zero weight is on the detector -/
theorem C01_gatherClamp_eq_fill_iff (np ny : Nat) (hny : 0 < ny) (I : Nat → Nat) (w : V K) :
    (∀ y : V K, ∀ p < np, gatherClamp ny I w y p = gatherFill0 ny I w y p) ↔ ∀ p < np, w p = 0 ∨ I p < ny :=
  gatherClamp_eq_fill_iff np ny hny I w

/-- the same for the 2-D detector of the 3-D transform (per-axis clamping of `y[a,b]`) -/
theorem C01_gather2_eq_fill_iff (np d0 d1 : Nat) (h0 : 0 < d0) (h1 : 0 < d1) (a b : Nat → Nat) (w : V K) :
    (∀ y : V K, ∀ p < np,
        gatherAt (fun p => clamp2 d0 d1 (a p) (b p)) w y p
          = gatherFill0 (d0 * d1) (fun p => flat2 d0 d1 (a p) (b p)) w y p)
      ↔ ∀ p < np, w p = 0 ∨ (a p < d0 ∧ b p < d1) :=
  gather2_eq_fill_iff np d0 d1 h0 h1 a b w

/-- the statement for the PINNED back-projector (not claimed; false): the clamped term is an adjoint pair for every
    index array -/
def C01_xray_clamped_stmt : Prop :=
  ∀ (np ny : Nat) (I : Nat → Nat) (w : V K), (∀ p, star (w p) = w p) → IsAdj (Op.scatClamp np ny I w)

/-- pinned back-projector: adjoint pair when the detector covers the shadow -/
theorem C01_xray_clamped_partial (np ny : Nat) (hny : 0 < ny) (I : Nat → Nat) (w : V K)
    (hw : ∀ p, star (w p) = w p) (hcov : ∀ p < np, w p = 0 ∨ I p < ny) : IsAdj (Op.scatClamp np ny I w) :=
  scatClamp_isAdj_of_covered np ny hny I w hw hcov

/-- pinned back-projector: one pixel of non-zero weight off the detector breaks the identity -/
theorem C01_xray_clamped_fails (np ny : Nat) (hny : 0 < ny) (I : Nat → Nat) (w : V K)
    (p : Nat) (hp : p < np) (hwp : w p ≠ 0) (hoff : ny ≤ I p) : ¬ IsAdj (Op.scatClamp np ny I w) :=
  scatClamp_not_isAdj np ny hny I w p hp hwp hoff

theorem C01_xray_clamped_stmt_false : ¬ (C01_xray_clamped_stmt (K := K)) := by
  intro h
  exact scatClamp_not_isAdj 1 1 Nat.one_pos (fun _ => 1) (fun _ => 1) 0 Nat.one_pos one_ne_zero (Nat.le_refl 1)
    (h 1 1 (fun _ => 1) (fun _ => 1) (fun _ => star_one K))

/-- `scico.linear_adjoint`, complex primal: the derived adjoint is `y ↦ Mᴴ y`, given the `jax.linear_transpose` contract -/
theorem C01_linear_adjoint_complex {jt} (hjt : JaxTranspose (K := K) jt) (m n : Nat) (oc : Bool) (M : Nat → Nat → K) :
    IsAdj (autoOp jt m n true oc M) := autoOp_complex_isAdj hjt m n oc M

/-- `scico.linear_adjoint`, real primal and real output -/
theorem C01_linear_adjoint_real {jt} (hjt : JaxTranspose (K := K) jt) (m n : Nat) (M : Nat → Nat → K)
    (hM : ∀ i j, star (M i j) = M i j) : IsAdj (autoOp jt m n false false M) := autoOp_real_isAdj hjt m n M hM

/-- an operator from a REAL space into `ℂᵐ` (`eval x = M x`, `adj y = Re(Mᴴ y)`) satisfies the identity in `Re⟪·,·⟫` -/
theorem C01_real_to_complex (m n : Nat) (M : Nat → Nat → ℂ) : IsAdjRe (realToComplex m n M) :=
  realToComplex_isAdjRe m n M

/-- `scico.linear_adjoint`, real primal with complex output: the derived adjoint is `y ↦ Re(Mᴴ y)` -/
theorem C01_linear_adjoint_real_to_complex {jt} (hjt : JaxTransposeRC jt) (m n : Nat) (M : Nat → Nat → ℂ)
    (y : V ℂ) (j : Nat) (hj : j < n) :
    linearAdjoint jt m n false true (mulVec n M) y j = (realToComplex m n M).adj y j :=
  linearAdjoint_realToComplex hjt m n M y j hj

/-- over `ℂ`, `IsAdjRe` says exactly `Re⟪A x, y⟫ = Re⟪x, Aᴴ y⟫` -/
theorem C01_isAdjRe_iff (A : Op ℂ) :
    IsAdjRe A ↔ ∀ x y, (ip A.nout (A.eval x) y).re = (ip A.nin x (A.adj y)).re := isAdjRe_iff A

/-- for a complex-linear operator the identity of real parts gives the complex identity -/
theorem C01_re_to_complex {A : Op ℂ} (hre : IsAdjRe A) (hE : CommutesI A.eval) : IsAdj A :=
  re_to_complex hre hE

/-- lifting lemma: for linear `eval`, `adj` the identity on all pairs of basis vectors gives the identity for all vectors -/
theorem C01_basis {A : Op K} (hE : IsLinear A.nin A.eval) (hB : IsLinear A.nout A.adj)
    (hb : ∀ j < A.nin, ∀ i < A.nout,
      ip A.nout (A.eval (basis j)) (basis i) = ip A.nin (basis j) (A.adj (basis i))) : IsAdj A :=
  basis_lift hE hB hb

/-- the lifting lemma in `Re⟪·,·⟫` (operators between real and complex spaces, realified basis `{e_j, i·e_j}`): this is
    the form of the finite check the harness evaluates on the implementation -/
theorem C01_basis_re {A : Op ℂ} (hE : IsRLinear A.nin A.eval) (hB : IsRLinear A.nout A.adj)
    (h11 : ∀ j < A.nin, ∀ i < A.nout, (ip A.nout (A.eval (basis j)) (basis i)).re = (ip A.nin (basis j) (A.adj (basis i))).re)
    (h1i : ∀ j < A.nin, ∀ i < A.nout, (ip A.nout (A.eval (basis j)) (ibasis i)).re = (ip A.nin (basis j) (A.adj (ibasis i))).re)
    (hi1 : ∀ j < A.nin, ∀ i < A.nout, (ip A.nout (A.eval (ibasis j)) (basis i)).re = (ip A.nin (ibasis j) (A.adj (basis i))).re)
    (hii : ∀ j < A.nin, ∀ i < A.nout, (ip A.nout (A.eval (ibasis j)) (ibasis i)).re = (ip A.nin (ibasis j) (A.adj (ibasis i))).re) :
    IsAdjRe A :=
  basis_lift_re hE hB h11 h1i hi1 hii

/-- RECORDED (fixed in /repo by 17a96e9): `.T` of a complex operator with `adj_fn = self.__call__` -/
theorem C01_T_pinned_fails (c : K) (hc : star c ≠ c) : ¬ IsAdj (Op.trPinned (Op.mat 1 1 (fun _ _ => c))) :=
  trPinned_not_adjoint c hc

/-- RECORDED (fixed in /repo by 70afcf0): `DiagonalStack._adj` through `op.T` -/
theorem C01_dstack_pinned_fails (c : K) (hc : star c ≠ c) :
    ¬ IsAdj (Op.dconsPinned true (Op.mat 1 1 (fun _ _ => c)) Op.dnil) :=
  dconsPinned_not_adjoint c hc

/-- RECORDED (fixed in /repo by fa45c48): `DiagonalReplicated` adjoint mapped over the un-swapped axes -/
theorem C01_drep_pinned_fails :
    ¬ IsAdj (Op.drepPinned 2 2 1 (Op.mat 2 2 (fun i j => if i = 0 ∧ j = 1 then (1 : K) else 0))) :=
  drepPinned_not_adjoint


/-! ### "applying the adjoint never fails for a conforming input"  (dtype / shape layer, Model/AdjointTy.lean) -/

/-- For every derivation tree (any depth) over leaves that behave as they declare, that passes scico's construction
    tests and contains no `+`/`-` of operands on different dtypes: `D.adj(y)` passes the dtype and shape guard of
    `LinearOperator.adj` — and the guard of every nested `adj`/`__call__` inside the closures — for the `y` of the declared
    output dtype and shape, and returns an array of the declared input dtype and shape; `D(x)` returns the declared
    output type for the conforming `x`; hence also `D.adj(D(x))` never raises.
    `coded = true`: `.T` as the code has it (then additionally no `.T` of an operand with complex input dtype ≠ output
    dtype); `coded = false`: `.T` with the dtypes repaired (no condition on `.T`). -/
theorem C01_adj_total (coded : Bool) (env : Nat → TOp) (henv : ∀ i, Faithful (env i)) (t : TExpr)
    (hwf : wfT coded env t = true) (hh : homog coded env t = true) :
    (runT coded env t).adjC ⟨(runT coded env t).odt, (runT coded env t).osh⟩
        = .ok ⟨(runT coded env t).idt, (runT coded env t).ish⟩
      ∧ (runT coded env t).call ⟨(runT coded env t).idt, (runT coded env t).ish⟩
        = .ok ⟨(runT coded env t).odt, (runT coded env t).osh⟩
      ∧ andThen ((runT coded env t).call ⟨(runT coded env t).idt, (runT coded env t).ish⟩) (runT coded env t).adjC
        = .ok ⟨(runT coded env t).idt, (runT coded env t).ish⟩ := by
  have h := faithful_runT coded env henv t hwf hh
  refine ⟨h.adjC_ok, h.call_ok, ?_⟩
  rw [h.call_ok]
  exact h.adjC_ok

/-- conversely the guard of `LinearOperator.adj` rejects every array that is not of the declared output dtype and
    shape (no silent cast, no broadcast) -/
theorem C01_adj_guard_rejects (A : TOp) (hg : A.guard = true) (y : Ty) (h : y.dt ≠ A.odt ∨ y.sh ≠ A.osh) :
    ∃ e, A.adjC y = .error e :=
  adjC_rejects hg h

/-- the statement without the exclusion (not claimed): every accepted tree over faithful leaves has a total adjoint -/
def C01_adj_total_stmt : Prop :=
  ∀ (env : Nat → TOp), (∀ i, Faithful (env i)) → ∀ t : TExpr, wfT true env t = true →
    (runT true env t).adjC ⟨(runT true env t).odt, (runT true env t).osh⟩
      = .ok ⟨(runT true env t).idt, (runT true env t).ish⟩

/-- RECORDED `mixed-operand-dtypes`: it is false — the recorded witness
    `SingleAxisFiniteDifference((3,), float64, circular=True) + MatrixOperator(complex128 3×3)` is accepted at
    construction and its `adj` raises the dtype error for the conforming `y` -/
theorem C01_adj_total_stmt_false : ¬ C01_adj_total_stmt := by
  intro h
  have := h witnessEnv witnessEnv_faithful (.add (.leaf 0) (.leaf 1)) (by decide)
  revert this
  decide

/-- … in general: whenever the operands of `A ± B` declare different output dtypes, `adj` of the result raises for
    EVERY array `y` (so the exclusion in `C01_adj_total` cannot be dropped); for the conforming `y` the error is the
    dtype error of an operand's guard -/
theorem C01_mixed_sum_adj_fails (A B : TOp) (hgA : A.guard = true) (hgB : B.guard = true) (hd : A.odt ≠ B.odt) :
    (∀ y, ∃ e, (TOp.add A B).adjC y = .error e)
      ∧ (Faithful A → (TOp.add A B).adjC ⟨(TOp.add A B).odt, (TOp.add A B).osh⟩ = .error .dtype) :=
  ⟨add_mixed_adj_fails hgA hgB hd, fun hA => add_mixed_adj_dtype_error hA hgA hgB hd⟩

/-- operands that agree on the output dtype but whose input dtypes do not promote to the first one: `adj` returns an
    array that is NOT of the declared input dtype -/
theorem C01_mixed_sum_adj_wrong_dtype (A B : TOp) (hA : Faithful A) (hB : Faithful B) (hi : A.ish = B.ish)
    (ho : A.osh = B.osh) (hdo : A.odt = B.odt) (hdi : DT.promote A.idt B.idt ≠ A.idt) :
    ∃ d, d ≠ (TOp.add A B).idt ∧
      (TOp.add A B).adjC ⟨(TOp.add A B).odt, (TOp.add A B).osh⟩ = .ok ⟨d, (TOp.add A B).ish⟩ :=
  add_mixed_input_unfaithful hA hB hi ho hdo hdi

/-- RECORDED `linop-T-complex-dtypes`: `.T` as coded of an operator with complex input dtype ≠ output dtype cannot be
    evaluated on a conforming input, and `A.T.H.adj(y)` raises the dtype error for the conforming `y` -/
theorem C01_T_coded_dtypes_fail (A : TOp) (hg : A.guard = true) (hc : A.idt.cplx = true) (hd : A.idt ≠ A.odt) :
    (TOp.trCoded A).call ⟨(TOp.trCoded A).idt, (TOp.trCoded A).ish⟩ = .error .dtype
      ∧ (TOp.herm (TOp.trCoded A)).adjC ⟨(TOp.herm (TOp.trCoded A)).odt, (TOp.herm (TOp.trCoded A)).osh⟩ = .error .dtype :=
  trCoded_mixed_fails hg hc hd

/-- complex scalar times an operator with a real output space (`_to_output_space` keeps the real part of `conj(c)·y`):
    adjoint pair in `Re⟪·,·⟫` -/
theorem C01_smul_complex_on_real_output {A : Op ℂ} (hA : IsAdjRe A) (hreal : ∀ x, ∀ i < A.nout, (A.eval x i).im = 0)
    (c : ℂ) : IsAdjRe (Op.smulRe creal c A) :=
  smulRe_isAdjRe hA hreal c

/-! ### slab loops of the 3-D projector (`MAX_SLICE_LEN`) -/

/-- `XRayTransform3D._project` / `_back_project` process the volume in slabs and recompute indices and weights per slab
    with `slice_offset`: the accumulated slab scatters are the whole-volume scatter and the slab-wise gathers (fill-0 as coded; at
    arbitrary positions `J` for the pinned clamp) are the whole-volume gathers — for every slab size, every number of slabs covering the volume (incl. a partial last slab),
    all index arrays and weights -/
theorem C01_xray3d_slab_loop (B nslab np ny : Nat) (h : np ≤ nslab * B) (I J : Nat → Nat) (w : V K) :
    (∀ x, slabScatter B nslab np ny I w x = scatterAddDrop np ny I w x)
      ∧ (∀ y, slabGatherFill B ny I w y = gatherFill0 ny I w y) ∧ ∀ y, slabGather B J w y = gatherAt J w y :=
  ⟨fun x => slabScatter_eq B nslab np ny h I w x, fun y => slabGatherFill_eq B ny I w y, fun y => slabGather_eq B J w y⟩

/-- FULL STATEMENT for the 3-D transform as coded (slab loops, drop scatter, fill-0 gather): the slab-coded term is an
    adjoint pair for EVERY index array, slab size and number of slabs covering the volume -/
theorem C01_xray3d_slab (B nslab np ny : Nat) (h : np ≤ nslab * B) (I : Nat → Nat) (w : V K)
    (hw : ∀ p, star (w p) = w p) : IsAdj (Op.scatSlabFill B nslab np ny I w) :=
  scatSlabFill_isAdj B nslab np ny h I w hw

/-- a back-projector that does not forward the slab offset to the index computation (seeded change C01-m2) is NOT the
    adjoint, already for two voxels in two slabs — with the coded fill-0 gather and with the pinned clamped gather -/
theorem C01_xray3d_slab_no_offset_fails :
    ¬ IsAdj (Op.scatSlabFillNoOffset 1 2 2 2 (fun p => p) (fun _ => (1 : K)))
      ∧ ¬ IsAdj (Op.scatSlabNoOffset 1 2 2 2 (fun p => p) (fun p => clampIdx 2 p) (fun _ => (1 : K))) :=
  ⟨scatSlabFillNoOffset_not_isAdj, scatSlabNoOffset_not_isAdj⟩

/-! ### `CircularConvolve` as coded (transform domain) -/

/-- `_adj` as coded, `ifftn(conj(h_dft)·fftn(y))`, is the adjoint of `_eval` as coded, `ifftn(h_dft·fftn(x))`, for EVERY
    `h_dft` (transform of `h`, with `h_center` phases, or given with `h_is_dft`), whenever the inverse transform is a real
    multiple of the conjugate transpose of the forward transform (`F`, `G` arbitrary matrices: any number of axes, any
    normalisation) -/
theorem C01_circ_dft_domain (n : Nat) (F G : Nat → Nat → K) (s : K) (hs : star s = s)
    (hG : ∀ i < n, ∀ f < n, G i f = s * star (F f i)) (D : V K) : IsAdj (Op.spectral n F G D) :=
  spectral_isAdj n F G s hs hG D

/-- the 1-D DFT (`fft`: `ζ^(j f)`, `ifft`: `n⁻¹ ζ⁻¹^(i f)`) with a root on the unit circle is such a pair -/
theorem C01_dft_pair (n : Nat) (ζ : K) (hζ : star ζ = ζ⁻¹) (D : V K) :
    IsAdj (Op.spectral n (fun f j => ζ ^ (j * f)) (fun i f => (n : K)⁻¹ * ζ⁻¹ ^ (i * f)) D) :=
  spectral_isAdj n _ _ (n : K)⁻¹ (star_natCast_inv n) (fun i _ f _ => by simpa [Nat.mul_comm] using dft_pair n ζ hζ i f) D

/-- `fftn` / `ifftn` over ANY number of axes (`F` = Kronecker product of the 1-D transforms with roots on the unit
    circle, `G = N⁻¹·` the same with the inverse roots): `CircularConvolve` as coded in the transform domain is an adjoint
    pair for every `h_dft`, every `ndims` -/
theorem C01_dft_nd_pair (ds : List Nat) (zs : List K) (hz : ∀ z ∈ zs, star z = z⁻¹) (n N : Nat) (D : V K) :
    IsAdj (Op.spectral n (kronF ds zs) (fun i f => (N : K)⁻¹ * kronF ds (zs.map (·⁻¹)) i f) D) :=
  spectral_isAdj n _ _ (N : K)⁻¹ (star_natCast_inv N) (fun i _ f _ => kron_pair ds zs hz N i f) D

/-- the real parts `_eval` / `_adj` take for a real output space (`self.real`) or a real input space keep an adjoint
    pair adjoint in `Re⟪·,·⟫` -/
theorem C01_circ_real_wrappers {A : Op ℂ} (hA : IsAdjRe A) :
    IsAdjRe (Op.wrapRR creal A) ∧ IsAdjRe (Op.wrapRC creal A) :=
  ⟨wrapRR_isAdjRe hA, wrapRC_isAdjRe hA⟩

/-! ### the two layers together -/

/-- Every derivation tree that scico's own construction tests accept (typed tree `t`, `wfT`: shapes compared as tuples,
    dtype test of compositions and stacks), read as a value tree `e` with the flags scico computes (`Erase`: the `.T`
    branch from the declared input dtype, replication strides from the shapes), over leaves that satisfy the adjoint
    identity and have the declared sizes: the value tree passes `wf`, the derived operator has the declared flat sizes
    and satisfies the adjoint identity.  (With `C01_adj_total`: and its `adj` never fails for a conforming input.) -/
theorem C01_typed_tree (coded : Bool) (env : Nat → Op K) (envT : Nat → TOp) (hsz : SizesAgree env envT)
    (henv : ∀ i, IsAdj (env i)) {t : TExpr} {e : Expr K} (he : Erase coded envT t e)
    (hw : wfT coded envT t = true) (hp : posOK coded envT t) (hd : divOK e) :
    IsAdj (run env e) ∧ (run env e).nin = (runT coded envT t).ish.size ∧ (run env e).nout = (runT coded envT t).osh.size :=
  ⟨(isAdj_iff _).mpr (typed_tree_isAdjW test_id coded env envT hsz (fun i => (isAdj_iff _).mp (henv i)) he hw hp hd),
    (erase_good coded env envT hsz he hw hp).nin, (erase_good coded env envT hsz he hw hp).nout⟩

/-! ### class-specific overrides (`Diagonal`, `ScaledIdentity`, `Identity`, `MatrixOperator`) -/

/-- `Diagonal(d)` (hence `ScaledIdentity`, `Identity`) with its automatically derived adjoint `conj(d)·y` is an adjoint pair -/
theorem C01_diag_adj (n : Nat) (d : V K) : IsAdj (Op.diag n d) := diag_isAdj n d

/-- the overrides of the Diagonal family build operators with the same `eval` and `adj` as the generic constructions of
    `_linop.py` on the same operands: `.conj()` = `Diagonal(conj d)`, `.H` = `self.conj()`, `.T` = `self` (complex dtype
    branch always; real dtype branch for real `d`), `gram_op` = `Diagonal(conj(d)·d)`, `±`, scalar `*`, `/`, `@` -/
theorem C01_diagonal_overrides (n : Nat) (d e : V K) (c : K) :
    OpEq (Op.cj (Op.diag n d)) (Op.diag n (vconj d))
      ∧ OpEq (Op.herm (Op.diag n d)) (Op.diag n (vconj d))
      ∧ OpEq (Op.tr true (Op.diag n d)) (Op.diag n d)
      ∧ ((∀ i, star (d i) = d i) → OpEq (Op.tr false (Op.diag n d)) (Op.diag n d))
      ∧ OpEq (Op.gram (Op.diag n d)) (Op.diag n (fun i => conj (d i) * d i))
      ∧ OpEq (Op.add (Op.diag n d) (Op.diag n e)) (Op.diag n (vadd d e))
      ∧ OpEq (Op.sub (Op.diag n d) (Op.diag n e)) (Op.diag n (vsub d e))
      ∧ OpEq (Op.smul c (Op.diag n d)) (Op.diag n (vsmul c d))
      ∧ OpEq (Op.sdiv c (Op.diag n d)) (Op.diag n (vsdiv d c))
      ∧ OpEq (Op.comp (Op.diag n d) (Op.diag n e)) (Op.diag n (fun i => d i * e i)) :=
  ⟨diag_cj n d, diag_herm n d, diag_tr n d true (fun h => by cases h), fun h => diag_tr n d false (fun _ => h),
    diag_gram n d, diag_add n d e, diag_sub n d e, diag_smul n c d, diag_sdiv n c d, diag_comp n d e⟩

/-- the overrides of `MatrixOperator`: `.H` = `MatrixOperator(A.conj().T)`, `.conj()`, `.T` = `MatrixOperator(A.T)`,
    `gram_op` = `MatrixOperator(Aᴴ A)`, `±`, scalar `*`, `/`, `@` = `MatrixOperator(A @ B)` -/
theorem C01_matrix_overrides (m k n : Nat) (A B : Nat → Nat → K) (C : Nat → Nat → K) (c : K) :
    OpEq (Op.herm (Op.mat m n A)) (Op.mat n m (fun j i => conj (A i j)))
      ∧ OpEq (Op.cj (Op.mat m n A)) (Op.mat m n (fun i j => conj (A i j)))
      ∧ OpEq (Op.tr true (Op.mat m n A)) (Op.mat n m (fun j i => A i j))
      ∧ ((∀ i j, star (A i j) = A i j) → OpEq (Op.tr false (Op.mat m n A)) (Op.mat n m (fun j i => A i j)))
      ∧ OpEq (Op.gram (Op.mat m n A)) (Op.mat n n (matMul m (fun j i => conj (A i j)) A))
      ∧ OpEq (Op.add (Op.mat m n A) (Op.mat m n B)) (Op.mat m n (fun i j => A i j + B i j))
      ∧ OpEq (Op.sub (Op.mat m n A) (Op.mat m n B)) (Op.mat m n (fun i j => A i j - B i j))
      ∧ OpEq (Op.smul c (Op.mat m n A)) (Op.mat m n (fun i j => c * A i j))
      ∧ OpEq (Op.sdiv c (Op.mat m n A)) (Op.mat m n (fun i j => A i j / c))
      ∧ OpEq (Op.comp (Op.mat m k C) (Op.mat k n A)) (Op.mat m n (matMul k C A)) :=
  ⟨mat_herm m n A, mat_cj m n A, mat_tr m n A true (fun h => by cases h), fun h => mat_tr m n A false (fun _ => h),
    mat_gram m n A, mat_add m n A B, mat_sub m n A B, mat_smul m n c A, mat_sdiv m n c A, mat_comp m k n C A⟩

/-- operators with the same `eval`/`adj` are adjoint pairs together (so every shortcut above is an adjoint pair) -/
theorem C01_opEq_adjoint {A B : Op K} (h : OpEq A B) (hA : IsAdj A) : IsAdj B := h.isAdj hA

/-- `linop.jacobian(F, u)`: `eval = jvp`, `adj = ` conjugated `vjp` — an adjoint pair given the `jax.jvp`/`jax.vjp`
    contract (push-forward by the Jacobian matrix `J`, pull-back by `Jᵀ`) -/
theorem C01_jacobian_adj (m n : Nat) (J : Nat → Nat → K) (jvp G : V K → V K)
    (hj : ∀ v, ∀ i < m, jvp v i = ∑ j ∈ range n, J i j * v j)
    (hG : ∀ ct, ∀ j < n, G ct j = ∑ i ∈ range m, J i j * ct i) : IsAdj (Op.jacobian m n jvp G) :=
  jacobian_isAdj m n J jvp G hj hG

/-! ### nested views -/

/-- views of views of ANY operator built by the generic constructions (no closed form needed — generic LinearOperator,
    CircularConvolve, …; complex dtype branch of `.T`): the closures are identical as functions —
    `A.T.T = A`, `A.H.H = A`, `A.conj().conj() = A`, `A.T.H = A.H.T = A.conj()`, `A.conj().T = A.T.conj() = A.H`,
    `A.conj().H = A.H.conj() = A.T`, `(B @ A).H = A.H @ B.H`, `(B @ A).T = A.T @ B.T`, `(B @ A).conj() = B.conj() @ A.conj()`;
    hence every nested view of an adjoint pair is an adjoint pair with the matrix the view algebra predicts -/
theorem C01_view_algebra (A B : Op K) :
    Op.tr true (Op.tr true A) = A ∧ Op.herm (Op.herm A) = A ∧ Op.cj (Op.cj A) = A
      ∧ Op.herm (Op.tr true A) = Op.cj A ∧ Op.tr true (Op.herm A) = Op.cj A
      ∧ Op.tr true (Op.cj A) = Op.herm A ∧ Op.cj (Op.tr true A) = Op.herm A
      ∧ Op.herm (Op.cj A) = Op.tr true A ∧ Op.cj (Op.herm A) = Op.tr true A
      ∧ Op.herm (Op.comp B A) = Op.comp (Op.herm A) (Op.herm B)
      ∧ Op.tr true (Op.comp B A) = Op.comp (Op.tr true A) (Op.tr true B)
      ∧ Op.cj (Op.comp B A) = Op.comp (Op.cj B) (Op.cj A) :=
  ⟨tr_tr A, herm_herm A, cj_cj A, tr_herm A, herm_tr A, cj_tr A, tr_cj A, cj_herm A, herm_cj A, comp_herm B A, comp_tr B A,
    comp_cj B A⟩

/-- `A.H.gram_op` applies `A Aᴴ` (both closures) -/
theorem C01_gram_of_herm (A : Op K) :
    (Op.gram (Op.herm A)).eval = (Op.comp A (Op.herm A)).eval ∧ (Op.gram (Op.herm A)).adj = (Op.comp A (Op.herm A)).eval :=
  herm_gram A

/-! ### index maps -/

/-- an operator that reads `x` along ANY index map `φ` (0 where out of range) — `Slice`, `Crop`, `Transpose`, `Reshape`,
    zero `Pad`, for every shape/axes/slice configuration — and the scatter-add along `φ` are an adjoint pair; `Sum` over
    axes is the scatter `Op.scatFill … 1` of `C01_xray_backproject` with the broadcast as adjoint -/
theorem C01_index_map (n m : Nat) (φ : Nat → Nat) : IsAdj (Op.imap (α := K) n m φ) := imap_isAdj n m φ

/-- explicit instance: the adjoint of zero padding (`lo` in front, `hi` behind) is cropping -/
theorem C01_pad_adj_is_crop (n lo hi : Nat) (y : V K) (i : Nat) (h : i < n) :
    (Op.imap (α := K) n (lo + n + hi) (padMap n lo)).adj y i = y (lo + i) :=
  pad_adj_is_crop n lo hi y i h

/-! ### non-vacuity -/

example : JaxTransposeRC probeTransposeRC := probeTransposeRC_ok

-- a contract-satisfying transpose exists
example : JaxTranspose (K := K) probeTranspose := probeTranspose_ok

-- a well-formed tree over two matrix leaves: ((2·A)ᴴ ∘ (A + B)).gram stacked on top of A.T.conj
example (A B : Nat → Nat → K) :
    let env : Nat → Op K := fun i => if i = 0 then Op.mat 3 2 A else Op.mat 3 2 B
    let e : Expr K := .vcons (.gram (.comp (.herm (.smul 2 (.leaf 0))) (.add (.leaf 0) (.leaf 1))))
      (.vcons (.cj (.tr true (.herm (.leaf 0)))) (.vnil 2))
    IsAdj (run env e) := by
  intro env e
  apply C01_derived env _ e
  · simp [e, wf, run, env, Op.mat, Op.add, Op.smul, Op.herm, Op.comp, Op.gram, Op.tr, Op.cj, Op.vcons, Op.vnil]
  · simp [e, divOK]
  · intro i
    by_cases h : i = 0 <;> simp [env, h] <;> exact mat_isAdj _ _ _

-- the matrix leaf satisfies the hypotheses of the view theorems
example (M : Nat → Nat → K) : IsAdj (Op.mat 2 3 M) ∧ IsMat (Op.mat 2 3 M) M := ⟨mat_isAdj _ _ _, mat_isMat _ _ _⟩

-- the matrix leaf satisfies the hypotheses of the lifting lemma
example (M : Nat → Nat → K) : IsLinear 3 (Op.mat 2 3 M).eval := by
  refine ⟨?_, ?_, ?_⟩
  · intro x y; funext i; simp [Op.mat, vadd, sumTo_eq, mul_add, Finset.sum_add_distrib]
  · intro c x; funext i; simp [Op.mat, vsmul, sumTo_eq, Finset.mul_sum]; apply Finset.sum_congr rfl; intro j _; ring
  · intro x x' h; funext i; simp only [Op.mat, sumTo_eq]; apply Finset.sum_congr rfl; intro j hj
    rw [h j (Finset.mem_range.mp hj)]

-- a complex matrix leaf is real-linear in the sense of `C01_basis_re`
example (M : Nat → Nat → ℂ) : IsRLinear 3 (Op.mat 2 3 M).eval := by
  refine ⟨?_, ?_, ?_⟩
  · intro x y; funext i; simp [Op.mat, vadd, sumTo_eq, mul_add, Finset.sum_add_distrib]
  · intro c x; funext i; simp [Op.mat, vsmul, sumTo_eq, Finset.mul_sum]; apply Finset.sum_congr rfl; intro j _; ring
  · intro x x' h; funext i; simp only [Op.mat, sumTo_eq]; apply Finset.sum_congr rfl; intro j hj
    rw [h j (Finset.mem_range.mp hj)]

-- covered detector: indices 0,1,0 on a detector of 2 bins
example : ∀ p < 3, (fun _ => (1 : K)) p = 0 ∨ (fun p => p % 2) p < 2 := by
  intro p _; right; exact Nat.mod_lt _ (by decide)

-- a well-formed homogeneous typed tree over the witness environment: ((2i)·A₂ᴴ) ∘ ((A₂ − A₂) stacked twice)… all
-- construction tests pass, no mixed sum: hypotheses of `C01_adj_total` hold (both `.T` variants)
example : wfT true witnessEnv (.comp (.smul .wcplx (.herm (.leaf 2))) (.gram (.tr (.sub (.leaf 2) (.cj (.leaf 2)))))) = true
    ∧ homog true witnessEnv (.comp (.smul .wcplx (.herm (.leaf 2))) (.gram (.tr (.sub (.leaf 2) (.cj (.leaf 2)))))) = true := by
  decide

example : wfT false witnessEnv (.vfin (.vcons (.leaf 0) (.vone (.neg (.leaf 0))))) = true
    ∧ homog false witnessEnv (.dfin true false (.dcons (.drep 2 0 1 (.leaf 0)) (.done (.drep 2 1 0 (.leaf 0))))) = true
    ∧ wfT false witnessEnv (.dfin true false (.dcons (.drep 2 0 1 (.leaf 0)) (.done (.drep 2 1 0 (.leaf 0))))) = true := by
  decide

-- the hypotheses of the negation theorems are met by the recorded witnesses
example : (witnessEnv 0).guard = true ∧ (witnessEnv 2).guard = true ∧ (witnessEnv 0).odt ≠ (witnessEnv 2).odt := by decide
example : (witnessEnv 3).guard = true ∧ (witnessEnv 3).idt.cplx = true ∧ (witnessEnv 3).idt ≠ (witnessEnv 3).odt := by decide

-- an operator over ℂ with real-valued output that satisfies the Re-identity (hypotheses of C01_smul_complex_on_real_output)
example (r : Nat → Nat → ℝ) :
    IsAdjRe (realToComplex 2 3 (fun i j => (r i j : ℂ)))
      ∧ ∀ x, ∀ i < 2, ((realToComplex 2 3 (fun i j => (r i j : ℂ))).eval x i).im = 0 := by
  refine ⟨realToComplex_isAdjRe _ _ _, ?_⟩
  intro x i _
  simp [realToComplex, mulVec, sumTo_eq, vre, Complex.im_sum]

-- slab hypotheses: 23 voxels in slabs of 10 need 3 slabs; real weights; indices may leave the detector (p % 7 on 4 bins)
example : (23 : Nat) ≤ 3 * 10 ∧ (∀ p : Nat, star ((fun _ => (1 : K)) p) = (fun _ => (1 : K)) p) ∧ ¬ (∀ p < 23, (fun p => p % 7) p < 4) :=
  ⟨by decide, fun _ => star_one K, fun h => absurd (h 4 (by decide)) (by decide)⟩

-- a root on the unit circle: ζ = i (4-point DFT); and an operator satisfying the hypothesis of the wrappers
example : star Complex.I = Complex.I⁻¹ := by simp
example (D : V ℂ) : IsAdjRe (Op.spectral 4 (fun f j => Complex.I ^ (j * f)) (fun i f => ((4 : ℕ) : ℂ)⁻¹ * Complex.I⁻¹ ^ (i * f)) D) :=
  isAdjRe_of_isAdj (C01_dft_pair 4 Complex.I (by simp) D)

-- hypotheses of `C01_typed_tree`: matrix leaves of the declared sizes, an accepted typed tree and its erasure
example (A : Nat → Nat → K) :
    let envT : Nat → TOp := fun _ => stdLeaf (.arr [3]) (.arr [2]) .c128 .c128 true
    let env : Nat → Op K := fun _ => Op.mat 2 3 A
    let t : TExpr := .vfin (.vcons (.tr (.herm (.leaf 0))) (.vone (.smul .wcplx (.leaf 0))))
    SizesAgree env envT ∧ wfT false envT t = true ∧ posOK false envT t
      ∧ Erase (α := K) false envT t (.vcons (.tr true (.herm (.leaf 0))) (.vcons (.smul 2 (.leaf 0)) (.vnil 3))) := by
  intro envT env t
  refine ⟨fun _ => ⟨rfl, rfl⟩, by decide, by simp [t, posOK], ?_⟩
  exact .vfin (.vcons (.tr (.herm (.leaf 0))) (.vone (.smul .wcplx 2 (.leaf 0))))

-- two axes of lengths 4 and 2 with the roots i and −1 (both on the unit circle)
example : ∀ z ∈ [Complex.I, (-1 : ℂ)], star z = z⁻¹ := by
  intro z hz
  simp only [List.mem_cons, List.mem_nil_iff, or_false] at hz
  rcases hz with rfl | rfl <;> simp

-- the shortcut `Diagonal.gram_op` is an adjoint pair, through the generic construction
example (d : V K) : IsAdj (Op.diag 3 (fun i => conj (d i) * d i)) :=
  C01_opEq_adjoint (diag_gram 3 d) (gram_isAdjW test_id (diag_isAdj 3 d))

-- the contract of `C01_jacobian_adj` is met by the matrix maps themselves
example (J : Nat → Nat → K) :
    (∀ v : V K, ∀ i < 2, mulVec 3 J v i = ∑ j ∈ range 3, J i j * v j)
      ∧ ∀ ct : V K, ∀ j < 3, mulVec 2 (fun j i => J i j) ct j = ∑ i ∈ range 2, J i j * ct i :=
  ⟨fun v i _ => by simp [mulVec, sumTo_eq], fun ct j _ => by simp [mulVec, sumTo_eq]⟩

-- `C01_view_algebra`, `C01_gram_of_herm` have no hypotheses (identities of closures for every operator record)

end Scico.Props.C01
