/-
  Property C02 — proximal operators return the minimiser.  ONLY property theorems here.
-/
import Scico.Proofs.ProxPi

namespace Scico.Props.C02
open Scico.ProxSpec

variable {E : Type*} [NormedAddCommGroup E] [InnerProductSpace ℝ E]

/-- certificate ⇒ minimiser with quadratic gap -/
theorem C02_prox_of_cert {D : Set E} {f : E → ℝ} {lam : ℝ} {v p : E} (hlam : 0 < lam)
    (h : Cert D f lam v p) : IsProx D f lam v p := prox_of_cert hlam h

end Scico.Props.C02
