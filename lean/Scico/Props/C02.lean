/-
  Property C02 — proximal operators return the minimiser of `lam·f(x) + ½‖x - v‖²`.
  ONLY property theorems (and their non-vacuity examples) here; lemmas are in `Scico/Proofs/Prox*.lean`.

  Reading guide.
  * SPEC side (`Scico.ProxSpec`, written independently of the model):
      `Cert D f lam v p`   : `p ∈ D ∧ ∀ z ∈ D, f p + ⟪(v-p)/lam, z-p⟫ ≤ f z`     (sub-gradient certificate)
      `IsProx D f lam v p` : `p ∈ D` minimises `lam f + ½‖·-v‖²` over `D` with gap `½‖x-p‖²` (⇒ unique)
      `IsGMin D f lam v p` : `p ∈ D` is a global minimiser                         (non-convex `f`)
    `D` is the domain of `f` (`Set.univ` for finite functionals, the constraint set for indicators).
  * MODEL side (`Scico.Prox`, the code as written, instantiated at `ℝ`): `l1Prox`, `l2Prox`, …
  * `toE v` views a model vector as a point of `EuclideanSpace ℝ (Fin n)`; `toCn` a vector of pairs as
    a point of `ℂⁿ` with the real inner product `Re⟨·,·⟩`.  Block arrays and N-d arrays are their
    flattening (the Euclidean structure is the same); groups are given by a labelling.
  Every convex theorem yields, through `C02_prox_of_cert`, `C02_prox_unique`, `C02_prox_firm`,
  `C02_prox_nonexpansive`, `C02_prox_mem_dom`: unique minimiser, firm non-expansiveness, membership in the domain.
-/
import Scico.Proofs.ProxGroup
import Scico.Proofs.ProxSep
import Scico.Proofs.ProxNonconvex
import Scico.Proofs.ProxL1L2C
import Scico.Proofs.ProxCubic
import Scico.Proofs.ProxNuclearDual
import Scico.Proofs.ProxPhase
import Scico.Proofs.ProxAxis
import Scico.Proofs.ProxCG
import Scico.Proofs.ProxCGGen
import Scico.Proofs.ProxEdge
import Scico.Proofs.ProxXR

set_option linter.unusedSectionVars false

namespace Scico.Props.C02

open Scico Scico.Prox Scico.ProxSpec Scico.ProxBridge Scico.ProxConvex Scico.ProxGroup Scico.ProxSep
  Scico.ProxNonconvex Scico.ProxL1L2 Scico.ProxCubic Scico.ProxNuclear Scico.ProxPhase Scico.ProxAxis Scico.ProxCG Scico.ProxEdge WithLp

/-! ## generic theorems (any real inner-product space: ℝⁿ, ℂⁿ with `Re⟨·,·⟩`, block arrays) -/

section Generic
variable {E : Type*} [NormedAddCommGroup E] [InnerProductSpace ℝ E]

/-- certificate ⇒ minimiser, with the quadratic gap `½‖x-p‖²` -/
theorem C02_prox_of_cert {D : Set E} {f : E → ℝ} {lam : ℝ} {v p : E} (hlam : 0 < lam)
    (h : Cert D f lam v p) : IsProx D f lam v p := prox_of_cert hlam h

/-- the minimiser is unique: every global minimiser equals the certified point -/
theorem C02_prox_unique {D : Set E} {f : E → ℝ} {lam : ℝ} {v p q : E} (hlam : 0 < lam)
    (hp : Cert D f lam v p) (hq : IsGMin D f lam v q) : q = p :=
  (prox_of_cert hlam hp).unique hq

/-- firm non-expansiveness of certified points -/
theorem C02_prox_firm {D : Set E} {f : E → ℝ} {lam : ℝ} {v w p q : E} (hlam : 0 < lam)
    (hp : Cert D f lam v p) (hq : Cert D f lam w q) : ‖p - q‖ ^ 2 ≤ inner ℝ (p - q) (v - w) :=
  prox_firm hlam hp hq

/-- hence 1-Lipschitz -/
theorem C02_prox_nonexpansive {D : Set E} {f : E → ℝ} {lam : ℝ} {v w p q : E} (hlam : 0 < lam)
    (hp : Cert D f lam v p) (hq : Cert D f lam w q) : ‖p - q‖ ≤ ‖v - w‖ :=
  prox_nonexpansive hlam hp hq

/-- a certified point lies in the domain of `f` -/
theorem C02_prox_mem_dom {D : Set E} {f : E → ℝ} {lam : ℝ} {v p : E} (h : Cert D f lam v p) : p ∈ D := h.1

/-- converse for convex `f` on a convex domain: a global minimiser carries the certificate
    (so for convex `f` "minimiser" and "certificate" are the same thing) -/
theorem C02_cert_of_min_convex {D : Set E} {f : E → ℝ} {lam : ℝ} {v p : E} (hlam : 0 < lam)
    (hconv : ∀ x ∈ D, ∀ y ∈ D, ∀ t : ℝ, 0 ≤ t → t ≤ 1 →
      (x + t • (y - x)) ∈ D ∧ f (x + t • (y - x)) ≤ (1 - t) * f x + t * f y)
    (h : IsGMin D f lam v p) : Cert D f lam v p := cert_of_min_convex hlam hconv h

/-- separable sums on product spaces (block arrays, coordinate-wise functionals): component
    certificates assemble to the certificate of the sum -/
theorem C02_separable {ι : Type*} [Fintype ι] {F : ι → Type*} [∀ i, NormedAddCommGroup (F i)]
    [∀ i, InnerProductSpace ℝ (F i)] {D : ∀ i, Set (F i)} {φ : ∀ i, F i → ℝ} {lam : ℝ} {v p : PiLp 2 F}
    (h : ∀ i, Cert (D i) (φ i) lam (v i) (p i)) :
    Cert {x : PiLp 2 F | ∀ i, x i ∈ D i} (fun x => ∑ i, φ i (x i)) lam v p := cert_pi h

/-- L2 norm in ANY real inner-product space (ℂⁿ, block arrays): `max(1 - lam/‖v‖, 0)·v`, and `0` at `v = 0` -/
theorem C02_l2_general {lam : ℝ} (hlam : 0 < lam) (v : E) :
    Cert Set.univ (fun x : E => ‖x‖) lam v ((if ‖v‖ = 0 then 0 else max (1 - lam / ‖v‖) 0) • v) :=
  cert_norm hlam v

/-- squared L2 norm in any real inner-product space -/
theorem C02_sqL2_general {lam : ℝ} (hlam : 0 < lam) (v : E) :
    Cert Set.univ (fun x : E => ‖x‖ ^ 2) lam v ((1 / (1 + 2 * lam)) • v) := cert_sqnorm hlam v

/-- non-separable Huber norm in any real inner-product space -/
theorem C02_huber_nonsep_general {lam delta : ℝ} (hlam : 0 < lam) (hd : 0 < delta) (v : E) :
    Cert Set.univ (fun x : E => huberFn delta ‖x‖) lam v
      ((1 - delta * lam / max ‖v‖ (delta * (1 + lam))) • v) := cert_huber hlam hd v

/-- L2-ball indicator in any real inner-product space: `v·(r / max(‖v‖, r))` is the projection
    (inside: `v`; on the sphere: `v`; outside: `r v/‖v‖`; `v = 0`: `0`) -/
theorem C02_l2ball_general {lam rad : ℝ} (hlam : 0 < lam) (hr : 0 < rad) (v : E) :
    Cert {x : E | ‖x‖ ≤ rad} (fun _ => 0) lam v ((rad / max ‖v‖ rad) • v) := cert_ball hlam hr v

/-- distance to a closed convex set given its projector `P` (obtuse-angle property) -/
theorem C02_setdist_general {C : Set E} {P : E → E} (hP : ∀ x, IsProjAt C x (P x)) {lam : ℝ} (hlam : 0 < lam)
    (v : E) :
    Cert Set.univ (fun x => ‖x - P x‖) lam v
      ((if ‖v - P v‖ < lam then 1 else lam / ‖v - P v‖) • P v +
        (1 - (if ‖v - P v‖ < lam then 1 else lam / ‖v - P v‖)) • v) :=
  cert_setdist hP hlam v _ rfl

/-- half squared distance to a closed convex set given its projector -/
theorem C02_sqsetdist_general {C : Set E} {P : E → E} (hP : ∀ x, IsProjAt C x (P x)) {lam : ℝ} (hlam : 0 < lam)
    (v : E) :
    Cert Set.univ (fun x => 1 / 2 * ‖x - P x‖ ^ 2) lam v
      ((1 / (1 + lam)) • v + (lam * (1 / (1 + lam))) • P v) := cert_sqsetdist hP hlam v

/-- a metric projection is the prox of the indicator of its set -/
theorem C02_indicator_general {C : Set E} {lam : ℝ} {v y : E} (hlam : 0 < lam) (h : IsProjAt C v y) :
    Cert C (fun _ => 0) lam v y := cert_indicator hlam h

/-- generic `Loss` with identity forward operator: translating a certified prox by the datum `y` and scaling the
    parameter by the loss scale `s > 0` gives the certified prox of `x ↦ s·f(x - y)` (orientation matters: `f` need not be even) -/
theorem C02_loss_translate {D : Set E} {f : E → ℝ} {lam s : ℝ} {v y p : E} (hs : 0 < s)
    (h : Cert D f (s * lam) (v - y) p) :
    Cert {x : E | x - y ∈ D} (fun x => s * f (x - y)) lam v (p + y) := cert_translate hs h

end Generic

/-! ## the MODEL prox maps on `ℝⁿ` (`n` arbitrary) -/

section Real
variable {n : Nat}

/-- `ZeroFunctional.prox` -/
theorem C02_zero {lam : ℝ} (v : Fin n → ℝ) :
    Cert Set.univ (fun _ : EuclideanSpace ℝ (Fin n) => (0 : ℝ)) lam (toE v) (toE (zeroProx v)) := cert_zero _

/-- `L1Norm.prox`, real input -/
theorem C02_l1 {lam : ℝ} (hlam : 0 < lam) (v : Fin n → ℝ) :
    Cert Set.univ (fun x : EuclideanSpace ℝ (Fin n) => ∑ i, |x i|) lam (toE v) (toE (l1Prox v lam)) := by
  have := cert_pi (F := fun _ : Fin n => ℝ) (v := toE v) (p := toE (l1Prox v lam))
    (fun i => cert_abs_real hlam (v i))
  exact this.congr_dom setOf_forall_univ

/-- `SquaredL2Norm.prox` -/
theorem C02_sqL2 {lam : ℝ} (hlam : 0 < lam) (v : Fin n → ℝ) :
    Cert Set.univ (fun x : EuclideanSpace ℝ (Fin n) => ‖x‖ ^ 2) lam (toE v) (toE (sqL2Prox v lam)) := by
  rw [sqL2Prox_eq]; exact cert_sqnorm hlam _

/-- `L2Norm.prox` as coded (`norm_v == 0` test, `max(1 - lam/‖v‖, 0)`), including `v = 0` and `‖v‖ ≤ lam` -/
theorem C02_l2 {lam : ℝ} (hlam : 0 < lam) (v : Fin n → ℝ) :
    Cert Set.univ (fun x : EuclideanSpace ℝ (Fin n) => ‖x‖) lam (toE v) (toE (l2Prox v lam)) := by
  rw [l2Prox_eq]; exact cert_norm hlam _

/-- `L21Norm.prox` over an ARBITRARY grouping of the entries (any axis, any block structure) -/
theorem C02_l21 {lam : ℝ} (hlam : 0 < lam) (grp : Fin n → ℕ) (v : Fin n → ℝ) :
    Cert Set.univ (l21Fn grp) lam (toE v) (toE (l21Prox grp v lam)) := cert_l21 grp v hlam

/-- `L21Norm(l2_axis=axes).prox` on an N-d array of shape `shape` (row-major flattening): the labelling is computed by the
    model (`axisGroup`), and `C02_l21_axis_groups` says which entries it groups -/
theorem C02_l21_axes {lam : ℝ} (hlam : 0 < lam) (shape axes : List ℕ) (v : Fin n → ℝ) :
    Cert Set.univ (l21Fn (fun i : Fin n => axisGroup shape axes i.val)) lam (toE v)
      (toE (l21Prox (fun i : Fin n => axisGroup shape axes i.val) v lam)) := C02_l21 hlam _ v

/-- **index-level grouping**: two flat entries of an array of shape `shape` (all dimensions positive) get the same label iff
    their multi-indices (`unravelAt` = `np.unravel_index`) agree along every axis that `l2_axis` does NOT reduce — the
    groups of `(|x|²).sum(axis=axes, keepdims=True)` -/
theorem C02_l21_axis_groups (shape axes : List ℕ) (hpos : ∀ d, d < shape.length → 0 < shape.getD d 1) (i j : ℕ) :
    axisGroup shape axes i = axisGroup shape axes j ↔
      ∀ d, d < shape.length → d ∉ axes → unravelAt shape i d = unravelAt shape j d :=
  axisGroup_eq_iff shape axes hpos i j

/-- `HuberNorm` separable form, real input (`|v_i|` exactly at the threshold included) -/
theorem C02_huber_sep {lam delta : ℝ} (hlam : 0 < lam) (hd : 0 < delta) (v : Fin n → ℝ) :
    Cert Set.univ (fun x : EuclideanSpace ℝ (Fin n) => ∑ i, huberFn delta |x i|) lam (toE v)
      (toE (huberSepProx delta v lam)) := by
  have := cert_pi (F := fun _ : Fin n => ℝ) (v := toE v) (p := toE (huberSepProx delta v lam))
    (fun i => by
      have h := cert_huber hlam hd (v i)
      rw [← huberSepProx1_eq] at h
      exact h)
  exact this.congr_dom setOf_forall_univ

/-- `HuberNorm` non-separable form -/
theorem C02_huber_nonsep {lam delta : ℝ} (hlam : 0 < lam) (hd : 0 < delta) (v : Fin n → ℝ) :
    Cert Set.univ (fun x : EuclideanSpace ℝ (Fin n) => huberFn delta ‖x‖) lam (toE v)
      (toE (huberNonsepProx delta v lam)) := by
  rw [huberNonsepProx_eq]; exact cert_huber hlam hd _

/-- `NonNegativeIndicator.prox` -/
theorem C02_nonneg {lam : ℝ} (hlam : 0 < lam) (v : Fin n → ℝ) :
    Cert {x : EuclideanSpace ℝ (Fin n) | ∀ i, 0 ≤ x i} (fun _ => 0) lam (toE v) (toE (nonnegProx v)) := by
  have := cert_sep (D := fun _ : Fin n => Set.Ici (0 : ℝ)) (φ := fun _ _ => (0 : ℝ)) (lam := lam) (v := v)
    (p := nonnegProx v) (fun i => nonneg_1d hlam (v i))
  refine ⟨this.1, fun z hz => ?_⟩
  have := this.2 z hz
  simpa using this

/-- `L2BallIndicator.prox` (code after fix b3feb73): inside / on / outside the ball and `v = 0` -/
theorem C02_l2ball {lam rad : ℝ} (hlam : 0 < lam) (hr : 0 < rad) (v : Fin n → ℝ) :
    Cert {x : EuclideanSpace ℝ (Fin n) | ‖x‖ ≤ rad} (fun _ => 0) lam (toE v) (toE (l2ballProx rad v)) := by
  rw [l2ballProx_eq]; exact cert_ball hlam hr _

/-- `SetDistance.prox` given a projector with the obtuse-angle property -/
theorem C02_setdist {C : Set (EuclideanSpace ℝ (Fin n))} {P : (Fin n → ℝ) → (Fin n → ℝ)}
    (hP : ∀ x, IsProjAt C (toE x) (toE (P x))) {lam : ℝ} (hlam : 0 < lam) (v : Fin n → ℝ) :
    Cert Set.univ (fun x : EuclideanSpace ℝ (Fin n) => ‖x - toE (P (fun i => x i))‖) lam (toE v)
      (toE (setDistProx v (P v) lam)) := by
  rw [setDistProx_eq]
  exact cert_setdist (P := fun x => toE (P (fun i => x i))) (fun x => hP _) hlam (toE v) _ rfl

/-- `SquaredSetDistance.prox` given a projector with the obtuse-angle property -/
theorem C02_sqsetdist {C : Set (EuclideanSpace ℝ (Fin n))} {P : (Fin n → ℝ) → (Fin n → ℝ)}
    (hP : ∀ x, IsProjAt C (toE x) (toE (P x))) {lam : ℝ} (hlam : 0 < lam) (v : Fin n → ℝ) :
    Cert Set.univ (fun x : EuclideanSpace ℝ (Fin n) => 1 / 2 * ‖x - toE (P (fun i => x i))‖ ^ 2) lam (toE v)
      (toE (sqSetDistProx v (P v) lam)) := by
  rw [sqSetDistProx_eq]
  exact cert_sqsetdist (P := fun x => toE (P (fun i => x i))) (fun x => hP _) hlam (toE v)

/-- `SquaredL2Loss.prox` with diagonal `A` (identity: `a = 1`) and weights `w ≥ 0` (zeros allowed) -/
theorem C02_sqL2loss_diag {lam scale : ℝ} (hlam : 0 < lam) (hs : 0 ≤ scale) (w a y v : Fin n → ℝ)
    (hw : ∀ i, 0 ≤ w i) :
    Cert Set.univ (fun x : EuclideanSpace ℝ (Fin n) => ∑ i, scale * (w i * (y i - a i * x i) ^ 2)) lam (toE v)
      (toE (sqL2LossDiagProx scale w a y v lam)) := by
  have := cert_sep (D := fun _ : Fin n => Set.univ) (φ := fun i x => scale * (w i * (y i - a i * x) ^ 2))
    (lam := lam) (v := v) (p := sqL2LossDiagProx scale w a y v lam)
    (fun i => ⟨trivial, fun z _ => sqL2loss_1d hlam hs (hw i) (a i) (y i) (v i) z⟩)
  exact this.congr_dom setOf_forall_univ

/-- the model's residual of the CG system is `sysRes` of `Proofs/ProxCG.lean` -/
theorem C02_sqL2loss_sys_model {m : ℕ} (scale lam : ℝ) (w y : Fin m → ℝ) (A : Fin m → Fin n → ℝ) (v x : Fin n → ℝ) :
    sqL2LossSysResidual scale w A y v x lam = sysRes (2 * scale * lam) w A y v x := by
  funext j
  simp only [sqL2LossSysResidual, matTVec, matVec, vsum_eq, sysRes, sysOp, mtv, mv]

/-- **`SquaredL2Loss.prox`, ANY linear operator `A` (dense `m × n`), weights `w ≥ 0`, `scale ≥ 0`**: a point where the residual of the
    system handed to `cg` vanishes carries the sub-gradient certificate of `Σ scale·w_i (y_i - (Ax)_i)²` -/
theorem C02_sqL2loss_normal_eq {m : ℕ} {lam scale : ℝ} (hlam : 0 < lam) (hs : 0 ≤ scale) (w y : Fin m → ℝ)
    (hw : ∀ i, 0 ≤ w i) (A : Fin m → Fin n → ℝ) (v p : Fin n → ℝ)
    (hres : ∀ j, sqL2LossSysResidual scale w A y v p lam j = 0) :
    Cert Set.univ (sqL2Fn scale w A y) lam (toE v) (toE p) :=
  cert_of_sysRes_zero hlam hs hw A y v p (fun j => by rw [← C02_sqL2loss_sys_model]; exact hres j)

/-- **the CG path is as accurate as its residual**: the prox `p` exists, and EVERY `x` (in particular what `cg` returns after its
    stopping test `‖r‖ ≤ tol‖b‖`, or after `maxiter`) satisfies `‖x - p‖ ≤ ‖residual(x)‖` — the system matrix is `⪰ I` -/
theorem C02_sqL2loss_cg_bound {m : ℕ} {lam scale : ℝ} (hlam : 0 < lam) (hs : 0 ≤ scale) (w y : Fin m → ℝ)
    (hw : ∀ i, 0 ≤ w i) (A : Fin m → Fin n → ℝ) (v : Fin n → ℝ) :
    ∃ p : Fin n → ℝ, Cert Set.univ (sqL2Fn scale w A y) lam (toE v) (toE p) ∧
      ∀ x : Fin n → ℝ, ‖toE x - toE p‖ ≤ ‖toE (sqL2LossSysResidual scale w A y v x lam)‖ := by
  have hc : 0 ≤ 2 * scale * lam := by positivity
  obtain ⟨p, hp⟩ := exists_sysRes_zero hc hw A y v
  refine ⟨p, cert_of_sysRes_zero hlam hs hw A y v p hp, fun x => ?_⟩
  rw [C02_sqL2loss_sys_model]
  exact dist_le_norm_sysRes hc hw A y v x p hp

/-- **the CG path for ANY linear operator, real or complex, on any array layout** (index-free): `A : E → F` real-linear between real
    inner-product spaces (`ℂⁿ` with `Re⟨·,·⟩`, block arrays, …), `At` its adjoint (hypothesis `SysData.adj` — property C01 of the operator),
    `W` symmetric positive semi-definite.  The prox of `scale·⟨W(y - Ax), y - Ax⟩` exists, solves the system the code hands to `cg`, and every `x`
    is within `‖residual(x)‖` of it. -/
theorem C02_sqL2loss_cg_general {E F : Type*} [NormedAddCommGroup E] [InnerProductSpace ℝ E] [FiniteDimensional ℝ E]
    [NormedAddCommGroup F] [InnerProductSpace ℝ F] {lam scale : ℝ} (hlam : 0 < lam) (hs : 0 ≤ scale)
    {A : E →ₗ[ℝ] F} {At : F →ₗ[ℝ] E} {W : F →ₗ[ℝ] F} (h : ProxCGGen.SysData A At W) (y : F) (v : E) :
    ∃ p : E, Cert Set.univ (ProxCGGen.lossFn scale A W y) lam v p ∧
      ∀ x : E, ‖x - p‖ ≤ ‖ProxCGGen.sysRes (2 * scale * lam) A At W y v x‖ := by
  have hc : 0 ≤ 2 * scale * lam := by positivity
  obtain ⟨p, hp⟩ := ProxCGGen.exists_sysRes_zero hc h y v
  exact ⟨p, ProxCGGen.cert_of_sysRes_zero hlam hs h y v p hp, fun x => ProxCGGen.dist_le_norm_sysRes hc h y v x p hp⟩

/-- `NuclearNorm.prox` on the vector of singular values (`s ≥ 0`): `maximum(0, s - lam)` is the prox of the l1 norm -/
theorem C02_nuclear_sv {lam : ℝ} (hlam : 0 < lam) (s : Fin n → ℝ) (hs : ∀ i, 0 ≤ s i) :
    Cert Set.univ (fun x : EuclideanSpace ℝ (Fin n) => ∑ i, |x i|) lam (toE s) (toE (nuclearSvProx s lam)) := by
  have : nuclearSvProx s lam = l1Prox s lam := by
    funext i; exact nuclearSv_eq_l1 hlam (s i) (hs i)
  rw [this]; exact C02_l1 hlam s

/-- `Loss.prox` as coded (`f.prox(v - y, scale*lam) + y`) for ANY wrapped functional whose model prox is certified -/
theorem C02_loss_generic {D : Set (EuclideanSpace ℝ (Fin n))} {f : EuclideanSpace ℝ (Fin n) → ℝ}
    {fprox : (Fin n → ℝ) → ℝ → (Fin n → ℝ)} {lam scale : ℝ} (hs : 0 < scale) (y v : Fin n → ℝ)
    (hf : Cert D f (scale * lam) (toE (fun i => v i - y i)) (toE (fprox (fun i => v i - y i) (scale * lam)))) :
    Cert {x : EuclideanSpace ℝ (Fin n) | x - toE y ∈ D} (fun x => scale * f (x - toE y)) lam (toE v)
      (toE (lossTranslateProx fprox scale y v lam)) := by
  have e : toE (lossTranslateProx fprox scale y v lam) = toE (fprox (fun i => v i - y i) (scale * lam)) + toE y := rfl
  rw [e]
  exact cert_translate hs hf

/-- instance: generic `Loss` wrapping the (non-even) `NonNegativeIndicator`: the constraint `x ≥ y` -/
theorem C02_loss_nonneg {lam scale : ℝ} (hlam : 0 < lam) (hs : 0 < scale) (y v : Fin n → ℝ) :
    Cert {x : EuclideanSpace ℝ (Fin n) | x - toE y ∈ {x : EuclideanSpace ℝ (Fin n) | ∀ i, 0 ≤ x i}}
      (fun _ => scale * 0) lam (toE v) (toE (lossTranslateProx (fun u _ => nonnegProx u) scale y v lam)) :=
  C02_loss_generic (f := fun _ => 0) (fprox := fun u _ => nonnegProx u) hs y v
    (C02_nonneg (mul_pos hs hlam) _)

end Real

/-! ## complex input: `ℂⁿ` as a real inner-product space -/

section Complex
variable {n : Nat}

/-- `L1Norm.prox`, complex input (modulus shrinkage along the phase `v/|v|`) -/
theorem C02_l1_complex {lam : ℝ} (hlam : 0 < lam) (v : Fin n → ℝ × ℝ) :
    Cert Set.univ (fun x : PiLp 2 (fun _ : Fin n => ℂ) => ∑ i, ‖x i‖) lam (toCn v) (toCn (l1ProxC v lam)) := by
  have := cert_pi (F := fun _ : Fin n => ℂ) (v := toCn v) (p := toCn (l1ProxC v lam))
    (fun i => by
      have h := cert_norm hlam (toC (v i))
      rw [← l1ProxC1_eq (v i) hlam] at h
      exact h)
  exact this.congr_dom setOf_forall_univC

/-- `HuberNorm` separable form, complex input -/
theorem C02_huber_sep_complex {lam delta : ℝ} (hlam : 0 < lam) (hd : 0 < delta) (v : Fin n → ℝ × ℝ) :
    Cert Set.univ (fun x : PiLp 2 (fun _ : Fin n => ℂ) => ∑ i, huberFn delta ‖x i‖) lam (toCn v)
      (toCn (huberSepProxC delta v lam)) := by
  have := cert_pi (F := fun _ : Fin n => ℂ) (v := toCn v) (p := toCn (huberSepProxC delta v lam))
    (fun i => by
      have h := cert_huber hlam hd (toC (v i))
      rw [← huberSepProxC1_eq] at h
      exact h)
  exact this.congr_dom setOf_forall_univC

/-- `SquaredL2Loss.prox` with complex diagonal `A`, complex data, weights `w ≥ 0` -/
theorem C02_sqL2loss_diag_complex {lam scale : ℝ} (hlam : 0 < lam) (hs : 0 ≤ scale) (w : Fin n → ℝ)
    (a y v : Fin n → ℝ × ℝ) (hw : ∀ i, 0 ≤ w i) :
    Cert Set.univ (fun x : PiLp 2 (fun _ : Fin n => ℂ) => ∑ i, scale * (w i * ‖toC (y i) - toC (a i) * x i‖ ^ 2))
      lam (toCn v) (toCn (sqL2LossDiagProxC scale w a y v lam)) := by
  have := cert_pi (F := fun _ : Fin n => ℂ) (v := toCn v) (p := toCn (sqL2LossDiagProxC scale w a y v lam))
    (fun i => sqL2loss_1d_complex hlam hs (hw i) (a i) (y i) (v i))
  exact this.congr_dom setOf_forall_univC

end Complex

/-! ## non-convex functionals: global minimisers by direct argument -/

section Nonconvex
variable {n : Nat}

/-- SPEC: number of non-zero entries -/
noncomputable def l0Fn (x : EuclideanSpace ℝ (Fin n)) : ℝ := ∑ i, l0Fn1 (x i)

/-- **`L0Norm.prox` (threshold `|v_i| ≥ lam`, as coded and documented) — exact characterisation:**
    its output is a global minimiser of `lam‖x‖₀ + ½‖x-v‖²` IFF every entry satisfies
    `(lam ≤ |v_i| → 2 lam ≤ v_i²) ∧ (|v_i| < lam → v_i² ≤ 2 lam)`;  in particular for every `v`
    when `lam = 2`, and for no `v` having an entry with `lam ≤ |v_i| < √(2 lam)`. -/
theorem C02_l0_partial {lam : ℝ} (hlam : 0 < lam) (v : Fin n → ℝ) :
    IsGMin Set.univ l0Fn lam (toE v) (toE (l0Prox v lam)) ↔ ∀ i, L0Cond |v i| lam := by
  have hmodel : ∀ i, l0Prox1 (v i) lam = if ‖v i‖ < lam then 0 else v i := fun i => rfl
  constructor
  · intro h i
    have h' : IsGMin {x : EuclideanSpace ℝ (Fin n) | ∀ i, x i ∈ (Set.univ : Set ℝ)}
        (fun x => ∑ i, l0Fn1 (x i)) lam (toE v) (toE (l0Prox v lam)) := h.congr_dom setOf_forall_univ.symm
    have := min_pi_coord (F := fun _ : Fin n => ℝ) h' i
    have h2 : IsGMin Set.univ (l0Fn1 (E := ℝ)) lam (v i) (if ‖v i‖ < lam then 0 else v i) := this
    exact (l0_min_iff hlam (v i)).mp h2
  · intro h
    have := min_pi (F := fun _ : Fin n => ℝ) (v := toE v) (p := toE (l0Prox v lam))
      (D := fun _ => Set.univ) (φ := fun _ => l0Fn1 (E := ℝ))
      (fun i => by
        have := (l0_min_iff hlam (v i)).mpr (h i)
        exact this)
    exact this.congr_dom setOf_forall_univ

/-- **negation with a witness**: `v = 1.2`, `lam = 1` — the code returns `1.2` (objective `1`),
    `x = 0` has objective `0.72`. -/
theorem C02_l0_not_min :
    ¬ IsGMin Set.univ l0Fn (1 : ℝ) (toE (fun _ : Fin 1 => (6 / 5 : ℝ))) (toE (l0Prox (fun _ : Fin 1 => (6 / 5 : ℝ)) 1)) := by
  rw [C02_l0_partial one_pos]
  intro h
  have := (h 0).1 (by rw [abs_of_pos] <;> norm_num)
  rw [abs_of_pos (by norm_num)] at this
  norm_num at this

/-- what the minimiser is: the hard threshold at `v_i² ≥ 2 lam` is optimal for every `v`, `lam > 0` -/
theorem C02_l0_spec {lam : ℝ} (hlam : 0 < lam) (v : Fin n → ℝ) :
    IsGMin Set.univ l0Fn lam (toE v) (toE (fun i => if (v i) ^ 2 < 2 * lam then 0 else v i)) := by
  have := min_pi (F := fun _ : Fin n => ℝ) (v := toE v)
    (p := toE (fun i => if (v i) ^ 2 < 2 * lam then 0 else v i))
    (D := fun _ => Set.univ) (φ := fun _ => l0Fn1 (E := ℝ))
    (fun i => by
      have := l0_spec_min hlam (v i)
      simpa [Real.norm_eq_abs, sq_abs] using this)
  exact this.congr_dom setOf_forall_univ

/-- `L0Norm.prox`, complex input: the same exact characterisation with the modulus -/
theorem C02_l0_complex_partial {lam : ℝ} (hlam : 0 < lam) (v : Fin n → ℝ × ℝ) :
    IsGMin Set.univ (fun x : PiLp 2 (fun _ : Fin n => ℂ) => ∑ i, l0Fn1 (x i)) lam (toCn v) (toCn (l0ProxC v lam))
      ↔ ∀ i, L0Cond ‖toC (v i)‖ lam := by
  constructor
  · intro h i
    have h' := h.congr_dom (setOf_forall_univC (n := n)).symm
    have := min_pi_coord (F := fun _ : Fin n => ℂ) h' i
    rw [toCn_l0ProxC_apply] at this
    exact (l0_min_iff hlam (toC (v i))).mp this
  · intro h
    have := min_pi (F := fun _ : Fin n => ℂ) (v := toCn v) (p := toCn (l0ProxC v lam))
      (D := fun _ => Set.univ) (φ := fun _ => l0Fn1 (E := ℂ))
      (fun i => by
        rw [toCn_l0ProxC_apply]
        exact (l0_min_iff hlam (toC (v i))).mpr (h i))
    exact this.congr_dom setOf_forall_univC

/-- `SquaredL2AbsLoss.prox`, real input: global minimiser of `Σ scale·w_i (y_i - |x_i|)²` (`y ≥ 0`, `w ≥ 0`, zeros allowed) -/
theorem C02_sqL2Abs {lam scale : ℝ} (hlam : 0 < lam) (hs : 0 ≤ scale) (w y v : Fin n → ℝ)
    (hw : ∀ i, 0 ≤ w i) (hy : ∀ i, 0 ≤ y i) :
    IsGMin Set.univ (fun x : EuclideanSpace ℝ (Fin n) => ∑ i, scale * w i * (y i - |x i|) ^ 2) lam (toE v)
      (toE (sqL2AbsProx scale w y v lam)) := by
  have := min_pi (F := fun _ : Fin n => ℝ) (v := toE v) (p := toE (sqL2AbsProx scale w y v lam))
    (D := fun _ => Set.univ) (φ := fun i x => scale * w i * (y i - ‖x‖) ^ 2)
    (fun i => by
      have h := min_sqL2Abs hlam (mul_nonneg hs (hw i)) (hy i) (v i) (1 : ℝ) (by simp)
      have e : toE (sqL2AbsProx scale w y v lam) i =
          if 0 < ‖v i‖ then ((2 * lam * (scale * w i) * y i + ‖v i‖) / (2 * lam * (scale * w i) + 1) / ‖v i‖) • v i
          else ((2 * lam * (scale * w i) * y i + ‖v i‖) / (2 * lam * (scale * w i) + 1)) • (1 : ℝ) := by
        show sqL2AbsProx1 scale (w i) (y i) (v i) lam = _
        unfold sqL2AbsProx1
        simp only [hasAbs_abs, Real.norm_eq_abs, smul_eq_mul, mul_one]
        have e1 : lam * 2 * scale * w i = 2 * lam * (scale * w i) := by ring
        rw [e1]
      rw [e]; exact h)
  exact this.congr_dom setOf_forall_univ

/-- `SquaredL2AbsLoss.prox`, complex input -/
theorem C02_sqL2Abs_complex {lam scale : ℝ} (hlam : 0 < lam) (hs : 0 ≤ scale) (w y : Fin n → ℝ)
    (v : Fin n → ℝ × ℝ) (hw : ∀ i, 0 ≤ w i) (hy : ∀ i, 0 ≤ y i) :
    IsGMin Set.univ (fun x : PiLp 2 (fun _ : Fin n => ℂ) => ∑ i, scale * w i * (y i - ‖x i‖) ^ 2) lam (toCn v)
      (toCn (sqL2AbsProxC scale w y v lam)) := by
  have := min_pi (F := fun _ : Fin n => ℂ) (v := toCn v) (p := toCn (sqL2AbsProxC scale w y v lam))
    (D := fun _ => Set.univ) (φ := fun i x => scale * w i * (y i - ‖x‖) ^ 2)
    (fun i => by
      have h := min_sqL2Abs hlam (mul_nonneg hs (hw i)) (hy i) (toC (v i)) (1 : ℂ) (by simp)
      have e : toCn (sqL2AbsProxC scale w y v lam) i =
          if 0 < ‖toC (v i)‖ then
            ((2 * lam * (scale * w i) * y i + ‖toC (v i)‖) / (2 * lam * (scale * w i) + 1) / ‖toC (v i)‖) • toC (v i)
          else ((2 * lam * (scale * w i) * y i + ‖toC (v i)‖) / (2 * lam * (scale * w i) + 1)) • (1 : ℂ) := by
        show toC (sqL2AbsProxC1 scale (w i) (y i) (v i) lam) = _
        unfold sqL2AbsProxC1
        simp only [cabs_eq]
        have e1 : lam * 2 * scale * w i = 2 * lam * (scale * w i) := by ring
        rw [e1]
        split_ifs
        · rw [toC_cscale]
        · apply Complex.ext <;>
            simp only [toC_re, toC_im, Complex.smul_re, Complex.smul_im, Complex.one_re, Complex.one_im, smul_eq_mul] <;> ring
      rw [e]; exact h)
  exact this.congr_dom setOf_forall_univC

/-- why `SquaredL2AbsLoss` advertises its prox only for data `y ≥ 0` (the `snp.all(y >= 0)` guard of the constructor):
    with `y = -1`, `v = 1/2`, `scale = 1/2`, `w = 1`, `lam = 1` the formula returns `-1/4` (objective `17/16`) while `x = 0`
    has objective `5/8` — the hypothesis `hy` of `C02_sqL2Abs` cannot be dropped. -/
theorem C02_sqL2Abs_negative_y_not_min :
    ¬ IsGMin Set.univ (fun x : EuclideanSpace ℝ (Fin 1) => ∑ i, (1 / 2 : ℝ) * (fun _ => (1 : ℝ)) i * ((fun _ => (-1 : ℝ)) i - |x i|) ^ 2)
        1 (toE (fun _ : Fin 1 => (1 / 2 : ℝ)))
        (toE (sqL2AbsProx (1 / 2) (fun _ : Fin 1 => (1 : ℝ)) (fun _ => -1) (fun _ => 1 / 2) 1)) := by
  intro h
  have h0 := h.2 (toE (fun _ : Fin 1 => (0 : ℝ))) trivial
  have hp : sqL2AbsProx (1 / 2) (fun _ : Fin 1 => (1 : ℝ)) (fun _ => -1) (fun _ => 1 / 2) 1 = fun _ => (-1 / 4 : ℝ) := by
    funext i
    simp only [sqL2AbsProx, sqL2AbsProx1, hasAbs_abs]
    norm_num
  rw [hp] at h0
  simp only [EuclideanSpace.norm_eq, Fin.sum_univ_one, toE_apply, PiLp.sub_apply, Real.norm_eq_abs, sq_abs] at h0
  rw [Real.sq_sqrt (sq_nonneg _), Real.sq_sqrt (sq_nonneg _)] at h0
  norm_num at h0

-- the hypothesis on the value `r` returned by `_dep_cubic_root(p, q)` for one entry is `Scico.ProxCubic.CubicRootOK`
-- (`alpha = 4·lam·scale·w`, `p = (1 - alpha y)/alpha`, `q = -|v|/alpha`): `0 < alpha → 0 ≤ r ∧ r³ + p r + q = 0 ∧ (r = 0 → alpha·y ≤ 1)`

/-- `SquaredL2SquaredAbsLoss.prox`, real input, GIVEN the root relation: global minimiser of `Σ scale·w_i (y_i - |x_i|²)²`,
    weights `w ≥ 0` (zeros allowed), any `y` -/
theorem C02_sqL2SqAbs {lam scale : ℝ} (hlam : 0 < lam) (hs : 0 ≤ scale) (w y v r : Fin n → ℝ)
    (hw : ∀ i, 0 ≤ w i) (hroot : ∀ i, CubicRootOK lam scale (w i) (y i) |v i| (r i)) :
    IsGMin Set.univ (fun x : EuclideanSpace ℝ (Fin n) => ∑ i, scale * w i * (y i - |x i| ^ 2) ^ 2) lam (toE v)
      (toE (sqL2SqAbsProx scale w v lam r)) := by
  have := min_pi (F := fun _ : Fin n => ℝ) (v := toE v) (p := toE (sqL2SqAbsProx scale w v lam r))
    (D := fun _ => Set.univ) (φ := fun i x => scale * w i * (y i - ‖x‖ ^ 2) ^ 2)
    (fun i => by
      show IsGMin Set.univ _ lam (v i) (sqL2SqAbsProx1 scale (w i) (v i) lam (r i))
      rw [sqL2SqAbsProx1_eq]
      exact min_sqL2SqAbs_entry hlam hs (hw i) (v i) (1 : ℝ) (by simp) (hroot i))
  exact this.congr_dom setOf_forall_univ

/-- `SquaredL2SquaredAbsLoss.prox`, complex input, given the root relation -/
theorem C02_sqL2SqAbs_complex {lam scale : ℝ} (hlam : 0 < lam) (hs : 0 ≤ scale) (w y : Fin n → ℝ)
    (v : Fin n → ℝ × ℝ) (r : Fin n → ℝ) (hw : ∀ i, 0 ≤ w i)
    (hroot : ∀ i, CubicRootOK lam scale (w i) (y i) ‖toC (v i)‖ (r i)) :
    IsGMin Set.univ (fun x : PiLp 2 (fun _ : Fin n => ℂ) => ∑ i, scale * w i * (y i - ‖x i‖ ^ 2) ^ 2) lam (toCn v)
      (toCn (sqL2SqAbsProxC scale w v lam r)) := by
  have := min_pi (F := fun _ : Fin n => ℂ) (v := toCn v) (p := toCn (sqL2SqAbsProxC scale w v lam r))
    (D := fun _ => Set.univ) (φ := fun i x => scale * w i * (y i - ‖x‖ ^ 2) ^ 2)
    (fun i => by
      show IsGMin Set.univ _ lam (toC (v i)) (toC (sqL2SqAbsProxC1 scale (w i) (v i) lam (r i)))
      rw [toC_sqL2SqAbsProxC1_eq]
      exact min_sqL2SqAbs_entry hlam hs (hw i) (toC (v i)) (1 : ℂ) (by simp) (hroot i))
  exact this.congr_dom setOf_forall_univC

/-- **`_dep_cubic_root` as coded** (complex square root, `_cbrt` with the principal complex power, `Re(w - p/(3w))`): for
    `q ≤ 0` and `p` outside the band `0 < |p| ≤ eps` (`eps` = the literal `1e-7`) the returned value is a non-negative root of
    `r³ + p r + q`, and `0` only if `p ≥ 0` — in all three regimes (`p = 0`; `Δ ≥ 0`: Cardano; `Δ < 0`: trigonometric). -/
theorem C02_cubic_root {eps p q : ℝ} (heps : 0 ≤ eps) (hq : q ≤ 0) (hband : p = 0 ∨ eps < |p|) :
    0 ≤ depCubicRoot eps p q ∧ depCubicRoot eps p q ^ 3 + p * depCubicRoot eps p q + q = 0 ∧
      (depCubicRoot eps p q = 0 → 0 ≤ p) := depCubicRoot_ok heps hq hband

/-- inside the band the code's value is in general NOT a root (documented compromise of `_dep_cubic_root`):
    `p = eps`, `q = -1` leaves the residual `-eps³/27 ≠ 0` -/
theorem C02_cubic_root_band_not_root {eps : ℝ} (heps : 0 < eps) :
    depCubicRoot eps eps (-1) ^ 3 + eps * depCubicRoot eps eps (-1) + (-1) ≠ 0 := by
  rw [depCubicRoot_band_residual heps]
  have : 0 < eps ^ 3 / 27 := by positivity
  linarith

/-- **the error of `_dep_cubic_root` inside its band, quantified**: for `q < 0` and `|p| ≤ eps` the residual of the cubic at the
    returned value is EXACTLY `p³/(27 q)`, so `|r³ + p r + q| ≤ eps³/(27|q|)` (`eps = 1e-7`: `≤ 3.8e-23/|q|`) -/
theorem C02_cubic_root_band_residual {eps p q : ℝ} (hq : q < 0) (hp : |p| ≤ eps) :
    depCubicRoot eps p q ^ 3 + p * depCubicRoot eps p q + q = p ^ 3 / (27 * q) ∧
      |depCubicRoot eps p q ^ 3 + p * depCubicRoot eps p q + q| ≤ eps ^ 3 / (27 * |q|) :=
  ⟨depCubicRoot_band_residual_eq hq hp, depCubicRoot_band_residual_le hq hp⟩

/-- inside the band at `q = 0` (`v_i = 0`) the code returns `0`; it is a root, and for `p < 0` it misses the minimising radius
    `√(-p)` by at most `√eps` -/
theorem C02_cubic_root_band_zero {eps p : ℝ} (hp : |p| ≤ eps) :
    depCubicRoot eps p 0 = 0 ∧ (p < 0 → √(-p) ≤ √eps) :=
  ⟨depCubicRoot_band_zero hp, fun hneg => Real.sqrt_le_sqrt (by rw [abs_of_neg hneg] at hp; exact hp)⟩

/-- **`SquaredL2SquaredAbsLoss.prox` with the root computed by the code's closed form** (no relation assumed), real input:
    global minimiser whenever no entry falls into the band `0 < |p_i| ≤ eps` of `_dep_cubic_root` -/
theorem C02_sqL2SqAbs_closed {eps lam scale : ℝ} (heps : 0 ≤ eps) (hlam : 0 < lam) (hs : 0 ≤ scale)
    (w y v : Fin n → ℝ) (hw : ∀ i, 0 ≤ w i)
    (hband : ∀ i, 0 < lam * 4 * scale * w i →
      depCubicP scale (w i) (y i) lam = 0 ∨ eps < |depCubicP scale (w i) (y i) lam|) :
    IsGMin Set.univ (fun x : EuclideanSpace ℝ (Fin n) => ∑ i, scale * w i * (y i - |x i| ^ 2) ^ 2) lam (toE v)
      (toE (sqL2SqAbsProxFull eps scale w y v lam)) :=
  C02_sqL2SqAbs hlam hs w y v
    (fun i => depCubicRoot eps (depCubicP scale (w i) (y i) lam) (depCubicQ scale (w i) |v i| lam)) hw
    (fun i => cubicRootOK_model heps (abs_nonneg _) (hband i))

/-- the same for complex input -/
theorem C02_sqL2SqAbs_closed_complex {eps lam scale : ℝ} (heps : 0 ≤ eps) (hlam : 0 < lam) (hs : 0 ≤ scale)
    (w y : Fin n → ℝ) (v : Fin n → ℝ × ℝ) (hw : ∀ i, 0 ≤ w i)
    (hband : ∀ i, 0 < lam * 4 * scale * w i →
      depCubicP scale (w i) (y i) lam = 0 ∨ eps < |depCubicP scale (w i) (y i) lam|) :
    IsGMin Set.univ (fun x : PiLp 2 (fun _ : Fin n => ℂ) => ∑ i, scale * w i * (y i - ‖x i‖ ^ 2) ^ 2) lam (toCn v)
      (toCn (sqL2SqAbsProxFullC eps scale w y v lam)) :=
  C02_sqL2SqAbs_complex hlam hs w y v
    (fun i => depCubicRoot eps (depCubicP scale (w i) (y i) lam) (depCubicQ scale (w i) (cabs (v i)) lam)) hw
    (fun i => by rw [← cabs_eq]; exact cubicRootOK_model heps (by rw [cabs_eq]; exact norm_nonneg _) (hband i))

-- SPEC of the L1-L2 functional: `Scico.ProxL1L2.l1l2Fn beta x = ∑ i, |x i| - beta * ‖x‖`

/-- **`L1MinusL2Norm.prox`** (real input, EVERY `beta ≥ 0`, EVERY `v`): the formula of the code — the four `where`
    branches and the `v = 0` case as repaired in cda1690 — is a global minimiser of `lam(‖x‖₁ - beta‖x‖₂) + ½‖x-v‖²`.
    (Before cda1690 the code returned `0` for `v = 0`, which is not a minimiser when `beta > 1`: `beta = 2`, `lam = 1`
    gives objective `0` against `-½` at `e₁`.) -/
theorem C02_l1l2 {lam beta : ℝ} (hlam : 0 < lam) (hb : 0 ≤ beta) (v : Fin n → ℝ) :
    IsGMin Set.univ (l1l2Fn beta) lam (toE v) (toE (l1l2Prox beta v lam)) := l1l2_min hlam hb v

/-- **`L1MinusL2Norm.prox`, complex input**: the code works with the moduli and phases of `v` only
    (`l1l2ProxC` = the real map on `|v|`, times the phases); it is a global minimiser of
    `lam(Σ|x_i| - beta‖x‖₂) + ½‖x-v‖²` on `ℂⁿ`, for every `beta ≥ 0` and every `v`. -/
theorem C02_l1l2_complex {lam beta : ℝ} (hlam : 0 < lam) (hb : 0 ≤ beta) (v : Fin n → ℝ × ℝ) :
    IsGMin Set.univ (l1l2FnC beta) lam (toCn v) (toCn (l1l2ProxC beta v lam)) := l1l2_min_complex hlam hb v

end Nonconvex

/-! ## nuclear norm: the matrix problem (not only the singular values) -/

section Nuclear
variable {m n k : ℕ}

/-- **`NuclearNorm.prox` on `m × n` real matrices.**  `U`, `s`, `Vh` are what `svd(v, full_matrices=False)` returned
    (CONTRACT, checked numerically by the tie on every case: orthonormal columns of `U`, orthonormal rows of `Vh`, `s ≥ 0`,
    `v = U diag(s) Vh`).  The nuclear norm is specified as the dual of the operator norm (`nucDual`, no SVD in its definition;
    `C02_nuclear_norm_is_sum_sv`: it is the sum of the singular values wherever an SVD exists).  Then
    `svdU @ diag(maximum(0, svdS - lam)) @ svdV` carries the sub-gradient certificate — hence is THE minimiser of
    `lam‖X‖_* + ½‖X - v‖_F²`, firmly non-expansive.  Neither the existence of SVDs of other matrices nor a trace inequality
    (von Neumann) is assumed: the proof needs Bessel and Cauchy–Schwarz only. -/
theorem C02_nuclear {lam : ℝ} (hlam : 0 < lam) (U : Fin m → Fin k → ℝ) (s : Fin k → ℝ) (Vh : Fin k → Fin n → ℝ)
    (hU : Orthonormal ℝ (colE U)) (hV : Orthonormal ℝ (rowE Vh)) (hs : ∀ l, 0 ≤ s l) :
    Cert Set.univ (nucDual ℝ (outerM (m := m) (n := n))) lam (matE (usvMat U s Vh)) (matE (nuclearProx U s Vh lam)) := by
  have e1 : usvMat U s Vh = fun i j => ∑ l, U i l * s l * Vh l j := by
    funext i j; exact vsum_eq _
  have e2 : nuclearProx U s Vh lam = fun i j => ∑ l, U i l * max 0 (s l - lam) * Vh l j := by
    funext i j
    unfold nuclearProx nuclearSvProx
    rw [vsum_eq]
    simp only [maxP_eq]
  rw [e1, e2]
  exact cert_nuclear_matrix_dual hlam U s Vh hU hV hs

/-- **`NuclearNorm.prox` on complex matrices** (real inner product `Re tr(AᴴB)`): the same statement; `u_l` are the columns of
    `U`, `w_l` the conjugated rows of `Vh` (so that `U diag(s) Vh = Σ s_l u_l w_lᴴ`) -/
theorem C02_nuclear_complex {lam : ℝ} (hlam : 0 < lam) (U : Fin m → Fin k → ℝ × ℝ) (s : Fin k → ℝ)
    (Vh : Fin k → Fin n → ℝ × ℝ)
    (hU : Orthonormal ℂ (colC (fun i l => toC (U i l)))) (hV : Orthonormal ℂ (rowConjC (fun l j => toC (Vh l j))))
    (hs : ∀ l, 0 ≤ s l) :
    Cert Set.univ (nucDual ℂ (outerC (m := m) (n := n))) lam (matC (fun i j => toC (usvMatC U s Vh i j)))
      (matC (fun i j => toC (nuclearProxC U s Vh lam i j))) := by
  have key : ∀ t : Fin k → ℝ, (fun i j => toC ((∑ l, t l * (cmul (U i l) (Vh l j)).1, ∑ l, t l * (cmul (U i l) (Vh l j)).2)))
      = fun i j => ∑ l, ((t l : ℝ) : ℂ) * (toC (U i l) * toC (Vh l j)) := by
    intro t
    funext i j
    apply Complex.ext
    · simp only [toC_re, toC_im, Complex.re_sum, Complex.mul_re, Complex.mul_im, Complex.ofReal_re, Complex.ofReal_im, cmul]
      refine Finset.sum_congr rfl fun l _ => ?_
      ring
    · simp only [toC_re, toC_im, Complex.im_sum, Complex.mul_re, Complex.mul_im, Complex.ofReal_re, Complex.ofReal_im, cmul]
      refine Finset.sum_congr rfl fun l _ => ?_
      ring
  have e1 : (fun i j => toC (usvMatC U s Vh i j)) = fun i j => ∑ l, ((s l : ℝ) : ℂ) * (toC (U i l) * toC (Vh l j)) := by
    rw [← key s]; funext i j; simp only [usvMatC, vsum_eq]
  have e2 : (fun i j => toC (nuclearProxC U s Vh lam i j))
      = fun i j => ∑ l, ((max 0 (s l - lam) : ℝ) : ℂ) * (toC (U i l) * toC (Vh l j)) := by
    rw [← key (fun l => max 0 (s l - lam))]; funext i j
    simp only [nuclearProxC, nuclearSvProx, vsum_eq, maxP_eq]
  rw [e1, e2]
  exact cert_nuclear_matrixC_dual hlam _ s _ hU hV hs

/-- the specification `nucDual` (dual of the operator norm) IS the sum of the singular values on every matrix that has a thin
    SVD — i.e. the value `NuclearNorm.__call__` computes, `sum(svd(x, compute_uv=False))` -/
theorem C02_nuclear_norm_is_sum_sv {Z : MatE m n} {u : Fin k → EuclideanSpace ℝ (Fin m)} {s : Fin k → ℝ}
    {w : Fin k → EuclideanSpace ℝ (Fin n)} (h : IsSVD ℝ outerM Z u s w) :
    nucDual ℝ (outerM (m := m) (n := n)) Z = ∑ i, s i := nucDual_eq_sum_sv isOuter_outerM h

/-- the sum of the singular values is independent of the thin SVD chosen (what makes "the nuclear norm" of the code,
    `sum(svd(x, compute_uv=False))`, a function of the matrix) -/
theorem C02_nuclear_sum_sv_unique {k' : ℕ} {Z : MatE m n} {u : Fin k → EuclideanSpace ℝ (Fin m)} {s : Fin k → ℝ}
    {w : Fin k → EuclideanSpace ℝ (Fin n)} {u' : Fin k' → EuclideanSpace ℝ (Fin m)} {s' : Fin k' → ℝ}
    {w' : Fin k' → EuclideanSpace ℝ (Fin n)} (h : IsSVD ℝ outerM Z u s w) (h' : IsSVD ℝ outerM Z u' s' w') :
    ∑ i, s i = ∑ j, s' j := sum_sv_unique isOuter_outerM h h'

end Nuclear

/-! ## complex phase, block arrays -/

section PhaseBlock

/-- the phase factor of the code, `exp(1j * angle(v))`, is the model's `cphase v` (`v/|v|`, `1` at `v = 0`) -/
theorem C02_phase (z : ℝ × ℝ) :
    toC (cphase z) = Complex.exp (Complex.I * (Complex.arg (toC z) : ℂ)) := cphase_eq_exp z

variable {B : ℕ} {sz : Fin B → ℕ}

/-- `L1Norm.prox` on a block array (`BlockArray` = product space of its blocks): block-wise soft threshold -/
theorem C02_block_l1 {lam : ℝ} (hlam : 0 < lam) (v : ∀ b : Fin B, Fin (sz b) → ℝ) :
    Cert Set.univ (fun x : PiLp 2 (fun b : Fin B => EuclideanSpace ℝ (Fin (sz b))) => ∑ b, ∑ i, |x b i|) lam
      (toLp 2 (fun b => toE (v b))) (toLp 2 (fun b => toE (l1Prox (v b) lam))) := by
  have := C02_separable (F := fun b : Fin B => EuclideanSpace ℝ (Fin (sz b))) (D := fun _ => Set.univ)
    (φ := fun b x => ∑ i, |x i|) (lam := lam) (v := toLp 2 (fun b => toE (v b)))
    (p := toLp 2 (fun b => toE (l1Prox (v b) lam))) (fun b => C02_l1 hlam (v b))
  exact this.congr_dom (by ext; simp)

/-- `L21Norm(l2_axis=None).prox` on a block array: the functional is the sum of the block norms, the prox shrinks every
    block radially (`new_length · v_b/‖v_b‖`, and `0` for a zero block) -/
theorem C02_block_l21 {lam : ℝ} (hlam : 0 < lam) (v : PiLp 2 (fun b : Fin B => EuclideanSpace ℝ (Fin (sz b)))) :
    Cert Set.univ (fun x : PiLp 2 (fun b : Fin B => EuclideanSpace ℝ (Fin (sz b))) => ∑ b, ‖x b‖) lam v
      (toLp 2 (fun b => (if ‖v b‖ = 0 then 0 else max (1 - lam / ‖v b‖) 0) • v b)) := by
  have := C02_separable (F := fun b : Fin B => EuclideanSpace ℝ (Fin (sz b))) (D := fun _ => Set.univ)
    (φ := fun b x => ‖x‖) (lam := lam) (v := v)
    (p := toLp 2 (fun b => (if ‖v b‖ = 0 then 0 else max (1 - lam / ‖v b‖) 0) • v b))
    (fun b => C02_l2_general hlam (v b))
  exact this.congr_dom (by ext; simp)

end PhaseBlock

/-! ## parameter edge cases: what the code does outside the documented parameter range, and whether it still minimises -/

section Edge
variable {n : ℕ}

/-- `L2BallIndicator(radius=0)`: for `v ≠ 0` the code returns `0`, the projection onto `{0}` (at `v = 0`: `0/0`, NaN) -/
theorem C02_l2ball_zero_radius {lam : ℝ} (v : Fin n → ℝ) (hv : toE v ≠ 0) :
    Cert {x : EuclideanSpace ℝ (Fin n) | ‖x‖ ≤ 0} (fun _ => 0) lam (toE v) (toE (l2ballProx 0 v)) :=
  cert_ball_zero_radius v hv

/-- `L2BallIndicator(radius<0)`: the domain is empty — nothing can be a minimiser — and the code returns a point of norm `-radius` -/
theorem C02_l2ball_negative_radius {rad : ℝ} (hr : rad < 0) (v : Fin n → ℝ) (hv : toE v ≠ 0) :
    {x : EuclideanSpace ℝ (Fin n) | ‖x‖ ≤ rad} = ∅ ∧ ‖toE (l2ballProx rad v)‖ = -rad := ball_negative_radius hr v hv

/-- `HuberNorm(delta<0, separable=False)`, `v ≠ 0`: the functional is concave in `‖x‖` but the objective is still minimised by the
    code's formula (`v` pushed outwards by `-delta·lam`) -/
theorem C02_huber_nonsep_negative_delta {lam delta : ℝ} (hlam : 0 < lam) (hd : delta < 0) (v : Fin n → ℝ) (hv : toE v ≠ 0) :
    IsGMin Set.univ (fun x : EuclideanSpace ℝ (Fin n) => huberFn delta ‖x‖) lam (toE v) (toE (huberNonsepProx delta v lam)) :=
  min_huber_negative_delta hlam hd v hv

/-- `SquaredL2Loss` (diagonal `A`) with ANY sign of `scale` and of the weights: the formula is the global minimiser as long as every
    denominator `1 + 2·scale·lam·w_i·a_i²` is positive (no convexity of the loss itself is needed) -/
theorem C02_sqL2loss_diag_anyscale {lam scale : ℝ} (w a y v : Fin n → ℝ)
    (hden : ∀ i, 0 < 2 * scale * lam * a i * w i * a i + 1) :
    IsGMin Set.univ (fun x : EuclideanSpace ℝ (Fin n) => ∑ i, scale * (w i * (y i - a i * x i) ^ 2)) lam (toE v)
      (toE (sqL2LossDiagProx scale w a y v lam)) := min_sqL2loss_diag_anyscale w a y v hden

/-- with a negative denominator it is not (witness `scale = -1`, `w = a = lam = 1`, `y = v = 0`: returns `0`, but `x = 1` has objective `-½`) -/
theorem C02_sqL2loss_diag_negscale_not_min :
    ¬ IsGMin Set.univ (fun x : EuclideanSpace ℝ (Fin 1) => ∑ i, (-1 : ℝ) * ((fun _ => (1 : ℝ)) i * ((fun _ => (0 : ℝ)) i - (fun _ => (1 : ℝ)) i * x i) ^ 2))
        1 (toE (fun _ : Fin 1 => (0 : ℝ)))
        (toE (sqL2LossDiagProx (-1) (fun _ : Fin 1 => (1 : ℝ)) (fun _ => 1) (fun _ => 0) (fun _ => 0) 1)) :=
  sqL2loss_diag_negscale_not_min

end Edge

/-! ## non-finite entries (`±inf`, `NaN`): what the entry-wise proxes return (model at the IEEE-extended scalar `XR ℚ`) -/

section NonFinite
open Scico.StepSize Scico.ProxXR

/-- `L1Norm.prox`: an infinite entry stays infinite (the minimiser of `lam|x| + ½(x-v)²` escapes with `v`), a NaN entry stays NaN -/
theorem C02_nonfinite_l1 (lam : Rat) :
    l1Prox1 (XR.pinf : X) (XR.fin lam) = XR.pinf ∧ l1Prox1 (XR.ninf : X) (XR.fin lam) = XR.ninf ∧
      l1Prox1 (XR.nan : X) (XR.fin lam) = XR.nan := ⟨l1_pinf lam, l1_ninf lam, l1_nan lam⟩

/-- `NonNegativeIndicator.prox`: `+inf ↦ +inf`, `-inf ↦ 0`, `NaN ↦ NaN` (`jnp.maximum` propagates NaN); finite entries as over `ℚ` -/
theorem C02_nonfinite_nonneg (a : Rat) :
    nonnegProx1 (XR.pinf : X) = XR.pinf ∧ nonnegProx1 (XR.ninf : X) = (0 : X) ∧ nonnegProx1 (XR.nan : X) = XR.nan ∧
      nonnegProx1 (XR.fin a : X) = XR.fin (nonnegProx1 a) := ⟨nonneg_pinf, nonneg_ninf, nonneg_nan, nonneg_fin a⟩

/-- `HuberNorm` (separable): `±inf ↦ ±inf`, `NaN ↦ NaN`, for every finite `delta`, `lam` -/
theorem C02_nonfinite_huber_sep (delta lam : Rat) :
    huberSepProx1 (XR.fin delta) (XR.pinf : X) (XR.fin lam) = XR.pinf ∧
      huberSepProx1 (XR.fin delta) (XR.ninf : X) (XR.fin lam) = XR.ninf ∧
      huberSepProx1 (XR.fin delta) (XR.nan : X) (XR.fin lam) = XR.nan := ⟨huber_pinf delta lam, huber_ninf delta lam, huber_nan delta lam⟩

/-- `SquaredL2Norm.prox`: `±inf ↦ ±inf` (`lam > 0`), `NaN ↦ NaN` -/
theorem C02_nonfinite_sqL2 {lam : Rat} (hlam : 0 < lam) :
    sqL2Prox1 (XR.pinf : X) (XR.fin lam) = XR.pinf ∧ sqL2Prox1 (XR.ninf : X) (XR.fin lam) = XR.ninf ∧
      sqL2Prox1 (XR.nan : X) (XR.fin lam) = XR.nan := ⟨(sqL2_inf hlam).1, (sqL2_inf hlam).2, sqL2_nan lam⟩

/-- `L0Norm.prox` (`where(|v| >= lam, v, 0)`, transcription `l0Prox1X`): a NaN entry fails the comparison and is replaced by `0`
    — the NaN is silently dropped —, `±inf` is kept, and on finite entries it is the main model `l0Prox1` -/
theorem C02_nonfinite_l0 (a lam : Rat) :
    l0Prox1X (XR.nan : X) (XR.fin lam) = (0 : X) ∧ l0Prox1X (XR.pinf : X) (XR.fin lam) = XR.pinf ∧
      l0Prox1X (XR.ninf : X) (XR.fin lam) = XR.ninf ∧
      l0Prox1X (XR.fin a : X) (XR.fin lam) = l0Prox1 (XR.fin a : X) (XR.fin lam) := ⟨l0_nan lam, l0_pinf lam, l0_ninf lam, l0_fin a lam⟩

end NonFinite

/-! ## the flags: a prox is advertised only where the theorems above apply -/

section Guards

/-- `SquaredL2AbsLoss` / `SquaredL2SquaredAbsLoss` advertise a prox exactly when the constructor accepted the weights
    (`W` absent or a non-negative `Diagonal` — hypothesis `hw`), `A` is the identity and the data are non-negative
    (hypothesis `hy` of `C02_sqL2Abs`, shown necessary by `C02_sqL2Abs_negative_y_not_min`) -/
theorem C02_guard_abs (w : WArg) (a : AArg) (yn : Bool) :
    absLossGuard w a yn = .hasProxClosed ↔
      (w = .none ∨ w = .diagNonneg) ∧ (a = .none ∨ a = .identity) ∧ yn = true := by
  cases w <;> cases a <;> cases yn <;> simp [absLossGuard, wGuard]

/-- `SquaredL2Loss` uses the closed form of `C02_sqL2loss_diag` exactly for accepted weights and `A` absent / identity /
    diagonal; every other linear operator goes to conjugate gradient (not exact: outside C02), a non-linear one has no prox -/
theorem C02_guard_sqL2 (w : WArg) (a : AArg) :
    (sqL2LossGuard w a = .hasProxClosed ↔
      (w = .none ∨ w = .diagNonneg) ∧ (a = .none ∨ a = .identity ∨ a = .diagonal)) ∧
    (sqL2LossGuard w a = .hasProxCG ↔ (w = .none ∨ w = .diagNonneg) ∧ a = .otherLinop) := by
  cases w <;> cases a <;> simp [sqL2LossGuard, wGuard]

end Guards

/-! ## non-vacuity: the hypotheses are satisfiable on concrete, non-trivial instances, and the
    theorems say something about concrete numbers -/

section Examples

-- soft threshold of (3, -1/2): (2, 0) — and this point is THE minimiser
example : l1Prox (fun i : Fin 2 => if i = 0 then (3 : ℝ) else -1 / 2) 1 0 = 2 := by
  simp [l1Prox, l1Prox1, Prox.posPart, sign]; norm_num
example : IsProx Set.univ (fun x : EuclideanSpace ℝ (Fin 2) => ∑ i, |x i|) 1
    (toE (fun i : Fin 2 => if i = 0 then (3 : ℝ) else -1 / 2))
    (toE (l1Prox (fun i : Fin 2 => if i = 0 then (3 : ℝ) else -1 / 2) 1)) :=
  C02_prox_of_cert one_pos (C02_l1 one_pos _)
-- the L0 condition holds for lam = 2 and every t (so C02_l0_partial is not vacuous) and fails at t = 6/5, lam = 1
example (t : ℝ) (ht : 0 ≤ t) : L0Cond t 2 := ⟨fun h => by nlinarith, fun h => by nlinarith⟩
example : ¬ L0Cond (6 / 5) 1 := fun h => by have := h.1 (by norm_num); norm_num at this
-- a projector satisfying the obtuse-angle hypothesis: the non-negative orthant in ℝ (P x = max x 0)
example (x : ℝ) : IsProjAt (Set.Ici (0 : ℝ)) x (max x 0) := by
  refine ⟨Set.mem_Ici.mpr (le_max_right _ _), fun z hz => ?_⟩
  have hz' : (0 : ℝ) ≤ z := hz
  simp only [RCLike.inner_apply, conj_trivial]
  rcases le_total x 0 with h | h
  · rw [max_eq_right h]; nlinarith
  · rw [max_eq_left h]; simp
-- the root hypothesis of C02_sqL2SqAbs is satisfiable: lam = 1/4, scale = 1, w = 1 (alpha = 1), y = 0, |v| = 2, r = 1
example : CubicRootOK (1 / 4) 1 1 0 2 1 := by
  intro _
  refine ⟨by norm_num, ?_, by norm_num⟩
  simp [depCubicP, depCubicQ, noNanDiv_eq]; norm_num
-- generic Loss around the non-negative indicator: v = -1, y = 2 gives max(v, y) = 2 (not min, not y - max(y - v, 0) = -1)
example : lossTranslateProx (fun u _ => nonnegProx u) (1 : ℝ) (fun _ : Fin 1 => 2) (fun _ => -1) 1 0 = 2 := by
  simp [lossTranslateProx, nonnegProx, nonnegProx1, maxP]; norm_num
-- C02_l1l2 at a concrete point of the one-sparse branch: v = (1, 1/2), lam = 1, beta = 1 gives (1, 0)
example : l1l2Fn 1 (toE (fun i : Fin 2 => if i = 0 then (1 : ℝ) else 0)) = 0 := by
  unfold l1l2Fn
  have h := norm_onesparse (n := 2) 0 (1 : ℝ)
  rw [h]; simp

-- the root relation is DISCHARGED by the model of `_dep_cubic_root` there (no assumption left): alpha = 1, y = 0, |v| = 2
example : CubicRootOK (1 / 4) 1 1 0 2 (depCubicRoot (1 / 10 ^ 7) (depCubicP 1 1 0 (1 / 4)) (depCubicQ 1 1 2 (1 / 4))) :=
  cubicRootOK_model (by positivity) (by norm_num) (fun _ => by
    right
    have : depCubicP (1 : ℝ) 1 0 (1 / 4) = 1 := by simp [depCubicP, noNanDiv_eq]
    rw [this]; norm_num)
-- hypotheses of C02_nuclear on a concrete SVD: U = Vh = identity (2×2), s = (3, 1)
example : Orthonormal ℝ (colE (fun i l : Fin 2 => if i = l then (1 : ℝ) else 0)) := by
  rw [orthonormal_iff_ite]
  intro i j
  fin_cases i <;> fin_cases j <;> simp [colE, PiLp.inner_apply, EuclideanSpace.norm_eq]

-- thin SVDs in the sense of `IsSVD` exist: every 1 × 1 matrix z is |z| · (1)(sign z)ᵀ (the hypotheses of C02_nuclear_norm_is_sum_sv)
example : ∀ Z : MatE 1 1, ∃ (k : ℕ) (u : Fin k → EuclideanSpace ℝ (Fin 1)) (s : Fin k → ℝ)
    (w : Fin k → EuclideanSpace ℝ (Fin 1)), IsSVD ℝ outerM Z u s w := by
  intro Z
  refine ⟨1, fun _ => toLp 2 (fun _ => 1), fun _ => |Z (0, 0)|,
    fun _ => toLp 2 (fun _ => if Z (0, 0) < 0 then -1 else 1), ?_, ?_, fun _ => abs_nonneg _, ?_⟩
  · rw [orthonormal_iff_ite]; intro i j
    fin_cases i; fin_cases j; simp [EuclideanSpace.norm_eq]
  · rw [orthonormal_iff_ite]; intro i j
    fin_cases i; fin_cases j
    by_cases h : Z (0, 0) < 0 <;> simp [EuclideanSpace.norm_eq, h]
  · ext ij
    obtain ⟨a, b⟩ := ij
    fin_cases a; fin_cases b
    by_cases h : Z (0, 0) < 0
    · simp [outerM, h, abs_of_neg h]
    · simp [outerM, h, abs_of_nonneg (not_lt.mp h)]

-- the band hypothesis of C02_sqL2SqAbs_closed on a concrete entry: lam = 1/4, scale = w = 1 (alpha = 1), y = 0 gives p = 1
example : depCubicP (1 : ℝ) 1 0 (1 / 4) = 0 ∨ (1 / 10 ^ 7 : ℝ) < |depCubicP (1 : ℝ) 1 0 (1 / 4)| := by
  right
  have : depCubicP (1 : ℝ) 1 0 (1 / 4) = 1 := by simp [depCubicP, noNanDiv_eq]
  rw [this]; norm_num

-- L21 on shape (2,3), l2_axis = 0: columns are the groups (entries 1 = (0,1) and 4 = (1,1) together, 1 and 2 apart)
example : axisGroup [2, 3] [0] 1 = axisGroup [2, 3] [0] 4 ∧ axisGroup [2, 3] [0] 1 ≠ axisGroup [2, 3] [0] 2 := by decide
-- the projector hypothesis of C02_setdist / C02_sqsetdist in ℝⁿ: the non-negative orthant, P x = max(x, 0) entry-wise
example {n : ℕ} (x : Fin n → ℝ) :
    IsProjAt {z : EuclideanSpace ℝ (Fin n) | ∀ i, 0 ≤ z i} (toE x) (toE (fun i => max (x i) 0)) := by
  refine ⟨fun i => le_max_right _ _, fun z hz => ?_⟩
  rw [inner_toE]
  refine Finset.sum_nonpos fun i _ => ?_
  have hzi : 0 ≤ z i := hz i
  simp only [PiLp.sub_apply, toE_apply]
  rcases le_total (x i) 0 with h | h
  · rw [max_eq_right h]; nlinarith
  · rw [max_eq_left h]; simp
-- C02_sqL2loss_normal_eq on numbers: A = (1 1) (1×2), w = 1, y = 3, scale = 1/2, lam = 1, v = (0, 0): the system (I + AᵀA) p = Aᵀy has p = (1, 1)
example : ∀ j, sqL2LossSysResidual (1 / 2 : ℝ) (fun _ : Fin 1 => 1) (fun _ _ => (1 : ℝ)) (fun _ => 3) (fun _ : Fin 2 => 0) (fun _ => 1) 1 j = 0 := by
  intro j
  simp only [sqL2LossSysResidual, matTVec, matVec, vsum_eq, Fin.sum_univ_one, Fin.sum_univ_two]
  norm_num
-- the denominator hypothesis of C02_sqL2loss_diag_anyscale with a NEGATIVE scale: scale = -1/4, lam = w = a = 1 gives 1/2 > 0
example : (0 : ℝ) < 2 * (-1 / 4) * 1 * 1 * 1 * 1 + 1 := by norm_num
-- the hypothesis `SysData` of C02_sqL2loss_cg_general on COMPLEX data: `A` = multiplication by `a ∈ ℂ` (real-linear), `At` = multiplication by
-- `conj a` (adjoint for `Re⟨·,·⟩`), `W` = identity
example (a : ℂ) : ProxCGGen.SysData (LinearMap.mulLeft ℝ a) (LinearMap.mulLeft ℝ ((starRingEnd ℂ) a)) (LinearMap.id : ℂ →ₗ[ℝ] ℂ) := by
  refine ⟨fun u d => ?_, fun _ _ => rfl, fun u => real_inner_self_nonneg⟩
  simp only [LinearMap.mulLeft_apply, Complex.inner, map_mul, Complex.conj_conj]
  ring_nf
end Examples

end Scico.Props.C02
