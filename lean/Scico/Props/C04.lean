/-
  Property C04 — built-in operators compute exactly their documented mathematical maps.
  ONLY property theorems (and non-vacuity examples) here; models in `Scico/Model/LinOps.lean`,
  lemmas in `Scico/Proofs/LinOps*.lean`.

  Every theorem has the form  "the map as the code builds it" = "the documented matrix · x"
  (or an exact identity of the documented map), for all sizes, all options, all vectors.
  `K` is any commutative ring (so `ℤ`, `ℚ`, `ℝ`, `ℂ`), a field where division is needed.
-/
import Scico.Proofs.LinOps2
import Scico.Proofs.LinOps3
import Scico.Proofs.LinOps4
import Scico.Proofs.LinOps5
import Scico.Proofs.LinOps6
import Scico.Proofs.LinOps7
import Scico.Proofs.LinOps8
import Scico.Proofs.LinOps9
import Scico.Proofs.LinOps10
import Scico.Proofs.LinOps11
import Scico.Proofs.LinOps12
import Scico.Proofs.LinOps13
import Scico.Proofs.LinOps14
import Scico.Proofs.LinOps15
import Scico.Proofs.LinOps16
import Scico.Proofs.LinOps17
import Mathlib.Data.Complex.Basic
import Mathlib.Tactic.NormNum

namespace Scico.Props.C04
open Scico.LinOps Scico.Shape

variable {K : Type} [CommRing K]

/-! ### finite differences -/

/-- `SingleAxisFiniteDifference` (`diff` after prepending / appending a slice or a zero, or the
    circular wrap) is multiplication by the banded matrix of the class docstring, for each of the
    3×3 `prepend`/`append` options and `circular`, every length `n ≥ 1`, every output row. -/
theorem C04_fd (c : FDCfg) (n : Nat) (hn : 0 < n) (x : V K) (i : Nat) (hi : i < fdOutLen c n) :
    fdEval c n x i = mulVec (fdMatrix c n) n x i :=
  fdEval_eq_mulVec c n hn x i hi

/-- lifting lemma: a 1-d linear map applied along one axis of an N-d row-major array is
    `I_outer ⊗ A ⊗ I_inner`. -/
theorem C04_alongAxis (outer n m inner : Nat) (A : M K) (x : V K) (p : Nat) (hp : p < outer * m * inner) :
    alongAxis n m inner (mulVec A n) x p = mulVec (kronAxis n m inner A) (outer * n * inner) x p :=
  alongAxis_mulVec outer n m inner A x p hp

/-- the `(outer, k, inner)` split used by `alongAxis` is the row-major layout around any axis of an N-d shape -/
theorem C04_ravel_axis (pre post ip iq : List Nat) (n k : Nat) (h : ip.length = pre.length) :
    ravel (pre ++ n :: post) (ip ++ k :: iq) = (ravel pre ip * n + k) * prodL post + ravel post iq :=
  ravel_axis pre post ip iq n k h

/-- finite difference along any axis of an N-d array = Kronecker-lifted documented matrix -/
theorem C04_fd_axis (c : FDCfg) (outer n inner : Nat) (hn : 0 < n) (x : V K) (p : Nat)
    (hp : p < outer * fdOutLen c n * inner) :
    alongAxis n (fdOutLen c n) inner (fdEval c n) x p
      = mulVec (kronAxis n (fdOutLen c n) inner (fdMatrix c n)) (outer * n * inner) x p :=
  fd_axis c outer n inner hn x p hp

/-- `FiniteDifference` over any list of axes = block column of the lifted banded matrices -/
theorem C04_fd_multi_axis (c : FDCfg) (N : Nat) (specs : List (Nat × Nat × Nat))
    (hs : ∀ s ∈ specs, s.1 * s.2.1 * s.2.2 = N ∧ 0 < s.2.1) (x : V K) (i : Nat) (hi : i < fdNdRows c specs) :
    fdNdEval c specs x i = mulVec (fdNdMatrix c specs) N x i :=
  fdNd_eq_mulVec c N specs hs x i hi

-- non-vacuity / the four matrices displayed in the docstring (n = 4, over ℤ)
example : fdRows ⟨.no, .no, false⟩ 4 = [[-1, 1, 0, 0], [0, -1, 1, 0], [0, 0, -1, 1]] := by decide
example : fdRows ⟨.no, .no, true⟩ 4 = [[-1, 1, 0, 0], [0, -1, 1, 0], [0, 0, -1, 1], [1, 0, 0, -1]] := by decide
example : fdRows ⟨.no, .b0, false⟩ 4 = [[-1, 1, 0, 0], [0, -1, 1, 0], [0, 0, -1, 1], [0, 0, 0, 0]] := by decide
example : fdRows ⟨.b1, .b1, false⟩ 4 = [[1, 0, 0, 0], [-1, 1, 0, 0], [0, -1, 1, 0], [0, 0, -1, 1], [0, 0, 0, -1]] := by decide
example : fdRows ⟨.b0, .b1, false⟩ 3 = [[0, 0, 0], [-1, 1, 0], [0, -1, 1], [0, 0, -1]] := by decide
example : (List.range 3).map (fdEval (α := Int) ⟨.b1, .no, false⟩ 3 (fun j => [5, 7, 4].getD j 0)) = [5, 2, -3] := by decide

/-- `SingleAxisFiniteSum` (`x + roll(x, −1)`, the low-pass half of the Haar transform used by the TV
    norm) = ones on the diagonal and the circular superdiagonal (the class docstring without its
    spurious first row it showed before 0e32add) -/
theorem C04_finite_sum (n : Nat) (hn : 0 < n) (x : V K) (i : Nat) (hi : i < n) :
    fsumEval n x i = mulVec (fsumMatrix n) n x i :=
  fsumEval_eq_mulVec n hn x i hi

example : (List.range 3).map (fun i => (List.range 3).map (fsumMatrix (α := Int) 3 i)) = [[1, 1, 0], [0, 1, 1], [1, 0, 1]] := by decide

/-! ### stacks -/

/-- `VerticalStack` = block column `(A_1; …; A_N)` -/
theorem C04_stack_blockmatrix (ops : List (M K × Nat)) (n : Nat) (x : V K) (i : Nat) (hi : i < totalRows ops) :
    vstackEval ops n x i = mulVec (vstackMatrix ops) n x i :=
  vstack_eq_mulVec ops n x i hi

/-- `DiagonalStack` = block diagonal `diag(A_1, …, A_N)` -/
theorem C04_stack_blockdiag (ops : List (M K × Nat × Nat)) (x : V K) (i : Nat) (hi : i < dRows ops) :
    dstackEval ops x i = mulVec (dstackMatrix ops) (dCols ops) x i :=
  dstack_eq_mulVec ops x i hi

example : (List.range 3).map (vstackEval (α := Int) [(fun _ _ => 1, 1), (fun i j => if i = j then 2 else 0, 2)] 2
    (fun j => [3, 4].getD j 0)) = [7, 6, 8] := by decide

/-! ### circular convolution -/

/-- signal-domain circular convolution with integer centre shift = the documented circulant of the filter
    zero-padded — or, when the filter is longer than the axis (`k > n`), cropped, as `fftn(h, s=n)` does — to
    the axis length: the sum runs over the first `min k n` taps.  Every filter length, every `n ≥ 1`. -/
theorem C04_circ (h : V K) (k n c : Nat) (hn : 0 < n) (x : V K) (i : Nat) :
    circEval h (min k n) n c x i = mulVec (circMatrix h k n c) n x i :=
  circEval_crop_eq_mulVec h k n c hn x i

/-- circulant structure: the matrix commutes with the cyclic shift -/
theorem C04_circ_circulant (h : V K) (k n c : Nat) : ShiftInvariant (circMatrix h k n c) n :=
  circMatrix_shiftInvariant h k n c

/-- `CircularConvolve.from_operator` of a shift-invariant operator reproduces its matrix, for any
    placement `d` of the impulse -/
theorem C04_circ_from_operator (A : M K) (n d : Nat) (hA : ShiftInvariant A n) (hd : d < n)
    (i j : Nat) (hi : i < n) (hj : j < n) : fromOperatorMatrix A n d i j = A i j :=
  fromOperator_eq A n d hA hd i j hi hj

/-- convolution theorem with the centre-shift phase: what `CircularConvolve._eval` computes —
    `ifft( fft(h, n) · exp(+2πi c f/n) · fft(x) )` — equals the signal-domain circular convolution with
    filter centre `c` (exact in any field with a primitive `n`-th root of unity `ζ = exp(−2πi/n)`;
    for an integer `c` the three branches of the phase in the code all equal `ζ⁻¹^(c f)`: `C04_circ_phase_integer`;
    a filter longer than the axis is cropped). -/
theorem C04_circ_fft {F : Type} [Field F] {ζ : F} {n : Nat} (hζ : IsPrimitiveRoot ζ n) (hn : 0 < n)
    (hnF : (n : F) ≠ 0) (h : V F) (k c : Nat) (x : V F) (j : Nat) :
    dftInvCropEval ζ⁻¹ (1 / (n : F)) n
        (fun f => dftEval ζ 1 n n (padTo h k) f * ζ⁻¹ ^ (c * f) * dftEval ζ 1 n n x f) j
      = circEval h (min k n) n c x j :=
  circ_fft_crop_eq hζ hn hnF h k c x j

example : (List.range 4).map (circEval (α := Int) (fun m => [1, -1].getD m 0) 2 4 1 (fun j => [3, 5, 6, 10].getD j 0))
    = [2, 1, 4, -7] := by decide

-- a filter longer than the axis is cropped: taps [1,-1,5] on n = 2 act as [1,-1]
example : (List.range 2).map (circEval (α := Int) (fun m => [1, -1, 5].getD m 0) (min 3 2) 2 0 (fun j => [3, 5].getD j 0))
    = [-2, 2] := by decide
-- shift invariance is satisfiable by non-constant matrices (hypothesis of `C04_circ_from_operator`)
example : ShiftInvariant (fun i j : Nat => if (i + 1) % 3 = j then (1 : Int) else 0) 3 := by
  intro i j hi hj; interval_cases i <;> interval_cases j <;> decide

/-! ### linear convolution and its output modes -/

/-- full convolution (sum over the filter taps) = Toeplitz matrix, and each mode is the documented
    window of it -/
theorem C04_conv_modes (mode : ConvMode) (h : V K) (k : Nat) (x : V K) (n : Nat) (i : Nat) :
    convEval mode h k x n i = mulVec (convMatrix mode h k n) n x i :=
  convEval_eq_mulVec mode h k x n i

/-- index ranges: every kept output is an output of `full` (sizes `n+k−1`, `n`, `max−min+1`) -/
theorem C04_conv_ranges (mode : ConvMode) (n1 n2 : Nat) (h1 : 0 < n1) (h2 : 0 < n2) :
    convStart mode n1 n2 + convLen mode n1 n2 ≤ n1 + n2 - 1 :=
  conv_range mode n1 n2 h1 h2 (fun _ => Nat.le_total n2 n1)

/-- `valid` keeps exactly outputs whose every product lies inside both arrays -/
theorem C04_conv_valid_complete (n k : Nat) (hk : 0 < k) (hkn : k ≤ n) (i : Nat) (hi : i < convLen .valid n k) :
    ∀ m, m < k → m ≤ i + convStart .valid n k ∧ i + convStart .valid n k - m < n :=
  conv_valid_complete n k hk hkn i hi

example : (List.range 4).map (convEval (α := Int) .full (fun m => [1, 2].getD m 0) 2 (fun j => [1, 1, 3].getD j 0) 3)
    = [1, 3, 5, 6] := by decide
example : (List.range 3).map (convEval (α := Int) .same (fun m => [1, 2].getD m 0) 2 (fun j => [1, 1, 3].getD j 0) 3)
    = [1, 3, 5] := by decide
example : (List.range 2).map (convEval (α := Int) .valid (fun m => [1, 2].getD m 0) 2 (fun j => [1, 1, 3].getD j 0) 3)
    = [3, 5] := by decide

/-! ### index maps -/

/-- `Slice`: every selected position is inside the axis and the map is the selection matrix
    (positions are those of Python slicing, cf. C12). -/
theorem C04_slice (n : Nat) (sl : PySlice) (a b s : Int) (h : pyIndices n sl = some (a, b, s))
    (x : V K) (t : Nat) (ht : (t : Int) < rangeLen a b s) :
    (0 ≤ a + t * s ∧ a + t * s < n) ∧ sliceEval a s x t = mulVec (sliceMatrix a s) n x t := by
  obtain ⟨hs, hpos, hneg⟩ := pyIndices_bounds n sl a b s h
  have hb := slice_pos_in_range hs hpos hneg t ht
  exact ⟨hb, sliceEval_eq_mulVec n a s x t hb.1 hb.2⟩

/-- position `t` of the slice is element `t` of the enumeration `selected` that C12 proves correct -/
theorem C04_slice_selected (n : Nat) (sl : PySlice) (a b s : Int) (l : List Int)
    (h : pyIndices n sl = some (a, b, s)) (hl : selected n sl = some l) (t : Nat) (ht : t < l.length) :
    l[t] = a + t * s := by
  unfold selected at hl
  simp only [h, Option.some.injEq] at hl
  subst hl
  exact rangeList_getElem n a b s t ht

/-- zero `Pad` and `Crop` are the documented shift matrices; `Crop` is a left inverse and the
    adjoint of `Pad`; the output length computed as `2·in − padded` is `in − lo − hi`. -/
theorem C04_pad_crop (lo n hi : Nat) (x y : V K) :
    (∀ i, padEval lo n x i = mulVec (padMatrix lo) n x i)
    ∧ (∀ i, i + lo < lo + n + hi → cropEval lo y i = mulVec (cropMatrix lo) (lo + n + hi) y i)
    ∧ (∀ i, i < n → cropEval lo (padEval lo n x) i = x i)
    ∧ dotTo (lo + n + hi) (padEval lo n x) y = dotTo n x (cropEval lo y)
    ∧ cropOutLen (lo + n + hi) lo hi = n :=
  ⟨fun i => padEval_eq_mulVec lo n x i, fun i h => cropEval_eq_mulVec lo _ y i h,
   fun i h => crop_pad lo n x i h, pad_crop_adjoint lo n hi x y,
   by rw [cropOutLen_eq]; push_cast; ring⟩

/-- `Sum` over an axis = `I ⊗ 1ᵀ ⊗ I` -/
theorem C04_sum (outer n inner : Nat) (x : V K) (p : Nat) (hp : p < outer * inner) :
    sumAxisEval n inner x p = mulVec (sumAxisMatrix n inner) (outer * n * inner) x p :=
  sumAxis_eq_mulVec outer n inner x p hp

/-- `Transpose` / `Reshape`: row-major index arithmetic.  Flat and multi-indices are inverse to each
    other (so `Reshape`, which keeps the flat index, moves element `k` to multi-index
    `unravel newshape k`), and `transpose(x, perm)` puts the input element with multi-index `idx` at
    the output multi-index `perm.map idx[·]`, for every permutation of the axes. -/
theorem C04_transpose_reshape {α : Type} (dims perm idx : List Nat) (x : V α)
    (hperm : perm.Perm (List.range dims.length)) (hidx : InBounds dims idx) :
    (∀ k, k < prodL dims → ravel dims (unravel dims k) = k ∧ InBounds dims (unravel dims k))
    ∧ unravel dims (ravel dims idx) = idx
    ∧ transposeEval dims perm x (ravel (perm.map (fun a => dims.getD a 1)) (perm.map (fun a => idx.getD a 0)))
        = x (ravel dims idx) :=
  ⟨fun k hk => ⟨ravel_unravel dims k hk, unravel_inBounds dims k hk⟩, unravel_ravel dims idx hidx,
   transposeEval_spec dims perm idx x hperm hidx⟩

/-- swapping two adjacent axes, in flat-index form -/
theorem C04_swap_axes {α : Type} (a b inner : Nat) (x : V α) (o i j r : Nat) (hi : i < a) (hj : j < b) (hr : r < inner) :
    swapAxesEval a b inner x (((o * b + j) * a + i) * inner + r) = x (((o * a + i) * b + j) * inner + r) := by
  have := @swapAxes_spec α a b inner x o i j r hi hj hr
  exact this

example : (List.range 6).map (transposeEval [2, 3] [1, 0] (fun k => k)) = [0, 3, 1, 4, 2, 5] := by decide
example : (List.range 5).map (padEval (α := Int) 1 3 (fun j => [7, 8, 9].getD j 0)) = [0, 7, 8, 9, 0] := by decide
example : pyIndices 5 ⟨none, none, some (-2)⟩ = some (4, -1, -2) := by decide

/-! ### X-ray projector -/

/-- the two scatter-adds realise the documented two-bin (boxcar) matrix for EVERY bin index: a bin that is off the
    detector (negative or `≥ ny`) is dropped on its own, the other one is kept. -/
theorem C04_xray_matrix (np : Nat) (I : Nat → Int) (w x : V K) (ny : Nat)
    (b : Nat) (hb : b < ny) : xrayProject np I w x ny b = mulVec (xrayMatrix I w) np x b :=
  xray_eq_mulVec np I w x ny b hb

/-- mass conservation in a view: `Σ_bins y = Σ_pixels x` whenever all `I` and `I+1` lie on the detector -/
theorem C04_xray_mass (np : Nat) (I : Nat → Int) (w x : V K) (ny : Nat)
    (hI : ∀ p, p < np → 0 ≤ I p ∧ I p + 1 < ny) :
    sumTo ny (xrayProject np I w x ny) = sumTo np x :=
  xray_mass np I w x ny hI

/-- converse failure: one pixel of mass 1 whose second bin falls off a 1-bin detector loses mass -/
theorem C04_xray_mass_fails_off_detector :
    sumTo 1 (xrayProject (α := ℚ) 1 (fun _ => 0) (fun _ => 1 / 2) (fun _ => 1) 1) ≠ sumTo 1 (fun _ => (1 : ℚ)) := by
  simp [sumTo, xrayProject, fixNeg]

/-- record of the defect repaired in e359064 (`xray-left-edge-drop`, found by this engine): the earlier scatter replaced
    a negative first bin by `ny` BEFORE forming `inds + 1`, so a pixel whose first bin is `−1` (its boxcar straddles the
    left detector edge) contributed nothing, although the documented matrix gives bin `0` the share `1 − w`. -/
theorem C04_xray_left_edge_old_form :
    xrayProjectCoupled (α := ℚ) 1 (fun _ => -1) (fun _ => 1 / 2) (fun _ => 1) 2 0
      ≠ mulVec (xrayMatrix (fun _ => -1) (fun _ => (1 / 2 : ℚ))) 1 (fun _ => 1) 0
    ∧ xrayProject (α := ℚ) 1 (fun _ => -1) (fun _ => 1 / 2) (fun _ => 1) 2 0 = 1 / 2 := by
  constructor
  · simp [xrayProjectCoupled, xrayMatrix, mulVec, sumTo, fixNeg]
    norm_num
  · simp [xrayProject, sumTo, fixNeg]
    norm_num

example : ∀ p : Nat, p < 2 → (0 : Int) ≤ (fun p : Nat => (p : Int)) p ∧ (fun p : Nat => (p : Int)) p + 1 < (3 : Nat) := by
  intro p hp; simp only; omega

/-! ### DFT -/

/-- constructor bookkeeping of `DFT(input_shape, axes, axes_shape)` for Python axes (negative values count
    from the end; `pyIx` is the list position they address): output shape is the input shape with
    `axes_shape[k]` on axis `axes[k]` and unchanged elsewhere; `inv_axes_shape` restores the input sizes, so
    `inv` returns an array of the input shape. -/
theorem C04_dft_shape (inShape : List Nat) (ax : List Int) (s : List Nat) (hlen : ax.length = s.length)
    (hax : ∀ a ∈ ax, -(inShape.length : Int) ≤ a ∧ a < inShape.length)
    (hnd : (ax.map (pyIx inShape.length)).Nodup) :
    ∃ out, dftInit ⟨inShape, some ax, some s⟩
        = some (some ax, out, some (ax.map (fun i => inShape.getD (pyIx inShape.length i) 0)))
      ∧ out.length = inShape.length
      ∧ (∀ k (hk : k < ax.length), out[pyIx inShape.length ax[k]]? = some (s[k]'(hlen ▸ hk)))
      ∧ (∀ i, i ∉ ax.map (pyIx inShape.length) → out[i]? = inShape[i]?)
      ∧ dftInvShape (some ax) out (some (ax.map (fun i => inShape.getD (pyIx inShape.length i) 0))) = inShape := by
  have hlen' : (ax.map (pyIx inShape.length)).length = s.length := by simpa using hlen
  have hpy : ∀ a ∈ ax, pyIx inShape.length a < inShape.length := by
    intro a ha
    obtain ⟨h1, h2⟩ := hax a ha
    unfold pyIx; split <;> omega
  refine ⟨setMany inShape ((ax.map (pyIx inShape.length)).zip s), ?_, setMany_length _ _, ?_, ?_, ?_⟩
  · simp [dftInit, hlen, setMany]
    exact hax
  · intro k hk
    have hk' : k < s.length := hlen ▸ hk
    apply setMany_getElem?_of_mem
    · rw [List.map_fst_zip (by omega)]; exact hnd
    · exact List.mem_iff_getElem.mpr ⟨k, by simp [hk, hk'], by simp⟩
    · exact hpy _ (List.getElem_mem hk)
  · intro i hi
    apply setMany_getElem?_of_not_mem
    rw [List.map_fst_zip (by omega)]; exact hi
  · unfold dftInvShape
    have e : ax.map (fun i => inShape.getD (pyIx inShape.length i) 0)
        = (ax.map (pyIx inShape.length)).map (fun i => inShape.getD i 0) := by simp [List.map_map, Function.comp_def]
    rw [e]
    have hl : (setMany inShape ((ax.map (pyIx inShape.length)).zip s)).length = inShape.length := setMany_length _ _
    simp only [hl]
    apply setMany_restore inShape _ (ax.map (pyIx inShape.length)) hl
    intro i hi
    apply setMany_getElem?_of_not_mem
    rw [List.map_fst_zip (by omega)]; exact hi

/-- `axes=None` with `axes_shape` of length `r ≤ ndim`: the transform acts on the trailing `r` axes; more
    trailing axes than the array has is an error (the code builds negative axes that `fftn` rejects) -/
theorem C04_dft_default_axes (inShape s : List Nat) :
    (s.length ≤ inShape.length → ∃ out inv, dftInit ⟨inShape, none, some s⟩
      = some (some ((List.range s.length).map (fun k => ((inShape.length - s.length + k : Nat) : Int))), out, inv))
    ∧ (inShape.length < s.length → dftInit ⟨inShape, none, some s⟩ = none) := by
  constructor
  · intro h; simp [dftInit, Nat.not_lt.mpr h]
  · intro h; simp [dftInit, h]

/-- without `axes_shape` nothing changes and `inv` is the plain inverse transform -/
theorem C04_dft_no_axes_shape (inShape : List Nat) (ax : Option (List Int)) :
    dftInit ⟨inShape, ax, none⟩ = some (ax, inShape, none) := by
  cases ax <;> simp [dftInit]

example : dftInit ⟨[4, 5, 6], some [0, 2], some [8, 3]⟩ = some (some [0, 2], [8, 5, 3], some [4, 6]) := by decide
example : dftInit ⟨[4, 5, 6], none, some [7]⟩ = some (some [2], [4, 5, 7], some [6]) := by decide
-- negative axes: `DFT((4,5,6), axes=(-1, 0), axes_shape=(3, 8))`
example : dftInit ⟨[4, 5, 6], some [-1, 0], some [3, 8]⟩ = some (some [-1, 0], [8, 5, 3], some [6, 4]) := by decide
example : dftInit ⟨[4, 5], some [-3], some [3]⟩ = none := by decide

section Field
variable {F : Type} [Field F]

/-- FULL statement (NOT claimed for the code as it is): `inv ∘ eval = id` whenever no axis is
    truncated, i.e. for every `m ≥ n`. -/
def C04_dft_inv_stmt : Prop :=
  ∀ (n m : Nat) (ζm ζn : ℂ) (s s' : ℂ), n ≤ m → 0 < n → IsPrimitiveRoot ζm m → IsPrimitiveRoot ζn n →
    s * s' * (n : ℂ) = 1 → ∀ (x : V ℂ) (j : Nat), j < n →
      dftInvEval ζn⁻¹ s' n m (dftEval ζm s n m x) j = x j

/-- proved part: `DFT.inv` undoes `DFT` for every normalisation (`s·s'·n = 1`: backward `1, 1/n`,
    ortho `1/√n, 1/√n`, forward `1/n, 1`) when the transform size equals the input size
    (`axes_shape` absent or equal to the input sizes).  What is missing for the full statement is
    the zero-padded case `m > n`, where the code crops the spectrum (see the next theorem). -/
theorem C04_dft_inv_partial {ζ : F} {n : Nat} (hζ : IsPrimitiveRoot ζ n) (s s' : F)
    (hs : s * s' * (n : F) = 1) (x : V F) (j : Nat) (hj : j < n) :
    dftInvEval ζ⁻¹ s' n n (dftEval ζ s n n x) j = x j := by
  rw [dftInv_eq_crop_of_eq, dft_invCrop hζ s s' hs n x j hj]
  simp [hj]

/-- the inverse the documentation promises (transform at the padded size `m ≥ n`, then crop) does
    undo the zero-padded transform — this is what `fixes/dft-inv-padded.patch` implements. -/
theorem C04_dft_inv_documented {ζ : F} {n m : Nat} (hnm : n ≤ m) (hζ : IsPrimitiveRoot ζ m) (s s' : F)
    (hs : s * s' * (m : F) = 1) (x : V F) (j : Nat) (hj : j < n) :
    dftInvCropEval ζ⁻¹ s' m (dftEval ζ s n m x) j = x j := by
  rw [dft_invCrop hζ s s' hs n x j (by omega)]
  simp [hj]

end Field

/-- negation witness for the code as it is (known finding `dft-inv-padded`): input `[0, 1]`,
    `axes_shape = (4,)`; `eval` gives `[1, −i, −1, i]`, `inv` crops it to `[1, −i]` and returns
    `[(1−i)/2, (1+i)/2] ≠ [0, 1]`. -/
theorem C04_dft_inv_padded_fails :
    dftInvEval (-1 : ℂ) (1 / 2) 2 4 (dftEval (-Complex.I) 1 2 4 (fun j => if j = 1 then 1 else 0)) 0 ≠
      (fun j => if j = 1 then (1 : ℂ) else 0) 0 := by
  simp [dftInvEval, dftEval, sumTo, dftEval.npow, Complex.ext_iff]

-- non-vacuity of the hypotheses of the inversion theorems: the three normalisations at n = 2 over ℚ (ortho needs √2: ℝ/ℂ)
example : (1 : ℚ) * (1 / 2) * ((2 : Nat) : ℚ) = 1 ∧ (1 / 2 : ℚ) * 1 * ((2 : Nat) : ℚ) = 1 := by norm_num
-- `-1` is a primitive 2nd root of unity in ℚ
example : IsPrimitiveRoot (-1 : ℚ) 2 := by
  rw [IsPrimitiveRoot.iff_def]
  refine ⟨by norm_num, fun l hl => ?_⟩
  rcases Nat.even_or_odd l with h | h
  · exact even_iff_two_dvd.mp h
  · rw [h.neg_one_pow] at hl; norm_num at hl

/-! ### transverse frequency grid of the propagators -/

section Freq
variable {F : Type} [Field F]

/-- in the statements naturals are embedded by `Nat.cast` -/
local instance : HasNat F := ⟨Nat.cast⟩

/-- `fftfreq` as numpy assembles it (two `arange`s) is the documented signed frequency
    `i/(n·d)` for `2i < n` and `(i − n)/(n·d)` otherwise — exact, for every `n` and `d`. -/
theorem C04_freq_grid (n : Nat) (hn : 0 < n) (d : F) (i : Nat) : fftfreq n d i = signedFreq n d i :=
  fftfreq_eq_signed n hn d i

/-- the grid of the pinned tree was the transpose of the documented one (axis 0 carried the
    `(N_y, Δy)` frequencies); they agree for square shapes with isotropic sampling. -/
theorem C04_freq_grid_pinned (n0 n1 : Nat) (d0 d1 : F) (a b : Nat) :
    kpSqPinned n0 n1 d0 d1 a b = kpSqDoc n0 n1 d0 d1 b a
    ∧ kpSqPinned n0 n0 d0 d0 a b = kpSqDoc n0 n0 d0 d0 a b :=
  ⟨kpSqPinned_eq_doc_transposed n0 n1 d0 d1 a b, kpSqPinned_eq_doc_square n0 d0 a b⟩

end Freq

/-- witness that the transposition matters for anisotropic `dx` on a square shape:
    shape `(2,2)`, `dx = (1, 2)`, index `(0,1)`: documented `1/16`, pinned `1/4`. -/
theorem C04_freq_grid_pinned_differs :
    @kpSqPinned ℚ ⟨Nat.cast⟩ _ _ _ _ 2 2 1 2 0 1 ≠ @kpSqDoc ℚ ⟨Nat.cast⟩ _ _ _ _ 2 2 1 2 0 1 := by
  simp [kpSqPinned, kpSqDoc, fftfreq]
  norm_num

example : (List.range 4).map (@fftfreq ℚ ⟨Nat.cast⟩ _ _ _ 4 (1 / 2)) = [0, 1 / 2, -1, -1 / 2] := by
  simp [fftfreq, List.range, List.range.loop]
  norm_num


/-! ## Round 2: extensions -/

/-! ### finite differences from the constructor arguments -/

/-- `FiniteDifference(input_shape, axes=…)` in terms of the constructor arguments: for every shape with
    non-empty axes and every list of (normalised) axes inside it, the operator is the block column of the
    banded matrices lifted to the listed axes (`axisSpec shape a = (Π before, shape[a], Π after)`). -/
theorem C04_fd_shape_axes (c : FDCfg) (shape : List Nat) (axes : List Nat) (hpos : ∀ n ∈ shape, 0 < n)
    (hax : ∀ a ∈ axes, a < shape.length) (x : V K) (i : Nat)
    (hi : i < fdNdRows c (axes.map (axisSpec shape))) :
    fdNdEval c (axes.map (axisSpec shape)) x i
      = mulVec (fdNdMatrix c (axes.map (axisSpec shape))) (prodL shape) x i :=
  fdNd_shape_axes c shape axes hpos hax x i hi

/-- `normalize_axes`: an accepted `axes` argument denotes the list of positions `pyIx ndim a` (negative values
    count from the end), all inside the shape and pairwise different — exactly the hypotheses of
    `C04_fd_shape_axes`; `None` denotes all axes; in-range distinct axes are accepted. -/
theorem C04_norm_axes (nd : Nat) (axes : Option (List Int)) (l : List Nat) (h : normAxes nd axes = some l) :
    (∀ a ∈ l, a < nd) ∧ l.Nodup ∧ (axes = none → l = List.range nd) ∧ (∀ ax, axes = some ax → l = ax.map (pyIx nd)) := by
  cases axes with
  | none =>
    simp only [normAxes, Option.some.injEq] at h
    subst h
    exact ⟨fun a ha => List.mem_range.mp ha, List.nodup_range, fun _ => rfl, fun ax hax => (by cases hax)⟩
  | some ax =>
    simp only [normAxes] at h
    split at h
    · cases h
    · split at h
      · rename_i hall
        split at h
        · rename_i hnd
          simp only [Option.some.injEq] at h
          subst h
          refine ⟨?_, hnd, fun h' => (by cases h'), fun ax' h' => (by cases h'; rfl)⟩
          intro a ha
          obtain ⟨z, hz, rfl⟩ := List.mem_map.mp ha
          have := (List.all_eq_true.mp hall) z hz
          simp only [decide_eq_true_eq] at this
          unfold pyIx; split <;> omega
        · cases h
      · cases h

example : normAxes 3 (some [0, -1]) = some [0, 2] := by decide
example : normAxes 2 (some [-5]) = none ∧ normAxes 2 (some [0, -2]) = none ∧ normAxes 2 (some []) = none := by decide
example : [0, 1].map (axisSpec [2, 3]) = [(1, 2, 3), (2, 3, 1)] := by decide
-- non-vacuity of the hypotheses of `C04_fd_multi_axis`: shape (2,3), both axes
example : ∀ s ∈ [(1, 2, 3), (2, 3, 1)], s.1 * s.2.1 * s.2.2 = 6 ∧ 0 < s.2.1 := by decide
-- the class docstring example `FiniteDifference((2, 3))` on `[[1,2,4],[0,4,1]]`: `[-1,2,-3]` then `[[1,2],[4,-3]]`
example : (List.range 7).map (fdNdEval (α := Int) ⟨.no, .no, false⟩ ([0, 1].map (axisSpec [2, 3]))
    (fun j => [1, 2, 4, 0, 4, 1].getD j 0)) = [-1, 2, -3, 1, 2, 4, -3] := by decide

/-! ### circular convolution: any spectrum, the constructor's shift phases, N dimensions -/

/-- spectral-multiplier form of the convolution theorem: `ifft(H · fft(x))` — `CircularConvolve._eval` for ANY
    `h_dft` (a filter passed with `h_is_dft=True`, or `fft(h, n)` times the phases of a fractional
    `h_center`) — is the circular convolution of `x` with the impulse response `g = ifft(H)`. -/
theorem C04_circ_spectrum {F : Type} [Field F] {ζ : F} {n : Nat} (hζ : IsPrimitiveRoot ζ n) (hn : 0 < n) (s : F)
    (H x : V F) (j : Nat) :
    circSpecEval ζ ζ⁻¹ s n H x j = mulVec (circMatrix (dftInvCropEval ζ⁻¹ s n H) n n 0) n x j :=
  circSpec_eq hζ hn s H x j

/-- the phases `CircularConvolve.__init__` multiplies into `h_dft` (three `np.select` branches: below, at and
    above the Nyquist bin), for an INTEGER centre `c` (negative centres included), all equal `ζ^(−c f)` with
    `ζ = E(−1/s) = exp(−2πi/s)`, which is `ζ⁻¹^((c mod s)·f)`: the phase of `C04_circ_fft` with the centre
    reduced modulo the axis length.  `E t = exp(2πi t)`, `C t = cos(2π t)` enter only through `ExpContract`
    (`E(a+b) = E a · E b`, `E 1 = 1`, `C t = (E t + E(−t))/2`). -/
theorem C04_circ_phase_integer {F Q : Type} [Field F] [Field Q] [CharZero Q] {E C : Q → F} (h : ExpContract E C)
    (c : Int) (s f : Nat) (hs : 0 < s) (hf : f < s) :
    shiftPhase E C (fun m => (m : Q)) (-(c : Q)) s f = E (-(1 / (s : Q))) ^ (-(c * f))
    ∧ E (-(1 / (s : Q))) ^ (-(c * f)) = (E (-(1 / (s : Q))))⁻¹ ^ ((c % s).toNat * f) :=
  ⟨shiftPhase_int h c s f hs hf, root_zpow_mod (h.root_pow s hs) hs c f⟩

/-- Hermitian symmetry of the phases for ANY (fractional) centre: `phase(s − f) = conj(phase(f))`, so the
    shifted filter of a real filter is real — this is why the Nyquist bin carries `cos(kπ)`. -/
theorem C04_circ_phase_hermitian {F Q : Type} [Field F] [StarRing F] [Field Q] {E C : Q → F}
    (hE : ∀ t, star (E t) = E (-t)) (hC : ∀ t, star (C t) = C t) (k : Q) (s f : Nat) (hf0 : 0 < f) (hf : f < s) :
    shiftPhase E C (fun m => (m : Q)) k s (s - f) = star (shiftPhase E C (fun m => (m : Q)) k s f) :=
  shiftPhase_hermitian hE hC k s f hf0 hf

-- non-vacuity of `ExpContract`: over ℚ, `E = 1`, `C = 1` (the trivial character); the contract is the
-- exponential law, satisfied by `t ↦ exp(2πi t)`, `t ↦ cos(2πt)` over ℂ
example : ExpContract (fun _ : ℚ => (1 : ℚ)) (fun _ => 1) := ⟨by simp, rfl, by simp, by norm_num⟩

/-- N-d convolution theorem: `ifftn( fftn(h, s=dims) · Π_a ζ_a⁻¹^(c_a f_a) · fftn(x) )` — `CircularConvolve._eval`
    over `ndims = dims.length` axes with integer centres — equals the signal-domain N-d circular convolution
    `y[i] = Σ_m h[m] · x[(i + c − m) mod dims]`; any number of axes, any sizes `ks ≤ dims`. -/
theorem C04_circ_nd_fft {F : Type} [Field F] (dims : List Nat) (ws : List F) (ks cs : List Nat) (s : F)
    (h x : V F) (p : Nat) (hr : Roots dims ws) (hf : FitsIn ks dims cs) (hs : s * (prodL dims : F) = 1)
    (hp : p < prodL dims) :
    circNdSpecEval dims ws (ws.map (·⁻¹)) s
        (fun f => dftNd dims ws (padNd ks dims h) f * phaseNd dims (ws.map (·⁻¹)) cs f) x p
      = circNd ks dims cs h x p :=
  circNd_fft_eq dims ws ks cs s h x p hr hf hs hp

/-- N-d spectral-multiplier form: for ANY N-d spectrum `H` (filter in the DFT domain, fractional centres on
    several axes), `ifftn(H · fftn(x))[p] = Σ_q ifftn(H)[(p − q) mod dims] · x[q]`. -/
theorem C04_circ_nd_spectrum {F : Type} [Field F] (dims : List Nat) (ws : List F) (s : F) (H x : V F) (p : Nat)
    (hr : Roots dims ws) (hp : p < prodL dims) :
    circNdSpecEval dims ws (ws.map (·⁻¹)) s H x p
      = mulVec (fun p q => s * dftNd dims (ws.map (·⁻¹)) H (shiftIdx dims (List.replicate dims.length 0) p q))
          (prodL dims) x p := by
  unfold circNdSpecEval mulVec
  rw [circNdSpec_raw dims ws H x p hr hp, sumTo_eq_sum, Finset.mul_sum]
  exact Finset.sum_congr rfl (fun q _ => by ring)

/-- the N-d circular convolution is multiplication by the documented N-d circulant
    `H[i, j] = h_pad[(i + c − j) mod dims]`; in multi-index form (`ravel`) the flat index arithmetic is exactly
    that: `shiftIdx` is `(i + c − j) mod dims` axis by axis and `padNd` is `h` inside the filter shape, `0` outside. -/
theorem C04_circ_nd (ks dims cs : List Nat) (h x : V K) (p : Nat) (hpos : ∀ n ∈ dims, 0 < n) (hf : FitsIn ks dims cs) :
    circNd ks dims cs h x p = mulVec (circMatrixNd ks dims cs h) (prodL dims) x p :=
  circNd_eq_mulVec ks dims cs h x p hpos hf

theorem C04_circ_nd_index (ks dims cs i j : List Nat) (h : V K) (hi : InBounds dims i) (hj : InBounds dims j)
    (hl : ks.length = dims.length) :
    shiftIdx dims cs (ravel dims i) (ravel dims j) = ravel dims (shiftMI dims cs i j)
    ∧ (InBounds ks i → padNd ks dims h (ravel dims i) = h (ravel ks i))
    ∧ (¬ InBounds ks i → padNd ks dims h (ravel dims i) = 0) :=
  ⟨shiftIdx_ravel dims cs i j hi hj, padNd_ravel_in ks dims i h hi, padNd_ravel_out ks dims i h hi hl⟩

-- non-vacuity: ℚ has primitive 2nd and 1st roots; a 2×2 filter on a (2,2) image
example : Roots [2, 1] [(-1 : ℚ), 1] := by
  refine ⟨?_, by norm_num, IsPrimitiveRoot.one, by norm_num, trivial⟩
  rw [IsPrimitiveRoot.iff_def]
  refine ⟨by norm_num, fun l hl => ?_⟩
  rcases Nat.even_or_odd l with h | h
  · exact even_iff_two_dvd.mp h
  · rw [h.neg_one_pow] at hl; norm_num at hl
example : FitsIn [2, 2] [3, 4] [1, 0] := by simp [FitsIn]
-- a (2,2) filter on a (2,3) image, centre (1,0): direct evaluation of the N-d definition
example : (List.range 6).map (circNd (α := Int) [2, 2] [2, 3] [1, 0] (fun m => [1, 2, 3, 4].getD m 0)
    (fun j => [1, 0, 0, 0, 0, 0].getD j 0)) = [3, 4, 0, 1, 2, 0] := by decide
example : shiftMI [3, 4] [1, 0] [0, 1] [2, 3] = [2, 2] := by decide

/-! ### N-d DFT inversion -/

/-- N-d DFT over all axes of an array of any shape: `inv ∘ eval = id` for every normalisation
    (`s · s' · Π dims = 1`) when the transform size equals the input size. -/
theorem C04_dft_nd_inv {F : Type} [Field F] (dims : List Nat) (ws : List F) (s s' : F) (x : V F) (p : Nat)
    (hr : Roots dims ws) (hs : s * s' * (prodL dims : F) = 1) (hp : p < prodL dims) :
    s' * dftNd dims (ws.map (·⁻¹)) (fun f => s * dftNd dims ws x f) p = x p := by
  have e := dftNd_lin (Finset.range 1) dims (ws.map (·⁻¹)) (fun _ => s) (fun _ => dftNd dims ws x) p
  simp only [Finset.sum_range_one] at e
  rw [e, dftNd_inv_raw dims ws x p hr hp]
  calc s' * (s * ((prodL dims : F) * x p)) = (s * s' * (prodL dims : F)) * x p := by ring
    _ = x p := by rw [hs, one_mul]

/-! ### N-d linear convolution -/

/-- N-d `Convolve` / `ConvolveByX`: the tap-sum `y[i] = Σ_m h[m] · x[i + start − m]` on the window of a mode is
    multiplication by the N-d Toeplitz matrix, for any number of axes; the window of each mode is the 1-d
    one axis by axis (`convStarts`, `convLens`; ranges by `C04_conv_ranges`). -/
theorem C04_conv_nd (ss os ks ds : List Nat) (h x : V K) (p : Nat) (hs : ConvShapes ss os ks ds) :
    convNdW ss os ks ds h x p = mulVec (convMatrixNdW ss os ks ds h) (prodL ds) x p :=
  convNdW_eq_mulVec ss os ks ds h x p hs

example : ConvShapes (convStarts .same [3, 4] [2, 2]) (convLens .same [3, 4] [2, 2]) [2, 2] [3, 4] := by
  simp [ConvShapes, convStarts, convLens]
example : convStarts .valid [3, 4] [2, 2] = [1, 1] ∧ convLens .valid [3, 4] [2, 2] = [2, 3] := by decide
-- `convolve([[1,2],[3,4]], [[1,1],[1,1]], 'full')` = [[1,3,2],[4,10,6],[3,7,4]]
example : (List.range 9).map (convNdW (α := Int) (convStarts .full [2, 2] [2, 2]) (convLens .full [2, 2] [2, 2]) [2, 2] [2, 2]
    (fun _ => 1) (fun j => [1, 2, 3, 4].getD j 0)) = [1, 3, 2, 4, 10, 6, 3, 7, 4] := by decide

/-! ### non-constant pad modes -/

/-- `Pad` with mode `edge` / `wrap` / `reflect` / `symmetric` on one axis is a gather: every padded position
    reads a position inside the array (so the operator is linear with one `1` per matrix row), the interior
    is copied, and `Crop` of the same widths is a left inverse. -/
theorem C04_pad_modes (mode : PadMode) (lo n : Nat) (hn : 0 < n) (x : V K) (i : Nat) :
    (0 ≤ padSrc mode n ((i : Int) - lo) ∧ padSrc mode n ((i : Int) - lo) < n)
    ∧ padModeEval mode lo n x i = mulVec (padModeMatrix mode lo n) n x i
    ∧ (i < n → cropEval lo (padModeEval mode lo n x) i = x i) :=
  ⟨padSrc_range mode n hn _, padModeEval_eq_mulVec mode lo n hn x i, crop_padMode mode lo n x i⟩

/-- the documented meaning of each mode, for every offset `t ∈ ℤ` relative to the array (any pad width):
    `edge` continues with the first / last value, `wrap` has period `n`, `reflect` mirrors about the first and
    the last sample, `symmetric` about the two array edges. -/
theorem C04_pad_modes_documented (n : Nat) (hn : 0 < n) (t : Int) :
    ((t < 0 → padSrc .edge n t = 0) ∧ ((n : Int) ≤ t → padSrc .edge n t = n - 1))
    ∧ padSrc .wrap n (t + n) = padSrc .wrap n t
    ∧ (2 ≤ n → padSrc .reflect n (-t) = padSrc .reflect n t
        ∧ padSrc .reflect n ((n : Int) - 1 + t) = padSrc .reflect n ((n : Int) - 1 - t))
    ∧ (padSrc .symmetric n (-1 - t) = padSrc .symmetric n t
        ∧ padSrc .symmetric n ((n : Int) + t) = padSrc .symmetric n ((n : Int) - 1 - t)) :=
  ⟨padSrc_edge n t, padSrc_wrap n t, fun h => padSrc_reflect n h t, padSrc_symmetric n hn t⟩

/-- mode `mean`: the padded positions carry the mean of the axis (matrix rows `1/n … 1/n`) -/
theorem C04_pad_mean {F : Type} [Field F] (lo n : Nat) (x : V F) (i : Nat) :
    padMeanEval (fun m => (m : F)) lo n x i = mulVec (padMeanMatrix (fun m => (m : F)) lo n) n x i :=
  padMeanEval_eq_mulVec lo n x i

-- numpy: pad([1,2,3], (2,3), mode) for the four modes
example : (List.range 8).map (padModeEval .reflect 2 3 (fun j => [1, 2, 3].getD j 0)) = [3, 2, 1, 2, 3, 2, 1, 2] := by decide
example : (List.range 8).map (padModeEval .symmetric 2 3 (fun j => [1, 2, 3].getD j 0)) = [2, 1, 1, 2, 3, 3, 2, 1] := by decide
example : (List.range 8).map (padModeEval .wrap 2 3 (fun j => [1, 2, 3].getD j 0)) = [2, 3, 1, 2, 3, 1, 2, 3] := by decide
example : (List.range 8).map (padModeEval .edge 2 3 (fun j => [1, 2, 3].getD j 0)) = [1, 1, 1, 2, 3, 3, 3, 3] := by decide

/-! ### projected gradients -/

/-- `ProjectedGradient._eval` for one local axis: `sum(c[m] * grad[m])` over the stacked differences
    `grad[m] = G_m x` is multiplication by `Σ_m diag(c_m) · G_m` — the inner product of the Cartesian gradient
    with the local axis at every position (`G_m` = lifted `C04_fd` matrix with `append=0`, or `C04_cdiff`). -/
theorem C04_proj_grad (n : Nat) (x : V K) (i : Nat) (l : List (V K × M K)) :
    projEval (l.map (fun cG => (cG.1, mulVec cG.2 n x))) i = mulVec (projMatrix l) n x i :=
  projEval_eq_mulVec n x i l

/-- `cdiff=True`: `snp.gradient` (central differences inside, one-sided at the two ends) as a matrix, `n ≥ 2` -/
theorem C04_cdiff {F : Type} [Field F] (n : Nat) (hn : 2 ≤ n) (x : V F) (i : Nat) (hi : i < n) :
    cdiffEval (2 : F) n x i = mulVec (cdiffMatrix (2 : F) n) n x i :=
  cdiffEval_eq_mulVec n hn x i hi

/-- the documented local axes of `PolarGradient` (`angular = (−cos θ, sin θ)`, `radial = (sin θ, cos θ)`,
    `θ = arctan2(g0, g1)`) form an orthonormal frame whenever `sin² + cos² = 1`: the projected gradient is a
    rotation of the Cartesian gradient (norm preserved, Cartesian components recovered); with
    `sin θ = p0/r`, `cos θ = p1/r` the radial component is the derivative along the position vector. -/
theorem C04_polar_frame {F : Type} [Field F] (s c g0 g1 : F) (h : s * s + c * c = 1) :
    (-c * g0 + s * g1) * (-c * g0 + s * g1) + (s * g0 + c * g1) * (s * g0 + c * g1) = g0 * g0 + g1 * g1
    ∧ g0 = -c * (-c * g0 + s * g1) + s * (s * g0 + c * g1)
    ∧ g1 = s * (-c * g0 + s * g1) + c * (s * g0 + c * g1)
    ∧ ∀ p0 p1 r : F, r ≠ 0 → (p0 / r) * g0 + (p1 / r) * g1 = (p0 * g0 + p1 * g1) / r :=
  ⟨(polar_rotation s c g0 g1 h).1, (polar_rotation s c g0 g1 h).2.1, (polar_rotation s c g0 g1 h).2.2,
   fun p0 p1 r hr => polar_radial p0 p1 r g0 g1 hr⟩

example : (List.range 4).map (cdiffEval (α := ℚ) 2 4 (fun j => [1, 4, 9, 16].getD j 0)) = [3, 4, 6, 7] := by
  simp [cdiffEval, List.range, List.range.loop]; norm_num
example : ((3 : ℚ) / 5) * (3 / 5) + (4 / 5) * (4 / 5) = 1 := by norm_num

/-! ### X-ray views at the documented angles -/

section XRayAngles
variable {F : Type} [Field F] [LinearOrder F] [IsStrictOrderedRing F]
local instance : HasNat F := ⟨Nat.cast⟩
local instance : Scico.HasAbs F := ⟨abs⟩

/-- "an angle of 0 corresponds to summing rows, π/2 to summing columns": from the index / weight formulas of
    `_calc_weights`, whenever `sin(angle) = 0` the projected position does not depend on the column (resp. on
    the row when `cos(angle) = 0`), and a view whose bins and weights depend on the row (column) only is the
    1-d footprint operator applied to the row (column) sums of the image — for every pixel size, offset and
    detector. -/
theorem C04_xray_rows_cols (g : XGeom F) (n0 n1 : Nat) (I : Nat → Int) (w x : V F) (ny b : Nat) :
    (g.u1 = 0 → ∀ i j, g.px i j = g.px i 0) ∧ (g.u0 = 0 → ∀ i j, g.px i j = g.px 0 j)
    ∧ (∀ (I0 : Nat → Int) (w0 : V F), (∀ i j, i < n0 → j < n1 → I (i * n1 + j) = I0 i) →
        (∀ i j, i < n0 → j < n1 → w (i * n1 + j) = w0 i) →
        xrayProject (n0 * n1) I w x ny b = xrayProject n0 I0 w0 (rowSums n1 x) ny b)
    ∧ (∀ (I1 : Nat → Int) (w1 : V F), (∀ i j, i < n0 → j < n1 → I (i * n1 + j) = I1 j) →
        (∀ i j, i < n0 → j < n1 → w (i * n1 + j) = w1 j) →
        xrayProject (n0 * n1) I w x ny b = xrayProject n1 I1 w1 (colSums n0 n1 x) ny b) :=
  ⟨fun h i j => xray_px_u1_zero g h i j, fun h i j => xray_px_u0_zero g h i j,
   fun I0 w0 hI hw => xrayProject_rows n0 n1 I w x I0 w0 ny hI hw b,
   fun I1 w1 hI hw => xrayProject_cols n0 n1 I w x I1 w1 ny hI hw b⟩

/-- angle 0 with unit pixels whose edges lie on bin edges (`x0[0] − y0 = d ∈ ℕ`): the view IS the vector of
    row sums placed at bins `d, d+1, …` (`floor` enters only through `floor(z) = z` for integers `z`). -/
theorem C04_xray_angle0 (g : XGeom F) (fl : F → Int) (hfl : ∀ z : Int, fl (z : F) = z) (d n0 n1 ny : Nat)
    (hu0 : g.u0 = 1) (hu1 : g.u1 = 0) (hdx : g.dxa = 1) (hd : g.x0a - g.y0 = d) (x : V F) (b : Nat) (hb : b < ny) :
    xrayProject (n0 * n1) (fun p => g.ind fl (p / n1) (p % n1)) (fun p => g.wt fl (fun z => (z : F)) (p / n1) (p % n1)) x ny b
      = if d ≤ b ∧ b < d + n0 then rowSums n1 x (b - d) else 0 := by
  have hI : ∀ i j, i < n0 → j < n1 → (fun p => g.ind fl (p / n1) (p % n1)) (i * n1 + j) = (d : Int) + i := by
    intro i j _ hj
    have hn1 : 0 < n1 := by omega
    simp only [idx_div hn1 i j hj]
    exact (xray_angle0_weights g fl hfl d hu0 hu1 hdx hd _ _).1
  rw [xrayProject_rows n0 n1 (fun p => g.ind fl (p / n1) (p % n1))
    (fun p => g.wt fl (fun z => (z : F)) (p / n1) (p % n1)) x (fun i => (d : Int) + i) (fun _ => 1) ny hI
    (fun i j _ _ => (xray_angle0_weights g fl hfl d hu0 hu1 hdx hd _ _).2) b]
  exact xrayProject_shift n0 d _ ny b hb

/-- angle π/2 (`u = (0, 1)`), unit pixels along the second axis, aligned edges: the view is the vector of
    column sums placed at bins `d, d+1, …`. -/
theorem C04_xray_angle90 (g : XGeom F) (fl : F → Int) (hfl : ∀ z : Int, fl (z : F) = z) (d n0 n1 ny : Nat)
    (hu0 : g.u0 = 0) (hu1 : g.u1 = 1) (hdx : g.dxb = 1) (hd : g.x0b - g.y0 = d) (x : V F) (b : Nat) (hb : b < ny) :
    xrayProject (n0 * n1) (fun p => g.ind fl (p / n1) (p % n1)) (fun p => g.wt fl (fun z => (z : F)) (p / n1) (p % n1)) x ny b
      = if d ≤ b ∧ b < d + n1 then colSums n0 n1 x (b - d) else 0 := by
  have hI : ∀ i j, i < n0 → j < n1 → (fun p => g.ind fl (p / n1) (p % n1)) (i * n1 + j) = (d : Int) + j := by
    intro i j _ hj
    simp only [idx_mod i j hj]
    exact (xray_angle90_weights g fl hfl d hu0 hu1 hdx hd _ _).1
  rw [xrayProject_cols n0 n1 (fun p => g.ind fl (p / n1) (p % n1))
    (fun p => g.wt fl (fun z => (z : F)) (p / n1) (p % n1)) x (fun j => (d : Int) + j) (fun _ => 1) ny hI
    (fun i j _ _ => (xray_angle90_weights g fl hfl d hu0 hu1 hdx hd _ _).2) b]
  exact xrayProject_shift n1 d _ ny b hb

end XRayAngles

-- non-vacuity: the default geometry of a (2,3) image with `dx = 1`, `det_count = 4`: `x0 = (−1, −3/2)`,
-- `y0 = −2`, so `x0[0] − y0 = 1 ∈ ℕ`; over ℚ with `floor` = `Rat.floor`
example : ∀ z : Int, Rat.floor (z : ℚ) = z := fun z => Rat.floor_intCast z


/-! ### round 2, continued -/

/-- DFT over ANY subset of the axes of an array of any shape (`DFT(input_shape, axes=…)` without `axes_shape`):
    `inv ∘ eval = id` for every normalisation (`s·s'·Π_{a ∈ axes} n_a = 1`); `ws[a] = some ω_a` marks a transformed
    axis, `none` an axis that is left alone. -/
theorem C04_dft_axes_inv {F : Type} [Field F] (dims : List Nat) (ws : List (Option F)) (s s' : F) (x : V F) (p : Nat)
    (hr : RootsOpt dims ws) (hs : s * s' * (dftAxesSize dims ws : F) = 1) (hp : p < prodL dims) :
    s' * dftAxes dims (ws.map (Option.map (·⁻¹))) (fun f => s * dftAxes dims ws x f) p = x p := by
  have e := dftAxes_lin (Finset.range 1) dims (ws.map (Option.map (·⁻¹))) (fun _ => s) (fun _ => dftAxes dims ws x) p
  simp only [Finset.sum_range_one] at e
  rw [e, dftAxes_inv_raw dims ws x p hr hp]
  calc s' * (s * ((dftAxesSize dims ws : F) * x p)) = (s * s' * (dftAxesSize dims ws : F)) * x p := by ring
    _ = x p := by rw [hs, one_mul]

-- non-vacuity: shape (3, 2), transform over axis 1 only, over ℚ
example : RootsOpt [3, 2] [none, some (-1 : ℚ)] := by
  refine ⟨by norm_num, ?_, by norm_num, trivial⟩
  rw [IsPrimitiveRoot.iff_def]
  refine ⟨by norm_num, fun l hl => ?_⟩
  rcases Nat.even_or_odd l with h | h
  · exact even_iff_two_dvd.mp h
  · rw [h.neg_one_pow] at hl; norm_num at hl
example : dftAxesSize [3, 2] [none, some (-1 : ℚ)] = 2 := by decide

/-- further facts about the constructor's shift phases for ANY (fractional) centre: the zero-frequency bin is
    untouched (the shifted filter has the same sum of taps), and away from the Nyquist bin shifts compose. -/
theorem C04_circ_phase_dc_add {F Q : Type} [Field F] [Field Q] [CharZero Q] {E C : Q → F} (h : ExpContract E C)
    (k1 k2 : Q) (s f : Nat) (hs : 0 < s) :
    shiftPhase E C (fun m => (m : Q)) k1 s 0 = 1
    ∧ (2 * f ≠ s → shiftPhase E C (fun m => (m : Q)) (k1 + k2) s f
        = shiftPhase E C (fun m => (m : Q)) k1 s f * shiftPhase E C (fun m => (m : Q)) k2 s f) :=
  ⟨shiftPhase_dc h k1 s hs, shiftPhase_add h k1 k2 s f⟩

section XRayGeometry
variable {F : Type} [Field F] [LinearOrder F] [IsStrictOrderedRing F]
local instance : HasNat F := ⟨Nat.cast⟩
local instance : Scico.HasAbs F := ⟨abs⟩

/-- the weight of the first bin lies in `(0, 1]` (so `w, 1 − w` is a convex split of the pixel value) for every
    geometry with a footprint of positive width; `floor` enters through `floor z ≤ z < floor z + 1`. -/
theorem C04_xray_weight_range (g : XGeom F) (fl : F → Int) (hfl : FloorContract fl) (hw : 0 < g.width) (i j : Nat) :
    0 < g.wt fl (fun z => (z : F)) i j ∧ g.wt fl (fun z => (z : F)) i j ≤ 1 :=
  xray_wt_range g fl hfl hw i j

/-- mass conservation stated on the GEOMETRY: if the detector covers the shadow of the object in a view
    (`0 ≤ Px[i,j]` and `Px[i,j] + 1 < ny` for every pixel, `Px` from the `_calc_weights` formula), the view of
    `XRayTransform2D` conserves the total mass — for every image, pixel size, offset and angle. -/
theorem C04_xray_mass_geometry (g : XGeom F) (fl : F → Int) (hfl : FloorContract fl) (n0 n1 ny : Nat) (x : V F)
    (hcov : ∀ i j, i < n0 → j < n1 → 0 ≤ g.px i j ∧ g.px i j + 1 < (ny : F)) :
    sumTo ny (xrayProject (n0 * n1) (fun p => g.ind fl (p / n1) (p % n1))
        (fun p => g.wt fl (fun z => (z : F)) (p / n1) (p % n1)) x ny) = sumTo (n0 * n1) x :=
  xray_mass_geometry g fl hfl n0 n1 ny x hcov

end XRayGeometry

-- non-vacuity: `Rat.floor` satisfies the floor contract
example : FloorContract (K := ℚ) Rat.floor := fun z => ⟨Rat.le_floor_iff.mp (Int.le_refl _), by
  by_contra h
  have h' : ((Rat.floor z + 1 : Int) : ℚ) ≤ z := by push_cast; exact not_lt.mp h
  have := Rat.le_floor_iff.mpr h'
  omega⟩


/-- end to end for `CircularConvolve` with integer centres over any number of axes: the spectrum the
    CONSTRUCTOR builds (`fftn(h, s=dims)` times `math.prod` of the three-branch `np.select` phases, `shiftPhaseNd`)
    followed by `_eval` (`ifftn(h_dft · fftn x)`) is the signal-domain N-d circular convolution.  `E`, `C` enter
    through `ExpContract` and through `E(−1/n_a)` being a primitive `n_a`-th root of unity (`Roots`). -/
theorem C04_circ_nd_code {F Q : Type} [Field F] [Field Q] [CharZero Q] {E C : Q → F} (h : ExpContract E C)
    (dims ks cs : List Nat) (s : F) (hf x : V F) (p : Nat)
    (hr : Roots dims (dims.map (fun (n : Nat) => E (-(1 / ((n : Nat) : Q))))))
    (hfit : FitsIn ks dims cs) (hs : s * (prodL dims : F) = 1) (hp : p < prodL dims) :
    circNdSpecEval dims (dims.map (fun (n : Nat) => E (-(1 / ((n : Nat) : Q)))))
        (dims.map (fun (n : Nat) => (E (-(1 / ((n : Nat) : Q))))⁻¹)) s
        (fun f => dftNd dims (dims.map (fun (n : Nat) => E (-(1 / ((n : Nat) : Q))))) (padNd ks dims hf) f
          * shiftPhaseNd E C (fun m => (m : Q)) (cs.map (fun (c : Nat) => -((c : Nat) : Q))) dims f) x p
      = circNd ks dims cs hf x p :=
  circNd_code_eq h dims ks cs s hf x p hr hfit hs hp

/-- `ProjectedGradient` with `cdiff=False`, assembled: for every list of gradient axes `(outer, n, inner)` of an
    array of `N` entries and coordinate fields `c_m`, the code (`diffstack` = `snp.diff(…, append=x[-1:])` along each
    axis, then `sum(c[m]·grad[m])`) is multiplication by `Σ_m diag(c_m) · (I ⊗ D_{n_m} ⊗ I)`, `D` the documented
    `append=0` banded matrix of `C04_fd`. -/
theorem C04_proj_grad_fd (N : Nat) (x : V K) (i : Nat) (hi : i < N) (l : List (V K × Nat × Nat × Nat))
    (hl : ∀ s ∈ l, s.2.1 * s.2.2.1 * s.2.2.2 = N ∧ 0 < s.2.2.1) :
    projEval (l.map (fun s => (s.1, alongAxis s.2.2.1 (fdOutLen diffstackCfg s.2.2.1) s.2.2.2 (fdEval diffstackCfg s.2.2.1) x))) i
      = mulVec (projMatrix (l.map (fun s => (s.1,
          kronAxis s.2.2.1 (fdOutLen diffstackCfg s.2.2.1) s.2.2.2 (fdMatrix diffstackCfg s.2.2.1))))) N x i :=
  projGrad_fd N x i hi l hl

-- a (2,2) image, gradient axes 0 and 1, constant coordinate fields 1 and 2: x = [[1,2],[4,8]]
example : (List.range 4).map (projEval (α := Int) ([((fun _ => 1), 1, 2, 2), ((fun _ => 2), 2, 2, 1)].map (fun s : V Int × Nat × Nat × Nat =>
    (s.1, alongAxis s.2.2.1 (fdOutLen diffstackCfg s.2.2.1) s.2.2.2 (fdEval diffstackCfg s.2.2.1) (fun j => [1, 2, 4, 8].getD j 0)))))
    = [5, 6, 8, 0] := by decide


/-! ### 3-D X-ray projector: the voxel footprint split -/

section X3
variable {F : Type} [Field F] [LinearOrder F] [IsStrictOrderedRing F]

/-- split of a voxel footprint `[le, le + w]` between its first bin `floor(le)` and the next one, as coded
    (`to_next = minimum(floor(le) + 1 − le, w)`): for EVERY left edge the first share is the length of the overlap of
    the footprint with the first bin, positive and at most `w` (the complement `w − share` goes to the next bin; the
    four pixel weights are products of two such splits divided by `w²`). -/
theorem C04_xray3d_split (fl : F → Int) (hfl : FloorContract fl) (w le : F) (hw : 0 < w) :
    x3ToNext fl (fun z => (z : F)) 1 w le = x3Overlap fl (fun z => (z : F)) 1 w le
    ∧ 0 < x3ToNext fl (fun z => (z : F)) 1 w le ∧ x3ToNext fl (fun z => (z : F)) 1 w le ≤ w :=
  x3_doc_overlap fl hfl w le hw

/-- record of the defect repaired in 883e83f (found by this engine): the earlier form `minimum(ceil(le) − le, w)`
    agrees with the overlap off the bin edges, but ON a bin edge `z` it gives the first bin the share `0` — the whole
    footprint `[z, z + w] ⊂ [z, z + 1]` was credited to bin `z + 1` — where the overlap is `w`. -/
theorem C04_xray3d_ceil_form (fl cl : F → Int) (hfl : FloorContract fl) (hcl : CeilContract cl) (w : F) (hw : 0 < w)
    (hw1 : w ≤ 1) :
    (∀ le : F, ((fl le : Int) : F) < le → x3ToNextCeil cl (fun z => (z : F)) w le = x3ToNext fl (fun z => (z : F)) 1 w le)
    ∧ (∀ z : Int, x3ToNextCeil cl (fun z => (z : F)) w (z : F) = 0 ∧ x3ToNext fl (fun z => (z : F)) 1 w (z : F) = w) :=
  ⟨fun le hne => x3_coded_eq_doc fl cl hfl hcl w le hne, fun z => x3_coded_integer_edge fl cl hfl hcl w z hw hw1⟩

end X3

example : CeilContract (K := ℚ) Rat.ceil := fun z => by
  constructor
  · have h : ¬ Rat.ceil z ≤ Rat.ceil z - 1 := by omega
    rw [Rat.ceil_le_iff] at h
    push_cast at h
    exact not_le.mp h
  · exact Rat.ceil_le_iff.mp (Int.le_refl _)


/-! ## Round 3 -/

/-! ### 3-D X-ray projector: the four-pixel scatter; mass conservation under the true covering hypothesis -/

/-- `XRayTransform3D._project_single`: the four scatter-adds (weights `t0·t1/w²`, `(w−t0)·t1/w²`, `t0·(w−t1)/w²`,
    `(w−t0)·(w−t1)/w²`, each update dropped on its own when its pixel is off the detector) realise the documented matrix:
    detector pixel `(r, c)` receives the product of the two 1-d fractions of the footprint (area fraction of the square). -/
theorem C04_xray3d_scatter {F : Type} [Field F] (nv : Nat) (I0 I1 : Nat → Int) (t0 t1 : V F) (w : F) (x : V F)
    (d0 d1 : Nat) (q : Nat) (hq : q < d0 * d1) :
    xray3Project nv I0 I1 t0 t1 w x d0 d1 q = mulVec (xray3Matrix I0 I1 t0 t1 w d1) nv x q :=
  xray3_eq_mulVec nv I0 I1 t0 t1 w x d0 d1 q hq

section Cover
variable {F : Type} [Field F] [LinearOrder F] [IsStrictOrderedRing F]
local instance : HasNat F := ⟨Nat.cast⟩
local instance : Scico.HasAbs F := ⟨abs⟩

/-- "X-ray transforms conserve total mass in every view whenever the detector covers the object's shadow", 3-D, from the
    geometry: if every voxel footprint (the square of side `w` with left edges `le0 p`, `le1 p` — centres from the
    projection matrices, a contract) lies on the detector `[0, d0] × [0, d1]`, then `Σ_pixels y = Σ_voxels x`.  Indices
    and shares are those `_calc_weights` computes (`floor`, `x3ToNext`); a pixel just past the detector edge is harmless
    because its share is exactly 0. -/
theorem C04_xray3d_mass (fl : F → Int) (hfl : FloorContract fl) (w : F) (hw : 0 < w) (nv : Nat) (le0 le1 : V F)
    (x : V F) (d0 d1 : Nat)
    (hc0 : ∀ p, p < nv → 0 ≤ le0 p ∧ le0 p + w ≤ (d0 : F)) (hc1 : ∀ p, p < nv → 0 ≤ le1 p ∧ le1 p + w ≤ (d1 : F)) :
    sumTo (d0 * d1) (xray3Project nv (fun p => fl (le0 p)) (fun p => fl (le1 p))
        (fun p => x3ToNext fl (fun z => (z : F)) 1 w (le0 p)) (fun p => x3ToNext fl (fun z => (z : F)) 1 w (le1 p)) w x d0 d1)
      = sumTo nv x :=
  xray3_mass_geometry fl hfl w hw nv le0 le1 x d0 d1 hc0 hc1

/-- the same for `XRayTransform2D` with the TRUE covering hypothesis `0 ≤ Px` and `Px + width ≤ ny` for every pixel
    (weaker than the `Px + 1 < ny` of `C04_xray_mass_geometry`: the boxcar may end exactly at the detector edge). -/
theorem C04_xray_mass_covered (g : XGeom F) (fl : F → Int) (hfl : FloorContract fl) (hw : 0 < g.width)
    (n0 n1 ny : Nat) (x : V F)
    (hcov : ∀ i j, i < n0 → j < n1 → 0 ≤ g.px i j ∧ g.px i j + g.width ≤ (ny : F)) :
    sumTo ny (xrayProject (n0 * n1) (fun p => g.ind fl (p / n1) (p % n1))
        (fun p => g.wt fl (fun z => (z : F)) (p / n1) (p % n1)) x ny) = sumTo (n0 * n1) x :=
  xray_mass_covered_geometry g fl hfl hw n0 n1 ny x hcov

end Cover

-- a voxel whose footprint [1, 3/2]² ends inside pixel (1,1) of a (2,2) detector: all of it arrives there
example : (List.range 4).map (xray3Project (α := ℚ) 1 (fun _ => 1) (fun _ => 1) (fun _ => 1 / 2) (fun _ => 1 / 2) (1 / 2)
    (fun _ => 3) 2 2) = [0, 0, 0, 3] := by
  simp [xray3Project, onDet, sumTo, List.range, List.range.loop]
  norm_num


/-! ### zero-padded N-d DFT -/

/-- `DFT(input_shape = ns, axes, axes_shape)` with transform shape `ms ≥ ns` (zero padding) over ANY subset of the axes
    of an N-d array: the inverse the documentation promises — inverse transform at the transform shape, then crop to
    the input shape — undoes `_eval = fftn(x, s=axes_shape, axes, norm)`, for every normalisation.  (N-d form of
    `C04_dft_inv_documented`; this is what `fixes/dft-inv-padded.patch` implements.) -/
theorem C04_dft_nd_inv_documented {F : Type} [Field F] (ns ms : List Nat) (ws : List (Option F)) (s s' : F) (x : V F)
    (p : Nat) (hfit : FitsPad ns ms) (hr : RootsOpt ms ws) (hs : s * s' * (dftAxesSize ms ws : F) = 1)
    (hp : p < prodL ns) :
    dftInvDocNd ns ms (ws.map (Option.map (·⁻¹))) s' (dftFwdPad ns ms ws s x) p = x p :=
  dftPad_inv_documented ns ms ws s s' x p hfit hr hs hp

/-- proved part for `DFT.inv` AS CODED in N dimensions (`ifftn(z, s=inv_axes_shape, axes)`): it undoes `DFT` when the
    transform shape equals the input shape.  Missing for the full statement: `ms > ns` on some axis, where the code crops
    the spectrum (next theorem). -/
theorem C04_dft_nd_inv_partial {F : Type} [Field F] (ns : List Nat) (ws : List (Option F)) (s s' : F) (x : V F) (p : Nat)
    (hr : RootsOpt ns ws) (hs : s * s' * (dftAxesSize ns ws : F) = 1) (hp : p < prodL ns) :
    dftInvCodedNd ns ns (ws.map (Option.map (·⁻¹))) s' (dftFwdPad ns ns ws s x) p = x p :=
  dftInvCoded_unpadded ns ws s s' x p hr hs hp

/-- negation witness in N dimensions for the code as it is (known finding `dft-inv-padded`): `DFT((1,2), axes=(1,),
    axes_shape=(4,))` on `[[0, 1]]`: `inv(eval(x))[0,0] = (1 − i)/2 ≠ 0`. -/
theorem C04_dft_nd_inv_padded_fails :
    dftInvCodedNd [1, 2] [1, 4] [none, some (-1 : ℂ)] (1 / 2)
        (dftFwdPad [1, 2] [1, 4] [none, some (-Complex.I)] 1 (fun j => if j = 1 then 1 else 0)) 0
      ≠ (fun j => if j = 1 then (1 : ℂ) else 0) 0 := by
  simp [dftInvCodedNd, dftFwdPad, dftAxes, padNd, slab, prodL, sumTo, dftEval.npow, Complex.ext_iff]

example : FitsPad [2, 3] [4, 3] := by simp [FitsPad]
example : embedIdx [2, 3] [4, 5] 4 = 6 := by decide


/-! ### Abel transform: the quadrant assembly -/

/-- `AbelTransform._eval` = `_pyabel_transform(x, "forward", P)`: extracting the four quadrants (flipped to the
    orientation of the upper right one), multiplying each by the single-quadrant matrix `P` (`Q.dot(P)`; `P` itself —
    PyAbel's Daun basis projection — is a contract), trimming the duplicated centre row / column of odd sizes and
    reassembling, is `I_n ⊗ T`: every image row is transformed on its own by `T = abelRowMatrix P m mc` (`P` on the right
    half, mirrored on the left half).  Every `n`, `m ≥ 1`, every `P`; the same holds for `"transpose"` (`P.T`) and for any
    other matrix in place of `P`. -/
theorem C04_abel_rows (P : M K) (n m nc mc : Nat) (hm0 : 0 < m) (hmc : mc ≤ m) (x : V K) (p : Nat) (hp : p < n * m) :
    abelEval P n m nc mc x p = mulVec (kronAxis m m 1 (abelRowMatrix P m mc)) (n * m * 1) x p :=
  abelEval_kron P n m nc mc hm0 hmc x p hp

/-- "the input image is assumed to be centered and left-right symmetric": for an even number of columns the row
    matrix commutes with the left-right flip, so a symmetric image has a symmetric transform. -/
theorem C04_abel_mirror (P : M K) (mc c c' : Nat) (hc : c < 2 * mc) (hc' : c' < 2 * mc) :
    abelRowMatrix P (2 * mc) mc (2 * mc - 1 - c) (2 * mc - 1 - c') = abelRowMatrix P (2 * mc) mc c c' :=
  abelRowMatrix_mirror P mc c c' hc hc'

-- a 1×3 image (odd width, mc = 2) with P = [[1,2],[0,3]]: the centre column is taken from the right half
example : (List.range 3).map (abelEval (α := Int) (fun i j => [[1, 2], [0, 3]].getD i [] |>.getD j 0) 1 3 1 2
    (fun j => [5, 7, 11].getD j 0)) = [29, 7, 47] := by decide


/-! ### constructor metadata of the convolution classes -/

/-- dtype promotion of `CircularConvolve` / `Convolve` / `ConvolveByX` (`result_type(filter, input)`): complex exactly
    when filter or input is, double precision exactly when one of them is; commutative, idempotent, and a real output
    (`real = True`, the `.real` part is returned) exactly for real filter AND real input. -/
theorem C04_conv_dtype (a b : DT) :
    (resultType a b).cx = (a.cx || b.cx) ∧ (resultType a b).wide = (a.wide || b.wide)
    ∧ resultType a b = resultType b a ∧ resultType a a = a
    ∧ (∀ hs is nd out odt real, circInit hs is nd false false a b = some (out, odt, real) →
        odt = resultType a b ∧ (real = true ↔ a.cx = false ∧ b.cx = false)) := by
  refine ⟨by cases a <;> cases b <;> rfl, by cases a <;> cases b <;> rfl, by cases a <;> cases b <;> rfl,
    by cases a <;> rfl, ?_⟩
  intro hs is nd out odt real h
  simp only [circInit, Bool.false_and, Bool.false_eq_true, if_false] at h
  split at h
  · cases h
  · simp only [Option.some.injEq, Prod.mk.injEq] at h
    obtain ⟨_, h2, h3⟩ := h
    subst h2 h3
    refine ⟨rfl, ?_⟩
    cases a <;> cases b <;> simp [resultType, DT.mk, DT.cx, DT.wide]

/-- error cases of the constructors: `h_center` with `h_is_dft` is rejected whatever the shapes; `Convolve` rejects a
    filter of the wrong rank and an unknown mode, and accepts the three documented modes for equal ranks. -/
theorem C04_conv_init_errors (hs is : List Nat) (nd : Option Nat) (a b : DT) (k : Nat) (mode : String) :
    circInit hs is nd true true a b = none
    ∧ (∀ j, j ≠ k → convInit j k mode a b = none)
    ∧ (mode = "full" ∨ mode = "valid" ∨ mode = "same" → convInit k k mode a b = some (resultType b a)) := by
  refine ⟨by simp [circInit], fun j hj => by simp [convInit, hj], fun h => ?_⟩
  rcases h with rfl | rfl | rfl <;> simp [convInit]

example : circInit [3, 2] [4] (some 1) false false .f64 .f64 = some ([3, 4], .f64, true) := by decide
example : circInit [2, 3] [3, 4] (some 1) false true .c128 .f64 = none := by decide   -- (2,4) vs (3,4) do not broadcast
example : broadcastShapes [2, 1, 4] [3, 1] = some [2, 3, 4] := by decide


/-! ### N-d circular convolution with a filter longer than some axes -/

/-- `C04_circ_nd_fft` without the restriction `ks ≤ dims`: for a filter of ANY shape (same rank), what
    `CircularConvolve._eval` computes is the N-d circular convolution with the filter CROPPED to `min(ks, dims)` axis by
    axis (`fftn(h, s=dims)` crops), `cropFilter ks dims h = h[:n_0, :n_1, …]`. -/
theorem C04_circ_nd_fft_crop {F : Type} [Field F] (dims : List Nat) (ws : List F) (ks cs : List Nat) (s : F)
    (h x : V F) (p : Nat) (hr : Roots dims ws) (hk : ks.length = dims.length) (hc : cs.length = dims.length)
    (hs : s * (prodL dims : F) = 1) (hp : p < prodL dims) :
    circNdSpecEval dims ws (ws.map (·⁻¹)) s
        (fun f => dftNd dims ws (padNd ks dims h) f * phaseNd dims (ws.map (·⁻¹)) cs f) x p
      = circNd (minShape ks dims) dims cs (cropFilter ks dims h) x p :=
  circNd_fft_crop dims ws ks cs s h x p hr hk hc hs hp

-- a (2,3) filter on a (3,2) image: cropped to (2,2), keeping h[0,0], h[0,1], h[1,0], h[1,1]
example : minShape [2, 3] [3, 2] = [2, 2]
    ∧ (List.range 4).map (cropFilter [2, 3] [3, 2] (fun q => [10, 11, 12, 20, 21, 22].getD q 0)) = [10, 11, 20, 21] := by decide


/-! ## Round 4 -/

/-! ### optical propagators `F⁻¹ D F` -/

/-- `Propagator._eval = F.inv(D @ F @ x)` without padding (`pad_factor = 1`), over any subset of transformed axes and for
    every DFT normalisation: with the transfer function `D ≡ 1` (propagation distance `z = 0`: `exp(0)`) the propagator is
    the identity, and propagators compose like their transfer functions — propagating with `D₂` and then with `D₁` is
    propagating with `D₁·D₂` (for `D_z = exp(i z φ)`: distances add).  With `pad_factor > 1` the coded inverse crops the
    spectrum (known finding `dft-inv-padded`), so neither holds there; with the documented inverse the identity for `D ≡ 1`
    is `C04_dft_nd_inv_documented`. -/
theorem C04_propagator_semigroup {F : Type} [Field F] (ns : List Nat) (ws : List (Option F)) (s s' : F) (D1 D2 x : V F)
    (p : Nat) (hr : RootsOpt ns ws) (hs : s * s' * (dftAxesSize ns ws : F) = 1) (hp : p < prodL ns) :
    ((∀ f, f < prodL ns → D1 f = 1) → propEval ns ns ws (ws.map (Option.map (·⁻¹))) s s' D1 x p = x p)
    ∧ propEval ns ns ws (ws.map (Option.map (·⁻¹))) s s' D1 (propEval ns ns ws (ws.map (Option.map (·⁻¹))) s s' D2 x) p
        = propEval ns ns ws (ws.map (Option.map (·⁻¹))) s s' (fun f => D1 f * D2 f) x p :=
  ⟨fun hD => prop_one ns ws s s' D1 x p hr hs hD hp, prop_mul ns ws s s' D1 D2 x p hr hs hp⟩

-- a 2-point propagator over ℚ with D = (1, -1): applying it twice is the identity (D·D = 1)
example : (List.range 2).map (propEval (α := ℚ) [2] [2] [some (-1)] [some (-1)] 1 (1 / 2) (fun f => if f = 0 then 1 else -1)
    (propEval [2] [2] [some (-1)] [some (-1)] 1 (1 / 2) (fun f => if f = 0 then 1 else -1) (fun j => if j = 0 then 3 else 5)))
    = [3, 5] := by
  simp [propEval, dftInvCodedNd, dftFwdPad, dftAxes, padNd, slab, prodL, sumTo, dftEval.npow, List.range, List.range.loop]
  norm_num


/-! ## Round 5 -/

/-- padded propagators (`pad_factor > 1`, transform shape `ms ≥ ns`), statement for the DOCUMENTED operator `F⁻¹ D F` (inverse
    at the padded shape, then crop): propagation over `z = 0` (`D ≡ 1`) is the identity, any axes subset, every norm. -/
theorem C04_propagator_padded_documented {F : Type} [Field F] (ns ms : List Nat) (ws : List (Option F)) (s s' : F)
    (D x : V F) (p : Nat) (hfit : FitsPad ns ms) (hr : RootsOpt ms ws) (hs : s * s' * (dftAxesSize ms ws : F) = 1)
    (hD : ∀ f, f < prodL ms → D f = 1) (hp : p < prodL ns) :
    propEvalDoc ns ms ws (ws.map (Option.map (·⁻¹))) s s' D x p = x p :=
  propDoc_one ns ms ws s s' D x p hfit hr hs hD hp

/-- negation witness for the code as it is (known finding `dft-inv-padded`): the padded propagator `F.inv(D @ F @ x)` with
    `D ≡ 1` is NOT the identity — input `[[0, 1]]`, padded shape `(1, 4)`: the result at `[0,0]` is `(1 − i)/2`.  The
    model `propEval` is what the adapter ties to the real padded propagators (matrix of the code as it is). -/
theorem C04_propagator_padded_fails :
    propEval [1, 2] [1, 4] [none, some (-Complex.I)] [none, some (-1 : ℂ)] 1 (1 / 2) (fun _ => 1)
        (fun j => if j = 1 then 1 else 0) 0 ≠ (fun j => if j = 1 then (1 : ℂ) else 0) 0 := by
  simp [propEval, dftInvCodedNd, dftFwdPad, dftAxes, padNd, slab, prodL, sumTo, dftEval.npow, Complex.ext_iff]


/-- `XRayTransform3D.matrices_from_euler_angles` (assembly around scipy's rotation matrix `R`, a contract): with
    `M = diag(1/det_spacing)·R[:2,:]·diag(voxel_spacing)` and `t = −M·(input_shape/2) + output_shape/2` the centre of the
    volume is projected to the centre of the detector for EVERY rotation and spacing ("line up the centers"), and for the
    identity rotation with unit spacings voxel coordinates are only translated. -/
theorem C04_xray3d_euler_centre {F : Type} [Field F] (R : M F) (vs ds halfIn halfOut x : V F) (i : Nat) :
    eulerProject R vs ds halfIn halfOut halfIn i = halfOut i
    ∧ (i < 2 → eulerProject (fun a b => if a = b then (1 : F) else 0) (fun _ => 1) (fun _ => 1) halfIn halfOut x i
        = x i - halfIn i + halfOut i) :=
  ⟨euler_centre R vs ds halfIn halfOut i, euler_identity halfIn halfOut x i⟩

example : eulerProject (α := ℚ) (fun a b => if a = b then 1 else 0) (fun _ => 1 / 2) (fun _ => 2) (fun _ => 1) (fun _ => 3)
    (fun _ => 5) 0 = 4 := by
  simp [eulerProject, eulerT, eulerM, sumTo]; norm_num

end Scico.Props.C04
