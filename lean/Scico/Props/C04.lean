/-
  Property C04 — built-in operators compute exactly their documented mathematical maps.
  ONLY property theorems (and non-vacuity examples) here; models in `Scico/Model/LinOps.lean`,
  lemmas in `Scico/Proofs/LinOps*.lean`.

  Every theorem has the form  "the map as the code builds it" = "the documented matrix · x"
  (or an exact identity of the documented map), for all sizes, all options, all vectors.
  `K` is any commutative ring (so `ℤ`, `ℚ`, `ℝ`, `ℂ`), a field where division is needed.
-/
import Scico.Proofs.LinOps2
import Scico.Proofs.LinOps3
import Scico.Proofs.LinOps4
import Mathlib.Data.Complex.Basic
import Mathlib.Tactic.NormNum

namespace Scico.Props.C04
open Scico.LinOps Scico.Shape

variable {K : Type} [CommRing K]

/-! ### finite differences -/

/-- `SingleAxisFiniteDifference` (`diff` after prepending / appending a slice or a zero, or the
    circular wrap) is multiplication by the banded matrix of the class docstring, for each of the
    3×3 `prepend`/`append` options and `circular`, every length `n ≥ 1`, every output row. -/
theorem C04_fd (c : FDCfg) (n : Nat) (hn : 0 < n) (x : V K) (i : Nat) (hi : i < fdOutLen c n) :
    fdEval c n x i = mulVec (fdMatrix c n) n x i :=
  fdEval_eq_mulVec c n hn x i hi

/-- lifting lemma: a 1-d linear map applied along one axis of an N-d row-major array is
    `I_outer ⊗ A ⊗ I_inner`. -/
theorem C04_alongAxis (outer n m inner : Nat) (A : M K) (x : V K) (p : Nat) (hp : p < outer * m * inner) :
    alongAxis n m inner (mulVec A n) x p = mulVec (kronAxis n m inner A) (outer * n * inner) x p :=
  alongAxis_mulVec outer n m inner A x p hp

/-- the `(outer, k, inner)` split used by `alongAxis` is the row-major layout around any axis of an N-d shape -/
theorem C04_ravel_axis (pre post ip iq : List Nat) (n k : Nat) (h : ip.length = pre.length) :
    ravel (pre ++ n :: post) (ip ++ k :: iq) = (ravel pre ip * n + k) * prodL post + ravel post iq :=
  ravel_axis pre post ip iq n k h

/-- finite difference along any axis of an N-d array = Kronecker-lifted documented matrix -/
theorem C04_fd_axis (c : FDCfg) (outer n inner : Nat) (hn : 0 < n) (x : V K) (p : Nat)
    (hp : p < outer * fdOutLen c n * inner) :
    alongAxis n (fdOutLen c n) inner (fdEval c n) x p
      = mulVec (kronAxis n (fdOutLen c n) inner (fdMatrix c n)) (outer * n * inner) x p :=
  fd_axis c outer n inner hn x p hp

/-- `FiniteDifference` over any list of axes = block column of the lifted banded matrices -/
theorem C04_fd_multi_axis (c : FDCfg) (N : Nat) (specs : List (Nat × Nat × Nat))
    (hs : ∀ s ∈ specs, s.1 * s.2.1 * s.2.2 = N ∧ 0 < s.2.1) (x : V K) (i : Nat) (hi : i < fdNdRows c specs) :
    fdNdEval c specs x i = mulVec (fdNdMatrix c specs) N x i :=
  fdNd_eq_mulVec c N specs hs x i hi

-- non-vacuity / the four matrices displayed in the docstring (n = 4, over ℤ)
example : fdRows ⟨.no, .no, false⟩ 4 = [[-1, 1, 0, 0], [0, -1, 1, 0], [0, 0, -1, 1]] := by decide
example : fdRows ⟨.no, .no, true⟩ 4 = [[-1, 1, 0, 0], [0, -1, 1, 0], [0, 0, -1, 1], [1, 0, 0, -1]] := by decide
example : fdRows ⟨.no, .b0, false⟩ 4 = [[-1, 1, 0, 0], [0, -1, 1, 0], [0, 0, -1, 1], [0, 0, 0, 0]] := by decide
example : fdRows ⟨.b1, .b1, false⟩ 4 = [[1, 0, 0, 0], [-1, 1, 0, 0], [0, -1, 1, 0], [0, 0, -1, 1], [0, 0, 0, -1]] := by decide
example : fdRows ⟨.b0, .b1, false⟩ 3 = [[0, 0, 0], [-1, 1, 0], [0, -1, 1], [0, 0, -1]] := by decide
example : (List.range 3).map (fdEval (α := Int) ⟨.b1, .no, false⟩ 3 (fun j => [5, 7, 4].getD j 0)) = [5, 2, -3] := by decide

/-- `SingleAxisFiniteSum` (`x + roll(x, −1)`, the low-pass half of the Haar transform used by the TV
    norm) = ones on the diagonal and the circular superdiagonal (the class docstring without its
    spurious first row, see `fixes/finitesum-docstring.patch`) -/
theorem C04_finite_sum (n : Nat) (hn : 0 < n) (x : V K) (i : Nat) (hi : i < n) :
    fsumEval n x i = mulVec (fsumMatrix n) n x i :=
  fsumEval_eq_mulVec n hn x i hi

example : (List.range 3).map (fun i => (List.range 3).map (fsumMatrix (α := Int) 3 i)) = [[1, 1, 0], [0, 1, 1], [1, 0, 1]] := by decide

/-! ### stacks -/

/-- `VerticalStack` = block column `(A_1; …; A_N)` -/
theorem C04_stack_blockmatrix (ops : List (M K × Nat)) (n : Nat) (x : V K) (i : Nat) (hi : i < totalRows ops) :
    vstackEval ops n x i = mulVec (vstackMatrix ops) n x i :=
  vstack_eq_mulVec ops n x i hi

/-- `DiagonalStack` = block diagonal `diag(A_1, …, A_N)` -/
theorem C04_stack_blockdiag (ops : List (M K × Nat × Nat)) (x : V K) (i : Nat) (hi : i < dRows ops) :
    dstackEval ops x i = mulVec (dstackMatrix ops) (dCols ops) x i :=
  dstack_eq_mulVec ops x i hi

example : (List.range 3).map (vstackEval (α := Int) [(fun _ _ => 1, 1), (fun i j => if i = j then 2 else 0, 2)] 2
    (fun j => [3, 4].getD j 0)) = [7, 6, 8] := by decide

/-! ### circular convolution -/

/-- signal-domain circular convolution with integer centre shift = the documented circulant -/
theorem C04_circ (h : V K) (k n c : Nat) (hk : k ≤ n) (hn : 0 < n) (x : V K) (i : Nat) :
    circEval h k n c x i = mulVec (circMatrix h k n c) n x i :=
  circEval_eq_mulVec h k n c hk hn x i

/-- circulant structure: the matrix commutes with the cyclic shift -/
theorem C04_circ_circulant (h : V K) (k n c : Nat) : ShiftInvariant (circMatrix h k n c) n :=
  circMatrix_shiftInvariant h k n c

/-- `CircularConvolve.from_operator` of a shift-invariant operator reproduces its matrix, for any
    placement `d` of the impulse -/
theorem C04_circ_from_operator (A : M K) (n d : Nat) (hA : ShiftInvariant A n) (hd : d < n)
    (i j : Nat) (hi : i < n) (hj : j < n) : fromOperatorMatrix A n d i j = A i j :=
  fromOperator_eq A n d hA hd i j hi hj

/-- convolution theorem with the centre-shift phase: what `CircularConvolve._eval` computes —
    `ifft( fft(h, n) · exp(+2πi c f/n) · fft(x) )` — equals the signal-domain circular convolution with
    filter centre `c` (exact in any field with a primitive `n`-th root of unity `ζ = exp(−2πi/n)`;
    for an integer `c` the three branches of the phase in the code all equal `ζ⁻¹^(c f)`). -/
theorem C04_circ_fft {F : Type} [Field F] {ζ : F} {n : Nat} (hζ : IsPrimitiveRoot ζ n) (hn : 0 < n)
    (hnF : (n : F) ≠ 0) (h : V F) (k c : Nat) (hk : k ≤ n) (x : V F) (j : Nat) :
    dftInvCropEval ζ⁻¹ (1 / (n : F)) n
        (fun f => dftEval ζ 1 n n (padTo h k) f * ζ⁻¹ ^ (c * f) * dftEval ζ 1 n n x f) j
      = circEval h k n c x j :=
  circ_fft_eq hζ hn hnF h k c hk x j

example : (List.range 4).map (circEval (α := Int) (fun m => [1, -1].getD m 0) 2 4 1 (fun j => [3, 5, 6, 10].getD j 0))
    = [2, 1, 4, -7] := by decide

/-! ### linear convolution and its output modes -/

/-- full convolution (sum over the filter taps) = Toeplitz matrix, and each mode is the documented
    window of it -/
theorem C04_conv_modes (mode : ConvMode) (h : V K) (k : Nat) (x : V K) (n : Nat) (i : Nat) :
    convEval mode h k x n i = mulVec (convMatrix mode h k n) n x i :=
  convEval_eq_mulVec mode h k x n i

/-- index ranges: every kept output is an output of `full` (sizes `n+k−1`, `n`, `max−min+1`) -/
theorem C04_conv_ranges (mode : ConvMode) (n1 n2 : Nat) (h1 : 0 < n1) (h2 : 0 < n2) :
    convStart mode n1 n2 + convLen mode n1 n2 ≤ n1 + n2 - 1 :=
  conv_range mode n1 n2 h1 h2 (fun _ => Nat.le_total n2 n1)

/-- `valid` keeps exactly outputs whose every product lies inside both arrays -/
theorem C04_conv_valid_complete (n k : Nat) (hk : 0 < k) (hkn : k ≤ n) (i : Nat) (hi : i < convLen .valid n k) :
    ∀ m, m < k → m ≤ i + convStart .valid n k ∧ i + convStart .valid n k - m < n :=
  conv_valid_complete n k hk hkn i hi

example : (List.range 4).map (convEval (α := Int) .full (fun m => [1, 2].getD m 0) 2 (fun j => [1, 1, 3].getD j 0) 3)
    = [1, 3, 5, 6] := by decide
example : (List.range 3).map (convEval (α := Int) .same (fun m => [1, 2].getD m 0) 2 (fun j => [1, 1, 3].getD j 0) 3)
    = [1, 3, 5] := by decide
example : (List.range 2).map (convEval (α := Int) .valid (fun m => [1, 2].getD m 0) 2 (fun j => [1, 1, 3].getD j 0) 3)
    = [3, 5] := by decide

/-! ### index maps -/

/-- `Slice`: every selected position is inside the axis and the map is the selection matrix
    (positions are those of Python slicing, cf. C12). -/
theorem C04_slice (n : Nat) (sl : PySlice) (a b s : Int) (h : pyIndices n sl = some (a, b, s))
    (x : V K) (t : Nat) (ht : (t : Int) < rangeLen a b s) :
    (0 ≤ a + t * s ∧ a + t * s < n) ∧ sliceEval a s x t = mulVec (sliceMatrix a s) n x t := by
  obtain ⟨hs, hpos, hneg⟩ := pyIndices_bounds n sl a b s h
  have hb := slice_pos_in_range hs hpos hneg t ht
  exact ⟨hb, sliceEval_eq_mulVec n a s x t hb.1 hb.2⟩

/-- position `t` of the slice is element `t` of the enumeration `selected` that C12 proves correct -/
theorem C04_slice_selected (n : Nat) (sl : PySlice) (a b s : Int) (l : List Int)
    (h : pyIndices n sl = some (a, b, s)) (hl : selected n sl = some l) (t : Nat) (ht : t < l.length) :
    l[t] = a + t * s := by
  unfold selected at hl
  simp only [h, Option.some.injEq] at hl
  subst hl
  exact rangeList_getElem n a b s t ht

/-- zero `Pad` and `Crop` are the documented shift matrices; `Crop` is a left inverse and the
    adjoint of `Pad`; the output length computed as `2·in − padded` is `in − lo − hi`. -/
theorem C04_pad_crop (lo n hi : Nat) (x y : V K) :
    (∀ i, padEval lo n x i = mulVec (padMatrix lo) n x i)
    ∧ (∀ i, i + lo < lo + n + hi → cropEval lo y i = mulVec (cropMatrix lo) (lo + n + hi) y i)
    ∧ (∀ i, i < n → cropEval lo (padEval lo n x) i = x i)
    ∧ dotTo (lo + n + hi) (padEval lo n x) y = dotTo n x (cropEval lo y)
    ∧ cropOutLen (lo + n + hi) lo hi = n :=
  ⟨fun i => padEval_eq_mulVec lo n x i, fun i h => cropEval_eq_mulVec lo _ y i h,
   fun i h => crop_pad lo n x i h, pad_crop_adjoint lo n hi x y,
   by rw [cropOutLen_eq]; push_cast; ring⟩

/-- `Sum` over an axis = `I ⊗ 1ᵀ ⊗ I` -/
theorem C04_sum (outer n inner : Nat) (x : V K) (p : Nat) (hp : p < outer * inner) :
    sumAxisEval n inner x p = mulVec (sumAxisMatrix n inner) (outer * n * inner) x p :=
  sumAxis_eq_mulVec outer n inner x p hp

/-- `Transpose` / `Reshape`: row-major index arithmetic.  Flat and multi-indices are inverse to each
    other (so `Reshape`, which keeps the flat index, moves element `k` to multi-index
    `unravel newshape k`), and `transpose(x, perm)` puts the input element with multi-index `idx` at
    the output multi-index `perm.map idx[·]`, for every permutation of the axes. -/
theorem C04_transpose_reshape {α : Type} (dims perm idx : List Nat) (x : V α)
    (hperm : perm.Perm (List.range dims.length)) (hidx : InBounds dims idx) :
    (∀ k, k < prodL dims → ravel dims (unravel dims k) = k ∧ InBounds dims (unravel dims k))
    ∧ unravel dims (ravel dims idx) = idx
    ∧ transposeEval dims perm x (ravel (perm.map (fun a => dims.getD a 1)) (perm.map (fun a => idx.getD a 0)))
        = x (ravel dims idx) :=
  ⟨fun k hk => ⟨ravel_unravel dims k hk, unravel_inBounds dims k hk⟩, unravel_ravel dims idx hidx,
   transposeEval_spec dims perm idx x hperm hidx⟩

/-- swapping two adjacent axes, in flat-index form -/
theorem C04_swap_axes {α : Type} (a b inner : Nat) (x : V α) (o i j r : Nat) (hi : i < a) (hj : j < b) (hr : r < inner) :
    swapAxesEval a b inner x (((o * b + j) * a + i) * inner + r) = x (((o * a + i) * b + j) * inner + r) := by
  have := @swapAxes_spec α a b inner x o i j r hi hj hr
  exact this

example : (List.range 6).map (transposeEval [2, 3] [1, 0] (fun k => k)) = [0, 3, 1, 4, 2, 5] := by decide
example : (List.range 5).map (padEval (α := Int) 1 3 (fun j => [7, 8, 9].getD j 0)) = [0, 7, 8, 9, 0] := by decide
example : pyIndices 5 ⟨none, none, some (-2)⟩ = some (4, -1, -2) := by decide

/-! ### X-ray projector -/

/-- with no negative bin index the two scatter-adds realise the documented two-bin matrix -/
theorem C04_xray_matrix (np : Nat) (I : Nat → Int) (w x : V K) (ny : Nat) (hI : ∀ p, p < np → 0 ≤ I p)
    (b : Nat) (hb : b < ny) : xrayProject np I w x ny b = mulVec (xrayMatrix I w) np x b :=
  xray_eq_mulVec np I w x ny hI b hb

/-- mass conservation in a view: `Σ_bins y = Σ_pixels x` whenever all `I` and `I+1` lie on the detector -/
theorem C04_xray_mass (np : Nat) (I : Nat → Int) (w x : V K) (ny : Nat)
    (hI : ∀ p, p < np → 0 ≤ I p ∧ I p + 1 < ny) :
    sumTo ny (xrayProject np I w x ny) = sumTo np x :=
  xray_mass np I w x ny hI

/-- converse failure: one pixel of mass 1 whose second bin falls off a 1-bin detector loses mass -/
theorem C04_xray_mass_fails_off_detector :
    sumTo 1 (xrayProject (α := ℚ) 1 (fun _ => 0) (fun _ => 1 / 2) (fun _ => 1) 1) ≠ sumTo 1 (fun _ => (1 : ℚ)) := by
  simp [sumTo, xrayProject, fixNeg]

example : ∀ p : Nat, p < 2 → (0 : Int) ≤ (fun p : Nat => (p : Int)) p ∧ (fun p : Nat => (p : Int)) p + 1 < (3 : Nat) := by
  intro p hp; simp only; omega

/-! ### DFT -/

/-- constructor bookkeeping of `DFT(input_shape, axes, axes_shape)`: output shape is the input shape
    with `axes_shape[k]` on axis `axes[k]` and unchanged elsewhere; `inv_axes_shape` restores the input
    sizes, so `inv` returns an array of the input shape. -/
theorem C04_dft_shape (inShape ax s : List Nat) (hlen : ax.length = s.length) (hnd : ax.Nodup)
    (hax : ∀ a ∈ ax, a < inShape.length) :
    ∃ out, dftInit ⟨inShape, some ax, some s⟩ = some (some ax, out, some (ax.map (fun i => inShape.getD i 0)))
      ∧ out.length = inShape.length
      ∧ (∀ k (hk : k < ax.length), out[ax[k]]? = some (s[k]'(hlen ▸ hk)))
      ∧ (∀ i, i ∉ ax → out[i]? = inShape[i]?)
      ∧ dftInvShape (some ax) out (some (ax.map (fun i => inShape.getD i 0))) = inShape := by
  refine ⟨setMany inShape (ax.zip s), ?_, setMany_length _ _, ?_, ?_, ?_⟩
  · simp [dftInit, hlen, setMany]
  · intro k hk
    have hk' : k < s.length := hlen ▸ hk
    apply setMany_getElem?_of_mem
    · rw [List.map_fst_zip (by omega)]; exact hnd
    · exact List.mem_iff_getElem.mpr ⟨k, by simp [hk, hk'], by simp⟩
    · exact hax _ (List.getElem_mem hk)
  · intro i hi
    apply setMany_getElem?_of_not_mem
    rw [List.map_fst_zip (by omega)]; exact hi
  · unfold dftInvShape
    apply setMany_restore inShape _ ax (setMany_length _ _)
    intro i hi
    apply setMany_getElem?_of_not_mem
    rw [List.map_fst_zip (by omega)]; exact hi

/-- `axes=None` with `axes_shape` of length `r`: the transform acts on the trailing `r` axes -/
theorem C04_dft_default_axes (inShape s : List Nat) :
    ∃ out inv, dftInit ⟨inShape, none, some s⟩
      = some (some ((List.range s.length).map (fun k => inShape.length - s.length + k)), out, inv) := by
  simp [dftInit]

/-- without `axes_shape` nothing changes and `inv` is the plain inverse transform -/
theorem C04_dft_no_axes_shape (inShape : List Nat) (ax : Option (List Nat)) :
    dftInit ⟨inShape, ax, none⟩ = some (ax, inShape, none) := by
  cases ax <;> simp [dftInit]

example : dftInit ⟨[4, 5, 6], some [0, 2], some [8, 3]⟩ = some (some [0, 2], [8, 5, 3], some [4, 6]) := by decide
example : dftInit ⟨[4, 5, 6], none, some [7]⟩ = some (some [2], [4, 5, 7], some [6]) := by decide

section Field
variable {F : Type} [Field F]

/-- FULL statement (NOT claimed for the code as it is): `inv ∘ eval = id` whenever no axis is
    truncated, i.e. for every `m ≥ n`. -/
def C04_dft_inv_stmt : Prop :=
  ∀ (n m : Nat) (ζm ζn : ℂ) (s s' : ℂ), n ≤ m → 0 < n → IsPrimitiveRoot ζm m → IsPrimitiveRoot ζn n →
    s * s' * (n : ℂ) = 1 → ∀ (x : V ℂ) (j : Nat), j < n →
      dftInvEval ζn⁻¹ s' n m (dftEval ζm s n m x) j = x j

/-- proved part: `DFT.inv` undoes `DFT` for every normalisation (`s·s'·n = 1`: backward `1, 1/n`,
    ortho `1/√n, 1/√n`, forward `1/n, 1`) when the transform size equals the input size
    (`axes_shape` absent or equal to the input sizes).  What is missing for the full statement is
    the zero-padded case `m > n`, where the code crops the spectrum (see the next theorem). -/
theorem C04_dft_inv_partial {ζ : F} {n : Nat} (hζ : IsPrimitiveRoot ζ n) (s s' : F)
    (hs : s * s' * (n : F) = 1) (x : V F) (j : Nat) (hj : j < n) :
    dftInvEval ζ⁻¹ s' n n (dftEval ζ s n n x) j = x j := by
  rw [dftInv_eq_crop_of_eq, dft_invCrop hζ s s' hs n x j hj]
  simp [hj]

/-- the inverse the documentation promises (transform at the padded size `m ≥ n`, then crop) does
    undo the zero-padded transform — this is what `fixes/dft-inv-padded.patch` implements. -/
theorem C04_dft_inv_documented {ζ : F} {n m : Nat} (hnm : n ≤ m) (hζ : IsPrimitiveRoot ζ m) (s s' : F)
    (hs : s * s' * (m : F) = 1) (x : V F) (j : Nat) (hj : j < n) :
    dftInvCropEval ζ⁻¹ s' m (dftEval ζ s n m x) j = x j := by
  rw [dft_invCrop hζ s s' hs n x j (by omega)]
  simp [hj]

end Field

/-- negation witness for the code as it is (known finding `dft-inv-padded`): input `[0, 1]`,
    `axes_shape = (4,)`; `eval` gives `[1, −i, −1, i]`, `inv` crops it to `[1, −i]` and returns
    `[(1−i)/2, (1+i)/2] ≠ [0, 1]`. -/
theorem C04_dft_inv_padded_fails :
    dftInvEval (-1 : ℂ) (1 / 2) 2 4 (dftEval (-Complex.I) 1 2 4 (fun j => if j = 1 then 1 else 0)) 0 ≠
      (fun j => if j = 1 then (1 : ℂ) else 0) 0 := by
  simp [dftInvEval, dftEval, sumTo, dftEval.npow, Complex.ext_iff]

-- non-vacuity of the hypotheses of the inversion theorems: `-1` is a primitive 2nd root of unity in ℚ
example : IsPrimitiveRoot (-1 : ℚ) 2 := by
  rw [IsPrimitiveRoot.iff_def]
  refine ⟨by norm_num, fun l hl => ?_⟩
  rcases Nat.even_or_odd l with h | h
  · exact even_iff_two_dvd.mp h
  · rw [h.neg_one_pow] at hl; norm_num at hl

/-! ### transverse frequency grid of the propagators -/

section Freq
variable {F : Type} [Field F]

/-- in the statements naturals are embedded by `Nat.cast` -/
local instance : HasNat F := ⟨Nat.cast⟩

/-- `fftfreq` as numpy assembles it (two `arange`s) is the documented signed frequency
    `i/(n·d)` for `2i < n` and `(i − n)/(n·d)` otherwise — exact, for every `n` and `d`. -/
theorem C04_freq_grid (n : Nat) (hn : 0 < n) (d : F) (i : Nat) : fftfreq n d i = signedFreq n d i :=
  fftfreq_eq_signed n hn d i

/-- the grid of the pinned tree was the transpose of the documented one (axis 0 carried the
    `(N_y, Δy)` frequencies); they agree for square shapes with isotropic sampling. -/
theorem C04_freq_grid_pinned (n0 n1 : Nat) (d0 d1 : F) (a b : Nat) :
    kpSqPinned n0 n1 d0 d1 a b = kpSqDoc n0 n1 d0 d1 b a
    ∧ kpSqPinned n0 n0 d0 d0 a b = kpSqDoc n0 n0 d0 d0 a b :=
  ⟨kpSqPinned_eq_doc_transposed n0 n1 d0 d1 a b, kpSqPinned_eq_doc_square n0 d0 a b⟩

end Freq

/-- witness that the transposition matters for anisotropic `dx` on a square shape:
    shape `(2,2)`, `dx = (1, 2)`, index `(0,1)`: documented `1/16`, pinned `1/4`. -/
theorem C04_freq_grid_pinned_differs :
    @kpSqPinned ℚ ⟨Nat.cast⟩ _ _ _ _ 2 2 1 2 0 1 ≠ @kpSqDoc ℚ ⟨Nat.cast⟩ _ _ _ _ 2 2 1 2 0 1 := by
  simp [kpSqPinned, kpSqDoc, fftfreq]
  norm_num

example : (List.range 4).map (@fftfreq ℚ ⟨Nat.cast⟩ _ _ _ 4 (1 / 2)) = [0, 1 / 2, -1, -1 / 2] := by
  simp [fftfreq, List.range, List.range.loop]
  norm_num

end Scico.Props.C04
